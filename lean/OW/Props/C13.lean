import OW.Proofs.Storage
import OW.Proofs.StorageNoPanic
import OW.Proofs.StorageExample
import OW.Proofs.StorageExample2
/-!
C13 — reservoir storage closes its water balance and respects its release rules.

Theorems over the kernel model `OW/Kernels/Storage.lean` (the code AFTER fixes/storage_rain_evap_accounting.diff) at
`α := ℝ` (exact real arithmetic), for runs that return `.ok` (a Go panic is `.error`, fuel exhaustion is `.error "fuel"`).
`keep = true` makes the model record the ghost trace of accepted sub-steps; the outputs do not depend on `keep`.

Per timestep (`step`) and, through `Chain`, for every timestep of a whole run (`run`):
* `sub_steps_sum`         accepted sub-steps sum to Δt
* `storage_balance`       V' − V = (inflow − outflow)·Δt + (rainfallVolume − evaporationVolume)·Δt   (the four REPORTED series)
* `volume_nonneg`         volumes never negative
* `final_level_area`      final level / area = the capped table interpolation at the final volume
* `release_between`       every accepted average release lies between min and max of the release-curve evaluations at the
                          two volumes of the sub-step, and equals the demand when the demand lies between them
* `spill_only_above_full` a sub-step spills only if its updated volume exceeds the full-supply volume, never more than the
                          excess over it
* `terminates`            enough fuel always exists (6 s floor of the sub-step)
* `trace_tie`             the ghost trace IS what the reported series are made of: sub-steps chained V → … → V' (reported volume),
                          positive lengths summing to Δt, `outflow·Δt = Σ (avgOutflow·sub + excess)`
* `reported_outflow_between`, `reported_outflow_eq_demand`
                          corollaries on the REPORTED outflow: between the lowest minimum release and
                          max(highest maximum release, 2·spill capacity); = demand when the demand lies between the curves and
                          nothing spills
* `run_ok_of`, `run_ok_of_release_limited`, `run_ok_of_net_gain`, `run_ok_of_driver_fuel`
                          WHEN a run returns `.ok` (all the theorems above are conditional on that): well-formed tables, V₀ ≥ 0,
                          Δt > 0 and the 6 s safety `Safe` of every timestep's inputs
* `draw_down_panics`      … and when it does not: a net loss at the start volume that drains it within min(Δt, 6 s) ends the run
                          in the code's 6 s-floor panic (two monotone tables inside the property's quantifier as examples)

The second evaluation point of the release rule in `release_between` (`x.acc.trialVol`) is the start volume advanced with the
release of the START volume (`SubStepOK.trialVol_eq`): a trial volume, in general not a volume the reservoir ever holds.
At ℝ the test `if volume < 0 { panic }` after the update (Kernels/Storage.lean `outerBody`) is dead: the updated volume equals the
last trial volume, which the trial loop accepted as non-negative (`outerBody_err_fuel`); in float64 the two expressions round
differently, the correspondence runs cover that branch.
-/
namespace OW.Props.C13
open OW OW.Kernels.Storage OW.Proofs.Storage

/-! ### per-timestep inversion -/

/-- initial locals of the sub-step loop -/
def loop0 (deltaT volume : ℝ) (tags : List String) : Loop ℝ :=
  { timeRemaining := deltaT, subtimestep := deltaT, volume := volume, outflowVolume := 0,
    rainfallVol := 0, evaporationVol := 0, tags := tags, trace := [] }

theorem step_ok (t : Tables ℝ) (keep : Bool) (fo fi : Nat) (deltaT volume : ℝ) (tags : List String)
    (rainfall pet inflow demand : ℝ) (v' : ℝ) (tags' : List String) (o : StepOut ℝ)
    (h : step t keep fo fi deltaT volume tags (rainfall, pet, inflow, demand) = .ok (v', tags', o)) :
    ∃ r, outer t keep fi inflow demand (rainfall / deltaT) (pet / deltaT)
          ((rainfall / deltaT - pet / deltaT) * mmToM) fo (loop0 deltaT volume tags) = .ok r ∧
      v' = r.volume ∧ o.volume = r.volume ∧ o.outflow = r.outflowVolume / deltaT ∧
      o.rainfallVolume = r.rainfallVol / deltaT ∧ o.evaporationVolume = r.evaporationVol / deltaT ∧
      o.trace = r.trace.reverse := by
  unfold step at h
  simp only [bind, Except.bind, zero_lit] at h
  cases hO : outer t keep fi inflow demand (rainfall / deltaT) (pet / deltaT)
          ((rainfall / deltaT - pet / deltaT) * mmToM) fo (loop0 deltaT volume tags) with
  | error e => simp only [loop0] at hO; rw [hO] at h; cases h
  | ok r =>
    simp only [loop0] at hO; rw [hO] at h
    simp only [pure, Except.pure, Except.ok.injEq, Prod.mk.injEq] at h
    obtain ⟨h1, _, h3⟩ := h
    subst h3
    exact ⟨r, rfl, h1.symm, rfl, rfl, rfl, rfl, rfl⟩

/-! ### the per-sub-step facts recorded in the ghost trace -/

/-- everything the loop guarantees about one accepted sub-step -/
structure SubStepOK (t : Tables ℝ) (inflow demand netFlux : ℝ) (x : SubStep ℝ) : Prop where
  relBefore : releaseRate t demand x.volBefore = .ok x.acc.estOutflow
  relAfter : releaseRate t demand x.acc.trialVol = .ok x.acc.estOutflowAfter
  avg : x.acc.avgOutflow = (x.acc.estOutflowAfter + x.acc.estOutflow) / 2
  /-- the second evaluation point of the release rule: the start volume advanced over the sub-step with the release of the START
  volume (`estOutflow`), not with the accepted average — a trial volume, in general NOT a volume the reservoir holds
  (the volume it holds after the update is `volUpdated`, computed with `avgOutflow`) -/
  trialVol_eq : x.acc.trialVol = x.volBefore + ((inflow - x.acc.estOutflow) + netFlux * x.acc.avgArea) * x.acc.sub
  upd : x.volUpdated = x.volBefore + (inflow + netFlux * x.acc.avgArea - x.acc.avgOutflow) * x.acc.sub
  upd_nonneg : 0 ≤ x.volUpdated
  excess_nonneg : 0 ≤ x.excess
  after : x.volAfter = x.volUpdated - x.excess
  spill_above : x.excess ≠ 0 → t.volCurveMax < x.volUpdated
  spill_le : t.volCurveMax < x.volUpdated → x.excess ≤ x.volUpdated - t.volCurveMax
  /-- the spill of a sub-step is at most (2·spill capacity − release)⁺ · sub-step (the over-topping ratio is capped at 2) -/
  spill_rate : 0 ≤ x.acc.sub → 0 ≤ t.maxSpill → x.excess ≤ max (2 * t.maxSpill - x.acc.avgOutflow) 0 * x.acc.sub

theorem trace_ok (t : Tables ℝ) (fo fi : Nat) (inflow demand rps pps netFlux : ℝ) (s r : Loop ℝ)
    (h : outer t true fi inflow demand rps pps netFlux fo s = .ok r)
    (hs : ∀ x ∈ s.trace, SubStepOK t inflow demand netFlux x) :
    ∀ x ∈ r.trace, SubStepOK t inflow demand netFlux x := by
  refine (outer_inv t true fi inflow demand rps pps netFlux
    (fun s => ∀ x ∈ s.trace, SubStepOK t inflow demand netFlux x) ?_ fo s r h hs).1
  intro s s' a _ hP b x hx
  rw [b.trace] at hx
  simp only [if_true, List.mem_cons] at hx
  rcases hx with rfl | hx
  · obtain ⟨p1, p2, p3, p4⟩ := spill_spec t (updated inflow netFlux s a) a.avgOutflow a.sub
    exact ⟨b.est, b.trial.after, b.trial.avg, b.trial.trialVol_eq, rfl, b.upd_nonneg, p1, p2, p3, p4,
      fun h1 h2 => spill_le_rate t (updated inflow netFlux s a) a.avgOutflow a.sub h1 h2⟩
  · exact hP x hx

/-! ### per-timestep theorems -/

/-- **sub_steps_sum** (one timestep): the accepted sub-steps sum to Δt. -/
theorem step_sub_steps_sum (t : Tables ℝ) (fo fi : Nat) (deltaT volume : ℝ) (tags : List String)
    (rainfall pet inflow demand : ℝ) (v' : ℝ) (tags' : List String) (o : StepOut ℝ) (hdt : 0 ≤ deltaT)
    (h : step t true fo fi deltaT volume tags (rainfall, pet, inflow, demand) = .ok (v', tags', o)) :
    (o.trace.map (·.acc.sub)).sum = deltaT := by
  obtain ⟨r, hO, -, -, -, -, -, htr⟩ := step_ok _ _ _ _ _ _ _ _ _ _ _ _ _ _ h
  have key := outer_inv t true fi inflow demand _ _ _
    (fun s => 0 ≤ s.timeRemaining ∧ (s.trace.map (·.acc.sub)).sum + s.timeRemaining = deltaT) ?_ fo _ r hO
    (by simp [loop0, hdt])
  · obtain ⟨⟨h0, hsum⟩, hn⟩ := key
    have : r.timeRemaining = 0 := le_antisymm (not_lt.mp hn) h0
    rw [htr, List.map_reverse, List.sum_reverse]
    linarith
  · intro s s' a hpos hP b
    obtain ⟨h0, hsum⟩ := hP
    have hle : a.sub ≤ s.timeRemaining := le_trans b.trial.sub_le (min_le_left _ _)
    rw [b.time, b.trace]
    simp only [if_true, List.map_cons, List.sum_cons]
    constructor <;> linarith

/-- **storage_balance** (one timestep): the volume change equals (inflow − reported outflow)·Δt plus the reported
rainfall volume minus the reported evaporation volume (both reported as rates, hence ·Δt). -/
theorem step_storage_balance (t : Tables ℝ) (keep : Bool) (fo fi : Nat) (deltaT volume : ℝ) (tags : List String)
    (rainfall pet inflow demand : ℝ) (v' : ℝ) (tags' : List String) (o : StepOut ℝ) (hdt : 0 < deltaT)
    (h : step t keep fo fi deltaT volume tags (rainfall, pet, inflow, demand) = .ok (v', tags', o)) :
    o.volume - volume = (inflow - o.outflow) * deltaT + (o.rainfallVolume - o.evaporationVolume) * deltaT := by
  obtain ⟨r, hO, -, hv, hq, hr, he, -⟩ := step_ok _ _ _ _ _ _ _ _ _ _ _ _ _ _ h
  have key := outer_inv t keep fi inflow demand _ _ _
    (fun s => 0 ≤ s.timeRemaining ∧
      s.volume - volume = inflow * (deltaT - s.timeRemaining) - s.outflowVolume + s.rainfallVol - s.evaporationVol)
    ?_ fo _ r hO (by simp [loop0, hdt.le])
  · obtain ⟨⟨h0, hbal⟩, hn⟩ := key
    have hz : r.timeRemaining = 0 := le_antisymm (not_lt.mp hn) h0
    have hne : deltaT ≠ 0 := ne_of_gt hdt
    rw [hv, hq, hr, he, hbal, hz]
    field_simp
    ring
  · intro s s' a hpos hP b
    obtain ⟨h0, hbal⟩ := hP
    have hle : a.sub ≤ s.timeRemaining := le_trans b.trial.sub_le (min_le_left _ _)
    obtain ⟨-, p2, -, -⟩ := spill_spec t (updated inflow (((rainfall / deltaT - pet / deltaT) * mmToM)) s a) a.avgOutflow a.sub
    refine ⟨by rw [b.time]; linarith, ?_⟩
    rw [b.vol, p2, b.out, b.rain, b.evap, b.time]
    unfold updated
    have key : s.volume + (inflow + (rainfall / deltaT - pet / deltaT) * mmToM * a.avgArea - a.avgOutflow) * a.sub
        - volume = (s.volume - volume) + inflow * a.sub
          + (rainfall / deltaT * mmToM * a.avgArea * a.sub - pet / deltaT * mmToM * a.avgArea * a.sub)
          - a.avgOutflow * a.sub := by ring
    linarith

/-- **volume_nonneg** (one timestep). -/
theorem step_volume_nonneg (t : Tables ℝ) (keep : Bool) (fo fi : Nat) (deltaT volume : ℝ) (tags : List String)
    (rainfall pet inflow demand : ℝ) (v' : ℝ) (tags' : List String) (o : StepOut ℝ)
    (hfull : 0 ≤ t.volCurveMax) (hv0 : 0 ≤ volume)
    (h : step t keep fo fi deltaT volume tags (rainfall, pet, inflow, demand) = .ok (v', tags', o)) :
    0 ≤ o.volume ∧ v' = o.volume := by
  obtain ⟨r, hO, hv', hv, -, -, -, -⟩ := step_ok _ _ _ _ _ _ _ _ _ _ _ _ _ _ h
  have key := outer_inv t keep fi inflow demand _ _ _ (fun s => 0 ≤ s.volume) ?_ fo _ r hO (by simpa [loop0] using hv0)
  · exact ⟨by rw [hv]; exact key.1, by rw [hv', hv]⟩
  · intro s s' a _ _ b
    obtain ⟨p1, p2, p3, p4⟩ := spill_spec t (updated inflow (((rainfall / deltaT - pet / deltaT) * mmToM)) s a) a.avgOutflow a.sub
    rw [b.vol, p2]
    by_cases hc : t.volCurveMax < updated inflow (((rainfall / deltaT - pet / deltaT) * mmToM)) s a
    · have := p4 hc; linarith
    · have : (spill t (updated inflow (((rainfall / deltaT - pet / deltaT) * mmToM)) s a) a.avgOutflow a.sub).1 = 0 := by
        by_contra hne; exact hc (p3 hne)
      rw [this]; linarith [b.upd_nonneg]

/-- the ghost trace of one timestep satisfies `SubStepOK` -/
theorem step_trace_ok (t : Tables ℝ) (fo fi : Nat) (deltaT volume : ℝ) (tags : List String)
    (rainfall pet inflow demand : ℝ) (v' : ℝ) (tags' : List String) (o : StepOut ℝ)
    (h : step t true fo fi deltaT volume tags (rainfall, pet, inflow, demand) = .ok (v', tags', o)) :
    ∀ x ∈ o.trace, SubStepOK t inflow demand ((rainfall / deltaT - pet / deltaT) * mmToM) x := by
  obtain ⟨r, hO, -, -, -, -, -, htr⟩ := step_ok _ _ _ _ _ _ _ _ _ _ _ _ _ _ h
  have := trace_ok t fo fi inflow demand _ _ _ _ r hO (by simp [loop0])
  intro x hx
  rw [htr, List.mem_reverse] at hx
  exact this x hx

/-! ### the tie between the ghost trace and the REPORTED series

`release_between` and `spill_only_above_full` speak about the sub-steps recorded in the ghost trace. What ties the trace to
what the model reports: the sub-steps are chained from the volume `V` the timestep starts at to the volume `V'` it reports
(`Linked`), their lengths are positive and sum to Δt, and the reported outflow rate times Δt is the sum over the sub-steps of
(average release × sub-step length + spilled volume). -/

/-- consecutive sub-steps: the first starts at `v`, each starts at the volume the previous one left, the last leaves `v'` -/
def Linked : ℝ → List (SubStep ℝ) → ℝ → Prop
  | v, [], v' => v' = v
  | v, x :: xs, v' => x.volBefore = v ∧ Linked x.volAfter xs v'

theorem linked_snoc (x : SubStep ℝ) (w : ℝ) (hx : x.volBefore = w) :
    ∀ (xs : List (SubStep ℝ)) (v : ℝ), Linked v xs w → Linked v (xs ++ [x]) x.volAfter := by
  intro xs
  induction xs with
  | nil =>
    intro v h
    simp only [Linked] at h
    subst h
    exact ⟨hx, rfl⟩
  | cons y ys ih =>
    intro v h
    obtain ⟨h1, h2⟩ := h
    exact ⟨h1, ih _ h2⟩

/-- volume that leaves the storage over the recorded sub-steps: Σ (average release · sub-step + spilled volume) -/
def released (xs : List (SubStep ℝ)) : ℝ := (xs.map (fun x => x.acc.avgOutflow * x.acc.sub + x.excess)).sum

/-- **trace tie (one timestep).** The recorded sub-steps are chained from the volume before the timestep to the REPORTED volume,
every sub-step has positive length, and the REPORTED outflow satisfies `outflow·Δt = Σ (avgOutflow·sub + excess)`. -/
theorem step_trace_tie (t : Tables ℝ) (fo fi : Nat) (deltaT volume : ℝ) (tags : List String)
    (rainfall pet inflow demand : ℝ) (v' : ℝ) (tags' : List String) (o : StepOut ℝ) (hdt : 0 < deltaT)
    (h : step t true fo fi deltaT volume tags (rainfall, pet, inflow, demand) = .ok (v', tags', o)) :
    Linked volume o.trace o.volume ∧ (∀ x ∈ o.trace, 0 < x.acc.sub) ∧ o.outflow * deltaT = released o.trace := by
  obtain ⟨r, hO, -, hv, hq, -, -, htr⟩ := step_ok _ _ _ _ _ _ _ _ _ _ _ _ _ _ h
  have key := outer_inv t true fi inflow demand _ _ _
    (fun s => Linked volume s.trace.reverse s.volume ∧ (∀ x ∈ s.trace, 0 < x.acc.sub) ∧ 0 < s.subtimestep ∧
      s.outflowVolume = released s.trace) ?_ fo _ r hO
    (by simp [loop0, Linked, released, hdt])
  · obtain ⟨⟨hl, hp, -, ho⟩, -⟩ := key
    refine ⟨by rw [htr, hv]; exact hl, ?_, ?_⟩
    · intro x hx
      rw [htr, List.mem_reverse] at hx
      exact hp x hx
    · rw [hq, div_mul_cancel₀ _ (ne_of_gt hdt), ho, htr]
      unfold released
      rw [List.map_reverse, List.sum_reverse]
  · intro s s' a hpos hP b
    obtain ⟨hl, hp, hs, ho⟩ := hP
    have hsub0 : 0 < min s.timeRemaining (s.subtimestep * 2) := lt_min hpos (by linarith)
    have hsub : 0 < a.sub := lt_of_lt_of_le (lt_min hsub0 (by norm_num)) b.trial.sub_ge
    rw [b.trace]
    simp only [if_true, List.reverse_cons]
    refine ⟨?_, ?_, by rw [b.sub]; exact hsub, ?_⟩
    · rw [b.vol]
      exact linked_snoc ⟨s.volume, a, _, _, _⟩ s.volume rfl _ _ hl
    · intro x hx
      rcases List.mem_cons.mp hx with rfl | hx
      · exact hsub
      · exact hp x hx
    · rw [b.out, ho]
      unfold released
      simp only [List.map_cons, List.sum_cons]
      ring

theorem released_bounds (m U : ℝ) : ∀ (xs : List (SubStep ℝ)),
    (∀ x ∈ xs, m * x.acc.sub ≤ x.acc.avgOutflow * x.acc.sub + x.excess ∧
      x.acc.avgOutflow * x.acc.sub + x.excess ≤ U * x.acc.sub) →
    m * (xs.map (·.acc.sub)).sum ≤ released xs ∧ released xs ≤ U * (xs.map (·.acc.sub)).sum := by
  intro xs
  induction xs with
  | nil => intro _; simp [released]
  | cons x xs ih =>
    intro h
    obtain ⟨a1, a2⟩ := h x (List.mem_cons_self ..)
    obtain ⟨b1, b2⟩ := ih (fun y hy => h y (List.mem_cons_of_mem _ hy))
    unfold released at b1 b2 ⊢
    simp only [List.map_cons, List.sum_cons, mul_add]
    constructor <;> linarith

/-- one sub-step's contribution to the reported outflow, bounded by the bounds of its average release and the spill capacity -/
theorem substep_released_bounds (t : Tables ℝ) (inflow demand netFlux : ℝ) (x : SubStep ℝ)
    (hx : SubStepOK t inflow demand netFlux x) (hsub : 0 < x.acc.sub) (hS : 0 ≤ t.maxSpill) (m M : ℝ)
    (hm : m ≤ x.acc.avgOutflow) (hM : x.acc.avgOutflow ≤ M) :
    m * x.acc.sub ≤ x.acc.avgOutflow * x.acc.sub + x.excess ∧
    x.acc.avgOutflow * x.acc.sub + x.excess ≤ max M (2 * t.maxSpill) * x.acc.sub ∧
    (x.excess = 0 → x.acc.avgOutflow * x.acc.sub + x.excess ≤ M * x.acc.sub) := by
  have e0 := hx.excess_nonneg
  have e1 := hx.spill_rate hsub.le hS
  have l1 : m * x.acc.sub ≤ x.acc.avgOutflow * x.acc.sub := mul_le_mul_of_nonneg_right hm hsub.le
  have l2 : x.acc.avgOutflow * x.acc.sub ≤ M * x.acc.sub := mul_le_mul_of_nonneg_right hM hsub.le
  have l3 : M * x.acc.sub ≤ max M (2 * t.maxSpill) * x.acc.sub := mul_le_mul_of_nonneg_right (le_max_left _ _) hsub.le
  have l4 : 2 * t.maxSpill * x.acc.sub ≤ max M (2 * t.maxSpill) * x.acc.sub :=
    mul_le_mul_of_nonneg_right (le_max_right _ _) hsub.le
  refine ⟨by linarith, ?_, fun h => by rw [h]; linarith⟩
  rcases le_total (2 * t.maxSpill - x.acc.avgOutflow) 0 with c | c
  · rw [max_eq_right c, zero_mul] at e1
    linarith
  · rw [max_eq_left c] at e1
    have : (2 * t.maxSpill - x.acc.avgOutflow) * x.acc.sub = 2 * t.maxSpill * x.acc.sub - x.acc.avgOutflow * x.acc.sub := by ring
    linarith

/-- global bounds of the release rule from global bounds of the two release curves -/
theorem releaseRate_range (t : Tables ℝ) (ht : Total t) (m M : ℝ)
    (hmin : ∀ v y, cappedPiecewise t v t.minRelease = .ok y → m ≤ y)
    (hmax : ∀ v y, cappedPiecewise t v t.maxRelease = .ok y → y ≤ M)
    (hord : ∀ v y₁ y₂, cappedPiecewise t v t.minRelease = .ok y₁ → cappedPiecewise t v t.maxRelease = .ok y₂ → y₁ ≤ y₂)
    (d v q : ℝ) (h : releaseRate t d v = .ok q) : m ≤ q ∧ q ≤ M := by
  obtain ⟨y₁, h1⟩ := ht.minRelease v
  obtain ⟨y₂, h2⟩ := ht.maxRelease v
  obtain ⟨a, b, -⟩ := releaseRate_between t d v q y₁ y₂ h1 h2 (hord v y₁ y₂ h1 h2) h
  exact ⟨le_trans (hmin v y₁ h1) a, le_trans b (hmax v y₂ h2)⟩

/-- **reported outflow between the release curves (one timestep).** If the minimum-release curve never evaluates below `m`,
the maximum-release curve never above `M`, the curves are ordered and the spill capacity is non-negative, then the REPORTED
outflow of the timestep satisfies `m ≤ outflow ≤ max M (2·maxSpill)`, and `outflow ≤ M` when no sub-step spilled. -/
theorem step_reported_outflow_between (t : Tables ℝ) (ht : Total t) (fo fi : Nat) (deltaT volume : ℝ) (tags : List String)
    (rainfall pet inflow demand : ℝ) (v' : ℝ) (tags' : List String) (o : StepOut ℝ) (hdt : 0 < deltaT)
    (hS : 0 ≤ t.maxSpill) (m M : ℝ)
    (hmin : ∀ v y, cappedPiecewise t v t.minRelease = .ok y → m ≤ y)
    (hmax : ∀ v y, cappedPiecewise t v t.maxRelease = .ok y → y ≤ M)
    (hord : ∀ v y₁ y₂, cappedPiecewise t v t.minRelease = .ok y₁ → cappedPiecewise t v t.maxRelease = .ok y₂ → y₁ ≤ y₂)
    (h : step t true fo fi deltaT volume tags (rainfall, pet, inflow, demand) = .ok (v', tags', o)) :
    m ≤ o.outflow ∧ o.outflow ≤ max M (2 * t.maxSpill) ∧ ((∀ x ∈ o.trace, x.excess = 0) → o.outflow ≤ M) := by
  obtain ⟨-, hpos, htie⟩ := step_trace_tie _ _ _ _ _ _ _ _ _ _ _ _ _ hdt h
  have hsum := step_sub_steps_sum _ _ _ _ _ _ _ _ _ _ _ _ _ hdt.le h
  have hok := step_trace_ok _ _ _ _ _ _ _ _ _ _ _ _ _ h
  have hb : ∀ x ∈ o.trace, m ≤ x.acc.avgOutflow ∧ x.acc.avgOutflow ≤ M := by
    intro x hx
    have sx := hok x hx
    obtain ⟨a1, a2⟩ := releaseRate_range t ht m M hmin hmax hord _ _ _ sx.relBefore
    obtain ⟨b1, b2⟩ := releaseRate_range t ht m M hmin hmax hord _ _ _ sx.relAfter
    rw [sx.avg]
    constructor <;> linarith
  have k1 := released_bounds m (max M (2 * t.maxSpill)) o.trace (fun x hx => by
    obtain ⟨c1, c2, -⟩ := substep_released_bounds t inflow demand _ x (hok x hx) (hpos x hx) hS m M (hb x hx).1 (hb x hx).2
    exact ⟨c1, c2⟩)
  rw [hsum, ← htie] at k1
  refine ⟨le_of_mul_le_mul_right (by linarith [k1.1]) hdt, le_of_mul_le_mul_right (by linarith [k1.2]) hdt, fun h0 => ?_⟩
  have k2 := released_bounds m M o.trace (fun x hx => by
    obtain ⟨c1, -, c3⟩ := substep_released_bounds t inflow demand _ x (hok x hx) (hpos x hx) hS m M (hb x hx).1 (hb x hx).2
    exact ⟨c1, c3 (h0 x hx)⟩)
  rw [hsum, ← htie] at k2
  exact le_of_mul_le_mul_right (by linarith [k2.2]) hdt

/-- **reported outflow = demand (one timestep).** If the demand lies between the two release curves wherever they are
evaluated and no sub-step spills, the REPORTED outflow of the timestep is the demand. -/
theorem step_reported_outflow_eq_demand (t : Tables ℝ) (ht : Total t) (fo fi : Nat) (deltaT volume : ℝ) (tags : List String)
    (rainfall pet inflow demand : ℝ) (v' : ℝ) (tags' : List String) (o : StepOut ℝ) (hdt : 0 < deltaT)
    (hmin : ∀ v y, cappedPiecewise t v t.minRelease = .ok y → y ≤ demand)
    (hmax : ∀ v y, cappedPiecewise t v t.maxRelease = .ok y → demand ≤ y)
    (h : step t true fo fi deltaT volume tags (rainfall, pet, inflow, demand) = .ok (v', tags', o))
    (h0 : ∀ x ∈ o.trace, x.excess = 0) : o.outflow = demand := by
  obtain ⟨-, hpos, htie⟩ := step_trace_tie _ _ _ _ _ _ _ _ _ _ _ _ _ hdt h
  have hsum := step_sub_steps_sum _ _ _ _ _ _ _ _ _ _ _ _ _ hdt.le h
  have hok := step_trace_ok _ _ _ _ _ _ _ _ _ _ _ _ _ h
  have hrel : ∀ v q, releaseRate t demand v = .ok q → q = demand := by
    intro v q hq
    obtain ⟨y₁, h1⟩ := ht.minRelease v
    obtain ⟨y₂, h2⟩ := ht.maxRelease v
    have o1 := hmin v y₁ h1
    have o2 := hmax v y₂ h2
    exact (releaseRate_between t demand v q y₁ y₂ h1 h2 (le_trans o1 o2) hq).2.2 o1 o2
  have k := released_bounds demand demand o.trace (fun x hx => by
    have sx := hok x hx
    have e : x.acc.avgOutflow = demand := by
      rw [sx.avg, hrel _ _ sx.relBefore, hrel _ _ sx.relAfter]; ring
    rw [e, h0 x hx]
    constructor <;> linarith)
  rw [hsum, ← htie] at k
  exact le_antisymm (le_of_mul_le_mul_right k.2 hdt) (le_of_mul_le_mul_right k.1 hdt)

/-- **release_between** for one recorded sub-step: whatever the two release curves evaluate to at the start volume
(`m₁ ≤ M₁`) and at the trial end volume (`m₂ ≤ M₂`) of the sub-step, the accepted average release lies between the smaller
minimum and the larger maximum, and equals the demand when the demand lies between the curves at both volumes. -/
theorem substep_release_between (t : Tables ℝ) (inflow demand netFlux : ℝ) (x : SubStep ℝ)
    (hx : SubStepOK t inflow demand netFlux x) (m₁ M₁ m₂ M₂ : ℝ)
    (h1 : cappedPiecewise t x.volBefore t.minRelease = .ok m₁) (h2 : cappedPiecewise t x.volBefore t.maxRelease = .ok M₁)
    (h3 : cappedPiecewise t x.acc.trialVol t.minRelease = .ok m₂) (h4 : cappedPiecewise t x.acc.trialVol t.maxRelease = .ok M₂)
    (o1 : m₁ ≤ M₁) (o2 : m₂ ≤ M₂) :
    min m₁ m₂ ≤ x.acc.avgOutflow ∧ x.acc.avgOutflow ≤ max M₁ M₂ ∧
    (m₁ ≤ demand → demand ≤ M₁ → m₂ ≤ demand → demand ≤ M₂ → x.acc.avgOutflow = demand) := by
  obtain ⟨a1, a2, a3⟩ := releaseRate_between t demand _ _ _ _ h1 h2 o1 hx.relBefore
  obtain ⟨b1, b2, b3⟩ := releaseRate_between t demand _ _ _ _ h3 h4 o2 hx.relAfter
  rw [hx.avg]
  have := min_le_left m₁ m₂
  have := min_le_right m₁ m₂
  have := le_max_left M₁ M₂
  have := le_max_right M₁ M₂
  refine ⟨by linarith, by linarith, fun c1 c2 c3 c4 => ?_⟩
  rw [a3 c1 c2, b3 c3 c4]; ring

/-- **spill_only_above_full** for one recorded sub-step: water is spilled only when the updated volume exceeds the
full-supply volume, the spill is non-negative and never takes the volume below full supply. -/
theorem substep_spill_only_above_full (t : Tables ℝ) (inflow demand netFlux : ℝ) (x : SubStep ℝ)
    (hx : SubStepOK t inflow demand netFlux x) :
    0 ≤ x.excess ∧ x.volAfter = x.volUpdated - x.excess ∧
    (x.excess ≠ 0 → t.volCurveMax < x.volUpdated ∧ t.volCurveMax ≤ x.volAfter) := by
  refine ⟨hx.excess_nonneg, hx.after, fun h => ⟨hx.spill_above h, ?_⟩⟩
  have := hx.spill_le (hx.spill_above h)
  rw [hx.after]; linarith

/-! ### whole runs -/

/-- `R prevVolume inputs outputs` holds for every timestep of a run that starts at volume `v` -/
def Chain (R : ℝ → StepIn ℝ → StepOut ℝ → Prop) : ℝ → List (StepIn ℝ) → List (StepOut ℝ) → Prop
  | _, [], [] => True
  | v, i :: is, o :: os => R v i o ∧ Chain R o.volume is os
  | _, _, _ => False

/-- volume after the last timestep -/
def lastVolume (v : ℝ) : List (StepOut ℝ) → ℝ
  | [] => v
  | o :: os => lastVolume o.volume os

/-- lift a per-timestep fact (which may use `P` of the volume the timestep starts from, re-established at its end)
to every timestep of `steps` -/
theorem steps_chain (t : Tables ℝ) (keep : Bool) (fo fi : Nat) (deltaT : ℝ) (P : ℝ → Prop)
    (R : ℝ → StepIn ℝ → StepOut ℝ → Prop)
    (hR : ∀ v tags i v' tags' o, P v → step t keep fo fi deltaT v tags i = .ok (v', tags', o) →
      R v i o ∧ v' = o.volume ∧ P v') :
    ∀ (ins : List (StepIn ℝ)) (v : ℝ) (tags : List String) (v' : ℝ) (tags' : List String) (outs : List (StepOut ℝ)),
      P v → steps t keep fo fi deltaT v tags ins = .ok (v', tags', outs) →
      Chain R v ins outs ∧ v' = lastVolume v outs ∧ P v' := by
  intro ins
  induction ins with
  | nil =>
    intro v tags v' tags' outs hv h
    simp only [steps, pure, Except.pure, Except.ok.injEq, Prod.mk.injEq] at h
    obtain ⟨rfl, -, rfl⟩ := h
    exact ⟨trivial, rfl, hv⟩
  | cons i rest ih =>
    intro v tags v' tags' outs hv h
    simp only [steps, bind, Except.bind] at h
    cases hS : step t keep fo fi deltaT v tags i with
    | error e => rw [hS] at h; cases h
    | ok res =>
      obtain ⟨v1, tg1, o⟩ := res
      rw [hS] at h; simp only at h
      cases hT : steps t keep fo fi deltaT v1 tg1 rest with
      | error e => rw [hT] at h; cases h
      | ok res2 =>
        obtain ⟨v2, tg2, os⟩ := res2
        rw [hT] at h
        simp only [pure, Except.pure, Except.ok.injEq, Prod.mk.injEq] at h
        obtain ⟨rfl, -, rfl⟩ := h
        obtain ⟨r1, e1, p1⟩ := hR v tags i v1 tg1 o hv hS
        obtain ⟨c, e2, p2⟩ := ih v1 tg1 v2 tg2 os p1 hT
        subst e1
        exact ⟨⟨r1, c⟩, e2, p2⟩

theorem run_ok (t : Tables ℝ) (keep : Bool) (fo fi : Nat) (deltaT v0 : ℝ) (ins : List (StepIn ℝ)) (r : RunOut ℝ)
    (h : run t keep fo fi deltaT v0 ins = .ok r) :
    ∃ tags, steps t keep fo fi deltaT v0 [] ins = .ok (r.volume, tags, r.outs) ∧
      cappedPiecewise t r.volume t.levels = .ok r.level ∧ cappedPiecewise t r.volume t.areas = .ok r.area := by
  unfold run at h
  simp only [bind, Except.bind] at h
  cases hS : steps t keep fo fi deltaT v0 [] ins with
  | error e => rw [hS] at h; cases h
  | ok res =>
    obtain ⟨v, tags, outs⟩ := res
    rw [hS] at h; simp only at h
    cases hL : cappedPiecewise t v t.levels with
    | error e => rw [hL] at h; cases h
    | ok level =>
      rw [hL] at h; simp only at h
      cases hA : cappedPiecewise t v t.areas with
      | error e => rw [hA] at h; cases h
      | ok area =>
        rw [hA] at h
        simp only [pure, Except.pure, Except.ok.injEq] at h
        subst h
        exact ⟨tags, rfl, hL, hA⟩

/-- **sub_steps_sum.** In every timestep of a successful run the accepted sub-steps sum to Δt. -/
theorem sub_steps_sum (t : Tables ℝ) (fo fi : Nat) (deltaT v0 : ℝ) (ins : List (StepIn ℝ)) (r : RunOut ℝ)
    (hdt : 0 ≤ deltaT) (h : run t true fo fi deltaT v0 ins = .ok r) :
    Chain (fun _ _ o => (o.trace.map (·.acc.sub)).sum = deltaT) v0 ins r.outs := by
  obtain ⟨tags, hS, -, -⟩ := run_ok _ _ _ _ _ _ _ _ h
  refine (steps_chain t true fo fi deltaT (fun _ => True) _ ?_ ins v0 [] _ _ _ trivial hS).1
  intro v tg i v' tg' o _ hs
  obtain ⟨rainfall, pet, inflow, demand⟩ := i
  obtain ⟨r', hO, e, e2, -⟩ := step_ok _ _ _ _ _ _ _ _ _ _ _ _ _ _ hs
  exact ⟨step_sub_steps_sum _ _ _ _ _ _ _ _ _ _ _ _ _ hdt hs, by rw [e, e2], trivial⟩

/-- **storage_balance.** In every timestep of a successful run (any `keep`), with `V` the volume before the timestep:
`V' − V = (inflow − outflow)·Δt + (rainfallVolume − evaporationVolume)·Δt`, where outflow, rainfallVolume and
evaporationVolume are the series the model REPORTS. -/
theorem storage_balance (t : Tables ℝ) (keep : Bool) (fo fi : Nat) (deltaT v0 : ℝ) (ins : List (StepIn ℝ)) (r : RunOut ℝ)
    (hdt : 0 < deltaT) (h : run t keep fo fi deltaT v0 ins = .ok r) :
    Chain (fun v i o => o.volume - v = (i.2.2.1 - o.outflow) * deltaT + (o.rainfallVolume - o.evaporationVolume) * deltaT)
      v0 ins r.outs := by
  obtain ⟨tags, hS, -, -⟩ := run_ok _ _ _ _ _ _ _ _ h
  refine (steps_chain t keep fo fi deltaT (fun _ => True) _ ?_ ins v0 [] _ _ _ trivial hS).1
  intro v tg i v' tg' o _ hs
  obtain ⟨rainfall, pet, inflow, demand⟩ := i
  obtain ⟨r', hO, e, e2, -⟩ := step_ok _ _ _ _ _ _ _ _ _ _ _ _ _ _ hs
  exact ⟨step_storage_balance _ _ _ _ _ _ _ _ _ _ _ _ _ _ hdt hs, by rw [e, e2], trivial⟩

/-- **volume_nonneg.** Starting from a non-negative volume (and a non-negative full-supply volume) every reported
volume and the final state volume are non-negative. -/
theorem volume_nonneg (t : Tables ℝ) (keep : Bool) (fo fi : Nat) (deltaT v0 : ℝ) (ins : List (StepIn ℝ)) (r : RunOut ℝ)
    (hfull : 0 ≤ t.volCurveMax) (hv0 : 0 ≤ v0) (h : run t keep fo fi deltaT v0 ins = .ok r) :
    Chain (fun _ _ o => 0 ≤ o.volume) v0 ins r.outs ∧ 0 ≤ r.volume := by
  obtain ⟨tags, hS, -, -⟩ := run_ok _ _ _ _ _ _ _ _ h
  have := steps_chain t keep fo fi deltaT (fun v => 0 ≤ v) (fun _ _ o => 0 ≤ o.volume) ?_ ins v0 [] _ _ _ hv0 hS
  · exact ⟨this.1, this.2.2⟩
  · intro v tg i v' tg' o hv hs
    obtain ⟨rainfall, pet, inflow, demand⟩ := i
    obtain ⟨a, b⟩ := step_volume_nonneg _ _ _ _ _ _ _ _ _ _ _ _ _ _ hfull hv hs
    exact ⟨a, b, by rw [b]; exact a⟩

/-- **final_level_area.** The final states are: the volume after the last timestep, and the level / area that the
capped level-volume-area interpolation gives at that volume. -/
theorem final_level_area (t : Tables ℝ) (keep : Bool) (fo fi : Nat) (deltaT v0 : ℝ) (ins : List (StepIn ℝ)) (r : RunOut ℝ)
    (h : run t keep fo fi deltaT v0 ins = .ok r) :
    r.volume = lastVolume v0 r.outs ∧
    cappedPiecewise t r.volume t.levels = .ok r.level ∧ cappedPiecewise t r.volume t.areas = .ok r.area := by
  obtain ⟨tags, hS, hL, hA⟩ := run_ok _ _ _ _ _ _ _ _ h
  refine ⟨?_, hL, hA⟩
  refine (steps_chain t keep fo fi deltaT (fun _ => True) (fun _ _ _ => True) ?_ ins v0 [] _ _ _ trivial hS).2.1
  intro v tg i v' tg' o _ hs
  obtain ⟨rainfall, pet, inflow, demand⟩ := i
  obtain ⟨r', hO, e, e2, -⟩ := step_ok _ _ _ _ _ _ _ _ _ _ _ _ _ _ hs
  exact ⟨trivial, by rw [e, e2], trivial⟩

/-- **release_between.** For every accepted sub-step of every timestep of a successful run: whatever the release curves
evaluate to at the sub-step's start volume (`m₁ ≤ M₁`) and trial end volume (`m₂ ≤ M₂`), the average release of the
sub-step lies in `[min m₁ m₂, max M₁ M₂]` and equals the timestep's demand when the demand lies between the curves. -/
theorem release_between (t : Tables ℝ) (fo fi : Nat) (deltaT v0 : ℝ) (ins : List (StepIn ℝ)) (r : RunOut ℝ)
    (h : run t true fo fi deltaT v0 ins = .ok r) :
    Chain (fun _ i o => ∀ x ∈ o.trace, ∀ m₁ M₁ m₂ M₂ : ℝ,
        cappedPiecewise t x.volBefore t.minRelease = .ok m₁ → cappedPiecewise t x.volBefore t.maxRelease = .ok M₁ →
        cappedPiecewise t x.acc.trialVol t.minRelease = .ok m₂ → cappedPiecewise t x.acc.trialVol t.maxRelease = .ok M₂ →
        m₁ ≤ M₁ → m₂ ≤ M₂ →
        min m₁ m₂ ≤ x.acc.avgOutflow ∧ x.acc.avgOutflow ≤ max M₁ M₂ ∧
        (m₁ ≤ i.2.2.2 → i.2.2.2 ≤ M₁ → m₂ ≤ i.2.2.2 → i.2.2.2 ≤ M₂ → x.acc.avgOutflow = i.2.2.2))
      v0 ins r.outs := by
  obtain ⟨tags, hS, -, -⟩ := run_ok _ _ _ _ _ _ _ _ h
  refine (steps_chain t true fo fi deltaT (fun _ => True) _ ?_ ins v0 [] _ _ _ trivial hS).1
  intro v tg i v' tg' o _ hs
  obtain ⟨rainfall, pet, inflow, demand⟩ := i
  obtain ⟨r', hO, e, e2, -⟩ := step_ok _ _ _ _ _ _ _ _ _ _ _ _ _ _ hs
  refine ⟨?_, by rw [e, e2], trivial⟩
  intro x hx m₁ M₁ m₂ M₂ h1 h2 h3 h4 o1 o2
  exact substep_release_between t inflow demand _ x (step_trace_ok _ _ _ _ _ _ _ _ _ _ _ _ _ hs x hx) m₁ M₁ m₂ M₂ h1 h2 h3 h4 o1 o2

/-- **spill_only_above_full.** For every accepted sub-step of every timestep of a successful run: the spilled volume is
non-negative, it is what separates the updated volume from the volume carried on, and it is non-zero only if the updated
volume exceeds the full-supply volume `volCurveMax` — and then the volume carried on is still at least `volCurveMax`. -/
theorem spill_only_above_full (t : Tables ℝ) (fo fi : Nat) (deltaT v0 : ℝ) (ins : List (StepIn ℝ)) (r : RunOut ℝ)
    (h : run t true fo fi deltaT v0 ins = .ok r) :
    Chain (fun _ _ o => ∀ x ∈ o.trace, 0 ≤ x.excess ∧ x.volAfter = x.volUpdated - x.excess ∧
        (x.excess ≠ 0 → t.volCurveMax < x.volUpdated ∧ t.volCurveMax ≤ x.volAfter))
      v0 ins r.outs := by
  obtain ⟨tags, hS, -, -⟩ := run_ok _ _ _ _ _ _ _ _ h
  refine (steps_chain t true fo fi deltaT (fun _ => True) _ ?_ ins v0 [] _ _ _ trivial hS).1
  intro v tg i v' tg' o _ hs
  obtain ⟨rainfall, pet, inflow, demand⟩ := i
  obtain ⟨r', hO, e, e2, -⟩ := step_ok _ _ _ _ _ _ _ _ _ _ _ _ _ _ hs
  refine ⟨?_, by rw [e, e2], trivial⟩
  intro x hx
  exact substep_spill_only_above_full t inflow demand _ x (step_trace_ok _ _ _ _ _ _ _ _ _ _ _ _ _ hs x hx)

/-- **trace_tie.** In every timestep of a successful run the recorded sub-steps are chained from the volume `V` before the
timestep to the REPORTED volume `V'` (first `volBefore = V`, each `volBefore` = the previous `volAfter`, last `volAfter = V'`),
have positive lengths summing to Δt, and the REPORTED outflow is `outflow·Δt = Σ (avgOutflow·sub + excess)`: the statements
`release_between` / `spill_only_above_full` about the trace are statements about the quantities the reported series are made of. -/
theorem trace_tie (t : Tables ℝ) (fo fi : Nat) (deltaT v0 : ℝ) (ins : List (StepIn ℝ)) (r : RunOut ℝ)
    (hdt : 0 < deltaT) (h : run t true fo fi deltaT v0 ins = .ok r) :
    Chain (fun v _ o => Linked v o.trace o.volume ∧ (∀ x ∈ o.trace, 0 < x.acc.sub) ∧
        (o.trace.map (·.acc.sub)).sum = deltaT ∧ o.outflow * deltaT = released o.trace) v0 ins r.outs := by
  obtain ⟨tags, hS, -, -⟩ := run_ok _ _ _ _ _ _ _ _ h
  refine (steps_chain t true fo fi deltaT (fun _ => True) _ ?_ ins v0 [] _ _ _ trivial hS).1
  intro v tg i v' tg' o _ hs
  obtain ⟨rainfall, pet, inflow, demand⟩ := i
  obtain ⟨r', hO, e, e2, -⟩ := step_ok _ _ _ _ _ _ _ _ _ _ _ _ _ _ hs
  obtain ⟨a, b, c⟩ := step_trace_tie _ _ _ _ _ _ _ _ _ _ _ _ _ hdt hs
  exact ⟨⟨a, b, step_sub_steps_sum _ _ _ _ _ _ _ _ _ _ _ _ _ hdt.le hs, c⟩, by rw [e, e2], trivial⟩

/-- **reported_outflow_between** (corollary of `release_between`, `spill_only_above_full` and `trace_tie` on the REPORTED
series). If every table evaluation returns, the minimum-release curve never evaluates below `m`, the maximum-release curve
never above `M`, the curves are ordered where evaluated and the spill capacity `maxSpill` is non-negative, then in every timestep
of a successful run `m ≤ outflow ≤ max M (2·maxSpill)` (the over-topping ratio is capped at 2), and `outflow ≤ M` in a timestep
without spill. -/
theorem reported_outflow_between (t : Tables ℝ) (ht : Total t) (fo fi : Nat) (deltaT v0 : ℝ) (ins : List (StepIn ℝ))
    (r : RunOut ℝ) (hdt : 0 < deltaT) (hS : 0 ≤ t.maxSpill) (m M : ℝ)
    (hmin : ∀ v y, cappedPiecewise t v t.minRelease = .ok y → m ≤ y)
    (hmax : ∀ v y, cappedPiecewise t v t.maxRelease = .ok y → y ≤ M)
    (hord : ∀ v y₁ y₂, cappedPiecewise t v t.minRelease = .ok y₁ → cappedPiecewise t v t.maxRelease = .ok y₂ → y₁ ≤ y₂)
    (h : run t true fo fi deltaT v0 ins = .ok r) :
    Chain (fun _ _ o => m ≤ o.outflow ∧ o.outflow ≤ max M (2 * t.maxSpill) ∧
        ((∀ x ∈ o.trace, x.excess = 0) → o.outflow ≤ M)) v0 ins r.outs := by
  obtain ⟨tags, hS', -, -⟩ := run_ok _ _ _ _ _ _ _ _ h
  refine (steps_chain t true fo fi deltaT (fun _ => True) _ ?_ ins v0 [] _ _ _ trivial hS').1
  intro v tg i v' tg' o _ hs
  obtain ⟨rainfall, pet, inflow, demand⟩ := i
  obtain ⟨r', hO, e, e2, -⟩ := step_ok _ _ _ _ _ _ _ _ _ _ _ _ _ _ hs
  exact ⟨step_reported_outflow_between t ht _ _ _ _ _ _ _ _ _ _ _ _ hdt hS m M hmin hmax hord hs, by rw [e, e2], trivial⟩

/-- **reported_outflow_eq_demand.** In every timestep of a successful run whose demand lies between the two release curves
wherever they are evaluated, and in which no sub-step spills, the REPORTED outflow equals the demand. -/
theorem reported_outflow_eq_demand (t : Tables ℝ) (ht : Total t) (fo fi : Nat) (deltaT v0 : ℝ) (ins : List (StepIn ℝ))
    (r : RunOut ℝ) (hdt : 0 < deltaT) (h : run t true fo fi deltaT v0 ins = .ok r) :
    Chain (fun _ i o =>
        (∀ v y, cappedPiecewise t v t.minRelease = .ok y → y ≤ i.2.2.2) →
        (∀ v y, cappedPiecewise t v t.maxRelease = .ok y → i.2.2.2 ≤ y) →
        (∀ x ∈ o.trace, x.excess = 0) → o.outflow = i.2.2.2) v0 ins r.outs := by
  obtain ⟨tags, hS', -, -⟩ := run_ok _ _ _ _ _ _ _ _ h
  refine (steps_chain t true fo fi deltaT (fun _ => True) _ ?_ ins v0 [] _ _ _ trivial hS').1
  intro v tg i v' tg' o _ hs
  obtain ⟨rainfall, pet, inflow, demand⟩ := i
  obtain ⟨r', hO, e, e2, -⟩ := step_ok _ _ _ _ _ _ _ _ _ _ _ _ _ _ hs
  exact ⟨fun hmin hmax h0 => step_reported_outflow_eq_demand t ht _ _ _ _ _ _ _ _ _ _ _ _ hdt hmin hmax hs h0,
    by rw [e, e2], trivial⟩

/-! ### termination -/

theorem step_ne_fuel (t : Tables ℝ) (keep : Bool) (fo fi n k : Nat) (deltaT : ℝ)
    (hk : deltaT ≤ 6 * k) (hn : deltaT ≤ 6 * 2 ^ n) (hfo : k + 1 ≤ fo) (hfi : n + 1 ≤ fi)
    (v : ℝ) (tags : List String) (i : StepIn ℝ) :
    step t keep fo fi deltaT v tags i ≠ .error "fuel" := by
  obtain ⟨rainfall, pet, inflow, demand⟩ := i
  unfold step
  simp only [bind, Except.bind, zero_lit]
  cases hO : outer t keep fi inflow demand (rainfall / deltaT) (pet / deltaT)
          ((rainfall / deltaT - pet / deltaT) * mmToM) fo (loop0 deltaT v tags) with
  | error e =>
    simp only [loop0] at hO; rw [hO]; simp only
    intro h; cases h
    refine outer_ne_fuel t keep fi n inflow demand _ _ _ hfi k fo (loop0 deltaT v tags) ?_ hk hn hfo hO
    intro hpos
    left
    simp only [loop0] at hpos ⊢
    linarith
  | ok r =>
    simp only [loop0] at hO; rw [hO]
    intro h; cases h

theorem steps_ne_fuel (t : Tables ℝ) (keep : Bool) (fo fi n k : Nat) (deltaT : ℝ)
    (hk : deltaT ≤ 6 * k) (hn : deltaT ≤ 6 * 2 ^ n) (hfo : k + 1 ≤ fo) (hfi : n + 1 ≤ fi) :
    ∀ (ins : List (StepIn ℝ)) (v : ℝ) (tags : List String), steps t keep fo fi deltaT v tags ins ≠ .error "fuel" := by
  intro ins
  induction ins with
  | nil => intro v tags h; simp only [steps, pure, Except.pure] at h; cases h
  | cons i rest ih =>
    intro v tags
    simp only [steps, bind, Except.bind]
    cases hS : step t keep fo fi deltaT v tags i with
    | error e =>
      simp only; intro h; cases h
      exact step_ne_fuel t keep fo fi n k deltaT hk hn hfo hfi v tags i hS
    | ok res =>
      obtain ⟨v1, tg1, o⟩ := res
      simp only
      cases hT : steps t keep fo fi deltaT v1 tg1 rest with
      | error e => simp only; intro h; cases h; exact ih v1 tg1 hT
      | ok res2 => simp only [pure, Except.pure]; intro h; cases h

/-- **terminates.** Enough fuel always exists, because of the 6 s floor of the sub-step: if `Δt ≤ 6·k` and `Δt ≤ 6·2ⁿ`
then with more than `k` units of outer fuel and more than `n` units of inner fuel NO run ends in `.error "fuel"` — for
all tables, inputs and initial volumes (a run may still end in a panic of the code, `.error "other"` etc.). -/
theorem terminates (t : Tables ℝ) (keep : Bool) (fo fi n k : Nat) (deltaT : ℝ)
    (hk : deltaT ≤ 6 * k) (hn : deltaT ≤ 6 * 2 ^ n) (hfo : k + 1 ≤ fo) (hfi : n + 1 ≤ fi)
    (v0 : ℝ) (ins : List (StepIn ℝ)) :
    run t keep fo fi deltaT v0 ins ≠ .error "fuel" := by
  unfold run
  simp only [bind, Except.bind]
  cases hS : steps t keep fo fi deltaT v0 [] ins with
  | error e => simp only; intro h; cases h; exact steps_ne_fuel t keep fo fi n k deltaT hk hn hfo hfi ins v0 [] hS
  | ok res =>
    obtain ⟨v, tags, outs⟩ := res
    simp only
    cases hL : cappedPiecewise t v t.levels with
    | error e => simp only; intro h; cases h; exact capped_ne_fuel _ _ _ hL
    | ok level =>
      simp only
      cases hA : cappedPiecewise t v t.areas with
      | error e => simp only; intro h; cases h; exact capped_ne_fuel _ _ _ hA
      | ok area => simp only [pure, Except.pure]; intro h; cases h

/-- The fuel the compiled driver uses (`fuelOuter = 400000`, `fuelInner = 4000`) suffices for every timestep length
of the model's documented range `DeltaT ≤ 86400` s (k = 14400, n = 14: 6·2¹⁴ = 98304). -/
theorem terminates_driver_fuel (t : Tables ℝ) (keep : Bool) (deltaT : ℝ) (hdt : deltaT ≤ 86400)
    (v0 : ℝ) (ins : List (StepIn ℝ)) :
    run t keep fuelOuter fuelInner deltaT v0 ins ≠ .error "fuel" := by
  apply terminates t keep fuelOuter fuelInner 14 14400 deltaT
  · norm_num; linarith
  · norm_num; linarith
  · decide
  · decide

/-- … and for an arbitrary timestep length some fuel suffices. -/
theorem terminates_exists (t : Tables ℝ) (keep : Bool) (deltaT : ℝ) :
    ∃ N : Nat, ∀ fo fi, N ≤ fo → N ≤ fi → ∀ v0 ins, run t keep fo fi deltaT v0 ins ≠ .error "fuel" := by
  obtain ⟨k, hk⟩ := exists_nat_ge (deltaT / 6)
  refine ⟨k + 1, fun fo fi hfo hfi v0 ins => ?_⟩
  have h1 : deltaT ≤ 6 * (k:ℝ) := by
    have := (div_le_iff₀ (by norm_num : (0:ℝ) < 6)).mp hk
    linarith
  have h2 : (k:ℝ) ≤ 2 ^ k := by exact_mod_cast (Nat.lt_two_pow_self (n := k)).le
  exact terminates t keep fo fi k k deltaT h1 (by linarith) hfo hfi v0 ins

/-! ### when does a run return? (no panic)

Every theorem above is about runs that return `.ok`. The code does NOT always return: its sub-step controller ends the process
(`panic("testVol < 0.0 and subtimestep <= MIN_TIMESTEP_SECONDS…")`) when a trial volume is negative and the sub-step is at its
6 s floor — it does not limit the release or the evaporation to the water present. So "V ≥ 0" holds for runs that return
because the run does not return otherwise. The theorems of this section say when a run returns:
`run_ok_of` (abstract condition `Safe`: the two negative-volume tests pass for every sub-step of at most 6 s at every non-negative
volume), and its instances `run_ok_of_release_limited` (the release rule never releases in 6 s more than the water present, and
the surface flux never outweighs the inflow) and `run_ok_of_net_gain` (the reservoir never loses water).
`draw_down_panics` is a concrete table and input INSIDE the property's quantifier on which the model returns `.error "other"`. -/

/-- the net surface flux (m/s) of a timestep, as the code computes it -/
noncomputable def netFluxOf (deltaT : ℝ) (i : StepIn ℝ) : ℝ := (i.1 / deltaT - i.2.1 / deltaT) * mmToM

/-- **6 s safety of a timestep's inputs**: at every non-negative volume the two "trial volume negative" tests of the sub-step
controller pass for every sub-step of at most 6 s (`SafeAt`, OW/Proofs/StorageNoPanic.lean) -/
def Safe (t : Tables ℝ) (deltaT : ℝ) (i : StepIn ℝ) : Prop :=
  ∀ v est, 0 ≤ v → releaseRate t i.2.2.2 v = .ok est → SafeAt t i.2.2.1 i.2.2.2 (netFluxOf deltaT i) v est

theorem step_err_fuel (t : Tables ℝ) (ht : Total t) (hfull : 0 ≤ t.volCurveMax) (keep : Bool) (fo fi : Nat)
    (deltaT volume : ℝ) (hdt : 0 < deltaT) (hv : 0 ≤ volume) (tags : List String) (i : StepIn ℝ) (hsafe : Safe t deltaT i)
    (e : String) (h : step t keep fo fi deltaT volume tags i = .error e) : e = "fuel" := by
  obtain ⟨rainfall, pet, inflow, demand⟩ := i
  unfold step at h
  simp only [bind, Except.bind, zero_lit] at h
  cases hO : outer t keep fi inflow demand (rainfall / deltaT) (pet / deltaT)
          ((rainfall / deltaT - pet / deltaT) * mmToM) fo (loop0 deltaT volume tags) with
  | error e' =>
    have hO' := hO
    simp only [loop0] at hO; rw [hO] at h
    simp only [Except.error.injEq] at h
    subst h
    exact outer_err_fuel t ht hfull keep fi inflow demand _ _ _ hsafe fo (loop0 deltaT volume tags) _
      (by simpa [loop0] using hv) (by simpa [loop0] using hdt) hO'
  | ok r =>
    simp only [loop0] at hO; rw [hO] at h
    cases h

theorem steps_err_fuel (t : Tables ℝ) (ht : Total t) (hfull : 0 ≤ t.volCurveMax) (keep : Bool) (fo fi : Nat)
    (deltaT : ℝ) (hdt : 0 < deltaT) :
    ∀ (ins : List (StepIn ℝ)) (v : ℝ) (tags : List String) (e : String), 0 ≤ v → (∀ i ∈ ins, Safe t deltaT i) →
      steps t keep fo fi deltaT v tags ins = .error e → e = "fuel" := by
  intro ins
  induction ins with
  | nil => intro v tags e _ _ h; simp only [steps, pure, Except.pure] at h; cases h
  | cons i rest ih =>
    intro v tags e hv hsafe h
    simp only [steps, bind, Except.bind] at h
    cases hS : step t keep fo fi deltaT v tags i with
    | error e' =>
      rw [hS] at h
      simp only [Except.error.injEq] at h
      subst h
      exact step_err_fuel t ht hfull keep fo fi deltaT v hdt hv tags i (hsafe i (List.mem_cons_self ..)) _ hS
    | ok res =>
      obtain ⟨v1, tg1, o⟩ := res
      rw [hS] at h; simp only at h
      obtain ⟨rainfall, pet, inflow, demand⟩ := i
      obtain ⟨a, b⟩ := step_volume_nonneg _ _ _ _ _ _ _ _ _ _ _ _ _ _ hfull hv hS
      cases hT : steps t keep fo fi deltaT v1 tg1 rest with
      | error e' =>
        rw [hT] at h
        simp only [Except.error.injEq] at h
        subst h
        exact ih v1 tg1 _ (by rw [b]; exact a) (fun j hj => hsafe j (List.mem_cons_of_mem _ hj)) hT
      | ok res2 =>
        rw [hT] at h
        simp only [pure, Except.pure] at h
        cases h

/-- Under `Total`, a non-negative full-supply and initial volume, Δt > 0 and `Safe` inputs, a run can only fail by running
out of fuel. -/
theorem run_err_fuel (t : Tables ℝ) (ht : Total t) (hfull : 0 ≤ t.volCurveMax) (keep : Bool) (fo fi : Nat)
    (deltaT v0 : ℝ) (hdt : 0 < deltaT) (hv0 : 0 ≤ v0) (ins : List (StepIn ℝ)) (hsafe : ∀ i ∈ ins, Safe t deltaT i)
    (e : String) (h : run t keep fo fi deltaT v0 ins = .error e) : e = "fuel" := by
  unfold run at h
  simp only [bind, Except.bind] at h
  cases hS : steps t keep fo fi deltaT v0 [] ins with
  | error e' =>
    rw [hS] at h
    simp only [Except.error.injEq] at h
    subst h
    exact steps_err_fuel t ht hfull keep fo fi deltaT hdt ins v0 [] _ hv0 hsafe hS
  | ok res =>
    obtain ⟨v, tags, outs⟩ := res
    rw [hS] at h; simp only at h
    obtain ⟨l, hl⟩ := ht.levels v
    obtain ⟨a, ha⟩ := ht.areas v
    rw [hl] at h; simp only at h
    rw [ha] at h
    simp only [pure, Except.pure] at h
    cases h

/-- **run_ok_of (no panic).** A run RETURNS — no panic of the code, no fuel exhaustion — when
* every table evaluation returns (`Total`; by `total_of_wellFormed`: at least two knots, the curve ends read from the volume
  table, value tables at least as long as the volume table),
* the full-supply volume and the initial volume are non-negative and `0 < Δt ≤ 6·k`, `Δt ≤ 6·2ⁿ` with fuel `> k` / `> n`, and
* every timestep's inputs are `Safe`: at every non-negative volume the two negative-volume tests pass for sub-steps ≤ 6 s. -/
theorem run_ok_of (t : Tables ℝ) (ht : Total t) (hfull : 0 ≤ t.volCurveMax) (keep : Bool) (fo fi n k : Nat) (deltaT : ℝ)
    (hdt : 0 < deltaT) (hk : deltaT ≤ 6 * k) (hn : deltaT ≤ 6 * 2 ^ n) (hfo : k + 1 ≤ fo) (hfi : n + 1 ≤ fi)
    (v0 : ℝ) (hv0 : 0 ≤ v0) (ins : List (StepIn ℝ)) (hsafe : ∀ i ∈ ins, Safe t deltaT i) :
    ∃ r, run t keep fo fi deltaT v0 ins = .ok r := by
  cases h : run t keep fo fi deltaT v0 ins with
  | ok r => exact ⟨r, rfl⟩
  | error e =>
    have := run_err_fuel t ht hfull keep fo fi deltaT v0 hdt hv0 ins hsafe e h
    subst this
    exact absurd h (terminates t keep fo fi n k deltaT hk hn hfo hfi v0 ins)

/-- `run_ok_of` with the fuel of the compiled driver, for `0 < Δt ≤ 86400` -/
theorem run_ok_of_driver_fuel (t : Tables ℝ) (ht : Total t) (hfull : 0 ≤ t.volCurveMax) (keep : Bool) (deltaT : ℝ)
    (hdt : 0 < deltaT) (hdt' : deltaT ≤ 86400) (v0 : ℝ) (hv0 : 0 ≤ v0) (ins : List (StepIn ℝ))
    (hsafe : ∀ i ∈ ins, Safe t deltaT i) :
    ∃ r, run t keep fuelOuter fuelInner deltaT v0 ins = .ok r := by
  apply run_ok_of t ht hfull keep fuelOuter fuelInner 14 14400 deltaT hdt
  · norm_num; linarith
  · norm_num; linarith
  · decide
  · decide
  · exact hv0
  · exact hsafe

/-- **run_ok_of_release_limited (no panic while drawing down).** The run returns when, for every timestep, the release rule
never releases in 6 s more than the water present (`0 ≤ q` and `q·6 ≤ max u 0` for the release `q` at any volume `u` — a
maximum-release curve that goes to zero at the empty storage at least as fast as `V / 6 s`, and a minimum-release curve below it)
and the surface flux never outweighs the inflow (`0 ≤ inflow + netFlux·a` for every value `a` of the area table: rain ≥
evaporation, or no evaporation, or enough inflow). Both conditions fail on the panicking inputs of `draw_down_panics`. -/
theorem run_ok_of_release_limited (t : Tables ℝ) (ht : Total t) (hfull : 0 ≤ t.volCurveMax) (keep : Bool) (fo fi n k : Nat)
    (deltaT : ℝ) (hdt : 0 < deltaT) (hk : deltaT ≤ 6 * k) (hn : deltaT ≤ 6 * 2 ^ n) (hfo : k + 1 ≤ fo) (hfi : n + 1 ≤ fi)
    (v0 : ℝ) (hv0 : 0 ≤ v0) (ins : List (StepIn ℝ))
    (hq : ∀ i ∈ ins, ∀ u q, releaseRate t i.2.2.2 u = .ok q → 0 ≤ q ∧ q * 6 ≤ max u 0)
    (ha : ∀ i ∈ ins, ∀ a, AreaVal t a → 0 ≤ i.2.2.1 + netFluxOf deltaT i * a) :
    ∃ r, run t keep fo fi deltaT v0 ins = .ok r :=
  run_ok_of t ht hfull keep fo fi n k deltaT hdt hk hn hfo hfi v0 hv0 ins
    (fun i hi => safeAt_of_release_limited t i.2.2.1 i.2.2.2 (netFluxOf deltaT i) (hq i hi) (ha i hi))

/-- **run_ok_of_net_gain (no panic while filling).** The run returns when in every timestep the net rate
`inflow − q + netFlux·a` is non-negative for every value `q` of the release rule and `a` of the area table. -/
theorem run_ok_of_net_gain (t : Tables ℝ) (ht : Total t) (hfull : 0 ≤ t.volCurveMax) (keep : Bool) (fo fi n k : Nat)
    (deltaT : ℝ) (hdt : 0 < deltaT) (hk : deltaT ≤ 6 * k) (hn : deltaT ≤ 6 * 2 ^ n) (hfo : k + 1 ≤ fo) (hfi : n + 1 ≤ fi)
    (v0 : ℝ) (hv0 : 0 ≤ v0) (ins : List (StepIn ℝ))
    (hg : ∀ i ∈ ins, ∀ q a, RelVal t i.2.2.2 q → AreaVal t a → 0 ≤ i.2.2.1 - q + netFluxOf deltaT i * a) :
    ∃ r, run t keep fo fi deltaT v0 ins = .ok r :=
  run_ok_of t ht hfull keep fo fi n k deltaT hdt hk hn hfo hfi v0 hv0 ins
    (fun i hi => safeAt_of_net_gain t i.2.2.1 i.2.2.2 (netFluxOf deltaT i) (hg i hi))

/-- **draw_down_panics (the code ends the process instead of limiting the loss).** Whenever, at the volume a timestep starts
from, the net rate `inflow − release + netFlux·area` is negative and drains more than the volume within `min Δt 6` seconds, the
model — and by the bit-exact correspondence the code — does not return: `.error "other"` is Go's
`panic("testVol < 0.0 and subtimestep <= MIN_TIMESTEP_SECONDS")`. No monotonicity or other table property prevents this: it is
reached by drawing a reservoir down to empty with a release curve that does not vanish at the empty storage, and by evaporation
from a lowest knot with positive area. -/
theorem draw_down_panics (t : Tables ℝ) (keep : Bool) (fo fi n : Nat) (deltaT volume : ℝ) (tags : List String)
    (rainfall pet inflow demand est area : ℝ) (hdt : 0 < deltaT) (hn : deltaT ≤ 6 * 2 ^ n) (hfi : n + 1 ≤ fi) (hfo : 1 ≤ fo)
    (hest : releaseRate t demand volume = .ok est) (harea : cappedPiecewise t volume t.areas = .ok area)
    (hrate : inflow - est + (rainfall / deltaT - pet / deltaT) * mmToM * area < 0)
    (hneg : volume + (inflow - est + (rainfall / deltaT - pet / deltaT) * mmToM * area) * min deltaT 6 < 0) :
    step t keep fo fi deltaT volume tags (rainfall, pet, inflow, demand) = .error "other" := by
  obtain ⟨f, rfl⟩ : ∃ f, fo = f + 1 := ⟨fo - 1, by omega⟩
  have m : min deltaT (deltaT * 2) = deltaT := min_eq_left (by linarith)
  have hT := trial_panics t inflow demand ((rainfall / deltaT - pet / deltaT) * mmToM) volume est area (min deltaT 6)
    (min_le_right _ _) (fun s hs => by
      have := mul_le_mul_of_nonpos_left hs hrate.le
      linarith) n fi deltaT tags (min_le_left _ _) hn hfi
  simp only [step, outer, outerBody, bind, Except.bind, zero_lit, two_lit, RealNum.gmin_eq]
  rw [if_pos hdt, hest]
  simp only
  rw [harea]
  simp only
  rw [m, hT]

/-! ### non-vacuity: the theorems instantiated on a concrete successful run
(`OW/Proofs/StorageExample.lean`: two-knot table, one timestep of 1 s, inflow 1 m³/s into the empty storage) -/

open OW.Proofs.StorageExample in
/-- the run returns `.ok`, its water balance reads `1 − 0 = (1 − 0)·1 + (0 − 0)·1` -/
example : Chain (fun v i o => o.volume - v = (i.2.2.1 - o.outflow) * 1 + (o.rainfallVolume - o.evaporationVolume) * 1)
    0 [(0, 0, 1, 0)] [⟨1, 0, 0, 0, [⟨0, accEx, 1, 0, 1⟩]⟩] :=
  storage_balance tEx true 2 1 1 0 _ _ (by norm_num) runEx

open OW.Proofs.StorageExample in
example : Chain (fun _ _ o => (o.trace.map (·.acc.sub)).sum = 1) 0 [(0, 0, 1, 0)] [⟨1, 0, 0, 0, [⟨0, accEx, 1, 0, 1⟩]⟩] :=
  sub_steps_sum tEx 2 1 1 0 _ _ (by norm_num) runEx

open OW.Proofs.StorageExample in
example : run tEx true fuelOuter fuelInner 1 0 [(0, 0, 1, 0)] ≠ .error "fuel" :=
  terminates_driver_fuel tEx true 1 (by norm_num) _ _

/-- a panic of the code is an error of the model, not a default value: with an empty volume table the three reads at the
top of `storageWaterBalance` fail -/
example : mkTables ([] : List ℝ) [] [] [] [] = .error "index-out-of-range" := rfl


/-! ### non-vacuity: a run with a HALVED sub-step and a SPILL (`OW/Proofs/StorageExample2.lean`)

Table read through its capped ends (volumes 100 / 200 m³, spill capacity 4.4 m³/s, maximum release 10 m³/s above full supply,
0 below the curve), one timestep of 100 s from 1000 m³ with demand 10: the 100 s trial is rejected and halved; sub-step 1
(50 s, release 10) takes the spill branch with zero spill, sub-step 2 (50 s, force-accepted at the 60 s floor, release 5)
spills 25 m³. Reported: volume 225, outflow 7.75. -/

open OW.Proofs.StorageExample2 in
/-- `trace_tie` on that run: 1000 → 500 → 225 is chained, 50 + 50 = 100, and 7.75·100 = (10·50 + 0) + (5·50 + 25) -/
example : Chain (fun v _ o => Linked v o.trace o.volume ∧ (∀ x ∈ o.trace, 0 < x.acc.sub) ∧
    (o.trace.map (·.acc.sub)).sum = 100 ∧ o.outflow * 100 = released o.trace) 1000 [(0, 0, 0, 10)] [outHS] :=
  trace_tie tHS 3 2 100 1000 _ _ (by norm_num) runHS

open OW.Proofs.StorageExample2 in
/-- the second sub-step of that run spills: `excess = 25 ≠ 0`, so `spill_only_above_full` gives `200 < 250` and `200 ≤ 225` -/
example : (25:ℝ) ≠ 0 ∧ tHS.volCurveMax < subB.volUpdated ∧ tHS.volCurveMax ≤ subB.volAfter := by
  have h := spill_only_above_full tHS 3 2 100 1000 _ _ runHS
  have hB := (h.1 subB (show subB ∈ [subA, subB] from List.mem_cons_of_mem _ (List.mem_cons_self ..))).2.2
  have e : subB.excess = 25 := rfl
  rw [e] at hB
  exact ⟨by norm_num, hB (by norm_num)⟩

open OW.Proofs.StorageExample2 in
/-- the first sub-step of that run was halved (accepted length 50 of a 100 s timestep, tag `halve`) and `release_between` applies
to it with both curve pairs evaluated above full supply (4.4 ≤ 10): its average release is the demand 10 -/
example : accA.sub = 50 ∧ "halve" ∈ accA.tags ∧ subA.acc.avgOutflow = 10 := by
  have h := release_between tHS 3 2 100 1000 _ _ runHS
  have hA := h.1 subA (show subA ∈ [subA, subB] from List.mem_cons_self ..) 4.4 10 4.4 10
    (by rw [show subA.volBefore = (1000:ℝ) from rfl, capHi _ _ (by norm_num)]; rfl)
    (by rw [show subA.volBefore = (1000:ℝ) from rfl, capHi _ _ (by norm_num)]; rfl)
    (by rw [show subA.acc.trialVol = (500:ℝ) from rfl, capHi _ _ (by norm_num)]; rfl)
    (by rw [show subA.acc.trialVol = (500:ℝ) from rfl, capHi _ _ (by norm_num)]; rfl)
    (by norm_num) (by norm_num)
  exact ⟨rfl, by decide, hA.2.2 (by norm_num) (by norm_num) (by norm_num) (by norm_num)⟩

open OW.Proofs.StorageExample2 in
/-- `reported_outflow_between` on that run: every evaluation of the minimum-release curve of `tHS` is ≥ 0, of the maximum-release
curve ≤ 10, the curves are ordered and the spill capacity is 4.4 ≥ 0 — so the REPORTED outflow (7.75) lies in [0, max 10 8.8] -/
example : Chain (fun _ _ o => (0:ℝ) ≤ o.outflow ∧ o.outflow ≤ max 10 (2 * tHS.maxSpill) ∧
    ((∀ x ∈ o.trace, x.excess = 0) → o.outflow ≤ 10)) 1000 [(0, 0, 0, 10)] [outHS] :=
  reported_outflow_between tHS totalHS 3 2 100 1000 _ _ (by norm_num) (show (0:ℝ) ≤ 4.4 by norm_num) 0 10 minHS maxHS ordHS runHS

open OW.Proofs.StorageExample2 in
/-- `run_ok_of_release_limited` on the same table and inputs: the table is well-formed (`Total`), the release rule for demand 10
releases nothing below the curve and at most 10 m³/s from 100 m³ on (10·6 ≤ 100), and there is no surface flux — so the run
returns for every fuel above the bounds (here 18 / 6 for Δt = 100 s) -/
example : ∃ r, run tHS true 18 6 100 1000 [(0, 0, 0, 10)] = .ok r := by
  have hq : ∀ u q, releaseRate tHS 10 u = .ok q → 0 ≤ q ∧ q * 6 ≤ max u 0 := by
    intro u q h
    rcases lt_or_ge u 100 with c | c
    · rw [relLo u c] at h
      cases h
      exact ⟨le_refl _, by rw [zero_mul]; exact le_max_right _ _⟩
    · obtain ⟨a, b⟩ := releaseRate_range tHS totalHS 0 10 minHS maxHS ordHS 10 u q h
      exact ⟨a, by have := le_max_left u 0; linarith⟩
  refine run_ok_of_release_limited tHS totalHS (show (0:ℝ) ≤ 200 by norm_num) true 18 6 5 17 100 (by norm_num) (by norm_num)
    (by norm_num) (by decide) (by decide) 1000 (by norm_num) _ ?_ ?_
  · intro i hi
    rw [List.mem_singleton] at hi
    subst hi
    exact hq
  · intro i hi a _
    rw [List.mem_singleton] at hi
    subst hi
    unfold netFluxOf
    norm_num

/-! ### non-vacuity of `draw_down_panics`: two monotone tables inside the property's quantifier on which the run does not return -/

open OW.Proofs.StorageExample2 in
/-- flat maximum release 5 / 5 m³/s, 3 m³ left, demand 1 m³/s, one day: the release rule still releases 1 m³/s, 6 s of it exceed
the 3 m³ present, the sub-step controller panics at its floor -/
example : step tP false 1 15 86400 3 [] (0, 0, 0, 1) = .error "other" :=
  draw_down_panics tP false 1 15 14 86400 3 [] 0 0 0 1 1 _ (by norm_num) (by norm_num) (by decide) (by decide) relP areaP
    (by norm_num) (by rw [min6]; norm_num)

open OW.Proofs.StorageExample2 in
/-- area 100 m² at the empty storage, empty reservoir, PET 5 mm/day, no inflow: evaporation from the empty storage makes every
trial volume negative, the sub-step controller panics at its floor -/
example : step tQ false 1 15 86400 0 [] (0, 5, 0, 0) = .error "other" :=
  draw_down_panics tQ false 1 15 14 86400 0 [] 0 5 0 0 0 _ (by norm_num) (by norm_num) (by decide) (by decide) relQ areaQ
    (by rw [mmToM_eq]; norm_num) (by rw [min6, mmToM_eq]; norm_num)

end OW.Props.C13
