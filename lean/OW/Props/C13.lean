import OW.Proofs.Storage
import OW.Proofs.StorageExample
/-!
C13 — reservoir storage closes its water balance and respects its release rules.

Theorems over the kernel model `OW/Kernels/Storage.lean` (the code AFTER fixes/storage_rain_evap_accounting.diff) at
`α := ℝ` (exact real arithmetic), for runs that return `.ok` (a Go panic is `.error`, fuel exhaustion is `.error "fuel"`).
`keep = true` makes the model record the ghost trace of accepted sub-steps; the outputs do not depend on `keep`.

Per timestep (`step`) and, through `Chain`, for every timestep of a whole run (`run`):
* `sub_steps_sum`         accepted sub-steps sum to Δt
* `storage_balance`       V' − V = (inflow − outflow)·Δt + (rainfallVolume − evaporationVolume)·Δt   (the four REPORTED series)
* `volume_nonneg`         volumes never negative
* `final_level_area`      final level / area = the capped table interpolation at the final volume
* `release_between`       every accepted average release lies between min and max of the release-curve evaluations at the
                          two volumes of the sub-step, and equals the demand when the demand lies between them
* `spill_only_above_full` a sub-step spills only if its updated volume exceeds the full-supply volume, never more than the
                          excess over it
* `terminates`            enough fuel always exists (6 s floor of the sub-step)
-/
namespace OW.Props.C13
open OW OW.Kernels.Storage OW.Proofs.Storage

/-! ### per-timestep inversion -/

/-- initial locals of the sub-step loop -/
def loop0 (deltaT volume : ℝ) (tags : List String) : Loop ℝ :=
  { timeRemaining := deltaT, subtimestep := deltaT, volume := volume, outflowVolume := 0,
    rainfallVol := 0, evaporationVol := 0, tags := tags, trace := [] }

theorem step_ok (t : Tables ℝ) (keep : Bool) (fo fi : Nat) (deltaT volume : ℝ) (tags : List String)
    (rainfall pet inflow demand : ℝ) (v' : ℝ) (tags' : List String) (o : StepOut ℝ)
    (h : step t keep fo fi deltaT volume tags (rainfall, pet, inflow, demand) = .ok (v', tags', o)) :
    ∃ r, outer t keep fi inflow demand (rainfall / deltaT) (pet / deltaT)
          ((rainfall / deltaT - pet / deltaT) * mmToM) fo (loop0 deltaT volume tags) = .ok r ∧
      v' = r.volume ∧ o.volume = r.volume ∧ o.outflow = r.outflowVolume / deltaT ∧
      o.rainfallVolume = r.rainfallVol / deltaT ∧ o.evaporationVolume = r.evaporationVol / deltaT ∧
      o.trace = r.trace.reverse := by
  unfold step at h
  simp only [bind, Except.bind, zero_lit] at h
  cases hO : outer t keep fi inflow demand (rainfall / deltaT) (pet / deltaT)
          ((rainfall / deltaT - pet / deltaT) * mmToM) fo (loop0 deltaT volume tags) with
  | error e => simp only [loop0] at hO; rw [hO] at h; cases h
  | ok r =>
    simp only [loop0] at hO; rw [hO] at h
    simp only [pure, Except.pure, Except.ok.injEq, Prod.mk.injEq] at h
    obtain ⟨h1, _, h3⟩ := h
    subst h3
    exact ⟨r, rfl, h1.symm, rfl, rfl, rfl, rfl, rfl⟩

/-! ### the per-sub-step facts recorded in the ghost trace -/

/-- everything the loop guarantees about one accepted sub-step -/
structure SubStepOK (t : Tables ℝ) (inflow demand netFlux : ℝ) (x : SubStep ℝ) : Prop where
  relBefore : releaseRate t demand x.volBefore = .ok x.acc.estOutflow
  relAfter : releaseRate t demand x.acc.trialVol = .ok x.acc.estOutflowAfter
  avg : x.acc.avgOutflow = (x.acc.estOutflowAfter + x.acc.estOutflow) / 2
  upd : x.volUpdated = x.volBefore + (inflow + netFlux * x.acc.avgArea - x.acc.avgOutflow) * x.acc.sub
  upd_nonneg : 0 ≤ x.volUpdated
  excess_nonneg : 0 ≤ x.excess
  after : x.volAfter = x.volUpdated - x.excess
  spill_above : x.excess ≠ 0 → t.volCurveMax < x.volUpdated
  spill_le : t.volCurveMax < x.volUpdated → x.excess ≤ x.volUpdated - t.volCurveMax

theorem trace_ok (t : Tables ℝ) (fo fi : Nat) (inflow demand rps pps netFlux : ℝ) (s r : Loop ℝ)
    (h : outer t true fi inflow demand rps pps netFlux fo s = .ok r)
    (hs : ∀ x ∈ s.trace, SubStepOK t inflow demand netFlux x) :
    ∀ x ∈ r.trace, SubStepOK t inflow demand netFlux x := by
  refine (outer_inv t true fi inflow demand rps pps netFlux
    (fun s => ∀ x ∈ s.trace, SubStepOK t inflow demand netFlux x) ?_ fo s r h hs).1
  intro s s' a _ hP b x hx
  rw [b.trace] at hx
  simp only [if_true, List.mem_cons] at hx
  rcases hx with rfl | hx
  · obtain ⟨p1, p2, p3, p4⟩ := spill_spec t (updated inflow netFlux s a) a.avgOutflow a.sub
    exact ⟨b.est, b.trial.after, b.trial.avg, rfl, b.upd_nonneg, p1, p2, p3, p4⟩
  · exact hP x hx

/-! ### per-timestep theorems -/

/-- **sub_steps_sum** (one timestep): the accepted sub-steps sum to Δt. -/
theorem step_sub_steps_sum (t : Tables ℝ) (fo fi : Nat) (deltaT volume : ℝ) (tags : List String)
    (rainfall pet inflow demand : ℝ) (v' : ℝ) (tags' : List String) (o : StepOut ℝ) (hdt : 0 ≤ deltaT)
    (h : step t true fo fi deltaT volume tags (rainfall, pet, inflow, demand) = .ok (v', tags', o)) :
    (o.trace.map (·.acc.sub)).sum = deltaT := by
  obtain ⟨r, hO, -, -, -, -, -, htr⟩ := step_ok _ _ _ _ _ _ _ _ _ _ _ _ _ _ h
  have key := outer_inv t true fi inflow demand _ _ _
    (fun s => 0 ≤ s.timeRemaining ∧ (s.trace.map (·.acc.sub)).sum + s.timeRemaining = deltaT) ?_ fo _ r hO
    (by simp [loop0, hdt])
  · obtain ⟨⟨h0, hsum⟩, hn⟩ := key
    have : r.timeRemaining = 0 := le_antisymm (not_lt.mp hn) h0
    rw [htr, List.map_reverse, List.sum_reverse]
    linarith
  · intro s s' a hpos hP b
    obtain ⟨h0, hsum⟩ := hP
    have hle : a.sub ≤ s.timeRemaining := le_trans b.trial.sub_le (min_le_left _ _)
    rw [b.time, b.trace]
    simp only [if_true, List.map_cons, List.sum_cons]
    constructor <;> linarith

/-- **storage_balance** (one timestep): the volume change equals (inflow − reported outflow)·Δt plus the reported
rainfall volume minus the reported evaporation volume (both reported as rates, hence ·Δt). -/
theorem step_storage_balance (t : Tables ℝ) (keep : Bool) (fo fi : Nat) (deltaT volume : ℝ) (tags : List String)
    (rainfall pet inflow demand : ℝ) (v' : ℝ) (tags' : List String) (o : StepOut ℝ) (hdt : 0 < deltaT)
    (h : step t keep fo fi deltaT volume tags (rainfall, pet, inflow, demand) = .ok (v', tags', o)) :
    o.volume - volume = (inflow - o.outflow) * deltaT + (o.rainfallVolume - o.evaporationVolume) * deltaT := by
  obtain ⟨r, hO, -, hv, hq, hr, he, -⟩ := step_ok _ _ _ _ _ _ _ _ _ _ _ _ _ _ h
  have key := outer_inv t keep fi inflow demand _ _ _
    (fun s => 0 ≤ s.timeRemaining ∧
      s.volume - volume = inflow * (deltaT - s.timeRemaining) - s.outflowVolume + s.rainfallVol - s.evaporationVol)
    ?_ fo _ r hO (by simp [loop0, hdt.le])
  · obtain ⟨⟨h0, hbal⟩, hn⟩ := key
    have hz : r.timeRemaining = 0 := le_antisymm (not_lt.mp hn) h0
    have hne : deltaT ≠ 0 := ne_of_gt hdt
    rw [hv, hq, hr, he, hbal, hz]
    field_simp
    ring
  · intro s s' a hpos hP b
    obtain ⟨h0, hbal⟩ := hP
    have hle : a.sub ≤ s.timeRemaining := le_trans b.trial.sub_le (min_le_left _ _)
    obtain ⟨-, p2, -, -⟩ := spill_spec t (updated inflow (((rainfall / deltaT - pet / deltaT) * mmToM)) s a) a.avgOutflow a.sub
    refine ⟨by rw [b.time]; linarith, ?_⟩
    rw [b.vol, p2, b.out, b.rain, b.evap, b.time]
    unfold updated
    have key : s.volume + (inflow + (rainfall / deltaT - pet / deltaT) * mmToM * a.avgArea - a.avgOutflow) * a.sub
        - volume = (s.volume - volume) + inflow * a.sub
          + (rainfall / deltaT * mmToM * a.avgArea * a.sub - pet / deltaT * mmToM * a.avgArea * a.sub)
          - a.avgOutflow * a.sub := by ring
    linarith

/-- **volume_nonneg** (one timestep). -/
theorem step_volume_nonneg (t : Tables ℝ) (keep : Bool) (fo fi : Nat) (deltaT volume : ℝ) (tags : List String)
    (rainfall pet inflow demand : ℝ) (v' : ℝ) (tags' : List String) (o : StepOut ℝ)
    (hfull : 0 ≤ t.volCurveMax) (hv0 : 0 ≤ volume)
    (h : step t keep fo fi deltaT volume tags (rainfall, pet, inflow, demand) = .ok (v', tags', o)) :
    0 ≤ o.volume ∧ v' = o.volume := by
  obtain ⟨r, hO, hv', hv, -, -, -, -⟩ := step_ok _ _ _ _ _ _ _ _ _ _ _ _ _ _ h
  have key := outer_inv t keep fi inflow demand _ _ _ (fun s => 0 ≤ s.volume) ?_ fo _ r hO (by simpa [loop0] using hv0)
  · exact ⟨by rw [hv]; exact key.1, by rw [hv', hv]⟩
  · intro s s' a _ _ b
    obtain ⟨p1, p2, p3, p4⟩ := spill_spec t (updated inflow (((rainfall / deltaT - pet / deltaT) * mmToM)) s a) a.avgOutflow a.sub
    rw [b.vol, p2]
    by_cases hc : t.volCurveMax < updated inflow (((rainfall / deltaT - pet / deltaT) * mmToM)) s a
    · have := p4 hc; linarith
    · have : (spill t (updated inflow (((rainfall / deltaT - pet / deltaT) * mmToM)) s a) a.avgOutflow a.sub).1 = 0 := by
        by_contra hne; exact hc (p3 hne)
      rw [this]; linarith [b.upd_nonneg]

/-- the ghost trace of one timestep satisfies `SubStepOK` -/
theorem step_trace_ok (t : Tables ℝ) (fo fi : Nat) (deltaT volume : ℝ) (tags : List String)
    (rainfall pet inflow demand : ℝ) (v' : ℝ) (tags' : List String) (o : StepOut ℝ)
    (h : step t true fo fi deltaT volume tags (rainfall, pet, inflow, demand) = .ok (v', tags', o)) :
    ∀ x ∈ o.trace, SubStepOK t inflow demand ((rainfall / deltaT - pet / deltaT) * mmToM) x := by
  obtain ⟨r, hO, -, -, -, -, -, htr⟩ := step_ok _ _ _ _ _ _ _ _ _ _ _ _ _ _ h
  have := trace_ok t fo fi inflow demand _ _ _ _ r hO (by simp [loop0])
  intro x hx
  rw [htr, List.mem_reverse] at hx
  exact this x hx

/-- **release_between** for one recorded sub-step: whatever the two release curves evaluate to at the start volume
(`m₁ ≤ M₁`) and at the trial end volume (`m₂ ≤ M₂`) of the sub-step, the accepted average release lies between the smaller
minimum and the larger maximum, and equals the demand when the demand lies between the curves at both volumes. -/
theorem substep_release_between (t : Tables ℝ) (inflow demand netFlux : ℝ) (x : SubStep ℝ)
    (hx : SubStepOK t inflow demand netFlux x) (m₁ M₁ m₂ M₂ : ℝ)
    (h1 : cappedPiecewise t x.volBefore t.minRelease = .ok m₁) (h2 : cappedPiecewise t x.volBefore t.maxRelease = .ok M₁)
    (h3 : cappedPiecewise t x.acc.trialVol t.minRelease = .ok m₂) (h4 : cappedPiecewise t x.acc.trialVol t.maxRelease = .ok M₂)
    (o1 : m₁ ≤ M₁) (o2 : m₂ ≤ M₂) :
    min m₁ m₂ ≤ x.acc.avgOutflow ∧ x.acc.avgOutflow ≤ max M₁ M₂ ∧
    (m₁ ≤ demand → demand ≤ M₁ → m₂ ≤ demand → demand ≤ M₂ → x.acc.avgOutflow = demand) := by
  obtain ⟨a1, a2, a3⟩ := releaseRate_between t demand _ _ _ _ h1 h2 o1 hx.relBefore
  obtain ⟨b1, b2, b3⟩ := releaseRate_between t demand _ _ _ _ h3 h4 o2 hx.relAfter
  rw [hx.avg]
  have := min_le_left m₁ m₂
  have := min_le_right m₁ m₂
  have := le_max_left M₁ M₂
  have := le_max_right M₁ M₂
  refine ⟨by linarith, by linarith, fun c1 c2 c3 c4 => ?_⟩
  rw [a3 c1 c2, b3 c3 c4]; ring

/-- **spill_only_above_full** for one recorded sub-step: water is spilled only when the updated volume exceeds the
full-supply volume, the spill is non-negative and never takes the volume below full supply. -/
theorem substep_spill_only_above_full (t : Tables ℝ) (inflow demand netFlux : ℝ) (x : SubStep ℝ)
    (hx : SubStepOK t inflow demand netFlux x) :
    0 ≤ x.excess ∧ x.volAfter = x.volUpdated - x.excess ∧
    (x.excess ≠ 0 → t.volCurveMax < x.volUpdated ∧ t.volCurveMax ≤ x.volAfter) := by
  refine ⟨hx.excess_nonneg, hx.after, fun h => ⟨hx.spill_above h, ?_⟩⟩
  have := hx.spill_le (hx.spill_above h)
  rw [hx.after]; linarith

/-! ### whole runs -/

/-- `R prevVolume inputs outputs` holds for every timestep of a run that starts at volume `v` -/
def Chain (R : ℝ → StepIn ℝ → StepOut ℝ → Prop) : ℝ → List (StepIn ℝ) → List (StepOut ℝ) → Prop
  | _, [], [] => True
  | v, i :: is, o :: os => R v i o ∧ Chain R o.volume is os
  | _, _, _ => False

/-- volume after the last timestep -/
def lastVolume (v : ℝ) : List (StepOut ℝ) → ℝ
  | [] => v
  | o :: os => lastVolume o.volume os

/-- lift a per-timestep fact (which may use `P` of the volume the timestep starts from, re-established at its end)
to every timestep of `steps` -/
theorem steps_chain (t : Tables ℝ) (keep : Bool) (fo fi : Nat) (deltaT : ℝ) (P : ℝ → Prop)
    (R : ℝ → StepIn ℝ → StepOut ℝ → Prop)
    (hR : ∀ v tags i v' tags' o, P v → step t keep fo fi deltaT v tags i = .ok (v', tags', o) →
      R v i o ∧ v' = o.volume ∧ P v') :
    ∀ (ins : List (StepIn ℝ)) (v : ℝ) (tags : List String) (v' : ℝ) (tags' : List String) (outs : List (StepOut ℝ)),
      P v → steps t keep fo fi deltaT v tags ins = .ok (v', tags', outs) →
      Chain R v ins outs ∧ v' = lastVolume v outs ∧ P v' := by
  intro ins
  induction ins with
  | nil =>
    intro v tags v' tags' outs hv h
    simp only [steps, pure, Except.pure, Except.ok.injEq, Prod.mk.injEq] at h
    obtain ⟨rfl, -, rfl⟩ := h
    exact ⟨trivial, rfl, hv⟩
  | cons i rest ih =>
    intro v tags v' tags' outs hv h
    simp only [steps, bind, Except.bind] at h
    cases hS : step t keep fo fi deltaT v tags i with
    | error e => rw [hS] at h; cases h
    | ok res =>
      obtain ⟨v1, tg1, o⟩ := res
      rw [hS] at h; simp only at h
      cases hT : steps t keep fo fi deltaT v1 tg1 rest with
      | error e => rw [hT] at h; cases h
      | ok res2 =>
        obtain ⟨v2, tg2, os⟩ := res2
        rw [hT] at h
        simp only [pure, Except.pure, Except.ok.injEq, Prod.mk.injEq] at h
        obtain ⟨rfl, -, rfl⟩ := h
        obtain ⟨r1, e1, p1⟩ := hR v tags i v1 tg1 o hv hS
        obtain ⟨c, e2, p2⟩ := ih v1 tg1 v2 tg2 os p1 hT
        subst e1
        exact ⟨⟨r1, c⟩, e2, p2⟩

theorem run_ok (t : Tables ℝ) (keep : Bool) (fo fi : Nat) (deltaT v0 : ℝ) (ins : List (StepIn ℝ)) (r : RunOut ℝ)
    (h : run t keep fo fi deltaT v0 ins = .ok r) :
    ∃ tags, steps t keep fo fi deltaT v0 [] ins = .ok (r.volume, tags, r.outs) ∧
      cappedPiecewise t r.volume t.levels = .ok r.level ∧ cappedPiecewise t r.volume t.areas = .ok r.area := by
  unfold run at h
  simp only [bind, Except.bind] at h
  cases hS : steps t keep fo fi deltaT v0 [] ins with
  | error e => rw [hS] at h; cases h
  | ok res =>
    obtain ⟨v, tags, outs⟩ := res
    rw [hS] at h; simp only at h
    cases hL : cappedPiecewise t v t.levels with
    | error e => rw [hL] at h; cases h
    | ok level =>
      rw [hL] at h; simp only at h
      cases hA : cappedPiecewise t v t.areas with
      | error e => rw [hA] at h; cases h
      | ok area =>
        rw [hA] at h
        simp only [pure, Except.pure, Except.ok.injEq] at h
        subst h
        exact ⟨tags, rfl, hL, hA⟩

/-- **sub_steps_sum.** In every timestep of a successful run the accepted sub-steps sum to Δt. -/
theorem sub_steps_sum (t : Tables ℝ) (fo fi : Nat) (deltaT v0 : ℝ) (ins : List (StepIn ℝ)) (r : RunOut ℝ)
    (hdt : 0 ≤ deltaT) (h : run t true fo fi deltaT v0 ins = .ok r) :
    Chain (fun _ _ o => (o.trace.map (·.acc.sub)).sum = deltaT) v0 ins r.outs := by
  obtain ⟨tags, hS, -, -⟩ := run_ok _ _ _ _ _ _ _ _ h
  refine (steps_chain t true fo fi deltaT (fun _ => True) _ ?_ ins v0 [] _ _ _ trivial hS).1
  intro v tg i v' tg' o _ hs
  obtain ⟨rainfall, pet, inflow, demand⟩ := i
  obtain ⟨r', hO, e, e2, -⟩ := step_ok _ _ _ _ _ _ _ _ _ _ _ _ _ _ hs
  exact ⟨step_sub_steps_sum _ _ _ _ _ _ _ _ _ _ _ _ _ hdt hs, by rw [e, e2], trivial⟩

/-- **storage_balance.** In every timestep of a successful run (any `keep`), with `V` the volume before the timestep:
`V' − V = (inflow − outflow)·Δt + (rainfallVolume − evaporationVolume)·Δt`, where outflow, rainfallVolume and
evaporationVolume are the series the model REPORTS. -/
theorem storage_balance (t : Tables ℝ) (keep : Bool) (fo fi : Nat) (deltaT v0 : ℝ) (ins : List (StepIn ℝ)) (r : RunOut ℝ)
    (hdt : 0 < deltaT) (h : run t keep fo fi deltaT v0 ins = .ok r) :
    Chain (fun v i o => o.volume - v = (i.2.2.1 - o.outflow) * deltaT + (o.rainfallVolume - o.evaporationVolume) * deltaT)
      v0 ins r.outs := by
  obtain ⟨tags, hS, -, -⟩ := run_ok _ _ _ _ _ _ _ _ h
  refine (steps_chain t keep fo fi deltaT (fun _ => True) _ ?_ ins v0 [] _ _ _ trivial hS).1
  intro v tg i v' tg' o _ hs
  obtain ⟨rainfall, pet, inflow, demand⟩ := i
  obtain ⟨r', hO, e, e2, -⟩ := step_ok _ _ _ _ _ _ _ _ _ _ _ _ _ _ hs
  exact ⟨step_storage_balance _ _ _ _ _ _ _ _ _ _ _ _ _ _ hdt hs, by rw [e, e2], trivial⟩

/-- **volume_nonneg.** Starting from a non-negative volume (and a non-negative full-supply volume) every reported
volume and the final state volume are non-negative. -/
theorem volume_nonneg (t : Tables ℝ) (keep : Bool) (fo fi : Nat) (deltaT v0 : ℝ) (ins : List (StepIn ℝ)) (r : RunOut ℝ)
    (hfull : 0 ≤ t.volCurveMax) (hv0 : 0 ≤ v0) (h : run t keep fo fi deltaT v0 ins = .ok r) :
    Chain (fun _ _ o => 0 ≤ o.volume) v0 ins r.outs ∧ 0 ≤ r.volume := by
  obtain ⟨tags, hS, -, -⟩ := run_ok _ _ _ _ _ _ _ _ h
  have := steps_chain t keep fo fi deltaT (fun v => 0 ≤ v) (fun _ _ o => 0 ≤ o.volume) ?_ ins v0 [] _ _ _ hv0 hS
  · exact ⟨this.1, this.2.2⟩
  · intro v tg i v' tg' o hv hs
    obtain ⟨rainfall, pet, inflow, demand⟩ := i
    obtain ⟨a, b⟩ := step_volume_nonneg _ _ _ _ _ _ _ _ _ _ _ _ _ _ hfull hv hs
    exact ⟨a, b, by rw [b]; exact a⟩

/-- **final_level_area.** The final states are: the volume after the last timestep, and the level / area that the
capped level-volume-area interpolation gives at that volume. -/
theorem final_level_area (t : Tables ℝ) (keep : Bool) (fo fi : Nat) (deltaT v0 : ℝ) (ins : List (StepIn ℝ)) (r : RunOut ℝ)
    (h : run t keep fo fi deltaT v0 ins = .ok r) :
    r.volume = lastVolume v0 r.outs ∧
    cappedPiecewise t r.volume t.levels = .ok r.level ∧ cappedPiecewise t r.volume t.areas = .ok r.area := by
  obtain ⟨tags, hS, hL, hA⟩ := run_ok _ _ _ _ _ _ _ _ h
  refine ⟨?_, hL, hA⟩
  refine (steps_chain t keep fo fi deltaT (fun _ => True) (fun _ _ _ => True) ?_ ins v0 [] _ _ _ trivial hS).2.1
  intro v tg i v' tg' o _ hs
  obtain ⟨rainfall, pet, inflow, demand⟩ := i
  obtain ⟨r', hO, e, e2, -⟩ := step_ok _ _ _ _ _ _ _ _ _ _ _ _ _ _ hs
  exact ⟨trivial, by rw [e, e2], trivial⟩

/-- **release_between.** For every accepted sub-step of every timestep of a successful run: whatever the release curves
evaluate to at the sub-step's start volume (`m₁ ≤ M₁`) and trial end volume (`m₂ ≤ M₂`), the average release of the
sub-step lies in `[min m₁ m₂, max M₁ M₂]` and equals the timestep's demand when the demand lies between the curves. -/
theorem release_between (t : Tables ℝ) (fo fi : Nat) (deltaT v0 : ℝ) (ins : List (StepIn ℝ)) (r : RunOut ℝ)
    (h : run t true fo fi deltaT v0 ins = .ok r) :
    Chain (fun _ i o => ∀ x ∈ o.trace, ∀ m₁ M₁ m₂ M₂ : ℝ,
        cappedPiecewise t x.volBefore t.minRelease = .ok m₁ → cappedPiecewise t x.volBefore t.maxRelease = .ok M₁ →
        cappedPiecewise t x.acc.trialVol t.minRelease = .ok m₂ → cappedPiecewise t x.acc.trialVol t.maxRelease = .ok M₂ →
        m₁ ≤ M₁ → m₂ ≤ M₂ →
        min m₁ m₂ ≤ x.acc.avgOutflow ∧ x.acc.avgOutflow ≤ max M₁ M₂ ∧
        (m₁ ≤ i.2.2.2 → i.2.2.2 ≤ M₁ → m₂ ≤ i.2.2.2 → i.2.2.2 ≤ M₂ → x.acc.avgOutflow = i.2.2.2))
      v0 ins r.outs := by
  obtain ⟨tags, hS, -, -⟩ := run_ok _ _ _ _ _ _ _ _ h
  refine (steps_chain t true fo fi deltaT (fun _ => True) _ ?_ ins v0 [] _ _ _ trivial hS).1
  intro v tg i v' tg' o _ hs
  obtain ⟨rainfall, pet, inflow, demand⟩ := i
  obtain ⟨r', hO, e, e2, -⟩ := step_ok _ _ _ _ _ _ _ _ _ _ _ _ _ _ hs
  refine ⟨?_, by rw [e, e2], trivial⟩
  intro x hx m₁ M₁ m₂ M₂ h1 h2 h3 h4 o1 o2
  exact substep_release_between t inflow demand _ x (step_trace_ok _ _ _ _ _ _ _ _ _ _ _ _ _ hs x hx) m₁ M₁ m₂ M₂ h1 h2 h3 h4 o1 o2

/-- **spill_only_above_full.** For every accepted sub-step of every timestep of a successful run: the spilled volume is
non-negative, it is what separates the updated volume from the volume carried on, and it is non-zero only if the updated
volume exceeds the full-supply volume `volCurveMax` — and then the volume carried on is still at least `volCurveMax`. -/
theorem spill_only_above_full (t : Tables ℝ) (fo fi : Nat) (deltaT v0 : ℝ) (ins : List (StepIn ℝ)) (r : RunOut ℝ)
    (h : run t true fo fi deltaT v0 ins = .ok r) :
    Chain (fun _ _ o => ∀ x ∈ o.trace, 0 ≤ x.excess ∧ x.volAfter = x.volUpdated - x.excess ∧
        (x.excess ≠ 0 → t.volCurveMax < x.volUpdated ∧ t.volCurveMax ≤ x.volAfter))
      v0 ins r.outs := by
  obtain ⟨tags, hS, -, -⟩ := run_ok _ _ _ _ _ _ _ _ h
  refine (steps_chain t true fo fi deltaT (fun _ => True) _ ?_ ins v0 [] _ _ _ trivial hS).1
  intro v tg i v' tg' o _ hs
  obtain ⟨rainfall, pet, inflow, demand⟩ := i
  obtain ⟨r', hO, e, e2, -⟩ := step_ok _ _ _ _ _ _ _ _ _ _ _ _ _ _ hs
  refine ⟨?_, by rw [e, e2], trivial⟩
  intro x hx
  exact substep_spill_only_above_full t inflow demand _ x (step_trace_ok _ _ _ _ _ _ _ _ _ _ _ _ _ hs x hx)

/-! ### termination -/

theorem step_ne_fuel (t : Tables ℝ) (keep : Bool) (fo fi n k : Nat) (deltaT : ℝ)
    (hk : deltaT ≤ 6 * k) (hn : deltaT ≤ 6 * 2 ^ n) (hfo : k + 1 ≤ fo) (hfi : n + 1 ≤ fi)
    (v : ℝ) (tags : List String) (i : StepIn ℝ) :
    step t keep fo fi deltaT v tags i ≠ .error "fuel" := by
  obtain ⟨rainfall, pet, inflow, demand⟩ := i
  unfold step
  simp only [bind, Except.bind, zero_lit]
  cases hO : outer t keep fi inflow demand (rainfall / deltaT) (pet / deltaT)
          ((rainfall / deltaT - pet / deltaT) * mmToM) fo (loop0 deltaT v tags) with
  | error e =>
    simp only [loop0] at hO; rw [hO]; simp only
    intro h; cases h
    refine outer_ne_fuel t keep fi n inflow demand _ _ _ hfi k fo (loop0 deltaT v tags) ?_ hk hn hfo hO
    intro hpos
    left
    simp only [loop0] at hpos ⊢
    linarith
  | ok r =>
    simp only [loop0] at hO; rw [hO]
    intro h; cases h

theorem steps_ne_fuel (t : Tables ℝ) (keep : Bool) (fo fi n k : Nat) (deltaT : ℝ)
    (hk : deltaT ≤ 6 * k) (hn : deltaT ≤ 6 * 2 ^ n) (hfo : k + 1 ≤ fo) (hfi : n + 1 ≤ fi) :
    ∀ (ins : List (StepIn ℝ)) (v : ℝ) (tags : List String), steps t keep fo fi deltaT v tags ins ≠ .error "fuel" := by
  intro ins
  induction ins with
  | nil => intro v tags h; simp only [steps, pure, Except.pure] at h; cases h
  | cons i rest ih =>
    intro v tags
    simp only [steps, bind, Except.bind]
    cases hS : step t keep fo fi deltaT v tags i with
    | error e =>
      simp only; intro h; cases h
      exact step_ne_fuel t keep fo fi n k deltaT hk hn hfo hfi v tags i hS
    | ok res =>
      obtain ⟨v1, tg1, o⟩ := res
      simp only
      cases hT : steps t keep fo fi deltaT v1 tg1 rest with
      | error e => simp only; intro h; cases h; exact ih v1 tg1 hT
      | ok res2 => simp only [pure, Except.pure]; intro h; cases h

/-- **terminates.** Enough fuel always exists, because of the 6 s floor of the sub-step: if `Δt ≤ 6·k` and `Δt ≤ 6·2ⁿ`
then with more than `k` units of outer fuel and more than `n` units of inner fuel NO run ends in `.error "fuel"` — for
all tables, inputs and initial volumes (a run may still end in a panic of the code, `.error "other"` etc.). -/
theorem terminates (t : Tables ℝ) (keep : Bool) (fo fi n k : Nat) (deltaT : ℝ)
    (hk : deltaT ≤ 6 * k) (hn : deltaT ≤ 6 * 2 ^ n) (hfo : k + 1 ≤ fo) (hfi : n + 1 ≤ fi)
    (v0 : ℝ) (ins : List (StepIn ℝ)) :
    run t keep fo fi deltaT v0 ins ≠ .error "fuel" := by
  unfold run
  simp only [bind, Except.bind]
  cases hS : steps t keep fo fi deltaT v0 [] ins with
  | error e => simp only; intro h; cases h; exact steps_ne_fuel t keep fo fi n k deltaT hk hn hfo hfi ins v0 [] hS
  | ok res =>
    obtain ⟨v, tags, outs⟩ := res
    simp only
    cases hL : cappedPiecewise t v t.levels with
    | error e => simp only; intro h; cases h; exact capped_ne_fuel _ _ _ hL
    | ok level =>
      simp only
      cases hA : cappedPiecewise t v t.areas with
      | error e => simp only; intro h; cases h; exact capped_ne_fuel _ _ _ hA
      | ok area => simp only [pure, Except.pure]; intro h; cases h

/-- The fuel the compiled driver uses (`fuelOuter = 400000`, `fuelInner = 4000`) suffices for every timestep length
of the model's documented range `DeltaT ≤ 86400` s (k = 14400, n = 14: 6·2¹⁴ = 98304). -/
theorem terminates_driver_fuel (t : Tables ℝ) (keep : Bool) (deltaT : ℝ) (hdt : deltaT ≤ 86400)
    (v0 : ℝ) (ins : List (StepIn ℝ)) :
    run t keep fuelOuter fuelInner deltaT v0 ins ≠ .error "fuel" := by
  apply terminates t keep fuelOuter fuelInner 14 14400 deltaT
  · norm_num; linarith
  · norm_num; linarith
  · decide
  · decide

/-- … and for an arbitrary timestep length some fuel suffices. -/
theorem terminates_exists (t : Tables ℝ) (keep : Bool) (deltaT : ℝ) :
    ∃ N : Nat, ∀ fo fi, N ≤ fo → N ≤ fi → ∀ v0 ins, run t keep fo fi deltaT v0 ins ≠ .error "fuel" := by
  obtain ⟨k, hk⟩ := exists_nat_ge (deltaT / 6)
  refine ⟨k + 1, fun fo fi hfo hfi v0 ins => ?_⟩
  have h1 : deltaT ≤ 6 * (k:ℝ) := by
    have := (div_le_iff₀ (by norm_num : (0:ℝ) < 6)).mp hk
    linarith
  have h2 : (k:ℝ) ≤ 2 ^ k := by exact_mod_cast (Nat.lt_two_pow_self (n := k)).le
  exact terminates t keep fo fi k k deltaT h1 (by linarith) hfo hfi v0 ins

/-! ### non-vacuity: the theorems instantiated on a concrete successful run
(`OW/Proofs/StorageExample.lean`: two-knot table, one timestep of 1 s, inflow 1 m³/s into the empty storage) -/

open OW.Proofs.StorageExample in
/-- the run returns `.ok`, its water balance reads `1 − 0 = (1 − 0)·1 + (0 − 0)·1` -/
example : Chain (fun v i o => o.volume - v = (i.2.2.1 - o.outflow) * 1 + (o.rainfallVolume - o.evaporationVolume) * 1)
    0 [(0, 0, 1, 0)] [⟨1, 0, 0, 0, [⟨0, accEx, 1, 0, 1⟩]⟩] :=
  storage_balance tEx true 2 1 1 0 _ _ (by norm_num) runEx

open OW.Proofs.StorageExample in
example : Chain (fun _ _ o => (o.trace.map (·.acc.sub)).sum = 1) 0 [(0, 0, 1, 0)] [⟨1, 0, 0, 0, [⟨0, accEx, 1, 0, 1⟩]⟩] :=
  sub_steps_sum tEx 2 1 1 0 _ _ (by norm_num) runEx

open OW.Proofs.StorageExample in
example : run tEx true fuelOuter fuelInner 1 0 [(0, 0, 1, 0)] ≠ .error "fuel" :=
  terminates_driver_fuel tEx true 1 (by norm_num) _ _

/-- a panic of the code is an error of the model, not a default value: with an empty volume table the three reads at the
top of `storageWaterBalance` fail -/
example : mkTables ([] : List ℝ) [] [] [] [] = .error "index-out-of-range" := rfl

end OW.Props.C13
