import OW.Gen.KernelsW
import OW.Kernels.Coeff
import OW.Kernels.Muskingum
import OW.Kernels.LumpedConstituent
import OW.Kernels.ConstituentDecay
import OW.Kernels.InstreamCoarseSediment
import OW.Kernels.InstreamParticulateNutrient
import OW.Kernels.C16.Conversions
import OW.Kernels.C16.Partitions
import OW.Kernels.C16.LoadGen
import OW.Kernels.C16.BankErosion
import OW.Kernels.C16.UsleFine
import OW.Kernels.C16.SednetGully
import OW.Kernels.Simhyd
import OW.Kernels.Surm
import OW.Kernels.InstreamDissolvedNutrient
import OW.Kernels.InstreamFineSediment
import OW.Kernels.StorageParticulateTrapping
import OW.Kernels.StorageDissolvedDecay
import OW.Kernels.Climate
/-!
# GenTie — the syntactic tie between the hand-written kernel models and the current Go source

`OW/Gen/Kernels.lean` is REGENERATED on every run by `harness/cmd/owtranslate` from the Go source of the simple
time-stepping kernels (one namespace `OW.Gen.K.<goFunc>` with `guard`, `pre`, `init`, `step`). Each theorem
`gen_eq_<Model>` below states that the regenerated definitions ARE the hand-written model of `OW/Kernels/…`:

* kernels with state: for all parameters, states and inputs of one step,
  `Gen.step params pre state inputs = (new state of Hand.step, outputs of Hand.step)`, plus `Gen.pre = Hand.coef` and
  `Gen.init = the state parameters` (ghost outputs of the hand model — `flushed`, `decayed`, `deposited`, `bedExchange` —
  are not part of the code and are exempt);
* stateless kernels (`List.map`-shaped hand models): `Hand.step (inputs at t) = Gen.step params inputs`, and
  `Hand.run … = if Gen.guard … then zeros else map …` where the Go function returns early.

All statements are over an arbitrary `[Num α]` (so they hold at `Float`, where the models are executed, and at `ℝ`, where
the theorems of OW/Props are proved) and are proved by unfolding, case analysis on the `if`s and `rfl` — no arithmetic law
is used, so the equality is that of the expression trees: same operations, same association, same literals.

A source change that alters the arithmetic of a kernel makes its theorem fail (`vlib/gentie.py` reports this as a broken
proof obligation naming the theorem). Renaming locals, introducing temporaries or reordering independent assignments
leaves the generated term definitionally equal and the theorem keeps checking.

Two hand models spell a Go literal differently from the source (`0.0` written as `Num.zero`; `0` written as `0.0`). Over an
abstract `Num α` differently spelled literals are different terms, so these two theorems carry the literal identity as a
hypothesis (`LitZero`, `NatZero`); `litZero_float` shows the first holds at `Float` by `rfl`.
-/
namespace OW.Props.GenTie
open OW OW.Kernels OW.Gen.K

/-- case analysis on every `if`, then definitional equality (extra rewrite rules for literal identities); cases in which the
two sides took contradictory branches (conditions spelled differently) are closed by `simp_all` -/
syntax "tie" (" [" Lean.Parser.Tactic.simpLemma,* "]")? : tactic
macro_rules
  | `(tactic| tie) => `(tactic| first
      | rfl
      | ((try dsimp only) <;> (repeat' (split <;> rename_i h <;> (try simp only [h, ↓reduceIte]))) <;>
          (first | rfl | simp_all)))
  | `(tactic| tie [$ls,*]) => `(tactic|
      ((try dsimp only) <;> (repeat' (split <;> rename_i h <;> (try simp only [h, ↓reduceIte, $ls,*]))) <;>
        (first | rfl | simp only [$ls,*] | simp_all)))

/-- the float literal `0.0` is the zero a fresh array holds -/
def LitZero (α : Type) [Num α] : Prop := (0.0 : α) = Num.zero
/-- the integer literal `0` (converted to float64 by Go) and the float literal `0.0` are the same number -/
def NatZero (α : Type) [Num α] : Prop := (0 : α) = 0.0

theorem litZero_float : LitZero Float := rfl

/-! ### models/rr/coeff.go -/

/-- `runoffCoefficient` = `Coeff.run` (element-wise), no early return -/
theorem gen_eq_RunoffCoefficient {α} [Num α] (coeff : α) (rain : List α) :
    Coeff.run coeff rain = rain.map (runoffCoefficient.step coeff) ∧ runoffCoefficient.guard coeff = false :=
  ⟨rfl, rfl⟩

/-! ### models/routing -/

/-- `muskingum`: the pre-loop coefficients are `Muskingum.coef`, the loop starts from the state parameters, and one
iteration is `Muskingum.step` (the storage state `s` is passed through unchanged) -/
theorem gen_eq_Muskingum {α} [Num α] (k x deltaT s prevInflow prevOutflow inflow lateral : α) :
    Muskingum.coef k x deltaT = (let p := muskingum.pre s prevInflow prevOutflow k x deltaT; ⟨p.1, p.2.1, p.2.2⟩) ∧
    muskingum.init s prevInflow prevOutflow k x deltaT = (s, prevInflow, prevOutflow) ∧
    muskingum.guard s prevInflow prevOutflow k x deltaT = false ∧
    ∀ a1 a2 a3, muskingum.step k x deltaT a1 a2 a3 s prevInflow prevOutflow inflow lateral =
      (let r := Muskingum.step ⟨a1, a2, a3⟩ (prevInflow, prevOutflow) (inflow, lateral); ((s, r.1.1, r.1.2), r.2)) :=
  ⟨rfl, rfl, rfl, fun _ _ _ => rfl⟩

/-- `LumpedConstituentTransport` (series arguments non-nil, as the generated wrapper passes them) = `LumpedConstituent.step`.
The hand model writes the `0.0` of the flush branch as `Num.zero`: hypothesis `LitZero`. -/
theorem gen_eq_LumpedConstituent {α} [Num α] (hz : LitZero α)
    (initialStoredMass x pointInput deltaT storedMass inflowLoad lateralLoad outflow storage : α) :
    LumpedConstituentTransport.init initialStoredMass x pointInput deltaT = initialStoredMass ∧
    LumpedConstituentTransport.guard initialStoredMass x pointInput deltaT = false ∧
    LumpedConstituentTransport.step initialStoredMass x pointInput deltaT storedMass inflowLoad lateralLoad outflow storage =
      (let r := LumpedConstituent.step pointInput deltaT storedMass (inflowLoad, lateralLoad, outflow, storage)
       (r.1, (r.2.outflowLoad, r.2.pointSourceLoad))) := by
  refine ⟨rfl, rfl, ?_⟩
  unfold LitZero at hz
  unfold LumpedConstituentTransport.step LumpedConstituent.step
  simp only [LumpedConstituent.minimumVolume]
  tie [hz]

/-- `constituentDecay` = `ConstituentDecay.step` (the `inflows` series is not read by the code) -/
theorem gen_eq_ConstituentDecay {α} [Num α]
    (x halflife deltaT storedMass inflowLoad lateralLoad inflow outflow storage : α) :
    constituentDecay.init storedMass x halflife deltaT = storedMass ∧
    constituentDecay.guard storedMass x halflife deltaT = false ∧
    constituentDecay.step x halflife deltaT storedMass inflowLoad lateralLoad outflow storage =
      (let r := ConstituentDecay.step halflife deltaT storedMass (inflowLoad, lateralLoad, inflow, outflow, storage)
       (r.1, (r.2.decayedLoad, r.2.outflowLoad))) := by
  refine ⟨rfl, rfl, ?_⟩
  unfold constituentDecay.step ConstituentDecay.step ConstituentDecay.decay
  simp only [ConstituentDecay.minimumVolume]
  tie

/-- `instreamCoarseSediment` = `InstreamCoarseSediment.step`. The source writes `totalDailyConstituentMass = 0`, the hand
model `0.0`: hypothesis `NatZero`. -/
theorem gen_eq_InstreamCoarseSediment {α} [Num α] (h0 : NatZero α)
    (deltaT channelStore storedMass upstreamMass lateralMass reachLocalMass : α) :
    instreamCoarseSediment.init channelStore storedMass deltaT = (channelStore, storedMass) ∧
    instreamCoarseSediment.guard channelStore storedMass deltaT = false ∧
    instreamCoarseSediment.step deltaT channelStore storedMass upstreamMass lateralMass reachLocalMass =
      (let r := InstreamCoarseSediment.step deltaT (channelStore, storedMass) (upstreamMass, lateralMass, reachLocalMass)
       (r.1, r.2.loadDownstream)) := by
  refine ⟨rfl, rfl, ?_⟩
  unfold NatZero at h0
  unfold instreamCoarseSediment.step InstreamCoarseSediment.step
  simp only [h0]

/-- `instreamParticulateNutrient` = `InstreamParticulateNutrient.step` -/
theorem gen_eq_InstreamParticulateNutrient {α} [Num α]
    (i0 c0 pnc spf dur instreamStoredMass channelStoredMass : α) (i : InstreamParticulateNutrient.In α) :
    instreamParticulateNutrient.init i0 c0 pnc spf dur = (i0, c0) ∧
    instreamParticulateNutrient.guard i0 c0 pnc spf dur = false ∧
    instreamParticulateNutrient.step i0 c0 pnc spf dur instreamStoredMass channelStoredMass
        i.incomingMassUpstream i.incomingMassLateral i.reachVolume i.outflow i.streamBankErosion i.lateralSediment
        i.floodplainDepositionFraction i.channelDepositionFraction =
      (let r := InstreamParticulateNutrient.step pnc spf dur (instreamStoredMass, channelStoredMass) i
       (r.1, (r.2.loadDeposited, r.2.loadFromStreambank, r.2.loadDownstream, r.2.loadToFloodplain))) := by
  refine ⟨rfl, rfl, ?_⟩
  unfold instreamParticulateNutrient.step InstreamParticulateNutrient.step InstreamParticulateNutrient.forDeposition
    InstreamParticulateNutrient.bedExchange
  simp only [LumpedConstituent.minimumVolume]
  tie

/-! ### models/conversion -/

/-- `applyScaling` (ApplyScalingFactor and DeliveryRatio) = `Scaling.run` -/
theorem gen_eq_Scaling {α} [Num α] (scale : α) (input : List α) :
    Scaling.run scale input =
      if applyScaling.guard scale then zeros input.length else input.map (applyScaling.step scale) := rfl

/-- `depthToRate` = `DepthToRate.run`, the conversion factor is `DepthToRate.conversion` -/
theorem gen_eq_DepthToRate {α} [Num α] (deltaT area : α) (inputs : List α) :
    DepthToRate.conversion deltaT area = depthToRate.pre deltaT area ∧
    DepthToRate.run deltaT area inputs =
      if depthToRate.guard deltaT area then zeros inputs.length
      else inputs.map (depthToRate.step deltaT area (depthToRate.pre deltaT area)) := ⟨rfl, rfl⟩

/-- `fixedPartition` = `FixedPartition.step` -/
theorem gen_eq_FixedPartition {α} [Num α] (fraction incoming : α) :
    FixedPartition.step fraction incoming = fixedPartition.step fraction incoming ∧ fixedPartition.guard fraction = false :=
  ⟨rfl, rfl⟩

/-- `variablePartition` = `VariablePartition.step` -/
theorem gen_eq_VariablePartition {α} [Num α] (incoming frac : α) :
    VariablePartition.step (incoming, frac) = variablePartition.step incoming frac ∧
    variablePartition.guard (α := α) = false := ⟨rfl, rfl⟩

/-! ### models/functions -/

/-- `sum` = `Sum.step` -/
theorem gen_eq_Sum {α} [Num α] (a b : α) : Sum.step (a, b) = sum.step a b ∧ sum.guard (α := α) = false := ⟨rfl, rfl⟩

/-- `gate` = `Gate.step` -/
theorem gen_eq_Gate {α} [Num α] (t i : α) : Gate.step (t, i) = gate.step t i ∧ gate.guard (α := α) = false := by
  refine ⟨?_, rfl⟩
  unfold Gate.step gate.step
  tie

/-- `computeProportion` = `ComputeProportion.step` -/
theorem gen_eq_ComputeProportion {α} [Num α] (r n d : α) :
    ComputeProportion.step r (n, d) = computeProportion.step r n d ∧ computeProportion.guard r = false := by
  refine ⟨?_, rfl⟩
  unfold ComputeProportion.step computeProportion.step
  tie

/-- `partitionDemand` = `PartitionDemand.step` (outflow, extraction) -/
theorem gen_eq_PartitionDemand {α} [Num α] (inp dmd : α) :
    PartitionDemand.step (inp, dmd) = partitionDemand.step inp dmd ∧ partitionDemand.guard (α := α) = false := ⟨rfl, rfl⟩

/-! ### models/generation -/

/-- `emcDWC` = `EmcDwc.step` / `EmcDwc.run` (early return when both concentrations are 0) -/
theorem gen_eq_EmcDwc {α} [Num α] (emc dwc qf sf : α) (quickflow slowflow : List α) :
    EmcDwc.step emc dwc (qf, sf) = (let r := emcDWC.step emc dwc qf sf; ⟨r.1, r.2.1, r.2.2⟩) ∧
    EmcDwc.run emc dwc quickflow slowflow =
      if emcDWC.guard emc dwc then List.replicate quickflow.length ⟨Num.zero, Num.zero, Num.zero⟩
      else (quickflow.zip slowflow).map (EmcDwc.step emc dwc) := ⟨rfl, rfl⟩

/-- `fixedConcentration` = `FixedConcentration.run` -/
theorem gen_eq_FixedConcentration {α} [Num α] (conc : α) (flow : List α) :
    FixedConcentration.run conc flow =
      if fixedConcentration.guard conc then zeros flow.length else flow.map (fixedConcentration.step conc) := rfl

/-- `passLoadIfFlow` = `PassLoadIfFlow.step` / `PassLoadIfFlow.run` -/
theorem gen_eq_PassLoadIfFlow {α} [Num α] (scalingFactor f l : α) (flow inputLoad : List α) :
    PassLoadIfFlow.step scalingFactor (f, l) = passLoadIfFlow.step scalingFactor f l ∧
    PassLoadIfFlow.run scalingFactor flow inputLoad =
      if passLoadIfFlow.guard scalingFactor then zeros flow.length
      else (flow.zip inputLoad).map (PassLoadIfFlow.step scalingFactor) := by
  refine ⟨?_, rfl⟩
  unfold PassLoadIfFlow.step passLoadIfFlow.step
  simp only [PassLoadIfFlow.effectivelyZero]
  tie

/-- `dissolvedNutrients` = `DissolvedNutrients.step` -/
theorem gen_eq_DissolvedNutrients {α} [Num α] (emc dwc qf sf : α) :
    DissolvedNutrients.step emc dwc (qf, sf) = (let r := dissolvedNutrients.step emc dwc qf sf; ⟨r.1, r.2.1, r.2.2⟩) ∧
    dissolvedNutrients.guard emc dwc = false := ⟨rfl, rfl⟩

/-- `particulateNutrients` = `ParticulateNutrients.step` -/
theorem gen_eq_ParticulateNutrients {α} [Num α] (p : ParticulateNutrients.Params α) (a b c d e : α) :
    ParticulateNutrients.step p (a, b, c, d, e) =
      (let r := particulateNutrients.step p.area p.nutSurfSoilConc p.hillDeliveryRatio p.nutrientEnrichmentRatio
          p.nutSubSoilConc p.nutrientEnrichmentRatioGully p.gullyDeliveryRatio p.nutrientDWC p.doPCreamsEnrichment a b c d e
       ⟨r.1, r.2.1, r.2.2.1, r.2.2.2.1, r.2.2.2.2⟩) := by
  unfold ParticulateNutrients.step particulateNutrients.step
  tie

/-! ### models/rr/simhyd.go, surm.go -/

/-- `simhyd` = `Simhyd.step` -/
theorem gen_eq_Simhyd {α} [Num α] (i0 g0 t0 : α) (p : Simhyd.Params α) (st : Simhyd.State α) (rain pet : α) :
    simhyd.init i0 g0 t0 p.baseflowCoefficient p.imperviousThreshold p.infiltrationCoefficient p.infiltrationShape
      p.interflowCoefficient p.perviousFraction p.risc p.rechargeCoefficient p.smsc = (i0, g0, t0) ∧
    simhyd.guard i0 g0 t0 p.baseflowCoefficient p.imperviousThreshold p.infiltrationCoefficient p.infiltrationShape
      p.interflowCoefficient p.perviousFraction p.risc p.rechargeCoefficient p.smsc = false ∧
    simhyd.step i0 g0 t0 p.baseflowCoefficient p.imperviousThreshold p.infiltrationCoefficient p.infiltrationShape
      p.interflowCoefficient p.perviousFraction p.risc p.rechargeCoefficient p.smsc st.sms st.gw st.total rain pet =
      (let r := Simhyd.step p st (rain, pet)
       ((r.1.sms, r.1.gw, r.1.total), (r.2.runoff, r.2.quickflow, r.2.baseflow, r.2.store))) := by
  refine ⟨rfl, rfl, ?_⟩
  unfold simhyd.step Simhyd.step
  simp only [Simhyd.soilEtConst]
  tie

/-- `surm` = `Surm.step`; the two pre-loop values are the `fperv` and `fieldCapacity` of the hand model -/
theorem gen_eq_Surm {α} [Num α] (i0 g0 t0 : α) (p : Surm.Params α) (st : Surm.State α) (rain pet : α) :
    surm.pre i0 g0 t0 p.bfac p.coeff p.dseep p.fcFrac p.fimp p.rfac p.smax p.sq p.thres = (1 - p.fimp, p.fcFrac * p.smax) ∧
    surm.init i0 g0 t0 p.bfac p.coeff p.dseep p.fcFrac p.fimp p.rfac p.smax p.sq p.thres = (i0, g0, t0) ∧
    surm.guard i0 g0 t0 p.bfac p.coeff p.dseep p.fcFrac p.fimp p.rfac p.smax p.sq p.thres = false ∧
    surm.step i0 g0 t0 p.bfac p.coeff p.dseep p.fcFrac p.fimp p.rfac p.smax p.sq p.thres (1 - p.fimp) (p.fcFrac * p.smax)
        st.sms st.gw st.total rain pet =
      (let r := Surm.step p st (rain, pet)
       ((r.1.sms, r.1.gw, r.1.total), (r.2.runoff, r.2.quickflow, r.2.baseflow, r.2.store))) := by
  refine ⟨rfl, rfl, rfl, ?_⟩
  unfold surm.step Surm.step
  tie

/-! ### models/storage -/

/-- `storageParticulateTrapping` = `StorageParticulateTrapping.step` -/
theorem gen_eq_StorageParticulateTrapping {α} [Num α] (ism : α) (p : StorageParticulateTrapping.Params α)
    (storedMass inflowMass storageInflow storageOutflow storageVolume : α) :
    storageParticulateTrapping.init ism p.deltaT p.reservoirCapacity p.reservoirLength p.subtractor p.multiplier
      p.lengthDischargeFactor p.lengthDischargePower = ism ∧
    storageParticulateTrapping.guard ism p.deltaT p.reservoirCapacity p.reservoirLength p.subtractor p.multiplier
      p.lengthDischargeFactor p.lengthDischargePower = false ∧
    storageParticulateTrapping.step ism p.deltaT p.reservoirCapacity p.reservoirLength p.subtractor p.multiplier
        p.lengthDischargeFactor p.lengthDischargePower storedMass inflowMass storageInflow storageOutflow storageVolume =
      (let r := StorageParticulateTrapping.step p storedMass (inflowMass, storageInflow, storageOutflow, storageVolume)
       (r.1, (r.2.trappedMass, r.2.outflowLoad))) := by
  refine ⟨rfl, rfl, ?_⟩
  unfold storageParticulateTrapping.step StorageParticulateTrapping.step StorageParticulateTrapping.damTrappingPC
  tie

/-- `storageDissolvedDecay`: the branch `doStorageDecay < 0.5` runs `LumpedConstituentTransport` with a nil lateral series,
`x = 0.0`, `pointInput = 0.0` and a nil point-source output (`StorageDissolvedDecay.stepOff`; the hand model of the lumped
step writes the `0.0` of the flush branch as `Num.zero`: hypothesis `LitZero`); otherwise one iteration is `stepOn`. -/
theorem gen_eq_StorageDissolvedDecay {α} [Num α] (hz : LitZero α)
    (ism deltaT doStorageDecay ari bankFullFlow mfrt storedMass inflowMass storageInflow storageOutflow storageVolume : α) :
    storageDissolvedDecay.delegates ism deltaT doStorageDecay ari bankFullFlow mfrt = decide (doStorageDecay < 0.5) ∧
    storageDissolvedDecay.delegateInit ism deltaT doStorageDecay ari bankFullFlow mfrt = ism ∧
    storageDissolvedDecay.delegateFinal ism deltaT doStorageDecay ari bankFullFlow mfrt storedMass = storedMass ∧
    storageDissolvedDecay.delegateStep ism deltaT doStorageDecay ari bankFullFlow mfrt storedMass inflowMass storageOutflow storageVolume =
      (let r := StorageDissolvedDecay.stepOff deltaT storedMass (inflowMass, storageInflow, storageOutflow, storageVolume)
       (r.1, (r.2.decayedMass, r.2.outflowMass))) ∧
    storageDissolvedDecay.init ism deltaT doStorageDecay ari bankFullFlow mfrt = ism ∧
    storageDissolvedDecay.guard ism deltaT doStorageDecay ari bankFullFlow mfrt = false ∧
    storageDissolvedDecay.step ism deltaT doStorageDecay ari bankFullFlow mfrt storedMass inflowMass storageOutflow storageVolume =
      (let r := StorageDissolvedDecay.stepOn deltaT bankFullFlow mfrt storedMass (inflowMass, storageInflow, storageOutflow, storageVolume)
       (r.1, (r.2.decayedMass, r.2.outflowMass))) := by
  refine ⟨rfl, rfl, rfl, ?_, rfl, rfl, ?_⟩
  · unfold LitZero at hz
    unfold storageDissolvedDecay.delegateStep storageDissolvedDecay.delegate.step StorageDissolvedDecay.stepOff LumpedConstituent.step
    simp only [LumpedConstituent.minimumVolume]
    tie [hz]
  · unfold storageDissolvedDecay.step StorageDissolvedDecay.stepOn
    tie

end OW.Props.GenTie
