import OW.Sim.CEntry
import OW.Props.C04
import OW.Kernels.Muskingum
/-!
C03, clause 3 — the exported C entry point `RunSingleModel` (libopenwater/single.go) on caller buffers gives the same outputs
and final states as the Go-API run, including when the library initialises the states itself.

LIST LEVEL. `OW.Sim.CEntry.cEntry` models the entry point over flat caller buffers; the Go API is `OW.Sim.run` on nested
arrays. BOTH SIDES SHARE THE KERNEL RUN (`Sim.run`) BY CONSTRUCTION — single.go calls the very same `FindDimensions /
ApplyParameters / InitialiseStates / Run` methods the Go API is. What is proved here is the glue of single.go:

* buffer ↔ array: `flat2_unflat2`, `flat3_unflat3`, `unflat2_flat2`, `unflat3_flat3` (wrapping a buffer of the right length and
  reading it back row-major is the identity, both ways);
* `Run` keeps the shape of the states and outputs arrays (`run_shape`), so the in-place result on the caller's buffer IS the
  row-major image of the Go-API result, no element beyond it is touched (`centry_lengths`);
* the `initStates` path: `Run` works on the library's own array; the copy-back `CopyFrom` stores row `i` at `i·nStates`
  unchecked — it reproduces the Go-API final states exactly when the caller sized the buffer with the model's state width
  (`copyBack_exact`), leaves the columns beyond a narrower width alone (`copyBack_narrow`), and writes OUTSIDE the buffer when the
  model's rows are wider than `nStates` (`copyBack_wide_oob`); nothing is copied for a NULL pointer;
* the frame: the parameter and input buffers are returned as they were (at this level that is how `Sim.run` is written — it
  has no way to return them changed; the statement that the template's views never address them for writing is
  `C04Nd.write_invisible_to_other_cells` / `ReadOnlyFoot` on the view level, and the CABI family compares both buffers after
  every call);
* errors: an unknown model name is Go's nil-func call (`centry_unknown_model`), before any buffer is wrapped; a panic of the
  run is the same panic class on both sides (`centry_error`), and the entry point returns normally exactly when the Go API does
  (`centry_ok_iff`).

`centry_eq_goapi` puts these together.
-/
namespace OW.Props.C03Entry
open OW OW.Sim OW.Sim.CEntry OW.Props.C04

section Lists
variable {α : Type}

/-! ### buffers ↔ arrays -/

/-- `d0` rows of `d1` elements each -/
def Reg2 (d0 d1 : Nat) (rows : List (List α)) : Prop := rows.length = d0 ∧ ∀ r ∈ rows, r.length = d1

/-- `d0` blocks of `d1` rows of `d2` elements each -/
def Reg3 (d0 d1 d2 : Nat) (x : List (List (List α))) : Prop := x.length = d0 ∧ ∀ m ∈ x, Reg2 d1 d2 m

theorem chunks_length (w : Nat) : ∀ (n : Nat) (l : List α), (chunks w n l).length = n
  | 0, _ => rfl
  | n + 1, l => by simp [chunks, chunks_length w n]

theorem flatten_chunks (w : Nat) : ∀ (n : Nat) (l : List α), l.length = n * w → (chunks w n l).flatten = l
  | 0, l, h => by
    have : l = [] := List.eq_nil_of_length_eq_zero (by simpa using h)
    simp [chunks, this]
  | n + 1, l, h => by
    have h' : (l.drop w).length = n * w := by
      rw [List.length_drop, h, Nat.succ_mul]; omega
    simp only [chunks, List.flatten_cons, flatten_chunks w n _ h', List.take_append_drop]

theorem chunks_reg (w : Nat) : ∀ (n : Nat) (l : List α), l.length = n * w → Reg2 n w (chunks w n l)
  | 0, _, _ => ⟨rfl, by simp [chunks]⟩
  | n + 1, l, h => by
    have h' : (l.drop w).length = n * w := by
      rw [List.length_drop, h, Nat.succ_mul]; omega
    obtain ⟨_, h2⟩ := chunks_reg w n _ h'
    refine ⟨chunks_length w _ _, ?_⟩
    intro r hr
    simp only [chunks, List.mem_cons] at hr
    rcases hr with rfl | hr
    · rw [List.length_take, h, Nat.succ_mul]; omega
    · exact h2 r hr

theorem chunks_flatten (w : Nat) : ∀ (n : Nat) (rows : List (List α)), Reg2 n w rows → chunks w n rows.flatten = rows
  | 0, rows, h => by
    have : rows = [] := List.eq_nil_of_length_eq_zero h.1
    simp [chunks, this]
  | n + 1, rows, h => by
    obtain ⟨h1, h2⟩ := h
    cases rows with
    | nil => simp at h1
    | cons r rest =>
      have hr : r.length = w := h2 r (by simp)
      have hrest : Reg2 n w rest := ⟨by simpa using h1, fun s hs => h2 s (by simp [hs])⟩
      simp only [chunks, List.flatten_cons]
      rw [List.take_left' hr, List.drop_left' hr, chunks_flatten w n rest hrest]

theorem reg2_flatten_length {d0 d1 : Nat} : ∀ {rows : List (List α)}, Reg2 d0 d1 rows → rows.flatten.length = d0 * d1 := by
  intro rows
  induction rows generalizing d0 with
  | nil => intro h; simp [← h.1]
  | cons r rest ih =>
    intro h
    obtain ⟨h1, h2⟩ := h
    have hr : r.length = d1 := h2 r (by simp)
    have hrest : Reg2 rest.length d1 rest := ⟨rfl, fun s hs => h2 s (by simp [hs])⟩
    rw [List.flatten_cons, List.length_append, ih hrest, hr, ← h1, List.length_cons, Nat.succ_mul]
    omega

/-- **wrap, then read back row-major: the buffer** (2-d) -/
theorem flat2_unflat2 (d0 d1 : Nat) (buf : List α) (h : buf.length = d0 * d1) : flat2 (unflat2 d0 d1 buf) = buf :=
  flatten_chunks d1 d0 buf h

/-- **flatten, then wrap: the array** (2-d) -/
theorem unflat2_flat2 (d0 d1 : Nat) (rows : List (List α)) (h : Reg2 d0 d1 rows) : unflat2 d0 d1 (flat2 rows) = rows :=
  chunks_flatten d1 d0 rows h

theorem unflat2_reg (d0 d1 : Nat) (buf : List α) (h : buf.length = d0 * d1) : Reg2 d0 d1 (unflat2 d0 d1 buf) :=
  chunks_reg d1 d0 buf h

theorem unflat3_reg (d0 d1 d2 : Nat) (buf : List α) (h : buf.length = d0 * (d1 * d2)) :
    Reg3 d0 d1 d2 (unflat3 d0 d1 d2 buf) := by
  obtain ⟨h1, h2⟩ := chunks_reg (d1 * d2) d0 buf h
  refine ⟨by simp [unflat3, h1], ?_⟩
  intro m hm
  simp only [unflat3, List.mem_map] at hm
  obtain ⟨c, hc, rfl⟩ := hm
  exact chunks_reg d2 d1 c (h2 c hc)

/-- **wrap, then read back row-major: the buffer** (3-d) -/
theorem flat3_unflat3 (d0 d1 d2 : Nat) (buf : List α) (h : buf.length = d0 * (d1 * d2)) :
    flat3 (unflat3 d0 d1 d2 buf) = buf := by
  obtain ⟨_, h2⟩ := chunks_reg (d1 * d2) d0 buf h
  unfold flat3 unflat3
  rw [List.map_map]
  have : (chunks (d1 * d2) d0 buf).map (List.flatten ∘ chunks d2 d1) = chunks (d1 * d2) d0 buf := by
    conv => rhs; rw [← List.map_id (chunks (d1 * d2) d0 buf)]
    apply List.map_congr_left
    intro c hc
    exact flatten_chunks d2 d1 c (h2 c hc)
  rw [this]
  exact flatten_chunks (d1 * d2) d0 buf h

/-- **flatten, then wrap: the array** (3-d) -/
theorem unflat3_flat3 (d0 d1 d2 : Nat) (x : List (List (List α))) (h : Reg3 d0 d1 d2 x) :
    unflat3 d0 d1 d2 (flat3 x) = x := by
  obtain ⟨h1, h2⟩ := h
  unfold flat3 unflat3
  have hreg : Reg2 d0 (d1 * d2) (x.map List.flatten) := by
    refine ⟨by simp [h1], ?_⟩
    intro r hr
    simp only [List.mem_map] at hr
    obtain ⟨m, hm, rfl⟩ := hr
    exact reg2_flatten_length (h2 m hm)
  rw [chunks_flatten (d1 * d2) d0 _ hreg, List.map_map]
  conv => rhs; rw [← List.map_id x]
  apply List.map_congr_left
  intro m hm
  exact chunks_flatten d2 d1 m (h2 m hm)


/-! ### stores into a C buffer: `writeBack`, `writeC`, `copyBack` -/

theorem writeBack_same_length (buf xs : List α) (h : xs.length = buf.length) : writeBack buf xs = xs := by
  simp [writeBack, h]

theorem writeBack_length (buf xs : List α) (h : xs.length ≤ buf.length) : (writeBack buf xs).length = buf.length := by
  simp [writeBack]; omega

/-- an unchecked store never changes the EXTENT of the caller's buffer (what falls outside is not part of it) -/
theorem writeC_length (buf : List α) (pos : Nat) (xs : List α) : (writeC buf pos xs).1.length = buf.length := by
  simp only [writeC, List.length_append, List.length_take, List.length_drop]
  omega

/-- a store that fits: the run replaces exactly the positions `pos … pos + |xs| − 1`, no out-of-buffer flag -/
theorem writeC_fit (pre xs tail : List α) (pos : Nat) (hp : pre.length = pos) (hx : xs.length ≤ tail.length) :
    writeC (pre ++ tail) pos xs = (pre ++ xs ++ tail.drop xs.length, false) := by
  subst hp
  unfold writeC
  have h1 : (pre ++ tail).take pre.length = pre := List.take_left' rfl
  have h2 : xs.take ((pre ++ tail).length - pre.length) = xs := by
    apply List.take_of_length_le; simp; omega
  have h3 : (pre ++ tail).drop (pre.length + xs.length) = tail.drop xs.length := by
    rw [← List.drop_drop, List.drop_left' rfl]
  rw [h1, h2, h3]
  simp; omega

theorem copyBack_length (nS : Nat) : ∀ (rows : List (List α)) (i : Nat) (buf : List α) (f : Bool),
    (copyBack nS i rows buf f).1.length = buf.length
  | [], _, _, _ => rfl
  | r :: rest, i, buf, f => by
    simp only [copyBack]
    rw [copyBack_length nS rest, writeC_length]

theorem copyBack_exact_aux (nS : Nat) : ∀ (rows : List (List α)) (i : Nat) (pre tail : List α) (f : Bool),
    pre.length = i * nS → (∀ r ∈ rows, r.length = nS) → tail.length = rows.length * nS →
    copyBack nS i rows (pre ++ tail) f = (pre ++ rows.flatten, f)
  | [], i, pre, tail, f, _, _, ht => by
    have : tail = [] := List.eq_nil_of_length_eq_zero (by simpa using ht)
    simp [copyBack, this]
  | r :: rest, i, pre, tail, f, hp, hr, ht => by
    have hrl : r.length = nS := hr r (by simp)
    have hle : r.length ≤ tail.length := by
      rw [ht, hrl, List.length_cons, Nat.succ_mul]; omega
    simp only [copyBack]
    rw [writeC_fit pre r tail (i * nS) hp hle, Bool.or_false]
    have := copyBack_exact_aux nS rest (i + 1) (pre ++ r) (tail.drop r.length) f
      (by rw [List.length_append, hp, hrl, Nat.succ_mul])
      (fun s hs => hr s (by simp [hs]))
      (by rw [List.length_drop, ht, hrl, List.length_cons, Nat.succ_mul]; omega)
    rw [this]
    simp

/-- **copy-back, buffer sized with the model's state width.** If the library's states are `n` rows of exactly `nStates`
elements and the caller's buffer holds `n · nStates` elements, `CopyFrom` leaves the row-major image of the library's states
in the buffer and no store falls outside it. -/
theorem copyBack_exact (n nS : Nat) (rows : List (List α)) (buf : List α) (hr : Reg2 n nS rows)
    (hb : buf.length = n * nS) : copyBack nS 0 rows buf false = (flat2 rows, false) := by
  have := copyBack_exact_aux nS rows 0 [] buf false (by simp) hr.2 (by rw [hb, hr.1])
  simpa [flat2] using this

theorem copyBack_narrow_aux (nS w : Nat) (hw : w ≤ nS) : ∀ (rows olds : List (List α)) (i : Nat) (pre post : List α) (f : Bool),
    pre.length = i * nS → (∀ r ∈ rows, r.length = w) → olds.length = rows.length → (∀ o ∈ olds, o.length = nS) →
    copyBack nS i rows (pre ++ (olds.flatten ++ post)) f =
      (pre ++ ((List.zipWith (fun r o => r ++ o.drop w) rows olds).flatten ++ post), f)
  | [], olds, i, pre, post, f, _, _, ho, _ => by
    have : olds = [] := List.eq_nil_of_length_eq_zero (by simpa using ho)
    simp [copyBack, this]
  | r :: rest, [], _, _, _, _, _, _, ho, _ => by simp at ho
  | r :: rest, o :: orest, i, pre, post, f, hp, hr, ho, hol => by
    have hrl : r.length = w := hr r (by simp)
    have hon : o.length = nS := hol o (by simp)
    simp only [copyBack, List.flatten_cons, List.append_assoc]
    have hle : r.length ≤ (o ++ (orest.flatten ++ post)).length := by
      rw [List.length_append, hon, hrl]; omega
    rw [writeC_fit pre r _ (i * nS) hp hle, Bool.or_false]
    have hd : (o ++ (orest.flatten ++ post)).drop r.length = o.drop w ++ (orest.flatten ++ post) := by
      rw [hrl, List.drop_append_of_le_length (by omega)]
    rw [hd]
    have := copyBack_narrow_aux nS w hw rest orest (i + 1) (pre ++ (r ++ o.drop w)) post f
      (by simp only [List.length_append, List.length_drop, hp, hrl, hon, Nat.succ_mul]; omega)
      (fun s hs => hr s (by simp [hs])) (by simpa using ho) (fun s hs => hol s (by simp [hs]))
    simp only [List.append_assoc] at this ⊢
    rw [this]
    simp [List.zipWith]

/-- **copy-back into a WIDER buffer** (`w ≤ nStates` columns come back from the library): cell `i`'s row of the buffer
gets the library's row in its first `w` columns and keeps its own columns `w … nStates − 1`; no store falls outside. Elements
of the buffer beyond `n · nStates` (`post`) are not touched. -/
theorem copyBack_narrow (n nS w : Nat) (hw : w ≤ nS) (rows olds : List (List α)) (post : List α) (hr : Reg2 n w rows)
    (ho : Reg2 n nS olds) :
    copyBack nS 0 rows (flat2 olds ++ post) false =
      (flat2 (List.zipWith (fun r o => r ++ o.drop w) rows olds) ++ post, false) := by
  have := copyBack_narrow_aux nS w hw rows olds 0 [] post false (by simp) hr.2 (by rw [ho.1, hr.1]) ho.2
  simpa [flat2] using this

/-- **copy-back into a buffer that is too NARROW** (the library's rows are wider than `nStates`; e.g. a GR4J / Lag model
whose state width depends on its parameters and a caller that guessed it): at least one store falls OUTSIDE the caller's
states buffer. The C back-end does not check (`*[1<<30]C.double`): this is silent corruption of the caller's memory, not a
panic; the sizing of the buffer is the caller's obligation (assumption of `centry_eq_goapi`). -/
theorem copyBack_wide_oob (nS : Nat) : ∀ (rows : List (List α)) (i : Nat) (buf : List α) (f : Bool),
    rows ≠ [] → (∀ r ∈ rows, nS < r.length) → buf.length = (i + rows.length) * nS →
    (copyBack nS i rows buf f).2 = true
  | [], _, _, _, h, _, _ => absurd rfl h
  | [r], i, buf, f, _, hr, hb => by
    have : nS < r.length := hr r (by simp)
    have hlt : buf.length < i * nS + r.length := by
      rw [hb, List.length_singleton, Nat.add_mul, Nat.one_mul]; omega
    simp [copyBack, writeC, hlt]
  | r :: r' :: rest, i, buf, f, _, hr, hb => by
    simp only [copyBack]
    apply copyBack_wide_oob nS (r' :: rest) (i + 1) _ _ (by simp) (fun s hs => hr s (by simp [hs]))
    rw [writeC_length, hb]
    simp only [List.length_cons]
    congr 1; omega

theorem flatten_length_of_shape {a b : List (List α)} (h : a.map List.length = b.map List.length) :
    a.flatten.length = b.flatten.length := by
  rw [List.length_flatten, List.length_flatten, h]

theorem flat3_length_of_shape {x y : List (List (List α))}
    (h : x.map (fun m => m.map List.length) = y.map (fun m => m.map List.length)) :
    (flat3 x).length = (flat3 y).length := by
  have key : ∀ z : List (List (List α)), (flat3 z).length = ((z.map (fun m => m.map List.length)).map List.sum).sum := by
    intro z
    simp [flat3, List.length_flatten, List.map_map, Function.comp_def]
  rw [key, key, h]

theorem reg2_of_shape {d0 d1 : Nat} {a b : List (List α)} (h : a.map List.length = b.map List.length) (hb : Reg2 d0 d1 b) :
    Reg2 d0 d1 a := by
  have hl : a.length = b.length := by simpa using congrArg List.length h
  refine ⟨hl.trans hb.1, ?_⟩
  intro r hr
  obtain ⟨k, hk, rfl⟩ := List.getElem_of_mem hr
  have h1 : (a.map List.length)[k]? = (b.map List.length)[k]? := by rw [h]
  simp only [List.getElem?_map, List.getElem?_eq_getElem hk, List.getElem?_eq_getElem (hl ▸ hk), Option.map_some,
    Option.some.injEq] at h1
  rw [h1]
  exact hb.2 _ (List.getElem_mem _)

end Lists

/-! ### `Run` keeps the shape of the states and outputs arrays -/

section Shape
variable {α : Type} [Num α]

theorem cellStep_shape {km : KModel α} {spec : ParamSpec} {lay : List (Nat × Nat)} {params : List (List α)}
    {inputs : List (List (List α))} {i : Nat} {st : List α} {orow : List (List α)} {s' : List α} {o' : List (List α)}
    (h : cellStep km spec lay params inputs i st orow = .ok (s', o')) :
    s'.length = st.length ∧ o'.map List.length = orow.map List.length := by
  have hb := cellStep_ok_blocks h
  rw [cellStep_blocks _ _ _ _ _ _ _ _ hb] at h
  cases hp : cellParams spec lay params i with
  | error e => simp [hp, bind, Except.bind] at h
  | ok p =>
    cases hr : km.run p (inputs[i % inputs.length]?.getD []) st with
    | error e => simp [hp, hr, bind, Except.bind] at h
    | ok r =>
      simp only [hp, hr, bind, Except.bind, pure, Except.pure, Except.ok.injEq, Prod.mk.injEq] at h
      obtain ⟨h1, h2⟩ := h
      subst h1 h2
      refine ⟨overwrite_length _ _, ?_⟩
      apply List.ext_getElem?
      intro o
      by_cases ho : o < orow.length
      · rw [List.getElem?_map, newRows_getElem? orow r.outputs o ho, List.getElem?_map, List.getElem?_eq_getElem ho]
        simp [overwrite_length]
      · have hl : (orow.zip (r.outputs ++ List.replicate (orow.length - r.outputs.length) ([] : List α))).length =
            orow.length := by
          simp only [List.length_zip, List.length_append, List.length_replicate]; omega
        rw [List.getElem?_eq_none (by simp only [List.length_map]; omega),
          List.getElem?_eq_none (by simp only [List.length_map]; omega)]

theorem runCells_shape (km : KModel α) (spec : ParamSpec) (lay : List (Nat × Nat)) (params : List (List α))
    (inputs : List (List (List α))) :
    ∀ (cells : List (List α)) (outs : List (List (List α))) (i : Nat) (ss : List (List α)) (os : List (List (List α))),
      runCells km spec lay params inputs i cells outs = .ok (ss, os) →
      ss.map List.length = cells.map List.length ∧
      os.map (fun m => m.map List.length) = outs.map (fun m => m.map List.length) := by
  intro cells
  induction cells with
  | nil =>
    intro outs i ss os h
    simp only [runCells] at h
    cases h
    exact ⟨rfl, rfl⟩
  | cons st restS ih =>
    intro outs i ss os h
    cases outs with
    | nil => simp [runCells] at h
    | cons orow restO =>
      simp only [runCells] at h
      cases hc : cellStep km spec lay params inputs i st orow with
      | error e => simp [hc, bind, Except.bind] at h
      | ok so =>
        obtain ⟨s', o'⟩ := so
        cases hr : runCells km spec lay params inputs (i + 1) restS restO with
        | error e => simp [hc, hr, bind, Except.bind] at h
        | ok r =>
          obtain ⟨ss', os'⟩ := r
          simp only [hc, hr, bind, Except.bind, pure, Except.pure] at h
          cases h
          obtain ⟨h1, h2⟩ := ih restO (i + 1) ss' os' hr
          obtain ⟨c1, c2⟩ := cellStep_shape hc
          exact ⟨by simp [h1, c1], by simp [h2, c2]⟩

/-- what a successful `Sim.run` went through: the layout, the states array `Run` got (the given one, or
`InitialiseStates(nCells)`), and the cells' run on it -/
theorem run_ok_inv {km : KModel α} {spec : ParamSpec} {x : RunIn α} {r : RunOut α} (h : run km spec x = .ok r) :
    ∃ lay s0, layout spec x.params = .ok lay ∧
      (match x.states with
        | some s => s0 = s
        | none => initStates km spec lay x.params x.nCells = .ok s0) ∧
      runCells km spec lay x.params x.inputs 0 s0 x.outputs = .ok (r.states, r.outputs) := by
  unfold run at h
  cases hl : layout spec x.params with
  | error e => simp [hl, bind, Except.bind] at h
  | ok lay =>
    simp only [hl, bind, Except.bind] at h
    cases hs : x.states with
    | some s =>
      simp only [hs, pure, Except.pure] at h
      cases hr : runCells km spec lay x.params x.inputs 0 s x.outputs with
      | error e => simp [hr] at h
      | ok p =>
        obtain ⟨ss, os⟩ := p
        simp only [hr, Except.ok.injEq] at h
        subst h
        exact ⟨lay, s, rfl, rfl, hr⟩
    | none =>
      simp only [hs] at h
      cases hi : initStates km spec lay x.params x.nCells with
      | error e => simp [hi] at h
      | ok s0 =>
        simp only [hi] at h
        cases hr : runCells km spec lay x.params x.inputs 0 s0 x.outputs with
        | error e => simp [hr] at h
        | ok p =>
          obtain ⟨ss, os⟩ := p
          simp only [hr, pure, Except.pure, Except.ok.injEq] at h
          subst h
          exact ⟨lay, s0, rfl, hi, hr⟩

/-- **`Run` keeps the shapes.** A successful run returns a states array with the row lengths of the array it ran on and an
outputs array with the row lengths of the one it was given: every write of the wrapper is an overwrite inside a row. -/
theorem run_shape {km : KModel α} {spec : ParamSpec} {x : RunIn α} {r : RunOut α} (h : run km spec x = .ok r) :
    r.outputs.map (fun m => m.map List.length) = x.outputs.map (fun m => m.map List.length) ∧
    ∀ s, x.states = some s → r.states.map List.length = s.map List.length := by
  obtain ⟨lay, s0, _, hs, hr⟩ := run_ok_inv h
  obtain ⟨h1, h2⟩ := runCells_shape km spec lay x.params x.inputs s0 x.outputs 0 _ _ hr
  refine ⟨h2, ?_⟩
  intro s hx
  rw [hx] at hs
  simp only at hs
  rw [← hs]; exact h1

end Shape

/-! ### `InitialiseStates(n)`: `n` rows -/

section Init
variable {α : Type} [Num α]

theorem mapM_ok_length {β γ : Type} (f : β → Except String γ) : ∀ (l : List β) (rs : List γ),
    l.mapM f = .ok rs → rs.length = l.length ∧ ∀ r ∈ rs, ∃ x, f x = .ok r
  | [], rs, h => by
    simp only [List.mapM_nil, pure, Except.pure, Except.ok.injEq] at h
    subst h; simp
  | x :: xs, rs, h => by
    rw [List.mapM_cons] at h
    cases hx : f x with
    | error e => simp [hx, bind, Except.bind] at h
    | ok y =>
      cases hxs : xs.mapM f with
      | error e => simp [hx, hxs, bind, Except.bind] at h
      | ok ys =>
        simp only [hx, hxs, bind, Except.bind, pure, Except.pure, Except.ok.injEq] at h
        subst h
        obtain ⟨h1, h2⟩ := mapM_ok_length f xs ys hxs
        refine ⟨by simp [h1], ?_⟩
        intro r hr
        simp only [List.mem_cons] at hr
        rcases hr with rfl | hr
        · exact ⟨x, hx⟩
        · exact h2 r hr

omit [Num α] in
theorem writeFlat_length {buf : List α} {pos : Nat} {xs buf' : List α} (h : writeFlat buf pos xs = .ok buf') :
    buf'.length = buf.length := by
  unfold writeFlat at h
  split at h
  · cases h
  · simp only [Except.ok.injEq] at h
    subst h
    simp only [List.length_append, List.length_take, List.length_drop]
    omega

omit [Num α] in
theorem fill_length (w : Nat) : ∀ (rs : List (List α)) (i : Nat) (buf buf' : List α),
    initStates.fill w i rs buf = .ok buf' → buf'.length = buf.length
  | [], _, _, _, h => by
    simp only [initStates.fill, Except.ok.injEq] at h
    subst h; rfl
  | r :: rest, i, buf, buf', h => by
    simp only [initStates.fill] at h
    cases hw : writeFlat buf (i * w) r with
    | error e => simp [hw, bind, Except.bind] at h
    | ok b1 =>
      simp only [hw, bind, Except.bind] at h
      rw [fill_length w rest (i + 1) b1 buf' h, writeFlat_length hw]

/-- `InitialiseStates(n)` returns `n` rows of one width `w` (the width of cell 0's initial states); each cell's own initial
row has been produced by the kernel's init function -/
theorem initStates_reg {km : KModel α} {spec : ParamSpec} {lay : List (Nat × Nat)} {params : List (List α)} {n : Nat}
    {s0 : List (List α)} (h : initStates km spec lay params n = .ok s0) :
    s0.length = n ∧ (n ≠ 0 → ∃ p r0, km.init p = .ok r0 ∧ Reg2 n r0.length s0) := by
  unfold initStates at h
  simp only [bind, Except.bind] at h
  split at h
  · cases h
  · rename_i rows hm
    obtain ⟨hl, hmem⟩ := mapM_ok_length _ _ _ hm
    split at h
    · simp only [pure, Except.pure, Except.ok.injEq] at h
      subst h
      have : n = 0 := by simpa using hl.symm
      exact ⟨by simp [this], fun hn => absurd this hn⟩
    · rename_i r0 rest
      split at h
      · cases h
      · rename_i buf hf
        simp only [pure, Except.pure, Except.ok.injEq] at h
        subst h
        have hbl : buf.length = n * r0.length := by
          rw [fill_length _ _ _ _ _ hf, List.length_replicate]
        refine ⟨chunks_length _ _ _, fun _ => ?_⟩
        obtain ⟨i, hi⟩ := hmem r0 (by simp)
        cases hp : cellParams spec lay params i with
        | error e => simp [hp] at hi
        | ok p =>
          simp only [hp] at hi
          exact ⟨p, r0, hi, chunks_reg _ _ _ hbl⟩

end Init

/-! ### the entry point -/

section Entry
variable {α : Type} [Num α]

/-- the caller's obligation (the C side cannot check it): every buffer holds exactly the product of its extents -/
structure BufsOK (e : Extents) (b : Bufs α) : Prop where
  inputs : b.inputs.length = e.nInputSets * (e.nInputs * e.nTimesteps)
  params : b.params.length = e.nParameters * e.nParameterSets
  states : ∀ sb, b.states = some sb → sb.length = e.nCells * e.nStates
  outputs : b.outputs.length = e.nOutputCells * (e.nOutputs * e.nOutputTimesteps)

/-- a NULL states pointer is only legitimate when the library initialises the states or the states array is empty -/
def NullOK (e : Extents) (init : Bool) (b : Bufs α) : Prop := init = false → b.states = none → e.nCells * e.nStates = 0

/-- **Unknown model name.** `sim.Catalog[gName]` is the nil func value and calling it is Go's nil-pointer panic — the first
statement of the entry point, before any buffer is wrapped: nothing has been written when the process dies. -/
theorem centry_unknown_model (cat : String → Option (KModel α × ParamSpec)) (name : String) (h : cat name = none)
    (e : Extents) (init : Bool) (b : Bufs α) : cEntry cat name e init b = .error "nil" := by
  simp [cEntry, h]

/-- **The entry point, whatever the width of the library's states.** With the buffers sized by their extents: the entry
point panics exactly when the Go-API run of the wrapped arrays panics, with the same class; otherwise the parameter and
input buffers are as before, the outputs buffer is the row-major image of the Go-API outputs, and the states buffer is
the row-major image of the Go-API final states (states given), untouched (`initStates`, NULL pointer), or the result of
the unchecked row-by-row `CopyFrom` of the Go-API final states (`initStates`, pointer given; `copyBack_exact` /
`copyBack_narrow` / `copyBack_wide_oob` say what that is). -/
theorem centry_spec (cat : String → Option (KModel α × ParamSpec)) (name : String) (km : KModel α) (spec : ParamSpec)
    (hcat : cat name = some (km, spec)) (e : Extents) (init : Bool) (b : Bufs α) (hb : BufsOK e b) (hnull : NullOK e init b) :
    cEntry cat name e init b = (run km spec (goArgs e init b)).map fun r =>
      { bufs := { inputs := b.inputs, params := b.params, outputs := flat3 r.outputs,
                  states := if init then b.states.map fun sb => (copyBack e.nStates 0 r.states sb false).1
                            else b.states.map fun _ => flat2 r.states },
        oob := init && (b.states.map fun sb => (copyBack e.nStates 0 r.states sb false).2).getD false } := by
  unfold cEntry
  simp only [hcat]
  have hn : ¬ (init = false ∧ b.states = none ∧ e.nCells * e.nStates ≠ 0) := fun ⟨h1, h2, h3⟩ => h3 (hnull h1 h2)
  rw [if_neg hn]
  cases hr : run km spec (goArgs e init b) with
  | error c => rfl
  | ok r =>
    obtain ⟨ho, hs⟩ := run_shape hr
    have hout : writeBack b.outputs (flat3 r.outputs) = flat3 r.outputs := by
      apply writeBack_same_length
      rw [flat3_length_of_shape ho]
      show (flat3 (unflat3 e.nOutputCells e.nOutputs e.nOutputTimesteps b.outputs)).length = _
      rw [flat3_unflat3 _ _ _ _ hb.outputs]
    simp only [Except.map, hout]
    cases init with
    | true =>
      cases hst : b.states with
      | none => simp
      | some sb => simp
    | false =>
      cases hst : b.states with
      | none => simp
      | some sb =>
        have hsl := hb.states sb hst
        have h2 := hs (unflat2 e.nCells e.nStates sb) (by simp [goArgs, hst])
        have : writeBack sb (flat2 r.states) = flat2 r.states := by
          apply writeBack_same_length
          show r.states.flatten.length = _
          rw [flatten_length_of_shape h2]
          show (flat2 (unflat2 e.nCells e.nStates sb)).length = _
          rw [flat2_unflat2 _ _ _ hsl]
        simp [this]

/-- **centry_eq_goapi (C03 clause 3, list level).** For EVERY catalogue, model name found in it, kernel, parameter layout,
extents, `initStates` flag and caller buffers sized by their extents (a NULL states pointer only with `initStates` or an
empty states array), and — for `initStates` with a states pointer — a states buffer whose row width `nStates` is the
width of the states the library initialises:

`RunSingleModel` panics exactly when the Go-API `Run` on the wrapped arrays panics (same class); otherwise after the call
* the OUTPUTS buffer is the row-major flattening of the outputs array the Go API returns,
* the STATES buffer (when the pointer is not NULL) is the row-major flattening of the final states the Go API returns —
  started from the caller's states, or from `InitialiseStates(nCells)` when `initStates`,
* the PARAMETER and INPUT buffers are what they were, and no store went outside the states buffer.

The kernel run is the same function on both sides by construction (single.go calls the model's own `Run`); the content
of the theorem is the buffer ↔ array correspondence, the shape preservation of `Run`, the `initStates` path with its
copy-back, and the frame. -/
theorem centry_eq_goapi (cat : String → Option (KModel α × ParamSpec)) (name : String) (km : KModel α) (spec : ParamSpec)
    (hcat : cat name = some (km, spec)) (e : Extents) (init : Bool) (b : Bufs α) (hb : BufsOK e b) (hnull : NullOK e init b)
    (hw : init = true → ∀ lay s0, layout spec (goArgs e init b).params = .ok lay →
      initStates km spec lay (goArgs e init b).params e.nCells = .ok s0 → ∀ row ∈ s0, row.length = e.nStates) :
    cEntry cat name e init b = (run km spec (goArgs e init b)).map fun r =>
      { bufs := { inputs := b.inputs, params := b.params, outputs := flat3 r.outputs,
                  states := b.states.map fun _ => flat2 r.states },
        oob := false } := by
  rw [centry_spec cat name km spec hcat e init b hb hnull]
  cases hr : run km spec (goArgs e init b) with
  | error c => rfl
  | ok r =>
    simp only [Except.map]
    cases init with
    | false => simp
    | true =>
      cases hst : b.states with
      | none => simp
      | some sb =>
        obtain ⟨lay, s0, hl, hs, hrc⟩ := run_ok_inv hr
        have hx : (goArgs e true b).states = none := rfl
        rw [hx] at hs
        simp only at hs
        have hs' : initStates km spec lay (goArgs e true b).params e.nCells = .ok s0 := hs
        obtain ⟨h1, _⟩ := runCells_shape km spec lay _ _ s0 _ 0 _ _ hrc
        have hreg0 : Reg2 e.nCells e.nStates s0 := ⟨(initStates_reg hs').1, hw rfl lay s0 hl hs'⟩
        have hreg : Reg2 e.nCells e.nStates r.states := reg2_of_shape h1 hreg0
        have hc := copyBack_exact e.nCells e.nStates r.states sb hreg (hb.states sb hst)
        simp [hc]

/-- `centry_eq_goapi` for a kernel with a fixed number of states (all catalogued models except those whose state width
depends on a parameter): the sizing hypothesis is `nStates` = that number. -/
theorem centry_eq_goapi_fixed_width (cat : String → Option (KModel α × ParamSpec)) (name : String) (km : KModel α)
    (spec : ParamSpec) (hcat : cat name = some (km, spec)) (e : Extents) (init : Bool) (b : Bufs α) (hb : BufsOK e b)
    (hnull : NullOK e init b) (hkm : ∀ p r0, km.init p = .ok r0 → r0.length = e.nStates) :
    cEntry cat name e init b = (run km spec (goArgs e init b)).map fun r =>
      { bufs := { inputs := b.inputs, params := b.params, outputs := flat3 r.outputs,
                  states := b.states.map fun _ => flat2 r.states },
        oob := false } := by
  apply centry_eq_goapi cat name km spec hcat e init b hb hnull
  intro _ lay s0 _ hi row hrow
  obtain ⟨hlen, hr⟩ := initStates_reg hi
  by_cases hn : e.nCells = 0
  · have : s0 = [] := List.eq_nil_of_length_eq_zero (hlen.trans hn)
    simp [this] at hrow
  · obtain ⟨p, r0, hp, hreg⟩ := hr hn
    rw [hreg.2 row hrow]
    exact hkm p r0 hp

/-- **same panic, same class**: a panic of the run (a malformed array, a kernel's own panic, no input block …) is what the
caller of the C entry point gets, whatever the buffers -/
theorem centry_error (cat : String → Option (KModel α × ParamSpec)) (name : String) (km : KModel α) (spec : ParamSpec)
    (hcat : cat name = some (km, spec)) (e : Extents) (init : Bool) (b : Bufs α) (hnull : NullOK e init b) (c : String)
    (hr : run km spec (goArgs e init b) = .error c) : cEntry cat name e init b = .error c := by
  unfold cEntry
  simp only [hcat]
  have hn : ¬ (init = false ∧ b.states = none ∧ e.nCells * e.nStates ≠ 0) := fun ⟨h1, h2, h3⟩ => h3 (hnull h1 h2)
  rw [if_neg hn, hr]

/-- the entry point returns normally exactly when the Go-API run does -/
theorem centry_ok_iff (cat : String → Option (KModel α × ParamSpec)) (name : String) (km : KModel α) (spec : ParamSpec)
    (hcat : cat name = some (km, spec)) (e : Extents) (init : Bool) (b : Bufs α) (hnull : NullOK e init b) :
    (∃ res, cEntry cat name e init b = .ok res) ↔ ∃ r, run km spec (goArgs e init b) = .ok r := by
  unfold cEntry
  simp only [hcat]
  have hn : ¬ (init = false ∧ b.states = none ∧ e.nCells * e.nStates ≠ 0) := fun ⟨h1, h2, h3⟩ => h3 (hnull h1 h2)
  rw [if_neg hn]
  cases hr : run km spec (goArgs e init b) with
  | error c => simp
  | ok r =>
    refine ⟨fun _ => ⟨r, rfl⟩, fun _ => ?_⟩
    cases init <;> cases b.states <;> simp

/-- **frame (parameters, inputs), and the buffers keep their extents** — for ANY buffers (no sizing hypothesis): when
the entry point returns, the parameter and input buffers are what they were, a NULL states pointer is still NULL, and the
states buffer of an `initStates` call still has its length (stores that fell outside are flagged, not appended). -/
theorem centry_frame (cat : String → Option (KModel α × ParamSpec)) (name : String) (e : Extents) (init : Bool) (b : Bufs α)
    (res : Result α) (h : cEntry cat name e init b = .ok res) :
    res.bufs.params = b.params ∧ res.bufs.inputs = b.inputs ∧ (b.states = none → res.bufs.states = none) ∧
    (init = true → ∀ sb sb', b.states = some sb → res.bufs.states = some sb' → sb'.length = sb.length) := by
  unfold cEntry at h
  cases hc : cat name with
  | none => simp [hc] at h
  | some ks =>
    obtain ⟨km, spec⟩ := ks
    simp only [hc] at h
    split at h
    · cases h
    · cases hr : run km spec (goArgs e init b) with
      | error c => simp [hr] at h
      | ok r =>
        simp only [hr] at h
        cases init with
        | true =>
          cases hst : b.states with
          | none =>
            simp only [hst, if_true, Except.ok.injEq] at h
            subst h
            simp
          | some sb =>
            simp only [hst, if_true, Except.ok.injEq] at h
            subst h
            refine ⟨rfl, rfl, by simp, ?_⟩
            intro _ sb1 sb2 h1 h2
            simp only [Option.some.injEq] at h1 h2
            subst h1 h2
            exact copyBack_length _ _ _ _ _
        | false =>
          simp only [Bool.false_eq_true, if_false, Except.ok.injEq] at h
          subst h
          refine ⟨rfl, rfl, fun hnone => by simp [hnone], fun hf => by simp at hf⟩

/-- `initStates` with a NULL states pointer: nothing is copied anywhere (the `states != nil` guard); the outputs are the
Go-API outputs. No hypothesis about `nStates`. -/
theorem centry_init_null (cat : String → Option (KModel α × ParamSpec)) (name : String) (km : KModel α) (spec : ParamSpec)
    (hcat : cat name = some (km, spec)) (e : Extents) (b : Bufs α) (hb : BufsOK e b) (hs : b.states = none) :
    cEntry cat name e true b = (run km spec (goArgs e true b)).map fun r =>
      { bufs := { inputs := b.inputs, params := b.params, outputs := flat3 r.outputs, states := none }, oob := false } := by
  rw [centry_spec cat name km spec hcat e true b hb (fun h => by simp at h)]
  simp [hs]

end Entry

/-! ### Non-vacuity: the registry kernel `Muskingum` through the entry point, 2 cells, 2 parameter sets -/

section Example
variable {α : Type} [Num α]
open OW.Kernels

/-- a catalogue holding the registry kernel `Muskingum` with its three scalar parameters (K, X, DeltaT) -/
def catM : String → Option (KModel α × ParamSpec) := fun n =>
  if n = "Muskingum" then some (Muskingum.model, [none, none, none]) else none

/-- 1 input block of 2 inputs × 1 timestep, 3 parameters × 2 sets, 2 cells × 3 states, 2 × 1 × 1 outputs -/
def eM : Extents :=
  { nInputSets := 1, nInputs := 2, nTimesteps := 1, nParameters := 3, nParameterSets := 2, nCells := 2, nStates := 3,
    nOutputCells := 2, nOutputs := 1, nOutputTimesteps := 1 }

/-- the caller's four buffers (row-major); `st` = the states pointer (`none` = NULL) -/
def bM (k0 k1 x0 x1 d0 d1 a l z : α) (st : Option (List α)) : Bufs α :=
  { inputs := [a, l], params := [k0, k1, x0, x1, d0, d1], states := st, outputs := [z, z] }

/-- the outflow of one Muskingum step -/
def outM (k x d a l p q : α) : α :=
  (Muskingum.coef k x d).a1 * (a + l) + (Muskingum.coef k x d).a2 * p + (Muskingum.coef k x d).a3 * q

omit [Num α] in
theorem bM_ok (k0 k1 x0 x1 d0 d1 a l z : α) (sb : List α) (h : sb.length = 6) :
    BufsOK eM (bM k0 k1 x0 x1 d0 d1 a l z (some sb)) :=
  ⟨rfl, rfl, fun s hs => by cases hs; exact h, rfl⟩

/-- the Go-API run of the wrapped buffers, states GIVEN: cell 0 uses parameter set 0, cell 1 set 1, both the only block -/
theorem goapi_given (k0 k1 x0 x1 d0 d1 a l z s0 p0 q0 s1 p1 q1 : α) :
    run Muskingum.model [none, none, none] (goArgs eM false (bM k0 k1 x0 x1 d0 d1 a l z (some [s0, p0, q0, s1, p1, q1]))) =
      .ok { outputs := [[[outM k0 x0 d0 a l p0 q0]], [[outM k1 x1 d1 a l p1 q1]]],
            states := [[s0, a + l, outM k0 x0 d0 a l p0 q0], [s1, a + l, outM k1 x1 d1 a l p1 q1]] } := by
  simp [run, goArgs, eM, bM, unflat2, unflat3, chunks, layout, layout.go, runCells, cellStep, cellParams, cellParams.go,
    Muskingum.model, Muskingum.run, Muskingum.step, scan, outM, overwrite, bind, Except.bind, pure, Except.pure]

/-- … and through the C entry point (computed from `cEntry` itself): the outputs buffer and the states buffer hold the
row-major images of exactly those arrays, parameters and inputs are as before -/
theorem centry_given (k0 k1 x0 x1 d0 d1 a l z s0 p0 q0 s1 p1 q1 : α) :
    cEntry catM "Muskingum" eM false (bM k0 k1 x0 x1 d0 d1 a l z (some [s0, p0, q0, s1, p1, q1])) =
      .ok { bufs := { inputs := [a, l], params := [k0, k1, x0, x1, d0, d1],
                      outputs := [outM k0 x0 d0 a l p0 q0, outM k1 x1 d1 a l p1 q1],
                      states := some [s0, a + l, outM k0 x0 d0 a l p0 q0, s1, a + l, outM k1 x1 d1 a l p1 q1] },
            oob := false } := by
  rw [centry_eq_goapi_fixed_width catM "Muskingum" Muskingum.model [none, none, none] (by simp [catM]) eM false _
    (bM_ok _ _ _ _ _ _ _ _ _ _ rfl) (fun _ h => by simp [bM] at h)
    (fun p r0 h => by simp [Muskingum.model] at h; subst h; rfl), goapi_given]
  simp [Except.map, flat2, flat3, bM]

/-- the Go-API run when the LIBRARY initialises the states (`states := none`): `InitialiseStates(2)` = two rows of zeros -/
theorem goapi_init (k0 k1 x0 x1 d0 d1 a l z : α) (st : Option (List α)) :
    run Muskingum.model [none, none, none] (goArgs eM true (bM k0 k1 x0 x1 d0 d1 a l z st)) =
      .ok { outputs := [[[outM k0 x0 d0 a l Num.zero Num.zero]], [[outM k1 x1 d1 a l Num.zero Num.zero]]],
            states := [[Num.zero, a + l, outM k0 x0 d0 a l Num.zero Num.zero],
                       [Num.zero, a + l, outM k1 x1 d1 a l Num.zero Num.zero]] } := by
  simp [run, goArgs, eM, bM, unflat2, unflat3, chunks, layout, layout.go, runCells, cellStep, cellParams, cellParams.go,
    Muskingum.model, Muskingum.run, Muskingum.step, scan, outM, overwrite, bind, Except.bind, pure, Except.pure,
    initStates, initStates.fill, writeFlat, List.range, List.range.loop]

/-- `initStates` with a states buffer full of whatever (`g`): after the call it holds the final states of the run that
started from the library's initial states -/
theorem centry_init (k0 k1 x0 x1 d0 d1 a l z g : α) :
    cEntry catM "Muskingum" eM true (bM k0 k1 x0 x1 d0 d1 a l z (some [g, g, g, g, g, g])) =
      .ok { bufs := { inputs := [a, l], params := [k0, k1, x0, x1, d0, d1],
                      outputs := [outM k0 x0 d0 a l Num.zero Num.zero, outM k1 x1 d1 a l Num.zero Num.zero],
                      states := some [Num.zero, a + l, outM k0 x0 d0 a l Num.zero Num.zero,
                                      Num.zero, a + l, outM k1 x1 d1 a l Num.zero Num.zero] },
            oob := false } := by
  rw [centry_eq_goapi_fixed_width catM "Muskingum" Muskingum.model [none, none, none] (by simp [catM]) eM true _
    (bM_ok _ _ _ _ _ _ _ _ _ _ rfl) (fun h => by simp at h)
    (fun p r0 h => by simp [Muskingum.model] at h; subst h; rfl), goapi_init]
  simp [Except.map, flat2, flat3, bM]

/-- `initStates` with the NULL pointer: the outputs are written, nothing else -/
example (k0 k1 x0 x1 d0 d1 a l z : α) :
    cEntry catM "Muskingum" eM true (bM k0 k1 x0 x1 d0 d1 a l z none) =
      .ok { bufs := { inputs := [a, l], params := [k0, k1, x0, x1, d0, d1],
                      outputs := [outM k0 x0 d0 a l Num.zero Num.zero, outM k1 x1 d1 a l Num.zero Num.zero],
                      states := none },
            oob := false } := by
  rw [centry_init_null catM "Muskingum" Muskingum.model [none, none, none] (by simp [catM]) eM _
    ⟨rfl, rfl, fun s hs => by simp [bM] at hs, rfl⟩ rfl, goapi_init]
  simp [Except.map, flat3, bM]

/-- states NOT initialised by the library and a NULL pointer with a non-empty states array: the nil dereference -/
example (k0 k1 x0 x1 d0 d1 a l z : α) :
    cEntry catM "Muskingum" eM false (bM k0 k1 x0 x1 d0 d1 a l z none) = .error "nil" := by
  simp [cEntry, catM, eM, bM]

/-- a name that is not in the catalogue: Go's nil-func call, whatever the buffers -/
example (b : Bufs α) (init : Bool) : cEntry catM "NoSuchModel" eM init b = .error "nil" :=
  centry_unknown_model catM "NoSuchModel" (by simp [catM]) eM init b

/-- a panic of the run comes out with its class: no input block (`nInputSets = 0`) is the integer divide by zero of
`i % numInputSequences` in both worlds -/
example (k0 k1 x0 x1 d0 d1 z s0 p0 q0 s1 p1 q1 : α) :
    cEntry catM "Muskingum" { eM with nInputSets := 0 } false
      { inputs := [], params := [k0, k1, x0, x1, d0, d1], states := some [s0, p0, q0, s1, p1, q1], outputs := [z, z] } =
      .error "int-div-zero" := by
  apply centry_error catM "Muskingum" Muskingum.model [none, none, none] (by simp [catM]) _ false _ (fun _ h => by simp at h)
  simp [run, goArgs, eM, unflat2, unflat3, chunks, layout, layout.go, runCells, cellStep, bind, Except.bind, pure,
    Except.pure]

/-- the copy-back into a states buffer sized for ONE column when the library's rows have TWO: row 0's second element lands
in row 1's slot (and is overwritten by row 1), row 1's second element falls outside the buffer -/
example (a b c d x y : α) : copyBack 1 0 [[a, b], [c, d]] [x, y] false = ([a, c], true) := by
  simp [copyBack, writeC]

/-- … and `copyBack_wide_oob` says so in general -/
example (a b c d x y : α) : (copyBack 1 0 [[a, b], [c, d]] [x, y] false).2 = true :=
  copyBack_wide_oob 1 _ 0 _ false (by simp) (by simp) rfl

/-- the copy-back into a WIDER buffer keeps the surplus columns -/
example (a b x0 x1 x2 y0 y1 y2 : α) :
    copyBack 3 0 [[a], [b]] [x0, x1, x2, y0, y1, y2] false = ([a, x1, x2, b, y1, y2], false) := by
  have := copyBack_narrow 2 3 1 (by omega) [[a], [b]] [[x0, x1, x2], [y0, y1, y2]] [] ⟨rfl, by simp⟩ ⟨rfl, by simp⟩
  simpa [flat2] using this

/-- wrapping and flattening on a concrete buffer -/
example (a b c d e f : α) : unflat2 3 2 [a, b, c, d, e, f] = [[a, b], [c, d], [e, f]] ∧
    unflat3 1 3 2 [a, b, c, d, e, f] = [[[a, b], [c, d], [e, f]]] ∧ flat3 [[[a, b], [c, d], [e, f]]] = [a, b, c, d, e, f] := by
  simp [unflat2, unflat3, flat3, chunks]

end Example

end OW.Props.C03Entry



