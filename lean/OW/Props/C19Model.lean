import OW.Props.C19
import OW.Proofs.RealNum
import Mathlib.Algebra.Order.Floor.Ring
import Mathlib.Tactic.NormNum
/-!
C19, model level at `α := ℝ` — the catalogue model `DateGenerator` takes its start date as three FLOAT parameters and
truncates them with `int(·)`; its outputs are the integers of `OW.Dates.run` converted back. For integer-valued parameters
the four float output series are `rows.map ofInt` of the rows of `generator_spec` (`model_spec` of OW.Props.C19 with its
truncation hypothesis discharged at ℝ). Non-integer parameters are truncated toward zero first (29.9 → 29);
`int(NaN)` / `int(±Inf)` are implementation-defined in Go and outside every statement here.
-/
namespace OW.Props.C19
open OW OW.Kernels OW.Dates OW.Spec.Calendar

/-- `int(float64(n)) = n` at ℝ: truncation toward zero of an integer-valued real gives the integer back -/
theorem toInt_ofInt_real (n : Int) : Num.toInt (Num.ofInt n : ℝ) = n := by
  show (if (0:ℝ) ≤ (n:ℝ) then ⌊(n:ℝ)⌋ else ⌈(n:ℝ)⌉) = n
  split_ifs
  · exact Int.floor_intCast n
  · exact Int.ceil_intCast n

/-- **model_spec_real — `DateGenerator.model.run` on integer-valued parameters.** For integers `d m y` forming a valid date and
any tick series, the catalogue model run at ℝ with parameters `(d:ℝ), (m:ℝ), (y:ℝ)` does not panic and returns the four series
`rows.map (↑·.date)`, `rows.map (↑·.month)`, `rows.map (↑·.year)`, `rows.map (↑·.doy)`, where `rows` are the rows of
`generator_spec`: one per tick, the `k`-th the valid Gregorian date with ordinal `ordinal start + k` and its day of year. -/
theorem model_spec_real (d m y : Int) (hv : Valid d m y) (tick : List ℝ) :
    ∃ rows : List Row, run tick.length ⟨d, m, y⟩ = some rows ∧ rows.length = tick.length ∧
      (DateGenerator.model (α := ℝ)).run [(d:ℝ), (m:ℝ), (y:ℝ)] [tick] [] =
        .ok { outputs := [rows.map (fun r => (r.date:ℝ)), rows.map (fun r => (r.month:ℝ)),
                          rows.map (fun r => (r.year:ℝ)), rows.map (fun r => (r.doy:ℝ))], states := [] } ∧
      ∀ k (hk : k < rows.length),
        Valid rows[k].date rows[k].month rows[k].year ∧
        ordinal rows[k].date rows[k].month rows[k].year = ordinal d m y + k ∧
        rows[k].doy = ordinal rows[k].date rows[k].month rows[k].year - jan1 rows[k].year + 1 :=
  model_spec (α := ℝ) toInt_ofInt_real d m y hv tick

/-- the parameters are truncated toward zero first: 28.9 / 2.5 / 1900.99 start on 28 Feb 1900 -/
example : Num.toInt (28.9 : ℝ) = 28 ∧ Num.toInt (2.5 : ℝ) = 2 ∧ Num.toInt (1900.99 : ℝ) = 1900 := by
  refine ⟨?_, ?_, ?_⟩ <;>
  · show (if (0:ℝ) ≤ _ then ⌊_⌋ else ⌈_⌉) = _
    rw [if_pos (by norm_num)]
    rw [Int.floor_eq_iff]; constructor <;> norm_num

/-- non-vacuity: three ticks from 28 Feb 1900 (not a leap year) — 28 Feb, 1 Mar, 2 Mar; day of year 59, 60, 61 -/
example (a b c : ℝ) : (DateGenerator.model (α := ℝ)).run [28, 2, 1900] [[a, b, c]] [] =
    .ok { outputs := [[28, 1, 2], [2, 3, 3], [1900, 1900, 1900], [59, 60, 61]], states := [] } := by
  obtain ⟨rows, hr, _, hrun, _⟩ := model_spec_real 28 2 1900 (by decide) [a, b, c]
  have hrows : rows = [⟨28, 2, 1900, 59⟩, ⟨1, 3, 1900, 60⟩, ⟨2, 3, 1900, 61⟩] := by
    have : run 3 ⟨28, 2, 1900⟩ = some [⟨28, 2, 1900, 59⟩, ⟨1, 3, 1900, 60⟩, ⟨2, 3, 1900, 61⟩] := by decide
    simp only [List.length_cons, List.length_nil] at hr
    rw [this] at hr
    exact (Option.some.inj hr).symm
  subst hrows
  have e : ([28, 2, 1900] : List ℝ) = [((28:Int):ℝ), ((2:Int):ℝ), ((1900:Int):ℝ)] := by norm_num
  rw [e, hrun]
  norm_num

end OW.Props.C19
