import OW.Props.C14
import OW.Proofs.StoragePrefix
/-!
C14, second part — causality WITHOUT assuming that the truncated run succeeds.

`OW.Props.C14.causal_<M>` says: if the whole-period run and the run over its first `n₁` steps both succeed, they agree on the
first `n₁` outputs. Here the second hypothesis is removed: **if the whole-period run succeeds then every truncated run succeeds
too** (`prefixOk_<M> : PrefixOk M.model`: a Go panic of the truncated run is a panic of the whole run), hence
`causalStrong_<M> : CausalStrong M.model`. Over any arithmetic `Num α` (also `Float`).

All 41 catalogue models are covered (`causalStrong_catalogue`): 34 whose only failure is a shape mismatch; GR4J, Lag (panics depend
on parameters / state row only); DateGenerator, RatingCurvePartition, StorageRouting (the loop stops, or its state stays an error,
at the first panicking timestep); Storage (`OW.Proofs.StoragePrefix`: the look-up of the final volume after the loop cannot panic at
a truncation point).
Exception inside the statement: InstreamDissolvedNutrientDecay reads `reachVolume[0]` before its loop, so a run over ZERO
timesteps panics although every longer run succeeds — for this model the truncation point must be ≥ 1
(`PrefixOkFrom 1`, counter-example `prefix_zero_InstreamDissolvedNutrientDecay`).
-/
set_option linter.unusedSimpArgs false
set_option linter.unusedVariables false
namespace OW.Props.C14
open OW OW.Kernels

variable {α : Type} [Num α]

/-- every input series cut to its first `n` steps -/
def truncSeries {β} (n : Nat) (ins : List (List β)) : List (List β) := ins.map (·.take n)

/-- truncating a block `a ⧺ b` at the length of `a` gives `a` back -/
theorem truncSeries_cat {β} (a b : List (List β)) (n₁ : Nat) (hl : a.length = b.length) (ha : AllLen n₁ a) :
    truncSeries n₁ (catSeries a b) = a := by
  unfold truncSeries catSeries
  induction a generalizing b with
  | nil => simp
  | cons s ss ih =>
    cases b with
    | nil => simp at hl
    | cons t ts =>
      simp only [List.zipWith_cons_cons, List.map_cons]
      rw [ih ts (by simpa using hl) (fun u hu => ha u (List.mem_cons_of_mem _ hu))]
      rw [take_append_len (ha s List.mem_cons_self)]

/-- **prefix success**: if a run succeeds, so does the run on the inputs cut to their first `n ≥ k` steps -/
def PrefixOkFrom {α} (k : Nat) (km : KModel α) : Prop :=
  ∀ (p : List α) (ins : List (List α)) (st : List α) (n : Nat) (o : KOut α), k ≤ n →
    km.run p ins st = .ok o → ∃ o₁, km.run p (truncSeries n ins) st = .ok o₁

abbrev PrefixOk {α} (km : KModel α) : Prop := PrefixOkFrom 0 km

/-- **causality, strong form** (truncation points `n₁ ≥ k`): if the run over the whole period succeeds, then the run over its
first `n₁` steps succeeds as well and its outputs are the first `n₁` outputs of the whole run — whatever the later inputs are -/
def CausalStrongFrom {α} (k : Nat) (km : KModel α) : Prop :=
  ∀ (p : List α) (a b : List (List α)) (st : List α) (n₁ n₂ : Nat) (o : KOut α), k ≤ n₁ →
    a.length = b.length → AllLen n₁ a → AllLen n₂ b →
    km.run p (catSeries a b) st = .ok o →
    ∃ o₁, km.run p a st = .ok o₁ ∧ o.outputs.map (·.take n₁) = o₁.outputs

abbrev CausalStrong {α} (km : KModel α) : Prop := CausalStrongFrom 0 km

omit [Num α] in
theorem causalStrong_of {k : Nat} {km : KModel α} (hc : Causal km) (hp : PrefixOkFrom k km) : CausalStrongFrom k km := by
  intro p a b st n₁ n₂ o hk hl ha hb h
  obtain ⟨o₁, h₁⟩ := hp p (catSeries a b) st n₁ o hk h
  rw [truncSeries_cat a b n₁ hl ha] at h₁
  exact ⟨o₁, h₁, hc p a b st n₁ n₂ o o₁ hl ha hb h h₁⟩

omit [Num α] in
/-- the contrapositive reading: a panic of the truncated run is a panic of the whole run -/
theorem CausalStrongFrom.error_propagates {k : Nat} {km : KModel α} (h : CausalStrongFrom k km)
    (p : List α) (a b : List (List α)) (st : List α) (n₁ n₂ : Nat) (hk : k ≤ n₁)
    (hl : a.length = b.length) (ha : AllLen n₁ a) (hb : AllLen n₂ b) (e : String)
    (h₁ : km.run p a st = .error e) : ∃ e', km.run p (catSeries a b) st = .error e' := by
  cases hw : km.run p (catSeries a b) st with
  | error e' => exact ⟨e', rfl⟩
  | ok o =>
    obtain ⟨o₁, ho₁, _⟩ := h p a b st n₁ n₂ o hk hl ha hb hw
    rw [ho₁] at h₁; cases h₁

/-- models whose only failure is a shape mismatch (`.error "arity"`): the shape of the inputs is unchanged by truncation -/
syntax "prefix_ok_arity" (ppSpace ident)* : tactic
macro_rules
  | `(tactic| prefix_ok_arity $ids*) =>
    `(tactic| (intro p ins st n o _ h
               unfold $ids* at h ⊢
               simp only [truncSeries] at h ⊢
               split at h <;> first | exact ⟨_, rfl⟩ | cases h))

theorem prefixOk_Muskingum : PrefixOk (Muskingum.model (α := α)) := by prefix_ok_arity Muskingum.model
theorem prefixOk_LumpedConstituentRouting : PrefixOk (LumpedConstituent.model (α := α)) := by prefix_ok_arity LumpedConstituent.model
theorem prefixOk_ConstituentDecay : PrefixOk (ConstituentDecay.model (α := α)) := by prefix_ok_arity ConstituentDecay.model
theorem prefixOk_ApplyScalingFactor : PrefixOk (Scaling.model (α := α)) := by prefix_ok_arity Scaling.model Scaling.mk
theorem prefixOk_StorageDissolvedDecay : PrefixOk (StorageDissolvedDecay.model (α := α)) := by prefix_ok_arity StorageDissolvedDecay.model
theorem prefixOk_StorageParticulateTrapping : PrefixOk (StorageParticulateTrapping.model (α := α)) := by prefix_ok_arity StorageParticulateTrapping.model
theorem prefixOk_InstreamCoarseSediment : PrefixOk (InstreamCoarseSediment.model (α := α)) := by prefix_ok_arity InstreamCoarseSediment.model
theorem prefixOk_InstreamParticulateNutrient : PrefixOk (InstreamParticulateNutrient.model (α := α)) := by prefix_ok_arity InstreamParticulateNutrient.model
theorem prefixOk_InstreamFineSediment : PrefixOk (InstreamFineSediment.model (α := α)) := by prefix_ok_arity InstreamFineSediment.model
theorem prefixOk_Simhyd : PrefixOk (Simhyd.model (α := α)) := by prefix_ok_arity Simhyd.model
theorem prefixOk_Surm : PrefixOk (Surm.model (α := α)) := by prefix_ok_arity Surm.model
theorem prefixOk_Sacramento : PrefixOk (Sacramento.model (α := α)) := by prefix_ok_arity Sacramento.model
theorem prefixOk_RunoffCoefficient : PrefixOk (Coeff.model (α := α)) := by prefix_ok_arity Coeff.model
theorem prefixOk_DeliveryRatio : PrefixOk (Scaling.deliveryRatio (α := α)) := by prefix_ok_arity Scaling.deliveryRatio Scaling.mk
theorem prefixOk_DepthToRate : PrefixOk (DepthToRate.model (α := α)) := by prefix_ok_arity DepthToRate.model
theorem prefixOk_Input : PrefixOk (InputNode.model (α := α)) := by prefix_ok_arity InputNode.model
theorem prefixOk_Sum : PrefixOk (Sum.model (α := α)) := by prefix_ok_arity Sum.model
theorem prefixOk_Gate : PrefixOk (Gate.model (α := α)) := by prefix_ok_arity Gate.model
theorem prefixOk_ComputeProportion : PrefixOk (ComputeProportion.model (α := α)) := by prefix_ok_arity ComputeProportion.model
theorem prefixOk_BaseflowFilter : PrefixOk (BaseflowFilter.model (α := α)) := by prefix_ok_arity BaseflowFilter.model
theorem prefixOk_FixedPartition : PrefixOk (FixedPartition.model (α := α)) := by prefix_ok_arity FixedPartition.model
theorem prefixOk_VariablePartition : PrefixOk (VariablePartition.model (α := α)) := by prefix_ok_arity VariablePartition.model
theorem prefixOk_PartitionDemand : PrefixOk (PartitionDemand.model (α := α)) := by prefix_ok_arity PartitionDemand.model
theorem prefixOk_EmcDwc : PrefixOk (EmcDwc.model (α := α)) := by prefix_ok_arity EmcDwc.model
theorem prefixOk_FixedConcentration : PrefixOk (FixedConcentration.model (α := α)) := by prefix_ok_arity FixedConcentration.model
theorem prefixOk_PassLoadIfFlow : PrefixOk (PassLoadIfFlow.model (α := α)) := by prefix_ok_arity PassLoadIfFlow.model
theorem prefixOk_SednetDissolvedNutrientGeneration : PrefixOk (DissolvedNutrients.model (α := α)) := by prefix_ok_arity DissolvedNutrients.model
theorem prefixOk_SednetParticulateNutrientGeneration : PrefixOk (ParticulateNutrients.model (α := α)) := by prefix_ok_arity ParticulateNutrients.model
theorem prefixOk_BankErosion : PrefixOk (BankErosion.model (α := α)) := by prefix_ok_arity BankErosion.model
theorem prefixOk_USLEFineSedimentGeneration : PrefixOk (UsleFine.model (α := α)) := by prefix_ok_arity UsleFine.model
theorem prefixOk_DynamicSednetGully : PrefixOk (SednetGully.model (α := α)) := by prefix_ok_arity SednetGully.model SednetGully.mk
theorem prefixOk_DynamicSednetGullyAlt : PrefixOk (SednetGully.modelAlt (α := α)) := by prefix_ok_arity SednetGully.modelAlt SednetGully.mk
theorem prefixOk_ClimateVariables : PrefixOk (Climate.model (α := α)) := by prefix_ok_arity Climate.model
theorem prefixOk_StorageTrapAll : PrefixOk (StorageTrapAll.model (α := α)) := by
  intro p ins st n o _ h
  unfold StorageTrapAll.model at h ⊢
  simp only [truncSeries] at h ⊢
  split at h
  · simp only [List.map_cons, List.map_nil]
    split <;> exact ⟨_, rfl⟩
  · cases h

/-! ### models with panics that do not depend on the series -/

/-- GR4J: the panics (unit-hydrograph lengths ≤ 0, state row too short) depend on the state row only. -/
theorem prefixOk_GR4J : PrefixOk (GR4J.model (α := α)) := by
  intro p ins st n o _ h
  unfold GR4J.model at h ⊢
  simp only [truncSeries] at h ⊢
  split at h
  · simp only [List.map_cons, List.map_nil]
    split at h
    · cases h
    · rename_i hc
      rw [if_neg hc]
      split at h
      · cases h
      · rename_i hr
        rw [if_neg hr]
        exact ⟨_, rfl⟩
  · cases h

/-- Lag: the panics (negative lag, buffer shorter than the lag) depend on the parameter and the state row only. -/
theorem prefixOk_Lag : PrefixOk (Lag.model (α := α)) := by
  intro p ins st n o _ h
  unfold Lag.model at h ⊢
  simp only [truncSeries] at h ⊢
  split at h
  · simp only [List.map_cons, List.map_nil]
    rename_i timeLag inflow
    have hrun : ∀ (x y : List α), (∃ r, Lag.run timeLag x st = .ok r) → ∃ r, Lag.run timeLag y st = .ok r := by
      intro x y ⟨r, hr⟩
      unfold Lag.run at hr ⊢
      simp only at hr ⊢
      split_ifs at hr ⊢ <;> exact ⟨_, rfl⟩
    cases hw : Lag.run timeLag inflow st with
    | error e => rw [hw] at h; cases h
    | ok r =>
      obtain ⟨r', hr'⟩ := hrun inflow (inflow.take n) ⟨r, hw⟩
      rw [hr']
      exact ⟨_, rfl⟩
  · cases h

/-! ### DateGenerator: the panic (month outside 1..12) happens at the first tick that reaches it -/

theorem dates_run_prefix (N : Nat) : ∀ (n : Nat) (t : Dates.Date) (rs : List Dates.Row),
    Dates.run N t = some rs → ∃ rs', Dates.run (min n N) t = some rs' := by
  induction N with
  | zero => intro n t rs _; simp only [Nat.min_zero, Dates.run]; exact ⟨_, rfl⟩
  | succ N ih =>
    intro n t rs h
    cases n with
    | zero => simp only [Nat.zero_min, Dates.run]; exact ⟨_, rfl⟩
    | succ n =>
      rw [Nat.succ_min_succ]
      simp only [Dates.run] at h ⊢
      cases hs : Dates.step t with
      | none => rw [hs] at h; cases h
      | some rt =>
        obtain ⟨r, t'⟩ := rt
        rw [hs] at h
        simp only at h ⊢
        cases hr : Dates.run N t' with
        | none => rw [hr] at h; cases h
        | some rs1 =>
          obtain ⟨rs', hrs'⟩ := ih n t' rs1 hr
          rw [hrs']
          exact ⟨_, rfl⟩

theorem prefixOk_DateGenerator : PrefixOk (DateGenerator.model (α := α)) := by
  intro p ins st n o _ h
  unfold DateGenerator.model at h ⊢
  simp only [truncSeries] at h ⊢
  split at h
  · simp only [List.map_cons, List.map_nil, List.length_take]
    split at h
    · cases h
    · rename_i rows hrows
      obtain ⟨rs', hrs'⟩ := dates_run_prefix _ n _ rows hrows
      rw [hrs']
      exact ⟨_, rfl⟩
  · cases h

/-! ### RatingCurvePartition: the loop stops at the first panicking timestep -/

theorem ratingCurve_run_take (xs ys : List α) : ∀ (input : List α) (n : Nat) (r : List (α × α)),
    RatingCurvePartition.run xs ys input = .ok r → ∃ r', RatingCurvePartition.run xs ys (input.take n) = .ok r' := by
  intro input
  induction input with
  | nil => intro n r _; simp only [List.take_nil, RatingCurvePartition.run]; exact ⟨_, rfl⟩
  | cons x rest ih =>
    intro n r h
    cases n with
    | zero => simp only [List.take_zero, RatingCurvePartition.run]; exact ⟨_, rfl⟩
    | succ n =>
      simp only [List.take_succ_cons, RatingCurvePartition.run] at h ⊢
      cases hs : RatingCurvePartition.step xs ys x with
      | error e => rw [hs] at h; cases h
      | ok o =>
        rw [hs] at h
        simp only at h ⊢
        cases hr : RatingCurvePartition.run xs ys rest with
        | error e => rw [hr] at h; cases h
        | ok os =>
          obtain ⟨r', hr'⟩ := ih n os hr
          rw [hr']
          exact ⟨_, rfl⟩

theorem prefixOk_RatingCurvePartition : PrefixOk (RatingCurvePartition.model (α := α)) := by
  intro p ins st n o _ h
  unfold RatingCurvePartition.model at h ⊢
  simp only [truncSeries] at h ⊢
  split at h
  · rename_i xs ys input hd
    rw [hd]
    simp only [List.map_cons, List.map_nil]
    split at h
    · cases h
    · rename_i r hr
      obtain ⟨r', hr'⟩ := ratingCurve_run_take xs ys input n r hr
      rw [hr']
      exact ⟨_, rfl⟩
  · cases h

/-! ### InstreamDissolvedNutrientDecay: a run over zero timesteps panics (`reachVolume.Get([0])`) -/

theorem prefixOkFrom_InstreamDissolvedNutrientDecay : PrefixOkFrom 1 (InstreamDissolvedNutrient.model (α := α)) := by
  intro p ins st n o hn h
  unfold InstreamDissolvedNutrient.model at h ⊢
  simp only [truncSeries] at h ⊢
  split at h
  · simp only [List.map_cons, List.map_nil]
    split at h
    · cases h
    · rename_i v0 vrest
      obtain ⟨m, rfl⟩ : ∃ m, n = m + 1 := ⟨n - 1, by omega⟩
      simp only [List.take_succ_cons]
      split_ifs <;> exact ⟨_, rfl⟩
  · cases h

/-! ### StorageRouting: a panic at a timestep makes the loop state an error, which every later step keeps -/

omit [Num α] in
theorem zip4_take {β γ δ ε} (n : Nat) : ∀ (a : List β) (b : List γ) (c : List δ) (d : List ε),
    zip4 (a.take n) (b.take n) (c.take n) (d.take n) = (zip4 a b c d).take n := by
  induction n with
  | zero => intro a b c d; simp [zip4]
  | succ n ih =>
    intro a b c d
    cases a with
    | nil => simp [zip4]
    | cons x xs =>
      cases b with
      | nil => simp [zip4]
      | cons y ys =>
        cases c with
        | nil => simp [zip4]
        | cons z zs =>
          cases d with
          | nil => simp [zip4]
          | cons w ws => simp only [List.take_succ_cons, zip4, ih xs ys zs ws]

theorem storageRouting_error_absorbing (su : StorageRouting.Setup α) (k area dead dt : α) (e : String) :
    ∀ xs : List (α × α × α × α), (scan (StorageRouting.step su k area dead dt) (.error e) xs).1 = .error e := by
  intro xs
  induction xs with
  | nil => rfl
  | cons x xs ih => simp only [scan, StorageRouting.step]; exact ih

theorem storageRouting_prefix (su : StorageRouting.Setup α) (k area dead dt : α) (s0 : Except String (StorageRouting.St α))
    (xs : List (α × α × α × α)) (n : Nat) (f : StorageRouting.St α)
    (h : (scan (StorageRouting.step su k area dead dt) s0 xs).1 = .ok f) :
    ∃ f', (scan (StorageRouting.step su k area dead dt) s0 (xs.take n)).1 = .ok f' := by
  rw [← List.take_append_drop n xs, scan_append] at h
  simp only at h
  cases hp : (scan (StorageRouting.step su k area dead dt) s0 (xs.take n)).1 with
  | error e => rw [hp, storageRouting_error_absorbing] at h; cases h
  | ok f' => exact ⟨f', rfl⟩

theorem prefixOk_StorageRouting : PrefixOk (StorageRouting.model (α := α)) := by
  intro p ins st n o _ h
  unfold StorageRouting.model at h ⊢
  simp only [truncSeries] at h ⊢
  split at h
  · simp only [List.map_cons, List.map_nil]
    rw [zip4_take]
    split at h
    · cases h
    · rename_i f outs hrun
      unfold StorageRouting.run at hrun ⊢
      have h1 := congrArg Prod.fst hrun
      simp only at h1
      obtain ⟨f', hf'⟩ := storageRouting_prefix _ _ _ _ _ _ _ n f h1
      generalize hg : scan _ _ (List.take n _) = g at hf' ⊢
      obtain ⟨g1, g2⟩ := g
      simp only at hf'
      subst hf'
      exact ⟨_, rfl⟩
  · cases h

/-! ### Storage: the look-up of the final volume in the level / area tables cannot panic at a truncation point -/

theorem prefixOk_Storage : PrefixOk (Storage.model (α := α)) := by
  intro p ins st n o _ h
  unfold Storage.model at h ⊢
  simp only [truncSeries] at h ⊢
  split at h
  · rename_i deltaT nLVAf tbl rainfall pet inflow demand tmv tmc cv lv ar
    simp only [List.map_cons, List.map_nil, Storage.splitTables] at h ⊢
    split at h
    · cases h
    · rename_i hneg
      rw [if_neg hneg]
      split at h
      · cases h
      · rename_i hlen
        rw [if_neg hlen]
        generalize hm : Storage.mkTables (α := α) _ _ _ _ _ = mt at h ⊢
        cases mt with
        | error e => cases h
        | ok t =>
          simp only at h ⊢
          generalize hc : Storage.checkConfig (α := α) _ _ = cc at h ⊢
          cases cc with
          | error e => cases h
          | ok cfg =>
            cases cfg with
            | invalid => exact ⟨_, rfl⟩
            | ok =>
              simp only at h ⊢
              rw [zip4_take]
              cases hr : Storage.run t false Storage.fuelOuter Storage.fuelInner deltaT cv (zip4 rainfall pet inflow demand) with
              | error e => rw [hr] at h; cases h
              | ok r =>
                obtain ⟨e1, e2, e3⟩ := OW.Proofs.StoragePrefix.mkTables_fields _ _ _ _ _ t hm
                have hl5 : tbl.length = 5 * (Num.toInt nLVAf).toNat := by
                  simpa using hlen
                have hlv : t.levels.length = t.minRelease.length := by
                  rw [e1, e3]; simp only [List.length_take, List.length_drop]; omega
                have har : t.areas.length = t.minRelease.length := by
                  rw [e2, e3]; simp only [List.length_take, List.length_drop]; omega
                rw [← List.take_append_drop n (zip4 rainfall pet inflow demand), OW.Proofs.StoragePrefix.fuelOuter_succ] at hr
                obtain ⟨r₁, hr₁⟩ := OW.Proofs.StoragePrefix.run_prefix_ok t false _ _ deltaT cv _ _ r hlv har hr
                rw [OW.Proofs.StoragePrefix.fuelOuter_succ, hr₁]
                exact ⟨_, rfl⟩
  · cases h

/-! ## Strong causality of the catalogue models -/

omit [Num α] in
theorem PrefixOkFrom.mono {k k' : Nat} {km : KModel α} (h : PrefixOkFrom k km) (hk : k ≤ k') : PrefixOkFrom k' km :=
  fun p ins st n o hn hr => h p ins st n o (Nat.le_trans hk hn) hr

omit [Num α] in
theorem CausalStrongFrom.mono {k k' : Nat} {km : KModel α} (h : CausalStrongFrom k km) (hk : k ≤ k') : CausalStrongFrom k' km :=
  fun p a b st n₁ n₂ o hn hl ha hb hr => h p a b st n₁ n₂ o (Nat.le_trans hk hn) hl ha hb hr

theorem causalStrong_ApplyScalingFactor : CausalStrong (Scaling.model (α := α)) := causalStrong_of causal_ApplyScalingFactor prefixOk_ApplyScalingFactor
theorem causalStrong_BankErosion : CausalStrong (BankErosion.model (α := α)) := causalStrong_of causal_BankErosion prefixOk_BankErosion
theorem causalStrong_BaseflowFilter : CausalStrong (BaseflowFilter.model (α := α)) := causalStrong_of causal_BaseflowFilter prefixOk_BaseflowFilter
theorem causalStrong_ClimateVariables : CausalStrong (Climate.model (α := α)) := causalStrong_of causal_ClimateVariables prefixOk_ClimateVariables
theorem causalStrong_ComputeProportion : CausalStrong (ComputeProportion.model (α := α)) := causalStrong_of causal_ComputeProportion prefixOk_ComputeProportion
theorem causalStrong_ConstituentDecay : CausalStrong (ConstituentDecay.model (α := α)) := causalStrong_of causal_ConstituentDecay prefixOk_ConstituentDecay
theorem causalStrong_DateGenerator : CausalStrong (DateGenerator.model (α := α)) := causalStrong_of causal_DateGenerator prefixOk_DateGenerator
theorem causalStrong_DeliveryRatio : CausalStrong (Scaling.deliveryRatio (α := α)) := causalStrong_of causal_DeliveryRatio prefixOk_DeliveryRatio
theorem causalStrong_DepthToRate : CausalStrong (DepthToRate.model (α := α)) := causalStrong_of causal_DepthToRate prefixOk_DepthToRate
theorem causalStrong_DynamicSednetGully : CausalStrong (SednetGully.model (α := α)) := causalStrong_of causal_DynamicSednetGully prefixOk_DynamicSednetGully
theorem causalStrong_DynamicSednetGullyAlt : CausalStrong (SednetGully.modelAlt (α := α)) := causalStrong_of causal_DynamicSednetGullyAlt prefixOk_DynamicSednetGullyAlt
theorem causalStrong_EmcDwc : CausalStrong (EmcDwc.model (α := α)) := causalStrong_of causal_EmcDwc prefixOk_EmcDwc
theorem causalStrong_FixedConcentration : CausalStrong (FixedConcentration.model (α := α)) := causalStrong_of causal_FixedConcentration prefixOk_FixedConcentration
theorem causalStrong_FixedPartition : CausalStrong (FixedPartition.model (α := α)) := causalStrong_of causal_FixedPartition prefixOk_FixedPartition
theorem causalStrong_GR4J : CausalStrong (GR4J.model (α := α)) := causalStrong_of causal_GR4J prefixOk_GR4J
theorem causalStrong_Gate : CausalStrong (Gate.model (α := α)) := causalStrong_of causal_Gate prefixOk_Gate
theorem causalStrong_Input : CausalStrong (InputNode.model (α := α)) := causalStrong_of causal_Input prefixOk_Input
theorem causalStrong_InstreamCoarseSediment : CausalStrong (InstreamCoarseSediment.model (α := α)) := causalStrong_of causal_InstreamCoarseSediment prefixOk_InstreamCoarseSediment
/-- InstreamDissolvedNutrientDecay: truncation points ≥ 1 (a run over zero timesteps panics, `prefix_zero_InstreamDissolvedNutrientDecay`) -/
theorem causalStrongFrom_InstreamDissolvedNutrientDecay : CausalStrongFrom 1 (InstreamDissolvedNutrient.model (α := α)) :=
  causalStrong_of causal_InstreamDissolvedNutrientDecay prefixOkFrom_InstreamDissolvedNutrientDecay
theorem causalStrong_InstreamFineSediment : CausalStrong (InstreamFineSediment.model (α := α)) := causalStrong_of causal_InstreamFineSediment prefixOk_InstreamFineSediment
theorem causalStrong_InstreamParticulateNutrient : CausalStrong (InstreamParticulateNutrient.model (α := α)) := causalStrong_of causal_InstreamParticulateNutrient prefixOk_InstreamParticulateNutrient
theorem causalStrong_Lag : CausalStrong (Lag.model (α := α)) := causalStrong_of causal_Lag prefixOk_Lag
theorem causalStrong_LumpedConstituentRouting : CausalStrong (LumpedConstituent.model (α := α)) := causalStrong_of causal_LumpedConstituentRouting prefixOk_LumpedConstituentRouting
theorem causalStrong_Muskingum : CausalStrong (Muskingum.model (α := α)) := causalStrong_of causal_Muskingum prefixOk_Muskingum
theorem causalStrong_PartitionDemand : CausalStrong (PartitionDemand.model (α := α)) := causalStrong_of causal_PartitionDemand prefixOk_PartitionDemand
theorem causalStrong_PassLoadIfFlow : CausalStrong (PassLoadIfFlow.model (α := α)) := causalStrong_of causal_PassLoadIfFlow prefixOk_PassLoadIfFlow
theorem causalStrong_RatingCurvePartition : CausalStrong (RatingCurvePartition.model (α := α)) := causalStrong_of causal_RatingCurvePartition prefixOk_RatingCurvePartition
theorem causalStrong_RunoffCoefficient : CausalStrong (Coeff.model (α := α)) := causalStrong_of causal_RunoffCoefficient prefixOk_RunoffCoefficient
theorem causalStrong_Sacramento : CausalStrong (Sacramento.model (α := α)) := causalStrong_of causal_Sacramento prefixOk_Sacramento
theorem causalStrong_SednetDissolvedNutrientGeneration : CausalStrong (DissolvedNutrients.model (α := α)) := causalStrong_of causal_SednetDissolvedNutrientGeneration prefixOk_SednetDissolvedNutrientGeneration
theorem causalStrong_SednetParticulateNutrientGeneration : CausalStrong (ParticulateNutrients.model (α := α)) := causalStrong_of causal_SednetParticulateNutrientGeneration prefixOk_SednetParticulateNutrientGeneration
theorem causalStrong_Simhyd : CausalStrong (Simhyd.model (α := α)) := causalStrong_of causal_Simhyd prefixOk_Simhyd
theorem causalStrong_Storage : CausalStrong (Storage.model (α := α)) := causalStrong_of causal_Storage prefixOk_Storage
theorem causalStrong_StorageDissolvedDecay : CausalStrong (StorageDissolvedDecay.model (α := α)) := causalStrong_of causal_StorageDissolvedDecay prefixOk_StorageDissolvedDecay
theorem causalStrong_StorageParticulateTrapping : CausalStrong (StorageParticulateTrapping.model (α := α)) := causalStrong_of causal_StorageParticulateTrapping prefixOk_StorageParticulateTrapping
theorem causalStrong_StorageRouting : CausalStrong (StorageRouting.model (α := α)) := causalStrong_of causal_StorageRouting prefixOk_StorageRouting
theorem causalStrong_StorageTrapAll : CausalStrong (StorageTrapAll.model (α := α)) := causalStrong_of causal_StorageTrapAll prefixOk_StorageTrapAll
theorem causalStrong_Sum : CausalStrong (Sum.model (α := α)) := causalStrong_of causal_Sum prefixOk_Sum
theorem causalStrong_Surm : CausalStrong (Surm.model (α := α)) := causalStrong_of causal_Surm prefixOk_Surm
theorem causalStrong_USLEFineSedimentGeneration : CausalStrong (UsleFine.model (α := α)) := causalStrong_of causal_USLEFineSedimentGeneration prefixOk_USLEFineSedimentGeneration
theorem causalStrong_VariablePartition : CausalStrong (VariablePartition.model (α := α)) := causalStrong_of causal_VariablePartition prefixOk_VariablePartition

/-- **InstreamDissolvedNutrientDecay, zero timesteps**: a one-step run succeeds, the same call truncated to zero timesteps
panics (`prevVolume := reachVolume.Get([0])` before the loop) — so for this model strong causality needs `n₁ ≥ 1`. -/
theorem prefix_zero_InstreamDissolvedNutrientDecay :
    ∃ (p : List α) (ins : List (List α)) (st : List α),
      (∃ o, (InstreamDissolvedNutrient.model (α := α)).run p ins st = .ok o) ∧
      (InstreamDissolvedNutrient.model (α := α)).run p (truncSeries 0 ins) st = .error "index-out-of-range" := by
  refine ⟨[Num.zero, Num.zero, Num.zero, Num.zero, Num.zero, Num.zero, Num.zero],
    [[Num.zero], [Num.zero], [Num.zero], [Num.zero], [Num.zero]], [Num.zero], ?_, ?_⟩
  · unfold InstreamDissolvedNutrient.model
    simp only
    split_ifs <;> exact ⟨_, rfl⟩
  · rfl

/-- **C14, strong causality over the catalogue**: for EVERY catalogue model (41), every parameter column, state row, series
and truncation point `n₁ ≥ 1` (any `n₁ ≥ 0` for all but InstreamDissolvedNutrientDecay: `causalStrong_catalogue_zero`): if the
run over the whole period succeeds, the run over its first `n₁` steps succeeds and returns the first `n₁` outputs of the whole
run — a Go panic of a truncated run is a panic of the whole run. Any arithmetic `Num α`. -/
theorem causalStrong_catalogue : ∀ km ∈ catalogue (α := α), CausalStrongFrom 1 km := by
  intro km hkm
  simp only [catalogue, List.mem_cons, List.not_mem_nil, or_false] at hkm
  rcases hkm with rfl | rfl | rfl | rfl | rfl | rfl | rfl | rfl | rfl | rfl | rfl | rfl | rfl | rfl | rfl | rfl | rfl | rfl | rfl | rfl | rfl | rfl | rfl | rfl | rfl | rfl | rfl | rfl | rfl | rfl | rfl | rfl | rfl | rfl | rfl | rfl | rfl | rfl | rfl | rfl | rfl
  · exact (causalStrong_ApplyScalingFactor).mono (Nat.zero_le 1)
  · exact (causalStrong_BankErosion).mono (Nat.zero_le 1)
  · exact (causalStrong_BaseflowFilter).mono (Nat.zero_le 1)
  · exact (causalStrong_ClimateVariables).mono (Nat.zero_le 1)
  · exact (causalStrong_ComputeProportion).mono (Nat.zero_le 1)
  · exact (causalStrong_ConstituentDecay).mono (Nat.zero_le 1)
  · exact (causalStrong_DateGenerator).mono (Nat.zero_le 1)
  · exact (causalStrong_DeliveryRatio).mono (Nat.zero_le 1)
  · exact (causalStrong_DepthToRate).mono (Nat.zero_le 1)
  · exact (causalStrong_DynamicSednetGully).mono (Nat.zero_le 1)
  · exact (causalStrong_DynamicSednetGullyAlt).mono (Nat.zero_le 1)
  · exact (causalStrong_EmcDwc).mono (Nat.zero_le 1)
  · exact (causalStrong_FixedConcentration).mono (Nat.zero_le 1)
  · exact (causalStrong_FixedPartition).mono (Nat.zero_le 1)
  · exact (causalStrong_GR4J).mono (Nat.zero_le 1)
  · exact (causalStrong_Gate).mono (Nat.zero_le 1)
  · exact (causalStrong_Input).mono (Nat.zero_le 1)
  · exact (causalStrong_InstreamCoarseSediment).mono (Nat.zero_le 1)
  · exact causalStrongFrom_InstreamDissolvedNutrientDecay
  · exact (causalStrong_InstreamFineSediment).mono (Nat.zero_le 1)
  · exact (causalStrong_InstreamParticulateNutrient).mono (Nat.zero_le 1)
  · exact (causalStrong_Lag).mono (Nat.zero_le 1)
  · exact (causalStrong_LumpedConstituentRouting).mono (Nat.zero_le 1)
  · exact (causalStrong_Muskingum).mono (Nat.zero_le 1)
  · exact (causalStrong_PartitionDemand).mono (Nat.zero_le 1)
  · exact (causalStrong_PassLoadIfFlow).mono (Nat.zero_le 1)
  · exact (causalStrong_RatingCurvePartition).mono (Nat.zero_le 1)
  · exact (causalStrong_RunoffCoefficient).mono (Nat.zero_le 1)
  · exact (causalStrong_Sacramento).mono (Nat.zero_le 1)
  · exact (causalStrong_SednetDissolvedNutrientGeneration).mono (Nat.zero_le 1)
  · exact (causalStrong_SednetParticulateNutrientGeneration).mono (Nat.zero_le 1)
  · exact (causalStrong_Simhyd).mono (Nat.zero_le 1)
  · exact (causalStrong_Storage).mono (Nat.zero_le 1)
  · exact (causalStrong_StorageDissolvedDecay).mono (Nat.zero_le 1)
  · exact (causalStrong_StorageParticulateTrapping).mono (Nat.zero_le 1)
  · exact (causalStrong_StorageRouting).mono (Nat.zero_le 1)
  · exact (causalStrong_StorageTrapAll).mono (Nat.zero_le 1)
  · exact (causalStrong_Sum).mono (Nat.zero_le 1)
  · exact (causalStrong_Surm).mono (Nat.zero_le 1)
  · exact (causalStrong_USLEFineSedimentGeneration).mono (Nat.zero_le 1)
  · exact (causalStrong_VariablePartition).mono (Nat.zero_le 1)

/-- all truncation points, also `n₁ = 0`: every catalogue model except InstreamDissolvedNutrientDecay
(`prefix_zero_InstreamDissolvedNutrientDecay`) -/
theorem causalStrong_catalogue_zero :
    ∀ km ∈ catalogue (α := α), km.name ≠ "InstreamDissolvedNutrientDecay" → CausalStrong km := by
  intro km hkm hname
  simp only [catalogue, List.mem_cons, List.not_mem_nil, or_false] at hkm
  rcases hkm with rfl | rfl | rfl | rfl | rfl | rfl | rfl | rfl | rfl | rfl | rfl | rfl | rfl | rfl | rfl | rfl | rfl | rfl | rfl | rfl | rfl | rfl | rfl | rfl | rfl | rfl | rfl | rfl | rfl | rfl | rfl | rfl | rfl | rfl | rfl | rfl | rfl | rfl | rfl | rfl | rfl
  · exact causalStrong_ApplyScalingFactor
  · exact causalStrong_BankErosion
  · exact causalStrong_BaseflowFilter
  · exact causalStrong_ClimateVariables
  · exact causalStrong_ComputeProportion
  · exact causalStrong_ConstituentDecay
  · exact causalStrong_DateGenerator
  · exact causalStrong_DeliveryRatio
  · exact causalStrong_DepthToRate
  · exact causalStrong_DynamicSednetGully
  · exact causalStrong_DynamicSednetGullyAlt
  · exact causalStrong_EmcDwc
  · exact causalStrong_FixedConcentration
  · exact causalStrong_FixedPartition
  · exact causalStrong_GR4J
  · exact causalStrong_Gate
  · exact causalStrong_Input
  · exact causalStrong_InstreamCoarseSediment
  · exact absurd rfl hname
  · exact causalStrong_InstreamFineSediment
  · exact causalStrong_InstreamParticulateNutrient
  · exact causalStrong_Lag
  · exact causalStrong_LumpedConstituentRouting
  · exact causalStrong_Muskingum
  · exact causalStrong_PartitionDemand
  · exact causalStrong_PassLoadIfFlow
  · exact causalStrong_RatingCurvePartition
  · exact causalStrong_RunoffCoefficient
  · exact causalStrong_Sacramento
  · exact causalStrong_SednetDissolvedNutrientGeneration
  · exact causalStrong_SednetParticulateNutrientGeneration
  · exact causalStrong_Simhyd
  · exact causalStrong_Storage
  · exact causalStrong_StorageDissolvedDecay
  · exact causalStrong_StorageParticulateTrapping
  · exact causalStrong_StorageRouting
  · exact causalStrong_StorageTrapAll
  · exact causalStrong_Sum
  · exact causalStrong_Surm
  · exact causalStrong_USLEFineSedimentGeneration
  · exact causalStrong_VariablePartition

/-! ## non-vacuity -/

/-- the only hypothesis of `CausalStrong` besides the shapes — a successful whole-period run — is satisfiable
(Muskingum, 2 + 1 steps, `Float`); `causalStrong_Muskingum` then DELIVERS the successful 2-step run and its outputs -/
example : ∃ o, (Muskingum.model (α := Float)).run [86400, 0.25, 86400] (catSeries [[1, 2], [0, 1]] [[5], [0]]) [0, 0, 0] = .ok o :=
  ⟨_, rfl⟩

/-- the same for a model with panics (StorageRouting, any arithmetic): the run over an empty period succeeds -/
example (b k x a d dt s pi po : α) :
    ∃ o, (StorageRouting.model (α := α)).run [b, k, x, a, d, dt] (catSeries [[], [], [], []] [[], [], [], []]) [s, pi, po] = .ok o :=
  ⟨_, rfl⟩

/-- use of the strong form: from the whole-period run alone -/
example (p st : List α) (a1 a2 b1 b2 : List α) (o : KOut α) (h12 : a1.length = a2.length) (hb : b1.length = b2.length)
    (hw : (Muskingum.model (α := α)).run p (catSeries [a1, a2] [b1, b2]) st = .ok o) :
    ∃ o₁, (Muskingum.model (α := α)).run p [a1, a2] st = .ok o₁ ∧ o.outputs.map (·.take a1.length) = o₁.outputs :=
  causalStrong_Muskingum p [a1, a2] [b1, b2] st a1.length b1.length o (Nat.zero_le _) rfl
    (by intro s hs; simp only [List.mem_cons, List.not_mem_nil, or_false] at hs; rcases hs with rfl | rfl <;> simp [h12])
    (by intro s hs; simp only [List.mem_cons, List.not_mem_nil, or_false] at hs; rcases hs with rfl | rfl <;> simp [hb]) hw

end OW.Props.C14
