import OW.Props.C06
/-!
C06, second part — the arithmetic laws behind the hot-start continuity of GR4J and StorageTrapAll, isolated.

`OW.Props.C06.hotstart_GR4J` and `hotstart_StorageTrapAll_of_add_zero` take their law as a hypothesis. Here:
* the laws are `Prop`-valued classes over `Num α` (`IntRoundTripLaw`, `AddZeroLaw`) with instances at `ℝ`, so that
  `hotstart_GR4J_lawful` / `hotstart_StorageTrapAll_lawful` hold for EVERY arithmetic that satisfies them;
* GR4J needs its law only for the two store sizes, which are bounded by the length of the state row:
  `hotstart_GR4J_bounded` (IEEE doubles round-trip every integer up to 2⁵³, i.e. every state row that fits in memory);
* StorageTrapAll needs NO law if the conclusion is stated up to the one operation that differs: over ANY `Num α` the one-call
  outputs are element-wise equal to the split-run outputs or to them before `+ 0.0` (`hotstart_StorageTrapAll_upto_add_zero`;
  in IEEE arithmetic `y + 0.0` and `y` differ only in the sign of a zero).
Nothing about `Float` itself can be PROVED in Lean (its operations are opaque); the classes say exactly which law an arithmetic
must satisfy, and the KSPLIT correspondence runs the same model at `Float` against the real code.
-/
set_option linter.unusedSimpArgs false
set_option linter.unusedVariables false
namespace OW.Props.C06
open OW OW.Kernels

variable {α : Type} [Num α]

/-- arithmetic law: a natural number written into a state row and read back with `int(…)` is unchanged -/
class IntRoundTripLaw (α : Type) [Num α] : Prop where
  roundTrip : ∀ n : Nat, Num.toInt (Num.ofNat n : α) = (n : Int)

/-- arithmetic law: adding the literal `0.0` on the right changes nothing -/
class AddZeroLaw (α : Type) [Num α] : Prop where
  add_zero : ∀ y : α, y + 0.0 = y

instance : IntRoundTripLaw ℝ := ⟨intRoundTrip_real⟩
instance : AddZeroLaw ℝ := ⟨fun y => by norm_num⟩

/-- **GR4J, every arithmetic with `IntRoundTripLaw`.** -/
theorem hotstart_GR4J_lawful [IntRoundTripLaw α] : HotStart (GR4J.model (α := α)) :=
  hotstart_GR4J IntRoundTripLaw.roundTrip

/-- **StorageTrapAll, every arithmetic with `AddZeroLaw`.** -/
theorem hotstart_StorageTrapAll_lawful [AddZeroLaw α] : HotStart (StorageTrapAll.model (α := α)) :=
  hotstart_StorageTrapAll_of_add_zero AddZeroLaw.add_zero

/-- **GR4J, bounded law.** The round trip is needed only for the two store sizes `n1`, `n2`, and `n1 + n2 + 4` is at most the
length of the state row: hot-start continuity holds for every call whose arithmetic round-trips the integers up to the length of
ITS state row. -/
theorem hotstart_GR4J_bounded :
    HotStartWhen (GR4J.model (α := α)) (fun _ st _ => ∀ n : Nat, n ≤ st.length → Num.toInt (Num.ofNat n : α) = (n : Int)) := by
  intro p a b st n₁ n₂ o₁ o₂ hl ha hb h₁ h₂ hrt
  unfold GR4J.model at h₁ h₂ ⊢
  simp only at h₁ h₂ ⊢
  match p, a, st, h₁, hrt with
  | [x1, x2, x3, x4], [a1, a2], s :: r :: n1f :: n2f :: rest, h₁, hrt =>
    match b, hl, h₂ with
    | [b1, b2], _, h₂ =>
      simp only [catSeries, List.zipWith_cons_cons, List.zipWith_nil_right] at h₁ h₂ ⊢
      by_cases hn : Num.toInt n1f ≤ 0 ∨ Num.toInt n2f ≤ 0
      · rw [if_pos hn] at h₁; simp at h₁
      · rw [if_neg hn] at h₁ ⊢
        by_cases hr : rest.length < (Num.toInt n1f).toNat + (Num.toInt n2f).toNat
        · rw [if_pos hr] at h₁; simp at h₁
        · rw [if_neg hr] at h₁ ⊢
          simp only [Except.ok.injEq] at h₁
          subst h₁
          simp only at h₂
          generalize hN1 : (Num.toInt n1f).toNat = N1 at *
          generalize hN2 : (Num.toInt n2f).toNat = N2 at *
          have hp1 : 0 < N1 := by omega
          have hp2 : 0 < N2 := by omega
          have hb1 : N1 ≤ (s :: r :: n1f :: n2f :: rest).length := by simp only [List.length_cons]; omega
          have hb2 : N2 ≤ (s :: r :: n1f :: n2f :: rest).length := by simp only [List.length_cons]; omega
          have hrt1 := hrt N1 hb1
          have hrt2 := hrt N2 hb2
          generalize hst0 : (⟨s, r, rest.take N2, (rest.drop N2).take N1⟩ : GR4J.State α) = st0 at *
          have hl1 : st0.q1.length = N2 := by subst hst0; simp; omega
          have hl9 : st0.q9.length = N1 := by subst hst0; simp; omega
          generalize hf : GR4J.run x1 x2 x3 x4 N1 N2 st0 (a1.zip a2) = f at *
          obtain ⟨lf1, lf9⟩ : f.1.q1.length = N2 ∧ f.1.q9.length = N1 := by
            rw [← hf]; exact OW.Proofs.GR4JHot.run_len x1 x2 x3 x4 N1 N2 hp1 hp2 _ st0 hl1 hl9
          obtain ⟨m1, m2, rest', hpk, rfl, rfl, hrl, hback⟩ := OW.Proofs.GR4JHot.roundtrip_GR4J f.1 N1 N2 lf1 lf9
          rw [hpk] at h₂
          simp only at h₂
          rw [hrt1, hrt2] at h₂
          have hn' : ¬ ((N1 : Int) ≤ 0 ∨ (N2 : Int) ≤ 0) := by omega
          rw [if_neg hn'] at h₂
          simp only [Int.toNat_natCast] at h₂
          rw [if_neg (by omega), hback] at h₂
          simp only [Except.ok.injEq] at h₂
          subst h₂
          have e1 : a1.length = a2.length := ha.eq (by simp) (by simp)
          have hcat : GR4J.run x1 x2 x3 x4 N1 N2 st0 ((a1 ++ b1).zip (a2 ++ b2)) =
              ((GR4J.run x1 x2 x3 x4 N1 N2 f.1 (b1.zip b2)).1, f.2 ++ (GR4J.run x1 x2 x3 x4 N1 N2 f.1 (b1.zip b2)).2) := by
            rw [zip_append_eq _ _ _ _ e1]
            unfold GR4J.run at hf ⊢
            rw [scan_append, hf]
          refine ⟨_, rfl, ?_, ?_⟩ <;>
            simp only [catSeries, List.zipWith_cons_cons, List.zipWith_nil_right, hcat, List.map_append]

/-! ### StorageTrapAll without any law -/

/-- `y` and `y'` are equal, or `y'` is `y + 0.0` -/
def UpToAddZero (y y' : α) : Prop := y' = y ∨ y' = y + 0.0

/-- series by series, element by element -/
def SeriesUpToAddZero (u v : List (List α)) : Prop := List.Forall₂ (List.Forall₂ UpToAddZero) u v

theorem upTo_refl_list (l : List α) : List.Forall₂ UpToAddZero l l := by
  induction l with
  | nil => exact .nil
  | cons x xs ih => exact .cons (Or.inl rfl) ih

theorem seriesUpTo_refl (u : List (List α)) : SeriesUpToAddZero u u := by
  induction u with
  | nil => exact .nil
  | cons x xs ih => exact .cons (upTo_refl_list x) ih

/-- with the law the relation is equality -/
theorem SeriesUpToAddZero.eq_of_law [AddZeroLaw α] {u v : List (List α)} (h : SeriesUpToAddZero u v) : u = v := by
  induction h with
  | nil => rfl
  | cons hab _ ih =>
    congr 1
    clear ih
    induction hab with
    | nil => rfl
    | cons hxy _ ih2 =>
      congr 1
      rcases hxy with h | h
      · exact h.symm
      · rw [h, AddZeroLaw.add_zero]

/-- **StorageTrapAll, ANY arithmetic, no law.** If both calls of a split run succeed, the one-call run succeeds, its final state
row is that of the second call, and its outputs are, element by element, the concatenated outputs of the split run or those
outputs before `+ 0.0` (the only place: the first trapped value of the second call, to which the re-set stored mass `0.0` is
added). -/
theorem hotstart_StorageTrapAll_upto_add_zero
    (p : List α) (a b : List (List α)) (st : List α) (n₁ n₂ : Nat) (o₁ o₂ : KOut α)
    (hl : a.length = b.length) (ha : AllLen n₁ a) (hb : AllLen n₂ b)
    (h₁ : (StorageTrapAll.model (α := α)).run p a st = .ok o₁)
    (h₂ : (StorageTrapAll.model (α := α)).run p b o₁.states = .ok o₂) :
    ∃ o, (StorageTrapAll.model (α := α)).run p (catSeries a b) st = .ok o ∧
      SeriesUpToAddZero o.outputs (catSeries o₁.outputs o₂.outputs) ∧ o.states = o₂.states := by
  unfold StorageTrapAll.model at h₁ h₂ ⊢
  simp only at h₁ h₂ ⊢
  match p, a, st, h₁ with
  | [], [a1, a2, a3, a4], [s], h₁ =>
    match b, hl, h₂ with
    | [b1, b2, b3, b4], _, h₂ =>
      cases a1 with
      | nil =>
        simp only [StorageTrapAll.trapped, Except.ok.injEq] at h₁
        subst h₁
        simp only [catSeries, List.zipWith_cons_cons, List.zipWith_nil_right, List.nil_append]
        simp only at h₂
        cases b1 with
        | nil =>
          simp only [StorageTrapAll.trapped, Except.ok.injEq] at h₂ ⊢
          subst h₂
          exact ⟨_, rfl, seriesUpTo_refl _, rfl⟩
        | cons y ys =>
          simp only [StorageTrapAll.trapped, Except.ok.injEq] at h₂ ⊢
          subst h₂
          exact ⟨_, rfl, seriesUpTo_refl _, rfl⟩
      | cons x xs =>
        simp only [StorageTrapAll.trapped, Except.ok.injEq] at h₁
        subst h₁
        simp only [catSeries, List.zipWith_cons_cons, List.zipWith_nil_right, List.cons_append]
        simp only at h₂
        cases b1 with
        | nil =>
          simp only [StorageTrapAll.trapped, Except.ok.injEq] at h₂ ⊢
          subst h₂
          refine ⟨_, rfl, ?_, rfl⟩
          simp only [List.append_nil, List.length_cons, List.length_nil, catSeries, List.zipWith_cons_cons, List.zipWith_nil_right]
          exact seriesUpTo_refl _
        | cons y ys =>
          simp only [StorageTrapAll.trapped, Except.ok.injEq] at h₂ ⊢
          subst h₂
          refine ⟨_, rfl, ?_, rfl⟩
          simp only [List.length_cons, List.length_append, List.cons_append, catSeries, List.zipWith_cons_cons, List.zipWith_nil_right]
          refine .cons ?_ (.cons ?_ .nil)
          · refine .cons (Or.inl rfl) ?_
            -- xs ++ y :: ys  vs  xs ++ (y + 0.0) :: ys
            have : ∀ l : List α, List.Forall₂ UpToAddZero (l ++ y :: ys) (l ++ (y + 0.0) :: ys) := by
              intro l
              induction l with
              | nil => exact .cons (Or.inr rfl) (upTo_refl_list ys)
              | cons z zs ih => exact .cons (Or.inl rfl) ih
            exact this xs
          · have e : (zeros (xs.length + (ys.length + 1) + 1) : List α) = zeros (xs.length + 1) ++ zeros (ys.length + 1) := by
              rw [← zeros_add]; congr 1; omega
            rw [e]
            exact upTo_refl_list _

/-- the law-based statement is the corollary: with `AddZeroLaw` the relation is equality -/
theorem hotstart_StorageTrapAll_from_upto [AddZeroLaw α] : HotStart (StorageTrapAll.model (α := α)) := by
  intro p a b st n₁ n₂ o₁ o₂ hl ha hb h₁ h₂
  obtain ⟨o, ho, hrel, hst⟩ := hotstart_StorageTrapAll_upto_add_zero p a b st n₁ n₂ o₁ o₂ hl ha hb h₁ h₂
  exact ⟨o, ho, hrel.eq_of_law, hst⟩

/-! ### non-vacuity -/

/-- the hypotheses (four equally long series per part — `AllLen` — and two successful calls) are satisfiable over any
arithmetic: a 2-step part, then a 1-step part from the returned state row -/
example (s x x' y u v w : α) :
    AllLen 2 [[x, x'], [u, u], [v, v], [w, w]] ∧ AllLen 1 [[y], [u], [v], [w]] ∧
    ∃ o₁ o₂, (StorageTrapAll.model (α := α)).run [] [[x, x'], [u, u], [v, v], [w, w]] [s] = .ok o₁ ∧
      (StorageTrapAll.model (α := α)).run [] [[y], [u], [v], [w]] o₁.states = .ok o₂ := by
  refine ⟨?_, ?_, _, _, rfl, rfl⟩ <;>
    (intro t ht; simp only [List.mem_cons, List.not_mem_nil, or_false] at ht; rcases ht with rfl | rfl | rfl | rfl <;> rfl)

/-- and the relation is not trivially true: it pins the outputs down to the split-run values up to `+ 0.0` -/
example (y : α) : UpToAddZero y (y + 0.0) := Or.inr rfl

example : IntRoundTripLaw ℝ := inferInstance
example : HotStart (GR4J.model (α := ℝ)) := hotstart_GR4J_lawful
example : HotStart (StorageTrapAll.model (α := ℝ)) := hotstart_StorageTrapAll_lawful

/-- the bounded law holds at ℝ for every state row -/
example (st : List ℝ) : ∀ n : Nat, n ≤ st.length → Num.toInt (Num.ofNat n : ℝ) = (n : Int) := fun n _ => intRoundTrip_real n

end OW.Props.C06
