import OW.Proofs.HotStart
import OW.Kernels.Registry
/-!
C06 — hot-start continuity: a split run reproduces the uninterrupted run.
For each stateful kernel model `M`: `HotStart M.model` (exact; over any `Num α`, hence also for the `Float`
instance the code is compared with): nothing that influences future outputs is outside the state row.
-/
namespace OW.Props.C06
open OW OW.Kernels

variable {α : Type} [Num α]

/-- Muskingum: the carried (total inflow, outflow) pair is the whole memory of the recurrence. -/
theorem hotstart_Muskingum : HotStart (Muskingum.model (α := α)) := by
  intro p a b st n₁ n₂ o₁ o₂ hl ha hb h₁ h₂
  unfold Muskingum.model at h₁ h₂ ⊢
  simp only at h₁ h₂ ⊢
  match p, a, st, h₁ with
  | [k, x, dT], [a1, a2], [s, pi, po], h₁ =>
    simp only [Except.ok.injEq] at h₁
    subst h₁
    match b, hl, h₂ with
    | [b1, b2], _, h₂ =>
      simp only [Except.ok.injEq] at h₂
      subst h₂
      have e1 : a1.length = a2.length := by
        rw [ha a1 (by simp), ha a2 (by simp)]
      refine ⟨_, rfl, ?_, ?_⟩
      · simp only [catSeries, List.zipWith_cons_cons, List.zipWith_nil_right, Muskingum.run]
        rw [zip_append_eq _ _ _ _ e1, (scan_append' _ _ _ _).2]
      · simp only [catSeries, List.zipWith_cons_cons, List.zipWith_nil_right, Muskingum.run]
        rw [zip_append_eq _ _ _ _ e1, (scan_append' _ _ _ _).1]

/-- non-vacuity: the hypotheses are met by a two-step and a one-step part -/
example : ∃ o, (Muskingum.model (α := Float)).run [86400, 0.25, 86400] [[1, 2], [0, 1]] [0, 0, 0] = .ok o := ⟨_, rfl⟩

end OW.Props.C06
