import OW.Proofs.HotStart
import OW.Proofs.HotStartZip
import OW.Kernels.Registry
/-!
C06 — hot-start continuity: a split run reproduces the uninterrupted run.
For each stateful kernel model `M`: `HotStart M.model` (exact; over any `Num α`, hence also for the `Float`
instance the code is compared with): nothing that influences future outputs is outside the state row.
-/
set_option linter.unusedSimpArgs false
set_option linter.unusedVariables false
namespace OW.Props.C06
open OW OW.Kernels

variable {α : Type} [Num α]

/-- Muskingum: the carried (total inflow, outflow) pair is the whole memory of the recurrence. -/
theorem hotstart_Muskingum : HotStart (Muskingum.model (α := α)) := by
  intro p a b st n₁ n₂ o₁ o₂ hl ha hb h₁ h₂
  unfold Muskingum.model at h₁ h₂ ⊢
  simp only at h₁ h₂ ⊢
  match p, a, st, h₁ with
  | [k, x, dT], [a1, a2], [s, pi, po], h₁ =>
    simp only [Except.ok.injEq] at h₁
    subst h₁
    match b, hl, h₂ with
    | [b1, b2], _, h₂ =>
      simp only [Except.ok.injEq] at h₂
      subst h₂
      have e1 : a1.length = a2.length := by
        rw [ha a1 (by simp), ha a2 (by simp)]
      refine ⟨_, rfl, ?_, ?_⟩
      · simp only [catSeries, List.zipWith_cons_cons, List.zipWith_nil_right, Muskingum.run]
        rw [zip_append_eq _ _ _ _ e1, (scan_append' _ _ _ _).2]
      · simp only [catSeries, List.zipWith_cons_cons, List.zipWith_nil_right, Muskingum.run]
        rw [zip_append_eq _ _ _ _ e1, (scan_append' _ _ _ _).1]

/-- non-vacuity: the hypotheses are met by a two-step and a one-step part -/
example : ∃ o, (Muskingum.model (α := Float)).run [86400, 0.25, 86400] [[1, 2], [0, 1]] [0, 0, 0] = .ok o := ⟨_, rfl⟩

/-- LumpedConstituentRouting: the stored mass is the whole loop state. -/
theorem hotstart_LumpedConstituentRouting : HotStart (LumpedConstituent.model (α := α)) := by
  intro p a b st n₁ n₂ o₁ o₂ hl ha hb h₁ h₂
  unfold LumpedConstituent.model at h₁ h₂ ⊢
  simp only at h₁ h₂ ⊢
  match p, a, st, h₁ with
  | [_x, pi, dt], [a1, a2, a3, a4], [sm], h₁ =>
    simp only [Except.ok.injEq] at h₁
    subst h₁
    match b, hl, h₂ with
    | [b1, b2, b3, b4], _, h₂ =>
      simp only [Except.ok.injEq] at h₂
      subst h₂
      have e1 : a1.length = a2.length := ha.eq (by simp) (by simp)
      have e2 : a1.length = a3.length := ha.eq (by simp) (by simp)
      have e3 : a1.length = a4.length := ha.eq (by simp) (by simp)
      refine ⟨_, rfl, ?_, ?_⟩ <;>
        simp only [catSeries, List.zipWith_cons_cons, List.zipWith_nil_right, LumpedConstituent.run,
          zip4_append _ _ _ _ _ _ _ _ e1 e2 e3, map_append_scan, scan_append_fst]

/-- ConstituentDecay: the stored mass is the whole loop state. -/
theorem hotstart_ConstituentDecay : HotStart (ConstituentDecay.model (α := α)) := by
  intro p a b st n₁ n₂ o₁ o₂ hl ha hb h₁ h₂
  unfold ConstituentDecay.model at h₁ h₂ ⊢
  simp only at h₁ h₂ ⊢
  match p, a, st, h₁ with
  | [_x, hlf, dt], [a1, a2, a3, a4, a5], [sm], h₁ =>
    simp only [Except.ok.injEq] at h₁
    subst h₁
    match b, hl, h₂ with
    | [b1, b2, b3, b4, b5], _, h₂ =>
      simp only [Except.ok.injEq] at h₂
      subst h₂
      have e1 : a1.length = a2.length := ha.eq (by simp) (by simp)
      have e2 : a1.length = a3.length := ha.eq (by simp) (by simp)
      have e3 : a1.length = a4.length := ha.eq (by simp) (by simp)
      have e4 : a1.length = a5.length := ha.eq (by simp) (by simp)
      refine ⟨_, rfl, ?_, ?_⟩ <;>
        simp only [catSeries, List.zipWith_cons_cons, List.zipWith_nil_right, ConstituentDecay.run,
          zip5_append _ _ _ _ _ _ _ _ _ _ e1 e2 e3 e4, map_append_scan, scan_append_fst]

/-- StorageDissolvedDecay (both the decay-disabled and the decay-enabled branch): the stored mass is the whole loop state. -/
theorem hotstart_StorageDissolvedDecay : HotStart (StorageDissolvedDecay.model (α := α)) := by
  intro p a b st n₁ n₂ o₁ o₂ hl ha hb h₁ h₂
  unfold StorageDissolvedDecay.model at h₁ h₂ ⊢
  simp only at h₁ h₂ ⊢
  match p, a, st, h₁ with
  | [dt, dsd, _ari, bff, mfrt], [a1, a2, a3, a4], [sm], h₁ =>
    simp only [Except.ok.injEq] at h₁
    subst h₁
    match b, hl, h₂ with
    | [b1, b2, b3, b4], _, h₂ =>
      simp only [Except.ok.injEq] at h₂
      subst h₂
      have e1 : a1.length = a2.length := ha.eq (by simp) (by simp)
      have e2 : a1.length = a3.length := ha.eq (by simp) (by simp)
      have e3 : a1.length = a4.length := ha.eq (by simp) (by simp)
      refine ⟨_, rfl, ?_, ?_⟩ <;>
        simp only [catSeries, List.zipWith_cons_cons, List.zipWith_nil_right, StorageDissolvedDecay.run,
          zip4_append _ _ _ _ _ _ _ _ e1 e2 e3, map_append_scan, scan_append_fst]

/-- StorageParticulateTrapping: the stored mass is the whole loop state. -/
theorem hotstart_StorageParticulateTrapping : HotStart (StorageParticulateTrapping.model (α := α)) := by
  intro p a b st n₁ n₂ o₁ o₂ hl ha hb h₁ h₂
  unfold StorageParticulateTrapping.model at h₁ h₂ ⊢
  simp only at h₁ h₂ ⊢
  match p, a, st, h₁ with
  | [dt, cap, len, sub, mul, ldf, ldp], [a1, a2, a3, a4], [sm], h₁ =>
    simp only [Except.ok.injEq] at h₁
    subst h₁
    match b, hl, h₂ with
    | [b1, b2, b3, b4], _, h₂ =>
      simp only [Except.ok.injEq] at h₂
      subst h₂
      have e1 : a1.length = a2.length := ha.eq (by simp) (by simp)
      have e2 : a1.length = a3.length := ha.eq (by simp) (by simp)
      have e3 : a1.length = a4.length := ha.eq (by simp) (by simp)
      refine ⟨_, rfl, ?_, ?_⟩ <;>
        simp only [catSeries, List.zipWith_cons_cons, List.zipWith_nil_right, StorageParticulateTrapping.run,
          zip4_append _ _ _ _ _ _ _ _ e1 e2 e3, map_append_scan, scan_append_fst]

/-- InstreamCoarseSediment: (channel store, stored mass) is the whole loop state. -/
theorem hotstart_InstreamCoarseSediment : HotStart (InstreamCoarseSediment.model (α := α)) := by
  intro p a b st n₁ n₂ o₁ o₂ hl ha hb h₁ h₂
  unfold InstreamCoarseSediment.model at h₁ h₂ ⊢
  simp only at h₁ h₂ ⊢
  match p, a, st, h₁ with
  | [dt], [a1, a2, a3], [cs, sm], h₁ =>
    simp only [Except.ok.injEq] at h₁
    subst h₁
    match b, hl, h₂ with
    | [b1, b2, b3], _, h₂ =>
      simp only [Except.ok.injEq] at h₂
      subst h₂
      have e1 : a1.length = a2.length := ha.eq (by simp) (by simp)
      have e2 : a1.length = a3.length := ha.eq (by simp) (by simp)
      refine ⟨_, rfl, ?_, ?_⟩ <;>
        simp only [catSeries, List.zipWith_cons_cons, List.zipWith_nil_right, InstreamCoarseSediment.run,
          zip3_append _ _ _ _ _ _ e1 e2, map_append_scan, scan_append_fst]

/-- InstreamParticulateNutrient: (instream stored mass, channel stored mass) is the whole loop state. -/
theorem hotstart_InstreamParticulateNutrient : HotStart (InstreamParticulateNutrient.model (α := α)) := by
  intro p a b st n₁ n₂ o₁ o₂ hl ha hb h₁ h₂
  unfold InstreamParticulateNutrient.model at h₁ h₂ ⊢
  simp only at h₁ h₂ ⊢
  match p, a, st, h₁ with
  | [pnc, spf, dt], [a1, a2, a3, a4, a5, a6, a7, a8], [ism, csm], h₁ =>
    simp only [Except.ok.injEq] at h₁
    subst h₁
    match b, hl, h₂ with
    | [b1, b2, b3, b4, b5, b6, b7, b8], _, h₂ =>
      simp only [Except.ok.injEq] at h₂
      subst h₂
      have e1 : a1.length = a2.length := ha.eq (by simp) (by simp)
      have e2 : a1.length = a3.length := ha.eq (by simp) (by simp)
      have e3 : a1.length = a4.length := ha.eq (by simp) (by simp)
      have e4 : a1.length = a5.length := ha.eq (by simp) (by simp)
      have e5 : a1.length = a6.length := ha.eq (by simp) (by simp)
      have e6 : a1.length = a7.length := ha.eq (by simp) (by simp)
      have e7 : a1.length = a8.length := ha.eq (by simp) (by simp)
      refine ⟨_, rfl, ?_, ?_⟩ <;>
        simp only [catSeries, List.zipWith_cons_cons, List.zipWith_nil_right, InstreamParticulateNutrient.run,
          zipIn_append _ _ _ _ _ _ _ _ _ _ _ _ _ _ _ _ e1 e2 e3 e4 e5 e6 e7, map_append_scan, scan_append_fst]

/-- Simhyd: (soil moisture store, groundwater store, total store) is the whole loop state. -/
theorem hotstart_Simhyd : HotStart (Simhyd.model (α := α)) := by
  intro p a b st n₁ n₂ o₁ o₂ hl ha hb h₁ h₂
  unfold Simhyd.model at h₁ h₂ ⊢
  simp only at h₁ h₂ ⊢
  match p, a, st, h₁ with
  | [p1, p2, p3, p4, p5, p6, p7, p8, p9], [a1, a2], [s, gw, tot], h₁ =>
    simp only [Except.ok.injEq] at h₁
    subst h₁
    match b, hl, h₂ with
    | [b1, b2], _, h₂ =>
      simp only [Except.ok.injEq] at h₂
      subst h₂
      have e1 : a1.length = a2.length := ha.eq (by simp) (by simp)
      refine ⟨_, rfl, ?_, ?_⟩ <;>
        simp only [catSeries, List.zipWith_cons_cons, List.zipWith_nil_right, Simhyd.run,
          zip_append_eq _ _ _ _ e1, map_append_scan, scan_append_fst]

/-- Surm: (soil moisture store, groundwater store, total store) is the whole loop state. -/
theorem hotstart_Surm : HotStart (Surm.model (α := α)) := by
  intro p a b st n₁ n₂ o₁ o₂ hl ha hb h₁ h₂
  unfold Surm.model at h₁ h₂ ⊢
  simp only at h₁ h₂ ⊢
  match p, a, st, h₁ with
  | [p1, p2, p3, p4, p5, p6, p7, p8, p9], [a1, a2], [s, gw, tot], h₁ =>
    simp only [Except.ok.injEq] at h₁
    subst h₁
    match b, hl, h₂ with
    | [b1, b2], _, h₂ =>
      simp only [Except.ok.injEq] at h₂
      subst h₂
      have e1 : a1.length = a2.length := ha.eq (by simp) (by simp)
      refine ⟨_, rfl, ?_, ?_⟩ <;>
        simp only [catSeries, List.zipWith_cons_cons, List.zipWith_nil_right, Surm.run,
          zip_append_eq _ _ _ _ e1, map_append_scan, scan_append_fst]

/-- StorageTrapAll: the stored mass is added to the FIRST element of the trapped series of each call and the state is
reset to `0.0`; the second call therefore adds `0.0` to its first inflow value. The split run equals the whole run
provided `y + 0.0 = y` (true in ℝ, and in IEEE arithmetic for every `y` except `-0.0`, where `-0.0 + 0.0 = +0.0`:
a sign-of-zero difference only, inside the "floating-point round-off" the property allows). Without this law the
statement is not provable over an arbitrary `Num α` (no arithmetic law is available there). -/
theorem hotstart_StorageTrapAll_of_add_zero (h0 : ∀ y : α, y + 0.0 = y) : HotStart (StorageTrapAll.model (α := α)) := by
  intro p a b st n₁ n₂ o₁ o₂ hl ha hb h₁ h₂
  unfold StorageTrapAll.model at h₁ h₂ ⊢
  simp only at h₁ h₂ ⊢
  match p, a, st, h₁ with
  | [], [a1, a2, a3, a4], [s], h₁ =>
    match b, hl, h₂ with
    | [b1, b2, b3, b4], _, h₂ =>
      cases a1 with
      | nil =>
        simp only [StorageTrapAll.trapped, Except.ok.injEq] at h₁
        subst h₁
        simp only [catSeries, List.zipWith_cons_cons, List.zipWith_nil_right, List.nil_append]
        simp only at h₂
        cases b1 with
        | nil =>
          simp only [StorageTrapAll.trapped, Except.ok.injEq] at h₂ ⊢
          subst h₂
          exact ⟨_, rfl, rfl, rfl⟩
        | cons y ys =>
          simp only [StorageTrapAll.trapped, Except.ok.injEq] at h₂ ⊢
          subst h₂
          exact ⟨_, rfl, rfl, rfl⟩
      | cons x xs =>
        simp only [StorageTrapAll.trapped, Except.ok.injEq] at h₁
        subst h₁
        simp only [catSeries, List.zipWith_cons_cons, List.zipWith_nil_right, List.cons_append]
        simp only at h₂
        cases b1 with
        | nil =>
          simp only [StorageTrapAll.trapped, Except.ok.injEq] at h₂ ⊢
          subst h₂
          refine ⟨_, rfl, ?_, rfl⟩
          simp
        | cons y ys =>
          simp only [StorageTrapAll.trapped, Except.ok.injEq] at h₂ ⊢
          subst h₂
          refine ⟨_, rfl, ?_, rfl⟩
          simp only [h0, List.length_cons, List.length_append, List.cons_append]
          congr 2
          show zeros (xs.length + (ys.length + 1) + 1) = zeros (xs.length + 1) ++ zeros (ys.length + 1)
          rw [← zeros_add]; congr 1; omega

/-- the side condition for InstreamFineSediment: the reach has no bank-full flow (lumped path, the channel store is
passed through untouched) or the channel store handed to the second call is not negative (a negative value is read as
"fraction of the maximum storage" at the start of EVERY call). -/
def FineSedimentSplitOk (p _st s : List α) : Prop :=
  (∃ bff rest, p = bff :: rest ∧ bff ≤ (1e-8 : α)) ∨ (∃ csf tsm, s = [csf, tsm] ∧ ¬ csf < (0.0 : α))

/-- InstreamFineSediment. Full statement (FALSE for the model and the code as they are):
`HotStart (InstreamFineSediment.model)`. What is missing: the kernel re-interprets a NEGATIVE channel store as
"fraction of the maximum storage" at the start of every call (`if channelStoreFine < 0.0 {…}` precedes the loop), so a
negative store handed over at a split point would be converted while the uninterrupted run keeps it. Proved: hot-start
continuity for every split at which that conversion does not fire (`FineSedimentSplitOk`). For physically meaningful
parameters (maximum storage ≥ 0) the store never becomes negative after the first conversion — see
`fineSediment_store_nonneg` below (ℝ). -/
theorem hotstart_InstreamFineSediment_partial :
    HotStartWhen (InstreamFineSediment.model (α := α)) FineSedimentSplitOk := by
  intro p a b st n₁ n₂ o₁ o₂ hl ha hb h₁ h₂ hc
  unfold InstreamFineSediment.model at h₁ h₂ ⊢
  simp only at h₁ h₂ ⊢
  match p, a, st, h₁ with
  | [bff, vfl, fpa, lw, ll, ls, bh, pbh, sbd, mn, vs, vr, dt], [a1, a2, a3, a4, a5], [csf, tsm], h₁ =>
    simp only [Except.ok.injEq] at h₁
    subst h₁
    match b, hl, h₂ with
    | [b1, b2, b3, b4, b5], _, h₂ =>
      simp only [Except.ok.injEq] at h₂
      subst h₂
      have e1 : a1.length = a2.length := ha.eq (by simp) (by simp)
      have e2 : a1.length = a3.length := ha.eq (by simp) (by simp)
      have e3 : a1.length = a4.length := ha.eq (by simp) (by simp)
      have e4 : a1.length = a5.length := ha.eq (by simp) (by simp)
      generalize hP : (⟨bff, vfl, fpa, lw, ll, ls, bh, pbh, sbd, mn, vs, vr, dt⟩ : InstreamFineSediment.Params α) = P at hc ⊢
      generalize hf : InstreamFineSediment.run P (csf, tsm) (zip5 a1 a2 a3 a4 a5) = f at hc ⊢
      have hstart : InstreamFineSediment.start P (f.1.1, f.1.2) = f.1 := by
        obtain ⟨⟨f1, f2⟩, f3⟩ := f
        unfold InstreamFineSediment.start InstreamFineSediment.initStore
        rcases hc with ⟨bff', rest, hp, hle⟩ | ⟨c, t, hs, hneg⟩
        · have : InstreamFineSediment.lumped P = true := by
            subst hP
            simp only [List.cons.injEq] at hp
            obtain ⟨rfl, _⟩ := hp
            simpa [InstreamFineSediment.lumped] using hle
          simp [this]
        · simp only [List.cons.injEq, and_true] at hs
          obtain ⟨h1, h2⟩ := hs
          subst h1
          simp only [if_neg hneg]
          split <;> rfl
      have hcat : InstreamFineSediment.run P (csf, tsm) (zip5 a1 a2 a3 a4 a5 ++ zip5 b1 b2 b3 b4 b5) =
          ((InstreamFineSediment.run P (f.1.1, f.1.2) (zip5 b1 b2 b3 b4 b5)).1,
            f.2 ++ (InstreamFineSediment.run P (f.1.1, f.1.2) (zip5 b1 b2 b3 b4 b5)).2) := by
        unfold InstreamFineSediment.run at hf ⊢
        rw [scan_append, hstart, hf]
      clear h₁ h₂
      subst hP
      refine ⟨_, rfl, ?_, ?_⟩ <;>
        simp only [catSeries, List.zipWith_cons_cons, List.zipWith_nil_right,
          zip5_append _ _ _ _ _ _ _ _ _ _ e1 e2 e3 e4, hcat, List.map_append]

end OW.Props.C06
