import OW.Proofs.HotStart
import OW.Proofs.HotStartZip
import OW.Proofs.HotStartLag
import OW.Proofs.HotStartGR4J
import OW.Proofs.HotStartStorage
import OW.Proofs.HotStartSacramento
import OW.Proofs.HotStartFineSediment
import OW.Proofs.RealNum
import OW.Kernels.Registry
/-!
C06 — hot-start continuity: a split run reproduces the uninterrupted run.

`HotStart km` (OW/Proofs/HotStart.lean): for every parameter column, initial state row, pair of consecutive input blocks
(any lengths, also 0 and 1: every split point; several splits: `HotStartN`, derived once in OW/Proofs/HotStartN.lean,
instances in OW/Props/C06N.lean) — if both calls of the split run
succeed, the run over the concatenated inputs succeeds, its outputs are the concatenated outputs and its final state row
is the final state row of the second call. Exact (no tolerance), structural: the time loop is a `scan` and the packed
state row is exactly the loop state.

Stateful catalogue models (17):
* over ANY `Num α` (hence also the `Float` instance the code is compared with), no arithmetic law used:
  Muskingum, LumpedConstituentRouting, ConstituentDecay, StorageDissolvedDecay, StorageParticulateTrapping,
  InstreamCoarseSediment, InstreamParticulateNutrient, Simhyd, Surm, Lag, Storage;
* over any `Num α` given ONE arithmetic law, instantiated at ℝ:
  GR4J (`IntRoundTrip`: n1, n2 survive float ↔ int; `roundtrip_GR4J` = extract ∘ pack = id),
  StorageTrapAll (`y + 0.0 = y`; false in IEEE only for y = −0.0);
* FALSE as stated — counter-example (ℝ) + `…_partial` under the hypothesis that removes the leak:
  Sacramento (unit-hydrograph buffer is a local: partial = no spreading, uh2..uh5 = 0),
  InstreamDissolvedNutrientDecay (`prevVolume` re-seeded: partial = decay disabled),
  StorageRouting (root-finder seed `qi` is a local: partial = seed equal to a fresh call's; exact split law
  `storageRouting_split`; the property's clause "within the solver's own mass-balance tolerance" has NO whole-run theorem —
  it is checked by the KSPLIT oracle only; proved: the first timestep after a cut, `storageRouting_split_tol_step_partial`,
  OW/Props/C06Tol.lean),
  InstreamFineSediment (a negative channel store is re-read as a fraction at each call: partial = store not negative
  at the split; `hotstart_InstreamFineSediment_real`: never happens when the maximum storage is ≥ 0).
Summary theorem over the catalogue: `OW.Props.C14.hotstart_catalogue`.
-/
set_option linter.unusedSimpArgs false
set_option linter.unusedVariables false
namespace OW.Props.C06
open OW OW.Kernels

variable {α : Type} [Num α]

/-- Muskingum: the carried (total inflow, outflow) pair is the whole memory of the recurrence. -/
theorem hotstart_Muskingum : HotStart (Muskingum.model (α := α)) := by
  intro p a b st n₁ n₂ o₁ o₂ hl ha hb h₁ h₂
  unfold Muskingum.model at h₁ h₂ ⊢
  simp only at h₁ h₂ ⊢
  match p, a, st, h₁ with
  | [k, x, dT], [a1, a2], [s, pi, po], h₁ =>
    simp only [Except.ok.injEq] at h₁
    subst h₁
    match b, hl, h₂ with
    | [b1, b2], _, h₂ =>
      simp only [Except.ok.injEq] at h₂
      subst h₂
      have e1 : a1.length = a2.length := by
        rw [ha a1 (by simp), ha a2 (by simp)]
      refine ⟨_, rfl, ?_, ?_⟩
      · simp only [catSeries, List.zipWith_cons_cons, List.zipWith_nil_right, Muskingum.run]
        rw [zip_append_eq _ _ _ _ e1, (scan_append' _ _ _ _).2]
      · simp only [catSeries, List.zipWith_cons_cons, List.zipWith_nil_right, Muskingum.run]
        rw [zip_append_eq _ _ _ _ e1, (scan_append' _ _ _ _).1]

/-- non-vacuity: the hypotheses are met by a two-step and a one-step part -/
example : ∃ o, (Muskingum.model (α := Float)).run [86400, 0.25, 86400] [[1, 2], [0, 1]] [0, 0, 0] = .ok o := ⟨_, rfl⟩

/-- LumpedConstituentRouting: the stored mass is the whole loop state. -/
theorem hotstart_LumpedConstituentRouting : HotStart (LumpedConstituent.model (α := α)) := by
  intro p a b st n₁ n₂ o₁ o₂ hl ha hb h₁ h₂
  unfold LumpedConstituent.model at h₁ h₂ ⊢
  simp only at h₁ h₂ ⊢
  match p, a, st, h₁ with
  | [_x, pi, dt], [a1, a2, a3, a4], [sm], h₁ =>
    simp only [Except.ok.injEq] at h₁
    subst h₁
    match b, hl, h₂ with
    | [b1, b2, b3, b4], _, h₂ =>
      simp only [Except.ok.injEq] at h₂
      subst h₂
      have e1 : a1.length = a2.length := ha.eq (by simp) (by simp)
      have e2 : a1.length = a3.length := ha.eq (by simp) (by simp)
      have e3 : a1.length = a4.length := ha.eq (by simp) (by simp)
      refine ⟨_, rfl, ?_, ?_⟩ <;>
        simp only [catSeries, List.zipWith_cons_cons, List.zipWith_nil_right, LumpedConstituent.run,
          zip4_append _ _ _ _ _ _ _ _ e1 e2 e3, map_append_scan, scan_append_fst]

/-- ConstituentDecay: the stored mass is the whole loop state. -/
theorem hotstart_ConstituentDecay : HotStart (ConstituentDecay.model (α := α)) := by
  intro p a b st n₁ n₂ o₁ o₂ hl ha hb h₁ h₂
  unfold ConstituentDecay.model at h₁ h₂ ⊢
  simp only at h₁ h₂ ⊢
  match p, a, st, h₁ with
  | [_x, hlf, dt], [a1, a2, a3, a4, a5], [sm], h₁ =>
    simp only [Except.ok.injEq] at h₁
    subst h₁
    match b, hl, h₂ with
    | [b1, b2, b3, b4, b5], _, h₂ =>
      simp only [Except.ok.injEq] at h₂
      subst h₂
      have e1 : a1.length = a2.length := ha.eq (by simp) (by simp)
      have e2 : a1.length = a3.length := ha.eq (by simp) (by simp)
      have e3 : a1.length = a4.length := ha.eq (by simp) (by simp)
      have e4 : a1.length = a5.length := ha.eq (by simp) (by simp)
      refine ⟨_, rfl, ?_, ?_⟩ <;>
        simp only [catSeries, List.zipWith_cons_cons, List.zipWith_nil_right, ConstituentDecay.run,
          zip5_append _ _ _ _ _ _ _ _ _ _ e1 e2 e3 e4, map_append_scan, scan_append_fst]

/-- StorageDissolvedDecay (both the decay-disabled and the decay-enabled branch): the stored mass is the whole loop state. -/
theorem hotstart_StorageDissolvedDecay : HotStart (StorageDissolvedDecay.model (α := α)) := by
  intro p a b st n₁ n₂ o₁ o₂ hl ha hb h₁ h₂
  unfold StorageDissolvedDecay.model at h₁ h₂ ⊢
  simp only at h₁ h₂ ⊢
  match p, a, st, h₁ with
  | [dt, dsd, _ari, bff, mfrt], [a1, a2, a3, a4], [sm], h₁ =>
    simp only [Except.ok.injEq] at h₁
    subst h₁
    match b, hl, h₂ with
    | [b1, b2, b3, b4], _, h₂ =>
      simp only [Except.ok.injEq] at h₂
      subst h₂
      have e1 : a1.length = a2.length := ha.eq (by simp) (by simp)
      have e2 : a1.length = a3.length := ha.eq (by simp) (by simp)
      have e3 : a1.length = a4.length := ha.eq (by simp) (by simp)
      refine ⟨_, rfl, ?_, ?_⟩ <;>
        simp only [catSeries, List.zipWith_cons_cons, List.zipWith_nil_right, StorageDissolvedDecay.run,
          zip4_append _ _ _ _ _ _ _ _ e1 e2 e3, map_append_scan, scan_append_fst]

/-- StorageParticulateTrapping: the stored mass is the whole loop state. -/
theorem hotstart_StorageParticulateTrapping : HotStart (StorageParticulateTrapping.model (α := α)) := by
  intro p a b st n₁ n₂ o₁ o₂ hl ha hb h₁ h₂
  unfold StorageParticulateTrapping.model at h₁ h₂ ⊢
  simp only at h₁ h₂ ⊢
  match p, a, st, h₁ with
  | [dt, cap, len, sub, mul, ldf, ldp], [a1, a2, a3, a4], [sm], h₁ =>
    simp only [Except.ok.injEq] at h₁
    subst h₁
    match b, hl, h₂ with
    | [b1, b2, b3, b4], _, h₂ =>
      simp only [Except.ok.injEq] at h₂
      subst h₂
      have e1 : a1.length = a2.length := ha.eq (by simp) (by simp)
      have e2 : a1.length = a3.length := ha.eq (by simp) (by simp)
      have e3 : a1.length = a4.length := ha.eq (by simp) (by simp)
      refine ⟨_, rfl, ?_, ?_⟩ <;>
        simp only [catSeries, List.zipWith_cons_cons, List.zipWith_nil_right, StorageParticulateTrapping.run,
          zip4_append _ _ _ _ _ _ _ _ e1 e2 e3, map_append_scan, scan_append_fst]

/-- InstreamCoarseSediment: (channel store, stored mass) is the whole loop state. -/
theorem hotstart_InstreamCoarseSediment : HotStart (InstreamCoarseSediment.model (α := α)) := by
  intro p a b st n₁ n₂ o₁ o₂ hl ha hb h₁ h₂
  unfold InstreamCoarseSediment.model at h₁ h₂ ⊢
  simp only at h₁ h₂ ⊢
  match p, a, st, h₁ with
  | [dt], [a1, a2, a3], [cs, sm], h₁ =>
    simp only [Except.ok.injEq] at h₁
    subst h₁
    match b, hl, h₂ with
    | [b1, b2, b3], _, h₂ =>
      simp only [Except.ok.injEq] at h₂
      subst h₂
      have e1 : a1.length = a2.length := ha.eq (by simp) (by simp)
      have e2 : a1.length = a3.length := ha.eq (by simp) (by simp)
      refine ⟨_, rfl, ?_, ?_⟩ <;>
        simp only [catSeries, List.zipWith_cons_cons, List.zipWith_nil_right, InstreamCoarseSediment.run,
          zip3_append _ _ _ _ _ _ e1 e2, map_append_scan, scan_append_fst]

/-- InstreamParticulateNutrient: (instream stored mass, channel stored mass) is the whole loop state. -/
theorem hotstart_InstreamParticulateNutrient : HotStart (InstreamParticulateNutrient.model (α := α)) := by
  intro p a b st n₁ n₂ o₁ o₂ hl ha hb h₁ h₂
  unfold InstreamParticulateNutrient.model at h₁ h₂ ⊢
  simp only at h₁ h₂ ⊢
  match p, a, st, h₁ with
  | [pnc, spf, dt], [a1, a2, a3, a4, a5, a6, a7, a8], [ism, csm], h₁ =>
    simp only [Except.ok.injEq] at h₁
    subst h₁
    match b, hl, h₂ with
    | [b1, b2, b3, b4, b5, b6, b7, b8], _, h₂ =>
      simp only [Except.ok.injEq] at h₂
      subst h₂
      have e1 : a1.length = a2.length := ha.eq (by simp) (by simp)
      have e2 : a1.length = a3.length := ha.eq (by simp) (by simp)
      have e3 : a1.length = a4.length := ha.eq (by simp) (by simp)
      have e4 : a1.length = a5.length := ha.eq (by simp) (by simp)
      have e5 : a1.length = a6.length := ha.eq (by simp) (by simp)
      have e6 : a1.length = a7.length := ha.eq (by simp) (by simp)
      have e7 : a1.length = a8.length := ha.eq (by simp) (by simp)
      refine ⟨_, rfl, ?_, ?_⟩ <;>
        simp only [catSeries, List.zipWith_cons_cons, List.zipWith_nil_right, InstreamParticulateNutrient.run,
          zipIn_append _ _ _ _ _ _ _ _ _ _ _ _ _ _ _ _ e1 e2 e3 e4 e5 e6 e7, map_append_scan, scan_append_fst]

/-- Simhyd: (soil moisture store, groundwater store, total store) is the whole loop state. -/
theorem hotstart_Simhyd : HotStart (Simhyd.model (α := α)) := by
  intro p a b st n₁ n₂ o₁ o₂ hl ha hb h₁ h₂
  unfold Simhyd.model at h₁ h₂ ⊢
  simp only at h₁ h₂ ⊢
  match p, a, st, h₁ with
  | [p1, p2, p3, p4, p5, p6, p7, p8, p9], [a1, a2], [s, gw, tot], h₁ =>
    simp only [Except.ok.injEq] at h₁
    subst h₁
    match b, hl, h₂ with
    | [b1, b2], _, h₂ =>
      simp only [Except.ok.injEq] at h₂
      subst h₂
      have e1 : a1.length = a2.length := ha.eq (by simp) (by simp)
      refine ⟨_, rfl, ?_, ?_⟩ <;>
        simp only [catSeries, List.zipWith_cons_cons, List.zipWith_nil_right, Simhyd.run,
          zip_append_eq _ _ _ _ e1, map_append_scan, scan_append_fst]

/-- Surm: (soil moisture store, groundwater store, total store) is the whole loop state. -/
theorem hotstart_Surm : HotStart (Surm.model (α := α)) := by
  intro p a b st n₁ n₂ o₁ o₂ hl ha hb h₁ h₂
  unfold Surm.model at h₁ h₂ ⊢
  simp only at h₁ h₂ ⊢
  match p, a, st, h₁ with
  | [p1, p2, p3, p4, p5, p6, p7, p8, p9], [a1, a2], [s, gw, tot], h₁ =>
    simp only [Except.ok.injEq] at h₁
    subst h₁
    match b, hl, h₂ with
    | [b1, b2], _, h₂ =>
      simp only [Except.ok.injEq] at h₂
      subst h₂
      have e1 : a1.length = a2.length := ha.eq (by simp) (by simp)
      refine ⟨_, rfl, ?_, ?_⟩ <;>
        simp only [catSeries, List.zipWith_cons_cons, List.zipWith_nil_right, Surm.run,
          zip_append_eq _ _ _ _ e1, map_append_scan, scan_append_fst]

/-- StorageTrapAll: the stored mass is added to the FIRST element of the trapped series of each call and the state is
reset to `0.0`; the second call therefore adds `0.0` to its first inflow value. The split run equals the whole run
provided `y + 0.0 = y` (true in ℝ, and in IEEE arithmetic for every `y` except `-0.0`, where `-0.0 + 0.0 = +0.0`:
a sign-of-zero difference only, inside the "floating-point round-off" the property allows). Without this law the
statement is not provable over an arbitrary `Num α` (no arithmetic law is available there). -/
theorem hotstart_StorageTrapAll_of_add_zero (h0 : ∀ y : α, y + 0.0 = y) : HotStart (StorageTrapAll.model (α := α)) := by
  intro p a b st n₁ n₂ o₁ o₂ hl ha hb h₁ h₂
  unfold StorageTrapAll.model at h₁ h₂ ⊢
  simp only at h₁ h₂ ⊢
  match p, a, st, h₁ with
  | [], [a1, a2, a3, a4], [s], h₁ =>
    match b, hl, h₂ with
    | [b1, b2, b3, b4], _, h₂ =>
      cases a1 with
      | nil =>
        simp only [StorageTrapAll.trapped, Except.ok.injEq] at h₁
        subst h₁
        simp only [catSeries, List.zipWith_cons_cons, List.zipWith_nil_right, List.nil_append]
        simp only at h₂
        cases b1 with
        | nil =>
          simp only [StorageTrapAll.trapped, Except.ok.injEq] at h₂ ⊢
          subst h₂
          exact ⟨_, rfl, rfl, rfl⟩
        | cons y ys =>
          simp only [StorageTrapAll.trapped, Except.ok.injEq] at h₂ ⊢
          subst h₂
          exact ⟨_, rfl, rfl, rfl⟩
      | cons x xs =>
        simp only [StorageTrapAll.trapped, Except.ok.injEq] at h₁
        subst h₁
        simp only [catSeries, List.zipWith_cons_cons, List.zipWith_nil_right, List.cons_append]
        simp only at h₂
        cases b1 with
        | nil =>
          simp only [StorageTrapAll.trapped, Except.ok.injEq] at h₂ ⊢
          subst h₂
          refine ⟨_, rfl, ?_, rfl⟩
          simp
        | cons y ys =>
          simp only [StorageTrapAll.trapped, Except.ok.injEq] at h₂ ⊢
          subst h₂
          refine ⟨_, rfl, ?_, rfl⟩
          simp only [h0, List.length_cons, List.length_append, List.cons_append]
          congr 2
          show zeros (xs.length + (ys.length + 1) + 1) = zeros (xs.length + 1) ++ zeros (ys.length + 1)
          rw [← zeros_add]; congr 1; omega

/-- the side condition for InstreamFineSediment: the reach has no bank-full flow (lumped path, the channel store is
passed through untouched) or the channel store handed to the second call is not negative (a negative value is read as
"fraction of the maximum storage" at the start of EVERY call). -/
def FineSedimentSplitOk (p _st s : List α) : Prop :=
  (∃ bff rest, p = bff :: rest ∧ bff ≤ (1e-8 : α)) ∨ (∃ csf tsm, s = [csf, tsm] ∧ ¬ csf < (0.0 : α))

/-- InstreamFineSediment. Full statement (FALSE for the model and the code as they are):
`HotStart (InstreamFineSediment.model)`. What is missing: the kernel re-interprets a NEGATIVE channel store as
"fraction of the maximum storage" at the start of every call (`if channelStoreFine < 0.0 {…}` precedes the loop), so a
negative store handed over at a split point would be converted while the uninterrupted run keeps it. Proved: hot-start
continuity for every split at which that conversion does not fire (`FineSedimentSplitOk`). For physically meaningful
parameters (maximum storage ≥ 0) the store never becomes negative after the first conversion — see
`hotstart_InstreamFineSediment_real` below (ℝ). -/
theorem hotstart_InstreamFineSediment_partial :
    HotStartWhen (InstreamFineSediment.model (α := α)) FineSedimentSplitOk := by
  intro p a b st n₁ n₂ o₁ o₂ hl ha hb h₁ h₂ hc
  unfold InstreamFineSediment.model at h₁ h₂ ⊢
  simp only at h₁ h₂ ⊢
  match p, a, st, h₁ with
  | [bff, vfl, fpa, lw, ll, ls, bh, pbh, sbd, mn, vs, vr, dt], [a1, a2, a3, a4, a5], [csf, tsm], h₁ =>
    simp only [Except.ok.injEq] at h₁
    subst h₁
    match b, hl, h₂ with
    | [b1, b2, b3, b4, b5], _, h₂ =>
      simp only [Except.ok.injEq] at h₂
      subst h₂
      have e1 : a1.length = a2.length := ha.eq (by simp) (by simp)
      have e2 : a1.length = a3.length := ha.eq (by simp) (by simp)
      have e3 : a1.length = a4.length := ha.eq (by simp) (by simp)
      have e4 : a1.length = a5.length := ha.eq (by simp) (by simp)
      generalize hP : (⟨bff, vfl, fpa, lw, ll, ls, bh, pbh, sbd, mn, vs, vr, dt⟩ : InstreamFineSediment.Params α) = P at hc ⊢
      generalize hf : InstreamFineSediment.run P (csf, tsm) (zip5 a1 a2 a3 a4 a5) = f at hc ⊢
      have hstart : InstreamFineSediment.start P (f.1.1, f.1.2) = f.1 := by
        obtain ⟨⟨f1, f2⟩, f3⟩ := f
        unfold InstreamFineSediment.start InstreamFineSediment.initStore
        rcases hc with ⟨bff', rest, hp, hle⟩ | ⟨c, t, hs, hneg⟩
        · have : InstreamFineSediment.lumped P = true := by
            subst hP
            simp only [List.cons.injEq] at hp
            obtain ⟨rfl, _⟩ := hp
            simpa [InstreamFineSediment.lumped] using hle
          simp [this]
        · simp only [List.cons.injEq, and_true] at hs
          obtain ⟨h1, h2⟩ := hs
          subst h1
          simp only [if_neg hneg]
          split <;> rfl
      have hcat : InstreamFineSediment.run P (csf, tsm) (zip5 a1 a2 a3 a4 a5 ++ zip5 b1 b2 b3 b4 b5) =
          ((InstreamFineSediment.run P (f.1.1, f.1.2) (zip5 b1 b2 b3 b4 b5)).1,
            f.2 ++ (InstreamFineSediment.run P (f.1.1, f.1.2) (zip5 b1 b2 b3 b4 b5)).2) := by
        unfold InstreamFineSediment.run at hf ⊢
        rw [scan_append, hstart, hf]
      clear h₁ h₂
      subst hP
      refine ⟨_, rfl, ?_, ?_⟩ <;>
        simp only [catSeries, List.zipWith_cons_cons, List.zipWith_nil_right,
          zip5_append _ _ _ _ _ _ _ _ _ _ e1 e2 e3 e4, hcat, List.map_append]

/-- Lag: the delay buffer (the state row, also when it is longer than the lag) is the whole memory; any lag ≥ 0
(lag 0 included), parts shorter or longer than the lag. -/
theorem hotstart_Lag : HotStart (Lag.model (α := α)) := by
  intro p a b st n₁ n₂ o₁ o₂ hl ha hb h₁ h₂
  unfold Lag.model at h₁ h₂ ⊢
  simp only at h₁ h₂ ⊢
  match p, a, h₁ with
  | [tl], [ia], h₁ =>
    match b, hl, h₂ with
    | [ib], _, h₂ =>
      simp only at h₁ h₂
      cases hr1 : Lag.run tl ia st with
      | error e => rw [hr1] at h₁; simp at h₁
      | ok r₁ =>
        rw [hr1] at h₁
        simp only [Except.ok.injEq] at h₁
        subst h₁
        simp only at h₂
        cases hr2 : Lag.run tl ib r₁.lagged with
        | error e => rw [hr2] at h₂; simp at h₂
        | ok r₂ =>
          rw [hr2] at h₂
          simp only [Except.ok.injEq] at h₂
          subst h₂
          simp only [catSeries, List.zipWith_cons_cons, List.zipWith_nil_right]
          rw [OW.Proofs.Lag.run_append tl ia ib st r₁ r₂ hr1 hr2]
          exact ⟨_, rfl, rfl, rfl⟩
/-- the only arithmetic fact the GR4J hot start needs: the store sizes n1, n2 survive being written into the state
row as floats and read back with `int(…)` (true in ℝ; true for doubles up to 2^53). -/
def IntRoundTrip (α : Type) [Num α] : Prop := ∀ n : Nat, Num.toInt (Num.ofNat n : α) = (n : Int)

/-- GR4J: state row [S, R, n1, n2, q1[0..n2), q9[0..n1)] (a longer row is accepted, trailing columns ignored). The
production store, the routing store and the two unit-hydrograph delay stores are the whole memory; pack ∘ extract
round-trips (`OW.Proofs.GR4JHot.roundtrip_GR4J`) because the stores keep their lengths n2 / n1 through the loop. -/
theorem hotstart_GR4J (hrt : IntRoundTrip α) : HotStart (GR4J.model (α := α)) := by
  intro p a b st n₁ n₂ o₁ o₂ hl ha hb h₁ h₂
  unfold GR4J.model at h₁ h₂ ⊢
  simp only at h₁ h₂ ⊢
  match p, a, st, h₁ with
  | [x1, x2, x3, x4], [a1, a2], s :: r :: n1f :: n2f :: rest, h₁ =>
    match b, hl, h₂ with
    | [b1, b2], _, h₂ =>
      simp only [catSeries, List.zipWith_cons_cons, List.zipWith_nil_right] at h₁ h₂ ⊢
      by_cases hn : Num.toInt n1f ≤ 0 ∨ Num.toInt n2f ≤ 0
      · rw [if_pos hn] at h₁; simp at h₁
      · rw [if_neg hn] at h₁ ⊢
        by_cases hr : rest.length < (Num.toInt n1f).toNat + (Num.toInt n2f).toNat
        · rw [if_pos hr] at h₁; simp at h₁
        · rw [if_neg hr] at h₁ ⊢
          simp only [Except.ok.injEq] at h₁
          subst h₁
          simp only at h₂
          generalize hN1 : (Num.toInt n1f).toNat = N1 at *
          generalize hN2 : (Num.toInt n2f).toNat = N2 at *
          have hp1 : 0 < N1 := by omega
          have hp2 : 0 < N2 := by omega
          generalize hst0 : (⟨s, r, rest.take N2, (rest.drop N2).take N1⟩ : GR4J.State α) = st0 at *
          have hl1 : st0.q1.length = N2 := by subst hst0; simp; omega
          have hl9 : st0.q9.length = N1 := by subst hst0; simp; omega
          generalize hf : GR4J.run x1 x2 x3 x4 N1 N2 st0 (a1.zip a2) = f at *
          obtain ⟨lf1, lf9⟩ : f.1.q1.length = N2 ∧ f.1.q9.length = N1 := by
            rw [← hf]; exact OW.Proofs.GR4JHot.run_len x1 x2 x3 x4 N1 N2 hp1 hp2 _ st0 hl1 hl9
          obtain ⟨m1, m2, rest', hpk, rfl, rfl, hrl, hback⟩ := OW.Proofs.GR4JHot.roundtrip_GR4J f.1 N1 N2 lf1 lf9
          rw [hpk] at h₂
          simp only at h₂
          rw [hrt N1, hrt N2] at h₂
          have hn' : ¬ ((N1 : Int) ≤ 0 ∨ (N2 : Int) ≤ 0) := by omega
          rw [if_neg hn'] at h₂
          simp only [Int.toNat_natCast] at h₂
          rw [if_neg (by omega), hback] at h₂
          simp only [Except.ok.injEq] at h₂
          subst h₂
          have e1 : a1.length = a2.length := ha.eq (by simp) (by simp)
          have hcat : GR4J.run x1 x2 x3 x4 N1 N2 st0 ((a1 ++ b1).zip (a2 ++ b2)) =
              ((GR4J.run x1 x2 x3 x4 N1 N2 f.1 (b1.zip b2)).1, f.2 ++ (GR4J.run x1 x2 x3 x4 N1 N2 f.1 (b1.zip b2)).2) := by
            rw [zip_append_eq _ _ _ _ e1]
            unfold GR4J.run at hf ⊢
            rw [scan_append, hf]
          refine ⟨_, rfl, ?_, ?_⟩ <;>
            simp only [catSeries, List.zipWith_cons_cons, List.zipWith_nil_right, hcat, List.map_append]

/-- Storage (reservoir water balance): the kernel reads ONLY the current volume of the state row [volume, level, area]
(level and area are recomputed from the final volume), and the volume is the whole memory of the timestep loop (each
timestep restarts its adaptive sub-stepping from `subtimestep = Δt`). Exact: the sub-step sequence of every timestep
is the same in the split run. Also covers the "invalid configuration" early return (zero outputs, zero states). -/
theorem hotstart_Storage : HotStart (Storage.model (α := α)) := by
  intro p a b st n₁ n₂ o₁ o₂ hl ha hb h₁ h₂
  unfold Storage.model at h₁ h₂ ⊢
  simp only at h₁ h₂ ⊢
  match p, a, st, h₁ with
  | deltaT :: nLVAf :: tbl, [a1, a2, a3, a4, a5, a6], [cv, lv, ar], h₁ =>
    match b, hl, h₂ with
    | [b1, b2, b3, b4, b5, b6], _, h₂ =>
      simp only [catSeries, List.zipWith_cons_cons, List.zipWith_nil_right, Storage.splitTables] at h₁ h₂ ⊢
      have e1 : a1.length = a2.length := ha.eq (by simp) (by simp)
      have e2 : a1.length = a3.length := ha.eq (by simp) (by simp)
      have e3 : a1.length = a4.length := ha.eq (by simp) (by simp)
      by_cases hneg : Num.toInt nLVAf < 0
      · rw [if_pos hneg] at h₁; simp at h₁
      · rw [if_neg hneg] at h₁ ⊢
        by_cases hlen : (tbl.length != 5 * (Num.toInt nLVAf).toNat) = true
        · rw [if_pos hlen] at h₁; simp at h₁
        · rw [if_neg hlen] at h₁ ⊢
          generalize hm : Storage.mkTables (α := α) _ _ _ _ _ = mt at h₁ ⊢
          cases mt with
          | error e => simp at h₁
          | ok t =>
            simp only at h₁ ⊢
            generalize hc : Storage.checkConfig (α := α) _ _ = cc at h₁ ⊢
            cases cc with
            | error e => simp at h₁
            | ok cfg =>
              cases cfg with
              | invalid =>
                simp only [Except.ok.injEq] at h₁
                subst h₁
                simp only at h₂
                rw [if_neg hneg, if_neg hlen, hm] at h₂
                simp only at h₂
                rw [hc] at h₂
                simp only [Except.ok.injEq] at h₂
                subst h₂
                refine ⟨_, rfl, ?_, rfl⟩
                simp only [catSeries, List.zipWith_cons_cons, List.zipWith_nil_right, List.length_append, zeros_add]
              | ok =>
                simp only at h₁ ⊢
                cases hr1 : Storage.run t false Storage.fuelOuter Storage.fuelInner deltaT cv (zip4 a1 a2 a3 a4) with
                | error e => rw [hr1] at h₁; simp at h₁
                | ok r₁ =>
                  rw [hr1] at h₁
                  simp only [Except.ok.injEq] at h₁
                  subst h₁
                  simp only at h₂
                  rw [if_neg hneg, if_neg hlen, hm] at h₂
                  simp only at h₂
                  rw [hc] at h₂
                  simp only at h₂
                  cases hr2 : Storage.run t false Storage.fuelOuter Storage.fuelInner deltaT r₁.volume (zip4 b1 b2 b3 b4) with
                  | error e => rw [hr2] at h₂; simp at h₂
                  | ok r₂ =>
                    rw [hr2] at h₂
                    simp only [Except.ok.injEq] at h₂
                    subst h₂
                    obtain ⟨r, hr, ho, hv, hlv, har⟩ := OW.Proofs.StorageHot.run_append t _ _ deltaT cv _ _ r₁ r₂ hr1 hr2
                    rw [zip4_append _ _ _ _ _ _ _ _ e1 e2 e3, hr]
                    refine ⟨_, rfl, ?_, ?_⟩
                    · simp only [catSeries, List.zipWith_cons_cons, List.zipWith_nil_right, ho, List.map_append]
                    · simp only [hv, hlv, har]
/-- StorageRouting: one loop iteration reads the carried state only through the previous index flow `qi` and the
storage (the carried outflow and inflow are written to the state row but never read). -/
theorem storageRouting_step_reads (su : StorageRouting.Setup α) (k area dead dt qi s o i o' i' : α) (x : α × α × α × α) :
    StorageRouting.step su k area dead dt (.ok ⟨qi, o, s, i⟩) x = StorageRouting.step su k area dead dt (.ok ⟨qi, o', s, i'⟩) x := by
  simp only [StorageRouting.step, StorageRouting.calcOutflow]

/-- StorageRouting, exact split law of the model (and of the code): the uninterrupted run over `xs ++ ys` continues from
the FULL loop state `(qi, outflow, storage, inflow)` left by `xs`, where `qi` — the index flow found by the root finder in
the last step, the seed of the next step's search — is a local of `storageRouting` that is NOT in the state row. -/
theorem storageRouting_split (bias k x area dead dt s : α) (xs ys : List (α × α × α × α)) :
    StorageRouting.run bias k x area dead dt s (xs ++ ys) =
      ((scan (StorageRouting.step (StorageRouting.setup bias k x dt) k area dead dt)
          (StorageRouting.run bias k x area dead dt s xs).1 ys).1,
       (StorageRouting.run bias k x area dead dt s xs).2 ++
        (scan (StorageRouting.step (StorageRouting.setup bias k x dt) k area dead dt)
          (StorageRouting.run bias k x area dead dt s xs).1 ys).2) := by
  unfold StorageRouting.run; rw [scan_append]

/-- Full statement (FALSE for the model and the code; counter-example `hotstart_StorageRouting_counterexample` below):
`HotStart StorageRouting.model`. A second call starts its first
root search from `qi = 0.0` instead of the index flow of the previous step (`storageRouting_split`), which changes which
exit of `calcOutflow` is taken (`prev-qi` vs `mid-qi`/`root`): the two results both satisfy the mass-balance tolerance
(1e-3 m³) but are not bit-identical — this is the situation the "to within the solver's own mass-balance tolerance" clause of
the property is about (no theorem here bounds the difference between the two runs: oracle-only for whole runs, first timestep
after the cut in OW/Props/C06Tol.lean). Also, an EMPTY second part resets the two dead columns (inflow, outflow) of the state row to 0.
Proved: exact hot-start continuity for every split at which the carried index flow is the one a fresh call starts
from (`f.qi = 0.0`, e.g. after a zero-flow step with bias 0) and whose second part has at least one step. -/
theorem hotstart_StorageRouting_partial
    (p : List α) (a b : List (List α)) (st : List α) (n₁ n₂ : Nat) (o₁ o₂ : KOut α)
    (hl : a.length = b.length) (ha : AllLen n₁ a) (hb : AllLen n₂ b) (hn₂ : 0 < n₂)
    (h₁ : (StorageRouting.model (α := α)).run p a st = .ok o₁)
    (h₂ : (StorageRouting.model (α := α)).run p b o₁.states = .ok o₂)
    (hqi : ∀ bias k x area dead dt s pi po a1 a2 a3 a4 f outs, p = [bias, k, x, area, dead, dt] → st = [s, pi, po] →
      a = [a1, a2, a3, a4] → StorageRouting.run bias k x area dead dt s (zip4 a1 a2 a3 a4) = (.ok f, outs) → f.qi = 0.0) :
    ∃ o, (StorageRouting.model (α := α)).run p (catSeries a b) st = .ok o ∧
      o.outputs = catSeries o₁.outputs o₂.outputs ∧ o.states = o₂.states := by
  unfold StorageRouting.model at h₁ h₂ ⊢
  simp only at h₁ h₂ ⊢
  match p, a, st, h₁ with
  | [bias, k, x, area, dead, dt], [a1, a2, a3, a4], [s, pi, po], h₁ =>
    match b, hl, h₂ with
    | [b1, b2, b3, b4], _, h₂ =>
      simp only [catSeries, List.zipWith_cons_cons, List.zipWith_nil_right] at h₁ h₂ ⊢
      have e1 : a1.length = a2.length := ha.eq (by simp) (by simp)
      have e2 : a1.length = a3.length := ha.eq (by simp) (by simp)
      have e3 : a1.length = a4.length := ha.eq (by simp) (by simp)
      have hq := hqi bias k x area dead dt s pi po a1 a2 a3 a4
      rw [zip4_append _ _ _ _ _ _ _ _ e1 e2 e3, storageRouting_split]
      generalize hr1 : StorageRouting.run bias k x area dead dt s (zip4 a1 a2 a3 a4) = r1 at h₁ hq ⊢
      obtain ⟨f1, outs1⟩ := r1
      cases f1 with
      | error e => simp at h₁
      | ok f =>
        simp only [Except.ok.injEq] at h₁
        subst h₁
        have hq0 : f.qi = 0.0 := hq f outs1 rfl rfl rfl rfl
        simp only at h₂
        -- the second part is not empty
        have hb1 : b1.length = n₂ := hb b1 (by simp)
        have hb2 : b2.length = n₂ := hb b2 (by simp)
        have hb3 : b3.length = n₂ := hb b3 (by simp)
        have hb4 : b4.length = n₂ := hb b4 (by simp)
        obtain ⟨y1, t1, rfl⟩ := List.exists_cons_of_length_pos (l := b1) (by omega)
        obtain ⟨y2, t2, rfl⟩ := List.exists_cons_of_length_pos (l := b2) (by omega)
        obtain ⟨y3, t3, rfl⟩ := List.exists_cons_of_length_pos (l := b3) (by omega)
        obtain ⟨y4, t4, rfl⟩ := List.exists_cons_of_length_pos (l := b4) (by omega)
        simp only [zip4] at h₂ ⊢
        have hstep : StorageRouting.step (StorageRouting.setup bias k x dt) k area dead dt (.ok f) (y1, y2, y3, y4) =
            StorageRouting.step (StorageRouting.setup bias k x dt) k area dead dt (.ok ⟨0.0, 0.0, f.storage, 0.0⟩) (y1, y2, y3, y4) := by
          obtain ⟨q, o, s', i⟩ := f
          simp only at hq0
          subst hq0
          exact storageRouting_step_reads _ _ _ _ _ _ _ _ _ _ _ _
        unfold StorageRouting.run at h₂
        simp only [scan] at h₂ ⊢
        rw [hstep]
        generalize hr2 : scan (StorageRouting.step (StorageRouting.setup bias k x dt) k area dead dt)
          (StorageRouting.step (StorageRouting.setup bias k x dt) k area dead dt (.ok ⟨0.0, 0.0, f.storage, 0.0⟩) (y1, y2, y3, y4)).1
          (zip4 t1 t2 t3 t4) = r2 at h₂ ⊢
        obtain ⟨f2, outs2⟩ := r2
        cases f2 with
        | error e => simp at h₂
        | ok g =>
          simp only [Except.ok.injEq] at h₂
          subst h₂
          refine ⟨_, rfl, ?_, rfl⟩
          simp only [catSeries, List.zipWith_cons_cons, List.zipWith_nil_right, List.map_append, List.map_cons]
/-- side condition for InstreamDissolvedNutrientDecay: decay disabled (`doDecay < 0.5`) -/
def DecayDisabled (p _st _s : List α) : Prop := ∃ doDecay rest, p = doDecay :: rest ∧ doDecay < (0.5 : α)

/-- Full statement (FALSE for the model and the code; known finding KF-C06-InstreamDissolvedNutrientDecay-prevVolume,
counter-example `hotstart_InstreamDissolvedNutrientDecay_counterexample` below): `HotStart InstreamDissolvedNutrient.model`.
With decay enabled, `prevVolume` (the reach volume of the previous step, averaged with the current one to get the water
depth) is re-seeded from the first step of every call and is not in the state row. Proved: decay disabled
(`doDecay < 0.5`), where the kernel is the lumped constituent routing and the stored mass is the whole memory. -/
theorem hotstart_InstreamDissolvedNutrientDecay_partial :
    HotStartWhen (InstreamDissolvedNutrient.model (α := α)) DecayDisabled := by
  intro p a b st n₁ n₂ o₁ o₂ hl ha hb h₁ h₂ hc
  unfold InstreamDissolvedNutrient.model at h₁ h₂ ⊢
  simp only at h₁ h₂ ⊢
  match p, a, st, h₁ with
  | [dd, psl, lh, lw, ll, uv, dur], [a1, a2, a3, a4, a5], [sm], h₁ =>
    match b, hl, h₂ with
    | [b1, b2, b3, b4, b5], _, h₂ =>
      simp only [catSeries, List.zipWith_cons_cons, List.zipWith_nil_right] at h₁ h₂ ⊢
      have hdd : dd < (0.5 : α) := by
        obtain ⟨d, r, hp, hd⟩ := hc
        simp only [List.cons.injEq] at hp
        rw [hp.1]; exact hd
      have e1 : a1.length = a2.length := ha.eq (by simp) (by simp)
      have e2 : a1.length = a4.length := ha.eq (by simp) (by simp)
      have e3 : a1.length = a3.length := ha.eq (by simp) (by simp)
      cases a3 with
      | nil => simp at h₁
      | cons v0 va =>
        simp only [if_pos hdd, Except.ok.injEq] at h₁
        subst h₁
        simp only at h₂
        cases b3 with
        | nil => simp at h₂
        | cons w0 wb =>
          simp only [if_pos hdd, Except.ok.injEq] at h₂
          subst h₂
          simp only [List.cons_append, if_pos hdd]
          refine ⟨_, rfl, ?_, ?_⟩ <;>
            simp only [catSeries, List.zipWith_cons_cons, List.zipWith_nil_right, LumpedConstituent.run,
              ← List.cons_append, zip4_append _ _ _ _ _ _ _ _ e1 e2 e3, map_append_scan, scan_append_fst,
              List.length_append, zeros_add]
/-! ### instances at ℝ of the two statements that need an arithmetic law -/

theorem intRoundTrip_real : IntRoundTrip ℝ := by
  intro n
  show (if (0:ℝ) ≤ (n:ℝ) then ⌊(n:ℝ)⌋ else ⌈(n:ℝ)⌉) = (n:Int)
  rw [if_pos (Nat.cast_nonneg n)]
  exact Int.floor_natCast n

theorem hotstart_GR4J_real : HotStart (GR4J.model (α := ℝ)) := hotstart_GR4J intRoundTrip_real

theorem hotstart_StorageTrapAll_real : HotStart (StorageTrapAll.model (α := ℝ)) :=
  hotstart_StorageTrapAll_of_add_zero (fun y => by norm_num)

/-! ### Sacramento (ℝ) -/
section Sacramento
open OW.C12

/-- side condition for Sacramento: the unit hydrograph has only its first ordinate (the flow of a step leaves in that
step), and the divisors `uh1` (sum of the ordinates) and `1 + side` are not zero -/
def SacramentoNoSpread (p _st _s : List ℝ) : Prop :=
  ∃ lzpk lzsk uzk uztwm uzfwm lztwm lzfsm lzfpm pfree rexp zperc side ssout pctim adimp sarva rserv uh1 : ℝ,
    p = [lzpk, lzsk, uzk, uztwm, uzfwm, lztwm, lzfsm, lzfpm, pfree, rexp, zperc, side, ssout, pctim, adimp, sarva, rserv,
      uh1, 0, 0, 0, 0] ∧ uh1 ≠ 0 ∧ (1.0 : ℝ) + side ≠ 0

/-- Full statement (FALSE for the model and the code; known finding KF-C06-Sacramento-uh-buffer; counter-example
`hotstart_Sacramento_counterexample` below): `HotStart Sacramento.model`.
The unit-hydrograph delay buffer `qq` (the surface flow of the previous four steps still to be routed) is a local of the
kernel, zero at the start of every call and not in the state row: the flow in transit at a split point is lost.
Proved (ℝ): hot-start continuity when the unit hydrograph does not spread the flow over steps (uh2 = … = uh5 = 0), for
all other parameters, all series and every split point. Two things are used: the outputs then do not depend on `qq`
(`OW.Proofs.SacHot.scan_nospread`), and the scaled lower-zone contents `alzfsc = lzfsc·(1+side)` re-derived from the state
row at the start of a call equal the carried ones (exactly in ℝ; to one rounding of `x/(1+side)·(1+side)` in floating point). -/
theorem hotstart_Sacramento_partial : HotStartWhen (Sacramento.model (α := ℝ)) SacramentoNoSpread := by
  intro p a b st n₁ n₂ o₁ o₂ hl ha hb h₁ h₂ hc
  obtain ⟨lzpk, lzsk, uzk, uztwm, uzfwm, lztwm, lzfsm, lzfpm, pfree, rexp, zperc, side, ssout, pctim, adimp, sarva, rserv,
    uh1, rfl, huh, hside⟩ := hc
  unfold Sacramento.model at h₁ h₂ ⊢
  simp only at h₁ h₂ ⊢
  match a, st, h₁ with
  | [a1, a2], [s0, s1, s2, s3, s4, s5], h₁ =>
    match b, hl, h₂ with
    | [b1, b2], _, h₂ =>
      simp only [catSeries, List.zipWith_cons_cons, List.zipWith_nil_right, Except.ok.injEq] at h₁ h₂ ⊢
      subst h₁
      simp only [Except.ok.injEq] at h₂
      subst h₂
      have e1 : a1.length = a2.length := ha.eq (by simp) (by simp)
      generalize hP : (⟨lzpk, lzsk, uzk, uztwm, uzfwm, lztwm, lzfsm, lzfpm, pfree, rexp, zperc, side, ssout, pctim, adimp,
        sarva, rserv, uh1, 0, 0, 0, 0⟩ : Sacramento.Params ℝ) = P
      have hPside : P.side = side := by rw [← hP]
      have hdro : (Sacramento.consts P).dro = [uh1 / (0.0 + uh1 + 0 + 0 + 0 + 0), 0, 0, 0, 0] := by
        rw [← hP]
        simp only [Sacramento.consts, Sacramento.makeUnitHydrograph, N.div, zero_div]
      generalize hst0 : (⟨s0, s1, s2, s3, s4, s5, s4 * (1.0 + side), s3 * (1.0 + side), zeros 5⟩ : Sacramento.State ℝ) = st0
      have hinv0 : OW.Proofs.SacHot.Inv P.side st0 := by rw [← hst0, hPside]; exact ⟨rfl, rfl⟩
      have hq0 : st0.qq.length = 5 := by rw [← hst0]; simp [zeros]
      rw [zip_append_eq _ _ _ _ e1]
      unfold Sacramento.run
      rw [scan_append]
      generalize hf : scan (Sacramento.step P (Sacramento.consts P)) st0 (a1.zip a2) = f
      have hinvf : OW.Proofs.SacHot.Inv P.side f.1 := by
        rw [← hf]; exact OW.Proofs.SacHot.scan_inv P _ (by rw [hPside]; exact hside) _ _ hinv0
      have hqf : f.1.qq.length = 5 := by
        rw [← hf]
        exact (OW.Proofs.SacHot.scan_nospread P _ _ hdro (a1.zip a2) st0 st0 rfl hq0 hq0).2.2
      obtain ⟨k1, k2, k3⟩ := OW.Proofs.SacHot.scan_nospread P _ _ hdro (b1.zip b2) f.1
        ⟨f.1.uztwc, f.1.uzfwc, f.1.lztwc, f.1.lzfpc, f.1.lzfsc, f.1.adimc, f.1.lzfsc * (1.0 + side),
          f.1.lzfpc * (1.0 + side), zeros 5⟩
        (by
          obtain ⟨⟨f1, f2, f3, f4, f5, f6, f7, f8, f9⟩, fo⟩ := f
          obtain ⟨i1, i2⟩ := hinvf
          simp only [hPside] at i1 i2
          simp only [OW.Proofs.SacHot.noQ, Sacramento.State.mk.injEq, and_true, true_and]
          exact ⟨i1, i2⟩)
        hqf (by simp [zeros])
      refine ⟨_, rfl, ?_, ?_⟩
      · simp only [List.map_append, k1]
        rfl
      · have := k2
        simp only [OW.Proofs.SacHot.noQ, Sacramento.State.mk.injEq, and_true] at this
        obtain ⟨t1, t2, t3, t4, t5, t6, _, _⟩ := this
        simp only [t1, t2, t3, t4, t5, t6]
end Sacramento

/-! ### InstreamFineSediment (ℝ) -/
section FineSediment
open OW.C12

/-- physically meaningful channel geometry: the maximum fine-sediment storage of the reach is not negative -/
def FineSedimentMaxStorageNonneg (p _st _s : List ℝ) : Prop :=
  ∀ bff vfl fpa lw ll ls bh pbh sbd mn vs vr dt : ℝ, p = [bff, vfl, fpa, lw, ll, ls, bh, pbh, sbd, mn, vs, vr, dt] →
    0 ≤ InstreamFineSediment.maxStorage (⟨bff, vfl, fpa, lw, ll, ls, bh, pbh, sbd, mn, vs, vr, dt⟩ : InstreamFineSediment.Params ℝ)

/-- the channel store handed over at a split point is never negative when the maximum storage is not negative
(`OW.Proofs.FineHot.run_store_nonneg`), so hot-start continuity holds for every split (ℝ) -/
theorem hotstart_InstreamFineSediment_real :
    HotStartWhen (InstreamFineSediment.model (α := ℝ)) FineSedimentMaxStorageNonneg := by
  intro p a b st n₁ n₂ o₁ o₂ hl ha hb h₁ h₂ hD
  refine hotstart_InstreamFineSediment_partial p a b st n₁ n₂ o₁ o₂ hl ha hb h₁ h₂ ?_
  unfold InstreamFineSediment.model at h₁
  simp only at h₁
  match p, a, st, h₁ with
  | [bff, vfl, fpa, lw, ll, ls, bh, pbh, sbd, mn, vs, vr, dt], [a1, a2, a3, a4, a5], [csf, tsm], h₁ =>
    simp only [Except.ok.injEq] at h₁
    subst h₁
    have hm := hD bff vfl fpa lw ll ls bh pbh sbd mn vs vr dt rfl
    cases hlum : InstreamFineSediment.lumped (⟨bff, vfl, fpa, lw, ll, ls, bh, pbh, sbd, mn, vs, vr, dt⟩ : InstreamFineSediment.Params ℝ) with
    | true =>
      left
      refine ⟨bff, _, rfl, ?_⟩
      simpa [InstreamFineSediment.lumped] using hlum
    | false =>
      right
      refine ⟨_, _, rfl, ?_⟩
      have := OW.Proofs.FineHot.run_store_nonneg _ hm hlum (csf, tsm) (zip5 a1 a2 a3 a4 a5)
      have h0 : (0.0 : ℝ) = 0 := by norm_num
      rw [h0]
      exact not_lt.mpr this
end FineSediment

/-! ### InstreamDissolvedNutrientDecay: counter-example (ℝ) -/
section Dissolved
open OW.C12

/-- one decay step of the counter-example: stored mass 0, no point source, unit channel, uptake velocity 0, no outflow,
upstream load 1: everything goes downstream when the mean volume is positive (decay coefficient 0), and the fraction
exp(-1000) when it is zero (the "dry" decay coefficient 1000). -/
theorem dissolved_step_eval (pv vol : ℝ) :
    (InstreamDissolvedNutrient.step (α := ℝ) 0 0 1 1 1 0 86400 1 pv (1, 0, vol, 0)).2.downstream =
      if 0 < min 1 ((vol + pv) / 2) then 1 else Real.exp (-1000) := by
  unfold InstreamDissolvedNutrient.step
  simp only
  realnum
  norm_num
  rw [if_neg (not_le.mpr (Real.exp_pos _))]
  by_cases h : 0 < vol + pv <;> simp only [h, if_true, if_false, Real.exp_zero]

/-- every branch of the decay step stores the current reach volume as the next `prevVolume` -/
theorem dissolved_step_state (sm ps lh lw ll uv dur tsd pv up lat vol out : ℝ) :
    (InstreamDissolvedNutrient.step (α := ℝ) sm ps lh lw ll uv dur tsd pv (up, lat, vol, out)).1 = vol := by
  unfold InstreamDissolvedNutrient.step
  simp only
  split_ifs <;> rfl

/-- the decay-enabled branch of the kernel model, as an equation -/
theorem dissolved_run_on (dd psl lh lw ll uv dur sm v0 : ℝ) (up lat vt out fp : List ℝ) (hdd : ¬ dd < (0.5 : ℝ)) :
    ∃ tags, (InstreamDissolvedNutrient.model (α := ℝ)).run [dd, psl, lh, lw, ll, uv, dur] [up, lat, v0 :: vt, out, fp] [sm] =
      .ok { outputs :=
              [(scan (InstreamDissolvedNutrient.step sm (psl / 31557600) lh lw ll uv dur (86400 / dur)) v0 (zip4 up lat (v0 :: vt) out)).2.map
                  (fun o => o.decayed.getD Num.zero),
               (scan (InstreamDissolvedNutrient.step sm (psl / 31557600) lh lw ll uv dur (86400 / dur)) v0 (zip4 up lat (v0 :: vt) out)).2.map
                  (·.downstream),
               zeros up.length,
               (scan (InstreamDissolvedNutrient.step sm (psl / 31557600) lh lw ll uv dur (86400 / dur)) v0 (zip4 up lat (v0 :: vt) out)).2.map
                  (fun o => o.pointSource.getD Num.zero)],
            states := [sm], tags := tags } := by
  unfold InstreamDissolvedNutrient.model
  simp only
  rw [if_neg hdd]
  exact ⟨_, rfl⟩

/-- **Counter-example** (known finding KF-C06-InstreamDissolvedNutrientDecay-prevVolume), ℝ: decay enabled, unit channel,
uptake velocity 0, no outflow, upstream load 1 at both steps, reach volume 1 then 0. Uninterrupted run: the second step
averages the volumes 0 and 1 (`prevVolume = 1`), depth 0.5 > 0, nothing decays, 1 goes downstream. Split run: the second
call re-seeds `prevVolume` from its own first volume 0, depth 0, "dry" decay coefficient 1000, exp(-1000) goes downstream. -/
theorem hotstart_InstreamDissolvedNutrientDecay_counterexample :
    ¬ HotStart (InstreamDissolvedNutrient.model (α := ℝ)) := by
  intro h
  have hdd : ¬ (1 : ℝ) < 0.5 := by norm_num
  obtain ⟨t1, h1⟩ := dissolved_run_on 1 0 1 1 1 0 86400 0 1 [1] [0] [] [0] [0] hdd
  obtain ⟨t2, h2⟩ := dissolved_run_on 1 0 1 1 1 0 86400 0 0 [1] [0] [] [0] [0] hdd
  obtain ⟨t3, h3⟩ := dissolved_run_on 1 0 1 1 1 0 86400 0 1 [1, 1] [0, 0] [0] [0, 0] [0, 0] hdd
  obtain ⟨o, ho, hout, _⟩ := h [1, 0, 1, 1, 1, 0, 86400] [[1], [0], [1], [0], [0]] [[1], [0], [0], [0], [0]] [0] 1 1 _ _ rfl
    (by intro s hs; simp at hs; rcases hs with rfl | rfl | rfl | rfl | rfl <;> rfl)
    (by intro s hs; simp at hs; rcases hs with rfl | rfl | rfl | rfl | rfl <;> rfl) h1 h2
  simp only [catSeries, List.zipWith_cons_cons, List.zipWith_nil_right, List.cons_append, List.nil_append] at ho hout
  rw [h3] at ho
  simp only [Except.ok.injEq] at ho
  subst ho
  simp only [List.cons.injEq, and_true] at hout
  have e := hout.2.1
  have c1 : (86400 : ℝ) / 86400 = 1 := by norm_num
  have c2 : (0 : ℝ) / 31557600 = 0 := by norm_num
  simp only [zip4, scan, List.map_cons, List.map_nil, c1, c2, dissolved_step_eval, List.cons.injEq, and_true] at e
  rw [dissolved_step_state] at e
  have k1 : (0:ℝ) < min 1 ((0 + 1) / 2) := by norm_num
  have k2 : ¬ (0:ℝ) < min 1 ((0 + 0) / 2) := by norm_num
  simp only [List.cons_append, List.nil_append, List.cons.injEq, and_true, if_pos k1, if_neg k2] at e
  have : Real.exp (-1000) < 1 := by
    rw [← Real.exp_zero]; exact Real.exp_lt_exp.mpr (by norm_num)
  linarith [e.2]
end Dissolved

/-! ### Sacramento: counter-example (ℝ) -/
section SacramentoCounter
open OW.C12
set_option maxRecDepth 4000
attribute [-simp] OW.RealNum.ofNat_eq

/-- parameters of the counter-example: lzpk lzsk uzk uztwm uzfwm lztwm lzfsm lzfpm pfree rexp zperc side ssout pctim adimp
sarva rserv uh1..uh5: half of the area impervious, unit hydrograph (1/2, 1/2, 0, 0, 0) -/
noncomputable def sacP : Sacramento.Params ℝ :=
  ⟨1 / 100, 1 / 10, 3 / 10, 50, 40, 130, 25, 60, 1 / 10, 1, 40, 0, 0, 1 / 2, 0, 0, 0, 1, 1, 0, 0, 0⟩

noncomputable def sacC : Sacramento.Consts ℝ := { dro := [1 / 2, 1 / 2, 0, 0, 0], saved := 0, alzfsm := 25, alzfpm := 60, pbase := 31 / 10 }

theorem sac_iiBody_eval (w : ℝ) :
    ∃ tg, Sacramento.iiBody sacP sacC w (12 / 17) 1 0 ⟨0, 0, 0, 0, w, 0, 0, 0, 1, []⟩ = ⟨0, 0, 0, 0, w, 0, 0, 0, 1, tg⟩ := by
  unfold Sacramento.iiBody
  simp only [sacP, sacC]
  realnum
  norm_num
  have hfl : Num.toInt (Num.floor (0:ℝ)) = 0 := by
    show (if (0:ℝ) ≤ ((⌊(0:ℝ)⌋:ℤ):ℝ) then ⌊((⌊(0:ℝ)⌋:ℤ):ℝ)⌋ else ⌈((⌊(0:ℝ)⌋:ℤ):ℝ)⌉) = 0
    simp
  have hof : (Num.ofInt (0 + 1) : ℝ) = 1 := by show (((0 + 1 : ℤ)) : ℝ) = 1; norm_num
  simp only [hfl, hof, if_true, Int.toNat_one, Int.zero_add, Sacramento.incLoop, Sacramento.incBody]
  realnum
  norm_num


/-- one step of the counter-example: upper-zone tension water `u` (far from full), everything else empty, 2 mm of rain,
no evaporation: 1 mm runs off the impervious half; `q1` is the flow of the previous step still in the buffer -/
theorem sac_step_eval (u x0 q1 : ℝ) (hu : u = 0 ∨ u = 2) (hq : q1 = 0 ∨ q1 = 1) :
    ∃ tg, Sacramento.step sacP (Sacramento.consts sacP) ⟨u, 0, 0, 0, 0, u, 0, 0, [x0, q1, 0, 0, 0]⟩ (2, 0) =
      (⟨u + 2, 0, 0, 0, 0, u + 2, 0, 0, [1, 1, q1, 0, 0]⟩,
       ⟨0, 1 / 2 + q1 / 2, 1, 1 / 2 + q1 / 2, 0, 0, 0, 0, 0, 0, 0, tg⟩) := by
  obtain ⟨tg0, h0⟩ := sac_iiBody_eval (u + 2)
  simp only [sacP, sacC] at h0
  unfold Sacramento.step
  simp only [sacP, Sacramento.consts, Sacramento.makeUnitHydrograph]
  realnum
  rcases hu with rfl | rfl <;> rcases hq with rfl | rfl <;> norm_num <;> norm_num at h0 <;> simp only [h0] <;>
    simp only [Sacramento.channel, Sacramento.convolve, List.zipWith, List.foldl, List.tail, List.dropLast] <;>
    realnum <;> norm_num

/-- the parameter column of the counter-example -/
noncomputable def sacCol : List ℝ := [1 / 100, 1 / 10, 3 / 10, 50, 40, 130, 25, 60, 1 / 10, 1, 40, 0, 0, 1 / 2, 0, 0, 0, 1, 1, 0, 0, 0]

/-- a state of the counter-example, with `qq` the unit-hydrograph buffer -/
noncomputable def sacSt (u : ℝ) (qq : List ℝ) : Sacramento.State ℝ := ⟨u, 0, 0, 0, 0, u, 0, 0, qq⟩

theorem sac_run_eq (u : ℝ) (rain pet : List ℝ) :
    ∃ tg, (Sacramento.model (α := ℝ)).run sacCol [rain, pet] [u, 0, 0, 0, 0, u] =
      .ok { outputs := [(Sacramento.run sacP (sacSt u [0, 0, 0, 0, 0]) (rain.zip pet)).2.map (·.actualET),
                        (Sacramento.run sacP (sacSt u [0, 0, 0, 0, 0]) (rain.zip pet)).2.map (·.runoff),
                        (Sacramento.run sacP (sacSt u [0, 0, 0, 0, 0]) (rain.zip pet)).2.map (·.imperviousRunoff),
                        (Sacramento.run sacP (sacSt u [0, 0, 0, 0, 0]) (rain.zip pet)).2.map (·.surfaceRunoff),
                        (Sacramento.run sacP (sacSt u [0, 0, 0, 0, 0]) (rain.zip pet)).2.map (·.baseflow)],
            states := [(Sacramento.run sacP (sacSt u [0, 0, 0, 0, 0]) (rain.zip pet)).1.uztwc,
                       (Sacramento.run sacP (sacSt u [0, 0, 0, 0, 0]) (rain.zip pet)).1.uzfwc,
                       (Sacramento.run sacP (sacSt u [0, 0, 0, 0, 0]) (rain.zip pet)).1.lztwc,
                       (Sacramento.run sacP (sacSt u [0, 0, 0, 0, 0]) (rain.zip pet)).1.lzfpc,
                       (Sacramento.run sacP (sacSt u [0, 0, 0, 0, 0]) (rain.zip pet)).1.lzfsc,
                       (Sacramento.run sacP (sacSt u [0, 0, 0, 0, 0]) (rain.zip pet)).1.adimc],
            tags := tg } := by
  have e : (⟨u, 0, 0, 0, 0, u, (0:ℝ) * (1.0 + 0), (0:ℝ) * (1.0 + 0), zeros 5⟩ : Sacramento.State ℝ) = sacSt u [0, 0, 0, 0, 0] := by
    simp only [sacSt, zeros, List.replicate, zero_mul]; rfl
  unfold Sacramento.model sacCol
  simp only
  realnum
  rw [e]
  exact ⟨_, rfl⟩

/-- **Counter-example** (known finding KF-C06-Sacramento-uh-buffer), ℝ: half of the catchment impervious, unit hydrograph
(1/2, 1/2), 2 mm of rain on each of two days, all stores empty. Day 1 routes half of the impervious runoff (0.5 mm) and
keeps the other half in the buffer. Uninterrupted run, day 2: 0.5 + 0.5 = 1 mm. Split run, day 2: the buffer starts
empty again, 0.5 mm — the water in transit at the split point is lost. -/
theorem hotstart_Sacramento_counterexample : ¬ HotStart (Sacramento.model (α := ℝ)) := by
  intro h
  obtain ⟨t1, h1⟩ := sac_run_eq 0 [2] [0]
  obtain ⟨tw, hw⟩ := sac_run_eq 0 [2, 2] [0, 0]
  obtain ⟨ga, ea⟩ := sac_step_eval 0 0 0 (Or.inl rfl) (Or.inl rfl)
  obtain ⟨gb, eb⟩ := sac_step_eval 2 0 0 (Or.inr rfl) (Or.inl rfl)
  obtain ⟨gc, ec⟩ := sac_step_eval 2 1 1 (Or.inr rfl) (Or.inr rfl)
  have ra : Sacramento.run sacP (sacSt 0 [0, 0, 0, 0, 0]) [(2, 0)] = (sacSt 2 [1, 1, 0, 0, 0], [⟨0, 1 / 2 + 0 / 2, 1, 1 / 2 + 0 / 2, 0, 0, 0, 0, 0, 0, 0, ga⟩]) := by
    simp only [Sacramento.run, scan, sacSt, ea]; norm_num
  have rb : Sacramento.run sacP (sacSt 2 [0, 0, 0, 0, 0]) [(2, 0)] = (sacSt (2 + 2) [1, 1, 0, 0, 0], [⟨0, 1 / 2 + 0 / 2, 1, 1 / 2 + 0 / 2, 0, 0, 0, 0, 0, 0, 0, gb⟩]) := by
    simp only [Sacramento.run, scan, sacSt, eb]
  have rw' : Sacramento.run sacP (sacSt 0 [0, 0, 0, 0, 0]) [(2, 0), (2, 0)] = (sacSt (2 + 2) [1, 1, 1, 0, 0],
      [⟨0, 1 / 2 + 0 / 2, 1, 1 / 2 + 0 / 2, 0, 0, 0, 0, 0, 0, 0, ga⟩, ⟨0, 1 / 2 + 1 / 2, 1, 1 / 2 + 1 / 2, 0, 0, 0, 0, 0, 0, 0, gc⟩]) := by
    simp only [Sacramento.run, scan, sacSt, ea]
    norm_num
    simp only [ec]
    norm_num
  obtain ⟨t2, h2⟩ := sac_run_eq 2 [2] [0]
  simp only [List.zip_cons_cons, List.zip_nil_right, ra, rb, rw'] at h1 h2 hw
  simp only [List.map_cons, List.map_nil, sacSt] at h1 h2 hw
  obtain ⟨o, ho, hout, _⟩ := h sacCol [[2], [0]] [[2], [0]] [0, 0, 0, 0, 0, 0] 1 1 _ _ rfl
    (by intro s hs; simp at hs; rcases hs with rfl | rfl <;> rfl)
    (by intro s hs; simp at hs; rcases hs with rfl | rfl <;> rfl) h1 h2
  simp only [catSeries, List.zipWith_cons_cons, List.zipWith_nil_right, List.cons_append, List.nil_append] at ho hout
  rw [hw] at ho
  simp only [Except.ok.injEq] at ho
  subst ho
  simp only [List.cons.injEq, and_true] at hout
  have := hout.2.1.2
  norm_num at this
end SacramentoCounter

/-! ### InstreamFineSediment: counter-example for unphysical parameters (ℝ) -/
section FineCounter
attribute [-simp] OW.RealNum.ofNat_eq

/-- parameters of the counter-example (NOT physically meaningful: `propBankHeightForFineDep = -1` makes the maximum
channel storage −1000 kg) -/
noncomputable def fineP : InstreamFineSediment.Params ℝ := ⟨1, 0, 0, 1, 1, 1, 1, -1, 1, 1, 1, 1, 1⟩

theorem fine_start_eval (c : ℝ) (hc : c < 0) : InstreamFineSediment.start fineP (c, 0) = (-c * -1000, 0) := by
  unfold InstreamFineSediment.start InstreamFineSediment.initStore InstreamFineSediment.lumped InstreamFineSediment.maxStorage
  simp only [fineP]
  realnum
  norm_num
  rw [if_pos hc, abs_of_neg hc]
  ring

theorem fine_not_lumped : InstreamFineSediment.lumped fineP = false := by
  unfold InstreamFineSediment.lumped
  simp only [fineP]
  realnum
  have : ¬ ((1:ℝ) ≤ 1e-8) := by norm_num
  simp only [this, decide_false]

theorem fine_step_eval (c : ℝ) :
    (InstreamFineSediment.step fineP (c, 0) (0, 0, 0, 0, 0)).1 = (c, 0) := by
  unfold InstreamFineSediment.step
  rw [fine_not_lumped]
  simp only [Bool.false_eq_true, if_false]
  unfold InstreamFineSediment.stepMain InstreamFineSediment.inChannelStorage InstreamFineSediment.floodPlainDepositionEmperical
  simp only [fineP]
  realnum
  norm_num

theorem fine_run_state (c : ℝ) (hc : c < 0) (n : Nat) :
    (InstreamFineSediment.run fineP (c, 0) (List.replicate n (0, 0, 0, 0, 0))).1 = (-c * -1000, 0) := by
  unfold InstreamFineSediment.run
  rw [fine_start_eval c hc]
  generalize -c * -1000 = d
  induction n generalizing d with
  | zero => rfl
  | succ n ih =>
    simp only [List.replicate, scan]
    rw [fine_step_eval d]
    exact ih d

noncomputable def fineCol : List ℝ := [1, 0, 0, 1, 1, 1, 1, -1, 1, 1, 1, 1, 1]

theorem fine_run_eq (c : ℝ) (a1 a2 a3 a4 a5 : List ℝ) :
    ∃ outs tg, (InstreamFineSediment.model (α := ℝ)).run fineCol [a1, a2, a3, a4, a5] [c, 0] =
      .ok { outputs := outs,
            states := [(InstreamFineSediment.run fineP (c, 0) (zip5 a1 a2 a3 a4 a5)).1.1,
                       (InstreamFineSediment.run fineP (c, 0) (zip5 a1 a2 a3 a4 a5)).1.2], tags := tg } :=
  ⟨_, _, rfl⟩

/-- **Counter-example** for the unrestricted statement (ℝ; needs a NEGATIVE maximum storage, i.e. parameters outside their
physical range — for maximum storage ≥ 0 see `hotstart_InstreamFineSediment_real`): dry reach, initial channel store −1
("100 % of the maximum storage"), maximum storage −1000. Uninterrupted run: the store is converted once, −1000. Split run:
the second call reads the carried −1000 as a fraction again and converts it to −1 000 000. -/
theorem hotstart_InstreamFineSediment_counterexample : ¬ HotStart (InstreamFineSediment.model (α := ℝ)) := by
  intro h
  obtain ⟨o1, t1, h1⟩ := fine_run_eq (-1) [0] [0] [0] [0] [0]
  obtain ⟨o2, t2, h2⟩ := fine_run_eq (-(-1) * -1000) [0] [0] [0] [0] [0]
  obtain ⟨ow, tw, hw⟩ := fine_run_eq (-1) [0, 0] [0, 0] [0, 0] [0, 0] [0, 0]
  have r1 := fine_run_state (-1) (by norm_num) 1
  have r2 := fine_run_state (-(-1) * -1000) (by norm_num) 1
  have rw' := fine_run_state (-1) (by norm_num) 2
  simp only [List.replicate] at r1 r2 rw'
  simp only [zip5, r1, r2, rw'] at h1 h2 hw
  obtain ⟨o, ho, _, hst⟩ := h fineCol [[0], [0], [0], [0], [0]] [[0], [0], [0], [0], [0]] [-1, 0] 1 1 _ _ rfl
    (by intro s hs; simp at hs; subst hs; rfl)
    (by intro s hs; simp at hs; subst hs; rfl) h1 h2
  simp only [catSeries, List.zipWith_cons_cons, List.zipWith_nil_right, List.cons_append, List.nil_append] at ho
  rw [hw] at ho
  simp only [Except.ok.injEq] at ho
  subst ho
  simp only [List.cons.injEq, and_true] at hst
  norm_num at hst
end FineCounter

/-! ### StorageRouting: counter-example (ℝ) -/
section SRCounter
attribute [-simp] OW.RealNum.ofNat_eq
set_option maxRecDepth 4000

macro "sr_eval" : tactic =>
  `(tactic| (
    unfold StorageRouting.calcOutflow StorageRouting.solve
    simp only [StorageRouting.mkCtx, StorageRouting.runRouting, StorageRouting.rr, StorageRouting.sIndex, StorageRouting.newStorage,
      StorageRouting.netEvaporationFlux, StorageRouting.maxQI, StorageRouting.massBalanceLimit, StorageRouting.linearZone,
      RealNum.isNaN_eq]
    realnum
    norm_num))

/-- step 1 of the counter-example (empty reach, inflow 2, fresh seed): the midpoint 1 of the bracket [0, 2] balances exactly -/
theorem sr_calc_A (o : ℝ) :
    StorageRouting.calcOutflow (α := ℝ) 2 0 0 0 o 0 0 0 0 1 1 1 0 1 0 = .ok ⟨1, 1, 1, "mid-qi"⟩ := by sr_eval

/-- step 2, uninterrupted run (storage 1, inflow 1.0005, seed = index flow 1 of step 1): the seed misses the balance by
0.0005 m³ < 1e-3 and is accepted as it is -/
theorem sr_calc_B (o : ℝ) :
    StorageRouting.calcOutflow (α := ℝ) (2001 / 2000) 0 0 1 o 1 0 0 0 1 1 1 0 1 0 = .ok ⟨1, 2001 / 2000, 1, "prev-qi"⟩ := by sr_eval

/-- step 2, second call of a split run (same storage and inflow, fresh seed 0): the midpoint 1.00025 balances exactly -/
theorem sr_calc_C (o : ℝ) :
    StorageRouting.calcOutflow (α := ℝ) (2001 / 2000) 0 0 0 o 1 0 0 0 1 1 1 0 1 0 = .ok ⟨4001 / 4000, 4001 / 4000, 4001 / 4000, "mid-qi"⟩ := by sr_eval

theorem sr_setup : StorageRouting.setup (α := ℝ) 0 1 1 1 = ⟨0, 1, 1, 0, 0⟩ := by
  unfold StorageRouting.setup
  realnum
  norm_num

theorem sr_step (qi o S i inflow : ℝ) (r : StorageRouting.CO ℝ)
    (h : StorageRouting.calcOutflow (α := ℝ) inflow 0 0 qi o S 0 0 0 1 1 1 0 1 0 = .ok r) :
    StorageRouting.step (α := ℝ) ⟨0, 1, 1, 0, 0⟩ 1 0 0 1 (.ok ⟨qi, o, S, i⟩) (inflow, 0, 0, 0) =
      (.ok ⟨r.qi, r.outflow, r.storage, inflow⟩, ⟨r.outflow, r.storage, r.tag⟩) := by
  unfold StorageRouting.step
  simp only
  realnum
  have e : ((0:ℝ) - 0) / 1 = 0 := by norm_num
  rw [e, h]

/-- the three runs of the counter-example -/
theorem sr_run_a : StorageRouting.run (α := ℝ) 0 1 1 0 0 1 0 (zip4 [2] [0] [0] [0]) =
    (.ok ⟨1, 1, 1, 2⟩, [⟨1, 1, "mid-qi"⟩]) := by
  unfold StorageRouting.run
  rw [sr_setup]
  have z : (0.0 : ℝ) = 0 := by norm_num
  simp only [zip4, scan, z, sr_step _ _ _ _ _ _ (sr_calc_A 0)]

theorem sr_run_b : StorageRouting.run (α := ℝ) 0 1 1 0 0 1 1 (zip4 [2001 / 2000] [0] [0] [0]) =
    (.ok ⟨4001 / 4000, 4001 / 4000, 4001 / 4000, 2001 / 2000⟩, [⟨4001 / 4000, 4001 / 4000, "mid-qi"⟩]) := by
  unfold StorageRouting.run
  rw [sr_setup]
  have z : (0.0 : ℝ) = 0 := by norm_num
  simp only [zip4, scan, z, sr_step _ _ _ _ _ _ (sr_calc_C 0)]

theorem sr_run_w : StorageRouting.run (α := ℝ) 0 1 1 0 0 1 0 (zip4 [2, 2001 / 2000] [0, 0] [0, 0] [0, 0]) =
    (.ok ⟨1, 2001 / 2000, 1, 2001 / 2000⟩, [⟨1, 1, "mid-qi"⟩, ⟨2001 / 2000, 1, "prev-qi"⟩]) := by
  unfold StorageRouting.run
  rw [sr_setup]
  have z : (0.0 : ℝ) = 0 := by norm_num
  simp only [zip4, scan, z, sr_step _ _ _ _ _ _ (sr_calc_A 0), sr_step _ _ _ _ _ _ (sr_calc_B 1)]

/-- **Counter-example**, ℝ (linear reach k = 1 s, Δt = 1 s, no bias; inflow 2 then 1.0005 m³/s into an empty reach). Both
runs close the mass balance of step 2 within the solver's 1e-3 m³: the uninterrupted run accepts the index flow of step 1
as it is (outflow 1.0005, storage 1), the split run — whose second call seeds its search with 0 — lands on the exact root
(outflow 1.00025, storage 1.00025). The difference, 0.00025, is inside the tolerance the property allows for this model. -/
theorem hotstart_StorageRouting_counterexample : ¬ HotStart (StorageRouting.model (α := ℝ)) := by
  intro h
  have h1 : (StorageRouting.model (α := ℝ)).run [0, 1, 1, 0, 0, 1] [[2], [0], [0], [0]] [0, 0, 0] =
      .ok { outputs := [[1], [1]], states := [1, 2, 1], tags := ["mid-qi"] } := by
    unfold StorageRouting.model
    simp only [sr_run_a, List.map_cons, List.map_nil]
    rfl
  have h2 : (StorageRouting.model (α := ℝ)).run [0, 1, 1, 0, 0, 1] [[2001 / 2000], [0], [0], [0]] [1, 2, 1] =
      .ok { outputs := [[4001 / 4000], [4001 / 4000]], states := [4001 / 4000, 2001 / 2000, 4001 / 4000], tags := ["mid-qi"] } := by
    unfold StorageRouting.model
    simp only [sr_run_b, List.map_cons, List.map_nil]
    rfl
  have hw : (StorageRouting.model (α := ℝ)).run [0, 1, 1, 0, 0, 1] [[2, 2001 / 2000], [0, 0], [0, 0], [0, 0]] [0, 0, 0] =
      .ok { outputs := [[1, 2001 / 2000], [1, 1]], states := [1, 2001 / 2000, 2001 / 2000], tags := ["mid-qi", "prev-qi"] } := by
    unfold StorageRouting.model
    simp only [sr_run_w, List.map_cons, List.map_nil]
    rfl
  obtain ⟨o, ho, hout, _⟩ := h [0, 1, 1, 0, 0, 1] [[2], [0], [0], [0]] [[2001 / 2000], [0], [0], [0]] [0, 0, 0] 1 1 _ _ rfl
    (by intro s hs; simp at hs; rcases hs with rfl | rfl <;> rfl)
    (by intro s hs; simp at hs; rcases hs with rfl | rfl <;> rfl) h1 h2
  simp only [catSeries, List.zipWith_cons_cons, List.zipWith_nil_right, List.cons_append, List.nil_append] at ho hout
  rw [hw] at ho
  simp only [Except.ok.injEq] at ho
  subst ho
  simp only [List.cons.injEq, and_true] at hout
  norm_num at hout
/-- non-vacuity of `hotstart_StorageRouting_partial` (ℝ): a zero-flow step leaves the index flow at the value a fresh call
starts from (`f.qi = 0.0`), so its side condition `hqi` is met by a split after such a step -/
example : ∃ f outs, StorageRouting.run (α := ℝ) 0 1 1 0 0 1 0 (zip4 [0] [0] [0] [0]) = (.ok f, outs) ∧ f.qi = 0.0 := by
  have hz : StorageRouting.calcOutflow (α := ℝ) 0 0 0 0 0 0 0 0 0 1 1 1 0 1 0 = .ok ⟨0, 0, 0, "balanced-at-minqi"⟩ := by sr_eval
  have z : (0.0 : ℝ) = 0 := by norm_num
  refine ⟨⟨0, 0, 0, 0⟩, [⟨0, 0, "balanced-at-minqi"⟩], ?_, by norm_num⟩
  unfold StorageRouting.run
  rw [sr_setup]
  simp only [zip4, scan, z, sr_step _ _ _ _ _ _ hz]

/-- Storage (ℝ), non-vacuity on the early-return path: a volume table whose maximum is 0 is an invalid configuration; both
calls of a split succeed (zero outputs, zero states). A split pair on the MAIN path: OW/Props/C06N.lean
(`OW.Proofs.StorageExampleHot.runGen_driver`) -/
example : ∃ o₁ o₂, (Storage.model (α := ℝ)).run [86400, Num.ofNat 1, 1, 0, 1, 0, 0] [[1, 2], [0, 0], [0, 0], [0, 0], [0, 0], [0, 0]] [0, 0, 0] = .ok o₁ ∧
    (Storage.model (α := ℝ)).run [86400, Num.ofNat 1, 1, 0, 1, 0, 0] [[1], [0], [0], [0], [0], [0]] o₁.states = .ok o₂ := by
  have e1 : Num.toInt (Num.ofNat 1 : ℝ) = 1 := intRoundTrip_real 1
  have h : ∀ r a2 a3 a4 a5 a6 s0 s1 s2, ∃ z, (Storage.model (α := ℝ)).run [86400, Num.ofNat 1, 1, 0, 1, 0, 0] [r, a2, a3, a4, a5, a6] [s0, s1, s2] =
      .ok { outputs := z, states := [Num.zero, Num.zero, Num.zero], tags := ["config-invalid"] } := by
    intro r a2 a3 a4 a5 a6 s0 s1 s2
    simp [Storage.model, e1, Storage.splitTables, Storage.mkTables, Storage.getAt, Storage.checkConfig, Storage.maximum,
      bind, Except.bind, pure, Except.pure]
    realnum
    simp only [le_refl, if_true]
    exact ⟨_, rfl⟩
  obtain ⟨z1, h1⟩ := h [1, 2] [0, 0] [0, 0] [0, 0] [0, 0] [0, 0] 0 0 0
  obtain ⟨z2, h2⟩ := h [1] [0] [0] [0] [0] [0] Num.zero Num.zero Num.zero
  exact ⟨_, _, h1, h2⟩
end SRCounter

/-! ### non-vacuity: a concrete two-part split whose two calls both succeed (the hypotheses of `HotStart`) -/
example : ∃ o₁ o₂, (LumpedConstituent.model (α := Float)).run [0, 0.5, 86400] [[1, 2], [0, 1], [3, 0], [10, 20]] [0] = .ok o₁ ∧
    (LumpedConstituent.model (α := Float)).run [0, 0.5, 86400] [[5], [0], [1], [2]] o₁.states = .ok o₂ := ⟨_, _, rfl, rfl⟩
example : ∃ o₁ o₂, (ConstituentDecay.model (α := Float)).run [0, 3600, 86400] [[1, 2], [0, 1], [3, 0], [3, 0], [10, 20]] [0] = .ok o₁ ∧
    (ConstituentDecay.model (α := Float)).run [0, 3600, 86400] [[5], [0], [1], [1], [2]] o₁.states = .ok o₂ := ⟨_, _, rfl, rfl⟩
example : ∃ o₁ o₂, (StorageDissolvedDecay.model (α := Float)).run [86400, 1, 2, 5, 3] [[1, 2], [0, 1], [3, 0], [10, 20]] [0] = .ok o₁ ∧
    (StorageDissolvedDecay.model (α := Float)).run [86400, 1, 2, 5, 3] [[5], [0], [1], [2]] o₁.states = .ok o₂ := ⟨_, _, rfl, rfl⟩
example : ∃ o₁ o₂, (StorageParticulateTrapping.model (α := Float)).run [86400, 1e6, 1000, 100, 800, 3.28, -0.2] [[1, 2], [0, 1], [3, 0], [10, 20]] [0] = .ok o₁ ∧
    (StorageParticulateTrapping.model (α := Float)).run [86400, 1e6, 1000, 100, 800, 3.28, -0.2] [[5], [0], [1], [2]] o₁.states = .ok o₂ := ⟨_, _, rfl, rfl⟩
example : ∃ o₁ o₂, (InstreamCoarseSediment.model (α := Float)).run [86400] [[1, 2], [0, 1], [3, 0]] [0, 0] = .ok o₁ ∧
    (InstreamCoarseSediment.model (α := Float)).run [86400] [[5], [0], [1]] o₁.states = .ok o₂ := ⟨_, _, rfl, rfl⟩
example : ∃ o₁ o₂, (InstreamParticulateNutrient.model (α := Float)).run [0.1, 0.2, 86400] [[1, 2], [0, 1], [3, 0], [1, 1], [2, 2], [3, 3], [4, 4], [5, 5]] [0, 0] = .ok o₁ ∧
    (InstreamParticulateNutrient.model (α := Float)).run [0.1, 0.2, 86400] [[5], [0], [1], [1], [1], [1], [1], [1]] o₁.states = .ok o₂ := ⟨_, _, rfl, rfl⟩
example : ∃ o₁ o₂, (Simhyd.model (α := Float)).run [0.3, 0.3, 200, 1, 1.5, 0.1, 0.1, 0.9, 200] [[10, 0], [3, 4]] [0, 0, 0] = .ok o₁ ∧
    (Simhyd.model (α := Float)).run [0.3, 0.3, 200, 1, 1.5, 0.1, 0.1, 0.9, 200] [[5], [2]] o₁.states = .ok o₂ := ⟨_, _, rfl, rfl⟩
example : ∃ o₁ o₂, (Surm.model (α := Float)).run [0.3, 0.3, 200, 1, 1.5, 0.1, 0.1, 0.9, 200] [[10, 0], [3, 4]] [0, 0, 0] = .ok o₁ ∧
    (Surm.model (α := Float)).run [0.3, 0.3, 200, 1, 1.5, 0.1, 0.1, 0.9, 200] [[5], [2]] o₁.states = .ok o₂ := ⟨_, _, rfl, rfl⟩
example : ∃ o₁ o₂, (StorageTrapAll.model (α := Float)).run [] [[1, 2], [0, 1], [3, 0], [10, 20]] [7] = .ok o₁ ∧
    (StorageTrapAll.model (α := Float)).run [] [[5], [0], [1], [2]] o₁.states = .ok o₂ := ⟨_, _, rfl, rfl⟩
example : ∃ o₁ o₂, (InstreamFineSediment.model (α := Float)).run [5, 1e-5, 1e4, 10, 1000, 0.001, 2, 0.5, 1.5, 0.04, 1e-5, 1e-6, 86400] [[1, 2], [0, 1], [3, 0], [1e4, 1e4], [2, 3]] [0, 0] = .ok o₁ ∧
    (InstreamFineSediment.model (α := Float)).run [5, 1e-5, 1e4, 10, 1000, 0.001, 2, 0.5, 1.5, 0.04, 1e-5, 1e-6, 86400] [[5], [0], [1], [1e4], [2]] o₁.states = .ok o₂ := ⟨_, _, rfl, rfl⟩
example : ∃ o₁ o₂, (Sacramento.model (α := Float)).run [0.01, 0.1, 0.3, 50, 40, 130, 25, 60, 0.1, 1, 40, 0, 0, 0.5, 0, 0, 0, 1, 0, 0, 0, 0] [[2, 0], [0, 1]] [0, 0, 0, 0, 0, 0] = .ok o₁ ∧
    (Sacramento.model (α := Float)).run [0.01, 0.1, 0.3, 50, 40, 130, 25, 60, 0.1, 1, 40, 0, 0, 0.5, 0, 0, 0, 1, 0, 0, 0, 0] [[3], [1]] o₁.states = .ok o₂ := ⟨_, _, rfl, rfl⟩

section NonVacuityReal
attribute [-simp] OW.RealNum.ofNat_eq

/-- Lag (ℝ): lag 2, a 3-step part then a 1-step part -/
example : ∃ o₁ o₂, (Lag.model (α := ℝ)).run [Num.ofNat 2] [[5, 6, 7]] [1, 2] = .ok o₁ ∧
    (Lag.model (α := ℝ)).run [Num.ofNat 2] [[8]] o₁.states = .ok o₂ := by
  have e : Num.toInt (Num.ofNat 2 : ℝ) = 2 := intRoundTrip_real 2
  refine ⟨⟨[[1, 2, 5]], [6, 7], ["lag<T"]⟩, ⟨[[6]], [7, 8], ["lag>T"]⟩, ?_, ?_⟩
  · simp [Lag.model, Lag.run, e, Lag.lagCore, Lag.forLoop, zeros]
  · simp [Lag.model, Lag.run, e, Lag.lagCore, Lag.forLoop, zeros]

/-- GR4J (ℝ): n1 = 1, n2 = 2 (x4 = 1), state row [S, R, 1, 2, q1a, q1b, q9a]: the call succeeds, and the row it returns is
again a well-formed packed row (`OW.Proofs.GR4JHot.roundtrip_GR4J`, `run_len`) -/
example : ∃ o₁, (GR4J.model (α := ℝ)).run [350, 0, 90, 1] [[10, 0], [1, 2]] [100, 30, Num.ofNat 1, Num.ofNat 2, 0, 0, 0] = .ok o₁ := by
  have e1 : Num.toInt (Num.ofNat 1 : ℝ) = 1 := intRoundTrip_real 1
  have e2 : Num.toInt (Num.ofNat 2 : ℝ) = 2 := intRoundTrip_real 2
  simp [GR4J.model, e1, e2]

/-- InstreamDissolvedNutrientDecay, decay disabled (ℝ): the side condition of the partial theorem and both calls -/
example : DecayDisabled [(0:ℝ), 0, 1, 1, 1, 0, 86400] [] [] ∧
    ∃ o₁ o₂, (InstreamDissolvedNutrient.model (α := ℝ)).run [0, 0, 1, 1, 1, 0, 86400] [[1, 2], [0, 0], [5, 6], [1, 1], [0, 0]] [0] = .ok o₁ ∧
      (InstreamDissolvedNutrient.model (α := ℝ)).run [0, 0, 1, 1, 1, 0, 86400] [[3], [0], [5], [1], [0]] o₁.states = .ok o₂ := by
  have hd : (0:ℝ) < 0.5 := by norm_num
  refine ⟨⟨0, _, rfl, hd⟩, ?_⟩
  have h1 : ∃ o₁, (InstreamDissolvedNutrient.model (α := ℝ)).run [0, 0, 1, 1, 1, 0, 86400] [[1, 2], [0, 0], [5, 6], [1, 1], [0, 0]] [0] = .ok o₁ ∧
      ∃ s, o₁.states = [s] := by
    simp only [InstreamDissolvedNutrient.model]
    realnum
    simp only [if_pos hd]
    exact ⟨_, rfl, _, rfl⟩
  obtain ⟨o₁, h1, s, hs⟩ := h1
  have h2 : ∃ o₂, (InstreamDissolvedNutrient.model (α := ℝ)).run [0, 0, 1, 1, 1, 0, 86400] [[3], [0], [5], [1], [0]] o₁.states = .ok o₂ := by
    rw [hs]
    simp only [InstreamDissolvedNutrient.model]
    realnum
    simp only [if_pos hd]
    exact ⟨_, rfl⟩
  obtain ⟨o₂, h2⟩ := h2
  exact ⟨o₁, o₂, h1, h2⟩

/-- Sacramento: the side condition of the partial theorem is satisfiable (ℝ) -/
example : SacramentoNoSpread [0.01, 0.1, 0.3, 50, 40, 130, 25, 60, 0.1, 1, 40, 0, 0, 0.5, 0, 0, 0, 1, 0, 0, 0, 0] [] [] :=
  ⟨_, _, _, _, _, _, _, _, _, _, _, _, _, _, _, _, _, _, rfl, by norm_num, by norm_num⟩

/-- InstreamFineSediment: physically meaningful geometry has a non-negative maximum storage (ℝ) -/
example : FineSedimentMaxStorageNonneg [5, 1e-5, 1e4, 10, 1000, 0.001, 2, 0.5, 1.5, 0.04, 1e-5, 1e-6, 86400] [] [] := by
  intro bff vfl fpa lw ll ls bh pbh sbd mn vs vr dt h
  simp only [List.cons.injEq, and_true] at h
  obtain ⟨rfl, rfl, rfl, rfl, rfl, rfl, rfl, rfl, rfl, rfl, rfl, rfl, rfl⟩ := h
  simp only [InstreamFineSediment.maxStorage]
  realnum
  norm_num
end NonVacuityReal

end OW.Props.C06
