import OW.Props.Rounded.C10
import OW.Props.Rounded.C11
import OW.Props.Rounded.C12
import OW.Props.Rounded.C13
import OW.Props.Rounded.C16
import OW.Props.Rounded.C16Sediment
import OW.Props.Rounded.C20
/-!
Inequality clauses of the numeric properties under ROUNDED arithmetic (`RNum R`, every monotone odd idempotent rounding `R`
fixing 0 — OW/Proofs/Rounded.lean), one module per property: OW/Props/Rounded/C10 C11 C12 C13 C16 C16Sediment C20. Each is listed in the
`props_modules` of the corresponding check; this file only collects them.
-/
