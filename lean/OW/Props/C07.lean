import OW.Proofs.SimGraph
/-!
C07 — ow-sim executes a model graph exactly like the sequential reference semantics.
Models: OW/Sim/Graph.lean (`refSem` = specification, `exec`/`owsim` = implementation-shaped), OW/Sim/Writer.lean
(writer protocol). Only the property theorems; helper lemmas are in OW/Proofs/SimGraph.lean and OW/Proofs/SimWriter.lean.
-/
namespace OW.Props.C07
open OW OW.Sim

/-- **T3 `batches_rows`.** For cumulative (non-decreasing) batch counts, the row ranges
`[batches[g-1], batches[g])` of the generations partition `[0, total)`: every row below the total lies in exactly one
generation, every row of a generation lies below the total, consecutive ranges adjoin, and an empty batch contains no
row. -/
theorem batches_rows (b : List Nat) (hlen : 1 ≤ b.length) (hm : MonoBatches b) :
    (∀ r, r < totalOf b → ∃ g, g < b.length ∧ inGen b g r ∧ ∀ g', g' < b.length → inGen b g' r → g' = g) ∧
    (∀ g r, g < b.length → inGen b g r → r < totalOf b) ∧
    (∀ g, startOf b (g + 1) = stopOf b g) ∧
    (∀ g r, stopOf b g = startOf b g → ¬ inGen b g r) := by
  refine ⟨?_, ?_, startOf_succ b, ?_⟩
  · intro r hr
    obtain ⟨g, hg, hin⟩ := inGen_cover hlen hr
    exact ⟨g, hg, hin, fun g' hg' hin' => inGen_inj hm hg' hg hin' hin⟩
  · intro g r hg hin
    exact inGen_lt_total hm hg hin
  · intro g r he hin
    have := hin.1; have := hin.2
    omega

/-- non-vacuity: three generations with an empty middle batch, rows 0,1 | (none) | 2,3,4 -/
example : MonoBatches [2, 2, 5] ∧ inGen [2, 2, 5] 0 1 ∧ ¬ inGen [2, 2, 5] 1 2 ∧ inGen [2, 2, 5] 2 2 ∧
    totalOf [2, 2, 5] = 5 := by decide

end OW.Props.C07
