import OW.Proofs.SimBridge
import OW.Proofs.SimFootprint
/-!
C07 — ow-sim executes a model graph exactly like the sequential reference semantics.

Models (core Lean, executed by the driver against the real `ow-sim` binary on every run):
* OW/Sim/Graph.lean — `refSem` (SPECIFICATION: generations in order, each node once, node input = stored input or zeros
  plus the linked outputs, links read through their global node columns) and `exec`/`owsimSched`/`owsim`
  (IMPLEMENTATION-SHAPED: lazily loaded generations keyed by (model, generation) with row ranges from `batches`, the
  `nextLink` cursor with `linkGen > i → break`, `AddTo`, `WriteData` at `generationLocation`, `PurgeGeneration`);
* OW/Sim/Writer.lean — the writer protocol (main loop, one writer goroutine per generation, unbuffered `writingDone`).
Only the property theorems are stated here; the lemmas are in OW/Proofs/SimGraph.lean, SimWriter.lean, SimBridge.lean.
The kernel is an ARBITRARY function `run : RunFn α` over an arbitrary `Num α` in every theorem.
-/
namespace OW.Props.C07
open OW OW.Sim

variable {α : Type} [Num α]

/-! ## T3 — batches -/

/-- **T3 `batches_rows`.** For cumulative (non-decreasing) batch counts, the row ranges
`[batches[g-1], batches[g])` of the generations partition `[0, total)`: every row below the total lies in exactly one
generation, every row of a generation lies below the total, consecutive ranges adjoin, and an empty batch contains no
row. -/
theorem batches_rows (b : List Nat) (hlen : 1 ≤ b.length) (hm : MonoBatches b) :
    (∀ r, r < totalOf b → ∃ g, g < b.length ∧ inGen b g r ∧ ∀ g', g' < b.length → inGen b g' r → g' = g) ∧
    (∀ g r, g < b.length → inGen b g r → r < totalOf b) ∧
    (∀ g, startOf b (g + 1) = stopOf b g) ∧
    (∀ g r, stopOf b g = startOf b g → ¬ inGen b g r) := by
  refine ⟨?_, ?_, startOf_succ b, ?_⟩
  · intro r hr
    obtain ⟨g, hg, hin⟩ := inGen_cover hlen hr
    exact ⟨g, hg, hin, fun g' hg' hin' => inGen_inj hm hg' hg hin' hin⟩
  · intro g r hg hin
    exact inGen_lt_total hm hg hin
  · intro g r he hin
    have := hin.1; have := hin.2
    omega

/-- non-vacuity: three generations with an empty middle batch, rows 0,1 | (none) | 2,3,4 -/
example : MonoBatches [2, 2, 5] ∧ inGen [2, 2, 5] 0 1 ∧ ¬ inGen [2, 2, 5] 1 2 ∧ inGen [2, 2, 5] 2 2 ∧
    totalOf [2, 2, 5] = 5 := by decide

/-! ## T1 — ow-sim = reference semantics -/

/-- The specification is what it says: in the reference result, the entry of every node (model `m`, node `k` of
generation `gen`) is that node run ONCE on its own parameters and initial states with the input "stored input (or
zeros) plus, in link order, the output of every node linked to it", all taken from the reference result itself. -/
theorem refSem_node_equations (run : RunFn α) (g : Graph α) (hv : ValidGraph g) {m gen k : Nat}
    (hm : m < g.models.length) (hk : k < countOf g m gen) :
    refDone run g g.genCount m (rowOf g m gen k) =
      ⟨nodeInput g (refDone run g g.genCount) m (rowOf g m gen k),
       run (g.model m).name ((g.model m).params.getD (rowOf g m gen k) [])
         (nodeInput g (refDone run g g.genCount) m (rowOf g m gen k))
         ((g.model m).states.getD (rowOf g m gen k) [])⟩ :=
  ref_fixed run g hv hm hk

/-- **T1 `owsim_eq_ref`.** For every valid model-graph file and every kernel function, the output file produced by the
implementation-shaped semantics (outputs, final states, final inputs where requested, each at the node's global row;
which datasets exist) equals the sequential reference semantics. -/
theorem owsim_eq_ref (run : RunFn α) (g : Graph α) (hv : ValidGraph g) : owsim run g = refSem run g :=
  owsimSched_eq_ref run hv (earlySchedule_safe _)

/-- **T1 for every schedule of the data actions.** The same holds for EVERY complete interleaving of the main loop's
actions (`run i`, `links i`) with the writers' actions (`write g`, `purge k`) in which: the main loop is sequential; a
generation is written once, after it has run and before it is purged; a generation is purged only after it is written
and its outgoing links are applied. -/
theorem owsim_eq_ref_safe_schedule (run : RunFn α) (g : Graph α) (hv : ValidGraph g) (acts : List Act)
    (hs : SafeComplete g.genCount acts) : owsimSched run g acts = refSem run g :=
  owsimSched_eq_ref run hv hs

/-- **T1 for every scheduling of the goroutines.** Every complete run of the writer-protocol transition system (any
interleaving of the main goroutine, the writer goroutines and the channel rendezvous, including bounced tokens) induces
a schedule of data actions, and the output file of that schedule is the reference result. -/
theorem owsim_eq_ref_every_interleaving (run : RunFn α) (g : Graph α) (hv : ValidGraph g)
    {ls : List Writer.Label} {s : Writer.State} (hr : Writer.Run g.genCount Writer.init ls s)
    (he : s.mpc = .exited) : owsimSched run g (ls.flatMap Writer.project) = refSem run g :=
  owsimSched_eq_ref run hv (Writer.run_safeComplete hv.genPos hr he)

/-- a concrete 3-generation graph: model A has nodes 0,1 in generation 0 and node 2 in generation 2 (empty batch in
generation 1), model B (no stored inputs) has node 0 in generation 1 and node 1 in generation 2; fan-in (two links into
input 0 of B0), fan-out (A0 feeds B0 and B1), a chain A→B→A. -/
def g3 : Graph α :=
  { T := 2
    models := [
      { name := "A", nInputs := 1, nOutputs := 1, batches := [2, 2, 3], params := [[], [], []], states := [[], [], []],
        inputs := some [[[Num.one, Num.one]], [[Num.zero, Num.one]], [[Num.zero, Num.zero]]] },
      { name := "B", nInputs := 2, nOutputs := 1, batches := [0, 1, 2], params := [[], []], states := [[], []], inputs := none } ]
    links := [
      ⟨0, 0, 0, 0, 0, 1, 1, 0, 0, 0⟩, ⟨0, 0, 1, 1, 0, 1, 1, 0, 0, 0⟩, ⟨0, 0, 0, 0, 0, 2, 1, 1, 0, 1⟩,
      ⟨1, 1, 0, 0, 0, 2, 0, 2, 0, 0⟩ ] }

/-- non-vacuity: the graph is valid, so T1 applies to it for every kernel -/
theorem g3_valid : ValidGraph (g3 : Graph α) := of_decide_eq_true rfl

example (run : RunFn α) : owsim run g3 = refSem run g3 := owsim_eq_ref run g3 g3_valid

/-- non-vacuity: the sorted-links hypothesis matters. With the two generation-0 links placed AFTER the generation-1
link, the cursor stops at the generation-1 link in iteration 0 (`linkGen > i → break`): the graph is not valid. -/
example : ¬ ValidGraph ({ (g3 : Graph α) with links := [⟨1, 1, 0, 0, 0, 2, 0, 2, 0, 0⟩, ⟨0, 0, 0, 0, 0, 1, 1, 0, 0, 0⟩] }) :=
  of_decide_eq_false rfl

/-- non-vacuity of the hypotheses added to `ValidGraph` because the Go code needs them (the list-based model would
silently read `[]` where Go panics or races): two models with ONE name (Go keys `models` by name: two goroutines on one
`*modelGeneration`), a link whose `srcVar` is not an output variable of its source model (Go: index out of range in
`Outputs.Slice`), a `parameters` dataset with a column missing — each makes the graph invalid. -/
example : ¬ ValidGraph ({ (g3 : Graph α) with models := (g3 : Graph α).models.map fun md => { md with name := "A" } }) :=
  of_decide_eq_false rfl
example : ¬ ValidGraph ({ (g3 : Graph α) with links := [⟨0, 0, 0, 0, 7, 1, 1, 0, 0, 0⟩] }) := of_decide_eq_false rfl
example : ¬ ValidGraph ({ (g3 : Graph α) with models := (g3 : Graph α).models.map fun md => { md with params := [[]] } }) :=
  of_decide_eq_false rfl

/-- what `ValidGraph` gives beyond batches and link order: pairwise different model names, every link's source variable
below the number of outputs of its source model, every dataset of the prescribed shape -/
theorem validGraph_go_preconditions (g : Graph α) (hv : ValidGraph g) :
    (g.models.map (·.name)).Nodup ∧ (∀ l ∈ g.links, l.srcVar < (g.model l.srcModel).nOutputs) ∧
    (∀ md ∈ g.models, md.params.length = totalOf md.batches ∧ md.states.length = totalOf md.batches) :=
  ⟨hv.names, fun _ hl => hv.srcVar hl, fun _ hm => ⟨(hv.shape hm).1, (hv.shape hm).2.1⟩⟩

/-! ### T1, atomicity of `write g`: footprints of the main loop on the generation objects

`write g` is ONE action of the model although the real writer goroutine runs concurrently with the main loop. By
`writer_no_conflict` (below) the main loop is, while generation `g` is being written, at `run i` with `i > g` or at
`links i` with `i ≥ g`; the two theorems say that neither touches the generation objects `gens · g` the writer reads. -/

/-- **footprint of `run i`**: every generation object of another generation is untouched -/
theorem run_footprint (run : RunFn α) (g : Graph α) (i : Nat) (s : SimState α) (m k : Nat) (hk : k ≠ i) :
    (exec run g s (.run i)).gens m k = s.gens m k :=
  OW.Sim.run_footprint run g i s m k hk

/-- **footprint of `links i`** in every state a protocol-respecting schedule reaches (`SInv`) and in which the protocol
admits `links i`: the generation objects of all generations `≤ i` are untouched (the loop adds to inputs of generations
`> i` only; generation `i` is cached, so `GetGeneration` does not reload it). -/
theorem links_footprint (run : RunFn α) (g : Graph α) (hv : ValidGraph g) {p p' : Prog} {s : SimState α} {i : Nat}
    (h : SInv run g p s) (hs : progStep g.genCount p (.links i) = some p') (m k : Nat) (hk : k ≤ i) :
    (exec run g s (.links i)).gens m k = s.gens m k :=
  links_footprint_reachable run hv h hs m k hk

/-- non-vacuity: the initial state is such a state (`SInv`), and on the 3-generation graph the first action `run 0`
leaves generation 1 alone -/
example (run : RunFn α) : SInv run (g3 : Graph α) Prog.init initState := sinv_init run g3
example (run : RunFn α) : (exec run (g3 : Graph α) initState (.run 0)).gens 1 1 = none := rfl

/-- **`WriteData` of a generation that never ran** (possible only outside the protocol): Go dereferences the nil
`Outputs`; the model reports the panic class in the rows concerned instead of skipping the write silently. -/
example (run : RunFn α) :
    (execAll run (g3 : Graph α) [Act.write 0]).file 0 0 = some crashRow ∧
    (crashRow : Row α).err = some "nil" := ⟨rfl, rfl⟩

/-! ## T2 — writer protocol, for every number of generations `G ≥ 1` and every reachable state -/

open Writer

/-- **written generations form a prefix, each written exactly once** -/
theorem writer_written_prefix_once {G : Nat} (hG : 1 ≤ G) {s : State} (h : Reachable G s) :
    ∃ w, w ≤ G ∧ ∀ g, s.writes g = if g < w then 1 else 0 := by
  obtain ⟨w, hd, I⟩ := reachable_inv hG h
  exact ⟨w, I.wle, I.writes⟩

/-- **`purge k` only when generation `k` is written, its outgoing links are applied, and the main loop is past it**
(the main loop, at generation `i`, only touches generations `≥ i`) -/
theorem writer_purge_safe {G : Nat} (hG : 1 ≤ G) {s s' : State} {h k : Nat} (hr : Reachable G s)
    (hs : step G s (.purge h k) = some s') :
    s.writes k = 1 ∧ s.links k = true ∧ (∀ i, s.mpc = .run i ∨ s.mpc = .links i → k < i) := by
  obtain ⟨w, hd, I⟩ := reachable_inv hG hr
  obtain ⟨e, _, _⟩ := invP_purge I hs
  subst e
  obtain ⟨h1, _, h3⟩ := I.hok
  obtain ⟨e, hw⟩ := h3
  have hsa := spawned_le_applied G s.mpc
  have hk : k < applied G s.mpc := by omega
  refine ⟨by rw [I.writes k]; simp; omega, by rw [I.links k]; simp [hk], ?_⟩
  intro i hi
  rcases hi with hi | hi <;> (rw [hi] at hk; exact hk)

/-- a generation that has been purged was written before and its links were applied -/
theorem writer_purged_written {G : Nat} (hG : 1 ≤ G) {s : State} (hr : Reachable G s) {k : Nat}
    (hp : 0 < s.purges k) : s.writes k = 1 ∧ s.links k = true := by
  obtain ⟨w, hd, I⟩ := reachable_inv hG hr
  obtain ⟨a, b⟩ := I.purges k hp
  exact ⟨by rw [I.writes k]; simp [a], by rw [I.links k]; simp [b]⟩

/-- **tokens are never lost or duplicated**: at most one writer is in a pc other than not-spawned / waiting / done
(i.e. holds a token or is writing); while one is, the main goroutine holds nothing; and once W(0) exists there is
always exactly one holder (a writer, or the main goroutine holding a token / having received the last one) -/
theorem writer_token_unique {G : Nat} (hG : 1 ≤ G) {s : State} (hr : Reachable G s) :
    (∀ g1 g2, active (s.wpc g1) → active (s.wpc g2) → g1 = g2) ∧
    (∀ g, active (s.wpc g) → mainFree s.mpc) ∧
    (s.wpc 0 ≠ .notSpawned → (∃ g, g < G ∧ active (s.wpc g)) ∨ ¬ mainFree s.mpc) := by
  obtain ⟨w, hd, I⟩ := reachable_inv hG hr
  refine ⟨?_, ?_, ?_⟩
  · intro g1 g2 a1 a2
    have e1 := holder_of_active I rfl a1
    have e2 := holder_of_active I rfl a2
    rw [e1] at e2
    cases e2; rfl
  · intro g a
    have e := holder_of_active I rfl a
    subst e
    exact I.hok.2.1
  · intro h0
    cases hd with
    | some hp =>
      obtain ⟨h, p⟩ := hp
      obtain ⟨h1, _, h3⟩ := I.hok
      have hs := spawned_le G I.mok
      refine Or.inl ⟨h, by omega, ?_⟩
      rw [I.wpc h, expected_self h1]
      exact pcOK_active h3
    | none =>
      rcases I.hok with ⟨h1, _⟩ | ⟨h1, _⟩ | ⟨k, h1, _⟩
      · exfalso; apply h0; rw [I.wpc 0, h1]; simp [expected, spawned]
      · exact Or.inr (fun a => a.1 h1)
      · exact Or.inr (fun a => a.2 k h1)

/-- **no stuck state**: in every reachable state in which the main goroutine has not exited some transition is enabled -/
theorem writer_no_stuck {G : Nat} (hG : 1 ≤ G) {s : State} (hr : Reachable G s) (hne : s.mpc ≠ .exited) :
    ∃ l s', step G s l = some s' := by
  obtain ⟨w, hd, I⟩ := reachable_inv hG hr
  obtain ⟨l, s', _, _, hs, _, _⟩ := progress I hne
  exact ⟨l, s', hs⟩

/-- **the main goroutine exits only when everything is done**: every generation written exactly once, every link
batch applied, every writer finished — "every generation is written exactly once before the process exits" -/
theorem writer_exit_all_written {G : Nat} (hG : 1 ≤ G) {s : State} (hr : Reachable G s) (he : s.mpc = .exited) :
    terminal G s = true ∧ ∀ g, g < G → s.writes g = 1 := by
  have hI := reachable_inv hG hr
  have ht := exited_terminal hI he
  refine ⟨ht, ?_⟩
  intro g hg
  simp only [terminal, he, decide_true, Bool.true_and, List.all_eq_true, List.mem_range] at ht
  have := ht g hg
  simp only [Bool.and_eq_true, decide_eq_true_eq] at this
  exact this.1.2

/-- **termination is always possible**: from every reachable state the terminal state (all written, main exited) is
reachable -/
theorem writer_terminal_reachable {G : Nat} (hG : 1 ≤ G) {s : State} (hr : Reachable G s) :
    ∃ s', Reach G s s' ∧ s'.mpc = .exited ∧ terminal G s' = true := by
  obtain ⟨w, hd, I⟩ := reachable_inv hG hr
  obtain ⟨s', hre, he⟩ := reach_exit _ s w hd I (Nat.le_refl _)
  exact ⟨s', hre, he, exited_terminal (reach_inv ⟨w, hd, I⟩ hre) he⟩

/-- **no conflicting access** (C05-T3): whenever a writer is writing generation `g` or has just received token `k`
(and is about to purge generation `k`), the main loop is past that generation: it runs generation `i > g` / `i > k`,
or processes the links of generation `i ≥ g` (reading generation `i`, writing inputs of generations `> i`) / `i > k` -/
theorem writer_no_conflict {G : Nat} (hG : 1 ≤ G) {s : State} (hr : Reachable G s) :
    (∀ g, s.wpc g = .writing → (∀ i, s.mpc = .run i → g < i) ∧ (∀ i, s.mpc = .links i → g ≤ i)) ∧
    (∀ h k, s.wpc h = .got k → ∀ i, s.mpc = .run i ∨ s.mpc = .links i → k < i) := by
  obtain ⟨w, hd, I⟩ := reachable_inv hG hr
  refine ⟨?_, ?_⟩
  · intro g hw
    have e := holder_of_active I hw trivial
    subst e
    obtain ⟨h1, _, _⟩ := I.hok
    refine ⟨?_, ?_⟩ <;> (intro i hi; rw [hi] at h1; simp [spawned] at h1; omega)
  · intro h k hw i hi
    have e := holder_of_active I hw trivial
    subst e
    obtain ⟨h1, _, h3⟩ := I.hok
    obtain ⟨e, hwh⟩ := h3
    rcases hi with hi | hi <;> (rw [hi] at h1; simp [spawned] at h1; omega)

/-! ### non-vacuity of T2: concrete runs with three generations -/

/-- replay a list of labels -/
def replay (G : Nat) : State → List Label → Option State
  | s, [] => some s
  | s, l :: ls => match step G s l with
    | some s' => replay G s' ls
    | none => none

theorem replay_run {G : Nat} : ∀ (ls : List Label) (s s' : State), replay G s ls = some s' → Run G s ls s' := by
  intro ls
  induction ls with
  | nil => intro s s' h; simp only [replay] at h; cases h; exact Run.nil s
  | cons l rest ih =>
    intro s s' h
    simp only [replay] at h
    split at h
    · rename_i s1 hs; exact Run.cons hs (ih s1 s' h)
    · cases h

theorem run_reachable {G : Nat} {s s' : State} {ls : List Label} (h : Run G s ls s') (hs : Reachable G s) :
    Reachable G s' := by
  induction h with
  | nil => exact hs
  | cons h1 _ ih => exact ih (Reachable.step hs h1)

/-- a run in which the main loop finishes first and token 0 BOUNCES: it is received by W(2) (which purges generation
0, re-sends and sleeps) and then by the main goroutine's final loop (which re-sends it) before W(1) gets it -/
def bounceRun : List Label :=
  [.spawn 0, .links 0, .spawn 1, .links 1, .spawn 2, .links 2,
   .wstart 0, .wdone 0, .sent 0,
   .recv 2 0 .own, .purge 2 0, .resent 2 0, .mrecv 0 (.bouncer 2),
   .recv 1 0 .main, .purge 1 0, .wstart 1, .wdone 1, .sent 1,
   .recv 2 1 .own, .purge 2 1, .wstart 2, .wdone 2, .sent 2, .mrecv 2 .own]

example : (replay 3 init bounceRun).map (·.mpc) = some .exited := by decide

example : (replay 3 init bounceRun).map (fun s => (s.writes 0, s.writes 1, s.writes 2, s.purges 0, s.purges 1)) =
    some (1, 1, 1, 2, 1) := by decide

/-- the bounced run is a run of the system, so by `owsim_eq_ref_every_interleaving` the schedule it induces
(`run 0, links 0, run 1, links 1, run 2, links 2, write 0, purge 0, purge 0, write 1, purge 1, write 2`) yields the
reference result on the 3-generation graph, for every kernel -/
example (run : RunFn α) : owsimSched run g3 (bounceRun.flatMap Writer.project) = refSem run g3 := by
  have hv : ValidGraph (g3 : Graph α) := g3_valid
  cases h : replay 3 init bounceRun with
  | none => exact absurd h (by decide)
  | some s =>
    have he : s.mpc = .exited := by
      have : (replay 3 init bounceRun).map (·.mpc) = some .exited := by decide
      rw [h] at this; simpa using this
    exact owsim_eq_ref_every_interleaving run g3 hv (replay_run _ _ _ h) he

/-- a purge of a generation that is not yet written is NOT a step of the system (the label is refused) -/
example : replay 3 init [.spawn 0, .links 0, .spawn 1, .purge 1 0] = none := by decide

end OW.Props.C07
