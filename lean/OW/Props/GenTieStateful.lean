import OW.Gen.Kernels
import OW.Kernels.StorageRouting
import OW.Props.GenTieBase
import Mathlib.Tactic.SplitIfs
namespace OW.Props.GenTie
open OW OW.Kernels OW.Gen.K OW.Gen.Prelude

/-- a panic of the Go code: `.error` of the hand-written models, `none` of the regenerated definitions -/
def toOpt {ε β γ : Type} (f : β → γ) : Except ε β → Option γ
  | .ok b => some (f b)
  | .error _ => none

/-! ### models/routing/storage_routing.go -/

theorem gen_eq_StorageRouting_runRouting {α} [Num α] (c : StorageRouting.Ctx α) (q : α) :
    storageRouting.runRouting q c.inflow c.lateral c.initialFluxMax c.storage c.area c.netEvapRate c.deadStorage c.duration
        c.bias c.routingPower c.routingConstant c.qlimit c.klimit c.koffset =
      toOpt (fun r => (r.massBalance, r.outflow, r.sIndex)) (StorageRouting.runRouting c q) := by
  unfold storageRouting.runRouting StorageRouting.runRouting StorageRouting.rr StorageRouting.sIndex StorageRouting.newStorage
    StorageRouting.netEvaporationFlux StorageRouting.linearZone
  simp only [gen_unfold, Bool.or_eq_true, Bool.and_eq_true, decide_eq_true_eq, gt_iff_lt]
  rw [apply_ite (toOpt _)]
  tie

section CalcOutflow
variable {α : Type} [Num α]
  (inflow lateral bias prevQi prevOutflow prevStorage netEvapRate area deadStorage duration routingPower routingConstant qlimit klimit koffset : α)

theorem gen_eq_StorageRouting_evaluateRouting (q : α) :
    storageRouting.calcOutflow_evaluateRouting inflow lateral bias prevStorage netEvapRate area deadStorage duration
        routingPower routingConstant qlimit klimit koffset (Num.gmax 0.0 prevStorage / duration + inflow) q =
      toOpt (fun r => (r.massBalance, r.outflow, r.sIndex))
        (StorageRouting.runRouting (StorageRouting.mkCtx inflow lateral bias prevStorage netEvapRate area deadStorage duration
          routingPower routingConstant qlimit klimit koffset) q) :=
  gen_eq_StorageRouting_runRouting (StorageRouting.mkCtx inflow lateral bias prevStorage netEvapRate area deadStorage duration
          routingPower routingConstant qlimit klimit koffset) q

theorem gen_eq_StorageRouting_slope (q : α) :
    storageRouting.calcOutflow_slopeOfMassBalance bias duration routingPower routingConstant qlimit klimit q =
      StorageRouting.slopeOfMassBalance (StorageRouting.mkCtx inflow lateral bias prevStorage netEvapRate area deadStorage duration
          routingPower routingConstant qlimit klimit koffset) q := by
  unfold storageRouting.calcOutflow_slopeOfMassBalance StorageRouting.slopeOfMassBalance StorageRouting.linearZone StorageRouting.mkCtx
  simp only [gen_unfold, Bool.or_eq_true, Bool.and_eq_true, decide_eq_true_eq, gt_iff_lt]
  try tie

/-- the instantiation of the abstract `fn.FindRoot` (util/fn/root.go, NOT translated by owtranslate: tied separately) in the
tie of `calcOutflow`: the hand-written model `OW.Fn.findRoot`, applied to the total version of the residual callback (a
panic of the callback is `NaN` there and is detected afterwards on the logged evaluation points, as in
`StorageRouting.solve`); `none` = `FindRoot` panics ("Invalid range") or the callback does. -/
def findRootArg (f : α → Option α) (f' : α → α) (x0 lo hi tol conv : α) (n : Int) : Option (α × α) :=
  match OW.Fn.findRoot (fun q => (f q).getD Num.nan) (some f') x0 lo hi tol conv n.toNat with
  | .error _ => none
  | .ok fr => if fr.evals.any (fun q => (f q).isNone) then none else some (fr.x, fr.delta)

theorem gen_eq_StorageRouting_massBalance (q : α) :
    storageRouting.calcOutflow_evaluateRoutingMassBalance inflow lateral bias prevStorage netEvapRate area deadStorage duration
        routingPower routingConstant qlimit klimit koffset (Num.gmax 0.0 prevStorage / duration + inflow) q =
      toOpt (fun r => r.massBalance)
        (StorageRouting.runRouting (StorageRouting.mkCtx inflow lateral bias prevStorage netEvapRate area deadStorage duration
          routingPower routingConstant qlimit klimit koffset) q) := by
  unfold storageRouting.calcOutflow_evaluateRoutingMassBalance
  rw [gen_eq_StorageRouting_evaluateRouting]
  cases StorageRouting.runRouting (StorageRouting.mkCtx inflow lateral bias prevStorage netEvapRate area deadStorage duration
          routingPower routingConstant qlimit klimit koffset) q <;> rfl

/-- the residual callback panics at `q` (`runRouting` reports `outflow is nan`) -/
def evalPanics (c : StorageRouting.Ctx α) (q : α) : Bool :=
  match StorageRouting.runRouting c q with | .ok _ => false | .error _ => true

/-- `StorageRouting.solve` with the test "some evaluation of the callback panicked" named -/
theorem solve_eq (c : StorageRouting.Ctx α) (prevQi minQI mx : α) :
    StorageRouting.solve c prevQi minQI mx =
      (match StorageRouting.runRouting c mx with
       | .error e => .error e
       | .ok r =>
         if r.massBalance < StorageRouting.massBalanceLimit then
           let outflow := Num.gmax 0.0 (c.initialFluxMax - StorageRouting.netEvaporationFlux c + c.lateral)
           let storage := Num.gmax (c.storage + (c.inflow + c.lateral - StorageRouting.netEvaporationFlux c - outflow) * c.duration) 0.0
           .ok ⟨mx, outflow, storage, "full-drain-at-maxqi"⟩
         else
           let reset : Bool := decide (prevQi ≤ minQI) || decide (mx ≤ prevQi)
           let qi := if reset then (minQI + mx) * 0.5 else prevQi
           match StorageRouting.runRouting c qi with
           | .error e => .error e
           | .ok r =>
             if Num.abs r.massBalance < StorageRouting.massBalanceLimit then
               .ok ⟨qi, r.outflow, r.sIndex, if reset then "mid-qi" else "prev-qi"⟩
             else
               match OW.Fn.findRoot (StorageRouting.massBalanceFn c) (some (StorageRouting.slopeOfMassBalance c)) minQI minQI mx
                   StorageRouting.massBalanceLimit StorageRouting.convergenceLimit StorageRouting.maxIterations with
               | .error e => .error e
               | .ok fr =>
                 if fr.evals.any (evalPanics c) then .error "other"
                 else if Num.isNaN fr.delta then .error "other"
                 else
                   match StorageRouting.runRouting c fr.x with
                   | .error e => .error e
                   | .ok r => .ok ⟨fr.x, r.outflow, r.sIndex, "root"⟩) := by
  unfold StorageRouting.solve
  rfl

theorem findRootArg_eq (c : StorageRouting.Ctx α) (x0 lo hi tol conv : α) :
    findRootArg (fun q => toOpt (fun r => r.massBalance) (StorageRouting.runRouting c q)) (StorageRouting.slopeOfMassBalance c)
        x0 lo hi tol conv 20 =
      (match OW.Fn.findRoot (StorageRouting.massBalanceFn c) (some (StorageRouting.slopeOfMassBalance c)) x0 lo hi tol conv
          StorageRouting.maxIterations with
       | .error _ => none
       | .ok fr =>
         if fr.evals.any (evalPanics c) then none
         else some (fr.x, fr.delta)) := by
  unfold findRootArg
  have h1 : (fun q => (toOpt (fun r => r.massBalance) (StorageRouting.runRouting c q)).getD Num.nan) =
      StorageRouting.massBalanceFn c := by
    funext q; unfold StorageRouting.massBalanceFn; cases StorageRouting.runRouting c q <;> rfl
  have h2 : (fun q => (toOpt (fun r => r.massBalance) (StorageRouting.runRouting c q)).isNone) =
      evalPanics c := by
    funext q; unfold evalPanics; cases StorageRouting.runRouting c q <;> rfl
  rw [h1, h2]
  rfl

theorem runRouting_ok_notNaN (c : StorageRouting.Ctx α) (q : α) (r : StorageRouting.RR α)
    (h : StorageRouting.runRouting c q = .ok r) : Num.isNaN r.outflow = false := by
  unfold StorageRouting.runRouting at h
  dsimp only at h
  split at h
  · cases h
  · injection h with h; subst h; simp_all

theorem gen_eq_StorageRouting_calcOutflow :
    storageRouting.calcOutflow findRootArg inflow lateral bias prevQi prevOutflow prevStorage netEvapRate area deadStorage
        duration routingPower routingConstant qlimit klimit koffset =
      toOpt (fun r => (r.qi, r.outflow, r.storage))
        (StorageRouting.calcOutflow inflow lateral bias prevQi prevOutflow prevStorage netEvapRate area deadStorage duration
          routingPower routingConstant qlimit klimit koffset) := by
  unfold storageRouting.calcOutflow StorageRouting.calcOutflow
  have hf : storageRouting.calcOutflow_evaluateRoutingMassBalance inflow lateral bias prevStorage netEvapRate area deadStorage duration
        routingPower routingConstant qlimit klimit koffset (Num.gmax 0.0 prevStorage / duration + inflow) = _ :=
    funext (gen_eq_StorageRouting_massBalance inflow lateral bias prevStorage netEvapRate area deadStorage duration
        routingPower routingConstant qlimit klimit koffset)
  have hs : storageRouting.calcOutflow_slopeOfMassBalance bias duration routingPower routingConstant qlimit klimit = _ :=
    funext (gen_eq_StorageRouting_slope inflow lateral bias prevStorage netEvapRate area deadStorage duration
        routingPower routingConstant qlimit klimit koffset)
  simp only [gen_eq_StorageRouting_evaluateRouting, hf, hs, findRootArg_eq]
  have hz : storageRouting.zeroOutflowStorage inflow lateral (Num.gmax 0.0 prevStorage / duration + inflow) prevStorage area
      netEvapRate duration = StorageRouting.newStorage (StorageRouting.mkCtx inflow lateral bias prevStorage netEvapRate area
        deadStorage duration routingPower routingConstant qlimit klimit koffset) := rfl
  rw [hz]
  simp only [solve_eq, StorageRouting.maxQI, StorageRouting.netEvaporationFlux,
    StorageRouting.massBalanceLimit, StorageRouting.convergenceLimit, ge_iff_le]
  generalize hc : StorageRouting.mkCtx inflow lateral bias prevStorage netEvapRate area deadStorage duration
          routingPower routingConstant qlimit klimit koffset = c
  have e1 : c.initialFluxMax = Num.gmax 0.0 prevStorage / duration + inflow := by subst hc; rfl
  have e2 : c.area = area := by subst hc; rfl
  have e3 : c.netEvapRate = netEvapRate := by subst hc; rfl
  have e4 : c.lateral = lateral := by subst hc; rfl
  have e5 : c.bias = bias := by subst hc; rfl
  have e6 : c.storage = prevStorage := by subst hc; rfl
  have e7 : c.inflow = inflow := by subst hc; rfl
  have e8 : c.duration = duration := by subst hc; rfl
  simp only [e1, e2, e3, e4, e5, e6, e7, e8]
  clear hf hs hz hc e1 e2 e3 e4 e5 e6 e7 e8
  split
  · rfl
  · cases h0 : StorageRouting.runRouting c (bias * (inflow + lateral)) with
    | error e => rfl
    | ok r0 =>
      simp only [toOpt]
      split
      · rfl
      · split
        · rfl
        · split
          · rfl
          · rename_i hmx
            revert hmx
            generalize bias * (inflow + lateral) + (1.0 - bias) * Num.gmax 0.0 (Num.gmax 0.0 prevStorage / duration + inflow -
                Num.gmin (Num.gmax 0.0 prevStorage / duration + inflow) (area * netEvapRate) + lateral) = mx
            intro hmx
            cases h1 : StorageRouting.runRouting c mx with
            | error e => rfl
            | ok r1 =>
              dsimp only
              split
              · rfl
              · generalize hqi : (if (decide (prevQi ≤ bias * (inflow + lateral)) || decide (mx ≤ prevQi)) = true then
                    (bias * (inflow + lateral) + mx) * 0.5 else prevQi) = qi
                cases h2 : StorageRouting.runRouting c qi with
                | error e => rfl
                | ok r2 =>
                  dsimp only
                  split
                  · rfl
                  · cases h3 : Fn.findRoot (StorageRouting.massBalanceFn c) (some (StorageRouting.slopeOfMassBalance c))
                        (bias * (inflow + lateral)) (bias * (inflow + lateral)) mx 1e-3 0.0 StorageRouting.maxIterations with
                    | error e => rfl
                    | ok fr =>
                      dsimp only
                      by_cases hany : fr.evals.any (evalPanics c) = true
                      · simp only [hany, ↓reduceIte]
                      · simp only [hany, Bool.false_eq_true, ↓reduceIte]
                        by_cases hnan : Num.isNaN fr.delta = true
                        · simp only [hnan, ↓reduceIte]
                        · simp only [hnan, Bool.false_eq_true, ↓reduceIte]
                          cases h4 : StorageRouting.runRouting c fr.x with
                          | error e => rfl
                          | ok r4 =>
                            dsimp only
                            rw [runRouting_ok_notNaN c fr.x r4 h4]
                            rfl

end CalcOutflow

/-- the end of one iteration, for any result of `calcOutflow` -/
theorem step_tail {α} [Num α] (r : Except String (StorageRouting.CO α)) (inflow : α) (z : StorageRouting.Out α) :
    (match toOpt (fun r => (r.qi, r.outflow, r.storage)) r with
     | none => none
     | some call => some ((call.2.2, inflow, call.2.1, call.1), (call.2.1, call.2.2))) =
    (match (match r with
        | .error e => ((.error e : Except String (StorageRouting.St α)), z)
        | .ok r => (.ok ⟨r.qi, r.outflow, r.storage, inflow⟩, ⟨r.outflow, r.storage, r.tag⟩)) with
     | (.ok st', o) => some ((st'.storage, st'.inflow, st'.outflow, st'.qi), (o.outflow, o.storage))
     | (.error _, _) => none) := by
  cases r <;> rfl

/-- `storageRouting` (models/routing/storage_routing.go). Before the loop the code assigns the parameters `bias` and `x` and
computes `Klimit`, `Qlimit`, `Koffset` from the parameters alone (`StorageRouting.setup`; these statements are rendered at the top
of the regenerated `step`, whatever their form in the source); the loop starts from `storage = s`, `inflow = outflow = qi = 0`
(`qi` is a hidden state); one iteration is `StorageRouting.step` (`none` = a Go panic = `.error` of the hand model).
`calcOutflow`, `runRouting`, `zeroOutflowStorage` and the three function literals of `calcOutflow` are translated;
`fn.FindRoot` is NOT: it is the argument `findRootArg` (the hand model `OW.Fn.findRoot` of util/fn/root.go). `LitZero`: the
limits that a branch of the set-up does not assign are the literal `0.0` or the zero value of a variable. -/
theorem gen_eq_StorageRouting {α} [Num α] (hz : LitZero α) (s prevInflow prevOutflow bias k x area deadStorage deltaT : α)
    (st : StorageRouting.St α) (inflow lateral rainfall evap : α) :
    storageRouting.init s prevInflow prevOutflow bias k x area deadStorage deltaT = (s, 0.0, 0.0, 0.0) ∧
    storageRouting.guard s prevInflow prevOutflow bias k x area deadStorage deltaT = false ∧
    storageRouting.step findRootArg s prevInflow prevOutflow bias k x area deadStorage deltaT
          st.storage st.inflow st.outflow st.qi inflow lateral rainfall evap =
        (match StorageRouting.step (StorageRouting.setup bias k x deltaT) k area deadStorage deltaT (.ok st)
            (inflow, lateral, rainfall, evap) with
         | (.ok st', o) => some ((st'.storage, st'.inflow, st'.outflow, st'.qi), (o.outflow, o.storage))
         | (.error _, _) => none) := by
  unfold LitZero at hz
  refine ⟨?_, rfl, ?_⟩
  · unfold storageRouting.init
    tie
  · unfold storageRouting.step StorageRouting.step
    simp only [gen_eq_StorageRouting_calcOutflow]
    try simp only [gen_unfold]
    unfold StorageRouting.setup
    dsimp only
    split_ifs <;> first | exact step_tail _ _ _ | (simp only [← hz]; exact step_tail _ _ _)

end OW.Props.GenTie
