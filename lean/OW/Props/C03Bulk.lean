import OW.Proofs.NdC03Reshape
import OW.Proofs.NdC03Prog
/-!
C03 (bulk operations) — the simulation between a Go-backed array and an array wrapped around caller-owned C memory
(`Rel` of `OW/Props/C03.lean`) extends to every bulk operation, and whole programs over live view pairs give the
same observations on both back-ends without ever leaving the caller's buffer.

Only the property theorems (helpers: `OW/Proofs/NdC03{Rel,Bulk,Reshape,Prog}.lean`). Each proof uses the C02 theorem
of the operation on BOTH sides ("operation of either back-end = the same element-wise definition").

Vocabulary (`OW/Proofs/NdC03Rel.lean`):
* `NdC03.winOf g c` — the two storage windows of a pair; `NdC03.Compat w w'` — `w'` is over the same two storages as
  `w` with the same displacement on both sides, or over other storages on both sides;
* `NdC03.RelHeaps hg hc w n` — the first `n` cells of the two windows agree;
* `NdC03.Paired w hg hc hg' hc'` — `hg', hc'` come from `hg, hc` by the same finite sequence of single-cell writes at
  corresponding addresses of `w` (theorem `paired_preserves`: all compatible related pairs stay related);
* `NdC03.RelW` — `Rel` without the back-end flags (`Rel.toW`), used for SOURCE arrays, which on the C side may be a
  wrapped buffer or a Go temporary.
-/
namespace OW.Props.C03
open OW.Nd OW.NdC03

variable {α : Type}

/-- a result that is not a panic -/
def Succeeds {β : Type} (r : R β) : Prop := ∃ x, r = .ok x

theorem Succeeds.ne_error {β : Type} {r : R β} (h : Succeeds r) (e : String) : r ≠ .error e := by
  obtain ⟨x, rfl⟩ := h; intro hh; cases hh

/-- What a heap-changing bulk operation on the pair `(g, c)` preserves: EVERY related pair whose windows are
compatible with those of `(g, c)` — the pair itself, every other view pair over the same two buffers, every pair over
other buffers — is still related afterwards; compatible window pairs stay cell-wise equal; no storage changes length. -/
structure Preserves (hg hc hg' hc' : Heap α) (g c : Arr) : Prop where
  rel : ∀ g' c', Rel hg hc g' c' → Compat (winOf g c) (winOf g' c') → Rel hg' hc' g' c'
  relW : ∀ g' c', RelW hg hc g' c' → Compat (winOf g c) (winOf g' c') → RelW hg' hc' g' c'
  heaps : ∀ (w' : Win) (n : Int), 0 ≤ w'.gb → 0 ≤ w'.cb → Compat (winOf g c) w' →
    RelHeaps hg hc w' n → RelHeaps hg' hc' w' n
  shapeG : SameShape hg hg'
  shapeC : SameShape hc hc'

/-- **Paired writes preserve the simulation** (`RelHeaps` inheritance): if both heaps are updated by the same
sequence of single-cell writes at corresponding addresses of the windows of a related pair, every compatible pair
stays related. -/
theorem paired_preserves {hg hc hg' hc' : Heap α} {g c : Arr} (r : RelW hg hc g c)
    (pw : Paired (winOf g c) hg hc hg' hc') : Preserves hg hc hg' hc' g c :=
  ⟨fun _ _ r' cp => (pw.relW r.okG.base_nonneg r.okC.base_nonneg r'.toW cp).toRel r'.goBacked r'.cBacked,
   fun _ _ r' cp => pw.relW r.okG.base_nonneg r.okC.base_nonneg r' cp,
   fun _ _ h1 h2 cp rh => pw.relHeaps r.okG.base_nonneg r.okC.base_nonneg h1 h2 cp rh,
   pw.sameShape.1, pw.sameShape.2⟩

/-- a related pair has cell-wise equal windows over the whole allocated shape (all view pairs over the same two
windows inherit it) -/
theorem rel_relHeaps {hg hc : Heap α} {g c : Arr} (r : Rel hg hc g c) :
    RelHeaps hg hc (winOf g c) (product g.v.orig) := r.same

/-! ## B1, B2 — read-only bulk operations -/

/-- **B1 rel_unroll.** `Unroll()` of related arrays never panics and yields the same list of values on both sides —
the row-major element list — whatever the alias / fresh distinction: the C side always returns a fresh copy, the Go
side an alias of its window when the view is contiguous and a fresh copy otherwise. -/
theorem rel_unroll {hg hc : Heap α} {g c : Arr} (r : Rel hg hc g c) :
    ∃ sg sc vals, unroll hg g = .ok sg ∧ unroll hc c = .ok sc ∧
      sliceVals hg sg = .ok vals ∧ sliceVals hc sc = .ok vals ∧
      NdC02.getAll hg g (NdC02.rowMajor g.v.dims) = .ok vals ∧
      NdC02.getAll hc c (NdC02.rowMajor g.v.dims) = .ok vals ∧ vals.length = g.v.size.toNat ∧
      sc = .fresh vals ∧
      (g.v.contiguous = .ok true → sg = .alias g.sid (g.base + g.v.start) g.v.size) ∧
      (g.v.contiguous = .ok false → sg = .fresh vals) := by
  obtain ⟨sg, sc, vals, h1, h2, h3, h4, h5, h6, h7, h8, h9, h10⟩ := r.toW.unroll
  exact ⟨sg, sc, vals, h1, h2, h3, h4, h5, h6, h7, h8 r.cBacked, h9 r.goBacked, h10 r.goBacked⟩

/-- **B2 rel_extremum.** `Maximum()` / `Minimum()` (strict comparison `better`) of related arrays never panic and
agree: both are the same fold over the common row-major element list. -/
theorem rel_extremum {hg hc : Heap α} {g c : Arr} (r : Rel hg hc g c) (better : α → α → Bool) :
    ∃ x, extremum better hg g = .ok x ∧ extremum better hc c = .ok x := by
  obtain ⟨v0, rest, _, _, h1, h2⟩ := r.toW.extremum better
  exact ⟨_, h1, h2⟩

/-! ## B3 — `Apply` -/

/-- **B3 rel_apply.** `Apply(loc, dim, step, vals)` with the same in-bounds run (`SliceOK` of the slice `Apply` takes:
`0 ≤ loc`, `step ≥ 1`, `vals` non-empty, last written index inside the view) on both arrays of a related pair never
panics on either side — the Go side may take the block-copy fast path, the C side always loops — and the two new
heaps come from the old ones by the same writes at corresponding addresses: the pair and every compatible related
pair stay related. -/
theorem rel_apply {hg hc : Heap α} {g c : Arr} (r : Rel hg hc g c) {loc : Idx} {dim step : Int} {vals : List α}
    (h0 : 0 ≤ dim) (h1 : dim < g.v.dims.length)
    (hok : SliceOK g.v.dims loc (NdC02.applyDims g dim vals.length) (NdC02.applySteps g dim step)) :
    ∃ hg' hc', apply hg g loc dim step vals = .ok hg' ∧ apply hc c loc dim step vals = .ok hc' ∧
      Rel hg' hc' g c ∧ Paired (winOf g c) hg hc hg' hc' ∧ Preserves hg hc hg' hc' g c := by
  obtain ⟨hg', hc', e1, e2, pw⟩ := r.toW.apply h0 h1 hok
  have p := paired_preserves r.toW pw
  exact ⟨hg', hc', e1, e2, p.rel g c r (Compat.refl _), pw, p⟩

/-! ## B4 — `ApplySlice`, `CopyFrom` -/

/-- **B4 rel_applySlice.** `ApplySlice(loc, step, src)` on a related destination pair `(gd, cd)` with a related
source pair `(gs, cs)`, an in-bounds request, and **source and destination in different storages on each side**
(`gs.sid ≠ gd.sid`, `cs.sid ≠ cd.sid`; the overlapping case is the known finding KF-C03-overlap — there the Go fast
path is a `memmove` and the C loop a forward element copy, see the counter-example below): never panics on either
side, on any path (Go `copy` of unrolled slices / Go element loop / C element loop), and afterwards the destination
pair is still related, the source pair is still related, and so is every compatible related pair. -/
theorem rel_applySlice {hg hc : Heap α} {gd cd gs cs : Arr} (rd : Rel hg hc gd cd) (rs : RelW hg hc gs cs)
    (hsidG : gs.sid ≠ gd.sid) (hsidC : cs.sid ≠ cd.sid) {loc : Idx} {step : Option Idx}
    (okS : SliceOK gd.v.dims loc gs.v.dims (stepOr gd.v.dims.length step)) :
    ∃ hg' hc', applySlice hg gd loc step gs = .ok hg' ∧ applySlice hc cd loc step cs = .ok hc' ∧
      Rel hg' hc' gd cd ∧ RelW hg' hc' gs cs ∧ Paired (winOf gd cd) hg hc hg' hc' ∧
      Preserves hg hc hg' hc' gd cd := by
  obtain ⟨hg', hc', e1, e2, pw⟩ := RelW.applySlice rd.toW rs hsidG hsidC okS
  have p := paired_preserves rd.toW pw
  exact ⟨hg', hc', e1, e2, p.rel gd cd rd (Compat.refl _), p.relW gs cs rs (Compat.of_ne hsidG hsidC), pw, p⟩

/-- **B4 rel_copyFrom.** `CopyFrom(other)` for related pairs of the same shape in different storages on each side:
as `rel_applySlice`. -/
theorem rel_copyFrom {hg hc : Heap α} {gd cd gs cs : Arr} (rd : Rel hg hc gd cd) (rs : RelW hg hc gs cs)
    (hsidG : gs.sid ≠ gd.sid) (hsidC : cs.sid ≠ cd.sid) (hshape : gs.v.dims = gd.v.dims) :
    ∃ hg' hc', copyFrom hg gd gs = .ok hg' ∧ copyFrom hc cd cs = .ok hc' ∧
      Rel hg' hc' gd cd ∧ RelW hg' hc' gs cs ∧ Paired (winOf gd cd) hg hc hg' hc' ∧
      Preserves hg hc hg' hc' gd cd := by
  obtain ⟨hg', hc', e1, e2, pw⟩ := RelW.copyFrom rd.toW rs hsidG hsidC hshape
  have p := paired_preserves rd.toW pw
  exact ⟨hg', hc', e1, e2, p.rel gd cd rd (Compat.refl _), p.relW gs cs rs (Compat.of_ne hsidG hsidC), pw, p⟩

/-! ## B5 — whole-array helpers (`Scale`, `AddTo`, `ApplyFunc1`: `zipWithInto f`) -/

/-- **B5 rel_zipWithInto.** `dest[k] = f dest[k] source[k]` (data/arrayops.go, including the write-back
`storeUnrolled` through a flat reshaped view, which is what makes the result reach C memory) on a related destination
pair and a related source pair of the same shape in different storages on each side: for EVERY contiguity combination
(the theorem does not mention contiguity: the Go side may alias both unrolled slices, the C side computes on copies
and writes back through `ReshapeFast` + `Apply`) neither side panics, both results are the sequential `Set` of the
SAME values `f dest_k source_k` over the row-major indices, and destination pair, source pair and every compatible
related pair stay related. -/
theorem rel_zipWithInto {hg hc : Heap α} {gd cd gs cs : Arr} (rd : Rel hg hc gd cd) (rs : RelW hg hc gs cs)
    (f : α → α → α) (hsidG : gd.sid ≠ gs.sid) (hsidC : cd.sid ≠ cs.sid) (hdims : gs.v.dims = gd.v.dims) :
    ∃ hg' hc' dv sv, zipWithInto f hg gd gs = .ok hg' ∧ zipWithInto f hc cd cs = .ok hc' ∧
      NdC02.getAll hg gd (NdC02.rowMajor gd.v.dims) = .ok dv ∧ NdC02.getAll hg gs (NdC02.rowMajor gd.v.dims) = .ok sv ∧
      NdC02.setAll hg gd (NdC02.rowMajor gd.v.dims) (List.zipWith f dv sv) = .ok hg' ∧
      NdC02.setAll hc cd (NdC02.rowMajor gd.v.dims) (List.zipWith f dv sv) = .ok hc' ∧
      Rel hg' hc' gd cd ∧ RelW hg' hc' gs cs ∧ Paired (winOf gd cd) hg hc hg' hc' ∧
      Preserves hg hc hg' hc' gd cd := by
  obtain ⟨hg', hc', dv, sv, e1, e2, e3, e4, e5, e6, pw⟩ := RelW.zipWithInto rd.toW rs f hsidG hsidC hdims
  have p := paired_preserves rd.toW pw
  exact ⟨hg', hc', dv, sv, e1, e2, e3, e4, e5, e6, p.rel gd cd rd (Compat.refl _),
    p.relW gs cs rs (Compat.of_ne (fun e => hsidG e.symm) (fun e => hsidC e.symm)), pw, p⟩

/-! ## B6 — `Reshape`, `ReshapeFast`, `MustReshape` -/

/-- **B6 rel_reshape_outcome.** The outcome class of `Reshape(newShape)` is the same on both sides of a related
pair: a size mismatch returns the error value `"size-mismatch"` on both (heaps untouched); an empty new shape of the
right size (a single-element view) panics alike on both (`Offsets` of an empty shape); every other request succeeds
on both. -/
theorem rel_reshape_outcome {hg hc : Heap α} {g c : Arr} (r : Rel hg hc g c) (s : Idx) :
    (product s ≠ g.v.size → reshape hg g s = .ok (hg, .inl "size-mismatch") ∧
      reshape hc c s = .ok (hc, .inl "size-mismatch")) ∧
    (product s = g.v.size → s = [] → reshape hg g s = .error "index-out-of-range" ∧
      reshape hc c s = .error "index-out-of-range") ∧
    (product s = g.v.size → s ≠ [] → ∃ hg' hc' bg bc, reshape hg g s = .ok (hg', .inr bg) ∧
      reshape hc c s = .ok (hc', .inr bc)) :=
  reshape_outcome r s

/-- **B6 rel_reshape.** `Reshape(newShape)` of a related pair to a non-empty shape with extents ≥ 1 and the right
element count succeeds on both sides, the old pair stays related, and the two results hold the SAME elements in the
same row-major order (`getAll … (rowMajor newShape)` equal, and equal to the row-major elements of the operands).
* Contiguous view: no heap changes; the Go result is `NdC02.aliasArr g s` (Go slice re-based to `base + Start`, root
  view from 0) and the C result is `NdC02.cAliasArr c s` (same pointer, root view whose `Start` is the view's
  `Start`). The C result is NOT `Reach` in the frozen vocabulary (root views there start at 0), so the pair is not a
  `Rel` pair; what holds instead: both address the windows `base + Start + [0, Π s)` of the original storages, which
  are cell-wise equal (`RelHeaps`), and writes through the two results are paired writes of the original pair
  (`rel_reshape_write`).
* Non-contiguous view: BOTH results are fresh Go-backed copies (`NdC02.freshArr`, new storages holding the row-major
  elements) and form a related pair (`RelW`: the C-side result is Go-backed, so `Rel`'s flag `cBacked` is false). -/
theorem rel_reshape {hg hc : Heap α} {g c : Arr} (r : Rel hg hc g c) {s : Idx}
    (hsz : product s = g.v.size) (hs : s ≠ []) (hp : Pos s) :
    ∃ hg' hc' bg bc vals, reshape hg g s = .ok (hg', .inr bg) ∧ reshape hc c s = .ok (hc', .inr bc) ∧
      NdC02.getAll hg g (NdC02.rowMajor g.v.dims) = .ok vals ∧ NdC02.getAll hc c (NdC02.rowMajor g.v.dims) = .ok vals ∧
      NdC02.getAll hg' bg (NdC02.rowMajor s) = .ok vals ∧ NdC02.getAll hc' bc (NdC02.rowMajor s) = .ok vals ∧
      Rel hg' hc' g c ∧
      (g.v.contiguous = .ok true → hg' = hg ∧ hc' = hc ∧ bg = NdC02.aliasArr g s ∧ bc = NdC02.cAliasArr c s ∧
        RelHeaps hg hc ⟨g.sid, g.base + g.v.start, c.sid, c.base + g.v.start⟩ (product s)) ∧
      (g.v.contiguous = .ok false → hg' = hg ++ [vals] ∧ hc' = hc ++ [vals] ∧
        bg = NdC02.freshArr hg vals s ∧ bc = NdC02.freshArr hc vals s ∧ bc.isC = false ∧ RelW hg' hc' bg bc) := by
  obtain ⟨hg', hc', bg, bc, vals, h1, h2, h3, h4, h5, h6, h7, h8, h9⟩ := reshape_pair r hsz hs hp
  refine ⟨hg', hc', bg, bc, vals, h1, h2, h3, h4, h5, h6, h7, h8, fun hc' => ?_⟩
  obtain ⟨a, b, c1, d, e⟩ := h9 hc'
  exact ⟨a, b, c1, d, by rw [d]; rfl, e⟩

/-- **B6 rel_reshape_write.** For a contiguous view, a `Set` of the same value at the same in-bounds index through
the two reshaped arrays (Go: `aliasArr`, C: `cAliasArr`) never panics and is ONE paired write of the original pair:
all views of the original pair, and every compatible pair, see it alike. -/
theorem rel_reshape_write {hg hc : Heap α} {g c : Arr} (r : Rel hg hc g c) (hcg : g.v.contiguous = .ok true)
    {s : Idx} (hs : s ≠ []) (hp : Pos s) (hsz : product s = g.v.size) {idx : Idx} (hi : InBounds idx s) (x : α) :
    ∃ hg' hc', set hg (NdC02.aliasArr g s) idx x = .ok hg' ∧ set hc (NdC02.cAliasArr c s) idx x = .ok hc' ∧
      Rel hg' hc' g c ∧ Preserves hg hc hg' hc' g c := by
  obtain ⟨hg', hc', e1, e2, pw⟩ := set_alias_pair r hcg hs hp hsz hi x
  have p := paired_preserves r.toW pw
  exact ⟨hg', hc', e1, e2, p.rel g c r (Compat.refl _), p⟩

/-- **B6 rel_reshapeFast.** `ReshapeFast` returns the error `"not-contiguous"` on both sides of a related pair or on
neither (contiguity is a function of the common metadata), and otherwise is `Reshape` on both sides. -/
theorem rel_reshapeFast {hg hc : Heap α} {g c : Arr} (r : Rel hg hc g c) (s : Idx) :
    (g.v.contiguous = .ok false → reshapeFast hg g s = .ok (hg, .inl "not-contiguous") ∧
      reshapeFast hc c s = .ok (hc, .inl "not-contiguous")) ∧
    (g.v.contiguous = .ok true → reshapeFast hg g s = reshape hg g s ∧ reshapeFast hc c s = reshape hc c s) := by
  constructor
  · intro h
    exact ⟨NdC02.reshapeFast_noncontig s h, NdC02.reshapeFast_noncontig s (by rw [← r.view]; exact h)⟩
  · intro h
    exact ⟨NdC02.reshapeFast_contig s h, NdC02.reshapeFast_contig s (by rw [← r.view]; exact h)⟩

/-- **B6 rel_mustReshape.** `MustReshape` panics with `"size-mismatch"` on both sides or on neither, and otherwise
returns the results of `Reshape` on both sides. -/
theorem rel_mustReshape {hg hc : Heap α} {g c : Arr} (r : Rel hg hc g c) (s : Idx) :
    (product s ≠ g.v.size → mustReshape hg g s = .error "size-mismatch" ∧
      mustReshape hc c s = .error "size-mismatch") ∧
    (product s = g.v.size → s ≠ [] → ∃ hg' hc' bg bc, reshape hg g s = .ok (hg', .inr bg) ∧
      reshape hc c s = .ok (hc', .inr bc) ∧ mustReshape hg g s = .ok (hg', bg) ∧ mustReshape hc c s = .ok (hc', bc)) := by
  obtain ⟨h1, _, h3⟩ := reshape_outcome r s
  constructor
  · intro hne
    obtain ⟨e1, e2⟩ := h1 hne
    exact ⟨(C02.mustReshape_spec hg g s).2 _ _ e1, (C02.mustReshape_spec hc c s).2 _ _ e2⟩
  · intro hsz hs
    obtain ⟨hg', hc', bg, bc, e1, e2⟩ := h3 hsz hs
    exact ⟨hg', hc', bg, bc, e1, e2, (C02.mustReshape_spec hg g s).1 _ _ e1, (C02.mustReshape_spec hc c s).1 _ _ e2⟩

/-! ## memory safety of the C back-end, operation by operation -/

/-- **c_never_oob.** For a view reachable by in-bounds slicing of a root wrapped around a caller's buffer that holds
the allocated shape (`ArrOK`), none of `Get`, `Set`, `Apply`, `Unroll`, `Maximum/Minimum`, `ApplySlice` /
`CopyFrom` into it or from it, `zipWithInto` into it or from it, can leave the caller's buffer under the in-bounds
hypotheses: each returns `.ok`, in particular never the model's out-of-buffer verdict `.error "oob-c"`. -/
theorem c_never_oob {h : Heap α} {a : Arr} (_hC : a.isC = true) (hr : Reach a.v) (ok : ArrOK h a) :
    (∀ i, InBounds i a.v.dims → Succeeds (get h a i)) ∧
    (∀ i x, InBounds i a.v.dims → Succeeds (set h a i x)) ∧
    (∀ (loc : Idx) (dim step : Int) (vals : List α), 0 ≤ dim → dim < a.v.dims.length →
      SliceOK a.v.dims loc (NdC02.applyDims a dim vals.length) (NdC02.applySteps a dim step) →
      Succeeds (apply h a loc dim step vals)) ∧
    Succeeds (unroll h a) ∧
    (∀ better, Succeeds (extremum better h a)) ∧
    (∀ (b : Arr) loc step, Reach b.v → ArrOK h b → b.sid ≠ a.sid →
      (SliceOK a.v.dims loc b.v.dims (stepOr a.v.dims.length step) → Succeeds (applySlice h a loc step b)) ∧
      (SliceOK b.v.dims loc a.v.dims (stepOr b.v.dims.length step) → Succeeds (applySlice h b loc step a))) ∧
    (∀ (f : α → α → α) (b : Arr), Reach b.v → ArrOK h b → b.sid ≠ a.sid → b.v.dims = a.v.dims →
      Succeeds (zipWithInto f h a b) ∧ Succeeds (zipWithInto f h b a) ∧
      Succeeds (copyFrom h a b) ∧ Succeeds (copyFrom h b a)) := by
  refine ⟨fun i hi => ?_, fun i x hi => ?_, fun loc dim step vals h0 h1 hok => ?_, ?_, fun better => ?_,
    fun b loc step hrb okb hne => ⟨fun okS => ?_, fun okS => ?_⟩, fun f b hrb okb hne hd => ⟨?_, ?_, ?_, ?_⟩⟩
  · obtain ⟨_, x, _, _, _, _, hg⟩ := get_eq hr ok hi
    exact ⟨x, hg⟩
  · obtain ⟨_, _, _, _, hs⟩ := set_eq hr ok hi x
    exact ⟨_, hs⟩
  · obtain ⟨start, hl, he⟩ := apply_eq_setAll (h := h) hr ok h0 h1 hok
    have hib := runIdxs_inBounds h0 h1 hl hok vals.length 0 (by omega)
    obtain ⟨h', e, _⟩ := NdC02.setAll_arrOK (reach_geo hr) (b := a) _ vals h ok ok hib
    exact ⟨h', by rw [he]; exact e⟩
  · obtain ⟨sl, _, hu, _⟩ := C02.unroll_spec h a hr ok
    exact ⟨sl, hu⟩
  · obtain ⟨_, _, _, he⟩ := C02.extremum_spec better h a hr ok
    exact ⟨_, he⟩
  · obtain ⟨_, _, h', _, _, _, _, e, _⟩ := C02.applySlice_paths_agree h a b hr ok hrb okb hne loc step okS
    exact ⟨h', e⟩
  · obtain ⟨_, _, h', _, _, _, _, e, _⟩ :=
      C02.applySlice_paths_agree h b a hrb okb hr ok (fun e => hne e.symm) loc step okS
    exact ⟨h', e⟩
  · obtain ⟨_, _, h', _, _, e, _⟩ := C02.zipWithInto_spec f h a b hr hrb ok okb hd (fun e => hne e.symm)
    exact ⟨h', e⟩
  · obtain ⟨_, _, h', _, _, e, _⟩ := C02.zipWithInto_spec f h b a hrb hr okb ok hd.symm hne
    exact ⟨h', e⟩
  · obtain ⟨_, h', _, e, _⟩ := C02.copyFrom_spec h a b hr ok hrb okb hne hd
    exact ⟨h', e⟩
  · obtain ⟨_, h', _, e, _⟩ := C02.copyFrom_spec h b a hrb okb hr ok (fun e => hne e.symm) hd.symm
    exact ⟨h', e⟩

/-! ## B7 — whole programs -/

/-- **B7 observational_equivalence_partial.** Programs over the fragment
`slice / get / set / apply / applySlice / copyFrom / unroll / contiguous / extremum / zipWithInto / reshape /
reshapeFast` (`NdC03.Op`; operands are indices into the list of live arrays; `slice` and a successful `reshape`
append their result; a returned error value is an observation), interpreted by the same interpreter `NdC03.run` on a
Go-side state and a C-side state in lock step (`NdC03.World`: live arrays pairwise related, pairwise over compatible
windows). If every request is in the domain of the C01/C02 theorems when it is issued (`NdC03.ProgOK` / `NdC03.OpOK`:
in-bounds indices / slices / runs, two-array operations on different storages, equal shapes where the Go code needs
them, reshape requests as below), then BOTH runs complete, return the SAME observation list (element values,
unrolled value lists, contiguity verdicts, extrema, reshape errors), and end in lock step again; in particular the
C-side run never produces the out-of-buffer verdict `oob-c` — no read or write of any operation of the program leaves
a caller's buffer (the run aborts at the first panic, so `.ok` means no operation panicked).

Reshape requests of the fragment: size mismatch (error value on both sides); `reshapeFast` of a non-contiguous view
(error value on both sides); a shape of the right size (non-empty, extents ≥ 1) for a NON-CONTIGUOUS view (both sides
return fresh Go-backed copies, which join the live pairs) or for a contiguous view that STARTS AT ADDRESS 0 (a whole
root or a leading block of it: both results alias the operands and are a related pair again).

`_partial`: **a successful `Reshape` of a contiguous view with `Start > 0` is not in the fragment.** Missing for
the full statement: its C-side result is a root view with non-zero `Start` over the same pointer, which is not `Reach`
(the frozen C01/C02 theorems quantify over `Reach` views), so that pair cannot be fed back into the bulk theorems;
its one-step behaviour is `rel_reshape` / `rel_reshape_write`. Full statement (not proved): the same conclusion with
`OpOK (.reshape i s)` weakened to `product s ≠ size ∨ (product s = size ∧ s ≠ [] ∧ Pos s)`. -/
theorem observational_equivalence_partial {sg sc : St α} (w : World sg sc) (prog : List (Op α))
    (ok : ProgOK sg prog) :
    ∃ sg' sc' obs, run sg prog = .ok (sg', obs) ∧ run sc prog = .ok (sc', obs) ∧ World sg' sc' ∧
      run sc prog ≠ .error "oob-c" := by
  obtain ⟨sg', sc', obs, h1, h2, w'⟩ := run_sim prog w ok
  exact ⟨sg', sc', obs, h1, h2, w', by rw [h2]; intro e; cases e⟩

/-- **B7 (initial states).** Wrapping the same buffers `bufs[0], bufs[1], …` with shapes that fit them
(`NdC03.ShapesOK`) once as Go slices (`fromStore`) and once as caller-owned C memory (`fromC`) gives two states in
lock step; each live pair is a `Rel` pair (this is `rel_roots`, for any number of buffers). -/
theorem world_of_roots (bufs : Heap α) (shapes : List Idx) (ok : ShapesOK bufs shapes) :
    World ⟨bufs, rootArrs bufs false shapes⟩ ⟨bufs, rootArrs bufs true shapes⟩ ∧
    ∀ i d, shapes[i]? = some d →
      fromStore bufs i d = .ok (rootArr bufs false i d) ∧ fromC bufs i d = .ok (rootArr bufs true i d) ∧
      (rootArrs bufs false shapes)[i]? = some (rootArr bufs false i d) ∧
      (rootArrs bufs true shapes)[i]? = some (rootArr bufs true i d) ∧
      Rel bufs bufs (rootArr bufs false i d) (rootArr bufs true i d) := by
  have w := world_roots bufs shapes ok
  refine ⟨w, fun i d hd => ?_⟩
  obtain ⟨e1, e2, _⟩ := rootArr_spec ok hd
  have g1 : (rootArrs bufs false shapes)[i]? = some (rootArr bufs false i d) := by simp [rootArrs_getElem?, hd]
  have g2 : (rootArrs bufs true shapes)[i]? = some (rootArr bufs true i d) := by simp [rootArrs_getElem?, hd]
  exact ⟨e1, e2, g1, g2, (w.rel i _ _ g1 g2).toRel rfl rfl⟩

/-- **B7 observational_equivalence_roots_partial.** The end-to-end form: any in-domain program of the fragment run
on Go-allocated arrays and on arrays wrapped around caller-owned C memory of the same shapes and contents returns
the same observations, and the C-side run never leaves the callers' buffers. (`_partial`: the fragment lacks the
successful `Reshape` of contiguous views with `Start > 0`, see `observational_equivalence_partial`.) -/
theorem observational_equivalence_roots_partial (bufs : Heap α) (shapes : List Idx) (ok : ShapesOK bufs shapes)
    (prog : List (Op α)) (pok : ProgOK ⟨bufs, rootArrs bufs false shapes⟩ prog) :
    ∃ sg' sc' obs, run ⟨bufs, rootArrs bufs false shapes⟩ prog = .ok (sg', obs) ∧
      run ⟨bufs, rootArrs bufs true shapes⟩ prog = .ok (sc', obs) ∧ World sg' sc' ∧
      run ⟨bufs, rootArrs bufs true shapes⟩ prog ≠ .error "oob-c" :=
  observational_equivalence_partial (world_of_roots bufs shapes ok).1 prog pok

/-! ## Non-vacuity: concrete buffers, both back-ends -/
namespace Ex

/-- buffer 0: a 3×4 array `0..11`; buffer 1: a 3×2 array `100..600` -/
def bufs : Heap Int := [[0, 1, 2, 3, 4, 5, 6, 7, 8, 9, 10, 11], [100, 200, 300, 400, 500, 600]]
def shapes : List Idx := [[3, 4], [3, 2]]

theorem shapesOK : ShapesOK bufs shapes := by
  intro i d hd
  match i, hd with
  | 0, hd =>
    simp only [shapes, List.getElem?_cons_zero, Option.some.injEq] at hd
    subst hd
    exact ⟨by decide, by intro x hx; simp at hx; omega, by decide, _, rfl, by decide⟩
  | 1, hd =>
    simp only [shapes, List.getElem?_cons_succ, List.getElem?_cons_zero, Option.some.injEq] at hd
    subst hd
    exact ⟨by decide, by intro x hx; simp at hx; omega, by decide, _, rfl, by decide⟩
  | n + 2, hd => simp [shapes] at hd

/-- the Go-side and the C-side initial states: the same two buffers wrapped as Go slices / as C memory -/
def sg0 : St Int := ⟨bufs, rootArrs bufs false shapes⟩
def sc0 : St Int := ⟨bufs, rootArrs bufs true shapes⟩

/-- the live arrays: the two roots (Go side / C side) and the gapped view `[0:3, 1:3]` of the 3×4 root -/
def g0 : Arr := rootArr bufs false 0 [3, 4]
def c0 : Arr := rootArr bufs true 0 [3, 4]
def g1 : Arr := rootArr bufs false 1 [3, 2]
def c1 : Arr := rootArr bufs true 1 [3, 2]
def g2 : Arr := { g0 with v := sliceView g0.v [0, 1] [3, 2] none }
def c2 : Arr := { c0 with v := sliceView c0.v [0, 1] [3, 2] none }

theorem rel0 : Rel bufs bufs g0 c0 := ((world_of_roots bufs shapes shapesOK).2 0 _ rfl).2.2.2.2
theorem rel1 : Rel bufs bufs g1 c1 := ((world_of_roots bufs shapes shapesOK).2 1 _ rfl).2.2.2.2
theorem rel2 : Rel bufs bufs g2 c2 := by
  obtain ⟨g', c', h1, h2, r, _⟩ := rel0.toW.slice (loc := [0, 1]) (dims := [3, 2]) (step := none)
    (by simp [g0, rootArr, rootView, SliceOK, stepOr, uniform])
  have e1 : slice g0 [0, 1] [3, 2] none = .ok g2 := by decide
  have e2 : slice c0 [0, 1] [3, 2] none = .ok c2 := by decide
  rw [e1] at h1; rw [e2] at h2
  injection h1 with h1; injection h2 with h2
  subst h1; subst h2
  exact r.toRel rfl rfl

/-- a program touching every operation of the fragment -/
def prog : List (Op Int) :=
  [ .slice 0 [0, 1] [3, 2] none,                 -- arrs[2] := the gapped view of the 3×4 root
    .get 2 [1, 1],
    .unroll 2,
    .copyFrom 2 1,                               -- the 3×2 root into the gapped view
    .unroll 0,
    .apply 0 [1, 1] 1 1 [70, 71, 72],            -- a row segment (Go: block copy; C: element loop)
    .zipWithInto (· + ·) 1 2,                    -- add the gapped view to the 3×2 root
    .unroll 1,
    .extremum (fun v r => decide (v > r)) 2,
    .contiguous 2, .contiguous 1,
    .set 1 [2, 1] 5,
    .applySlice 0 1 [0, 2] none,
    .unroll 0,
    .reshape 0 [2, 6],                           -- arrs[3] := whole root reshaped (alias on both sides)
    .reshape 2 [6],                              -- arrs[4] := gapped view flattened (fresh Go-backed copy on both sides)
    .reshape 1 [5],                              -- size mismatch: error value
    .reshapeFast 2 [6],                          -- not contiguous: error value
    .set 3 [1, 2] 99,                            -- a write through the reshaped pair …
    .get 0 [2, 0],                               -- … is seen through the root pair
    .unroll 4 ]

/-- what the caller sees -/
def expected : List (Obs Int) :=
  [.unit, .val 6, .vals [1, 2, 5, 6, 9, 10], .unit, .vals [0, 100, 200, 3, 4, 300, 400, 7, 8, 500, 600, 11], .unit, .unit,
   .vals [200, 400, 370, 471, 1000, 1200], .val 600, .flag false, .flag true, .unit, .unit,
   .vals [0, 100, 200, 400, 4, 70, 370, 471, 8, 500, 1000, 5],
   .unit, .unit, .err "size-mismatch", .err "not-contiguous", .unit, .val 99, .vals [100, 200, 70, 370, 500, 1000]]

/-- the Go-side results of the two successful reshapes: the re-based whole root, the fresh copy on storage 2 -/
def g3 : Arr := ⟨rootView [2, 6] 0, 0, 0, 12, false⟩
def g4 : Arr := ⟨rootView [6] 0, 2, 0, 6, false⟩

-- B7 evaluated: both back-ends return the same observations (the model is executable)
example : (run sg0 prog).map (·.2) = .ok expected ∧ (run sc0 prog).map (·.2) = .ok expected := by decide

/-- the program is in the domain of the theorem -/
theorem progOK : ProgOK sg0 prog := by
  refine progOK_cons ⟨g0, by decide, by simp [g0, rootArr, rootView, SliceOK, stepOr, uniform]⟩ ?_
  refine progOK_cons ⟨g2, by decide, by simp [g2, g0, rootArr, rootView, sliceView, InBounds]⟩ ?_
  refine progOK_cons ⟨g2, by decide⟩ ?_
  refine progOK_cons ⟨g2, g1, by decide, by decide, by decide, by decide⟩ ?_
  refine progOK_cons ⟨g0, by decide⟩ ?_
  refine progOK_cons ⟨g0, by decide, by decide, by decide,
    by simp [g0, rootArr, rootView, NdC02.applyDims, NdC02.applySteps, uniform, SliceOK]⟩ ?_
  refine progOK_cons ⟨g1, g2, by decide, by decide, by decide, by decide⟩ ?_
  refine progOK_cons ⟨g1, by decide⟩ ?_
  refine progOK_cons ⟨g2, by decide⟩ ?_
  refine progOK_cons ⟨g2, by decide⟩ ?_
  refine progOK_cons ⟨g1, by decide⟩ ?_
  refine progOK_cons ⟨g1, by decide, by simp [g1, rootArr, rootView, InBounds]⟩ ?_
  refine progOK_cons ⟨g0, g1, by decide, by decide, by decide,
    by simp [g0, g1, rootArr, rootView, SliceOK, stepOr, uniform]⟩ ?_
  refine progOK_cons ⟨g0, by decide⟩ ?_
  refine progOK_cons ⟨g0, by decide, Or.inr ⟨by decide, by decide, by intro x hx; simp at hx; omega, Or.inr rfl⟩⟩ ?_
  refine progOK_cons ⟨g2, by decide, Or.inr ⟨by decide, by decide, by intro x hx; simp at hx; omega,
    Or.inl (by decide)⟩⟩ ?_
  refine progOK_cons ⟨g1, by decide, Or.inl (by decide)⟩ ?_
  refine progOK_cons ⟨g2, by decide, Or.inl (by decide)⟩ ?_
  refine progOK_cons ⟨g3, by decide, by simp [g3, rootView, InBounds]⟩ ?_
  refine progOK_cons ⟨g0, by decide, by simp [g0, rootArr, rootView, InBounds]⟩ ?_
  refine progOK_cons ⟨g4, by decide⟩ ?_
  trivial

-- B7 instantiated: hypotheses discharged on the concrete program
example := observational_equivalence_roots_partial bufs shapes shapesOK prog progOK

-- B1, B2 on the gapped view: Go gathers (non-contiguous), C copies; same values
example : (unroll bufs g2 >>= sliceVals bufs) = .ok [1, 2, 5, 6, 9, 10] ∧
    (unroll bufs c2 >>= sliceVals bufs) = .ok [1, 2, 5, 6, 9, 10] := by decide
example : unroll bufs g0 = .ok (.alias 0 0 12) ∧
    unroll bufs c0 = .ok (.fresh [0, 1, 2, 3, 4, 5, 6, 7, 8, 9, 10, 11]) := ⟨rfl, rfl⟩
example := rel_unroll rel2
example := rel_extremum rel2 (fun v r => decide (v > r))
example : extremum (fun v r => decide (v < r)) bufs g2 = .ok 1 ∧ extremum (fun v r => decide (v < r)) bufs c2 = .ok 1 := by
  decide

-- B3: a row segment — fast path on the Go side, loop on the C side, same heap
example : apply bufs g0 [1, 1] 1 1 [70, 71, 72] = apply bufs c0 [1, 1] 1 1 [70, 71, 72] := by decide
example := rel_apply rel0 (loc := [1, 1]) (dim := 1) (step := 1) (vals := [70, 71, 72]) (by decide) (by decide)
  (by simp [g0, rootArr, rootView, NdC02.applyDims, NdC02.applySteps, uniform, SliceOK])

-- B4, B5: destination the gapped view of buffer 0, source buffer 1 (different storages)
example := rel_copyFrom rel2 rel1.toW (by decide) (by decide) rfl
example := rel_applySlice rel0 rel1.toW (by decide) (by decide) (loc := [0, 2]) (step := none)
  (by simp [g0, g1, rootArr, rootView, SliceOK, stepOr, uniform])
example := rel_zipWithInto rel2 rel1.toW (· + ·) (by decide) (by decide) rfl
example := rel_zipWithInto rel1 rel2.toW (fun _ s => 2 * s) (by decide) (by decide) rfl
example : zipWithInto (· + ·) bufs g1 g2 = zipWithInto (· + ·) bufs c1 c2 := by decide

-- B6: contiguous root → alias on both sides; gapped view → fresh Go-backed copies on both sides; errors coincide
example : reshape bufs g0 [2, 6] = .ok (bufs, .inr (NdC02.aliasArr g0 [2, 6])) ∧
    reshape bufs c0 [2, 6] = .ok (bufs, .inr (NdC02.cAliasArr c0 [2, 6])) := by decide
example : reshape bufs g2 [6] = .ok (bufs ++ [[1, 2, 5, 6, 9, 10]], .inr (NdC02.freshArr bufs [1, 2, 5, 6, 9, 10] [6])) ∧
    reshape bufs c2 [6] = .ok (bufs ++ [[1, 2, 5, 6, 9, 10]], .inr (NdC02.freshArr bufs [1, 2, 5, 6, 9, 10] [6])) := by
  decide
example : reshape bufs g2 [5] = .ok (bufs, .inl "size-mismatch") ∧ reshape bufs c2 [5] = .ok (bufs, .inl "size-mismatch") ∧
    reshapeFast bufs g2 [6] = .ok (bufs, .inl "not-contiguous") ∧ reshapeFast bufs c2 [6] = .ok (bufs, .inl "not-contiguous") := by
  decide
example := rel_reshape rel2 (s := [6]) (by decide) (by decide) (by intro x hx; simp at hx; omega)
example := rel_reshape rel0 (s := [2, 6]) (by decide) (by decide) (by intro x hx; simp at hx; omega)
example := rel_reshape_write rel0 (by decide) (s := [2, 6]) (by decide) (by intro x hx; simp at hx; omega) (by decide)
  (idx := [1, 2]) (by simp [InBounds]) 99

-- memory safety instantiated on the C-side gapped view
example := c_never_oob (h := bufs) (a := c2) rfl rel2.toW.reachC rel2.okC

/-! ### the divergence excluded by hypothesis (KF-C03-overlap)

`rel_applySlice` / `rel_copyFrom` / `rel_zipWithInto` need source and destination in different storages. On
overlapping views of ONE buffer the two back-ends genuinely differ: `hi = buf[1:4]`, `lo = buf[0:3]`. -/
def buf4 : Heap Int := [[1, 2, 3, 4]]
def r4 (isC : Bool) : Arr := rootArr buf4 isC 0 [4]
def hi (isC : Bool) : Arr := { r4 isC with v := sliceView (r4 isC).v [1] [3] none }
def lo (isC : Bool) : Arr := { r4 isC with v := sliceView (r4 isC).v [0] [3] none }

/-- `hi.CopyFrom(lo)`: Go-backed `copy` has memmove semantics (`1 1 2 3`), the C-backed element loop propagates the
first element (`1 1 1 1`). Both stay inside the buffer. -/
example : copyFrom buf4 (hi false) (lo false) = .ok [[1, 1, 2, 3]] ∧
    copyFrom buf4 (hi true) (lo true) = .ok [[1, 1, 1, 1]] := by decide

/-- `AddTo(hi, lo)`: the Go-backed loop runs on ALIASING unrolled slices and sees its own writes (running sum
`1 3 6 10`), the C-backed one computes on copies of the pre-state and writes back (`1 3 5 7`). -/
example : zipWithInto (· + ·) buf4 (hi false) (lo false) = .ok [[1, 3, 6, 10]] ∧
    zipWithInto (· + ·) buf4 (hi true) (lo true) = .ok [[1, 3, 5, 7]] := by decide

/-- why the in-bounds hypotheses are needed: an index past the last row is a Go panic on the Go-backed array but an
access outside the caller's buffer on the C-backed one (no bounds check there). -/
example : get bufs g0 [3, 0] = .error "index-out-of-range" ∧ get bufs c0 [3, 0] = .error "oob-c" := by decide

end Ex

end OW.Props.C03
