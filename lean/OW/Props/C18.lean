import OW.Proofs.FindRootAudit
import OW.Proofs.Piecewise
/-!
C18 — root finding and piecewise interpolation meet their numerical contracts.

Models: `OW/Util/FindRoot.lean` (`util/fn/root.go`, after fixes/findroot_secant_clamp.diff) and
`OW/Util/Piecewise.lean` (`util/fn/piecewise.go`, after fixes/piecewise_knot.diff), instantiated at `ℝ`
(exact arithmetic). `f` is an ARBITRARY function `ℝ → ℝ`; continuity is never needed (every statement is about
the finitely many points the algorithm touches), monotonicity only where stated.

Ghost components of the result (`evals`, final bracket `b`, `exit`) are not results of the Go function; `evals`
is compared with the real code on every run (the harness logs every callback argument).
-/
namespace OW.Props.C18
open OW OW.Fn OW.Proofs.FindRoot OW.Proofs.Piecewise

/-! ## FindRoot -/

section FindRoot
variable {f : ℝ → ℝ} {f' : Option (ℝ → ℝ)} {x0 lo hi tol conv : ℝ} {n : Nat}

/-- **invalid range.** Without a bracketed root (`f lo > 0` or `f hi < 0`) the Go code panics ("Invalid range") — it never
returns a number. With one it runs the iteration loop (`findRoot_eq`). -/
theorem findRoot_invalid_range (h : 0 < f lo ∨ f hi < 0) :
    findRoot f f' x0 lo hi tol conv n = .error "other" := by
  unfold findRoot
  simp only [RealNum.ofNat_eq, Nat.cast_zero]
  rw [if_pos h]

/-- what holds of every result, with NO hypothesis on the initial guess (`PostB`), and the returned point lies in the
interval as soon as one iteration runs or the guess is in the interval -/
theorem postb (hle : lo ≤ hi) (h1 : f lo ≤ 0) (h2 : 0 ≤ f hi) {r : Res ℝ}
    (hr : findRoot f f' x0 lo hi tol conv n = .ok r) :
    PostB f lo hi tol r ∧ ((1 ≤ n ∨ (lo ≤ x0 ∧ x0 ≤ hi)) → lo ≤ r.x ∧ r.x ≤ hi) := by
  rw [findRoot_eq h1 h2] at hr
  cases hr
  exact iterate_post_b _ _ _ _ _ _ _ (init_binv hle h1 h2) rfl rfl

/-- **bracket_inv (any initial guess).** On every exit, after any number of iterations (also 0) and for ANY initial guess, the bracket
`[min, max]` held by the loop satisfies `min ≤ max`, lies inside the initial interval, `f min ≤ 0 ≤ f max`, and the stored
deltas are the function values at the stored ends. (Inductive over iterations: `iterate_post_b`.) No monotonicity, no
continuity. -/
theorem bracket_inv_any_guess (hle : lo ≤ hi) (h1 : f lo ≤ 0) (h2 : 0 ≤ f hi) {r : Res ℝ}
    (hr : findRoot f f' x0 lo hi tol conv n = .ok r) :
    r.b.minX ≤ r.b.maxX ∧ lo ≤ r.b.minX ∧ r.b.maxX ≤ hi ∧
      r.b.minDelta = f r.b.minX ∧ r.b.maxDelta = f r.b.maxX ∧ f r.b.minX ≤ 0 ∧ 0 ≤ f r.b.maxX := by
  have p := (postb hle h1 h2 hr).1.binv
  exact ⟨p.le, p.lo_le, p.le_hi, p.dmin, p.dmax, p.dmin ▸ p.smin, p.dmax ▸ p.smax⟩

/-- `bracket_inv_any_guess` in the form with a guess in the interval (kept for its users in OW.Props.C11; the hypothesis
on the guess is not needed) -/
theorem bracket_inv (hle : lo ≤ hi) (h1 : f lo ≤ 0) (h2 : 0 ≤ f hi) (_hx0 : lo ≤ x0 ∧ x0 ≤ hi) {r : Res ℝ}
    (hr : findRoot f f' x0 lo hi tol conv n = .ok r) :
    r.b.minX ≤ r.b.maxX ∧ lo ≤ r.b.minX ∧ r.b.maxX ≤ hi ∧
      r.b.minDelta = f r.b.minX ∧ r.b.maxDelta = f r.b.maxX ∧ f r.b.minX ≤ 0 ∧ 0 ≤ f r.b.maxX :=
  bracket_inv_any_guess hle h1 h2 hr

/-- **result_in_interval (general form)**, for ANY function with `f lo ≤ 0 ≤ f hi` (monotone or not): the returned point lies in
`[lo, hi]` — for ANY initial guess when `maxIterations ≥ 1`, and for `maxIterations = 0` when the initial guess lies in
the interval (the result is then the guess itself: `zero_iterations`). -/
theorem result_in_interval_any_guess (hle : lo ≤ hi) (h1 : f lo ≤ 0) (h2 : 0 ≤ f hi)
    (hx0 : 1 ≤ n ∨ (lo ≤ x0 ∧ x0 ≤ hi)) {r : Res ℝ}
    (hr : findRoot f f' x0 lo hi tol conv n = .ok r) : lo ≤ r.x ∧ r.x ≤ hi :=
  (postb hle h1 h2 hr).2 hx0

/-- **result_in_interval** for a guess inside the interval: every iteration count, including 0 -/
theorem result_in_interval (hle : lo ≤ hi) (h1 : f lo ≤ 0) (h2 : 0 ≤ f hi) (hx0 : lo ≤ x0 ∧ x0 ≤ hi) {r : Res ℝ}
    (hr : findRoot f f' x0 lo hi tol conv n = .ok r) : lo ≤ r.x ∧ r.x ≤ hi :=
  result_in_interval_any_guess hle h1 h2 (Or.inr hx0) hr

/-- **result_in_interval** for `maxIterations ≥ 1`: ANY initial guess (also outside the interval, also a non-number in
the code: the guess only enters through its residual, the Newton trial — accepted only strictly inside the bracket —
and the convergence counter) -/
theorem result_in_interval_n1 (hle : lo ≤ hi) (h1 : f lo ≤ 0) (h2 : 0 ≤ f hi) (hn : 1 ≤ n) {r : Res ℝ}
    (hr : findRoot f f' x0 lo hi tol conv n = .ok r) : lo ≤ r.x ∧ r.x ≤ hi :=
  result_in_interval_any_guess hle h1 h2 (Or.inl hn) hr

/-- **result_delta_is_value**, for ANY function with `f lo ≤ 0 ≤ f hi`, any initial guess, any iteration count: the
returned `delta` is the function's value at the returned point. -/
theorem result_delta_is_value (hle : lo ≤ hi) (h1 : f lo ≤ 0) (h2 : 0 ≤ f hi) {r : Res ℝ}
    (hr : findRoot f f' x0 lo hi tol conv n = .ok r) : r.delta = f r.x :=
  (postb hle h1 h2 hr).1.val

/-- **secant point is a genuine quotient** (one iteration). For a non-decreasing `f` and a positive tolerance: whenever
the halving trial of an iteration does not return (so that the secant trial is evaluated at all), the secant denominator
`maxDelta - minDelta` is strictly positive, the unclamped secant point lies in the bracket, and the clamp is the
identity. (The degenerate `0/0` needs `f min = f max = 0`; then `f ≡ 0` on the bracket and the halving trial returns.) -/
theorem secant_genuine (hmono : MonotoneOn f (Set.Icc lo hi)) (htol : 0 < tol) {s s' : Inner ℝ} {x : ℝ}
    (hb : BInv f lo hi s.b) (hstep : trialStep f tol conv x s (halvingX s.b) = .inr s') :
    0 < s.b.maxDelta - s.b.minDelta ∧
      (s.b.minX ≤ secantRaw s.b ∧ secantRaw s.b ≤ s.b.maxX) ∧ secantX s.b = secantRaw s.b := by
  have hnt := (trialStep_inr hb hstep).2.2.2.1
  have hlt : s.b.minDelta < s.b.maxDelta := by
    by_contra hcon
    have heq : s.b.minDelta = 0 ∧ s.b.maxDelta = 0 := by
      have := hb.smin; have := hb.smax
      constructor <;> linarith [not_lt.mp hcon]
    have hh : s.b.minX ≤ halvingX s.b ∧ halvingX s.b ≤ s.b.maxX := by
      rw [halvingX_eq]; have := hb.le; constructor <;> linarith
    have hmem : ∀ {t}, s.b.minX ≤ t → t ≤ s.b.maxX → t ∈ Set.Icc lo hi := fun a b =>
      ⟨le_trans hb.lo_le a, le_trans b hb.le_hi⟩
    have hA : f s.b.minX ≤ f (halvingX s.b) := hmono (hmem (le_refl _) hb.le) (hmem hh.1 hh.2) hh.1
    have hB : f (halvingX s.b) ≤ f s.b.maxX := hmono (hmem hh.1 hh.2) (hmem hb.le (le_refl _)) hh.2
    rw [← hb.dmin, heq.1] at hA
    rw [← hb.dmax, heq.2] at hB
    have : f (halvingX s.b) = 0 := le_antisymm hB hA
    apply hnt
    rw [this, abs_zero]; exact htol
  exact ⟨by linarith, secantRaw_mem s.b hb.le hb.smin hb.smax hlt, secantX_eq_raw s.b hb.le hb.smin hb.smax hlt⟩

/-- **`secant_genuine` lifted to the whole iteration loop**: for a non-decreasing `f` and a positive tolerance, from any
bracket satisfying the invariant, every iteration that goes on to evaluate the secant trial has a non-zero (indeed
positive) secant denominator: `SecantNondeg` holds for the run. -/
theorem iterate_secantNondeg (hmono : MonotoneOn f (Set.Icc lo hi)) (htol : 0 < tol) :
    ∀ (fuel : Nat) (x delta : ℝ) (b : Bracket ℝ) (ev : List ℝ), BInv f lo hi b →
      SecantNondeg f f' tol conv fuel x delta b ev := by
  intro fuel
  induction fuel with
  | zero => intro x delta b ev _; trivial
  | succ m ih =>
    intro x delta b ev hb
    unfold SecantNondeg
    refine ⟨?_, ?_⟩
    · rintro ⟨s', hs'⟩ heq
      have h := (secant_genuine (conv := conv) hmono htol (s := { b := b, hit := 0, evals := ev }) (x := x) hb hs').1
      simp only at h
      rw [heq] at h; linarith
    · split
      · trivial
      · rename_i s hloop
        have hb' := (trialLoop_inr_b _ { b := b, hit := 0, evals := ev } _ hb hloop).1
        split
        · trivial
        · exact ih _ _ _ _ hb'

/-- **secant_nondegenerate_of_monotone.** Under the property's premise (non-decreasing `f` with `f lo ≤ 0 ≤ f hi`) and a
positive tolerance, the run of `FindRoot` never evaluates `f` at a degenerate (`0/0`) secant point, for any initial
guess, derivative and iteration count. -/
theorem secant_nondegenerate_of_monotone (hmono : MonotoneOn f (Set.Icc lo hi)) (htol : 0 < tol)
    (hle : lo ≤ hi) (h1 : f lo ≤ 0) (h2 : 0 ≤ f hi) :
    SecantNondeg f f' tol conv n x0 (f x0) ⟨lo, f lo, hi, f hi⟩ [lo, hi, x0] :=
  iterate_secantNondeg hmono htol n x0 (f x0) _ _ (init_binv hle h1 h2)

/-- **evals_in_interval (non-monotone form, explicit non-degeneracy).** For ANY `f` with `f lo ≤ 0 ≤ f hi` and an initial
guess inside the interval (`fn(initialX)` is the first call of the code, so this is needed for every iteration count):
every point at which `fn` is called lies in `[lo, hi]` — PROVIDED no iteration evaluates a degenerate secant point
(`hnd : SecantNondeg …`, i.e. `maxDelta ≠ minDelta` at every iteration whose halving trial does not return).
Without `hnd` the statement would still be derivable over ℝ, but for the wrong reason: with `f lo = f hi = 0` and an
interior value outside the tolerance the secant is `(…)·0/0`, which ℝ evaluates to 0 (then clamped into the bracket)
while float64 — the Go code and the compiled model — evaluates `f(NaN)` and continues on a different path
(`secant_degenerate_example`: `f x = 2x − x²` on `[0, 2]`). The hypothesis restricts the theorem to the runs on which
the ℝ model and the code agree; the ℝ proof itself does not consume it. -/
theorem evals_in_interval (hle : lo ≤ hi) (h1 : f lo ≤ 0) (h2 : 0 ≤ f hi) (hx0 : lo ≤ x0 ∧ x0 ≤ hi)
    (hnd : SecantNondeg f f' tol conv n x0 (f x0) ⟨lo, f lo, hi, f hi⟩ [lo, hi, x0]) {r : Res ℝ}
    (hr : findRoot f f' x0 lo hi tol conv n = .ok r) : ∀ e ∈ r.evals, lo ≤ e ∧ e ≤ hi := by
  have _hnd := hnd   -- restricts the statement to non-degenerate runs (see the doc-comment)
  exact (post hle h1 h2 hx0 hr).evals

/-- **evals_in_interval_mono — the property's clause** ("the function is never evaluated outside the interval", stated
under the property's monotone premise): for a non-decreasing `f` with `f lo ≤ 0 ≤ f hi`, a positive tolerance and an
initial guess in the interval, every point at which `fn` is called lies in `[lo, hi]`, and every secant point that is
evaluated is a genuine quotient (`SecantNondeg`, by `secant_nondegenerate_of_monotone`). -/
theorem evals_in_interval_mono (hmono : MonotoneOn f (Set.Icc lo hi)) (htol : 0 < tol)
    (hle : lo ≤ hi) (h1 : f lo ≤ 0) (h2 : 0 ≤ f hi) (hx0 : lo ≤ x0 ∧ x0 ≤ hi) {r : Res ℝ}
    (hr : findRoot f f' x0 lo hi tol conv n = .ok r) :
    (∀ e ∈ r.evals, lo ≤ e ∧ e ≤ hi) ∧ SecantNondeg f f' tol conv n x0 (f x0) ⟨lo, f lo, hi, f hi⟩ [lo, hi, x0] :=
  ⟨evals_in_interval hle h1 h2 hx0 (secant_nondegenerate_of_monotone hmono htol hle h1 h2) hr,
   secant_nondegenerate_of_monotone hmono htol hle h1 h2⟩

/-- **width_halves.** If the loop runs out of iterations, the final bracket is at most `(hi − lo) / 2ⁿ` wide (any initial
guess). -/
theorem width_halves (hle : lo ≤ hi) (h1 : f lo ≤ 0) (h2 : 0 ≤ f hi) {r : Res ℝ}
    (hr : findRoot f f' x0 lo hi tol conv n = .ok r) (hexit : r.exit = .fuel) :
    r.b.maxX - r.b.minX ≤ (hi - lo) / 2 ^ n := by
  rw [findRoot_eq h1 h2] at hr
  cases hr
  exact iterate_width_b _ _ _ _ _ _ _ (init_binv hle h1 h2) rfl hexit

/-- the returned residual is bounded by both ends of the FINAL bracket once one iteration has run and the exit was not
the tolerance test (any initial guess) -/
theorem delta_le_final_ends (hle : lo ≤ hi) (h1 : f lo ≤ 0) (h2 : 0 ≤ f hi) (hn : 1 ≤ n)
    {r : Res ℝ} (hr : findRoot f f' x0 lo hi tol conv n = .ok r) (hexit : r.exit ≠ .tol) :
    |r.delta| ≤ |f r.b.minX| ∧ |r.delta| ≤ f r.b.maxX := by
  have p := (postb hle h1 h2 hr).1
  rw [findRoot_eq h1 h2] at hr
  cases hr
  have hp := iterate_pick _ _ _ _ _ _ _ (fun h0 => by omega) rfl hexit
  obtain ⟨_, _, a, b⟩ := pick_spec p.binv
  have e2 : _ = (pick _).2 := congrArg Prod.snd hp
  simp only at e2
  rw [← p.binv.dmin, ← p.binv.dmax, e2]
  exact ⟨a, b⟩

/-- **better_end** (`maxIterations ≥ 1`, `f` non-decreasing on `[lo, hi]`, any initial guess): the returned residual is no
larger in magnitude than at the better end of the initial bracket — OR it was accepted because it is below the
tolerance. The disjunction cannot be dropped: the property's unconditional clause "no larger in magnitude than at the
better end" is FALSE for the code (`better_end_counterexample`) — exactly when the result is within the tolerance: the
code tests only trial points against the tolerance, never the bracket ends, so an end that is already within the
tolerance can lose against a worse trial that is also within it. Recorded as known finding
KF-C18-better-end-within-tolerance (scope `FindRoot:better-end-within-tolerance`) and in `partial=` of the check. -/
theorem better_end_any_guess (hmono : MonotoneOn f (Set.Icc lo hi)) (hle : lo ≤ hi) (h1 : f lo ≤ 0) (h2 : 0 ≤ f hi)
    (hn : 1 ≤ n) {r : Res ℝ} (hr : findRoot f f' x0 lo hi tol conv n = .ok r) :
    |r.delta| ≤ min |f lo| |f hi| ∨ |r.delta| < tol := by
  have p := (postb hle h1 h2 hr).1
  by_cases hexit : r.exit = .tol
  · exact Or.inr (p.tol hexit)
  · left
    obtain ⟨a, b⟩ := delta_le_final_ends hle h1 h2 hn hr hexit
    have hb := p.binv
    have mlo : lo ∈ Set.Icc lo hi := ⟨le_refl _, hle⟩
    have mhi : hi ∈ Set.Icc lo hi := ⟨hle, le_refl _⟩
    have mmin : r.b.minX ∈ Set.Icc lo hi := ⟨hb.lo_le, le_trans hb.le hb.le_hi⟩
    have mmax : r.b.maxX ∈ Set.Icc lo hi := ⟨le_trans hb.lo_le hb.le, hb.le_hi⟩
    have c1 : f lo ≤ f r.b.minX := hmono mlo mmin hb.lo_le
    have c2 : f r.b.maxX ≤ f hi := hmono mmax mhi hb.le_hi
    have n1 : f r.b.minX ≤ 0 := hb.dmin ▸ hb.smin
    apply le_min
    · rw [abs_of_nonpos n1] at a
      rw [abs_of_nonpos h1]; linarith
    · rw [abs_of_nonneg h2]; linarith

/-- `better_end_any_guess` in the form with a guess in the interval (kept for its user in OW.Props.C11; the hypothesis on
the guess is not needed for `maxIterations ≥ 1`) -/
theorem better_end (hmono : MonotoneOn f (Set.Icc lo hi)) (hle : lo ≤ hi) (h1 : f lo ≤ 0) (h2 : 0 ≤ f hi)
    (_hx0 : lo ≤ x0 ∧ x0 ≤ hi) (hn : 1 ≤ n) {r : Res ℝ} (hr : findRoot f f' x0 lo hi tol conv n = .ok r) :
    |r.delta| ≤ min |f lo| |f hi| ∨ |r.delta| < tol :=
  better_end_any_guess hmono hle h1 h2 hn hr

/-- **better_end_unless_tol_exit**: the same without a disjunction in the conclusion — whenever the run did NOT leave
through the tolerance test (`exit ≠ tol`, a ghost of the model compared with the code through the evaluation log), the
returned residual is no larger in magnitude than at the better end of the initial bracket. -/
theorem better_end_unless_tol_exit (hmono : MonotoneOn f (Set.Icc lo hi)) (hle : lo ≤ hi) (h1 : f lo ≤ 0) (h2 : 0 ≤ f hi)
    (hn : 1 ≤ n) {r : Res ℝ} (hr : findRoot f f' x0 lo hi tol conv n = .ok r) (hexit : r.exit ≠ .tol) :
    |r.delta| ≤ min |f lo| |f hi| := by
  have p := (postb hle h1 h2 hr).1
  obtain ⟨a, b⟩ := delta_le_final_ends hle h1 h2 hn hr hexit
  have hb := p.binv
  have mlo : lo ∈ Set.Icc lo hi := ⟨le_refl _, hle⟩
  have mhi : hi ∈ Set.Icc lo hi := ⟨hle, le_refl _⟩
  have mmin : r.b.minX ∈ Set.Icc lo hi := ⟨hb.lo_le, le_trans hb.le hb.le_hi⟩
  have mmax : r.b.maxX ∈ Set.Icc lo hi := ⟨le_trans hb.lo_le hb.le, hb.le_hi⟩
  have c1 : f lo ≤ f r.b.minX := hmono mlo mmin hb.lo_le
  have c2 : f r.b.maxX ≤ f hi := hmono mmax mhi hb.le_hi
  have n1 : f r.b.minX ≤ 0 := hb.dmin ▸ hb.smin
  apply le_min
  · rw [abs_of_nonpos n1] at a
    rw [abs_of_nonpos h1]; linarith
  · rw [abs_of_nonneg h2]; linarith

/-- with the convergence-limit test disabled (`conv ≤ 0`) FindRoot only returns through the tolerance test or by
running out of iterations -/
theorem no_conv_exit (hconv : conv ≤ 0) (hle : lo ≤ hi) (h1 : f lo ≤ 0) (h2 : 0 ≤ f hi)
    {r : Res ℝ} (hr : findRoot f f' x0 lo hi tol conv n = .ok r) : r.exit ≠ .conv := by
  rw [findRoot_eq h1 h2] at hr
  cases hr
  exact iterate_no_conv_b hconv _ _ _ _ _ _ _ (init_binv hle h1 h2) rfl

/-- the tolerance exit means what it says -/
theorem tol_exit (hle : lo ≤ hi) (h1 : f lo ≤ 0) (h2 : 0 ≤ f hi)
    {r : Res ℝ} (hr : findRoot f f' x0 lo hi tol conv n = .ok r) (hexit : r.exit = .tol) : |r.delta| < tol :=
  (postb hle h1 h2 hr).1.tol hexit

/-- **tolerance bound.** `f` non-decreasing and `L`-Lipschitz on `[lo, hi]`, convergence-limit exit disabled
(`conv ≤ 0`), `n ≥ 1` iterations allowed, any initial guess: the returned residual is below the tolerance or at most
`L·(hi−lo)/2ⁿ`. -/
theorem delta_bound (hmono : MonotoneOn f (Set.Icc lo hi)) {L : ℝ}
    (hlip : ∀ a ∈ Set.Icc lo hi, ∀ b ∈ Set.Icc lo hi, a ≤ b → f b - f a ≤ L * (b - a))
    (hconv : conv ≤ 0) (hle : lo ≤ hi) (h1 : f lo ≤ 0) (h2 : 0 ≤ f hi) (hn : 1 ≤ n)
    {r : Res ℝ} (hr : findRoot f f' x0 lo hi tol conv n = .ok r) :
    |r.delta| < tol ∨ |r.delta| ≤ L * (hi - lo) / 2 ^ n := by
  have p := (postb hle h1 h2 hr).1
  by_cases hexit : r.exit = .tol
  · exact Or.inl (p.tol hexit)
  · right
    have hfuel : r.exit = .fuel := by
      have hnc : r.exit ≠ .conv := no_conv_exit hconv hle h1 h2 hr
      cases hx : r.exit with
      | fuel => rfl
      | tol => exact absurd hx hexit
      | conv => exact absurd hx hnc
    obtain ⟨a, b⟩ := delta_le_final_ends hle h1 h2 hn hr hexit
    have hw := width_halves hle h1 h2 hr hfuel
    have hb := p.binv
    have mmin : r.b.minX ∈ Set.Icc lo hi := ⟨hb.lo_le, le_trans hb.le hb.le_hi⟩
    have mmax : r.b.maxX ∈ Set.Icc lo hi := ⟨le_trans hb.lo_le hb.le, hb.le_hi⟩
    have hl := hlip _ mmin _ mmax hb.le
    have n1 : f r.b.minX ≤ 0 := hb.dmin ▸ hb.smin
    have hL : 0 ≤ L ∨ r.b.maxX - r.b.minX = 0 := by
      by_cases hz : r.b.maxX - r.b.minX = 0
      · exact Or.inr hz
      · left
        have hpos : 0 < r.b.maxX - r.b.minX := lt_of_le_of_ne (by linarith [hb.le]) (Ne.symm hz)
        have hmon := hmono mmin mmax hb.le
        by_contra hneg
        have : L * (r.b.maxX - r.b.minX) < 0 := mul_neg_of_neg_of_pos (not_le.mp hneg) hpos
        linarith
    have key : |r.delta| ≤ L * (r.b.maxX - r.b.minX) := by linarith
    rcases hL with hL | hz
    · calc |r.delta| ≤ L * (r.b.maxX - r.b.minX) := key
        _ ≤ L * ((hi - lo) / 2 ^ n) := mul_le_mul_of_nonneg_left hw hL
        _ = L * (hi - lo) / 2 ^ n := by ring
    · rw [hz, mul_zero] at key
      have habs : |r.delta| = 0 := le_antisymm key (abs_nonneg _)
      rw [habs]
      -- L may be negative only if the final bracket is a point; then f is constant 0 there. Bound: 0 ≤ L*(hi-lo)/2^n needs L ≥ 0
      -- when hi > lo (monotone + Lipschitz), and is 0 when hi = lo.
      by_cases hlh : lo = hi
      · subst hlh; rw [sub_self, mul_zero, zero_div]
      · have hpos : 0 < hi - lo := by
          have := lt_of_le_of_ne hle hlh; linarith
        have mlo : lo ∈ Set.Icc lo hi := ⟨le_refl _, hle⟩
        have mhi : hi ∈ Set.Icc lo hi := ⟨hle, le_refl _⟩
        have h3 := hlip _ mlo _ mhi hle
        have h4 := hmono mlo mhi hle
        have hLn : 0 ≤ L := by
          by_contra hneg
          have : L * (hi - lo) < 0 := mul_neg_of_neg_of_pos (not_le.mp hneg) hpos
          linarith
        positivity

/-- **tolerance_reached.** Under the hypotheses of `delta_bound`: once the iteration budget suffices for interval
halving, `L·(hi−lo)/2ⁿ < tol` (i.e. `2ⁿ > L·width₀/tol`), the returned residual is below the tolerance. -/
theorem tolerance_reached (hmono : MonotoneOn f (Set.Icc lo hi)) {L : ℝ}
    (hlip : ∀ a ∈ Set.Icc lo hi, ∀ b ∈ Set.Icc lo hi, a ≤ b → f b - f a ≤ L * (b - a))
    (hconv : conv ≤ 0) (hle : lo ≤ hi) (h1 : f lo ≤ 0) (h2 : 0 ≤ f hi) (hn : 1 ≤ n)
    (hbudget : L * (hi - lo) / 2 ^ n < tol)
    {r : Res ℝ} (hr : findRoot f f' x0 lo hi tol conv n = .ok r) : |r.delta| < tol := by
  rcases delta_bound hmono hlip hconv hle h1 h2 hn hr with h | h
  · exact h
  · exact lt_of_le_of_lt h hbudget

/-- **zero iterations** (known finding KF-C18-zero-iterations): with `maxIterations = 0` the result is the initial guess
and its residual, whatever the bracket ends are. -/
theorem zero_iterations (h1 : f lo ≤ 0) (h2 : 0 ≤ f hi) {r : Res ℝ}
    (hr : findRoot f f' x0 lo hi tol conv 0 = .ok r) : r.x = x0 ∧ r.delta = f x0 := by
  rw [findRoot_eq h1 h2] at hr
  cases hr
  exact ⟨rfl, rfl⟩

end FindRoot

/-! ### non-vacuity and counter-examples (concrete numerals) -/

/-- `tolerance_reached` APPLIED: `f x = x − 1` on `[0, 2]` from `x0 = 1/2` with 12 iterations (budget
`1·(2−0)/2¹² = 1/2048 < 1/1000`) returns a residual below `1/1000`, at a point of the interval — and also from the guess
`x0 = 7` OUTSIDE the interval (no hypothesis on the initial guess for `maxIterations ≥ 1`). -/
example (x0 : ℝ) : ∃ r, findRoot (fun x : ℝ => x - 1) none x0 0 2 (1/1000) 0 12 = .ok r ∧ |r.delta| < 1/1000 ∧
    (0 ≤ r.x ∧ r.x ≤ 2) ∧ r.delta = r.x - 1 := by
  have hmono : MonotoneOn (fun x : ℝ => x - 1) (Set.Icc 0 2) := by
    intro a _ b _ hab; simp only; linarith
  have hlip : ∀ a ∈ Set.Icc (0:ℝ) 2, ∀ b ∈ Set.Icc (0:ℝ) 2, a ≤ b → (b - 1) - (a - 1) ≤ 1 * (b - a) := by
    intro a _ b _ _; linarith
  have hr : findRoot (fun x : ℝ => x - 1) none x0 0 2 (1/1000) 0 12 = .ok _ :=
    findRoot_eq (by norm_num) (by norm_num)
  refine ⟨_, hr, ?_, ?_, ?_⟩
  · exact tolerance_reached hmono hlip (le_refl 0) (by norm_num) (by norm_num) (by norm_num) (by norm_num)
      (by norm_num) hr
  · exact result_in_interval_n1 (by norm_num) (by norm_num) (by norm_num) (by norm_num) hr
  · exact result_delta_is_value (by norm_num) (by norm_num) (by norm_num) hr

/-- **secant_degenerate_example** (why `evals_in_interval` carries `SecantNondeg`): `f x = 2x − x²` on `[0, 2]`
(`f 0 = f 2 = 0`, `f 1 = 1`), tolerance `1/1000`, from `x0 = 1/2`: in the first iteration the halving trial `1` does not
return and the secant denominator is `f 2 − f 0 = 0`. Over ℝ the secant "point" is `2 − 2·0/0 = 2`; the Go code and the
compiled model evaluate `f(NaN)` (evaluation log `[…, 1, NaN, …]`) and continue differently. `f` is not monotone, so
this is outside the property's premise; under it the case cannot arise (`secant_nondegenerate_of_monotone`). -/
theorem secant_degenerate_example :
    ¬ SecantNondeg (fun x : ℝ => 2 * x - x ^ 2) none (1/1000) 0 1 (1/2) ((fun x : ℝ => 2 * x - x ^ 2) (1/2))
        ⟨0, (fun x : ℝ => 2 * x - x ^ 2) 0, 2, (fun x : ℝ => 2 * x - x ^ 2) 2⟩ [0, 2, 1/2] := by
  intro h
  unfold SecantNondeg at h
  have hh : halvingX (⟨0, (fun x : ℝ => 2 * x - x ^ 2) 0, 2, (fun x : ℝ => 2 * x - x ^ 2) 2⟩ : Bracket ℝ) = 1 := by
    rw [halvingX_eq]; norm_num
  refine h.1 ?_ (by norm_num)
  rcases trialStep_spec (fun x : ℝ => 2 * x - x ^ 2) (1/1000) 0 (1/2)
      { b := ⟨0, (fun x : ℝ => 2 * x - x ^ 2) 0, 2, (fun x : ℝ => 2 * x - x ^ 2) 2⟩, hit := 0, evals := [0, 2, 1/2] }
      (halvingX ⟨0, (fun x : ℝ => 2 * x - x ^ 2) 0, 2, (fun x : ℝ => 2 * x - x ^ 2) 2⟩) with ⟨hlt, _⟩ | ⟨_, s', hs', _⟩
  · rw [hh] at hlt; norm_num at hlt
  · exact ⟨s', hs'⟩

/-- **better_end_counterexample.** `f x = x` on `[−10⁻⁶, 9·10⁻⁴]`, tolerance `10⁻³`, one iteration from the lower end:
the halving trial `4.495·10⁻⁴` is accepted (below the tolerance) although the lower end has residual `10⁻⁶`. So the
unconditional "no larger than at the better end" is false for the code (known finding
KF-C18-better-end-within-tolerance); `better_end` carries the disjunct. Both values are below the tolerance. -/
theorem better_end_counterexample :
    ∃ r, findRoot (fun x : ℝ => x) none (-1/1000000) (-1/1000000) (9/10000) (1/1000) 0 1 = .ok r ∧
      ¬ |r.delta| ≤ min |(fun x : ℝ => x) (-1/1000000)| |(fun x : ℝ => x) (9/10000)| ∧ |r.delta| < 1/1000 := by
  refine ⟨_, findRoot_eq (by norm_num) (by norm_num), ?_⟩
  have hh : halvingX (⟨-1/1000000, -1/1000000, 9/10000, 9/10000⟩ : Bracket ℝ) = 899/2000000 := by
    rw [halvingX_eq]; norm_num
  simp only [iterate, trialXs, trialLoop]
  rw [trialStep_accept _ _ _ _ _ _ (by rw [hh]; norm_num [abs_of_pos])]
  simp only [hh]
  norm_num [abs_of_pos, abs_of_neg, min_def]

/-- **zero_iterations_counterexample** (the witness of KF-C18-zero-iterations): `f x = x − 1/10` on `[0, 1]` from
`x0 = 9/10` with `maxIterations = 0` returns residual `8/10`, the better end has `1/10`. -/
theorem zero_iterations_counterexample :
    ∃ r, findRoot (fun x : ℝ => x - 1/10) none (9/10) 0 1 (1/1000000) 0 0 = .ok r ∧
      ¬ |r.delta| ≤ min |(fun x : ℝ => x - 1/10) 0| |(fun x : ℝ => x - 1/10) 1| := by
  refine ⟨_, findRoot_eq (by norm_num) (by norm_num), ?_⟩
  simp only [iterate]
  norm_num [abs_of_pos, abs_of_neg, min_def]


/-! ## Piecewise -/

section Piecewise
variable {xs ys : List ℝ}

/-- **knots_exact.** For every strictly increasing table of length ≥ 2 (with `ys` at least as long) and every knot `k`,
`Piecewise xs[k]` returns the table value `ys[k]` exactly. -/
theorem knots_exact (hs : xs.Pairwise (· < ·)) (hlen : 2 ≤ xs.length) (hys : xs.length ≤ ys.length)
    (k : Nat) (hk : k < xs.length) : piecewise (xs[k]) xs ys = .val (ys[k]'(by omega)) := by
  have hlast : ¬ xs[xs.length - 1]'(by omega) < xs[k] := by
    by_cases hkl : k = xs.length - 1
    · subst hkl; exact lt_irrefl _
    · exact not_lt.mpr (le_of_lt (sorted_getElem hs (by omega) (by omega)))
  cases k with
  | zero =>
    have hb := brackets_found (xs := xs) xs[0] 1 (le_refl _) (by omega) (lt_irrefl _) hlast
      (fun i h1 h2 => by omega) (le_of_lt (sorted_getElem hs (by omega) (by omega)))
    rw [piecewise_of_brackets (ys := ys) hb (by omega) (by omega) (by omega) (by omega)]
    have hne : xs[0] ≠ xs[1] := ne_of_lt (sorted_getElem hs (by omega) (by omega))
    have hi : interp xs ys (1 - 1) 1 (by omega) (by omega) (by omega) (by omega) xs[0] = ys[0] := by
      unfold interp; simp
    simp only [Nat.sub_self] at hi ⊢
    rw [if_neg hne, hi, if_neg]
    rintro (⟨a, b⟩ | ⟨a, b⟩) <;> linarith
  | succ m =>
    have h0 : ¬ xs[m + 1] < xs[0]'(by omega) :=
      not_lt.mpr (le_of_lt (sorted_getElem hs (by omega) (by omega)))
    have hb := brackets_found (xs := xs) xs[m + 1] (m + 1) (by omega) hk h0 hlast
      (fun i _ h2 => sorted_getElem hs hk h2) (le_refl _)
    rw [piecewise_of_brackets (ys := ys) hb (by omega) (by omega) (by omega) (by omega), if_pos rfl]

/-- **interp_linear.** Strictly between neighbouring knots `k`, `k+1` the result is the linear interpolant, and
it lies between the two neighbouring table values. The divisor `xs[k+1] − xs[k]` is positive. -/
theorem interp_linear (hs : xs.Pairwise (· < ·)) (hys : xs.length ≤ ys.length)
    (k : Nat) (hk : k + 1 < xs.length) (x : ℝ) (h1 : xs[k] < x) (h2 : x < xs[k + 1]) :
    0 < xs[k + 1] - xs[k] ∧
    piecewise x xs ys = .val (ys[k]'(by omega) + (x - xs[k]) / (xs[k + 1] - xs[k]) * (ys[k + 1]'(by omega) - ys[k]'(by omega))) ∧
    min (ys[k]'(by omega)) (ys[k + 1]'(by omega)) ≤
        ys[k]'(by omega) + (x - xs[k]) / (xs[k + 1] - xs[k]) * (ys[k + 1]'(by omega) - ys[k]'(by omega)) ∧
      ys[k]'(by omega) + (x - xs[k]) / (xs[k + 1] - xs[k]) * (ys[k + 1]'(by omega) - ys[k]'(by omega)) ≤
        max (ys[k]'(by omega)) (ys[k + 1]'(by omega)) := by
  have hd : 0 < xs[k + 1] - xs[k] := by linarith
  -- the interpolation weight lies strictly between 0 and 1
  have hf0 : 0 < (x - xs[k]) / (xs[k + 1] - xs[k]) := div_pos (by linarith) hd
  have hf1 : (x - xs[k]) / (xs[k + 1] - xs[k]) < 1 := by rw [div_lt_one hd]; linarith
  generalize hfr : (x - xs[k]) / (xs[k + 1] - xs[k]) = fr at hf0 hf1 ⊢
  have h0 : ¬ x < xs[0]'(by omega) := by
    by_cases hk0 : k = 0
    · subst hk0; exact not_lt.mpr (le_of_lt h1)
    · exact not_lt.mpr (le_of_lt (lt_trans (sorted_getElem hs (by omega) (by omega)) h1))
  have hlast : ¬ xs[xs.length - 1]'(by omega) < x := by
    by_cases hkl : k + 1 = xs.length - 1
    · simp only [← hkl]; exact not_lt.mpr (le_of_lt h2)
    · exact not_lt.mpr (le_of_lt (lt_trans h2 (sorted_getElem hs (by omega) (by omega))))
  have hb := brackets_found (xs := xs) x (k + 1) (by omega) hk h0 hlast
    (fun i _ hij => by
      by_cases hik : i = k
      · subst hik; exact h1
      · exact lt_trans (sorted_getElem hs (by omega) (by omega)) h1)
    (le_of_lt h2)
  have hval : interp xs ys (k + 1 - 1) (k + 1) (by omega) (by omega) (by omega) (by omega) x =
      ys[k]'(by omega) + fr * (ys[k + 1]'(by omega) - ys[k]'(by omega)) := by
    unfold interp; simp only [Nat.add_sub_cancel]; rw [hfr]
  have hbetween : min (ys[k]'(by omega)) (ys[k + 1]'(by omega)) ≤ ys[k]'(by omega) + fr * (ys[k + 1]'(by omega) - ys[k]'(by omega)) ∧
      ys[k]'(by omega) + fr * (ys[k + 1]'(by omega) - ys[k]'(by omega)) ≤ max (ys[k]'(by omega)) (ys[k + 1]'(by omega)) := by
    generalize ys[k]'(by omega) = y0
    generalize ys[k + 1]'(by omega) = y1
    rcases le_total y0 y1 with h | h
    · rw [min_eq_left h, max_eq_right h]
      constructor <;> nlinarith
    · rw [min_eq_right h, max_eq_left h]
      constructor <;> nlinarith
  refine ⟨hd, ?_, hbetween⟩
  rw [piecewise_of_brackets (ys := ys) hb (by omega) (by omega) (by omega) (by omega)]
  rw [if_neg (ne_of_lt h2), hval, if_neg]
  rintro (⟨a, b⟩ | ⟨a, b⟩)
  · simp only [Nat.add_sub_cancel] at a
    have := hbetween.2; rw [max_eq_right a] at this; linarith
  · simp only [Nat.add_sub_cancel] at a
    have := hbetween.1; rw [min_eq_right a] at this; linarith

/-- **outside_error.** An argument below the first or above the last knot gives the error, never a number
(any non-empty table). -/
theorem outside_error (hne : xs ≠ []) (x : ℝ)
    (h : x < xs[0]'(List.length_pos_of_ne_nil hne) ∨ xs.getLast hne < x) : piecewise x xs ys = .err := by
  match xs, hne, h with
  | x0 :: rest, hne, h =>
    unfold piecewise brackets
    simp only [List.getElem_cons_zero] at h
    by_cases hx : x < x0
    · simp [hx]
    · have hl : (x0 :: rest).getLast hne < x := by
        rcases h with h | h
        · exact absurd h hx
        · exact h
      simp only [if_neg hx]
      rw [List.getLast?_eq_some_getLast hne, Option.getD_some, if_pos hl]

end Piecewise

/-- **incomparable_error.** For ANY arithmetic (any `Num α`, in particular IEEE floats): if every comparison of `x`
with a table value is false — which is what a NaN argument does — the result is the error, never a number
(any non-empty table). -/
theorem incomparable_error {α} [Num α] (x : α) (xs ys : List α) (hne : xs ≠ [])
    (h : ∀ v ∈ xs, ¬ x < v ∧ ¬ v < x ∧ ¬ x ≤ v) : piecewise x xs ys = .err := by
  match xs, hne, h with
  | x0 :: rest, hne, h =>
    unfold piecewise brackets
    have h0 := h x0 (List.mem_cons_self ..)
    have hl : ¬ ((x0 :: rest).getLast?.getD x0 < x) := by
      rw [List.getLast?_eq_some_getLast hne, Option.getD_some]
      exact (h _ (List.getLast_mem hne)).2.1
    simp only [if_neg h0.1, if_neg hl]
    rw [bracketLoop_none x rest 1 (fun u hu => (h u (List.mem_cons_of_mem _ hu)).2.2)]

/-! ### non-vacuity -/

section
attribute [-simp] OW.RealNum.ofNat_eq

/-- a concrete strictly increasing table meeting the hypotheses of the Piecewise theorems, and what they give on it -/
example : piecewise (2 : ℝ) [1, 2, 4] [10, 20, 0] = .val 20 ∧ piecewise (3 : ℝ) [1, 2, 4] [10, 20, 0] = .val 10 ∧
    piecewise (5 : ℝ) [1, 2, 4] [10, 20, 0] = .err := by
  have hs : ([1, 2, 4] : List ℝ).Pairwise (· < ·) := by simp; norm_num
  refine ⟨?_, ?_, ?_⟩
  · have := knots_exact (xs := [1, 2, 4]) (ys := [10, 20, 0]) hs (by simp) (by simp) 1 (by simp)
    simpa using this
  · have := (interp_linear (xs := [1, 2, 4]) (ys := [10, 20, 0]) hs (by simp) 1 (by simp) 3 (by simp; norm_num) (by simp; norm_num)).2.1
    rw [this]; simp; norm_num
  · exact outside_error (by simp) 5 (Or.inr (by simp; norm_num))

end

end OW.Props.C18
