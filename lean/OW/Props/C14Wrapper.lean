import OW.Props.C14Prefix
import OW.Props.C04
/-!
C14, third part — causality of the N-CELL WRAPPER RUN (`OW.Sim.run`), lifted from the one-cell `KModel.run`.

`causal_<M>` / `causalStrong_<M>` (C14.lean, C14Prefix.lean) are statements about ONE call of a kernel on one cell. What a user
calls is the generated wrapper: `Run(inputs, states, outputs)` over N cells, with per-cell parameter decoding, cyclic reuse of
parameter sets and input blocks, and results WRITTEN INTO the first timesteps of caller-supplied output rows. Here the per-cell
statement is lifted through `C04.runCells_spec` (the N-cell run is exactly the per-cell steps, each on its own rows):

* `wrapper_causal`: if every cell's kernel is causal at `n₁` and the wrapper run over the whole period and the wrapper run over the
  first `n₁` timesteps both succeed, then EVERY output row of EVERY cell agrees on the first `n₁` timesteps — for any parameter
  layout, number of cells, parameter sets, input blocks, hot-start state array or `InitialiseStates`, and for any initial contents
  of the two output arrays that agree on the first `n₁` timesteps (the same array, or an array of `n₁` timesteps for the short run).
* `wrapper_causalStrong`: with the strong per-cell form the truncated wrapper run succeeds whenever the whole-period one does.
* `wrapper_causal_change`: two continuations of the same first part give the same first `n₁` timesteps of every output row.
* `wrapper_causal_catalogue`, `wrapper_causalStrong_catalogue`: instances for the 41 catalogue models.

Over any arithmetic `Num α` (structural: no arithmetic law is used). The wrapper here is the list-level semantics `OW.Sim.run`
(that the generated Go wrappers are this is C04/C09's correspondence, not proved here).
-/
set_option linter.unusedSimpArgs false
set_option linter.unusedVariables false
namespace OW.Props.C14
open OW OW.Kernels OW.Sim

variable {α : Type} [Num α]

/-- the first `n` timesteps of every series of every row of an array `[cell][output][t]` -/
def takeT {β} (n : Nat) (os : List (List (List β))) : List (List (List β)) := os.map (·.map (·.take n))

/-- block-wise concatenation in time of two input arrays `[block][input][t]` -/
def catBlocks {β} (A B : List (List (List β))) : List (List (List β)) := List.zipWith catSeries A B

/-- `A` (first part, `n₁` timesteps) and `B` (continuation, `n₂` timesteps) are input arrays of the same shape -/
structure SplitBlocks {β} (n₁ n₂ : Nat) (A B : List (List (List β))) : Prop where
  len : A.length = B.length
  block : ∀ k (ha : k < A.length) (hb : k < B.length), A[k].length = B[k].length ∧ AllLen n₁ A[k] ∧ AllLen n₂ B[k]

/-- **causality of one call at truncation point `n₁`** (the content of `Causal` for one `n₁`) -/
def CausalAt {α} (n₁ : Nat) (km : KModel α) : Prop :=
  ∀ (p : List α) (a b : List (List α)) (st : List α) (n₂ : Nat) (o o₁ : KOut α),
    a.length = b.length → AllLen n₁ a → AllLen n₂ b →
    km.run p (catSeries a b) st = .ok o → km.run p a st = .ok o₁ →
    o.outputs.map (·.take n₁) = o₁.outputs

omit [Num α] in
theorem causalAt_of_causal {km : KModel α} (h : Causal km) (n₁ : Nat) : CausalAt n₁ km :=
  fun p a b st n₂ o o₁ hl ha hb hr h₁ => h p a b st n₁ n₂ o o₁ hl ha hb hr h₁

omit [Num α] in
theorem causalAt_of_strong {k : Nat} {km : KModel α} (h : CausalStrongFrom k km) (n₁ : Nat) (hk : k ≤ n₁) : CausalAt n₁ km := by
  intro p a b st n₂ o o₁ hl ha hb hr h₁
  obtain ⟨o₁', e, he⟩ := h p a b st n₁ n₂ o hk hl ha hb hr
  rw [h₁] at e
  cases e
  exact he

/-! ### writing into the first timesteps of a row commutes with cutting the row -/

omit [Num α] in
/-- `overwrite` (the write of a kernel's output series into the caller's row) restricted to the first `n` timesteps is the write of
the first `n` values into the first `n` timesteps of the row -/
theorem overwrite_take (old new : List α) (n : Nat) :
    (overwrite old new).take n = overwrite (old.take n) (new.take n) := by
  apply List.ext_getElem?
  intro i
  unfold overwrite
  simp only [List.getElem?_take, List.getElem?_append, List.length_take, List.getElem?_drop]
  split_ifs <;> first | rfl | omega | (congr 1; omega) | (apply List.getElem?_eq_none; omega)

/-- what `cellStep` writes into a cell's output rows `orow` when the kernel returned the series `outs` -/
def writeRows (orow outs : List (List α)) : List (List α) :=
  (orow.zip (outs ++ List.replicate (orow.length - outs.length) [])).map fun (old, new) => overwrite old new

omit [Num α] in
theorem writeRows_take (orow outs : List (List α)) (n : Nat) :
    (writeRows orow outs).map (·.take n) = writeRows (orow.map (·.take n)) (outs.map (·.take n)) := by
  unfold writeRows
  have hY : outs.map (·.take n) ++ List.replicate ((orow.map (·.take n)).length - (outs.map (·.take n)).length) [] =
      (outs ++ List.replicate (orow.length - outs.length) []).map (List.take n) := by
    simp only [List.map_append, List.length_map, List.map_replicate, List.take_nil]
  rw [hY, List.zip_map, List.map_map, List.map_map]
  apply List.map_congr_left
  intro x _
  simp only [Function.comp, Prod.map]
  exact overwrite_take _ _ _

omit [Num α] in
/-- rows that agree on the first `n` timesteps, written with series of which one is the first `n` values of the other, agree on
the first `n` timesteps afterwards -/
theorem writeRows_take_eq (orow orow₁ outs : List (List α)) (n : Nat)
    (hO : orow₁.map (·.take n) = orow.map (·.take n)) :
    (writeRows orow outs).map (·.take n) = (writeRows orow₁ (outs.map (·.take n))).map (·.take n) := by
  rw [writeRows_take, writeRows_take, hO, List.map_map]
  congr 1
  apply List.map_congr_left
  intro x _
  simp only [Function.comp, List.take_take, Nat.min_self]

/-! ### input blocks -/

omit [Num α] in
theorem catBlocks_length (A B : List (List (List α))) (hl : A.length = B.length) : (catBlocks A B).length = A.length := by
  simp only [catBlocks, List.length_zipWith, hl, Nat.min_self]

omit [Num α] in
/-- block `j` of the concatenated array is the series-wise concatenation of block `j` of the two parts -/
theorem catBlocks_get (A B : List (List (List α))) (hl : A.length = B.length) (j : Nat) :
    (catBlocks A B)[j]?.getD [] = catSeries (A[j]?.getD []) (B[j]?.getD []) := by
  unfold catBlocks
  rw [List.getElem?_zipWith]
  by_cases hj : j < A.length
  · have hj' : j < B.length := hl ▸ hj
    simp only [List.getElem?_eq_getElem hj, List.getElem?_eq_getElem hj', Option.getD_some]
  · have hj' : ¬ j < B.length := hl ▸ hj
    simp only [List.getElem?_eq_none (Nat.le_of_not_lt hj), List.getElem?_eq_none (Nat.le_of_not_lt hj'), Option.getD_none]
    rfl

omit [Num α] in
theorem SplitBlocks.get {n₁ n₂ : Nat} {A B : List (List (List α))} (hs : SplitBlocks n₁ n₂ A B) (j : Nat) :
    (A[j]?.getD []).length = (B[j]?.getD []).length ∧ AllLen n₁ (A[j]?.getD []) ∧ AllLen n₂ (B[j]?.getD []) := by
  by_cases hj : j < A.length
  · have hj' : j < B.length := hs.len ▸ hj
    simp only [List.getElem?_eq_getElem hj, List.getElem?_eq_getElem hj', Option.getD_some]
    exact hs.block j hj hj'
  · have hj' : ¬ j < B.length := hs.len ▸ hj
    simp only [List.getElem?_eq_none (Nat.le_of_not_lt hj), List.getElem?_eq_none (Nat.le_of_not_lt hj'), Option.getD_none]
    exact ⟨trivial, fun s hs => absurd hs List.not_mem_nil, fun s hs => absurd hs List.not_mem_nil⟩

/-! ### one cell -/

/-- `cellStep` in terms of `writeRows`: a successful cell step decoded its parameter column, ran the kernel on its input block and
wrote the results -/
theorem cellStep_ok_inv (km : KModel α) (spec : ParamSpec) (lay : List (Nat × Nat)) (params : List (List α))
    (inputs : List (List (List α))) (i : Nat) (st : List α) (orow : List (List α)) (s' : List α) (o' : List (List α))
    (h : cellStep km spec lay params inputs i st orow = .ok (s', o')) :
    inputs.length ≠ 0 ∧
      ∃ p r, cellParams spec lay params i = .ok p ∧ km.run p (inputs[i % inputs.length]?.getD []) st = .ok r ∧
        s' = overwrite st r.states ∧ o' = writeRows orow r.outputs := by
  have h0 := C04.cellStep_ok_blocks h
  rw [C04.cellStep_blocks _ _ _ _ _ _ _ _ h0] at h
  unfold writeRows
  · refine ⟨h0, ?_⟩
    cases hp : cellParams spec lay params i with
    | error e => simp [h0, hp, bind, Except.bind, throw, throwThe, MonadExceptOf.throw] at h
    | ok p =>
      cases hr : km.run p (inputs[i % inputs.length]?.getD []) st with
      | error e => simp [h0, hp, hr, bind, Except.bind, throw, throwThe, MonadExceptOf.throw] at h
      | ok r =>
        simp only [h0, hp, hr, bind, Except.bind, pure, Except.pure, if_false, Except.ok.injEq, Prod.mk.injEq] at h
        refine ⟨p, r, ?_, ?_, h.1.symm, h.2.symm⟩ <;> first | assumption | rfl

/-- conversely -/
theorem cellStep_ok_of (km : KModel α) (spec : ParamSpec) (lay : List (Nat × Nat)) (params : List (List α))
    (inputs : List (List (List α))) (i : Nat) (st : List α) (orow : List (List α)) (p : List α) (r : KOut α)
    (h0 : inputs.length ≠ 0) (hp : cellParams spec lay params i = .ok p)
    (hr : km.run p (inputs[i % inputs.length]?.getD []) st = .ok r) :
    cellStep km spec lay params inputs i st orow = .ok (overwrite st r.states, writeRows orow r.outputs) := by
  rw [C04.cellStep_blocks _ _ _ _ _ _ _ _ h0]
  unfold writeRows
  simp only [hp, hr, bind, Except.bind, pure, Except.pure]

/-- **one cell of the wrapper is causal**: the cell's output rows after the whole-period call and after the call over the first
`n₁` timesteps agree on the first `n₁` timesteps (rows that agreed there before the calls). -/
theorem cellStep_causal {n₁ n₂ : Nat} (km : KModel α) (hc : CausalAt n₁ km) (spec : ParamSpec) (lay : List (Nat × Nat))
    (params : List (List α)) (A B : List (List (List α))) (hs : SplitBlocks n₁ n₂ A B) (i : Nat) (st : List α)
    (orow orow₁ : List (List α)) (s' s₁ : List α) (o' o₁ : List (List α))
    (hO : orow₁.map (·.take n₁) = orow.map (·.take n₁))
    (h : cellStep km spec lay params (catBlocks A B) i st orow = .ok (s', o'))
    (h₁ : cellStep km spec lay params A i st orow₁ = .ok (s₁, o₁)) :
    o'.map (·.take n₁) = o₁.map (·.take n₁) := by
  obtain ⟨-, p, r, hp, hr, -, rfl⟩ := cellStep_ok_inv _ _ _ _ _ _ _ _ _ _ h
  obtain ⟨-, p', r₁, hp', hr₁, -, rfl⟩ := cellStep_ok_inv _ _ _ _ _ _ _ _ _ _ h₁
  rw [hp] at hp'; cases hp'
  rw [catBlocks_length A B hs.len, catBlocks_get A B hs.len] at hr
  obtain ⟨hl, ha, hb⟩ := hs.get (i % A.length)
  have := hc p _ _ st n₂ r r₁ hl ha hb hr hr₁
  rw [← this]
  exact writeRows_take_eq orow orow₁ r.outputs n₁ hO

/-- with the strong per-call form, the cell's call over the first `n₁` timesteps succeeds when the whole-period call does -/
theorem cellStep_prefixOk {k n₁ n₂ : Nat} (km : KModel α) (hc : CausalStrongFrom k km) (hk : k ≤ n₁) (spec : ParamSpec)
    (lay : List (Nat × Nat)) (params : List (List α)) (A B : List (List (List α))) (hs : SplitBlocks n₁ n₂ A B) (i : Nat)
    (st : List α) (orow orow₁ : List (List α)) (s' : List α) (o' : List (List α))
    (h : cellStep km spec lay params (catBlocks A B) i st orow = .ok (s', o')) :
    ∃ s₁ o₁, cellStep km spec lay params A i st orow₁ = .ok (s₁, o₁) := by
  obtain ⟨h0, p, r, hp, hr, -, -⟩ := cellStep_ok_inv _ _ _ _ _ _ _ _ _ _ h
  rw [catBlocks_length A B hs.len] at h0
  rw [catBlocks_length A B hs.len, catBlocks_get A B hs.len] at hr
  obtain ⟨hl, ha, hb⟩ := hs.get (i % A.length)
  obtain ⟨r₁, hr₁, -⟩ := hc p _ _ st n₁ n₂ r hk hl ha hb hr
  exact ⟨_, _, cellStep_ok_of km spec lay params A i st orow₁ p r₁ h0 hp hr₁⟩

/-! ### N cells: lifting through `C04.runCells_spec` -/

omit [Num α] in
theorem takeT_get (n : Nat) (os : List (List (List α))) (k : Nat) :
    (takeT n os)[k]? = (os[k]?).map (fun (o : List (List α)) => o.map (·.take n)) := by
  simp only [takeT, List.getElem?_map]

omit [Num α] in
theorem takeT_length (n : Nat) (os : List (List (List α))) : (takeT n os).length = os.length := by
  simp only [takeT, List.length_map]

/-- **the N-cell run is causal when each cell's kernel call is** (lifted through `C04.runCells_spec`): output arrays that agree on
the first `n₁` timesteps before the two runs agree there afterwards — the rows of the cells that ran, by `cellStep_causal` on
each cell's OWN rows; the surplus rows, because neither run touches them. -/
theorem runCells_causal {n₁ n₂ : Nat} (km : KModel α) (hc : CausalAt n₁ km) (spec : ParamSpec) (lay : List (Nat × Nat))
    (params : List (List α)) (A B : List (List (List α))) (hs : SplitBlocks n₁ n₂ A B)
    (cells : List (List α)) (outs outs₁ : List (List (List α))) (i : Nat) (ss ss₁ : List (List α))
    (os os₁ : List (List (List α))) (hO : takeT n₁ outs₁ = takeT n₁ outs)
    (h : runCells km spec lay params (catBlocks A B) i cells outs = .ok (ss, os))
    (h₁ : runCells km spec lay params A i cells outs₁ = .ok (ss₁, os₁)) :
    takeT n₁ os = takeT n₁ os₁ := by
  obtain ⟨-, hlo, hle, hstep, hrest⟩ := C04.runCells_spec km spec lay params _ cells outs i ss os h
  obtain ⟨-, hlo₁, hle₁, hstep₁, hrest₁⟩ := C04.runCells_spec km spec lay params _ cells outs₁ i ss₁ os₁ h₁
  have hOk : ∀ k : Nat, (outs₁[k]?).map (fun (o : List (List α)) => o.map (·.take n₁)) = (outs[k]?).map (fun (o : List (List α)) => o.map (·.take n₁)) := by
    intro k
    rw [← takeT_get, ← takeT_get, hO]
  apply List.ext_getElem?
  intro k
  rw [takeT_get, takeT_get]
  by_cases hk : k < cells.length
  · have ho : k < outs.length := by omega
    have ho₁ : k < outs₁.length := by omega
    obtain ⟨s', o', hcs, -, e⟩ := hstep k hk ho
    obtain ⟨s₁, o₁, hcs₁, -, e₁⟩ := hstep₁ k hk ho₁
    rw [e, e₁]
    simp only [Option.map_some, Option.some.injEq]
    have hrow := hOk k
    rw [List.getElem?_eq_getElem ho, List.getElem?_eq_getElem ho₁] at hrow
    simp only [Option.map_some, Option.some.injEq] at hrow
    exact cellStep_causal km hc spec lay params A B hs (i + k) cells[k] outs[k] outs₁[k] s' s₁ o' o₁ hrow hcs hcs₁
  · rw [hrest k (by omega), hrest₁ k (by omega)]
    exact (hOk k).symm

/-- with the strong per-call form, the N-cell run over the first `n₁` timesteps succeeds when the whole-period run does -/
theorem runCells_prefixOk {k n₁ n₂ : Nat} (km : KModel α) (hc : CausalStrongFrom k km) (hk : k ≤ n₁) (spec : ParamSpec)
    (lay : List (Nat × Nat)) (params : List (List α)) (A B : List (List (List α))) (hs : SplitBlocks n₁ n₂ A B) :
    ∀ (cells : List (List α)) (outs outs₁ : List (List (List α))) (i : Nat) (ss : List (List α)) (os : List (List (List α))),
      outs₁.length = outs.length →
      runCells km spec lay params (catBlocks A B) i cells outs = .ok (ss, os) →
      ∃ ss₁ os₁, runCells km spec lay params A i cells outs₁ = .ok (ss₁, os₁) := by
  intro cells
  induction cells with
  | nil => intro outs outs₁ i ss os _ _; exact ⟨[], outs₁, rfl⟩
  | cons st restS ih =>
    intro outs outs₁ i ss os hl h
    cases outs with
    | nil => simp [runCells] at h
    | cons orow restO =>
      cases outs₁ with
      | nil => simp at hl
      | cons orow₁ restO₁ =>
        simp only [runCells] at h ⊢
        cases hcs : cellStep km spec lay params (catBlocks A B) i st orow with
        | error e => simp [hcs, bind, Except.bind] at h
        | ok so =>
          obtain ⟨s', o'⟩ := so
          cases hr : runCells km spec lay params (catBlocks A B) (i + 1) restS restO with
          | error e => simp [hcs, hr, bind, Except.bind] at h
          | ok r =>
            obtain ⟨ss', os'⟩ := r
            obtain ⟨s₁, o₁, hcs₁⟩ := cellStep_prefixOk km hc hk spec lay params A B hs i st orow orow₁ s' o' hcs
            obtain ⟨ss₁, os₁, hr₁⟩ := ih restO restO₁ (i + 1) ss' os' (by simpa using hl) hr
            exact ⟨s₁ :: ss₁, o₁ :: os₁, by simp [hcs₁, hr₁, bind, Except.bind, pure, Except.pure]⟩

/-! ### the wrapper's `Run` -/

/-- the state array a wrapper run starts from: the caller's (hot start) or `InitialiseStates(nCells)` — no input series enters -/
def startStates (km : KModel α) (spec : ParamSpec) (lay : List (Nat × Nat)) (x : RunIn α) : Except String (List (List α)) :=
  match x.states with
  | some s => pure s
  | none => initStates km spec lay x.params x.nCells

/-- `Sim.run` = layout, start states, N-cell run -/
theorem run_ok_iff (km : KModel α) (spec : ParamSpec) (x : RunIn α) (r : RunOut α) :
    Sim.run km spec x = .ok r ↔
      ∃ lay states, layout spec x.params = .ok lay ∧ startStates km spec lay x = .ok states ∧
        runCells km spec lay x.params x.inputs 0 states x.outputs = .ok (r.states, r.outputs) := by
  obtain ⟨xp, xi, xs, xn, xo⟩ := x
  obtain ⟨ro, rs⟩ := r
  unfold Sim.run startStates
  simp only
  cases hl : layout spec xp with
  | error e => simp [bind, Except.bind]
  | ok lay =>
    cases xs with
    | some s =>
      cases hr : runCells km spec lay xp xi 0 s xo with
      | error e =>
        simp only [hr, bind, Except.bind, pure, Except.pure, Except.ok.injEq]
        exact ⟨fun h => (by cases h), fun ⟨_, _, e1, e2, h⟩ => by cases e1; cases e2; rw [hr] at h; cases h⟩
      | ok so =>
        obtain ⟨ss, os⟩ := so
        simp only [hr, bind, Except.bind, pure, Except.pure, Except.ok.injEq, RunOut.mk.injEq]
        exact ⟨fun ⟨a, b⟩ => ⟨_, _, rfl, rfl, by rw [hr, a, b]⟩,
          fun ⟨_, _, e1, e2, h⟩ => by cases e1; cases e2; rw [hr] at h; cases h; exact ⟨rfl, rfl⟩⟩
    | none =>
      cases hs : initStates km spec lay xp xn with
      | error e =>
        simp only [hs, bind, Except.bind, pure, Except.pure, Except.ok.injEq]
        exact ⟨fun h => (by cases h), fun ⟨_, _, e1, e2, h⟩ => by cases e1; rw [hs] at e2; cases e2⟩
      | ok states =>
        cases hr : runCells km spec lay xp xi 0 states xo with
        | error e =>
          simp only [hs, hr, bind, Except.bind, pure, Except.pure, Except.ok.injEq]
          exact ⟨fun h => (by cases h),
            fun ⟨_, _, e1, e2, h⟩ => by cases e1; rw [hs] at e2; cases e2; rw [hr] at h; cases h⟩
        | ok so =>
          obtain ⟨ss, os⟩ := so
          simp only [hs, hr, bind, Except.bind, pure, Except.pure, Except.ok.injEq, RunOut.mk.injEq]
          exact ⟨fun ⟨a, b⟩ => ⟨_, _, rfl, (by first | rfl | exact hs), by rw [hr, a, b]⟩,
            fun ⟨_, _, e1, e2, h⟩ => by cases e1; rw [hs] at e2; cases e2; rw [hr] at h; cases h; exact ⟨rfl, rfl⟩⟩

/-- the truncated call of the wrapper: same parameter array, same state argument (hot-start array or none), same number of cells;
its input array is the first part of the whole-period input array; its output array agrees with the whole-period call's on the first
`n₁` timesteps before the call (e.g. the same array, or the same array cut to `n₁` timesteps, or two zero-filled arrays) -/
structure Truncates {α} (n₁ n₂ : Nat) (x x₁ : RunIn α) (B : List (List (List α))) : Prop where
  params : x₁.params = x.params
  states : x₁.states = x.states
  nCells : x₁.nCells = x.nCells
  split : SplitBlocks n₁ n₂ x₁.inputs B
  inputs : x.inputs = catBlocks x₁.inputs B
  outputs : takeT n₁ x₁.outputs = takeT n₁ x.outputs

/-- **C14, causality of the N-cell wrapper run.** Let every call of the kernel be causal at `n₁` (`causalAt_of_causal`, for all 41 catalogue
models: `wrapper_causal_catalogue`). If `Run` over the whole period (`n₁ + n₂` timesteps) and `Run` over the first `n₁` timesteps
(`Truncates`) both succeed, then the two output arrays agree on the first `n₁` timesteps of EVERY output row of EVERY cell: what the
wrapper reports up to timestep `n₁` does not depend on the inputs after `n₁` — for every parameter layout `spec` (scalars and
tables), number of cells, cyclic reuse of parameter sets and input blocks, hot start or `InitialiseStates`. -/
theorem wrapper_causal {n₁ n₂ : Nat} (km : KModel α) (hc : CausalAt n₁ km) (spec : ParamSpec) (x x₁ : RunIn α)
    (B : List (List (List α))) (ht : Truncates n₁ n₂ x x₁ B) (r r₁ : RunOut α)
    (h : Sim.run km spec x = .ok r) (h₁ : Sim.run km spec x₁ = .ok r₁) :
    takeT n₁ r.outputs = takeT n₁ r₁.outputs := by
  obtain ⟨lay, states, hl, hs, hr⟩ := (run_ok_iff km spec x r).mp h
  obtain ⟨lay₁, states₁, hl₁, hs₁, hr₁⟩ := (run_ok_iff km spec x₁ r₁).mp h₁
  rw [ht.params, hl] at hl₁
  cases hl₁
  have : startStates km spec lay x₁ = startStates km spec lay x := by
    unfold startStates; rw [ht.params, ht.states, ht.nCells]
  rw [this, hs] at hs₁
  cases hs₁
  rw [ht.inputs] at hr
  rw [ht.params] at hr₁
  exact runCells_causal km hc spec lay x.params x₁.inputs B ht.split states x.outputs x₁.outputs 0 _ _ _ _ ht.outputs hr hr₁

/-- **C14, strong causality of the N-cell wrapper run.** With the strong per-call form (`CausalStrongFrom k`, truncation point
`n₁ ≥ k`): if `Run` over the whole period succeeds, `Run` over the first `n₁` timesteps SUCCEEDS TOO (a panic of the truncated
wrapper run is a panic of the whole-period one) and agrees with it on the first `n₁` timesteps of every output row of every cell. -/
theorem wrapper_causalStrong {k n₁ n₂ : Nat} (km : KModel α) (hc : CausalStrongFrom k km) (hk : k ≤ n₁) (spec : ParamSpec)
    (x x₁ : RunIn α) (B : List (List (List α))) (ht : Truncates n₁ n₂ x x₁ B) (r : RunOut α)
    (h : Sim.run km spec x = .ok r) :
    ∃ r₁, Sim.run km spec x₁ = .ok r₁ ∧ takeT n₁ r.outputs = takeT n₁ r₁.outputs := by
  obtain ⟨lay, states, hl, hs, hr⟩ := (run_ok_iff km spec x r).mp h
  rw [ht.inputs] at hr
  have hlen : x₁.outputs.length = x.outputs.length := by
    have := congrArg List.length ht.outputs
    simpa only [takeT_length] using this
  obtain ⟨ss₁, os₁, hr₁⟩ := runCells_prefixOk km hc hk spec lay x.params x₁.inputs B ht.split states x.outputs x₁.outputs 0 _ _ hlen hr
  have hst : startStates km spec lay x₁ = startStates km spec lay x := by
    unfold startStates; rw [ht.params, ht.states, ht.nCells]
  have h₁ : Sim.run km spec x₁ = .ok { outputs := os₁, states := ss₁ } :=
    (run_ok_iff km spec x₁ _).mpr ⟨lay, states, by rw [ht.params]; exact hl, by rw [hst]; exact hs, by rw [ht.params]; exact hr₁⟩
  exact ⟨_, h₁, wrapper_causal km (causalAt_of_strong hc n₁ hk) spec x x₁ B ht r _ h h₁⟩

/-- **changing the later inputs**: two whole-period wrapper runs whose inputs agree on the first `n₁` timesteps (continuations `B`,
`B'` of possibly different lengths) report the same first `n₁` timesteps in every output row of every cell. -/
theorem wrapper_causal_change {k n₁ n₂ n₂' : Nat} (km : KModel α) (hc : CausalStrongFrom k km) (hk : k ≤ n₁) (spec : ParamSpec)
    (x x' x₁ : RunIn α) (B B' : List (List (List α))) (ht : Truncates n₁ n₂ x x₁ B) (ht' : Truncates n₁ n₂' x' x₁ B')
    (r r' : RunOut α) (h : Sim.run km spec x = .ok r) (h' : Sim.run km spec x' = .ok r') :
    takeT n₁ r.outputs = takeT n₁ r'.outputs := by
  obtain ⟨r₁, h₁, e⟩ := wrapper_causalStrong km hc hk spec x x₁ B ht r h
  rw [e, wrapper_causal km (causalAt_of_strong hc n₁ hk) spec x' x₁ B' ht' r' r₁ h' h₁]

/-! ### the catalogue -/

/-- **C14, wrapper-level causality, every catalogue model** (41), any arithmetic, every truncation point `n₁ ≥ 0`. -/
theorem wrapper_causal_catalogue : ∀ km ∈ catalogue (α := α), ∀ (n₁ n₂ : Nat) (spec : ParamSpec) (x x₁ : RunIn α)
    (B : List (List (List α))), Truncates n₁ n₂ x x₁ B → ∀ (r r₁ : RunOut α),
    Sim.run km spec x = .ok r → Sim.run km spec x₁ = .ok r₁ → takeT n₁ r.outputs = takeT n₁ r₁.outputs :=
  fun km hkm n₁ n₂ spec x x₁ B ht r r₁ h h₁ => wrapper_causal km (causalAt_of_causal (causal_catalogue km hkm) n₁) spec x x₁ B ht r r₁ h h₁

/-- **C14, strong wrapper-level causality, every catalogue model** (41), truncation points `n₁ ≥ 1` (the restriction comes from
InstreamDissolvedNutrientDecay only, see `causalStrong_catalogue`; all others: `wrapper_causalStrong_catalogue_zero`). -/
theorem wrapper_causalStrong_catalogue : ∀ km ∈ catalogue (α := α), ∀ (n₁ n₂ : Nat), 1 ≤ n₁ → ∀ (spec : ParamSpec)
    (x x₁ : RunIn α) (B : List (List (List α))), Truncates n₁ n₂ x x₁ B → ∀ (r : RunOut α),
    Sim.run km spec x = .ok r → ∃ r₁, Sim.run km spec x₁ = .ok r₁ ∧ takeT n₁ r.outputs = takeT n₁ r₁.outputs :=
  fun km hkm n₁ n₂ hn spec x x₁ B ht r h => wrapper_causalStrong km (causalStrong_catalogue km hkm) hn spec x x₁ B ht r h

/-- all truncation points, also `n₁ = 0`: every catalogue model except InstreamDissolvedNutrientDecay -/
theorem wrapper_causalStrong_catalogue_zero : ∀ km ∈ catalogue (α := α), km.name ≠ "InstreamDissolvedNutrientDecay" →
    ∀ (n₁ n₂ : Nat) (spec : ParamSpec) (x x₁ : RunIn α) (B : List (List (List α))), Truncates n₁ n₂ x x₁ B → ∀ (r : RunOut α),
    Sim.run km spec x = .ok r → ∃ r₁, Sim.run km spec x₁ = .ok r₁ ∧ takeT n₁ r.outputs = takeT n₁ r₁.outputs :=
  fun km hkm hne n₁ n₂ spec x x₁ B ht r h =>
    wrapper_causalStrong km (causalStrong_catalogue_zero km hkm hne) (Nat.zero_le _) spec x x₁ B ht r h

/-! ## non-vacuity -/

section NonVacuity

/-- whole-period call: Muskingum, 2 cells, ONE parameter set (reused cyclically), 2 input blocks of 2 series × 3 timesteps,
`InitialiseStates`, a zero-filled output array 2 cells × 1 output × 3 timesteps -/
def exWhole : RunIn Float :=
  { params := [[86400], [0.25], [86400]], inputs := [[[1, 2, 5], [0, 1, 0]], [[3, 0, 7], [0, 0, 1]]], states := none, nCells := 2,
    outputs := [[[0, 0, 0]], [[0, 0, 0]]] }

/-- the call over the first 2 timesteps, with an output array of 2 timesteps -/
def exTrunc : RunIn Float :=
  { params := [[86400], [0.25], [86400]], inputs := [[[1, 2], [0, 1]], [[3, 0], [0, 0]]], states := none, nCells := 2,
    outputs := [[[0, 0]], [[0, 0]]] }

/-- the later inputs of the two blocks -/
def exLater : List (List (List Float)) := [[[5], [0]], [[7], [1]]]

theorem exSplit : SplitBlocks 2 1 exTrunc.inputs exLater := by
  have hmem : ∀ (n : Nat) (u v : List Float), u.length = n → v.length = n → AllLen n [u, v] := by
    intro n u v hu hv s hs
    simp only [List.mem_cons, List.not_mem_nil, or_false] at hs
    rcases hs with rfl | rfl <;> assumption
  refine ⟨by decide, ?_⟩
  intro k ha hb
  have ha' : k < 2 := ha
  rcases k with _ | _ | k
  · exact ⟨by simp [exTrunc, exLater], hmem 2 [1, 2] [0, 1] rfl rfl, hmem 1 [5] [0] rfl rfl⟩
  · exact ⟨by simp [exTrunc, exLater], hmem 2 [3, 0] [0, 0] rfl rfl, hmem 1 [7] [1] rfl rfl⟩
  · omega

/-- the shape hypotheses of the wrapper theorems hold for this pair of calls (truncation point 2, 1 later timestep) -/
theorem exTruncates : Truncates 2 1 exWhole exTrunc exLater where
  params := rfl
  states := rfl
  nCells := rfl
  split := exSplit
  inputs := by
    simp only [exWhole, exTrunc, exLater, catBlocks, catSeries, List.zipWith_cons_cons, List.zipWith_nil_right, List.cons_append,
      List.nil_append]
  outputs := by
    simp only [exWhole, exTrunc, takeT, List.map_cons, List.map_nil, List.take_succ_cons, List.take_zero, List.take_nil]

/-- `wrapper_causal`: its hypotheses (two successful wrapper runs, `Truncates`) hold together -/
example : ∃ r r₁, Sim.run Muskingum.model [none, none, none] exWhole = .ok r ∧
    Sim.run Muskingum.model [none, none, none] exTrunc = .ok r₁ ∧ Truncates 2 1 exWhole exTrunc exLater :=
  ⟨_, _, rfl, rfl, exTruncates⟩

/-- use of the strong form: from the whole-period wrapper run alone, the 2-timestep run and the agreement of all output rows -/
example (r : RunOut Float) (h : Sim.run Muskingum.model [none, none, none] exWhole = .ok r) :
    ∃ r₁, Sim.run Muskingum.model [none, none, none] exTrunc = .ok r₁ ∧ takeT 2 r.outputs = takeT 2 r₁.outputs :=
  wrapper_causalStrong Muskingum.model causalStrong_Muskingum (Nat.zero_le _) _ exWhole exTrunc exLater exTruncates r h

/-- the conclusion speaks about something: the compared part of the output array is 2 cells × 1 row × 2 timesteps -/
example : ∃ r, Sim.run Muskingum.model [none, none, none] exWhole = .ok r ∧
    (takeT 2 r.outputs).map (·.map (·.length)) = [[2], [2]] := ⟨_, rfl, rfl⟩

/-- the same output array for both calls (the short run writes the first 2 timesteps of a 3-timestep array) also satisfies
`Truncates`: `outputs` is reflexivity -/
example : Truncates 2 1 exWhole { exTrunc with outputs := exWhole.outputs } exLater :=
  { exTruncates with outputs := rfl }

end NonVacuity

end OW.Props.C14
