import OW.Gen.Kernels
import OW.Proofs.SacramentoMidStep
import OW.Props.GenTieBase
namespace OW.Props.GenTie
open OW OW.Kernels OW.Gen.K OW.Gen.Prelude

/-! ### models/rr/sacramento.go

The regenerated definitions (`sacramento.step` with merge tuples, the lifted loop bodies `loopBody1…4`) are compared, by
`rfl`, with a COPY of themselves kept in `OW/Proofs/SacramentoMid.lean`; that file proves the copy equal to the hand-written
model `OW/Kernels/Sacramento.lean` once and independently of the generated file (the case analysis over the ≈ 40 branches
of the step takes about a minute and is not repeated when the source changes). A source change that alters the arithmetic
makes one of the `rfl`s below fail; a harmless rewrite keeps the generated term definitionally equal. -/

theorem gen_eq_Sacramento_loopBody1 : @sacramento.loopBody1 = @SacramentoMid.loopBody1 := rfl
theorem gen_eq_Sacramento_loopBody2 : @sacramento.loopBody2 = @SacramentoMid.loopBody2 := rfl
theorem gen_eq_Sacramento_loopBody3 : @sacramento.loopBody3 = @SacramentoMid.loopBody3 := rfl
theorem gen_eq_Sacramento_loopBody4 : @sacramento.loopBody4 = @SacramentoMid.loopBody4 := rfl
/-- the regenerated step is the copy, with the four loop-invariant capacities the code computes before the loop from the
parameters alone (`saved`, `alzfsm`, `alzfpm`, `pbase`: `let`s at the top of the regenerated `step`) passed as arguments -/
theorem gen_eq_Sacramento_step {α} [Num α]
    (lzpk lzsk uzk uztwm uzfwm lztwm lzfsm lzfpm pfree rexp zperc side ssout pctim adimp sarva rserv uh1 uh2 uh3 uh4 uh5 : α) :
    sacramento.step lzpk lzsk uzk uztwm uzfwm lztwm lzfsm lzfpm pfree rexp zperc side ssout pctim adimp sarva rserv uh1 uh2 uh3 uh4 uh5 =
      fun dro => SacramentoMid.step lzpk lzsk uzk uztwm uzfwm lztwm lzfsm lzfpm pfree rexp zperc side ssout pctim adimp sarva rserv
        uh1 uh2 uh3 uh4 uh5 dro (rserv * (lzfpm + lzfsm)) (lzfsm * (1.0 + side)) (lzfpm * (1.0 + side))
        (lzfsm * (1.0 + side) * lzsk + lzfpm * (1.0 + side) * lzpk) := rfl

/-- `makeUnitHydrograph` (with `sumSlice`: a `range` loop) = the hand model's -/
theorem gen_eq_Sacramento_makeUH {α} [Num α] (p : Sacramento.Params α) :
    sacramento.makeUnitHydrograph p.uh1 p.uh2 p.uh3 p.uh4 p.uh5 = Sacramento.makeUnitHydrograph p := rfl

/-- `sacramento`: before the loop the unit hydrograph ordinates are the `dro` of `Sacramento.consts` (the other, scalar, constants
of `Sacramento.consts` are `let`s of the regenerated `step`);
the loop starts from the six state parameters, an empty hydrograph buffer `qq = make(nunit)` and `alzfsc, alzfpc` (hidden
state); one iteration — evaporation, resupply, the passes `for ii` / `for inc` of the drainage and percolation loop, unit
hydrograph, channel losses — is `Sacramento.step` (all nine carried values and the five outputs), for a buffer of
`nunit = 5` cells. -/
theorem gen_eq_Sacramento {α} [Num α] (p : Sacramento.Params α) (s0 s1 s2 s3 s4 s5 : α) (st : Sacramento.State α)
    (rain pet : α) (hq : st.qq.length = 5) :
    sacramento.guard s0 s1 s2 s3 s4 s5 p.lzpk p.lzsk p.uzk p.uztwm p.uzfwm p.lztwm p.lzfsm p.lzfpm p.pfree p.rexp p.zperc p.side
      p.ssout p.pctim p.adimp p.sarva p.rserv p.uh1 p.uh2 p.uh3 p.uh4 p.uh5 = false ∧
    sacramento.pre s0 s1 s2 s3 s4 s5 p.lzpk p.lzsk p.uzk p.uztwm p.uzfwm p.lztwm p.lzfsm p.lzfpm p.pfree p.rexp p.zperc p.side
      p.ssout p.pctim p.adimp p.sarva p.rserv p.uh1 p.uh2 p.uh3 p.uh4 p.uh5 =
      (Sacramento.consts p).dro ∧
    sacramento.init s0 s1 s2 s3 s4 s5 p.lzpk p.lzsk p.uzk p.uztwm p.uzfwm p.lztwm p.lzfsm p.lzfpm p.pfree p.rexp p.zperc p.side
      p.ssout p.pctim p.adimp p.sarva p.rserv p.uh1 p.uh2 p.uh3 p.uh4 p.uh5 =
      (s0, s1, s2, s3, s4, s5, zeros 5, s4 * (1.0 + p.side), s3 * (1.0 + p.side)) ∧
    (let c := Sacramento.consts p
     sacramento.step p.lzpk p.lzsk p.uzk p.uztwm p.uzfwm p.lztwm p.lzfsm p.lzfpm p.pfree p.rexp p.zperc p.side p.ssout p.pctim
        p.adimp p.sarva p.rserv p.uh1 p.uh2 p.uh3 p.uh4 p.uh5 c.dro st.uztwc st.uzfwc
        st.lztwc st.lzfpc st.lzfsc st.adimc st.qq st.alzfsc st.alzfpc rain pet =
      (let r := Sacramento.step p c st (rain, pet)
       ((r.1.uztwc, r.1.uzfwc, r.1.lztwc, r.1.lzfpc, r.1.lzfsc, r.1.adimc, r.1.qq, r.1.alzfsc, r.1.alzfpc),
        (r.2.actualET, r.2.runoff, r.2.imperviousRunoff, r.2.surfaceRunoff, r.2.baseflow)))) := by
  refine ⟨rfl, rfl, rfl, ?_⟩
  rw [gen_eq_Sacramento_step]
  exact SacramentoMid.mid_step p (Sacramento.consts p) st rain pet hq rfl

end OW.Props.GenTie
