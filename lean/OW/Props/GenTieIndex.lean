import OW.Proofs.GenIdx
import OW.Proofs.GenIdxFn
/-!
# GenTieIndex — the syntactic tie for the integer / index code, the hyperslab arithmetic, util/fn and the calendar helpers

`OW/Gen/Index.lean` is REGENERATED on every run by `harness/cmd/owtransidx` from the Go source: one definition
`OW.Gen.Idx.<pkg>.<Func>` per function of data/sliceops.go, data/arraysint.go, data/arrays.go (the genny TEMPLATE, which C09
proves the gen-*.go files equal to), util/slice, util/m, conv, io/hdf5_util.go (`sliceSize`, `makeHyperslab`), util/fn
(`brackets`, `Piecewise`, `FindRoot`) and models/functions/dates.go (`leapYear`, `daysInMonth`, `_dayOfYear`), in the monad
`Except String` (a Go panic is `.error "<class>"`), loops as `loopN` of its prelude applied to the translated loop body. Each theorem `gen_eq_<Func>` below states that the regenerated definition IS the hand-written model function the
theorems of C01 / C02 / C03 (OW/Nd/Ints.lean, OW/Nd/View.lean), C08 (OW/Sim/H5.lean), C18 (OW/Util/Piecewise.lean,
OW/Util/FindRoot.lean) and C19 (OW/Util/Dates.lean) are stated about — for ALL arguments, including the ones on which the
Go code panics (same error class on both sides).

How the proofs are built (no property-specific reasoning):
* straight-line functions: unfolding and case analysis;
* loops: `OW/Proofs/GenIdx.lean` / `GenIdxFn.lean` have one lemma per loop SHAPE, stated for an arbitrary loop body `body`
  and a hypothesis `h` saying what one iteration does (e.g. `body i res = getIdx lhs i >>= fun a => getIdx rhs i >>= fun b =>
  setIdx res i (a * b) >>= …`), proved by induction on the list / the iteration count against the structurally recursive
  hand-written model (index loop versus recursion on the list: lists split as `pre ++ suf`; the left-to-right accumulation of
  `dotProduct` / `Index` versus the right-nested sum of the model uses associativity of `+` on `Int` — the only arithmetic law
  used anywhere). Here `body` is instantiated by unification with the REGENERATED loop body and `h` is proved by `rfl` or by
  unfolding + case analysis. So a theorem fails exactly when the regenerated body no longer does, per iteration, what the
  hand-written model does;
* `Contiguous`, `makeHyperslab`, `FindRoot` (bodies with early exits / several result slices / a nested loop): the hypothesis is
  "one iteration = one step of the hand-written model" (`contigStep`, `slabDim`, `trialCtl` / `iterCtl`, all defined from the
  hand-written functions), on states satisfying the loop invariant.

Renaming locals, introducing temporaries, reordering independent pure statements, and reordering the declarations of loop
variables of different types leave the theorems intact (assignments are shadowing `let`s; the carried tuple of a loop is ordered
by type, then by declaration). So do (work package R1): `range` ↔ three-clause loops over the same elements (ONE rendering,
`loopN`; the lemmas stated about `loopRange` are reached with `as_range`), `switch` ↔ if-chain, several early returns ↔ one merged
short-circuit condition, a test and its negation with the branches swapped (`step_tie`: same operations, conditions decided by
`omega`), library min / max ↔ explicit comparisons in `sliceSize`, helper functions extracted or inlined where the helper has no
loop of its own or is one of `dotProduct` / `Multiply` (`gen_unfold`, `dot_loop_inline`, `mul_loop_inline`). And (work package
R3): write-only locals (removed by the translator), the container the trial loop of `FindRoot` runs over (a slice built with `append`,
with or without spare capacity ↔ a fixed `[3]float64` with a count: the cases "which trial points are there" are decided first, the
list is then explicit — `findroot_iter`, `iter_shape_ts`), the direction of a loop whose counter the body does not use, parallel
assignments, bookkeeping moved behind an early return, `brackets` with the upper index alone (`brackets_fin1`) or through an accessor
closure (inlined by the translator), the three Gregorian tests in any order, `range` over the result slice instead of the operand of
the same length (`loopRange_ignore`), index loops from 1 for `range v[1:]` (`range_loopN1`, `argmax_idx_loop1`), `Increment` with the new
value stored once (`inc_body_reordered`), `Offsets` with a running stride (`offsets_loop_stride`). Still beyond these proofs: swapping
the declarations of two carried variables of the same type, a bracket held in a struct with methods (`FindRoot`), a calendar function
re-derived from another table: the tie then reports a broken obligation although the behaviour is the same (the behavioural families
decide).

Scope: Go `int` is `Int` (overflow not modelled), `uint` is `Nat`; slices are lists, a function that writes into a slice /
through a pointer parameter returns the updated value (aliasing between arguments not modelled); `data.ND1Float64` arguments of
util/fn are the lists of their elements; callbacks are pure total functions; the ghost components of the hand-written
`FindRoot` result (evaluation points, exit tag) have no counterpart in the Go function and are not tied.
-/
namespace OW.Props.GenTieIndex
open OW OW.Gen.Idx OW.Proofs.GenIdx
open OW.Nd hiding R

/-- `Product` (data/sliceops.go) is the left fold `productL`, hence (`productL_eq` of C02) `product` -/
theorem gen_eq_Product (ix : Idx) : data.Product ix = .ok (productL ix) := by
  simp only [data.Product]
  as_range
  rw [fold_loop (· * ·) _ ?_]
  · rfl
  · intros; rfl

/-- `dotProduct` (data/sliceops.go) -/
theorem gen_eq_dotProduct (lhs rhs : Idx) : data.dotProduct lhs rhs = dotProduct lhs rhs := by
  simp only [data.dotProduct, Int.sub_zero, Int.toNat_natCast]
  rw [dot_loop0 lhs rhs _ ?_]
  · cases dotProduct lhs rhs <;> simp
  · intros; rfl

/-- `Multiply` (data/sliceops.go) -/
theorem gen_eq_Multiply (lhs rhs : Idx) : data.Multiply lhs rhs = multiply lhs rhs := by
  simp only [data.Multiply, Int.sub_zero, Int.toNat_natCast, goMake_len, bind_ok]
  rw [mul_loop0 lhs rhs _ ?_]
  · cases multiply lhs rhs <;> simp
  · intros; rfl

/-- `decrement` (data/sliceops.go) -/
theorem gen_eq_decrement (v : Idx) : data.decrement v = .ok (decrement v) := by
  simp only [data.decrement, Int.sub_zero, Int.toNat_natCast, goMake_len, bind_ok]
  rw [map_loop0 (· - 1) 0 v _ ?_]
  · rfl
  · intros; rfl

/-- `IDivMod` (data/arraysint.go) -/
theorem gen_eq_IDivMod (n : Int) (den md : Idx) : data.IDivMod n den md = idivmod n den md := by
  simp only [data.IDivMod, gen_unfold, goMake_len, bind_ok]
  as_range
  -- the loop ranges over the denominators, or (only its length matters) over the result slice of the same length
  first
    | rw [idivmod_loop0 n den md _ ?_]
    | (rw [loopRange_ignore _ _ den _ _ (by simp)]; rw [idivmod_loop0 n den md _ ?_])
  · cases idivmod n den md <;> simp
  · intros; rfl

/-- `slice.Uniform` (util/slice/slice.go) for a non-negative count -/
theorem gen_eq_Uniform (n : Nat) (val : Int) : slice.Uniform (n : Int) val = .ok (uniform n val) := by
  simp only [slice.Uniform, goMake_nat, bind_ok, Int.sub_zero, Int.toNat_natCast]
  split
  · next h => simp [uniform, h]
  · rw [const_loop0 val 0 n _ ?_]
    · rfl
    · intros; rfl

/-- `slice.Uniform` with a negative count: `make` panics -/
theorem gen_eq_Uniform_neg (n val : Int) (h : n < 0) : slice.Uniform n val = .error "alloc" := by
  simp only [slice.Uniform, goMake, h, if_true, bind_error]

/-- `slice.Ones` -/
theorem gen_eq_Ones (n : Nat) : slice.Ones (n : Int) = .ok (uniform n 1) := by
  simp only [slice.Ones, gen_eq_Uniform, bind_ok, pure_eq]

/-- `max` of data/sliceops.go -/
theorem gen_eq_max (a b : Int) : data.max a b = .ok (if a > b then a else b) := by
  simp only [data.max]; split <;> rfl

/-- `Maximum` (data/sliceops.go) -/
theorem gen_eq_Maximum (v : Idx) : data.Maximum v = maximum v := by
  cases v with
  | nil => simp [data.Maximum, maximum, oob]
  | cons x xs =>
    simp only [data.Maximum, getIdx_zero_cons, bind_ok, sliceFrom_one_cons]
    -- a range loop over `vector[1:]`, or the index loop from 1 that reads `vector[i]`
    first
      | (as_range; rw [fold_loop (fun r x => if r > x then r else x) _ ?_])
      | (rw [range_loopN1 _ x xs _ _ (by simp)]; rw [fold_loop (fun r x => if r > x then r else x) _ ?_])
    · rfl
    · intro i v s; simp only [gen_eq_max, bind_ok, pure_eq]

/-- `Argmax` (data/sliceops.go) -/
theorem gen_eq_Argmax (v : Idx) : data.Argmax v = argmax v := by
  cases v with
  | nil => simp [data.Argmax, argmax, oob]
  | cons x xs =>
    simp only [data.Argmax, getIdx_zero_cons, bind_ok, sliceFrom_one_cons]
    first
      | (as_range
         rw [argmax_loop _ ?_]
         · simp [argmax]
         · intro i v s
           by_cases h : v > s.2 <;> simp [h])
      | (rw [argmax_idx_loop1 x xs _ ?_ _ (by simp)]   -- the index loop from 1 (`res = i`, `maxFound = vector[i]`)
         · simp [argmax]
         · intro i s
           cases getIdx (x :: xs) i with
           | error e => rfl
           | ok a => by_cases h : a > s.2 <;> simp [h])

/-- `conv.IntsToUints` -/
theorem gen_eq_IntsToUints (l : Idx) : conv.IntsToUints l = .ok (OW.Sim.H5.intsToUints l) := by
  simp only [conv.IntsToUints, goMake_len, bind_ok]
  as_range
  rw [map_range_loop0 toUint 0 l _ ?_]
  · rfl
  · intros; rfl

/-- `conv.UintsToInts` -/
theorem gen_eq_UintsToInts (l : List Nat) : conv.UintsToInts l = .ok (OW.Sim.H5.uintsToInts l) := by
  simp only [conv.UintsToInts, goMake_len, bind_ok]
  as_range
  rw [map_range_loop0 Int.ofNat 0 l _ ?_]
  · rfl
  · intros; rfl

/-- `NdArrayTypeCommon.Index` -/
theorem gen_eq_Index (nd : data.NdArrayTypeCommon) (loc : Idx) :
    data.NdArrayTypeCommon.Index nd loc = (toView nd).index loc := by
  simp only [data.NdArrayTypeCommon.Index, Int.sub_zero, Int.toNat_natCast]
  rw [dot_loop0 loc nd.OffsetStep _ ?_]
  · simp only [View.index, indexAux_eq_dotProduct, toView]
    cases dotProduct loc nd.OffsetStep <;> simp
  · intros; rfl

/-- `m.MinInt`, `m.MaxInt` (util/m) -/
theorem gen_eq_MinInt (a b : Int) : m.MinInt a b = .ok (OW.Sim.H5.minInt a b) := by
  simp only [m.MinInt, OW.Sim.H5.minInt]; split <;> rfl
theorem gen_eq_MaxInt (a b : Int) : m.MaxInt a b = .ok (OW.Sim.H5.maxInt a b) := by
  simp only [m.MaxInt, OW.Sim.H5.maxInt]; split <;> rfl

/-- `sliceSize` (io/hdf5_util.go) -/
theorem gen_eq_sliceSize (sl : List Int) (size : Int) : io.sliceSize sl size = OW.Sim.H5.sliceSize sl size := by
  unfold io.sliceSize OW.Sim.H5.sliceSize
  match sl with
  | [] => simp [oob]
  | [_] => simp [oob]
  | [_, _] => simp [oob, gen_eq_MinInt, gen_eq_MaxInt, gen_unfold, ite_ok_bind]
  | s0 :: s1 :: s2 :: rest =>
    -- the same reads in the same order (same panics); the clipped length is then compared as an integer expression (`omega`), so
    -- `MinInt` / `MaxInt` calls and explicit comparisons are interchangeable
    simp only [getIdx_zero_cons, getIdx_one_cons, getIdx_two_cons, bind_ok, gen_eq_MinInt, gen_eq_MaxInt, gen_unfold, ite_ok_bind,
      goDiv, pure_eq] <;>
    (unfold OW.Sim.H5.maxInt OW.Sim.H5.minInt
     by_cases h2 : s2 = 0
     · simp only [h2, if_true]
     · simp only [h2, if_false] <;> (congr 2 <;> (repeat' split) <;> omega))

/-- `Offsets` (data/arraysint.go) -/
theorem gen_eq_Offsets (dims : Idx) : data.Offsets dims = offsets dims := by
  simp only [data.Offsets, goMake_len, bind_ok, offsets]
  cases hd : dims.length with
  | zero =>
    have : dims = [] := List.eq_nil_of_length_eq_zero hd
    subst this
    simp [setIdx, oob]
  | succ n =>
    have hne : dims.isEmpty = false := by cases dims <;> simp_all
    have e1 : ((n + 1 : Nat) : Int) - 1 = (((List.replicate n (0 : Int)).length : Nat) : Int) := by
      simp only [List.length_replicate]; omega
    have e2 : List.replicate (n + 1) (0 : Int) = List.replicate n 0 ++ [0] := List.replicate_succ'
    rw [e1, e2, setIdx_pre]
    have hdrop : dims.drop n = [dims[n]'(by omega)] := by
      have hn : n < dims.length := by omega
      have h2 : dims.drop (n + 1) = [] := List.drop_eq_nil_of_le (by omega)
      rw [List.drop_eq_getElem_cons hn, h2]
    have e3 : List.replicate n (0 : Int) ++ [1] = List.replicate n 0 ++ offsetsT (dims.drop n) := by
      rw [hdrop]; rfl
    have e4 : ((n + 1 : Nat) : Int) - 2 = (n : Int) - 1 := by omega
    have e5 : ((n : Int) - 1 - 0 + 1).toNat = n := by omega
    simp only [bind_ok, hne, e4, e5, e3]
    first
      | (rw [offsets_loop dims _ ?_ n (by omega)]
         · simp
         · intros; rfl)
      | (-- a running stride instead of re-reading `res[i+1]`
         have hcnt : ((((List.replicate n (0 : Int)).length : Nat) : Int) - 0).toNat = n := by simp
         have hst : (((List.replicate n (0 : Int)).length : Nat) : Int) = (n : Int) := by simp
         rw [hcnt, hst, hdrop, show offsetsT [dims[n]'(by omega)] = [1] from rfl]
         rw [offsets_loop_stride dims _ ?_ n (by omega) 1 [] (by rw [hdrop]; rfl)]
         · simp
         · intros; rfl)

/-- `Increment` (data/sliceops.go): the updated vector -/
theorem gen_eq_Increment (vector wrt : Idx) : data.Increment vector wrt = increment vector wrt := by
  have e5 : ((wrt.length : Int) - 1 - 0 + 1).toNat = wrt.length := by omega
  simp only [data.Increment, e5]
  apply inc_fin
  · first
      | (intro i vec; exact inc_body_reordered wrt i vec)   -- new value computed first, stored once
      | step_tie
  · intros; rfl
  · intros; rfl

/-- `NdArrayTypeCommon.Contiguous`: one iteration of the regenerated loop is one unfolding of `View.contigLoop` -/
theorem gen_eq_Contiguous (nd : data.NdArrayTypeCommon) :
    data.NdArrayTypeCommon.Contiguous nd = (toView nd).contiguous := by
  have e5 : ((nd.Dims.length : Int) - 1 - 0 + 1).toNat = nd.Dims.length := by omega
  simp only [data.NdArrayTypeCommon.Contiguous, View.contiguous, e5]
  apply contig_fin (toView nd)
  · intro k s
    simp only [getIdx_nat, contigStep, contigInner, toView]
    cases nd.Dims[k]? with
    | none => rfl
    | some d =>
      simp only [bind_ok]
      by_cases hd : d > 1
      · simp only [hd, if_true]
        cases hm : s.1 with
        | true => simp
        | false =>
          simp only [Bool.false_eq_true, if_false]
          cases nd.Step[k]? with
          | none => rfl
          | some st =>
            simp only [bind_ok]
            by_cases hs : st > 1
            · simp [hs]
            · simp only [hs, if_false]
              cases nd.Offset[k]? with
              | none => rfl
              | some o =>
                simp only [bind_ok]
                by_cases ho : o > s.2
                · simp [ho]
                · simp only [ho, if_false]
                  cases nd.OriginalDims[k]? with
                  | none => rfl
                  | some od => by_cases hne : d = od <;> simp [hne]
      · simp only [hd, if_false]
        cases nd.OriginalDims[k]? with
        | none => rfl
        | some od => by_cases hne : d = od <;> simp [hne]
  · intros; rfl
  · intros; rfl

/-- `NdArrayTypeCommon.SliceInto` (the stride composition): the metadata written into `dest` -/
theorem gen_eq_SliceInto (nd dest : data.NdArrayTypeCommon) (loc dims : Idx) (step : Option Idx) :
    toView <$> data.NdArrayTypeCommon.SliceInto nd dest loc dims step = (toView nd).sliceInto loc dims step := by
  -- the index arithmetic is `dotProduct` / `Multiply`, called (rewritten by their theorems) or written out inline (the same loops)
  simp only [data.NdArrayTypeCommon.SliceInto, gen_eq_dotProduct, gen_eq_Multiply, View.sliceInto, toView, gen_unfold,
    goMake_len, bind_ok, Int.sub_zero, Int.toNat_natCast, dot_loop_inline, mul_loop_inline]
  cases dotProduct loc nd.OffsetStep with
  | error e => rfl
  | ok d =>
    cases step with
    | none =>
      simp only [bind_ok, pure_eq]
      cases multiply nd.Step nd.Offset <;> rfl
    | some st =>
      simp only [bind_ok]
      cases multiply nd.Step st with
      | error e => rfl
      | ok s2 =>
        simp only [bind_ok, pure_eq]
        cases multiply s2 nd.Offset <;> rfl

/-- `Len`, `Len1`, `Len2`, `Len3`, `NDims`, `Shape`, `NewIndex` -/
theorem gen_eq_Len (nd : data.NdArrayTypeCommon) (ax : Nat) :
    data.NdArrayTypeCommon.Len nd (ax : Int) = (toView nd).len ax := by
  simp only [data.NdArrayTypeCommon.Len, getIdx_nat, View.len, toView]
  cases nd.Dims[ax]? <;> rfl
theorem gen_eq_Len1 (nd : data.NdArrayTypeCommon) : data.NdArrayTypeCommon.Len1 nd = (toView nd).len 0 := gen_eq_Len nd 0
theorem gen_eq_Len2 (nd : data.NdArrayTypeCommon) : data.NdArrayTypeCommon.Len2 nd = (toView nd).len 1 := gen_eq_Len nd 1
theorem gen_eq_Len3 (nd : data.NdArrayTypeCommon) : data.NdArrayTypeCommon.Len3 nd = (toView nd).len 2 := gen_eq_Len nd 2
theorem gen_eq_NDims (nd : data.NdArrayTypeCommon) : data.NdArrayTypeCommon.NDims nd = .ok ((toView nd).ndims : Int) := rfl
theorem gen_eq_Shape (nd : data.NdArrayTypeCommon) : data.NdArrayTypeCommon.Shape nd = .ok (toView nd).dims := rfl
theorem gen_eq_NewIndex (nd : data.NdArrayTypeCommon) (val : Int) :
    data.NdArrayTypeCommon.NewIndex nd val = .ok ((toView nd).newIndex val) := by
  simp only [data.NdArrayTypeCommon.NewIndex, data.NdArrayTypeCommon.NDims, pure_eq, bind_ok, gen_eq_Uniform]
  rfl

/-- `makeHyperslab` (io/hdf5_util.go): offset, stride, count, block -/
theorem gen_eq_makeHyperslab (sel : OW.Sim.H5.Sel) (dims : Idx) :
    io.makeHyperslab sel dims =
      (fun s : OW.Sim.H5.Slab => (s.offset, s.stride, s.count, s.block)) <$> OW.Sim.H5.makeHyperslab sel dims := by
  simp only [io.makeHyperslab, goMake_len, bind_ok, OW.Sim.H5.makeHyperslab]
  as_range
  rw [slab_loop0 dims _ ?_ sel]
  · cases OW.Sim.H5.slabDims dims 0 sel <;> rfl
  · intro po so ps ss pc sc pb sb z1 z2 z3 z4 dim hps hpc hpb
    cases dim with
    | none =>
      simp only [gen_unfold, setIdx_pre, setIdx_pre' _ _ _ _ _ hps, setIdx_pre' _ _ _ _ _ hpc, setIdx_pre' _ _ _ _ _ hpb, bind_ok,
        getIdx_nat, OW.Sim.H5.slabDim]
      cases dims[po.length]? <;> first | rfl | simp [toUint_eq, oob]
    | some sl =>
      simp only [OW.Sim.H5.slabDim]
      match sl with
      | [] => simp [oob, gen_unfold]
      | [_] => simp [oob, setIdx_pre, gen_unfold]
      | [_, _] => simp [oob, setIdx_pre, gen_unfold]
      | s0 :: s1 :: s2 :: rest =>
        simp only [gen_unfold, Option.getD_some, getIdx_zero_cons, getIdx_one_cons, getIdx_two_cons, setIdx_pre, setIdx_pre' _ _ _ _ _ hps,
          setIdx_pre' _ _ _ _ _ hpc, setIdx_pre' _ _ _ _ _ hpb, bind_ok, getIdx_nat, gen_eq_sliceSize]
        cases dims[po.length]? with
        | none => rfl
        | some n =>
          simp only [bind_ok]
          cases OW.Sim.H5.sliceSize (s0 :: s1 :: s2 :: rest) n <;> first | rfl | simp [toUint_eq]

/-- `slice.Equal` (util/slice/slice.go; `shapesMatch` of io/hdf5_util.go) -/
theorem gen_eq_Equal (lhs rhs : Idx) : slice.Equal lhs rhs = .ok (decide (lhs = rhs)) := by
  simp only [slice.Equal]
  by_cases hlen : lhs.length = rhs.length
  · have hlen' : ¬ ((lhs.length : Int) ≠ (rhs.length : Int)) := by omega
    simp only [hlen', if_false]
    as_range
    rw [equal_loop0 lhs rhs _ ?_ hlen]
    · by_cases he : lhs = rhs <;> simp [he]
    · intros; rfl
  · have hlen' : ((lhs.length : Int) ≠ (rhs.length : Int)) := by omega
    have hne : lhs ≠ rhs := fun e => hlen (by rw [e])
    simp [hlen', hne]

/-- `brackets` (util/fn/piecewise.go): `(-1, -1)` or the bracketing pair of indices -/
theorem gen_eq_brackets {α : Type} [Num α] (x : α) (xs : List α) :
    fn.brackets x xs = bracketPair <$> OW.Fn.brackets x xs := by
  cases xs with
  | nil => simp [fn.brackets, OW.Fn.brackets]
  | cons x0 rest =>
    have e : ((((x0 :: rest).length : Nat) : Int) - 1).toNat = rest.length := by simp
    simp only [fn.brackets, OW.Fn.brackets, setIdx_single, bind_ok, nd1Get_single, getIdx_zero_cons, getIdx_last, e]
    split
    · rfl
    · split
      · next h2 => simp [bracketPair, h2]
      · next h2 =>
        have h2' : ¬ ((x0 :: rest).getLast?.getD x0 < x) := h2
        simp only [h2', if_false, map_ok]
        -- the loop carries (i, idx), or idx alone when the lower index is computed from the upper one
        first
          | (refine brackets_fin x (x0 :: rest) _ _ ?_ ?_ ?_ rest [x0] _ rfl (by simp)
             · intro j i a; rfl
             · intros; rfl
             · intros; rfl)
          | (refine brackets_fin1 x (x0 :: rest) _ _ ?_ ?_ ?_ rest [x0] _ rfl (by simp)
             · intro j a; rfl
             · intros; rfl
             · intros; rfl)

/-- `Piecewise` (util/fn/piecewise.go): value, `err != nil`, or panic -/
theorem gen_eq_Piecewise {α : Type} [Num α] (x : α) (xs ys : List α) :
    pwOf (fn.Piecewise x xs ys) = OW.Fn.piecewise x xs ys := by
  simp only [fn.Piecewise, OW.Fn.piecewise, gen_eq_brackets]
  cases hb : OW.Fn.brackets x xs with
  | error e => rfl
  | ok o =>
    cases o with
    | none => simp [bracketPair, pwOf]
    | some p =>
      obtain ⟨i, j⟩ := p
      have hneg : ¬ (((i : Int) < 0) ∨ ((j : Int) < 0)) := by omega
      simp only [map_ok, bind_ok, bracketPair, hneg, if_false, nd1Get_single, setIdx_single, getIdx_nat]
      cases xs[i]? with
      | none => rfl
      | some x0 =>
        cases xs[j]? with
        | none => rfl
        | some x1 =>
          cases ys[i]? with
          | none => rfl
          | some y0 =>
            cases ys[j]? with
            | none => rfl
            | some y1 =>
              simp only [bind_ok]
              by_cases hx : Num.feq x x1 = true
              · simp [hx, pwOf]
              · have hx' : Num.feq x x1 = false := by simpa using hx
                simp only [hx', Bool.false_eq_true, if_false]
                -- the clamp to the right knot's value: an assignment before the final return, or a return of its own
                first
                  | rw [pwOf_ite]
                  | (simp only [ge_iff_le, gt_iff_lt, pure_eq]
                     split <;> rename_i hc <;> simp only [hc, if_true, if_false, pwOf])

/-- one iteration of `FindRoot` once the case (which trial points there are) is fixed by the hypotheses given: the monadic
text is evaluated (`simp`), the trial loop over the now explicit list is read as `loopRange`, and `iter_shape_ts` is applied;
what is left is "one trial = `trialStep`" and "after the trials = `pick`, return or continue" by case analysis -/
syntax "findroot_iter" (" [" Lean.Parser.Tactic.simpLemma,* "]")? : tactic
set_option hygiene false in -- the script refers to the variables of `gen_eq_FindRoot` (f, tol, conv, x) by name
macro_rules
  | `(tactic| findroot_iter) => `(tactic| findroot_iter [true_and])
  | `(tactic| findroot_iter [$ls,*]) => `(tactic|
      (simp [setIdx, sliceTo, List.replicate, ite_ok_bind, $ls,*]
       refine iter_shape_ts _ _ _ _ _ _ _ _ _ _ _ _ ?_ ?_ ?_ ?_ ?_
       · rfl
       · simp [OW.Fn.trialXs, OW.Fn.halvingX, OW.Fn.secantX, $ls,*]
       · intro i trial s
         simp only [isOf, trialCtl, OW.Fn.trialStep]
         by_cases c1 : Num.abs (x - trial) < conv <;> by_cases c2 : Num.abs (f trial) < tol <;>
           by_cases c3 : f trial < 0.0 <;> by_cases c4 : (s.b.minX < trial ∧ trial ≤ s.b.maxX) <;>
           by_cases c5 : (trial < s.b.maxX ∧ s.b.minX ≤ trial) <;> simp [c1, c2, c3, c4, c5]
       · intros; rfl
       · intro s
         simp only [isOf, osOf, OW.Fn.pick]
         by_cases c : Num.abs s.b.minDelta ≤ s.b.maxDelta <;> by_cases hh2 : s.hit = 2 <;> by_cases hh3 : s.hit = 3 <;>
           simp [c, hh2, hh3] <;> omega))

/-- `FindRoot` (util/fn/root.go): the two results; `maxIterations ≤ 0` runs no iteration. The ghost components of the
hand-written model's result (evaluation points, final bracket, exit tag) have no counterpart in the Go function. -/
theorem gen_eq_FindRoot {α : Type} [Num α] (f : α → α) (f' : Option (α → α)) (x0 lo hi tol conv : α) (n : Int) :
    fn.FindRoot f f' x0 lo hi tol conv n =
      (fun r : OW.Fn.Res α => (r.x, r.delta)) <$> OW.Fn.findRoot f f' x0 lo hi tol conv n.toNat := by
  simp only [fn.FindRoot, OW.Fn.findRoot, Int.sub_zero]
  by_cases hr : (0 < f lo ∨ f hi < 0)
  · have hr' : (f lo > 0 ∨ f hi < 0) := hr
    simp [hr, hr']
  · have hr' : ¬ (f lo > 0 ∨ f hi < 0) := hr
    simp only [hr, hr', if_false, pure_eq, bind_ok, map_ok]
    -- the iteration loop (its counter is not used in the body: it may count up or down)
    refine iterate_fin f f' tol conv _ _ ?_ ?_ ?_ _ n.toNat _ x0 (f x0) ⟨lo, f lo, hi, f hi⟩ [lo, hi, x0] []
    · intro it b x delta ev
      dsimp only [osOf]
      -- the trial points of this iteration are decided first (two, or three with the Newton-Raphson point), so that the list
      -- the trial loop runs over is explicit however the source builds it (append, or a fixed array with a count)
      cases f' with
      | none => findroot_iter
      | some d =>
        by_cases c0 : Num.feq (d x) 0.0 = true
        · findroot_iter [c0]
        · have c0' : Num.feq (d x) 0.0 = false := by simpa using c0
          by_cases c1 : (b.minX < x - delta / d x ∧ x - delta / d x < b.maxX)
          · findroot_iter [c0', c1]
          · findroot_iter [c0', c1]
    · intros; rfl
    · intros; rfl

/-- `leapYear` (models/functions/dates.go) -/
theorem gen_eq_leapYear (y : Int) : functions.leapYear y = .ok (OW.Dates.leapYear y) := by
  have e4 : ¬ ((4 : Int) = 0) := by decide
  have e100 : ¬ ((100 : Int) = 0) := by decide
  have e400 : ¬ ((400 : Int) = 0) := by decide
  simp only [functions.leapYear, OW.Dates.leapYear, goMod, e4, e100, e400, if_false, bind_ok]
  -- the three tests may come in any order: a multiple of 400 is one of 100 and of 4, a multiple of 100 one of 4
  have dv : ∀ a b : Int, a ∣ b → y.tmod b = 0 → y.tmod a = 0 := fun a b hab h =>
    Int.tmod_eq_zero_of_dvd (Int.dvd_trans hab (Int.dvd_of_tmod_eq_zero h))
  have d1 := dv 4 100 (by decide)
  have d2 := dv 4 400 (by decide)
  have d3 := dv 100 400 (by decide)
  by_cases h4 : y.tmod 4 = 0 <;> by_cases h100 : y.tmod 100 = 0 <;> by_cases h400 : y.tmod 400 = 0 <;>
    simp_all

/-- `daysInMonth` (models/functions/dates.go) with the `DAYS_IN_MONTH` table of the source -/
theorem gen_eq_daysInMonth (m y : Int) : functions.daysInMonth m y = optR (OW.Dates.daysInMonth m y) := by
  simp only [functions.daysInMonth, gen_eq_leapYear, bind_ok, OW.Dates.daysInMonth, OW.Dates.dimTable]
  by_cases hm : m = 2
  · subst hm
    cases OW.Dates.leapYear y <;> simp [optR, getIdx]
  · have hm' : (m == 2) = false := by simpa using hm
    simp only [hm, hm', if_false, Bool.false_and, Bool.false_eq_true]
    by_cases hneg : m - 1 < 0
    · simp [hneg, optR, getIdx]
    · simp only [hneg, if_false, getIdx, pure_eq]
      cases [31, 28, 31, 30, 31, 30, 31, 31, 30, 31, 30, (31 : Int)][(m - 1).toNat]? <;> rfl

/-- `_dayOfYear` (models/functions/dates.go) -/
theorem gen_eq_dayOfYear (d m y : Int) : functions._dayOfYear d m y = optR (OW.Dates.dayOfYear d m y) := by
  simp only [functions._dayOfYear, OW.Dates.dayOfYear]
  rw [doy_loop y m _ ?_ (m - 1).toNat 1 0 rfl]
  · cases OW.Dates.doyLoop y m (m - 1).toNat 1 0 <;> rfl
  · intro mi s; simp only [gen_eq_daysInMonth]; rfl

end OW.Props.GenTieIndex
