import OW.Proofs.C08H5
import OW.Proofs.C08Lock
import OW.Props.C02
import OW.Gen.IoLockGraph
/-!
C08 — HDF5 array I/O round-trips and addresses exactly the selected region; every call into the (non-thread-safe)
library is made while holding the package lock, writers exclusively.

Only the property theorems (helper lemmas: `OW/Proofs/C08H5.lean`, `OW/Proofs/C08Lock.lean`). They are about

* `OW/Sim/H5.lean` — the model of `io/hdf5.go` (= every instantiation in `io/gen-hdf5.go`), `io/hdf5_util.go`,
  `conv/slices.go` over an abstract file and the SPECIFICATION of the library (regular hyperslabs, H5Dread/H5Dwrite),
  tied to the real code on every run by the H5U / H5 correspondence (real `io` compiled against the library model
  `/verif/harness/hdf5stub`, which implements the same specification);
* `OW/Sim/LockCheck.lean` + `OW/Gen/IoLockGraph.lean` — the call graph of package io, REGENERATED from the Go sources
  on every run.

`narrow = false` in the theorems: the element types float64, float32, int32, uint32, int64, uint64. For `int` and
`uint` the round trip is FALSE on the real code (known finding KF-C08-int-width, witness `narrow_roundtrip_loses_elements`).
`sliceSize` is the code as repaired by `/verif/fixes/h5_slicesize_ceil.diff` (fix commit 6552b9c;
`sliceSizeFloor_drops_last` is the counter-example for the code before the repair). `sync.RWMutex` and libhdf5 itself are trusted / modelled.
-/
namespace OW.Props.C08
open OW.Nd OW.Sim.H5 OW.Proofs.C08H5

/-! ## 1. `sliceSize`, `makeHyperslab` -/

/-- T1. For every start, stop, extent and every step ≥ 1, `sliceSize` returns the number of indices
`start, start+step, start+2·step, …` that lie below `min(stop, extent)`: `k < n ↔ start + k·step < min(stop, extent)`.
(Go `int` as ℤ; holds for stop beyond the extent, stop ≤ start, start beyond the extent.) -/
theorem sliceSize_spec (start stop step extent : Int) (hs : 1 ≤ step) :
    ∃ n : Int, sliceSize [start, stop, step] extent = .ok n ∧ 0 ≤ n ∧
      ∀ k : Int, 0 ≤ k → (k < n ↔ start + k * step < min stop extent) :=
  OW.Proofs.C08H5.sliceSize_spec start stop step extent hs

/-- T1 (defect of the code before the repair). `sliceSize` as checked in at the pinned commit rounds down: for
`[0, 5, 2]` on an extent 5 it returns 2 although the indices 0, 2, 4 are all below `min(5, 5)`. -/
theorem sliceSizeFloor_drops_last :
    sliceSizeFloor [0, 5, 2] 5 = .ok 2 ∧ (0 + 2 * 2 < min (5 : Int) 5) ∧ sliceSize [0, 5, 2] 5 = .ok 3 := by
  decide

/-- T1'. For a well-formed selection (`nil`, or `[start, stop, step]` with `start ≥ 0`, `step ≥ 1`, one entry per
dimension) `makeHyperslab` does not panic and its (offset, stride, count, block) select, by the HDF5 definition
`offset + k·stride + b (k < count, b < block)`, exactly the property's indices `start, start+step, … < min(stop, extent)`
of every dimension (all of `0 … extent-1` for a nil entry). -/
theorem makeHyperslab_spec (sel : Sel) (s : List Nat) (hl : sel.length = s.length) (hok : ∀ x ∈ sel, SelDimOK x) :
    ∃ slab, makeHyperslab sel (uintsToInts s) = .ok slab ∧
      (zip4 slab.offset slab.stride slab.count slab.block).map
        (fun (p : Nat × Nat × Nat × Nat) => dimCoords p.1 p.2.1 p.2.2.1 p.2.2.2) = selIdx sel s := by
  have h := slabDims_eq sel s [] hl hok
  simp only [List.nil_append, List.length_nil] at h
  refine ⟨_, by simp only [makeHyperslab, h, bind, Except.bind, pure, Except.pure]; rfl, ?_⟩
  rw [zip4_map, List.map_map, (selIdx_eq_trip sel s hl hok).1]
  rfl

/-- what `specIdx` (the property's "start, start+step, … < min(stop, extent)") is, as a closed form -/
theorem specIdx_spec {a b st : Int} (e : Nat) (ha : 0 ≤ a) (hs : 1 ≤ st) :
    ∃ c : Nat, specIdx e (some [a, b, st]) = (List.range c).map (fun k => a.toNat + k * st.toNat) ∧
      ∀ k : Nat, k < c ↔ a.toNat + k * st.toNat < min b.toNat e := by
  obtain ⟨c, h1, h2⟩ := sliceSize_nat a b st e ha hs
  have hst : 1 ≤ st.toNat := by omega
  have hce : c ≤ e := by
    rcases Nat.eq_zero_or_pos c with h | h
    · omega
    · have := (h2 (c - 1)).mp (by omega)
      have h3 : (c - 1) * 1 ≤ (c - 1) * st.toNat := Nat.mul_le_mul_left _ hst
      have : min b.toNat e ≤ e := Nat.min_le_right _ _
      omega
  exact ⟨c, walkIdx_eq _ _ c e _ h2 hce, h2⟩

/-! ## 2. Load with a selection = the in-memory slice -/

/-- T2. Let the file hold a dataset of shape `s` with row-major elements `v` at `path`. Then `Load()` without a
selection returns `(s, v)`, and `Load()` with a well-formed selection `sel` (one entry per dimension, at least one
non-nil; stop may exceed the extent, may be ≤ start, start may exceed the extent) returns the array
* whose shape is, per dimension, the NUMBER of indices `start, start+step, … < min(stop, extent)` (all for nil), and
* whose row-major elements are the elements of the full array at exactly those indices, in row-major order
  (`cartesian (selIdx sel s)` = all index combinations, last dimension fastest; `ravelN c s` = the row-major position
  of coordinate `c` in the full array),
i.e. exactly what slicing the loaded full array in memory with `start/step` and that count gives. -/
theorem load_selection {t : Tree} {path : String} {p : Path} {s : List Nat} {v : List Int}
    (hod : openDataset t path = .ok (p, s, v)) (hv : v.length = prodN s)
    (sel : Sel) (hl : sel.length = s.length) (hsome : sel.any Option.isSome = true)
    (hok : ∀ x ∈ sel, SelDimOK x) :
    load false (some t) path none = .ok (uintsToInts s, v) ∧
    load false (some t) path (some sel) =
      .ok ((selIdx sel s).map (fun l => ((l.length : Nat) : Int)),
           (cartesian (selIdx sel s)).map (fun c => v.getD (ravelN c s) 0)) := by
  refine ⟨load_full hod hv, ?_⟩
  have hne : sel ≠ [] := by rintro rfl; simp at hsome
  simp only [load, hod, hsome, if_true, Option.getD_some]
  exact loadSubset_spec sel s v hl hne hok

/-! ## 3. Write then Load -/

/-- T3. For EVERY source view reachable by in-bounds slicing of a root array (any rank, any layout: contiguous,
stepped, column, nested) on a well-windowed storage, and every file state: if `Write(data)` returns nil then `Load()`
of the same reference returns the shape of the view and exactly its elements in row-major order
(`getAll … (rowMajor dims)` = `Get` at every index in row-major order; uses C02 `unroll_spec`).
Datasets keep "as many elements as the shape says" (`WF`), so the theorem applies along any sequence of calls. -/
theorem write_load_roundtrip (h : Heap Int) (a : Arr) (hr : Reach a.v) (ok : ArrOK h a)
    (d d' : Disk) (path : String) (wf : ∀ t, d = some t → WF t)
    (hw : write false h a d path = (d', .ok ())) :
    ∃ vals, OW.NdC02.getAll h a (OW.NdC02.rowMajor a.v.dims) = .ok vals ∧
      load false d' path none = .ok (a.v.dims, vals) ∧ (∀ t', d' = some t' → WF t') := by
  obtain ⟨sl, vals, hu, hsv, hga, hlen, -⟩ := OW.Props.C02.unroll_spec h a hr ok
  have hpos : Pos a.v.dims := (reach_geo hr).pos_dims
  have hnn : ∀ x ∈ a.v.dims, 0 ≤ x := fun x hx => by have := hpos x hx; omega
  have huv : unrollVals h a = .ok vals := by simp [unrollVals, hu, hsv, bind, Except.bind]
  refine ⟨vals, hga, ?_⟩
  obtain ⟨t0, wf0, hopen⟩ : ∃ t0, WF t0 ∧ openW d true = (some t0, .ok t0) := by
    cases d with
    | none => exact ⟨[], fun _ _ _ hm => by simp at hm, rfl⟩
    | some t => exact ⟨t, wf t rfl, rfl⟩
  unfold write at hw
  rw [hopen] at hw
  simp only at hw
  split at hw
  · simp at hw
  · split at hw
    · simp at hw
    · simp at hw
    · rename_i t1 p hoc
      obtain ⟨hp, hpne, ⟨s, v0, hfind, hs⟩, -, hwf1⟩ := openOrCreate_ok hoc hnn
      have wf1 := hwf1 wf0
      rw [huv] at hw
      simp only [hfind] at hw
      have hlook : t1.lookup p = some (.ds s v0) := by simpa [find, hpne] using hfind
      have hv0 : v0.length = prodN s := wf_of_lookup wf1 hlook
      have hn : (prodN s : Int) = product a.v.dims := prodN_of_uintsToInts hs
      have hvl : vals.length = prodN s := by
        rw [hlen]; simp only [View.size]; omega
      have hwr : h5write v0 s .all (prodN s) (packBuf false vals) = .ok vals := by
        simp only [h5write, npoints, selValid, linear_all, packBuf]
        simp only [ne_eq, not_true_eq_false, if_false, Bool.false_eq_true]
        rw [← hv0, scatter_range v0 vals (by omega)]
      rw [hwr] at hw
      simp only [Prod.mk.injEq, and_true] at hw
      subst hw
      have hod : openDataset (setVals t1 p vals) path = .ok (p, s, vals) :=
        openDataset_eq.mpr ⟨hp, hpne, find_setVals_self vals hpne hfind⟩
      refine ⟨?_, ?_⟩
      · rw [load_full hod hvl, hs]
      · intro t' ht'
        cases ht'
        exact wf_setVals wf1 hlook hvl

/-! ## 4. WriteSlice changes exactly the block -/

/-- T4. Let the file hold a dataset `(s, v)` at `path`, `data` be any reachable source view and `loc` a location
such that the block `loc + [0, shape(data))` lies inside the dataset (same rank; `BlockIn` on the `uint` conversions the
code performs — a negative `loc` converts to a huge offset and is never inside). Then `WriteSlice(data, loc)` returns
nil and the file afterwards differs from the file before in the elements of that dataset only, where for EVERY
coordinate `c` of the dataset: the element is the row-major element `c − loc` of `data` if `c` lies in the block and is
unchanged otherwise. No other object of the file changes; the dataset keeps its shape. -/
theorem writeSlice_footprint (h : Heap Int) (a : Arr) (hr : Reach a.v) (ok : ArrOK h a)
    {t : Tree} {path : String} {p : Path} {s : List Nat} {v : List Int}
    (hod : openDataset t path = .ok (p, s, v)) (wf : WF t)
    (loc : Idx) (hb : BlockIn (intsToUints loc) (intsToUints a.v.dims) s) :
    ∃ vals v', OW.NdC02.getAll h a (OW.NdC02.rowMajor a.v.dims) = .ok vals ∧
      writeSlice false h a (some t) path loc = (some (setVals t p v'), .ok ()) ∧
      find (setVals t p v') p = some (.ds s v') ∧ v'.length = v.length ∧
      (∀ c, CoordIn c s → v'[ravelN c s]? =
        if inBlock c (intsToUints loc) (intsToUints a.v.dims) = true
        then vals[ravelN (List.zipWith (· - ·) c (intsToUints loc)) (intsToUints a.v.dims)]?
        else v[ravelN c s]?) ∧
      (∀ q, q ≠ p → find (setVals t p v') q = find t q) ∧ WF (setVals t p v') := by
  obtain ⟨sl, vals, hu, hsv, hga, hlen, -⟩ := OW.Props.C02.unroll_spec h a hr ok
  have g := reach_geo hr
  have hpos : Pos a.v.dims := g.pos_dims
  have hnn : ∀ x ∈ a.v.dims, 0 ≤ x := fun x hx => by have := hpos x hx; omega
  have huv : unrollVals h a = .ok vals := by simp [unrollVals, hu, hsv, bind, Except.bind]
  obtain ⟨hp, hpne, hfind⟩ := openDataset_eq.mp hod
  have hlook : t.lookup p = some (.ds s v) := by simpa [find, hpne] using hfind
  have hv : v.length = prodN s := wf_of_lookup wf hlook
  set ln := intsToUints loc with hln
  set dn := intsToUints a.v.dims with hdn
  obtain ⟨hl1, hl2⟩ := blockIn_lengths ln dn s hb
  have hdpos : ∀ d ∈ dn, 1 ≤ d := by
    intro d hd
    obtain ⟨x, hx, rfl⟩ := List.mem_map.mp hd
    have := hpos x hx
    rw [toUint_nonneg (by omega)]; omega
  have hvals : vals.length = prodN dn := by
    have h1 : (prodN dn : Int) = product a.v.dims := prodN_intsToUints hnn
    simp only [View.size] at hlen
    omega
  have hlnlen : ln.length = loc.length := by simp [hln, intsToUints]
  have hrank : ln.length ≠ 0 := by
    have : a.v.dims ≠ [] := g.dims_ne
    have : dn.length ≠ 0 := by
      simp only [hdn, intsToUints, List.length_map]
      exact fun h0 => this (List.length_eq_zero_iff.mp h0)
    omega
  obtain ⟨v', hw, hvl, hpt⟩ := h5write_block s ln dn v vals hb hdpos hv hvals
  have hsel : selectHyperslab s .all ln (List.replicate loc.length 1) (List.replicate loc.length 1) dn =
      .ok (.hyper ln (List.replicate ln.length 1) (List.replicate ln.length 1) dn) := by
    unfold selectHyperslab
    rw [← hlnlen]
    simp only [List.length_replicate]
    rw [if_neg hrank, if_neg (by omega), if_neg (by omega)]
    have ht1 : (List.replicate ln.length 1).take ln.length = List.replicate ln.length 1 := by
      simp [List.take_replicate]
    have ht2 : dn.take ln.length = dn := by rw [hl1, ← hl2]; exact List.take_length
    simp only [ht1, ht2]
    have h1 : (List.replicate ln.length 1).any (· == 0) = false := by
      rw [List.any_eq_false]; intro x hx; simp [List.eq_of_mem_replicate hx]
    have h2 : (zip4 ln (List.replicate ln.length 1) (List.replicate ln.length 1) dn).any
        (fun (_, s, c, b) => decide (c > 1) && decide (s < b)) = false := by
      rw [List.any_eq_false]
      intro x hx
      have : x.2.2.1 = 1 := (zip4_replicate_mem _ _ _ x hx).2
      obtain ⟨x1, x2, x3, x4⟩ := x
      simp only at this
      subst this
      simp
    have h3 : dn.any (· == 0) = false := by
      rw [List.any_eq_false]; intro x hx; have := hdpos x hx; simp; omega
    simp only [h1, h2, h3, Bool.false_eq_true, if_false, Bool.or_false]
  refine ⟨vals, v', hga, ?_, find_setVals_self v' hpne hfind, hvl, hpt,
    fun q hq => find_setVals_other t p q v' hq, wf_setVals wf hlook (by omega)⟩
  unfold writeSlice
  simp only [openW, hod, ← hln, ← hdn, hsel, huv, packBuf, Bool.false_eq_true, if_false, hw]

/-! ## 5. Create on an existing dataset -/

/-- T5. If a dataset exists at `path`: `Create` with the SAME shape returns nil and leaves the file as it is;
`Create` with a DIFFERENT shape returns the error "Cannot resize datasets" and leaves the file as it is. -/
theorem create_existing {t : Tree} {path : String} {p : Path} {s : List Nat} {v : List Int}
    (hod : openDataset t path = .ok (p, s, v)) (shape : Idx) :
    (uintsToInts s = shape → create (some t) path shape = (some t, .ok ())) ∧
    (uintsToInts s ≠ shape → create (some t) path shape = (some t, .err "shape")) := by
  constructor <;> intro hs <;> simp [create, openW, openOrCreate, hod, hs]

/-- T5'. `Create` of a path at which nothing exists yet (in a file that exists) makes a dataset of that shape that
reads as zeros, leaves every object that existed unchanged, and keeps the file well-formed (`WF`: every dataset holds
as many elements as its shape says — the hypothesis of T3/T4 on the file). Extents may be 0 (`0 ≤ x`): ow-sim creates
`count × 0 × 0` datasets for models without inputs; such a dataset reads as the empty list. -/
theorem create_new {t t' : Tree} {path : String} {shape : Idx} (hpos : ∀ x ∈ shape, 0 ≤ x)
    (hno : ∀ p s v, openDataset t path ≠ .ok (p, s, v))
    (hc : create (some t) path shape = (some t', .ok ())) :
    load false (some t') path none = .ok (shape, List.replicate (product shape).toNat 0) ∧
    (∀ r, find t r ≠ none → find t' r = find t r) ∧ (WF t → WF t') := by
  unfold create at hc
  simp only [openW] at hc
  split at hc
  · simp at hc
  · simp at hc
  · rename_i t1 p hoc
    simp only [Prod.mk.injEq, Option.some.injEq, and_true] at hc
    subst hc
    have hcd : createDs (intsToUints shape) t [] (path.splitOn "/") = (t1, .ok p) := by
      unfold openOrCreate at hoc
      split at hoc
      · rename_i p' s v hod; exact absurd hod (hno p' s v)
      · exact hoc
    obtain ⟨h1, h2, h3, h4, h5⟩ := createDs_ok _ _ _ (Nat.le_refl _) _ _ _ _ hcd
    have hp : p = splitPath path := by rw [h1, List.nil_append]; rfl
    have hpne : p ≠ [] := by rw [h1]; simpa using h2
    have hod : openDataset t1 path = .ok (p, intsToUints shape, List.replicate (prodN (intsToUints shape)) 0) :=
      openDataset_eq.mpr ⟨hp, hpne, h3⟩
    refine ⟨?_, h4, h5⟩
    have hn : prodN (intsToUints shape) = (product shape).toNat := by
      have := prodN_intsToUints hpos
      omega
    rw [load_full hod (by simp), uintsToInts_intsToUints hpos, hn]

/-! ## 6. Lock discipline -/

open OW.Sim.LockCheck in
/-- T6. Soundness of the checker, for ALL graphs: if `lockCheck G = true` then no function touches the lock
irregularly, and along EVERY call path `i₀ → i₁ → … → iₙ` of `G` that starts at an exported function, for every
library call of the last function: the strongest lock acquired (at function entry, released by a deferred call, hence
held during the whole body and all callees) by a function on the path is at least shared (`1`), and exclusive (`2`)
if the call can modify a file. -/
theorem lockCheck_sound (G : Graph) (h : lockCheck G = true) :
    (∀ f ∈ G, f.irregular = false) ∧
    ∀ (path : List Nat) (i0 : Nat) (e : Fn), IsPath G path → path.head? = some i0 → G[i0]? = some e →
      e.exported = true →
      ∀ (k : Nat) (f : Fn), path.getLast? = some k → G[k]? = some f →
        ∀ l ∈ f.lib, need l.2 ≤ heldRank G path := by
  have hv : verify G (solve G) = true := h
  constructor
  · intro f hf
    obtain ⟨i, hi, rfl⟩ := List.mem_iff_getElem.mp hf
    obtain ⟨c, ok⟩ := OW.Proofs.C08Lock.ok_of_verify hv (List.getElem?_eq_getElem hi)
    exact ok.regular
  · intro path i0 e hp hh he hexp k f hk hf l hl
    cases path with
    | nil => simp at hh
    | cons i rest =>
      simp only [List.head?_cons, Option.some.injEq] at hh
      subst hh
      obtain ⟨c, ok⟩ := OW.Proofs.C08Lock.ok_of_verify hv he
      have hc0 : c = 0 := ok.entry hexp
      have := OW.Proofs.C08Lock.path_need hv rest i 0 c hp ok.ctx_eq (by omega) k f hk hf l hl
      simpa using this

open OW.Sim.LockCheck in
/-- T6 (in words of locks). Under `lockCheck G = true`, on every call path from an exported function to a library
call some function on the path holds the package lock, and for a mutating call some function on the path holds it
exclusively. -/
theorem lockCheck_sound_locks (G : Graph) (h : lockCheck G = true)
    (path : List Nat) (i0 : Nat) (e : Fn) (hp : IsPath G path) (hh : path.head? = some i0) (he : G[i0]? = some e)
    (hexp : e.exported = true) (k : Nat) (f : Fn) (hk : path.getLast? = some k) (hf : G[k]? = some f)
    (name : String) (mutating : Bool) (hl : (name, mutating) ∈ f.lib) :
    (∃ i ∈ path, ∃ g, G[i]? = some g ∧ g.lock ≠ .none) ∧
    (mutating = true → ∃ i ∈ path, ∃ g, G[i]? = some g ∧ g.lock = .exclusive) := by
  have hn := (lockCheck_sound G h).2 path i0 e hp hh he hexp k f hk hf _ hl
  have key : ∀ (p : List Nat) (r : Nat), 1 ≤ r → r ≤ heldRank G p →
      ∃ i ∈ p, ∃ g, G[i]? = some g ∧ r ≤ g.lock.rank := by
    intro p
    induction p with
    | nil => intro r h1 h2; simp [heldRank] at h2; omega
    | cons i rest ih =>
      intro r h1 h2
      simp only [heldRank] at h2
      by_cases hi : r ≤ rankAt G i
      · simp only [rankAt] at hi
        cases hg : G[i]? with
        | none => rw [hg] at hi; simp at hi; omega
        | some g => rw [hg] at hi; exact ⟨i, by simp, g, hg, hi⟩
      · obtain ⟨j, hj, g, hg, hr⟩ := ih r h1 (by omega)
        exact ⟨j, List.mem_cons_of_mem _ hj, g, hg, hr⟩
  constructor
  · obtain ⟨i, hi, g, hg, hr⟩ := key path 1 (by omega) (by simp only [need] at hn; split at hn <;> omega)
    refine ⟨i, hi, g, hg, ?_⟩
    intro h0; rw [h0] at hr; simp [Lock.rank] at hr
  · intro hm
    subst hm
    obtain ⟨i, hi, g, hg, hr⟩ := key path 2 (by omega) (by simpa [need] using hn)
    refine ⟨i, hi, g, hg, ?_⟩
    cases hgl : g.lock <;> rw [hgl] at hr <;> simp [Lock.rank] at hr ⊢

/-- T6 (instance). The call graph of package io extracted from the CURRENT sources passes the check
(kernel evaluation on the regenerated data; the evaluation itself is the last line of the generated file
`OW/Gen/IoLockGraph.lean`, so that a failing graph is reported against the generated facts). -/
theorem current_graph_ok : OW.Sim.LockCheck.lockCheck OW.Gen.ioLockGraph = true := OW.Gen.ioLockGraph_ok

/-! ## 7. Known finding: `int` / `uint` -/

/-- KF-C08-int-width (witness). With the 8-byte Go element types `int`/`uint`, gonum creates a 4-byte dataset
(H5T_NATIVE_INT/UINT) and transfers with the dataset's type as memory type: writing `[1,2,3,4]` to a new 4-element
dataset and reading it back into a fresh array gives `[1,2,0,0]`. -/
theorem narrow_roundtrip_loses_elements :
    (do let f ← h5write [0, 0, 0, 0] [4] .all 4 (packBuf true [1, 2, 3, 4])
        let b ← h5read f [4] .all 4 (zeroBuf true 4)
        pure (unpackBuf true b) : Except String (List Int)) = .ok [1, 2, 0, 0] := by
  decide

/-! ## Non-vacuity -/

/-- `sliceSize_spec`: stop beyond the extent, step 3 with a remainder -/
example : sliceSize [1, 99, 3] 9 = .ok 3 := by decide

/-- `makeHyperslab`: a nil dimension and a stepped one -/
example : makeHyperslab [none, some [1, 9, 2]] [2, 6] =
    .ok { offset := [0, 1], stride := [1, 2], count := [2, 3], block := [1, 1] } := by decide

/-- `load_selection` (through `loadSubset`): rows all, columns 1,3,5 of a 2×6 dataset -/
example : loadSubset false [none, some [1, 9, 2]] [2, 6] [0, 1, 2, 3, 4, 5, 10, 11, 12, 13, 14, 15] =
    .ok ([2, 3], [1, 3, 5, 11, 13, 15]) := by decide

/-- the property's index set of that selection -/
example : selIdx [none, some [1, 9, 2]] [2, 6] = [[0, 1], [1, 3, 5]] := by decide

/-- `writeSlice_footprint` (through the library model): a 2×2 block at (1,1) of a 3×4 dataset -/
example : h5write (List.replicate 12 0) [3, 4] (.hyper [1, 1] [1, 1] [1, 1] [2, 2]) 4 [7, 8, 9, 10] =
    .ok [0, 0, 0, 0, 0, 7, 8, 0, 0, 9, 10, 0] := by decide

/-- a block that does not fit is refused by the library (and `WriteSlice` swallows that error: `writeSlice` returns
`.ok ()` with the file unchanged) -/
example : h5write (List.replicate 12 0) [3, 4] (.hyper [2, 3] [1, 1] [1, 1] [2, 2]) 4 [7, 8, 9, 10] = .error "sel" := by
  decide

/-- the lock checker rejects a graph whose exported writer takes only the shared lock, and one whose exported
function reaches the library without any lock -/
example : OW.Sim.LockCheck.lockCheck
    [{ name := "W", exported := true, lock := .shared, irregular := false, lib := [("Dataset.Write", true)], calls := [] }] = false := by
  decide
example : OW.Sim.LockCheck.lockCheck
    [{ name := "E", exported := true, lock := .none, irregular := false, lib := [], calls := [1] },
     { name := "helper", exported := false, lock := .none, irregular := false, lib := [("hdf5.OpenFile", false)], calls := [] }] = false := by
  decide
example : OW.Sim.LockCheck.lockCheck
    [{ name := "E", exported := true, lock := .exclusive, irregular := false, lib := [], calls := [1] },
     { name := "helper", exported := false, lock := .none, irregular := false, lib := [("Dataset.Write", true)], calls := [] }] = true := by
  decide

/-- lock helpers taking a closure (`func withLock(body func()) { lock(); defer unlock(); body() }`, any name): the
extractor makes the function literal handed to the helper a node of its own, called BY THE HELPER (whose parameter is
call-only), so it inherits the helper's lock and nothing from the function it is written in. The thin exported wrapper
`Load`, the helper, the literal and the unexported body `load` pass … -/
example : OW.Sim.LockCheck.lockCheck
    [{ name := "Load", exported := true, lock := .none, irregular := false, lib := [], calls := [3] },
     { name := "Load.func1", exported := false, lock := .none, irregular := false, lib := [], calls := [2] },
     { name := "load", exported := false, lock := .none, irregular := false, lib := [("hdf5.OpenFile", false)], calls := [] },
     { name := "withReadLock", exported := false, lock := .shared, irregular := false, lib := [], calls := [1] }] = true := by
  decide
/-- … a shared-lock helper around a mutating body does not … -/
example : OW.Sim.LockCheck.lockCheck
    [{ name := "Write", exported := true, lock := .none, irregular := false, lib := [], calls := [3] },
     { name := "Write.func1", exported := false, lock := .none, irregular := false, lib := [], calls := [2] },
     { name := "write", exported := false, lock := .none, irregular := false, lib := [("Dataset.Write", true)], calls := [] },
     { name := "withReadLock", exported := false, lock := .shared, irregular := false, lib := [], calls := [1] }] = false := by
  decide
/-- … nor does a literal that is stored and called later (the extractor marks it an entry point: no lock guaranteed),
nor a helper that releases the lock before it calls the body (`irregular`) -/
example : OW.Sim.LockCheck.lockCheck
    [{ name := "Load", exported := true, lock := .none, irregular := false, lib := [], calls := [3] },
     { name := "Load.func1", exported := true, lock := .none, irregular := false, lib := [], calls := [2] },
     { name := "load", exported := false, lock := .none, irregular := false, lib := [("hdf5.OpenFile", false)], calls := [] },
     { name := "withReadLock", exported := false, lock := .shared, irregular := false, lib := [], calls := [] }] = false := by
  decide
example : OW.Sim.LockCheck.lockCheck
    [{ name := "Load", exported := true, lock := .none, irregular := false, lib := [], calls := [3] },
     { name := "Load.func1", exported := false, lock := .none, irregular := false, lib := [], calls := [2] },
     { name := "load", exported := false, lock := .none, irregular := false, lib := [("hdf5.OpenFile", false)], calls := [] },
     { name := "withReadLock", exported := false, lock := .shared, irregular := true, lib := [], calls := [1] }] = false := by
  decide

end OW.Props.C08
