import OW.Proofs.RoundedRouting
import OW.Kernels.Lag
/-!
C11 under ROUNDED arithmetic — "StorageRouting never returns negative outflow or storage", for every rounding `R : Rounding`.

Every exit of `calcOutflow` reports an outflow that is `0`, `max(0, newStorage − S(q)) ⊘ Δt` or `max(0, …)`, so with `Δt > 0` the
outflow is non-negative whatever the solver did and however its arithmetic rounded (no assumption on the routing parameters, the
root finder, or the inputs). The reported storage is `max(…, 0)` on the zero-outflow and full-drain exits and the index storage
`S(q)` on the others; `S(q) ≥ 0` is a fact about the parameters, proved here for the zero-bias set-up (`|bias| < 0.001`, `k ≥ 0`,
dead storage ≥ 0), where `S(q) = k ⊗ q^m ⊖ 0 ⊕ dead`.

All theorems REQUIRE `Δt > 0`: the division of `RNum` is total (`x ⊘ 0 = 0`, as in `ℝ`), so at `Δt = 0` the statements would hold through
that convention, whereas the Go code computes `max(0, …)/0 = +Inf` or `0/0 = NaN` (and then panics "outflow is nan"); the helper lemmas
of OW/Proofs/RoundedRouting.lean take `0 ≤ Δt` for that reason only and are used here at `0 < Δt`.

Not restated (exact-arithmetic only): the water balance of each step, `S = k·Q^m + dead` to the solver tolerance, Muskingum's
weights summing to one (the ℝ theorems claim no sign for Muskingum). `Lag` does no arithmetic: OW/Props/C11.lean proves its
theorems (`lag_spec_outflow` …) for the generic list model, they hold verbatim for `RNum R` (and for `Float`).
-/
namespace OW.Props.Rounded.C11
open OW OW.Kernels OW.Kernels.StorageRouting OW.Rounded OW.Rounded.Routing

variable {R : Rounding}

/-- **calcOutflow under rounding**: on every exit path the outflow is non-negative (only `Δt > 0` is needed — a real divisor), and the storage is
non-negative provided the index storage `S(q)` is (parallels `OW.Props.C11.calcOutflow_nonneg`). -/
theorem calcOutflow_nonneg (inflow lateral bias prevQi po prevStorage ner area dead dur rp rc ql kl ko : RNum R)
    (r : CO (RNum R)) (hd : 0 < dur.val)
    (h : calcOutflow inflow lateral bias prevQi po prevStorage ner area dead dur rp rc ql kl ko = .ok r) :
    Good (mkCtx inflow lateral bias prevStorage ner area dead dur rp rc ql kl ko) r := by
  have hcd : 0 ≤ (mkCtx inflow lateral bias prevStorage ner area dead dur rp rc ql kl ko).duration.val := le_of_lt hd
  unfold calcOutflow at h
  simp only [runRouting_ok, RNum.isNaN_eq, Bool.or_self, Bool.false_eq_true, if_false] at h
  split_ifs at h
  · cases h
    exact ⟨by rw [RNum.sci_zero_val], fun _ => newStorage_nonneg _⟩
  · cases h
    exact good_rr _ _ _ _ hcd
  · cases h
    exact ⟨by rw [RNum.sci_zero_val], fun _ => newStorage_nonneg _⟩
  · exact solve_good _ _ _ _ r hcd h

/-- **StorageRouting never returns a negative outflow, under every rounding**: for every parameter set with `Δt > 0`, every
initial storage and every input series (any sign), every outflow of every run is non-negative; a step after a panic reports zeros.
(Parallels the outflow half of `OW.Props.C11.calcOutflow_nonneg` / `run_balance`.) -/
theorem run_outflow_nonneg (bias k x area dead dt s : RNum R) (hdt : 0 < dt.val) (xs : List (RNum R × RNum R × RNum R × RNum R)) :
    ∀ o ∈ (StorageRouting.run bias k x area dead dt s xs).2, 0 ≤ o.outflow.val := by
  unfold StorageRouting.run
  have h := scan_inv (StorageRouting.step (setup bias k x dt) k area dead dt) (fun _ => True) (fun _ => True)
    (fun _ o => 0 ≤ o.outflow.val)
    (fun st i _ _ => by
      refine ⟨trivial, ?_⟩
      obtain ⟨a, b, c, d⟩ := i
      cases st with
      | error e => exact le_refl _
      | ok s0 =>
        simp only [StorageRouting.step]
        split
        · exact le_refl _
        · rename_i r hr
          exact (calcOutflow_nonneg _ _ _ _ _ _ _ _ _ _ _ _ _ _ _ r hdt hr).1)
    xs (.ok ⟨0.0, 0.0, s, 0.0⟩) trivial (fun _ _ => trivial)
  exact fun o ho => forall₂_right (P := fun o => 0 ≤ o.outflow.val) (fun _ _ h => h) h.2 o ho

/-- **StorageRouting with zero inflow bias never returns a negative storage, under every rounding**: `|bias| < 0.001`, `k ≥ 0`,
dead storage ≥ 0, `Δt > 0` ⇒ every reported storage of every run is non-negative (any inputs, any initial storage). -/
theorem run_storage_nonneg_zero_bias (bias k x area dead dt s : RNum R) (hb : Num.abs bias < (0.001 : RNum R))
    (hk : 0 ≤ k.val) (hdead : 0 ≤ dead.val) (hdt : 0 < dt.val) (xs : List (RNum R × RNum R × RNum R × RNum R)) :
    ∀ o ∈ (StorageRouting.run bias k x area dead dt s xs).2, 0 ≤ o.storage.val := by
  unfold StorageRouting.run
  rw [setup_zero_bias bias k x dt hb]
  have h := scan_inv (StorageRouting.step ⟨0.0, x, k, (if (1.0 : RNum R) < x then 1e37 else 0.0), 0.0⟩ k area dead dt)
    (fun _ => True) (fun _ => True) (fun _ o => 0 ≤ o.storage.val)
    (fun st i _ _ => by
      refine ⟨trivial, ?_⟩
      obtain ⟨a, b, c, d⟩ := i
      cases st with
      | error e => exact le_refl _
      | ok s0 =>
        simp only [StorageRouting.step]
        split
        · exact le_refl _
        · rename_i r hr
          refine (calcOutflow_nonneg _ _ _ _ _ _ _ _ _ _ _ _ _ _ _ r hdt hr).2 (fun q => ?_)
          exact sIndex_nonneg_zero_offset _ hk hk hdead RNum.sci_zero_val q)
    xs (.ok ⟨0.0, 0.0, s, 0.0⟩) trivial (fun _ _ => trivial)
  exact fun o ho => forall₂_right (P := fun o => 0 ≤ o.storage.val) (fun _ _ h => h) h.2 o ho

/-! ### non-vacuity -/

/-- the theorems speak about real runs: over the exact rounding a one-step run has exactly one output, and it is covered -/
example (bias k x area dead dt s : RNum Rounding.exact) (hdt : 0 < dt.val) (i : RNum Rounding.exact × RNum Rounding.exact × RNum Rounding.exact × RNum Rounding.exact) :
    ∃ o, (StorageRouting.run bias k x area dead dt s [i]).2 = [o] ∧ 0 ≤ o.outflow.val := by
  refine ⟨_, rfl, run_outflow_nonneg bias k x area dead dt s hdt [i] _ ?_⟩
  simp [StorageRouting.run, scan]

/-- the zero-bias hypothesis `|bias| < 0.001` is satisfiable (bias = 0, exact rounding) and the storage theorem then applies -/
example (k x area dead dt s : RNum Rounding.exact) (hk : 0 ≤ k.val) (hdead : 0 ≤ dead.val) (hdt : 0 < dt.val)
    (i : RNum Rounding.exact × RNum Rounding.exact × RNum Rounding.exact × RNum Rounding.exact) :
    ∀ o ∈ (StorageRouting.run (RNum.ofRep 0 Rounding.exact.rep_zero) k x area dead dt s [i]).2, 0 ≤ o.storage.val :=
  run_storage_nonneg_zero_bias _ k x area dead dt s (by
    rw [RNum.lt_iff, RNum.abs_val, RNum.ofRep_val, RNum.ofScientific_val]
    show |(0 : ℝ)| < OfScientific.ofScientific 1 true 3
    norm_num) hk hdead hdt [i]

end OW.Props.Rounded.C11
