import OW.Proofs.Rounded
import OW.Kernels.Coeff
import OW.Kernels.Surm
import OW.Kernels.Simhyd
/-!
C10 under ROUNDED arithmetic — "every output is non-negative, every store stays between zero and its capacity", for every
rounding `R : Rounding`, on the same kernels as OW/Props/C10.lean.

* RunoffCoefficient: `0 ≤ runoff ≤ rainfall` for `0 ≤ coeff ≤ 1` under every rounding (no assumption on literals).
* SURM: soil store ≤ capacity, groundwater ≥ 0, runoff / quickflow / baseflow ≥ 0 hold under every rounding (with `1` and the
  parameters as for the ℝ theorem). The LOWER bound `0 ≤ soil store` additionally needs that the computed soil evaporation limit
  `10 ⊗ s ⊘ smax` does not exceed the store `s` it is taken from (`EtOk`); in exact arithmetic this is `smax ≥ 10`, with rounding it
  fails at the boundary `smax = 10` (`x*10/10 > x` for ≈ 5 % of float64 values): the real code returns a soil store of
  `−8.9e−16` mm for smax = 10, store 7.657254516291418, PET = 100, no rain (run through `owharness child K`).
* SIMHYD: stores within bounds and all outputs non-negative under every rounding for which `1` is representable and the spill
  test `sms ⊘ smsc > 1` is sound (`SimhydDivOk`: a computed ratio `≤ 1` means `sms ≤ smsc`). That holds for exact arithmetic, for
  rounding away from zero and — by the spacing of binary floats — for binary64 round-to-nearest (2·10⁶ random capacities and the
  power-of-two edges checked numerically), but NOT for truncation: there the soil store can stay one unit in the last place above
  its capacity.
* The cumulative statements (`Σ runoff ≤ Σ rain + storage`) and the component identity `runoff = quick + base` as a real-number
  identity are exact-arithmetic statements (the identity `runoff = quickflow ⊕ baseflow` holds as a rounded sum by definition).
-/
namespace OW.Props.Rounded.C10
open OW OW.Kernels OW.Rounded

variable {R : Rounding}

/-! ## RunoffCoefficient -/

/-- **coeff_bounds under rounding** (parallels `OW.Props.C10.coeff_bounds`): `0 ≤ coeff ≤ 1`, rain ≥ 0 ⇒ every output is
non-negative and at most that day's rainfall (the rainfall is representable, so it bounds the rounded product). -/
theorem coeff_bounds (c : RNum R) (hc0 : 0 ≤ c.val) (hc1 : c.val ≤ 1) (rain : List (RNum R)) :
    List.Forall₂ (fun r q => 0 ≤ r.val → 0 ≤ q.val ∧ q.val ≤ r.val) rain (Coeff.run c rain) := by
  unfold Coeff.run
  apply forall₂_map
  intro r hr
  refine ⟨RNum.mul_nonneg hc0 hr, ?_⟩
  rw [RNum.mul_val]; exact R.rnd_le r.rep (by nlinarith)

/-- zero rain ⇒ zero runoff, exactly -/
theorem coeff_zero (c r : RNum R) (hr : r.val = 0) : (c * r).val = 0 := RNum.mul_zero_val hr

/-! ## SURM -/

open Surm (Params State Out)

/-- parameters in range (as `RR.Surm.ParamsOk` at ℝ) -/
structure SurmParamsOk (p : Params (RNum R)) : Prop where
  bfac0 : 0 ≤ p.bfac.val
  coeff0 : 0 ≤ p.coeff.val
  dseep0 : 0 ≤ p.dseep.val
  fc0 : 0 ≤ p.fcFrac.val
  fimp0 : 0 ≤ p.fimp.val
  fimp1 : p.fimp.val ≤ 1
  rfac0 : 0 ≤ p.rfac.val
  rfac1 : p.rfac.val ≤ 1
  smax10 : 10 ≤ p.smax.val
  thres0 : 0 ≤ p.thres.val

/-- the soil-evaporation limit `10 ⊗ s ⊘ smax`, as computed, does not exceed the store `s` it is taken from. Exact arithmetic:
`smax ≥ 10`. binary64: true for `smax ≥ 10·(1 + 2⁻⁵¹)`, FALSE for some `s` at `smax = 10` exactly. -/
def EtOk (p : Params (RNum R)) : Prop :=
  ∀ s : RNum R, 0 ≤ s.val → s.val ≤ p.smax.val → ((10 : RNum R) * s / p.smax).val ≤ s.val

/-- upper-bound invariant: soil store ≤ capacity, groundwater ≥ 0 (holds under every rounding) -/
def SurmUpper (p : Params (RNum R)) (s : State (RNum R)) : Prop := s.sms.val ≤ p.smax.val ∧ 0 ≤ s.gw.val
/-- full invariant -/
def SurmInv (p : Params (RNum R)) (s : State (RNum R)) : Prop := 0 ≤ s.sms.val ∧ s.sms.val ≤ p.smax.val ∧ 0 ≤ s.gw.val

/-- **SURM, one step under rounding, unconditional part**: from a state with `0 ≤ soil store ≤ smax`, `groundwater ≥ 0`, with
rain ≥ 0: the new soil store is still ≤ smax, groundwater ≥ 0, and runoff, quickflow and baseflow are non-negative — for every
rounding, without any assumption on how products and quotients round. -/
theorem surm_step_upper (p : Params (RNum R)) (hp : SurmParamsOk p) (st : State (RNum R)) (x : RNum R × RNum R)
    (hs : SurmInv p st) (hr : 0 ≤ x.1.val) :
    SurmUpper p (Surm.step p st x).1 ∧
    0 ≤ (Surm.step p st x).2.runoff.val ∧ 0 ≤ (Surm.step p st x).2.quickflow.val ∧
    0 ≤ (Surm.step p st x).2.baseflow.val ∧ 0 ≤ (Surm.step p st x).2.et.val := by
  obtain ⟨rain, pet⟩ := x
  obtain ⟨hs0, hs1, hg0⟩ := hs
  simp only at hr
  simp only [Surm.step, SurmUpper]
  -- pervious fraction
  have hfperv : 0 ≤ ((1 : RNum R) - p.fimp).val := by
    have : p.fimp.val ≤ R.rnd 1 := by have := R.rnd_le_rnd hp.fimp1; rwa [p.fimp.rep] at this
    rw [RNum.sub_val, RNum.ofNat_val, Nat.cast_one]; exact R.rnd_nonneg (by linarith)
  generalize ((1 : RNum R) - p.fimp) = fperv at hfperv ⊢
  -- infiltration
  have hinf0 : 0 ≤ (Num.gmin (p.coeff * Num.exp (-p.sq * st.sms / p.smax)) rain).val := by
    rw [RNum.gmin_val]
    exact le_min (RNum.mul_nonneg hp.coeff0 (by rw [RNum.exp_val]; exact R.rnd_nonneg (Real.exp_pos _).le)) hr
  have hinf1 : (Num.gmin (p.coeff * Num.exp (-p.sq * st.sms / p.smax)) rain).val ≤ rain.val := by
    rw [RNum.gmin_val]; exact min_le_right _ _
  generalize Num.gmin (p.coeff * Num.exp (-p.sq * st.sms / p.smax)) rain = inf at hinf0 hinf1 ⊢
  have hsms1 : 0 ≤ (st.sms + inf).val := RNum.add_nonneg hs0 hinf0
  generalize st.sms + inf = sms1 at hsms1 ⊢
  -- soil store after the capacity clamp
  have hsms2 : 0 ≤ (if p.smax < sms1 then p.smax else sms1).val ∧ (if p.smax < sms1 then p.smax else sms1).val ≤ p.smax.val := by
    split_ifs with h
    · exact ⟨by linarith [hp.smax10], le_refl _⟩
    · exact ⟨hsms1, not_lt.mp h⟩
  generalize (if p.smax < sms1 then p.smax else sms1) = sms2 at hsms2 ⊢
  -- evaporation
  have het0 : 0 ≤ (Num.gmax (Num.gmin (10 * sms2 / p.smax) pet) (0.0 : RNum R)).val := by
    rw [RNum.gmax_val, RNum.sci_zero_val]; exact le_max_right _ _
  generalize Num.gmax (Num.gmin (10 * sms2 / p.smax) pet) (0.0 : RNum R) = et at het0 ⊢
  have hsms3 : (sms2 - et).val ≤ p.smax.val := by
    rw [RNum.sub_val]; exact R.rnd_le p.smax.rep (by linarith [hsms2.2])
  generalize sms2 - et = sms3 at hsms3 ⊢
  -- recharge
  have hrech0 : 0 ≤ (p.rfac * Num.gmax (sms3 - p.fcFrac * p.smax) (0.0 : RNum R)).val :=
    RNum.mul_nonneg hp.rfac0 (by rw [RNum.gmax_val, RNum.sci_zero_val]; exact le_max_right _ _)
  generalize p.rfac * Num.gmax (sms3 - p.fcFrac * p.smax) (0.0 : RNum R) = rech at hrech0 ⊢
  have hgw1 : 0 ≤ (st.gw + rech).val := RNum.add_nonneg hg0 hrech0
  generalize st.gw + rech = gw1 at hgw1 ⊢
  have hgw2 : 0 ≤ (Num.gmax (gw1 - p.dseep * gw1) (0.0 : RNum R)).val := by
    rw [RNum.gmax_val, RNum.sci_zero_val]; exact le_max_right _ _
  generalize Num.gmax (gw1 - p.dseep * gw1) (0.0 : RNum R) = gw2 at hgw2 ⊢
  have hbf0 : 0 ≤ (p.bfac * gw2).val := RNum.mul_nonneg hp.bfac0 hgw2
  generalize p.bfac * gw2 = bf0 at hbf0 ⊢
  have hq : 0 ≤ ((0.0 : RNum R) + Num.gmax (rain - p.thres) (0.0 : RNum R) * p.fimp +
      (fperv * (rain - inf) + Num.gmax (sms1 - p.smax) (0.0 : RNum R) * fperv)).val := by
    apply RNum.add_nonneg
    · apply RNum.add_nonneg (by rw [RNum.sci_zero_val])
      exact RNum.mul_nonneg (by rw [RNum.gmax_val, RNum.sci_zero_val]; exact le_max_right _ _) hp.fimp0
    · apply RNum.add_nonneg (RNum.mul_nonneg hfperv (RNum.sub_nonneg hinf1))
      exact RNum.mul_nonneg (by rw [RNum.gmax_val, RNum.sci_zero_val]; exact le_max_right _ _) hfperv
  have hb : 0 ≤ (bf0 * fperv).val := RNum.mul_nonneg hbf0 hfperv
  refine ⟨⟨?_, ?_⟩, RNum.add_nonneg hq hb, hq, hb, het0⟩
  · rw [RNum.sub_val]; exact R.rnd_le p.smax.rep (by linarith)
  · rw [RNum.gmax_val, RNum.sci_zero_val]; exact le_max_right _ _

/-- **SURM, one step under rounding, lower bound of the soil store**: if the computed evaporation limit never exceeds the
store it is taken from (`EtOk`), the soil store stays non-negative and so does the reported total store. -/
theorem surm_step_lower (p : Params (RNum R)) (hp : SurmParamsOk p) (het : EtOk p) (st : State (RNum R)) (x : RNum R × RNum R)
    (hs : SurmInv p st) (hr : 0 ≤ x.1.val) :
    0 ≤ (Surm.step p st x).1.sms.val ∧ 0 ≤ (Surm.step p st x).2.store.val := by
  obtain ⟨rain, pet⟩ := x
  obtain ⟨hs0, hs1, hg0⟩ := hs
  simp only at hr
  simp only [Surm.step]
  have hinf0 : 0 ≤ (Num.gmin (p.coeff * Num.exp (-p.sq * st.sms / p.smax)) rain).val := by
    rw [RNum.gmin_val]
    exact le_min (RNum.mul_nonneg hp.coeff0 (by rw [RNum.exp_val]; exact R.rnd_nonneg (Real.exp_pos _).le)) hr
  generalize Num.gmin (p.coeff * Num.exp (-p.sq * st.sms / p.smax)) rain = inf at hinf0 ⊢
  have hsms1 : 0 ≤ (st.sms + inf).val := RNum.add_nonneg hs0 hinf0
  generalize st.sms + inf = sms1 at hsms1 ⊢
  have hsms2 : 0 ≤ (if p.smax < sms1 then p.smax else sms1).val ∧ (if p.smax < sms1 then p.smax else sms1).val ≤ p.smax.val := by
    split_ifs with h
    · exact ⟨by linarith [hp.smax10], le_refl _⟩
    · exact ⟨hsms1, not_lt.mp h⟩
  generalize (if p.smax < sms1 then p.smax else sms1) = sms2 at hsms2 ⊢
  have het1 : (Num.gmax (Num.gmin (10 * sms2 / p.smax) pet) (0.0 : RNum R)).val ≤ sms2.val := by
    rw [RNum.gmax_val, RNum.gmin_val, RNum.sci_zero_val]
    exact max_le ((min_le_left _ _).trans (het sms2 hsms2.1 hsms2.2)) hsms2.1
  generalize Num.gmax (Num.gmin (10 * sms2 / p.smax) pet) (0.0 : RNum R) = et at het1 ⊢
  have hsms3 : 0 ≤ (sms2 - et).val := RNum.sub_nonneg het1
  generalize sms2 - et = sms3 at hsms3 ⊢
  have hfc : 0 ≤ (p.fcFrac * p.smax).val := RNum.mul_nonneg hp.fc0 (by linarith [hp.smax10])
  have hm : (Num.gmax (sms3 - p.fcFrac * p.smax) (0.0 : RNum R)).val ≤ sms3.val := by
    rw [RNum.gmax_val, RNum.sci_zero_val]
    exact max_le (RNum.sub_le_self hfc) hsms3
  have hm0 : 0 ≤ (Num.gmax (sms3 - p.fcFrac * p.smax) (0.0 : RNum R)).val := by
    rw [RNum.gmax_val, RNum.sci_zero_val]; exact le_max_right _ _
  have hrech1 : (p.rfac * Num.gmax (sms3 - p.fcFrac * p.smax) (0.0 : RNum R)).val ≤ sms3.val := by
    rw [RNum.mul_val]; exact R.rnd_le sms3.rep (by nlinarith [hp.rfac0, hp.rfac1])
  generalize p.rfac * Num.gmax (sms3 - p.fcFrac * p.smax) (0.0 : RNum R) = rech at hrech1 ⊢
  have hsms4 : 0 ≤ (sms3 - rech).val := RNum.sub_nonneg hrech1
  refine ⟨hsms4, RNum.add_nonneg hsms4 ?_⟩
  rw [RNum.gmax_val, RNum.sci_zero_val]; exact le_max_right _ _

/-- **surm_invariant under rounding** (parallels `OW.Props.C10.surm_invariant`): parameters in range, rain ≥ 0, initial stores
within bounds, and the evaporation limit well-behaved (`EtOk`): after every run `0 ≤ soil store ≤ smax`, groundwater ≥ 0, and every
output (runoff, quickflow, baseflow, reported store, evaporation) is non-negative — for every rounding. -/
theorem surm_invariant (p : Params (RNum R)) (hp : SurmParamsOk p) (het : EtOk p) (s : State (RNum R)) (hs : SurmInv p s)
    (xs : List (RNum R × RNum R)) (hx : ∀ x ∈ xs, 0 ≤ x.1.val) :
    SurmInv p (Surm.run p s xs).1 ∧
    ∀ o ∈ (Surm.run p s xs).2, 0 ≤ o.runoff.val ∧ 0 ≤ o.quickflow.val ∧ 0 ≤ o.baseflow.val ∧ 0 ≤ o.store.val ∧ 0 ≤ o.et.val := by
  have h := scan_inv (Surm.step p) (SurmInv p) (fun x => 0 ≤ x.1.val)
    (fun _ o => 0 ≤ o.runoff.val ∧ 0 ≤ o.quickflow.val ∧ 0 ≤ o.baseflow.val ∧ 0 ≤ o.store.val ∧ 0 ≤ o.et.val)
    (fun s x hs hx => by
      obtain ⟨⟨u1, u2⟩, a, b, c, d⟩ := surm_step_upper p hp s x hs hx
      obtain ⟨l1, l2⟩ := surm_step_lower p hp het s x hs hx
      exact ⟨⟨l1, u1, u2⟩, a, b, c, l2, d⟩) xs s hs hx
  exact ⟨h.1, fun o ho => forall₂_right
    (P := fun o => 0 ≤ o.runoff.val ∧ 0 ≤ o.quickflow.val ∧ 0 ≤ o.baseflow.val ∧ 0 ≤ o.store.val ∧ 0 ≤ o.et.val)
    (fun _ _ h => h) h.2 o ho⟩

/-- `EtOk` is exactly `smax ≥ 10` in exact arithmetic: the rounded theorem specialises to the ℝ one -/
theorem etOk_exact (p : Params (RNum Rounding.exact)) (h10 : 10 ≤ p.smax.val) : EtOk p := by
  intro s hs0 _
  have hpos : (0 : ℝ) < p.smax.val := by linarith
  show ((10 : ℕ) : ℝ) * s.val / p.smax.val ≤ s.val
  rw [div_le_iff₀ hpos]
  push_cast
  nlinarith

/-! ## SIMHYD -/

/-- parameters in range (as `RR.Simhyd.ParamsOk` at ℝ) -/
structure SimhydParamsOk (p : Simhyd.Params (RNum R)) : Prop where
  bfc0 : 0 ≤ p.baseflowCoefficient.val
  bfc1 : p.baseflowCoefficient.val ≤ 1
  imp0 : 0 ≤ p.imperviousThreshold.val
  inf0 : 0 ≤ p.infiltrationCoefficient.val
  int0 : 0 ≤ p.interflowCoefficient.val
  int1 : p.interflowCoefficient.val ≤ 1
  pf0 : 0 ≤ p.perviousFraction.val
  pf1 : p.perviousFraction.val ≤ 1
  risc0 : 0 ≤ p.risc.val
  rch0 : 0 ≤ p.rechargeCoefficient.val
  rch1 : p.rechargeCoefficient.val ≤ 1
  smsc0 : 0 < p.smsc.val

/-- the spill test `sms ⊘ smsc > 1` of the code detects every store above capacity: a computed ratio `≤ 1` means `sms ≤ smsc`.
Exact arithmetic: trivially true. binary64 round-to-nearest: true (two distinct floats `a > b > 0` have `a/b ≥ 1 + 2⁻⁵³·(1+…)`,
which does not round to 1). Round-toward-zero / truncating grids: FALSE (`fl(a/b) = 1` for the float `a` just above `b`), and
then the soil store can stay one ulp above its capacity. -/
def SimhydDivOk (p : Simhyd.Params (RNum R)) : Prop :=
  ∀ a : RNum R, (a / p.smsc).val ≤ 1 → a.val ≤ p.smsc.val

/-- stores within bounds (as `RR.Simhyd.Inv` at ℝ) -/
def SimhydInv (p : Simhyd.Params (RNum R)) (s : Simhyd.State (RNum R)) : Prop :=
  0 ≤ s.sms.val ∧ s.sms.val ≤ p.smsc.val ∧ 0 ≤ s.gw.val

/-- **SIMHYD, one step under rounding** (parallels `RR.Simhyd.step_spec`, inequality clauses): parameters in range, `1`
representable, the spill test sound (`SimhydDivOk`), rain, PET ≥ 0 and stores within bounds ⇒ the stores stay within bounds
(`0 ≤ soil store ≤ capacity`, groundwater ≥ 0) and runoff, quickflow, baseflow, the reported store and the (ghost)
evapotranspiration are non-negative, the reported store ≤ capacity. -/
theorem simhyd_step (p : Simhyd.Params (RNum R)) (hp : SimhydParamsOk p) (h1 : R.Rep 1) (hdiv : SimhydDivOk p)
    (st : Simhyd.State (RNum R)) (x : RNum R × RNum R) (hs : SimhydInv p st) (hx : 0 ≤ x.1.val ∧ 0 ≤ x.2.val) :
    SimhydInv p (Simhyd.step p st x).1 ∧
    0 ≤ (Simhyd.step p st x).2.runoff.val ∧ 0 ≤ (Simhyd.step p st x).2.quickflow.val ∧
    0 ≤ (Simhyd.step p st x).2.baseflow.val ∧ 0 ≤ (Simhyd.step p st x).2.store.val ∧
    (Simhyd.step p st x).2.store.val ≤ p.smsc.val ∧ 0 ≤ (Simhyd.step p st x).2.aet.val := by
  obtain ⟨rain, pet⟩ := x
  obtain ⟨hs0, hs1, hg0⟩ := hs
  obtain ⟨hr, hpet⟩ := hx
  simp only at hr hpet
  have one_val : ((1 : RNum R)).val = 1 := by rw [RNum.ofNat_val, Nat.cast_one]; exact h1
  simp only [Simhyd.step, SimhydInv]
  -- impervious part
  have hie0 : 0 ≤ (Num.gmin p.imperviousThreshold rain).val := by rw [RNum.gmin_val]; exact le_min hp.imp0 hr
  have hie1 : (Num.gmin p.imperviousThreshold rain).val ≤ rain.val := by rw [RNum.gmin_val]; exact min_le_right _ _
  generalize Num.gmin p.imperviousThreshold rain = impEt at hie0 hie1 ⊢
  have hir : 0 ≤ (rain - impEt).val := RNum.sub_nonneg hie1
  generalize rain - impEt = impRunoff at hir ⊢
  -- interception
  have hic0 : 0 ≤ (Num.gmin rain (Num.gmin pet p.risc)).val := by
    simp only [RNum.gmin_val]; exact le_min hr (le_min hpet hp.risc0)
  have hic1 : (Num.gmin rain (Num.gmin pet p.risc)).val ≤ rain.val := by rw [RNum.gmin_val]; exact min_le_left _ _
  have hic2 : (Num.gmin rain (Num.gmin pet p.risc)).val ≤ pet.val := by
    simp only [RNum.gmin_val]; exact (min_le_right _ _).trans (min_le_left _ _)
  generalize Num.gmin rain (Num.gmin pet p.risc) = intEt at hic0 hic1 hic2 ⊢
  have hthr : 0 ≤ (rain - intEt).val := RNum.sub_nonneg hic1
  generalize rain - intEt = thr at hthr ⊢
  -- soil moisture fraction
  have hf0 : 0 ≤ (st.sms / p.smsc).val := RNum.div_nonneg hs0 hp.smsc0.le
  have hf1 : (st.sms / p.smsc).val ≤ 1 := RNum.div_le_one hp.smsc0 hs1 h1
  generalize st.sms / p.smsc = smf0 at hf0 hf1 ⊢
  -- infiltration
  have hinf0 : 0 ≤ (Num.gmin thr (p.infiltrationCoefficient * Num.exp (-p.infiltrationShape * smf0))).val := by
    rw [RNum.gmin_val]
    exact le_min hthr (RNum.mul_nonneg hp.inf0 (by rw [RNum.exp_val]; exact R.rnd_nonneg (Real.exp_pos _).le))
  have hinf1 : (Num.gmin thr (p.infiltrationCoefficient * Num.exp (-p.infiltrationShape * smf0))).val ≤ thr.val := by
    rw [RNum.gmin_val]; exact min_le_left _ _
  generalize Num.gmin thr (p.infiltrationCoefficient * Num.exp (-p.infiltrationShape * smf0)) = inf at hinf0 hinf1 ⊢
  have hxs : 0 ≤ (thr - inf).val := RNum.sub_nonneg hinf1
  generalize thr - inf = infXs at hxs ⊢
  obtain ⟨hint0, hint1⟩ := frac_mul_bounds h1 p.interflowCoefficient smf0 inf hp.int0 hp.int1 hf0 hf1 hinf0
  generalize p.interflowCoefficient * smf0 * inf = interflow at hint0 hint1 ⊢
  have hia : 0 ≤ (inf - interflow).val := RNum.sub_nonneg hint1
  generalize inf - interflow = infAfter at hia ⊢
  obtain ⟨hrec0, hrec1⟩ := frac_mul_bounds h1 p.rechargeCoefficient smf0 infAfter hp.rch0 hp.rch1 hf0 hf1 hia
  generalize p.rechargeCoefficient * smf0 * infAfter = recharge at hrec0 hrec1 ⊢
  have hsi : 0 ≤ (infAfter - recharge).val := RNum.sub_nonneg hrec1
  generalize infAfter - recharge = soilInput at hsi ⊢
  have hsms1 : 0 ≤ (st.sms + soilInput).val := RNum.add_nonneg hs0 hsi
  generalize st.sms + soilInput = sms1 at hsms1 ⊢
  have hgw1 : 0 ≤ (st.gw + recharge).val := RNum.add_nonneg hg0 hrec0
  generalize st.gw + recharge = gw1 at hgw1 ⊢
  -- spill test: in both branches 0 ≤ sms2 ≤ smsc, 0 ≤ gw2, 0 ≤ smf2
  have hspill : 0 ≤ (if (1 : RNum R) < sms1 / p.smsc then p.smsc else sms1).val ∧
      (if (1 : RNum R) < sms1 / p.smsc then p.smsc else sms1).val ≤ p.smsc.val ∧
      0 ≤ (if (1 : RNum R) < sms1 / p.smsc then gw1 + (sms1 - p.smsc) else gw1).val ∧
      0 ≤ (if (1 : RNum R) < sms1 / p.smsc then (1 : RNum R) else sms1 / p.smsc).val := by
    split_ifs with hsp
    · rw [RNum.lt_iff, one_val] at hsp
      have hgt : p.smsc.val < sms1.val := by
        have : (1 : ℝ) < sms1.val / p.smsc.val := by
          rw [RNum.div_val] at hsp; rw [← h1] at hsp; exact R.lt_of_rnd_lt hsp
        rwa [lt_div_iff₀ hp.smsc0, one_mul] at this
      exact ⟨hp.smsc0.le, le_refl _, RNum.add_nonneg hgw1 (RNum.sub_nonneg hgt.le), by rw [one_val]; norm_num⟩
    · rw [RNum.lt_iff, one_val, not_lt] at hsp
      exact ⟨hsms1, hdiv sms1 hsp, hgw1, RNum.div_nonneg hsms1 hp.smsc0.le⟩
  obtain ⟨h20, h21, hgw2, hsmf2⟩ := hspill
  generalize (if (1 : RNum R) < sms1 / p.smsc then p.smsc else sms1) = sms2 at h20 h21 ⊢
  generalize (if (1 : RNum R) < sms1 / p.smsc then gw1 + (sms1 - p.smsc) else gw1) = gw2 at hgw2 ⊢
  generalize (if (1 : RNum R) < sms1 / p.smsc then (1 : RNum R) else sms1 / p.smsc) = smf2 at hsmf2 ⊢
  -- baseflow
  have hbf0 : 0 ≤ (p.baseflowCoefficient * gw2).val := RNum.mul_nonneg hp.bfc0 hgw2
  have hbf1 : (p.baseflowCoefficient * gw2).val ≤ gw2.val := by
    rw [RNum.mul_val]; exact R.rnd_le gw2.rep (by nlinarith [hp.bfc0, hp.bfc1])
  generalize p.baseflowCoefficient * gw2 = bf at hbf0 hbf1 ⊢
  have hgw3 : 0 ≤ (gw2 - bf).val := RNum.sub_nonneg hbf1
  -- soil ET
  have hset0 : 0 ≤ (Num.gmin sms2 (Num.gmin (pet - intEt) (smf2 * Simhyd.soilEtConst))).val := by
    simp only [RNum.gmin_val]
    exact le_min h20 (le_min (RNum.sub_nonneg hic2) (RNum.mul_nonneg hsmf2 (RNum.sci_nonneg _ _ _)))
  have hset1 : (Num.gmin sms2 (Num.gmin (pet - intEt) (smf2 * Simhyd.soilEtConst))).val ≤ sms2.val := by
    rw [RNum.gmin_val]; exact min_le_left _ _
  generalize Num.gmin sms2 (Num.gmin (pet - intEt) (smf2 * Simhyd.soilEtConst)) = soilEt at hset0 hset1 ⊢
  have hsms3 : 0 ≤ (sms2 - soilEt).val := RNum.sub_nonneg hset1
  have hsms3' : (sms2 - soilEt).val ≤ p.smsc.val := by
    rw [RNum.sub_val]; exact R.rnd_le p.smsc.rep (by linarith)
  -- outputs
  have h1pf : 0 ≤ ((1 : RNum R) - p.perviousFraction).val := by
    rw [RNum.sub_val, one_val]; exact R.rnd_nonneg (by linarith [hp.pf1])
  have hev : 0 ≤ ((1 - p.perviousFraction) * impRunoff + p.perviousFraction * (infXs + interflow)).val :=
    RNum.add_nonneg (RNum.mul_nonneg h1pf hir) (RNum.mul_nonneg hp.pf0 (RNum.add_nonneg hxs hint0))
  exact ⟨⟨hsms3, hsms3', hgw3⟩, RNum.add_nonneg hev (RNum.mul_nonneg hp.pf0 hbf0), hev, RNum.mul_nonneg hbf0 hp.pf0,
    hsms3, hsms3', RNum.add_nonneg (RNum.mul_nonneg h1pf hie0) (RNum.mul_nonneg hp.pf0 (RNum.add_nonneg hic0 hset0))⟩

/-- **simhyd_invariant under rounding** (parallels `OW.Props.C10.simhyd_invariant`): along every run the stores stay within
bounds and every output is non-negative, the reported store ≤ capacity. -/
theorem simhyd_invariant (p : Simhyd.Params (RNum R)) (hp : SimhydParamsOk p) (h1 : R.Rep 1) (hdiv : SimhydDivOk p)
    (s : Simhyd.State (RNum R)) (hs : SimhydInv p s) (xs : List (RNum R × RNum R)) (hx : ∀ x ∈ xs, 0 ≤ x.1.val ∧ 0 ≤ x.2.val) :
    SimhydInv p (Simhyd.run p s xs).1 ∧
    ∀ o ∈ (Simhyd.run p s xs).2, 0 ≤ o.runoff.val ∧ 0 ≤ o.quickflow.val ∧ 0 ≤ o.baseflow.val ∧ 0 ≤ o.store.val ∧
      o.store.val ≤ p.smsc.val ∧ 0 ≤ o.aet.val := by
  have h := scan_inv (Simhyd.step p) (SimhydInv p) (fun x => 0 ≤ x.1.val ∧ 0 ≤ x.2.val)
    (fun _ o => 0 ≤ o.runoff.val ∧ 0 ≤ o.quickflow.val ∧ 0 ≤ o.baseflow.val ∧ 0 ≤ o.store.val ∧
      o.store.val ≤ p.smsc.val ∧ 0 ≤ o.aet.val)
    (fun s x hs hx => simhyd_step p hp h1 hdiv s x hs hx) xs s hs hx
  exact ⟨h.1, fun o ho => forall₂_right
    (P := fun o => 0 ≤ o.runoff.val ∧ 0 ≤ o.quickflow.val ∧ 0 ≤ o.baseflow.val ∧ 0 ≤ o.store.val ∧
      o.store.val ≤ p.smsc.val ∧ 0 ≤ o.aet.val) (fun _ _ h => h) h.2 o ho⟩

/-- `SimhydDivOk` holds whenever rounding never lowers a positive value (`x ≤ rnd x` for `x > 0`): exact arithmetic, rounding
away from zero -/
theorem simhydDivOk_of_le_rnd (p : Simhyd.Params (RNum R)) (hpos : 0 < p.smsc.val) (hup : ∀ x : ℝ, x ≤ R.rnd x ∨ x ≤ 0) :
    SimhydDivOk p := by
  intro a ha
  rw [RNum.div_val] at ha
  rcases hup (a.val / p.smsc.val) with h | h
  · have : a.val / p.smsc.val ≤ 1 := h.trans ha
    rwa [div_le_one hpos] at this
  · have : a.val ≤ 0 := by
      by_contra hc
      exact absurd h (not_le.mpr (div_pos (not_le.mp hc) hpos))
    linarith

/-! ### non-vacuity -/


/-- runoff coefficient 1 on the grid: 7 mm of rain give between 0 and 7 mm of runoff -/
example : List.Forall₂ (fun r q => 0 ≤ r.val → 0 ≤ q.val ∧ q.val ≤ r.val) [t10 7, t10 0] (Coeff.run (t10 1) [t10 7, t10 0]) :=
  coeff_bounds (t10 1) (by rw [t10_val]; norm_num) (by rw [t10_val]; norm_num) _

/-- the exact rounding satisfies the hypotheses `Rep 1` and `SimhydDivOk` of the SIMHYD theorems -/
example (p : Simhyd.Params (RNum Rounding.exact)) (hpos : 0 < p.smsc.val) : Rounding.exact.Rep 1 ∧ SimhydDivOk p :=
  ⟨rfl, simhydDivOk_of_le_rnd p hpos (fun x => Or.inl (le_refl x))⟩

/-- truncation toward zero satisfies `EtOk` for every `smax ≥ 10` (each rounding step only lowers the non-negative value):
the hypotheses of `surm_invariant` are satisfiable under a non-trivial rounding -/
theorem etOk_trunc (s : ℕ) (hs : 0 < s) (p : Params (RNum (Rounding.trunc s hs))) (h10 : 10 ≤ p.smax.val) : EtOk p := by
  intro x hx0 _
  have hpos : (0 : ℝ) < p.smax.val := by linarith
  have hdown : ∀ y : ℝ, 0 ≤ y → (Rounding.trunc s hs).rnd y ≤ y := fun y hy => Rounding.trunc_le s hs hy
  have h10' : (Rounding.trunc s hs).rnd ((10 : ℕ) : ℝ) = 10 := by
    have : (Rounding.trunc s hs).rnd ((10 : ℤ) : ℝ) = ((10 : ℤ) : ℝ) := Rounding.trunc_rep_int s hs 10
    exact_mod_cast this
  rw [RNum.div_val, RNum.mul_val, RNum.ofNat_val, h10']
  have h1 : (Rounding.trunc s hs).rnd (10 * x.val) ≤ 10 * x.val := hdown _ (by positivity)
  have h1' : 0 ≤ (Rounding.trunc s hs).rnd (10 * x.val) := (Rounding.trunc s hs).rnd_nonneg (by positivity)
  refine (hdown _ (div_nonneg h1' hpos.le)).trans ?_
  rw [div_le_iff₀ hpos]
  nlinarith

/-- the hypotheses of `surm_invariant` are met on the truncating grid: integer parameters in range (smax = 150), the model's own
empty initial state, a wet day and a dry day -/
example : ∃ p : Surm.Params (RNum T10), SurmParamsOk p ∧ EtOk p ∧ SurmInv p ⟨t10 0, t10 0, t10 0⟩ ∧
    SurmInv p (Surm.run p ⟨t10 0, t10 0, t10 0⟩ [(t10 10, t10 2), (t10 0, t10 3)]).1 := by
  refine ⟨⟨t10 0, t10 100, t10 0, t10 0, t10 0, t10 1, t10 150, t10 3, t10 2⟩, ?_, ?_, ?_, ?_⟩
  · constructor <;> simp only [t10_val] <;> norm_num
  · exact etOk_trunc 10 (by norm_num) _ (by simp only [t10_val]; norm_num)
  · refine ⟨?_, ?_, ?_⟩ <;> simp only [t10_val] <;> norm_num
  · refine (surm_invariant _ ?_ (etOk_trunc 10 (by norm_num) _ (by simp only [t10_val]; norm_num)) _ ?_ _ ?_).1
    · constructor <;> simp only [t10_val] <;> norm_num
    · refine ⟨?_, ?_, ?_⟩ <;> simp only [t10_val] <;> norm_num
    · intro x hx
      simp only [List.mem_cons, List.not_mem_nil, or_false] at hx
      rcases hx with rfl | rfl <;> (simp only [t10_val]; norm_num)

/-- `SimhydDivOk` holds under a non-trivial rounding: away from zero on the tenths grid -/
example (p : Simhyd.Params (RNum (Rounding.away 10 (by norm_num)))) (hpos : 0 < p.smsc.val) : SimhydDivOk p :=
  simhydDivOk_of_le_rnd p hpos (fun x => by
    rcases le_total 0 x with h | h
    · exact Or.inl (Rounding.le_away 10 (by norm_num) h)
    · exact Or.inr h)

end OW.Props.Rounded.C10
