import OW.Proofs.RoundedSediment
/-!
C16 under ROUNDED arithmetic, sediment generation — "every generated load is non-negative when its drivers are", for every
rounding `R : Rounding`, on the BankErosion, DynamicSednetGully(Alt) and USLEFineSedimentGeneration kernels (parallels
`bankErosion_nonneg`, `bankErosion_series_nonneg`, `gully_nonneg`, `usle_nonneg` of OW/Props/C16/{Sediment,Usle}.lean).
`math.Pow` / `math.Cos` are idealised as correctly rounded; only `x^y ≥ 0 for x ≥ 0` is used.

The fine/coarse split computes the coarse share as `1 − fineFraction` with `fineFraction = percent ⊗ 0.01` (BankErosion) or
`percent ⊘ 100` (gully). The quotient form is `≤ 1` after rounding for every rounding (`100` representable). The product form
needs `percent ⊗ 0.01 ≤ 1` AS COMPUTED: `0.01` is not a binary float (binary64 rounds it UP), so `100 × fl(0.01) > 1` in exact
arithmetic and the bound holds in binary64 only because that product rounds back to exactly `1.0`; under a rounding that rounds
it up the coarse load for `soilPercentFine = 100` would be negative. The theorem carries that condition as a hypothesis.
The identities (fine + coarse = total, delivered = generated × ratio, fine-fraction split) are exact-arithmetic only.
-/
namespace OW.Props.Rounded.C16
open OW OW.Kernels OW.Rounded OW.Rounded.Sediment

variable {R : Rounding}

/-! ### BankErosion -/

/-- **BankErosion under rounding, one timestep** (parallels `bankErosion_nonneg`): non-negative mean annual erosion and time step, `0 ≤ soilPercentFine` and the computed fine fraction `soilPercentFine ⊗ 0.01 ≤ 1` ⇒ fine and coarse
loads are non-negative. (`≤ 1` holds in binary64 for every `soilPercentFine ≤ 100` because `fl(100 × fl(0.01)) = 1.0` and the
product is monotone; it is a hypothesis here because it is not a consequence of monotone rounding.) -/
theorem bankErosion_nonneg (p : BankErosion.Params (RNum R)) (ma : RNum R) (hma : 0 ≤ ma.val)
    (hpf0 : 0 ≤ p.soilPercentFine.val) (hfrac : (p.soilPercentFine * Units.percentToProportion).val ≤ 1)
    (hdt : 0 ≤ p.durationInSeconds.val) (x : RNum R × RNum R) :
    0 ≤ (BankErosion.step p ma x).1.val ∧ 0 ≤ (BankErosion.step p ma x).2.val := by
  obtain ⟨outflow, tv⟩ := x
  have ht : 0 ≤ (BankErosion.totalKgPerSecond p ma (outflow, tv)).val := by
    simp only [BankErosion.totalKgPerSecond]
    exact RNum.div_nonneg (RNum.mul_nonneg (RNum.div_nonneg (RNum.mul_nonneg hma (bank_ldf_nonneg p hdt outflow tv))
      (RNum.sci_nonneg _ _ _)) (RNum.ofNat_nonneg _)) hdt
  simp only [BankErosion.step]
  exact ⟨RNum.mul_nonneg ht (RNum.mul_nonneg hpf0 (RNum.sci_nonneg _ _ _)),
    RNum.mul_nonneg ht (one_sub_nonneg_of_le_one _ hfrac)⟩

/-- the mean annual bank erosion is non-negative for parameters in range (riparian vegetation ≤ 100 %, everything else ≥ 0;
`100` representable) -/
theorem bank_meanAnnual_nonneg (p : BankErosion.Params (RNum R)) (h100 : R.Rep 100)
    (h1 : p.riparianVegPercent.val ≤ 100) (h2 : 0 ≤ p.soilErodibility.val) (h3 : 0 ≤ p.bankErosionCoeff.val)
    (h4 : 0 ≤ p.linkSlope.val) (h5 : 0 ≤ p.bankFullFlow.val) (h6 : 0 ≤ p.bankMgtFactor.val) (h7 : 0 ≤ p.sedBulkDensity.val)
    (h8 : 0 ≤ p.bankHeight.val) (h9 : 0 ≤ p.linkLength.val) : 0 ≤ (BankErosion.meanAnnualBankErosion p).val := by
  have e100 : R.rnd ((100 : ℕ) : ℝ) = 100 := by exact_mod_cast h100
  have hveg : 0 ≤ ((1 : RNum R) - Num.gmin (p.riparianVegPercent / 100) (p.maxRiparianVegEffectiveness / 100)).val := by
    apply one_sub_nonneg_of_le_rnd_one
    rw [RNum.gmin_val]
    refine (min_le_left _ _).trans ?_
    rw [RNum.div_val, RNum.ofNat_val, e100]
    exact R.rnd_le_rnd (by rw [div_le_one (by norm_num)]; exact h1)
  simp only [BankErosion.meanAnnualBankErosion]
  exact RNum.mul_nonneg (RNum.mul_nonneg (RNum.mul_nonneg (RNum.mul_nonneg h7 h8) h9)
    (RNum.mul_nonneg (RNum.mul_nonneg (RNum.mul_nonneg (RNum.mul_nonneg (RNum.mul_nonneg h3 (RNum.sci_nonneg _ _ _))
      (RNum.sci_nonneg _ _ _)) h4) h5) h6))
    (RNum.mul_nonneg hveg (RNum.div_nonneg h2 (RNum.ofNat_nonneg _)))

/-- **BankErosion under rounding, whole series** (parallels `bankErosion_series_nonneg`) -/
theorem bankErosion_series_nonneg (p : BankErosion.Params (RNum R)) (q v : List (RNum R)) (h100 : R.Rep 100)
    (h1 : p.riparianVegPercent.val ≤ 100) (h2 : 0 ≤ p.soilErodibility.val) (h3 : 0 ≤ p.bankErosionCoeff.val)
    (h4 : 0 ≤ p.linkSlope.val) (h5 : 0 ≤ p.bankFullFlow.val) (h6 : 0 ≤ p.bankMgtFactor.val) (h7 : 0 ≤ p.sedBulkDensity.val)
    (h8 : 0 ≤ p.bankHeight.val) (h9 : 0 ≤ p.linkLength.val)
    (hpf0 : 0 ≤ p.soilPercentFine.val) (hfrac : (p.soilPercentFine * Units.percentToProportion).val ≤ 1)
    (hdt : 0 ≤ p.durationInSeconds.val) :
    List.Forall₂ (fun (_ : RNum R × RNum R) (o : RNum R × RNum R) => 0 ≤ o.1.val ∧ 0 ≤ o.2.val)
      (q.zip v) (BankErosion.run p q v) := by
  unfold BankErosion.run
  apply forall₂_map
  intro x
  exact bankErosion_nonneg p _ (bank_meanAnnual_nonneg p h100 h1 h2 h3 h4 h5 h6 h7 h8 h9) hpf0 hfrac hdt x

/-- zero driver ⇒ zero load, exactly (parallels `bankErosion_zero_driver`): no outflow, no volume or no long-term flow, for a
positive time step (the total is `0 ⊘ Δt`; for `Δt = 0` IEEE-754 gives NaN — the `RNum` quotient by 0 follows the ℝ convention,
so the hypothesis is what keeps the statement honest) -/
theorem bankErosion_zero_driver (p : BankErosion.Params (RNum R)) (ma outflow tv : RNum R)
    (hdt : 0 < p.durationInSeconds.val)
    (h : outflow.val ≤ 0 ∨ tv.val ≤ 0 ∨ p.longTermAvDailyFlow.val ≤ 0) :
    (BankErosion.step p ma (outflow, tv)).1.val = 0 ∧ (BankErosion.step p ma (outflow, tv)).2.val = 0 := by
  have _hne : p.durationInSeconds.val ≠ 0 := ne_of_gt hdt   -- the divisor of `0 ⊘ Δt`
  have hl : (BankErosion.linkDischargeFactor p outflow tv).val = 0 := by
    unfold BankErosion.linkDischargeFactor
    rw [if_pos]
    · exact RNum.nat_zero_val
    · simp only [Bool.or_eq_true, decide_eq_true_eq, RNum.le_iff, RNum.nat_zero_val]; tauto
  have ht : (BankErosion.totalKgPerSecond p ma (outflow, tv)).val = 0 := by
    simp only [BankErosion.totalKgPerSecond]
    have a : (ma * BankErosion.linkDischargeFactor p outflow tv).val = 0 := RNum.mul_zero_val hl
    have b : (ma * BankErosion.linkDischargeFactor p outflow tv / Units.daysPerYear).val = 0 := by
      rw [RNum.div_val, a, zero_div, R.rnd_zero]
    have c : (ma * BankErosion.linkDischargeFactor p outflow tv / Units.daysPerYear * Units.tonnesToKg).val = 0 :=
      RNum.zero_mul_val b
    rw [RNum.div_val, c, zero_div, R.rnd_zero]
  simp only [BankErosion.step]
  exact ⟨RNum.zero_mul_val ht, RNum.zero_mul_val ht⟩

/-! ### DynamicSednetGully / DynamicSednetGullyAlt -/

/-- **Gully models under rounding, one timestep** (parallels `gully_nonneg`): time step, area ≥ 0, `0 ≤ percentFine ≤ 100`
(`100` representable), non-negative activity factor, management factor, supply and delivery ratios, non-negative runoff, annual
runoff and annual load ⇒ delivered and generated fine and coarse loads are non-negative, for both export functions. -/
theorem gully_nonneg (alt : Bool) (p : SednetGully.Params (RNum R)) (h100 : R.Rep 100)
    (hts : 0 ≤ p.timestepInSeconds.val) (harea : 0 ≤ p.area.val)
    (hpf0 : 0 ≤ p.percentFine.val) (hpf1 : p.percentFine.val ≤ 100) (haf : 0 ≤ p.averageGullyActivityFactor.val)
    (hmpf : 0 ≤ p.managementPracticeFactor.val) (hsup : 0 ≤ p.annualAverageSedimentSupply.val)
    (hsf : 0 ≤ p.sdrFine.val) (hsc : 0 ≤ p.sdrCoarse.val)
    (q yr ar al : RNum R) (hq : 0 ≤ q.val) (har : 0 ≤ ar.val) (hal : 0 ≤ al.val) :
    let o := SednetGully.step (if alt then SednetGully.gullyLoadDerm else SednetGully.gullyLoadOrig) p (q, yr, ar, al)
    0 ≤ o.fineLoad.val ∧ 0 ≤ o.coarseLoad.val ∧ 0 ≤ o.generatedFine.val ∧ 0 ≤ o.generatedCoarse.val := by
  have e100 : R.rnd ((100 : ℕ) : ℝ) = 100 := by exact_mod_cast h100
  have hprop0 : 0 ≤ (p.percentFine / 100).val := RNum.div_nonneg hpf0 (RNum.ofNat_nonneg _)
  have hprop1 : (p.percentFine / 100).val ≤ R.rnd 1 := by
    rw [RNum.div_val, RNum.ofNat_val, e100]
    exact R.rnd_le_rnd (by rw [div_le_one (by norm_num)]; exact hpf1)
  have hact : 0 ≤ (SednetGully.activityFactor p yr).val := by
    unfold SednetGully.activityFactor; split_ifs
    · exact haf
    · exact RNum.sci_nonneg _ _ _
  cases alt
  · exact gully_step_nonneg SednetGully.gullyLoadOrig p hts hsf hsc q yr ar al
      (gullyLoadOrig_nonneg q ar p.area _ _ _ al _ _ _ hq hprop0 hprop1 hact hmpf hsup)
  · exact gully_step_nonneg SednetGully.gullyLoadDerm p hts hsf hsc q yr ar al
      (gullyLoadDerm_nonneg q ar p.area _ _ _ al _ _ _ hq har harea hprop0 hprop1 hact hmpf hal)

/-- **Gully models under rounding, whole series** (parallels `gully_series_nonneg`) -/
theorem gully_series_nonneg (alt : Bool) (p : SednetGully.Params (RNum R)) (h100 : R.Rep 100)
    (hts : 0 ≤ p.timestepInSeconds.val) (harea : 0 ≤ p.area.val)
    (hpf0 : 0 ≤ p.percentFine.val) (hpf1 : p.percentFine.val ≤ 100) (haf : 0 ≤ p.averageGullyActivityFactor.val)
    (hmpf : 0 ≤ p.managementPracticeFactor.val) (hsup : 0 ≤ p.annualAverageSedimentSupply.val)
    (hsf : 0 ≤ p.sdrFine.val) (hsc : 0 ≤ p.sdrCoarse.val) (q yr ar al : List (RNum R)) :
    List.Forall₂ (fun (x : RNum R × RNum R × RNum R × RNum R) (o : SednetGully.Out (RNum R)) =>
        0 ≤ x.1.val → 0 ≤ x.2.2.1.val → 0 ≤ x.2.2.2.val →
        0 ≤ o.fineLoad.val ∧ 0 ≤ o.coarseLoad.val ∧ 0 ≤ o.generatedFine.val ∧ 0 ≤ o.generatedCoarse.val)
      (zip4 q yr ar al)
      (SednetGully.run (if alt then SednetGully.gullyLoadDerm else SednetGully.gullyLoadOrig) p q yr ar al) := by
  unfold SednetGully.run
  apply forall₂_map
  rintro ⟨a, b, c, d⟩ h1 h2 h3
  exact gully_nonneg alt p h100 hts harea hpf0 hpf1 haf hmpf hsup hsf hsc a b c d h1 h2 h3

/-! ### USLEFineSedimentGeneration -/

/-- **USLE under rounding, one timestep** (parallels `usle_nonneg`): for non-negative baseflow, KLSC values with
`KLSC_Fine ≤ KLSC`, non-negative area, maxConc, delivery ratios, DWC and time step, all eight outputs are non-negative —
whatever the sign of the erosivity `R` (on an event day `R ⊗ KLSC > 0` forces `R > 0`; the coarse rate `R⊗KLSC ⊖ R⊗KLSC_Fine` is
non-negative because the two products are rounded monotonically). -/
theorem usle_nonneg (p : UsleFine.Params (RNum R)) (i : UsleFine.In (RNum R))
    (hts : 0 ≤ p.timeStepInSeconds.val) (harea : 0 ≤ p.area.val) (hmax : 0 ≤ p.maxConc.val) (hdwc : 0 ≤ p.dwc.val)
    (hhf : 0 ≤ p.usleHSDRFine.val) (hhc : 0 ≤ p.usleHSDRCoarse.val)
    (hsf : 0 ≤ i.sf.val) (hk : 0 ≤ i.klsc.val) (hkf0 : 0 ≤ i.klscFine.val) (hkf1 : i.klscFine.val ≤ i.klsc.val) :
    0 ≤ (UsleFine.step p i).quickLoadFine.val ∧ 0 ≤ (UsleFine.step p i).slowLoadFine.val ∧
    0 ≤ (UsleFine.step p i).quickLoadCoarse.val ∧ 0 ≤ (UsleFine.step p i).slowLoadCoarse.val ∧
    0 ≤ (UsleFine.step p i).totalFineLoad.val ∧ 0 ≤ (UsleFine.step p i).totalCoarseLoad.val ∧
    0 ≤ (UsleFine.step p i).generatedLoadFine.val ∧ 0 ≤ (UsleFine.step p i).generatedLoadCoarse.val := by
  have hS : 0 ≤ (p.dwc * i.sf * Units.mgPerLitreToKgPerM3).val :=
    RNum.mul_nonneg (RNum.mul_nonneg hdwc hsf) (RNum.sci_nonneg _ _ _)
  have h001 : 0 ≤ (0.01 : RNum R).val := RNum.sci_nonneg _ _ _
  have hz : 0 ≤ (0.0 : RNum R).val := by rw [RNum.sci_zero_val]
  simp only [UsleFine.step, Bool.false_eq_true, if_false]
  generalize UsleFine.rFactor p i.rain i.doy = r
  split_ifs with hc
  · simp only [Bool.and_eq_true, decide_eq_true_eq, RNum.gt_iff, RNum.nat_zero_val] at hc
    obtain ⟨hq, ht⟩ := hc
    have hrpos : 0 < r.val := by
      by_contra hh
      have : r.val * i.klsc.val ≤ 0 := mul_nonpos_of_nonpos_of_nonneg (not_lt.mp hh) hk
      exact absurd ht (not_lt.mpr (by rw [RNum.mul_val]; exact R.rnd_nonpos this))
    have hF : 0 ≤ (r * i.klscFine).val := RNum.mul_nonneg hrpos.le hkf0
    have hC : 0 ≤ (r * i.klsc - r * i.klscFine).val := RNum.sub_nonneg (RNum.mul_le_mul_left hrpos.le hkf1)
    obtain ⟨a1, a2⟩ := usle_adjustedRates_nonneg p i.qf _ _ hq.le hF hC harea hmax
    generalize UsleFine.adjustedRates p i.qf (r * i.klscFine) (r * i.klsc - r * i.klscFine) = rates at a1 a2 ⊢
    have kF : 0 ≤ (rates.1 * p.area * Units.squareMetresToHectares * Units.tonnesToKg).val :=
      RNum.mul_nonneg (RNum.mul_nonneg (RNum.mul_nonneg a1 harea) (RNum.sci_nonneg _ _ _)) (RNum.ofNat_nonneg _)
    have kC : 0 ≤ (rates.2 * p.area * Units.squareMetresToHectares * Units.tonnesToKg).val :=
      RNum.mul_nonneg (RNum.mul_nonneg (RNum.mul_nonneg a2 harea) (RNum.sci_nonneg _ _ _)) (RNum.ofNat_nonneg _)
    have qF := RNum.div_nonneg (RNum.mul_nonneg kF (RNum.mul_nonneg hhf h001)) hts
    have qC := RNum.div_nonneg (RNum.mul_nonneg kC (RNum.mul_nonneg hhc h001)) hts
    exact ⟨qF, hS, qC, hz, RNum.add_nonneg qF hS, RNum.add_nonneg qC hz, RNum.div_nonneg kF hts, RNum.div_nonneg kC hts⟩
  · have z0 : 0 ≤ ((0.0 : RNum R) / p.timeStepInSeconds).val := RNum.div_nonneg hz hts
    exact ⟨by rw [RNum.nat_zero_val], hS, z0, hz, RNum.add_nonneg (by rw [RNum.nat_zero_val]) hS, RNum.add_nonneg z0 hz, z0, z0⟩

/-- **USLE under rounding, whole series** (parallels `usle_series_nonneg`) -/
theorem usle_series_nonneg (p : UsleFine.Params (RNum R)) (xs : List (UsleFine.In (RNum R)))
    (hts : 0 ≤ p.timeStepInSeconds.val) (harea : 0 ≤ p.area.val) (hmax : 0 ≤ p.maxConc.val) (hdwc : 0 ≤ p.dwc.val)
    (hhf : 0 ≤ p.usleHSDRFine.val) (hhc : 0 ≤ p.usleHSDRCoarse.val) :
    List.Forall₂ (fun (i : UsleFine.In (RNum R)) (o : UsleFine.Out (RNum R)) =>
        0 ≤ i.sf.val → 0 ≤ i.klsc.val → 0 ≤ i.klscFine.val → i.klscFine.val ≤ i.klsc.val →
        0 ≤ o.quickLoadFine.val ∧ 0 ≤ o.slowLoadFine.val ∧ 0 ≤ o.quickLoadCoarse.val ∧ 0 ≤ o.slowLoadCoarse.val ∧
        0 ≤ o.totalFineLoad.val ∧ 0 ≤ o.totalCoarseLoad.val ∧ 0 ≤ o.generatedLoadFine.val ∧ 0 ≤ o.generatedLoadCoarse.val)
      xs (UsleFine.run p xs) := by
  unfold UsleFine.run
  apply forall₂_map
  intro i h1 h2 h3 h4
  exact usle_nonneg p i hts harea hmax hdwc hhf hhc h1 h2 h3 h4

/-! ### non-vacuity -/

/-- the hypothesis `soilPercentFine ⊗ 0.01 ≤ 1` of `bankErosion_nonneg` holds in exact arithmetic for every percentage ≤ 100 -/
example (pc : RNum Rounding.exact) (h : pc.val ≤ 100) : (pc * Units.percentToProportion).val ≤ 1 := by
  show pc.val * (OfScientific.ofScientific 1 true 2 : ℝ) ≤ 1
  norm_num; linarith
/-- `Rep 100` holds on the truncating grid -/
example : (Rounding.trunc 10 (by norm_num)).Rep 100 := by
  show (Rounding.trunc 10 (by norm_num)).rnd 100 = 100
  exact_mod_cast (Rounding.trunc_rep_int 10 (by norm_num) 100 :
    (Rounding.trunc 10 (by norm_num)).rnd ((100 : ℤ) : ℝ) = ((100 : ℤ) : ℝ))

/-- … and under every truncating grid (each rounding step only lowers the value, and `0.01` is rounded down): the hypothesis of
`bankErosion_nonneg` is satisfiable under a non-trivial rounding -/
example (s : ℕ) (hs : 0 < s) (pc : RNum (Rounding.trunc s hs)) (h0 : 0 ≤ pc.val) (h : pc.val ≤ 100) :
    (pc * Units.percentToProportion).val ≤ 1 := by
  have hlit : (Units.percentToProportion : RNum (Rounding.trunc s hs)).val ≤ 1 / 100 := by
    unfold Units.percentToProportion
    rw [RNum.ofScientific_val]
    refine (Rounding.trunc_le s hs (by norm_num)).trans (le_of_eq (by norm_num))
  have hlit0 : 0 ≤ (Units.percentToProportion : RNum (Rounding.trunc s hs)).val := RNum.sci_nonneg _ _ _
  rw [RNum.mul_val]
  refine (Rounding.trunc_le s hs (mul_nonneg h0 hlit0)).trans ?_
  nlinarith

end OW.Props.Rounded.C16
