import OW.Proofs.RoundedClimate
/-!
C20 under ROUNDED arithmetic — the order clauses of the derived climate variables, for every rounding `R : Rounding`.

* The wet-bulb bisection starts at the dew point with width `dry − dew` and only ever moves its left end by ADDING a width of the
  same sign: under every rounding the wet bulb is on the dry-bulb side of the dew point (`dew ≤ dry ⇒ dew ≤ wet`;
  `dry ≤ dew ⇒ wet ≤ dew`). This is one half of `OW.Props.C20.wetbulb_between`, for an arbitrary searched function.
* The other half (`wet ≤ dry` when `dew ≤ dry`) is NOT a consequence of monotone rounding: it needs the halving `dx·0.5` and the
  accumulated sums to stay inside the bracket, which an abstract rounding does not give. `bisect_overshoots_away2` exhibits a
  legitimate `Rounding` (half-integers, away from zero) on which the bisection walks past the right end of its bracket because
  `dx·0.5` rounds back up to `dx` and the accuracy exit never fires. For binary64 `dx·0.5` is exact (no underflow: the loop
  exits at `|dx| < 1e-4`) and the bound holds on all generated cases (oracle of check C20); it stays an exact-arithmetic theorem.
* The reported depression `deltaT = dry ⊖ wet` has the sign of `dry − wet` (a rounded difference never changes sign).
* Saturation vapour pressure is non-negative (`101.325 ⊗ 10^…`; strict positivity can be lost to underflow, monotonicity in the
  temperature is a statement about the real functions `pow`/`log10` composed with ten roundings and is not claimed).
-/
namespace OW.Props.Rounded.C20
open OW OW.Kernels.Climate OW.Rounded OW.Rounded.ClimateWalk

variable {R : Rounding}

/-- the literal `0.5` is non-negative after rounding -/
theorem half_nonneg : 0 ≤ (0.5 : RNum R).val := RNum.sci_nonneg _ _ _

/-- **left end of the bracket, non-negative width** (parallels `OW.Props.C20.bisect_between_nonneg`, lower half): for ANY
searched function, level and iteration count, with `dx ≥ 0` the result is at least the starting point. -/
theorem bisect_ge_start (f : RNum R → RNum R) (h : RNum R) (n : Nat) (rtb dx : RNum R) (hdx : 0 ≤ dx.val) :
    rtb.val ≤ (bisect f h n rtb dx).val := by
  induction n generalizing rtb dx with
  | zero => simp only [bisect]; exact le_refl _
  | succ n ih =>
    simp only [bisect]
    have h2 : 0 ≤ (dx * 0.5).val := RNum.mul_nonneg hdx half_nonneg
    have hmid : rtb.val ≤ (rtb + dx * 0.5).val := RNum.le_add_right h2
    split_ifs
    · exact hmid
    · exact le_refl _
    · exact hmid.trans (ih _ _ h2)
    · exact ih _ _ h2

/-- **left end of the bracket, non-positive width** (parallels `bisect_between_nonpos`, upper half) -/
theorem bisect_le_start (f : RNum R → RNum R) (h : RNum R) (n : Nat) (rtb dx : RNum R) (hdx : dx.val ≤ 0) :
    (bisect f h n rtb dx).val ≤ rtb.val := by
  induction n generalizing rtb dx with
  | zero => simp only [bisect]; exact le_refl _
  | succ n ih =>
    simp only [bisect]
    have h2 : (dx * 0.5).val ≤ 0 := by
      rw [RNum.mul_val]; exact R.rnd_nonpos (mul_nonpos_of_nonpos_of_nonneg hdx half_nonneg)
    have hmid : (rtb + dx * 0.5).val ≤ rtb.val := by
      rw [RNum.add_val]; exact R.rnd_le rtb.rep (by linarith)
    split_ifs
    · exact hmid
    · exact le_refl _
    · exact (ih _ _ h2).trans hmid
    · exact ih _ _ h2

/-- **wet bulb on the dry-bulb side of the dew point, under every rounding** (one half of `OW.Props.C20.wetbulb_between`): for
any dry bulb, dew point, enthalpy and pressure — any enthalpy / humidity-ratio / vapour-pressure functions and any rounding of
them — `dew ≤ dry ⇒ dew ≤ wet` and `dry ≤ dew ⇒ wet ≤ dew`. -/
theorem wetbulb_side (tDryBulb tDewPoint hEnthalpy pAtmosphere : RNum R) :
    (tDewPoint.val ≤ tDryBulb.val → tDewPoint.val ≤ (wetBulb tDryBulb tDewPoint hEnthalpy pAtmosphere).val) ∧
    (tDryBulb.val ≤ tDewPoint.val → (wetBulb tDryBulb tDewPoint hEnthalpy pAtmosphere).val ≤ tDewPoint.val) := by
  unfold wetBulb
  exact ⟨fun h => bisect_ge_start _ _ _ _ _ (RNum.sub_nonneg h), fun h => bisect_le_start _ _ _ _ _ (RNum.sub_nonpos h)⟩

/-- the same for the values the kernel reports for one sample, with the sign of the reported depression:
`deltaT = dry ⊖ wet` is non-negative exactly when `wet ≤ dry` can be read off the outputs (parallels `sample_wetbulb_between`,
`deltaT_def`) -/
theorem sample_order (pa t rh : RNum R) :
    ((sample pa t rh).dewPoint.val ≤ t.val → (sample pa t rh).dewPoint.val ≤ (sample pa t rh).wetBulb.val) ∧
    (t.val ≤ (sample pa t rh).dewPoint.val → (sample pa t rh).wetBulb.val ≤ (sample pa t rh).dewPoint.val) ∧
    (sample pa t rh).deltaT.val = R.rnd (t.val - (sample pa t rh).wetBulb.val) ∧
    ((sample pa t rh).wetBulb.val ≤ t.val → 0 ≤ (sample pa t rh).deltaT.val) ∧
    (t.val ≤ (sample pa t rh).wetBulb.val → (sample pa t rh).deltaT.val ≤ 0) ∧
    ((sample pa t rh).deltaT.val < 0 → t.val < (sample pa t rh).wetBulb.val) := by
  have hw := wetbulb_side t (dewPoint t rh) (enthalpy t (humidityRatioActual t rh pa)) pa
  refine ⟨hw.1, hw.2, rfl, fun h => RNum.sub_nonneg h, fun h => RNum.sub_nonpos h, fun h => ?_⟩
  by_contra hc
  exact absurd (RNum.sub_nonneg (not_lt.mp hc)) (not_le.mpr h)

/-- **saturation vapour pressure is non-negative under every rounding** (parallels `OW.Props.C20.vp_pos`, weakened from `<` to `≤`:
the product can underflow to 0). Needs only that the literals `101.325` and `10` are non-negative after rounding. -/
theorem vp_nonneg (t : RNum R) : 0 ≤ (vaporPressure t).val := by
  unfold vaporPressure
  simp only
  split_ifs <;>
  · apply RNum.mul_nonneg (RNum.sci_nonneg _ _ _)
    rw [RNum.pow_val]
    exact R.rnd_nonneg (Real.rpow_nonneg (RNum.ofNat_nonneg 10) _)

/-! ### the upper half of the bracket is not a theorem of monotone rounding -/

/-- **the bisection can leave its bracket under a legitimate rounding**: on the half-integer grid with rounding away from zero, the
40-iteration wet-bulb bisection started at 0 with width 1 (bracket `[0, 1]`) returns 20. -/
theorem bisect_overshoots_away2 : (bisect fLow (g 2) 40 (g 0) (g 2)).val = 20 := by
  have hfirst : (g 2 * (0.5 : RNum A2)) = g 1 := by
    apply RNum.ext
    rw [RNum.mul_val, g_val, a2_half, a2_rnd (by norm_num), g_val]
    have : ⌈((2 : ℤ) : ℝ) / 2 * (1 / 2) * 2⌉ = 1 := by rw [Int.ceil_eq_iff]; norm_num
    rw [this]
  have h1 : ∀ n : Nat, bisect fLow (g 2) (n + 1) (g 0) (g 2) = bisect fLow (g 2) n (g 1) (g 1) := by
    intro n
    simp only [bisect, hfirst, a2_add 0 (le_refl _)]
    rw [if_pos (a2_moves _), if_neg]
    · rfl
    · rw [RNum.lt_iff, RNum.abs_val, g_val, a2_acc]; norm_num
  rw [show (40 : Nat) = 39 + 1 from rfl, h1 39, a2_walk 39 1 (by norm_num), g_val]; norm_num

/-! ### non-vacuity -/


/-- the side theorem on a concrete bracket of the truncating grid: dew point 2 ≤ dry bulb 9 ⇒ 2 ≤ wet bulb -/
example (hE pa : RNum T10) : (2 : ℝ) ≤ (wetBulb (t10 9) (t10 2) hE pa).val := by
  have h := (wetbulb_side (t10 9) (t10 2) hE pa).1 (by simp only [t10_val]; norm_num)
  simpa only [t10_val, Int.cast_ofNat] using h

end OW.Props.Rounded.C20
