import OW.Proofs.RoundedStorage
/-!
C13 under ROUNDED arithmetic — "volume never becomes negative" and "spill only occurs above the full-supply volume", for every
rounding `R : Rounding`, on the Storage kernel of OW/Kernels/Storage.lean.

The volume is protected by an explicit test (`if volume < 0 { panic }`) and the spilled volume by a clamp
(`max(min(excess, volume − fullSupply), 0)`), so both clauses are independent of how the sub-step arithmetic rounds:
whenever the run returns, every reported volume and the final volume are non-negative (for a non-negative initial volume and
full-supply volume), the spilled volume of a sub-step is non-negative, never exceeds the updated volume, and is non-zero only when
the updated volume exceeds the full-supply volume.

Not restated (exact-arithmetic only): the water balance of each timestep, release between the release curves, termination/fuel
bounds, "the spill never takes the volume below full supply" (after rounding `v ⊖ (v ⊖ full)` may be one ulp below `full`).
-/
namespace OW.Props.Rounded.C13
open OW OW.Kernels OW.Kernels.Storage OW.Rounded OW.Rounded.Storage

variable {R : Rounding}

/-- **spill block under rounding** (parallels `OW.Proofs.Storage.spill_spec` / `OW.Props.C13.substep_spill_only_above_full`): for a
non-negative updated volume `v` and full-supply volume, the spilled volume is non-negative, the volume after spilling is
non-negative and not above `v`, and the spilled volume is non-zero (and the spill branch taken) only above full supply. -/
theorem spill_spec (t : Tables (RNum R)) (v q sub : RNum R) (hv : 0 ≤ v.val) (hfull : 0 ≤ t.volCurveMax.val) :
    0 ≤ (spill t v q sub).1.val ∧ 0 ≤ (spill t v q sub).2.1.val ∧ (spill t v q sub).2.1.val ≤ v.val ∧
    ((spill t v q sub).1.val ≠ 0 → t.volCurveMax.val < v.val) ∧
    ((spill t v q sub).2.2 = true → t.volCurveMax.val < v.val) :=
  spill_spec_r t v q sub hv hfull

/-- **volume_nonneg, one timestep, under rounding** (parallels `OW.Props.C13.step_volume_nonneg`) -/
theorem step_volume_nonneg (t : Tables (RNum R)) (keep : Bool) (fo fi : Nat) (deltaT volume : RNum R) (tags : List String)
    (i : StepIn (RNum R)) (v' : RNum R) (tg : List String) (o : StepOut (RNum R))
    (hfull : 0 ≤ t.volCurveMax.val) (hv : 0 ≤ volume.val)
    (h : step t keep fo fi deltaT volume tags i = .ok (v', tg, o)) : 0 ≤ v'.val ∧ 0 ≤ o.volume.val :=
  step_volume_nonneg_r t keep fo fi deltaT volume tags i v' tg o hfull hv h

/-- **volume_nonneg under rounding** (parallels `OW.Props.C13.volume_nonneg`): starting from a non-negative volume, with a
non-negative full-supply volume, every reported volume and the final volume of every run that returns are non-negative —
for every rounding, every table, every input series (any sign), every fuel. -/
theorem volume_nonneg (t : Tables (RNum R)) (keep : Bool) (fo fi : Nat) (deltaT v0 : RNum R) (ins : List (StepIn (RNum R)))
    (r : RunOut (RNum R)) (hfull : 0 ≤ t.volCurveMax.val) (hv : 0 ≤ v0.val)
    (h : Storage.run t keep fo fi deltaT v0 ins = .ok r) : 0 ≤ r.volume.val ∧ ∀ o ∈ r.outs, 0 ≤ o.volume.val := by
  simp only [Storage.run, bind, Except.bind] at h
  cases hS : steps t keep fo fi deltaT v0 [] ins with
  | error e => rw [hS] at h; cases h
  | ok r1 =>
    obtain ⟨v, tg, os⟩ := r1
    rw [hS] at h; simp only at h
    split at h
    · cases h
    · split at h
      · cases h
      · simp only [pure, Except.pure, Except.ok.injEq] at h
        subst h
        exact steps_volume_nonneg t keep fo fi deltaT hfull ins v0 [] v tg os hv hS

/-! ### non-vacuity -/


/-- a spill on the grid: updated volume 12 above full supply 10 — the hypotheses of `spill_spec` are satisfiable and the
spill branch is taken -/
example : ∃ t : Tables (RNum T10), 0 ≤ t.volCurveMax.val ∧ t.volCurveMax.val < (t10 12).val ∧
    0 ≤ (spill t (t10 12) (t10 0) (t10 1)).2.1.val :=
  ⟨⟨[], [], [], [], [], t10 0, t10 10, t10 5⟩, by simp only [t10_val]; norm_num, by simp only [t10_val]; norm_num,
    (spill_spec _ _ _ _ (by rw [t10_val]; norm_num) (by simp only [t10_val]; norm_num)).2.1⟩
/-- an empty input series returns at once: `volume_nonneg` is about runs that exist -/
example (t : Tables (RNum Rounding.exact)) (dt v0 : RNum Rounding.exact) :
    steps t false 10 10 dt v0 [] [] = .ok (v0, [], []) := rfl

end OW.Props.Rounded.C13
