import OW.Proofs.Rounded
import OW.Kernels.C16.Partitions
import OW.Kernels.C16.Conversions
import OW.Kernels.C16.LoadGen
/-!
C16 under ROUNDED arithmetic — the inequality clauses of the partition / conversion / generation kernels, proved for EVERY
rounding `R : Rounding` (monotone, odd, idempotent, fixing 0; IEEE-754 round-to-nearest without overflow/NaN is one — see
OW/Proofs/Rounded.lean) on the SAME kernel definitions that are proved at ℝ in OW/Props/C16/*.lean and executed at `Float`.

What is NOT restated here because it is false under rounding: the budget identities `output1 + output2 = input`
(FixedPartition, VariablePartition, RatingCurvePartition, PartitionDemand `outflow + extraction = input`) and the exact linear
forms `load = flow·conc·1e-3` (the product is rounded twice and `0.001` is not a binary float).
-/
namespace OW.Props.Rounded.C16
open OW OW.Kernels OW.Rounded

variable {R : Rounding}

/-! ### PartitionDemand -/

/-- **PartitionDemand under rounding**, one timestep (parallels `OW.Props.C16.partitionDemand_spec`): extraction ≤ demand,
extraction ≤ input, outflow ≥ 0 — for every input and demand (zero and negative demand included) — and, when the demand is
not negative, outflow ≤ max(input, 0) (rounding `input - extraction` cannot create water). The clause
`outflow + extraction = input` of the ℝ theorem is not claimed: the subtraction is rounded. -/
theorem partitionDemand_step (inp dmd : RNum R) :
    (PartitionDemand.step (inp, dmd)).2.val ≤ dmd.val ∧ (PartitionDemand.step (inp, dmd)).2.val ≤ inp.val ∧
    0 ≤ (PartitionDemand.step (inp, dmd)).1.val ∧
    (0 ≤ dmd.val → (PartitionDemand.step (inp, dmd)).1.val ≤ max inp.val 0) := by
  simp only [PartitionDemand.step, RNum.gmin_val, RNum.gmax_val, RNum.sub_val, RNum.sci_zero_val]
  refine ⟨min_le_left _ _, min_le_right _ _, le_max_right _ _, fun hd => ?_⟩
  apply max_le _ (le_max_right _ _)
  by_cases hi : 0 ≤ inp.val
  · exact (R.rnd_le inp.rep (by linarith [le_min hd hi])).trans (le_max_left _ _)
  · have : min dmd.val inp.val = inp.val := min_eq_right (by linarith)
    rw [this, sub_self, R.rnd_zero]; exact le_max_right _ _

/-- PartitionDemand under rounding, whole series -/
theorem partitionDemand_spec (input demand : List (RNum R)) :
    List.Forall₂ (fun (x : RNum R × RNum R) (o : RNum R × RNum R) =>
        o.2.val ≤ x.2.val ∧ o.2.val ≤ x.1.val ∧ 0 ≤ o.1.val ∧ (0 ≤ x.2.val → o.1.val ≤ max x.1.val 0))
      (input.zip demand) (PartitionDemand.run input demand) := by
  unfold PartitionDemand.run
  apply forall₂_map
  rintro ⟨inp, dmd⟩
  exact partitionDemand_step inp dmd

/-- PartitionDemand under rounding: a demand that is met exactly leaves exactly nothing (`a ⊖ a = 0`), and a demand of zero
passes the (non-negative) input through unchanged (`a ⊖ 0 = a` for representable `a`) -/
theorem partitionDemand_exact_ends (inp dmd : RNum R) :
    (dmd.val = inp.val → (PartitionDemand.step (inp, dmd)).1.val = 0) ∧
    (dmd.val = 0 → 0 ≤ inp.val → (PartitionDemand.step (inp, dmd)).1.val = inp.val) := by
  simp only [PartitionDemand.step, RNum.gmin_val, RNum.gmax_val, RNum.sub_val, RNum.sci_zero_val]
  refine ⟨fun h => ?_, fun h hi => ?_⟩
  · rw [h, min_self, sub_self, R.rnd_zero, max_self]
  · rw [h, min_eq_left hi, sub_zero, inp.rep, max_eq_left hi]

/-! ### FixedPartition, VariablePartition -/

/-- one partition step `(x·f, x·(1 - f))` under rounding: with `x ≥ 0` and `0 ≤ f ≤ 1` both parts are non-negative and the
first does not exceed the input; with `1` representable the second does not exceed the input either. (`f ≤ 1` gives
`f ≤ rnd 1` because `f` itself is representable, so `1 ⊖ f ≥ 0` needs no assumption on the literal.) -/
theorem partition_step (x f : RNum R) (hx : 0 ≤ x.val) (hf0 : 0 ≤ f.val) (hf1 : f.val ≤ 1) :
    0 ≤ (x * f).val ∧ 0 ≤ (x * (1 - f)).val ∧ (x * f).val ≤ x.val ∧ (R.Rep 1 → (x * (1 - f)).val ≤ x.val) := by
  have hf1' : f.val ≤ R.rnd 1 := by have := R.rnd_le_rnd hf1; rwa [f.rep] at this
  have h1f : 0 ≤ ((1 : RNum R) - f).val := by
    rw [RNum.sub_val, RNum.ofNat_val, Nat.cast_one]; exact R.rnd_nonneg (by linarith)
  refine ⟨RNum.mul_nonneg hx hf0, RNum.mul_nonneg hx h1f, RNum.mul_le_of_le_one hx hf1, fun h1 => ?_⟩
  apply RNum.mul_le_of_le_one hx
  rw [RNum.sub_val, RNum.ofNat_val, Nat.cast_one, h1]
  exact R.rnd_le h1 (by linarith)

/-- **FixedPartition under rounding** (the ℝ theorem `fixedPartition_sum` is an identity and does not survive; these bounds
do): for `0 ≤ fraction ≤ 1`, every non-negative input is split into two non-negative parts, neither larger than the input
(the bound on the second part assumes the literal `1` representable). -/
theorem fixedPartition_bounds (fraction : RNum R) (h0 : 0 ≤ fraction.val) (h1 : fraction.val ≤ 1) (input : List (RNum R)) :
    List.Forall₂ (fun (x : RNum R) (o : RNum R × RNum R) =>
        0 ≤ x.val → 0 ≤ o.1.val ∧ 0 ≤ o.2.val ∧ o.1.val ≤ x.val ∧ (R.Rep 1 → o.2.val ≤ x.val))
      input (FixedPartition.run fraction input) := by
  unfold FixedPartition.run
  apply forall₂_map
  intro x hx
  exact partition_step x fraction hx h0 h1

/-- **VariablePartition under rounding**: as `fixedPartition_bounds`, with a fraction per timestep -/
theorem variablePartition_bounds (input fraction : List (RNum R)) :
    List.Forall₂ (fun (x : RNum R × RNum R) (o : RNum R × RNum R) =>
        0 ≤ x.1.val → 0 ≤ x.2.val → x.2.val ≤ 1 →
          0 ≤ o.1.val ∧ 0 ≤ o.2.val ∧ o.1.val ≤ x.1.val ∧ (R.Rep 1 → o.2.val ≤ x.1.val))
      (input.zip fraction) (VariablePartition.run input fraction) := by
  unfold VariablePartition.run
  apply forall₂_map
  rintro ⟨x, f⟩ hx h0 h1
  exact partition_step x f hx h0 h1

/-- a zero input is split into two zeros whatever the fraction (`0 ⊗ y = 0` exactly) -/
theorem fixedPartition_zero (fraction x : RNum R) (hx : x.val = 0) :
    (FixedPartition.step fraction x).1.val = 0 ∧ (FixedPartition.step fraction x).2.val = 0 := by
  simp only [FixedPartition.step]
  exact ⟨RNum.zero_mul_val hx, RNum.zero_mul_val hx⟩

/-! ### ApplyScalingFactor / DeliveryRatio, DepthToRate, Sum, Gate, ComputeProportion -/

/-- **ApplyScalingFactor / DeliveryRatio under rounding** (parallels `applyScaling_linear`, whose exact product form is
rounded here): zero input ⇒ zero output; non-negative input and scale ⇒ non-negative output; a scale ≤ 1 (a delivery ratio)
never increases a non-negative load. The early return for `scale == 0` is covered. -/
theorem applyScaling_bounds (scale : RNum R) (input : List (RNum R)) :
    List.Forall₂ (fun (x o : RNum R) =>
        (x.val = 0 → o.val = 0) ∧ (0 ≤ scale.val → 0 ≤ x.val → 0 ≤ o.val) ∧
        (0 ≤ scale.val → scale.val ≤ 1 → 0 ≤ x.val → o.val ≤ x.val))
      input (Scaling.run scale input) := by
  unfold Scaling.run
  split_ifs with h
  · rw [RNum.feq_iff, RNum.sci_zero_val] at h
    exact forall₂_replicate _ _ (fun x => ⟨fun _ => rfl, fun _ _ => le_refl _, fun _ _ hx => hx⟩) _ _ rfl
  · apply forall₂_map
    intro x
    exact ⟨fun hx => RNum.zero_mul_val hx, fun hs hx => RNum.mul_nonneg hx hs,
      fun _ hs1 hx => RNum.mul_le_of_le_one hx hs1⟩

/-- **DepthToRate under rounding** (parallels `depthToRate_linear`): with a positive time step and a non-negative area, a
non-negative depth gives a non-negative rate and a zero depth a zero rate -/
theorem depthToRate_bounds (deltaT area : RNum R) (hdt : 0 < deltaT.val) (ha : 0 ≤ area.val) (input : List (RNum R)) :
    List.Forall₂ (fun (x o : RNum R) => (x.val = 0 → o.val = 0) ∧ (0 ≤ x.val → 0 ≤ o.val))
      input (DepthToRate.run deltaT area input) := by
  unfold DepthToRate.run
  split_ifs with h
  · exact forall₂_replicate _ _ (fun x => ⟨fun _ => rfl, fun _ => le_refl _⟩) _ _ rfl
  · apply forall₂_map
    intro x
    refine ⟨fun hx => RNum.zero_mul_val hx, fun hx => RNum.mul_nonneg hx ?_⟩
    unfold DepthToRate.conversion Units.millimetresToMetres
    exact RNum.div_nonneg (RNum.mul_nonneg (RNum.sci_nonneg _ _ _) ha) hdt.le

/-- **Sum under rounding**: the output is the rounded sum; it is non-negative for non-negative inputs, not below either
non-negative input, and equal to the other input when one input is zero -/
theorem sum_bounds (i1 i2 : List (RNum R)) :
    List.Forall₂ (fun (x : RNum R × RNum R) (o : RNum R) =>
        o.val = R.rnd (x.1.val + x.2.val) ∧ (0 ≤ x.1.val → 0 ≤ x.2.val → 0 ≤ o.val ∧ x.1.val ≤ o.val ∧ x.2.val ≤ o.val) ∧
        (x.2.val = 0 → o.val = x.1.val) ∧ (x.1.val = 0 → o.val = x.2.val))
      (i1.zip i2) (Sum.run i1 i2) := by
  unfold Sum.run
  apply forall₂_map
  rintro ⟨a, b⟩
  simp only [Sum.step]
  refine ⟨rfl, fun ha hb => ⟨RNum.add_nonneg ha hb, RNum.le_add_right hb, ?_⟩, fun h => RNum.add_zero_val h,
    fun h => RNum.zero_add_val h⟩
  rw [RNum.add_val]; exact R.le_rnd b.rep (by linarith)

/-- **Gate under rounding** (parallels `gate_is_mask`; the kernel does no arithmetic, so the ℝ statement carries over
verbatim): the output is the input where the trigger is positive and 0 elsewhere -/
theorem gate_is_mask (trigger incoming : List (RNum R)) :
    List.Forall₂ (fun (x : RNum R × RNum R) (o : RNum R) => o.val = if 0 < x.1.val then x.2.val else 0)
      (trigger.zip incoming) (Gate.run trigger incoming) := by
  unfold Gate.run
  apply forall₂_map
  rintro ⟨t, i⟩
  simp only [Gate.step, RNum.gt_iff, RNum.nat_zero_val]
  split_ifs
  · rfl
  · exact RNum.sci_zero_val

/-- **ComputeProportion under rounding**: with `0 ≤ numerator ≤ denominator` and a non-zero denominator the proportion lies
in `[0, 1]` (`1` representable); with a zero denominator the configured result is returned untouched -/
theorem computeProportion_bounds (r : RNum R) (numerator denominator : List (RNum R)) :
    List.Forall₂ (fun (x : RNum R × RNum R) (o : RNum R) =>
        (x.2.val = 0 → o = r) ∧
        (x.2.val ≠ 0 → 0 ≤ x.1.val → x.1.val ≤ x.2.val → 0 ≤ o.val ∧ (R.Rep 1 → o.val ≤ 1)))
      (numerator.zip denominator) (ComputeProportion.run r numerator denominator) := by
  unfold ComputeProportion.run
  apply forall₂_map
  rintro ⟨n, d⟩
  simp only [ComputeProportion.step]
  refine ⟨fun h => ?_, fun hne hn hnd => ?_⟩
  · rw [if_pos (by rw [RNum.feq_iff, RNum.sci_zero_val]; exact h)]
  · rw [if_neg (by rw [RNum.feq_iff, RNum.sci_zero_val]; exact hne)]
    have hd : 0 < d.val := lt_of_le_of_ne (hn.trans hnd) (Ne.symm hne)
    exact ⟨RNum.div_nonneg hn hd.le, fun h1 => RNum.div_le_one hd hnd h1⟩

/-! ### generation models: zero when the driver is zero, non-negative when the drivers are -/

/-- the rounded literal `MG_PER_LITRE_TO_KG_PER_M3 = 0.001` is non-negative (whatever the rounding makes of it) -/
theorem mgPerLitre_nonneg : 0 ≤ (Units.mgPerLitreToKgPerM3 : RNum R).val := RNum.sci_nonneg _ _ _

/-- a load `flow ⊗ conc ⊗ 0.001`: zero for zero flow, non-negative for non-negative flow and concentration -/
theorem load_zero_nonneg (f c : RNum R) :
    (f.val = 0 → (f * c * Units.mgPerLitreToKgPerM3).val = 0) ∧
    (0 ≤ f.val → 0 ≤ c.val → 0 ≤ (f * c * Units.mgPerLitreToKgPerM3).val) :=
  ⟨fun h => RNum.zero_mul_val (RNum.zero_mul_val h), fun hf hc => RNum.mul_nonneg (RNum.mul_nonneg hf hc) mgPerLitre_nonneg⟩

/-- **EmcDwc under rounding** (parallels `emcDwc_zero_nonneg`), every timestep, early return included: zero flow ⇒ zero load;
non-negative flows and concentrations ⇒ non-negative quick, slow and total loads, and the total is not below either part. -/
theorem emcDwc_zero_nonneg (emc dwc : RNum R) (qf sf : List (RNum R)) (hlen : qf.length = sf.length) :
    List.Forall₂ (fun (x : RNum R × RNum R) (o : EmcDwc.Out (RNum R)) =>
        (x.1.val = 0 → o.quickLoad.val = 0) ∧ (x.2.val = 0 → o.slowLoad.val = 0) ∧
        (x.1.val = 0 → x.2.val = 0 → o.totalLoad.val = 0) ∧
        (0 ≤ emc.val → 0 ≤ dwc.val → 0 ≤ x.1.val → 0 ≤ x.2.val →
          0 ≤ o.quickLoad.val ∧ 0 ≤ o.slowLoad.val ∧ 0 ≤ o.totalLoad.val ∧
          o.quickLoad.val ≤ o.totalLoad.val ∧ o.slowLoad.val ≤ o.totalLoad.val))
      (qf.zip sf) (EmcDwc.run emc dwc qf sf) := by
  unfold EmcDwc.run
  split_ifs with h
  · refine forall₂_replicate _ _ (fun x => ?_) _ _ (by simp [hlen])
    exact ⟨fun _ => rfl, fun _ => rfl, fun _ _ => rfl, fun _ _ _ _ => ⟨le_refl _, le_refl _, le_refl _, le_refl _, le_refl _⟩⟩
  · apply forall₂_map
    rintro ⟨q, s⟩
    simp only [EmcDwc.step]
    refine ⟨(load_zero_nonneg q emc).1, (load_zero_nonneg s dwc).1, fun h1 h2 => ?_, fun he hd hq hs => ?_⟩
    · rw [RNum.add_val, (load_zero_nonneg q emc).1 h1, (load_zero_nonneg s dwc).1 h2, add_zero, R.rnd_zero]
    · have a := (load_zero_nonneg q emc).2 hq he
      have b := (load_zero_nonneg s dwc).2 hs hd
      refine ⟨a, b, RNum.add_nonneg a b, RNum.le_add_right b, ?_⟩
      rw [RNum.add_val]; exact R.le_rnd (RNum.rep' _) (by linarith)

/-- **FixedConcentration under rounding** (parallels `fixedConcentration_zero_nonneg`) -/
theorem fixedConcentration_zero_nonneg (conc : RNum R) (flow : List (RNum R)) :
    List.Forall₂ (fun (f l : RNum R) => (f.val = 0 → l.val = 0) ∧ (0 ≤ conc.val → 0 ≤ f.val → 0 ≤ l.val))
      flow (FixedConcentration.run conc flow) := by
  unfold FixedConcentration.run
  split_ifs with h
  · exact forall₂_replicate _ _ (fun x => ⟨fun _ => rfl, fun _ _ => le_refl _⟩) _ _ rfl
  · apply forall₂_map
    intro f
    exact ⟨(load_zero_nonneg f conc).1, fun hc hf => (load_zero_nonneg f conc).2 hf hc⟩

/-- **PassLoadIfFlow under rounding** (parallels `passLoadIfFlow_zero_nonneg`): no flow (`flow ≤ 0`, in particular zero) ⇒ zero
load; non-negative load and factor ⇒ non-negative output; a factor ≤ 1 never increases the load -/
theorem passLoadIfFlow_zero_nonneg (sf : RNum R) (flow load : List (RNum R)) (hlen : flow.length = load.length) :
    List.Forall₂ (fun (x : RNum R × RNum R) (o : RNum R) =>
        (x.1.val ≤ 0 → o.val = 0) ∧ (0 ≤ sf.val → 0 ≤ x.2.val → 0 ≤ o.val) ∧
        (0 ≤ sf.val → sf.val ≤ 1 → 0 ≤ x.2.val → o.val ≤ x.2.val))
      (flow.zip load) (PassLoadIfFlow.run sf flow load) := by
  unfold PassLoadIfFlow.run
  split_ifs with h
  · exact forall₂_replicate _ _ (fun x => ⟨fun _ => rfl, fun _ _ => le_refl _, fun _ _ hx => hx⟩) _ _ (by simp [hlen])
  · apply forall₂_map
    rintro ⟨f, l⟩
    simp only [PassLoadIfFlow.step, RNum.gt_iff]
    have hez : 0 ≤ (PassLoadIfFlow.effectivelyZero : RNum R).val := RNum.sci_nonneg _ _ _
    refine ⟨fun hf => ?_, fun hs hl => ?_, fun _ hs1 hl => ?_⟩
    · rw [if_neg (by linarith), RNum.sci_zero_val]
    · split_ifs
      · exact RNum.mul_nonneg hl hs
      · rw [RNum.sci_zero_val]
    · split_ifs
      · exact RNum.mul_le_of_le_one hl hs1
      · rw [RNum.sci_zero_val]; exact hl

/-- **SednetDissolvedNutrientGeneration under rounding** (parallels `dissolvedNutrients_zero_nonneg`): zero flow ⇒ zero load;
non-negative drivers ⇒ non-negative loads (seven rounded operations per load, every one sign-preserving) -/
theorem dissolvedNutrients_zero_nonneg (emc dwc : RNum R) (qf sf : List (RNum R)) :
    List.Forall₂ (fun (x : RNum R × RNum R) (o : DissolvedNutrients.Out (RNum R)) =>
        (x.1.val = 0 → o.quick.val = 0) ∧ (x.2.val = 0 → o.slow.val = 0) ∧
        (0 ≤ emc.val → 0 ≤ dwc.val → 0 ≤ x.1.val → 0 ≤ x.2.val → 0 ≤ o.quick.val ∧ 0 ≤ o.slow.val ∧ 0 ≤ o.total.val))
      (qf.zip sf) (DissolvedNutrients.run emc dwc qf sf) := by
  unfold DissolvedNutrients.run
  apply forall₂_map
  rintro ⟨q, s⟩
  have hl : 0 ≤ (DissolvedNutrients.cumecsToLpd : RNum R).val := RNum.ofNat_nonneg _
  have hm : 0 ≤ (Units.milligramToKg : RNum R).val := RNum.sci_nonneg _ _ _
  have hd : 0 ≤ (Units.secondsPerDay : RNum R).val := RNum.ofNat_nonneg _
  simp only [DissolvedNutrients.step]
  refine ⟨fun h => ?_, fun h => ?_, fun he hw hq hs => ?_⟩
  · have : (emc * (q * DissolvedNutrients.cumecsToLpd) * Units.milligramToKg).val = 0 :=
      RNum.zero_mul_val (RNum.mul_zero_val (RNum.zero_mul_val h))
    rw [RNum.div_val, this, zero_div, R.rnd_zero]
  · have : (dwc * (s * DissolvedNutrients.cumecsToLpd) * Units.milligramToKg).val = 0 :=
      RNum.zero_mul_val (RNum.mul_zero_val (RNum.zero_mul_val h))
    rw [RNum.div_val, this, zero_div, R.rnd_zero]
  · have a : 0 ≤ (emc * (q * DissolvedNutrients.cumecsToLpd) * Units.milligramToKg).val :=
      RNum.mul_nonneg (RNum.mul_nonneg he (RNum.mul_nonneg hq hl)) hm
    have b : 0 ≤ (dwc * (s * DissolvedNutrients.cumecsToLpd) * Units.milligramToKg).val :=
      RNum.mul_nonneg (RNum.mul_nonneg hw (RNum.mul_nonneg hs hl)) hm
    exact ⟨RNum.div_nonneg a hd, RNum.div_nonneg b hd, RNum.div_nonneg (RNum.add_nonneg a b) hd⟩

/-- **SednetParticulateNutrientGeneration under rounding** (parallels `particulateNutrients_zero_nonneg`): non-negative inputs
and parameters ⇒ non-negative hillslope, gully, quick, slow and total loads; zero slowflow ⇒ zero slow load; zero supplied
sediment (all four sediment inputs zero) ⇒ zero particulate load -/
theorem particulateNutrients_zero_nonneg (p : ParticulateNutrients.Params (RNum R)) (a b c d e : List (RNum R)) :
    List.Forall₂ (fun (x : RNum R × RNum R × RNum R × RNum R × RNum R) (o : ParticulateNutrients.Out (RNum R)) =>
        (x.2.2.2.2.val = 0 → o.slow.val = 0) ∧
        (x.1.val = 0 → x.2.1.val = 0 → x.2.2.1.val = 0 → x.2.2.2.1.val = 0 →
          o.hillslope.val = 0 ∧ o.gully.val = 0 ∧ o.quick.val = 0) ∧
        (0 ≤ p.nutSurfSoilConc.val → 0 ≤ p.nutrientEnrichmentRatio.val → 0 ≤ p.hillDeliveryRatio.val →
         0 ≤ p.nutSubSoilConc.val → 0 ≤ p.nutrientEnrichmentRatioGully.val → 0 ≤ p.gullyDeliveryRatio.val →
         0 ≤ p.nutrientDWC.val →
         0 ≤ x.1.val → 0 ≤ x.2.1.val → 0 ≤ x.2.2.1.val → 0 ≤ x.2.2.2.1.val → 0 ≤ x.2.2.2.2.val →
         0 ≤ o.hillslope.val ∧ 0 ≤ o.gully.val ∧ 0 ≤ o.quick.val ∧ 0 ≤ o.slow.val ∧ 0 ≤ o.total.val))
      (zip5 a b c d e) (ParticulateNutrients.run p a b c d e) := by
  unfold ParticulateNutrients.run
  apply forall₂_map
  rintro ⟨fs, cs, fg, cg, sf⟩
  have hp : 0 ≤ (Units.percentToProportion : RNum R).val := RNum.sci_nonneg _ _ _
  simp only [ParticulateNutrients.step, ite_self]
  refine ⟨(load_zero_nonneg sf p.nutrientDWC).1, fun h1 h2 h3 h4 => ?_, ?_⟩
  · have hh : (fs + cs).val = 0 := by rw [RNum.add_val, h1, h2, add_zero, R.rnd_zero]
    have hg : (fg + cg).val = 0 := by rw [RNum.add_val, h3, h4, add_zero, R.rnd_zero]
    have e1 : ((fs + cs) * p.nutSurfSoilConc * p.nutrientEnrichmentRatio *
        (p.hillDeliveryRatio * Units.percentToProportion)).val = 0 :=
      RNum.zero_mul_val (RNum.zero_mul_val (RNum.zero_mul_val hh))
    have e2 : ((fg + cg) * p.nutSubSoilConc * p.nutrientEnrichmentRatioGully *
        (p.gullyDeliveryRatio * Units.percentToProportion)).val = 0 :=
      RNum.zero_mul_val (RNum.zero_mul_val (RNum.zero_mul_val hg))
    exact ⟨e1, e2, by rw [RNum.add_val, e1, e2, add_zero, R.rnd_zero]⟩
  · intro k1 k2 k3 k4 k5 k6 k7 i1 i2 i3 i4 i5
    have e1 : 0 ≤ ((fs + cs) * p.nutSurfSoilConc * p.nutrientEnrichmentRatio *
        (p.hillDeliveryRatio * Units.percentToProportion)).val :=
      RNum.mul_nonneg (RNum.mul_nonneg (RNum.mul_nonneg (RNum.add_nonneg i1 i2) k1) k2) (RNum.mul_nonneg k3 hp)
    have e2 : 0 ≤ ((fg + cg) * p.nutSubSoilConc * p.nutrientEnrichmentRatioGully *
        (p.gullyDeliveryRatio * Units.percentToProportion)).val :=
      RNum.mul_nonneg (RNum.mul_nonneg (RNum.mul_nonneg (RNum.add_nonneg i3 i4) k4) k5) (RNum.mul_nonneg k6 hp)
    have e4 := (load_zero_nonneg sf p.nutrientDWC).2 i5 k7
    exact ⟨e1, e2, RNum.add_nonneg e1 e2, e4, RNum.add_nonneg (RNum.add_nonneg e1 e2) e4⟩

/-! ### non-vacuity: the truncating rounding `trunc 10` (one decimal digit, toward zero) -/


/-- PartitionDemand on the grid: demand 2 of input 5 → extraction 2 ≤ 2, outflow ≥ 0 and ≤ 5 -/
example : (PartitionDemand.step (t10 5, t10 2)).2.val ≤ 2 ∧ 0 ≤ (PartitionDemand.step (t10 5, t10 2)).1.val ∧
    (PartitionDemand.step (t10 5, t10 2)).1.val ≤ max 5 0 := by
  have h := partitionDemand_step (t10 5) (t10 2)
  simp only [t10, RNum.ofRep_val, Int.cast_ofNat] at h
  exact ⟨h.1, h.2.2.1, h.2.2.2 (by norm_num)⟩
/-- the hypotheses of `partition_step` are satisfiable on the grid (x = 7, f = 1) and over the exact rounding -/
example : 0 ≤ (t10 7 * t10 1).val ∧ (t10 7 * t10 1).val ≤ 7 := by
  have h := partition_step (t10 7) (t10 1) (by simp only [t10, RNum.ofRep_val]; norm_num)
    (by simp only [t10, RNum.ofRep_val]; norm_num) (by simp only [t10, RNum.ofRep_val]; norm_num)
  simp only [t10, RNum.ofRep_val, Int.cast_ofNat] at h ⊢
  exact ⟨h.1, h.2.2.1⟩
/-- the same theorem at the identity rounding is the exact-arithmetic statement -/
example (x f : RNum Rounding.exact) (hx : 0 ≤ x.val) (h0 : 0 ≤ f.val) (h1 : f.val ≤ 1) : (x * (1 - f)).val ≤ x.val :=
  (partition_step x f hx h0 h1).2.2.2 rfl

end OW.Props.Rounded.C16
