import OW.Proofs.RoundedConstituent
import OW.Kernels.StorageTrapAll
import OW.Kernels.StorageDissolvedDecay
import OW.Kernels.InstreamCoarseSediment
/-!
C12 under ROUNDED arithmetic — "downstream loads and stored masses never become negative for non-negative inputs", proved for
EVERY rounding `R : Rounding` where it survives rounding, with the exact extra condition where it does not.

Summary (details in the doc-comments):
* LumpedConstituentRouting, StorageDissolvedDecay (decay disabled), StorageTrapAll, InstreamCoarseSediment: every non-negativity clause of
  OW/Props/C12.lean holds under every rounding (only sums, products and quotients of non-negative numbers are formed).
* ConstituentDecay: loads and flushed mass are non-negative from a non-negative store, but the STORE itself
  (`workingMass ⊖ outflowLoad ⊗ Δt`) is non-negative only if the rounded released mass does not exceed the working mass — which
  rounding can break (`constituentDecay_store_negative_away`; float64 witness on the real code in the check's notes).
* StorageParticulateTrapping: store ≥ 0 (the code clamps) and trapped ≥ 0 always; `trapped ≤ incoming` and `outflowLoad ≥ 0`
  need `incoming ⊗ pc ⊘ 100 ≤ incoming`, which rounding can break when `pc = 100` (float64: `x*100/100 > x` for ≈ 7 % of x).
* InstreamParticulateNutrient and InstreamFineSediment are not restated: their stores are differences of nearly equal products
  (`total ⊖ (floodplain ⊕ bed exchange)`), and the real float64 code does return rounding-level negative values for non-negative
  inputs (InstreamParticulateNutrient: loadDownstream −6.7e−16, final store −6.0e−13 in 20 000 random 3-step runs through
  `owharness child K`); their non-negativity stays an exact-arithmetic theorem, checked on the code up to the oracle tolerance.
The mass BUDGET identities of C12 are exact-arithmetic statements and are not restated.
-/
namespace OW.Props.Rounded.C12
open OW OW.Kernels OW.Rounded OW.Rounded.Constituent

variable {R : Rounding}

/-! ## LumpedConstituentRouting (inputs: inflowLoad, lateralLoad, outflow, storage) -/

/-- **nonneg_LumpedConstituentRouting under rounding** (parallels `OW.Props.C12.nonneg_LumpedConstituentRouting`, same
hypotheses): non-negative point input, Δt, initial store and inputs ⇒ the store, every downstream load and every flushed mass
are non-negative, along every run, for every rounding. -/
theorem nonneg_LumpedConstituentRouting (pointInput dt s0 : RNum R) (xs : List (RNum R × RNum R × RNum R × RNum R))
    (hpi : 0 ≤ pointInput.val) (hdt : 0 ≤ dt.val) (hs : 0 ≤ s0.val)
    (hx : ∀ x ∈ xs, 0 ≤ x.1.val ∧ 0 ≤ x.2.1.val ∧ 0 ≤ x.2.2.1.val ∧ 0 ≤ x.2.2.2.val) :
    0 ≤ (LumpedConstituent.run pointInput dt s0 xs).1.val ∧
    ∀ o ∈ (LumpedConstituent.run pointInput dt s0 xs).2, 0 ≤ o.outflowLoad.val ∧ 0 ≤ o.flushed.val := by
  have h := scan_inv (LumpedConstituent.step pointInput dt) (fun s => 0 ≤ s.val)
    (fun x => 0 ≤ x.1.val ∧ 0 ≤ x.2.1.val ∧ 0 ≤ x.2.2.1.val ∧ 0 ≤ x.2.2.2.val)
    (fun _ o => 0 ≤ o.outflowLoad.val ∧ 0 ≤ o.flushed.val)
    (fun s x hs hx => by
      obtain ⟨a, b, c⟩ := lumped_step pointInput dt s x hpi hdt hs hx
      exact ⟨a, b, c⟩) xs s0 hs hx
  exact ⟨h.1, fun o ho => forall₂_right (P := fun o => 0 ≤ o.outflowLoad.val ∧ 0 ≤ o.flushed.val) (fun _ _ h => h) h.2 o ho⟩

/-- the concentration divisor is positive on the branch that divides — provided the literal `MINIMUM_VOLUME = 0.01` does not
round to zero (true for binary64; FALSE on a grid coarser than 0.01, where the test `workingVol < 0` never fires and an empty
reach divides by zero) -/
theorem divisors_pos_LumpedConstituentRouting (dt q v : RNum R)
    (hmin : 0 < (LumpedConstituent.minimumVolume : RNum R).val)
    (h : ¬ q * dt + v < LumpedConstituent.minimumVolume) : 0 < (q * dt + v).val := by
  rw [RNum.lt_iff, not_lt] at h
  exact lt_of_lt_of_le hmin h

/-! ## StorageDissolvedDecay with decay disabled -/

/-- **nonneg_StorageDissolvedDecay under rounding** (parallels `OW.Props.C12.nonneg_StorageDissolvedDecay`): with
`doStorageDecay < 0.5` the model is the lumped routing with zero lateral and point input; store, outflow mass and flushed mass stay
non-negative for every rounding. -/
theorem nonneg_StorageDissolvedDecay (dt dsd bff mfrt s0 : RNum R) (xs : List (RNum R × RNum R × RNum R × RNum R))
    (hoff : dsd < 0.5) (hdt : 0 ≤ dt.val) (hs : 0 ≤ s0.val)
    (hx : ∀ x ∈ xs, 0 ≤ x.1.val ∧ 0 ≤ x.2.2.1.val ∧ 0 ≤ x.2.2.2.val) :
    0 ≤ (StorageDissolvedDecay.run dt dsd bff mfrt s0 xs).1.val ∧
    ∀ o ∈ (StorageDissolvedDecay.run dt dsd bff mfrt s0 xs).2, 0 ≤ o.outflowMass.val ∧ 0 ≤ o.flushed.val ∧ o.decayedMass.val = 0 := by
  have hstep : StorageDissolvedDecay.step dt dsd bff mfrt = StorageDissolvedDecay.stepOff dt := by
    unfold StorageDissolvedDecay.step; rw [if_pos hoff]
  unfold StorageDissolvedDecay.run
  rw [hstep]
  have h := scan_inv (StorageDissolvedDecay.stepOff dt) (fun s => 0 ≤ s.val)
    (fun x => 0 ≤ x.1.val ∧ 0 ≤ x.2.2.1.val ∧ 0 ≤ x.2.2.2.val)
    (fun _ o => 0 ≤ o.outflowMass.val ∧ 0 ≤ o.flushed.val ∧ o.decayedMass.val = 0)
    (fun s x hs hx => by
      obtain ⟨a, b, c, d⟩ := x
      obtain ⟨h1, h2, h3⟩ := lumped_step (R := R) 0.0 dt s (a, 0.0, c, d) (by rw [RNum.sci_zero_val]) hdt hs
        ⟨hx.1, by rw [RNum.sci_zero_val], hx.2.1, hx.2.2⟩
      exact ⟨h1, h2, h3, rfl⟩) xs s0 hs hx
  exact ⟨h.1, fun o ho => forall₂_right
    (P := fun o => 0 ≤ o.outflowMass.val ∧ 0 ≤ o.flushed.val ∧ o.decayedMass.val = 0) (fun _ _ h => h) h.2 o ho⟩

/-! ## StorageTrapAll -/

/-- **nonneg_StorageTrapAll under rounding** (parallels `OW.Props.C12.nonneg_StorageTrapAll`): the trapped series is the inflow
series with the initial store added (one rounded addition) to its first element -/
theorem nonneg_StorageTrapAll (inflow : List (RNum R)) (s0 : RNum R) (t : List (RNum R))
    (h : StorageTrapAll.trapped inflow s0 = some t) (hs : 0 ≤ s0.val) (hx : ∀ x ∈ inflow, 0 ≤ x.val) :
    ∀ y ∈ t, 0 ≤ y.val := by
  cases inflow with
  | nil => simp [StorageTrapAll.trapped] at h
  | cons x xs =>
    simp only [StorageTrapAll.trapped, Option.some.injEq] at h
    subst h
    intro y hy
    rcases List.mem_cons.mp hy with rfl | hy
    · exact RNum.add_nonneg (hx x (List.mem_cons_self ..)) hs
    · exact hx y (List.mem_cons_of_mem _ hy)

/-- **nonneg_StorageTrapAll under rounding, on the adapter `model.run`** (parallels the sign clause of
`OW.Props.C12.budget_StorageTrapAll_model`; outputs and final store are read from the model's result): for every rounding, every
inflow-mass series (the EMPTY one included: the stored mass is returned unchanged) and every other input series (not read), a
non-negative store and non-negative inflow masses give a successful run whose final store and trapped series are non-negative and
whose downstream series is identically 0. -/
theorem nonneg_StorageTrapAll_model (inflowMass inflow outflow volume : List (RNum R)) (s0 : RNum R)
    (hs : 0 ≤ s0.val) (hx : ∀ x ∈ inflowMass, 0 ≤ x.val) :
    ∃ (r : KOut (RNum R)) (trapped out : List (RNum R)) (sf : RNum R),
      (StorageTrapAll.model (α := RNum R)).run [] [inflowMass, inflow, outflow, volume] [s0] = .ok r ∧
      r.outputs = [trapped, out] ∧ r.states = [sf] ∧ 0 ≤ sf.val ∧ (∀ y ∈ trapped, 0 ≤ y.val) ∧ (∀ y ∈ out, y.val = 0) ∧
      trapped.length = inflowMass.length ∧ out.length = inflowMass.length ∧ (inflowMass = [] → sf = s0) := by
  cases inflowMass with
  | nil => exact ⟨_, [], [], s0, rfl, rfl, rfl, hs, by simp, by simp, rfl, rfl, fun _ => rfl⟩
  | cons x xs =>
    refine ⟨_, (x + s0) :: xs, zeros (xs.length + 1), 0.0, rfl, rfl, rfl, by rw [RNum.sci_zero_val], ?_, ?_, by simp,
      by simp [zeros], fun h => absurd h (List.cons_ne_nil _ _)⟩
    · intro y hy
      rcases List.mem_cons.mp hy with rfl | hy
      · exact RNum.add_nonneg (hx x (List.mem_cons_self ..)) hs
      · exact hx y (List.mem_cons_of_mem _ hy)
    · intro y hy
      simp only [zeros, List.mem_replicate] at hy
      rw [hy.2]; rfl

/-- non-vacuity: the empty series keeps the store, whatever the rounding -/
example (s0 : RNum R) : (StorageTrapAll.model (α := RNum R)).run [] [[], [], [], []] [s0] =
    .ok { outputs := [[], []], states := [s0], tags := ["trapall-empty"] } := rfl

/-! ## InstreamCoarseSediment (inputs: upstream, lateral, reach-local mass rates) -/

/-- **nonneg_InstreamCoarseSediment under rounding** (parallels `OW.Props.C12.nonneg_InstreamCoarseSediment`): Δt ≥ 0,
non-negative stores and inputs ⇒ channel store, in-stream store, downstream load (always 0) and deposited mass are non-negative,
and the channel store never decreases, for every rounding. -/
theorem nonneg_InstreamCoarseSediment (dt : RNum R) (st : RNum R × RNum R) (xs : List (RNum R × RNum R × RNum R))
    (hdt : 0 ≤ dt.val) (h1 : 0 ≤ st.1.val) (h2 : 0 ≤ st.2.val)
    (hx : ∀ x ∈ xs, 0 ≤ x.1.val ∧ 0 ≤ x.2.1.val ∧ 0 ≤ x.2.2.val) :
    0 ≤ (InstreamCoarseSediment.run dt st xs).1.1.val ∧ 0 ≤ (InstreamCoarseSediment.run dt st xs).1.2.val ∧
    st.1.val ≤ (InstreamCoarseSediment.run dt st xs).1.1.val ∧
    ∀ o ∈ (InstreamCoarseSediment.run dt st xs).2, o.loadDownstream.val = 0 ∧ 0 ≤ o.deposited.val := by
  have h := scan_inv (InstreamCoarseSediment.step dt) (fun s => st.1.val ≤ s.1.val ∧ 0 ≤ s.2.val)
    (fun x => 0 ≤ x.1.val ∧ 0 ≤ x.2.1.val ∧ 0 ≤ x.2.2.val)
    (fun _ o => o.loadDownstream.val = 0 ∧ 0 ≤ o.deposited.val)
    (fun s x hs hx => by
      obtain ⟨cs, sm⟩ := s
      obtain ⟨a, b, c⟩ := x
      obtain ⟨ha, hb, hc⟩ := hx
      simp only at ha hb hc hs
      have hdep : 0 ≤ (sm + (a + b + c) * dt).val :=
        RNum.add_nonneg hs.2 (RNum.mul_nonneg (RNum.add_nonneg (RNum.add_nonneg ha hb) hc) hdt)
      simp only [InstreamCoarseSediment.step]
      exact ⟨⟨hs.1.trans (RNum.le_add_right hdep), by rw [RNum.sci_zero_val]⟩, RNum.sci_zero_val, hdep⟩)
    xs st ⟨le_refl _, h2⟩ hx
  exact ⟨h1.trans h.1.1, h.1.2, h.1.1, fun o ho => forall₂_right
    (P := fun o => o.loadDownstream.val = 0 ∧ 0 ≤ o.deposited.val) (fun _ _ h => h) h.2 o ho⟩

/-! ## ConstituentDecay (inputs: inflowLoad, lateralLoad, inflow, outflow, storage) -/

/-- **ConstituentDecay under rounding, one step from a non-negative store** (parallels `OW.Props.C12.nonneg_ConstituentDecay`,
whose run-level statement does NOT survive rounding): decayed load, downstream load and flushed mass are non-negative; the new
store is non-negative when the mass released in the step, as computed (`outflowLoad ⊗ Δt`), does not exceed the working mass, and
non-positive otherwise. In exact arithmetic that condition always holds (`released = workingMass·outflowVol/workingVol`); with
rounding it can fail (`constituentDecay_store_negative_away`). -/
theorem constituentDecay_step (hl dt sm : RNum R) (x : RNum R × RNum R × RNum R × RNum R × RNum R)
    (h2 : R.Rep 2) (hdt : 0 ≤ dt.val) (hs : 0 ≤ sm.val)
    (hx : 0 ≤ x.1.val ∧ 0 ≤ x.2.1.val ∧ 0 ≤ x.2.2.2.1.val ∧ 0 ≤ x.2.2.2.2.val) :
    let o := (ConstituentDecay.step hl dt sm x).2
    let wm := (ConstituentDecay.decay hl dt sm).2.2 + x.1 * dt + x.2.1 * dt
    0 ≤ o.decayedLoad.val ∧ 0 ≤ o.outflowLoad.val ∧ 0 ≤ o.flushed.val ∧ 0 ≤ wm.val ∧
    ((o.outflowLoad * dt).val ≤ wm.val → 0 ≤ (ConstituentDecay.step hl dt sm x).1.val) ∧
    (wm.val < (o.outflowLoad * dt).val → (ConstituentDecay.step hl dt sm x).1.val ≤ 0) := by
  obtain ⟨a, b, i, c, d⟩ := x
  obtain ⟨ha, hb, hc, hd⟩ := hx
  simp only at ha hb hc hd
  obtain ⟨d1, d2, d3⟩ := decay_nonneg hl dt sm h2 hdt hs
  have hwm : 0 ≤ ((ConstituentDecay.decay hl dt sm).2.2 + a * dt + b * dt).val :=
    RNum.add_nonneg (RNum.add_nonneg d3 (RNum.mul_nonneg ha hdt)) (RNum.mul_nonneg hb hdt)
  have hwv : 0 ≤ (c * dt + d).val := RNum.add_nonneg (RNum.mul_nonneg hc hdt) hd
  simp only [ConstituentDecay.step]
  split_ifs
  · refine ⟨d2, by rw [RNum.sci_zero_val], hwm, hwm, fun _ => by rw [RNum.sci_zero_val], fun _ => by rw [RNum.sci_zero_val]⟩
  · refine ⟨d2, RNum.mul_nonneg (RNum.div_nonneg hwm hwv) hc, le_refl _, hwm, fun h => RNum.sub_nonneg h,
      fun h => RNum.sub_nonpos h.le⟩

/-- **The stored mass of ConstituentDecay CAN become negative under rounding.** Witness on the integer grid with rounding away
from zero (`Rounding.away 1`): decay off, Δt = 2, store 1, nothing coming in, outflow 1 (volume 2), storage 1 ⇒ working volume 3,
concentration `⌈1/3⌉ = 1`, released mass `1·1·2 = 2 > 1` ⇒ new store `−1`. The same mechanism (a quotient rounded up, then
multiplied back) makes the real float64 code return a final store of `−2.3e−10` kg for the non-negative input
inflowLoad = 8.653835818026117, outflow = 66.67587506863227, storage = 0, Δt = 86400 (run through `owharness child K`). -/
theorem constituentDecay_store_negative_away :
    let R := Rounding.away 1 Nat.one_pos
    let n : ℤ → RNum R := fun k => RNum.ofRep (k : ℝ) (Rounding.away_rep_int 1 Nat.one_pos k)
    (ConstituentDecay.step (n 0) (n 2) (n 1) (n 0, n 0, n 0, n 1, n 1)).1.val = -1 := by
  intro R n
  have hR : ∀ x : ℝ, 0 ≤ x → R.rnd x = (⌈x⌉ : ℝ) := fun x h => Rounding.away_one_nonneg h
  have hRn : ∀ x : ℝ, x < 0 → R.rnd x = (⌊x⌋ : ℝ) := fun x h => Rounding.away_one_neg h
  have hint : ∀ k : ℤ, R.rnd (k : ℝ) = (k : ℝ) := fun k => Rounding.away_rep_int 1 Nat.one_pos k
  have hdecay : ConstituentDecay.decay (n 0) (n 2) (n 1) = (0.0, Num.zero, n 1) := by
    unfold ConstituentDecay.decay
    rw [if_neg]
    rw [RNum.gt_iff, RNum.nat_zero_val]; simp [n]
  have hmin : (ConstituentDecay.minimumVolume : RNum R).val = 1 := by
    unfold ConstituentDecay.minimumVolume
    rw [RNum.ofScientific_val, hR _ (by norm_num)]
    have : ⌈(OfScientific.ofScientific 1 true 2 : ℝ)⌉ = 1 := by rw [Int.ceil_eq_iff]; norm_num
    rw [this]; norm_num
  have e1 : ((n 1 : RNum R) * n 2).val = 2 := by
    rw [RNum.mul_val]; simp only [n, RNum.ofRep_val]; have := hint 2; norm_num at this ⊢; exact this
  have e0 : ((n 0 : RNum R) * n 2).val = 0 := RNum.zero_mul_val (by simp [n])
  have ewm : ((n 1 : RNum R) + n 0 * n 2 + n 0 * n 2).val = 1 := by
    rw [RNum.add_zero_val e0, RNum.add_zero_val e0]; simp [n]
  have ewv : ((n 1 : RNum R) * n 2 + n 1).val = 3 := by
    rw [RNum.add_val, e1]; simp only [n, RNum.ofRep_val]; have := hint 3; norm_num at this ⊢; exact this
  have econc : (((n 1 : RNum R) + n 0 * n 2 + n 0 * n 2) / (n 1 * n 2 + n 1)).val = 1 := by
    rw [RNum.div_val, ewm, ewv, hR _ (by norm_num)]
    have : ⌈(1 : ℝ) / 3⌉ = 1 := by rw [Int.ceil_eq_iff]; norm_num
    rw [this]; norm_num
  have eol : ((((n 1 : RNum R) + n 0 * n 2 + n 0 * n 2) / (n 1 * n 2 + n 1)) * n 1).val = 1 := by
    rw [RNum.mul_val, econc]; simp only [n, RNum.ofRep_val]; have := hint 1; norm_num at this ⊢; exact this
  have erel : (((((n 1 : RNum R) + n 0 * n 2 + n 0 * n 2) / (n 1 * n 2 + n 1)) * n 1) * n 2).val = 2 := by
    rw [RNum.mul_val, eol]; simp only [n, RNum.ofRep_val]; have := hint 2; norm_num at this ⊢; exact this
  simp only [ConstituentDecay.step, hdecay]
  rw [if_neg (by rw [RNum.lt_iff, ewv, hmin]; norm_num)]
  simp only
  rw [RNum.sub_val, ewm, erel, hRn _ (by norm_num)]
  have : ⌊(1 : ℝ) - 2⌋ = -1 := by rw [Int.floor_eq_iff]; norm_num
  rw [this]; norm_num

/-! ## StorageParticulateTrapping (inputs: inflowLoad, inflow, outflow, storage) -/

open StorageParticulateTrapping (Params) in
/-- **StorageParticulateTrapping under rounding, one step** (parallels `OW.Props.C12.budget_StorageParticulateTrapping`, clauses
`0 ≤ store`, `0 ≤ trapped ≤ in·Δt`, `0 ≤ out`): for `Δt ≥ 0` and non-negative inflow load, outflow and volume, from ANY store,
the new store is non-negative (the code clamps it) and the trapped mass is non-negative, for every rounding. If moreover the
computed trapped mass does not exceed the incoming mass (`in·Δt ⊗ pc ⊘ 100 ≤ in·Δt` — always true in exact arithmetic since
`pc ≤ 100`, but false in float64 for ≈ 7 % of the values when `pc = 100`: `x*100/100 > x`), then from a non-negative store the
released load is non-negative. Without that condition the real code returns outflowLoad = −1.3e−15 for
inflowLoad = 8.3746908209646, full trapping, empty store (run through `owharness child K`). -/
theorem trapping_step (p : Params (RNum R)) (sm : RNum R) (x : RNum R × RNum R × RNum R × RNum R)
    (hdt : 0 ≤ p.deltaT.val) (hx : 0 ≤ x.1.val ∧ 0 ≤ x.2.2.1.val ∧ 0 ≤ x.2.2.2.val) :
    let r := StorageParticulateTrapping.step p sm x
    0 ≤ r.1.val ∧ 0 ≤ r.2.trappedMass.val ∧
    (0 ≤ sm.val → r.2.trappedMass.val ≤ (x.1 * p.deltaT).val → 0 ≤ r.2.outflowLoad.val) := by
  obtain ⟨a, q, c, d⟩ := x
  obtain ⟨ha, hc, hd⟩ := hx
  simp only at ha hc hd
  obtain ⟨pc0, _⟩ := damTrappingPC_bounds p q
  have hinc : 0 ≤ (a * p.deltaT).val := RNum.mul_nonneg ha hdt
  have htr : 0 ≤ (a * p.deltaT * StorageParticulateTrapping.damTrappingPC p q / 100.0).val :=
    RNum.div_nonneg (RNum.mul_nonneg hinc pc0) (RNum.sci_nonneg _ _ _)
  intro r
  simp only [r, StorageParticulateTrapping.step]
  refine ⟨?_, htr, fun hs hle => ?_⟩
  · rw [RNum.gmax_val, RNum.sci_zero_val]; exact le_max_right _ _
  · have hst : 0 ≤ (sm + a * p.deltaT - a * p.deltaT * StorageParticulateTrapping.damTrappingPC p q / 100.0).val := by
      apply RNum.sub_nonneg
      exact hle.trans (by rw [RNum.add_val]; exact R.le_rnd (RNum.rep' _) (by linarith))
    split_ifs with hv
    · rw [RNum.gt_iff, RNum.nat_zero_val] at hv
      exact RNum.mul_nonneg hc (RNum.div_nonneg hst hv.le)
    · rw [RNum.sci_zero_val]

open StorageParticulateTrapping (Params) in
/-- **StorageParticulateTrapping under rounding, whole run**: the stored mass is non-negative after every run and every trapped
mass is non-negative — from any initial store, for every rounding -/
theorem nonneg_StorageParticulateTrapping (p : Params (RNum R)) (s0 : RNum R) (xs : List (RNum R × RNum R × RNum R × RNum R))
    (hdt : 0 ≤ p.deltaT.val) (hs : 0 ≤ s0.val) (hx : ∀ x ∈ xs, 0 ≤ x.1.val ∧ 0 ≤ x.2.2.1.val ∧ 0 ≤ x.2.2.2.val) :
    0 ≤ (StorageParticulateTrapping.run p s0 xs).1.val ∧
    ∀ o ∈ (StorageParticulateTrapping.run p s0 xs).2, 0 ≤ o.trappedMass.val := by
  have h := scan_inv (StorageParticulateTrapping.step p) (fun s => 0 ≤ s.val)
    (fun x => 0 ≤ x.1.val ∧ 0 ≤ x.2.2.1.val ∧ 0 ≤ x.2.2.2.val) (fun _ o => 0 ≤ o.trappedMass.val)
    (fun s x _ hx => by
      obtain ⟨a, b, _⟩ := trapping_step p s x hdt hx
      exact ⟨a, b⟩) xs s0 hs hx
  exact ⟨h.1, fun o ho => forall₂_right (P := fun o => 0 ≤ o.trappedMass.val) (fun _ _ h => h) h.2 o ho⟩

/-! ### non-vacuity -/


/-- a wet step then a dry one on the grid: the hypotheses of `nonneg_LumpedConstituentRouting` are satisfiable -/
example : 0 ≤ (LumpedConstituent.run (t10 0) (t10 10) (t10 3) [(t10 100, t10 0, t10 5, t10 50), (t10 0, t10 0, t10 0, t10 0)]).1.val :=
  (nonneg_LumpedConstituentRouting (t10 0) (t10 10) (t10 3) _ (by rw [t10_val]; norm_num) (by rw [t10_val]; norm_num)
    (by rw [t10_val]; norm_num)
    (by intro x hx; simp only [List.mem_cons, List.not_mem_nil, or_false] at hx
        rcases hx with rfl | rfl <;> (simp only [t10_val]; norm_num))).1
/-- on the tenths grid `MINIMUM_VOLUME = 0.01` rounds to 0: the hypothesis of `divisors_pos_LumpedConstituentRouting` is a real
restriction (and it holds for the identity rounding) -/
example : (LumpedConstituent.minimumVolume : RNum T10).val = 0 := by
  unfold LumpedConstituent.minimumVolume
  rw [RNum.ofScientific_val, Rounding.trunc_rnd]; unfold Rounding.truncFn
  rw [if_pos (by norm_num)]
  have : ⌊(OfScientific.ofScientific 1 true 2 : ℝ) * ((10 : ℕ) : ℝ)⌋ = 0 := by rw [Int.floor_eq_iff]; norm_num
  rw [this]; norm_num
example : 0 < (LumpedConstituent.minimumVolume : RNum Rounding.exact).val := by
  unfold LumpedConstituent.minimumVolume
  rw [RNum.ofScientific_val]; show (0:ℝ) < OfScientific.ofScientific 1 true 2; norm_num
/-- `Rep 2` (hypothesis of the decay theorems) holds on the grid -/
example : T10.Rep 2 := by
  show T10.rnd 2 = 2
  exact_mod_cast (Rounding.trunc_rep_int 10 (by norm_num) 2 : T10.rnd ((2 : ℤ) : ℝ) = ((2 : ℤ) : ℝ))

/-- the hypotheses of `nonneg_StorageParticulateTrapping` are met on the grid (Δt = 10, two steps, one with an empty storage) -/
example : 0 ≤ (StorageParticulateTrapping.run ⟨t10 10, t10 1000, t10 100, t10 112, t10 800, t10 3, t10 0⟩ (t10 5)
    [(t10 1, t10 100, t10 3, t10 1000), (t10 0, t10 0, t10 0, t10 0)]).1.val :=
  (nonneg_StorageParticulateTrapping _ (t10 5) _ (by simp only [t10_val]; norm_num) (by rw [t10_val]; norm_num)
    (by intro x hx; simp only [List.mem_cons, List.not_mem_nil, or_false] at hx
        rcases hx with rfl | rfl <;> (simp only [t10_val]; norm_num))).1

end OW.Props.Rounded.C12
