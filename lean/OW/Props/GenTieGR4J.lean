import OW.Gen.Kernels
import OW.Kernels.GR4J
import OW.Proofs.GenLoops
import OW.Props.GenTieBase
namespace OW.Props.GenTie
open OW OW.Kernels OW.Gen.K OW.Gen.Prelude

-- which rewrite rules fire depends on how the source is written at the moment
set_option linter.unusedSimpArgs false

/-! ### models/rr/gr4j.go

The tie is proved by NORMALISING the regenerated text: helper functions are unfolded (`gen_unfold`), every loop over a slice
is rewritten by a lemma into the list expression it computes (`forRange_addUH`, `forRange_shift`, `sh_build`, `uh_of_sh`, …),
`len(…)` of such an expression is computed, and the result is compared with the hand-written model. The lemmas are about the
MEANING of a loop form, so the same script goes through when the source moves a loop into a helper function, takes a bound
from `len(xs)` instead of a count that equals it, names a sub-expression, or declares a variable elsewhere. -/

/-- `q[i] = q[i] + c*u[i]` for `0 ≤ i < n` (both buffers of length `n`) is `zipWith` -/
theorem forRange_addUH {α} [Num α] (q u : List α) (n : Nat) (hq : q.length = n) (hu : u.length = n) (c : α) :
    forRange 0 (n : Int) (fun i q => sliceSet q i (sliceGet q i + c * sliceGet u i)) q =
      List.zipWith (fun qi ui => qi + c * ui) q u := by
  unfold forRange
  have : ((n : Int) - 0).toNat = n := by omega
  rw [this, show (0 : Int) = ((0 : Nat) : Int) from rfl, forRangeN_eq_forNat]
  exact forNat_zipWith (fun qi ui => qi + c * ui) q u n hq hu

/-- `for i := 1; i < n; i++ { q[i-1] = q[i] }; q[n-1] = z` is `q.tail ++ [z]` (n = len(q) ≥ 1) -/
theorem forRange_shift {α} [Num α] (q : List α) (n : Nat) (hq : q.length = n) (hn : 0 < n) (z : α) :
    sliceSet (forRange 1 (n : Int) (fun i q => sliceSet q (i - 1) (sliceGet q i)) q) ((n : Int) - 1) z = q.tail ++ [z] := by
  unfold forRange
  have h1 : ((n : Int) - 1).toNat = n - 1 := by omega
  have e := fun (g : Int → List α → List α) (c : List α) => forRangeN_eq_forNat g (n - 1) 1 c
  rw [h1, show forRangeN (fun i q => sliceSet q (i - 1) (sliceGet q i)) (n - 1) 1 q = _ from e _ q]
  unfold sliceSet
  rw [h1]
  have hb : (fun (j : Nat) (q : List α) => q.set ((j : Int) - 1).toNat (sliceGet q (j : Int))) =
      (fun (j : Nat) (q : List α) => q.set (j - 1) (q.getD j default)) := by
    funext j q
    have : ((j : Int) - 1).toNat = j - 1 := by omega
    rw [this]; rfl
  rw [hb]
  exact forNat_shift_tail default z q n hq hn


/-- `copy(q[:n-1], q[1:n]); q[n-1] = z` is the same shift (n = len(q) ≥ 1) -/
theorem copy_shift {α} [Num α] (q : List α) (n : Nat) (hq : q.length = n) (hn : 0 < n) (z : α) :
    sliceSet (sliceCopy q 0 ((n : Int) - 1) q 1 (n : Int)) ((n : Int) - 1) z = q.tail ++ [z] := by
  rw [sliceCopy_shift q n hq]
  unfold sliceSet
  have h1 : ((n : Int) - 1).toNat = n - 1 := by omega
  have ht : q.tail.length = n - 1 := by simp [hq]
  rw [h1, List.set_append_right _ _ (by omega), ht, Nat.sub_self]
  obtain ⟨x, hx⟩ : ∃ x, q.drop (n - 1) = [x] := List.length_eq_one_iff.mp (by simp [hq]; omega)
  rw [hx]; rfl

/-- `len(xs)` as the cast of the list's length -/
theorem sliceLen_eq_cast {β} (xs : List β) : sliceLen xs = (xs.length : Int) := rfl

theorem sliceGet_zero_headD {α} [Num α] (l : List α) (z : α) (h : 0 < l.length) : sliceGet l 0 = l.headD z := by
  cases l with
  | nil => simp at h
  | cons a l => rfl

/-- the constant expression `4.0/9.0`, folded exactly and rounded once by the Go compiler (printed with the shortest decimal
that round-trips), is the quotient `4 / 9` the hand model computes at run time (the same float64: IEEE division of two
exactly representable numbers is the correctly rounded quotient; `#guard` below. Different reals: at `ℝ` the tie of `gr4j`
is modulo this literal, like `AnnualToDaily` of GenTie.lean.) -/
def FourNinths (α : Type) [Num α] : Prop := (0.4444444444444444 : α) = 4 / 9

#guard Num.feq (0.4444444444444444 : Float) (4 / 9)

/-- what the day loop computes from the incoming state: the hand-written step, in the layout of the regenerated one -/
theorem gen_eq_GR4J_step {α} [Num α] (h0 : NatZero α) (h49 : FourNinths α) (s0 r0 x1 x2 x3 x4 : α) (uH1 uH2 : List α)
    (st : GR4J.State α) (n1 n2 : Nat) (hn1 : 0 < n1) (hn2 : 0 < n2) (hq9 : st.q9.length = n1) (hq1 : st.q1.length = n2)
    (hu1 : uH1.length = n1) (hu2 : uH2.length = n2) (rain pet : α) :
    gr4j.step s0 r0 x1 x2 x3 x4 uH1 uH2 st.S st.R n1 n2 st.q1 st.q9 rain pet =
      (let h := GR4J.step x1 x2 x3 uH1 uH2 st (rain, pet)
       ((h.1.S, h.1.R, (n1 : Int), (n2 : Int), h.1.q1, h.1.q9), h.2.runoff)) := by
  unfold NatZero at h0
  unfold FourNinths at h49
  unfold gr4j.step GR4J.step GR4J.production GR4J.capWs GR4J.percolation GR4J.routingOutflow GR4J.addUH GR4J.shift GR4J.head0
  by_cases h1 : pet < rain <;> by_cases h2 : (13.0 : α) < (rain - pet) / x1 <;> by_cases h3 : (13.0 : α) < (pet - rain) / x1 <;>
    (simp only [gen_unfold, gt_iff_lt, h1, h2, h3, ↓reduceIte, decide_true, decide_false, Bool.false_eq_true,
      sliceLen_eq_cast, hq9, hq1, hu1, hu2, forRange_addUH st.q9 uH1 n1 hq9 hu1, forRange_addUH st.q1 uH2 n2 hq1 hu2]
     simp only [forRange_shift, copy_shift, sliceGet_zero_headD (z := (0.0 : α)), List.length_zipWith, hq9, hu1, hq1, hu2, Nat.min_self, hn1, hn2]
     simp only [h0, h49])

/-- `float64(i)` of a non-negative int is the float of the natural number (true at `Float`: `Float.ofInt (Int.ofNat n)` is
`Float.ofNat n` by definition; at `ℝ`: both are the cast) -/
def OfIntNat (α : Type) [Num α] : Prop := ∀ n : Nat, (Num.ofInt (n : Int) : α) = Num.ofNat n

theorem ofIntNat_float : OfIntNat Float := fun _ => rfl

/-- an S-curve of `n` ordinates: `SH := make(n); for i := 0; i < n; i++ { SH[i] = g i }; SH[n-1] = 1.0` -/
theorem sh_build {α} [Num α] (g : Int → α) (n : Nat) :
    sliceSet (forRange 0 (n : Int) (fun i sh => sliceSet sh i (g i)) (mkSlice (n : Int))) ((n : Int) - 1) 1.0 =
      (List.range n).map (fun j => if j + 1 = n then (1.0 : α) else g (j : Int)) := by
  unfold forRange
  have h1 : ((n : Int) - 0).toNat = n := by omega
  have e := fun (b : Int → List α → List α) (c : List α) => forRangeN_eq_forNat b n 0 c
  rw [h1, show forRangeN (fun i sh => sliceSet sh i (g i)) n 0 (mkSlice (n : Int)) = _ from e _ _]
  have h2 : ((n : Int) - 1).toNat = n - 1 := by omega
  show (forNat (fun (j : Nat) (sh : List α) => sh.set j (g (j : Int))) n 0 (List.replicate n Num.zero)).set ((n : Int) - 1).toNat 1.0 = _
  rw [h2, forNat_tabulate_replicate, map_range_set_last]

/-- the unit-hydrograph ordinates of an S-curve `SH = [f 0, …, f (n-1)]`, `n ≥ 1`:
`UH := make(n); UH[0] = SH[0]; for i := 1; i < n; i++ { UH[i] = SH[i] - SH[i-1] }` -/
theorem uh_of_sh {α} [Num α] (f : Nat → α) (n : Nat) (hn : 0 < n) :
    forRange 1 (n : Int)
        (fun i uh => sliceSet uh i (sliceGet ((List.range n).map f) i - sliceGet ((List.range n).map f) (i - 1)))
        (sliceSet (mkSlice (n : Int)) 0 (sliceGet ((List.range n).map f) 0)) =
      (List.range n).map (fun j => if j = 0 then f 0 else f j - f (j - 1)) := by
  unfold forRange
  have h2 : ((n : Int) - 1).toNat = n - 1 := by omega
  have e := fun (b : Int → List α → List α) (c : List α) => forRangeN_eq_forNat b (n - 1) 1 c
  rw [h2]
  refine (e _ _).trans ?_
  have hb : (fun (j : Nat) (uh : List α) => sliceSet uh (j : Int)
        (sliceGet ((List.range n).map f) (j : Int) - sliceGet ((List.range n).map f) ((j : Int) - 1))) =
      (fun (j : Nat) (uh : List α) => uh.set j
        (((List.range n).map f).getD j default - ((List.range n).map f).getD (j - 1) default)) := by
    funext j uh
    unfold sliceSet sliceGet
    have : ((j : Int) - 1).toNat = j - 1 := by omega
    rw [this]; rfl
  rw [hb]
  exact forNat_differences (fun a b => a - b) f n hn Num.zero default

/-- the same ordinates written from the last one down: `for i := n-1; i > 0; i-- { UH[i] = SH[i] - SH[i-1] }` -/
theorem uh_of_sh_down {α} [Num α] (f : Nat → α) (n : Nat) (hn : 0 < n) :
    forRangeDown ((n : Int) - 1) 0
        (fun i uh => sliceSet uh i (sliceGet ((List.range n).map f) i - sliceGet ((List.range n).map f) (i - 1)))
        (sliceSet (mkSlice (n : Int)) 0 (sliceGet ((List.range n).map f) 0)) =
      (List.range n).map (fun j => if j = 0 then f 0 else f j - f (j - 1)) := by
  rw [forRangeDown_eq_forRange (fun i => sliceGet ((List.range n).map f) i - sliceGet ((List.range n).map f) (i - 1)) _ 0
    (Int.le_refl 0)]
  have e1 : ((n : Int) - 1 + 1) = n := by omega
  have e2 : ((0 : Int) + 1) = 1 := rfl
  rw [e1, e2]
  exact uh_of_sh f n hn

/-- `len` of a table of `n` cells -/
theorem sliceLen_map_range {β} (f : Nat → β) (n : Nat) : sliceLen ((List.range n).map f) = (n : Int) := by
  simp [sliceLen]

theorem sliceLen_mkSlice {α} [Num α] (n : Nat) : sliceLen (mkSlice (n : Int) : List α) = (n : Int) := by
  simp [sliceLen, mkSlice]

/-- a store into the same cell on both branches is one store of the chosen value -/
theorem ite_sliceSet {α} (c : Prop) [Decidable c] (xs : List α) (i : Int) (a b : α) :
    (if c then sliceSet xs i a else sliceSet xs i b) = sliceSet xs i (if c then a else b) := by
  split <;> rfl

theorem gen_eq_GR4J_pre {α} [Num α] (hc : OfIntNat α) (s0 r0 x1 x2 x3 x4 : α) (q1 q9 : List α) (n1 n2 : Nat)
    (hn1 : 0 < n1) (hn2 : 0 < n2) :
    gr4j.pre s0 r0 n1 n2 q1 q9 x1 x2 x3 x4 = (GR4J.uh1 x4 n1, GR4J.uh2 x4 n2) := by
  have hcast : ∀ j : Nat, (Num.ofInt ((j : Int) + 1) : α) = Num.ofNat (j + 1) := by
    intro j
    have : ((j : Int) + 1) = ((j + 1 : Nat) : Int) := by omega
    rw [this, hc]
  unfold gr4j.pre GR4J.uh1 GR4J.uh2 GR4J.uh1At GR4J.uh2At GR4J.sh1At GR4J.sh2At
  simp only [gen_unfold, ite_sliceSet, sliceSet_length, sliceLen_mkSlice, sh_build, sliceLen_map_range, Int.sub_self,
    uh_of_sh _ n1 hn1, uh_of_sh _ n2 hn2, uh_of_sh_down _ n1 hn1, uh_of_sh_down _ n2 hn2, hcast]

/-- `gr4j` (models/rr/gr4j.go). `n1`, `n2` are the (positive) numbers of ordinates, the two buffers have those lengths (as
`extractGR4JStates` delivers them). Before the loop the code builds the unit-hydrograph ordinates in place (loops over
`SH1/UH1/SH2/UH2`): `pre` = (`GR4J.uh1`, `GR4J.uh2`). One iteration — production store, percolation, the two in-place
convolution loops, the two shift loops, routing store, exchange — is `GR4J.step`; `n1`, `n2` pass through. Variables that
are declared before the loop but assigned in every iteration before they are read (`Ps, Es, Pr, Perc` in the original
text) are locals of the regenerated `step`, not state.
Literal identities: `NatZero` (`R = 0`), `FourNinths` (`4.0/9.0` folded by the compiler), `OfIntNat` (`float64(i+1)`). -/
theorem gen_eq_GR4J {α} [Num α] (h0 : NatZero α) (h49 : FourNinths α) (hc : OfIntNat α) (s0 r0 x1 x2 x3 x4 : α)
    (st : GR4J.State α) (n1 n2 : Nat) (hn1 : 0 < n1) (hn2 : 0 < n2) (hq9 : st.q9.length = n1) (hq1 : st.q1.length = n2)
    (rain pet : α) :
    gr4j.guard s0 r0 n1 n2 st.q1 st.q9 x1 x2 x3 x4 = false ∧
    gr4j.pre s0 r0 n1 n2 st.q1 st.q9 x1 x2 x3 x4 = (GR4J.uh1 x4 n1, GR4J.uh2 x4 n2) ∧
    gr4j.init s0 r0 n1 n2 st.q1 st.q9 x1 x2 x3 x4 = (s0, r0, (n1 : Int), (n2 : Int), st.q1, st.q9) ∧
    gr4j.step s0 r0 x1 x2 x3 x4 (GR4J.uh1 x4 n1) (GR4J.uh2 x4 n2) st.S st.R n1 n2 st.q1 st.q9 rain pet =
      (let h := GR4J.step x1 x2 x3 (GR4J.uh1 x4 n1) (GR4J.uh2 x4 n2) st (rain, pet)
       ((h.1.S, h.1.R, (n1 : Int), (n2 : Int), h.1.q1, h.1.q9), h.2.runoff)) :=
  ⟨rfl, gen_eq_GR4J_pre hc s0 r0 x1 x2 x3 x4 st.q1 st.q9 n1 n2 hn1 hn2, rfl,
   gen_eq_GR4J_step h0 h49 s0 r0 x1 x2 x3 x4 _ _ st n1 n2 hn1 hn2 hq9 hq1 (by simp [GR4J.uh1]) (by simp [GR4J.uh2])
     rain pet⟩

end OW.Props.GenTie
