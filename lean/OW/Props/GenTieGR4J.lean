import OW.Gen.Kernels
import OW.Kernels.GR4J
import OW.Proofs.GenLoops
import OW.Props.GenTieBase
namespace OW.Props.GenTie
open OW OW.Kernels OW.Gen.K OW.Gen.Prelude

/-! ### models/rr/gr4j.go -/

/-- `q[i] = q[i] + c*u[i]` for `0 ≤ i < n` (both buffers of length `n`) is `zipWith` -/
theorem forRange_addUH {α} [Num α] (q u : List α) (n : Nat) (hq : q.length = n) (hu : u.length = n) (c : α) :
    forRange 0 (n : Int) (fun i q => sliceSet q i (sliceGet q i + c * sliceGet u i)) q =
      List.zipWith (fun qi ui => qi + c * ui) q u := by
  unfold forRange
  have : ((n : Int) - 0).toNat = n := by omega
  rw [this, show (0 : Int) = ((0 : Nat) : Int) from rfl, forRangeN_eq_forNat]
  exact forNat_zipWith (fun qi ui => qi + c * ui) q u n hq hu

/-- `for i := 1; i < n; i++ { q[i-1] = q[i] }; q[n-1] = z` is `q.tail ++ [z]` (n = len(q) ≥ 1) -/
theorem forRange_shift {α} [Num α] (q : List α) (n : Nat) (hq : q.length = n) (hn : 0 < n) (z : α) :
    sliceSet (forRange 1 (n : Int) (fun i q => sliceSet q (i - 1) (sliceGet q i)) q) ((n : Int) - 1) z = q.tail ++ [z] := by
  unfold forRange
  have h1 : ((n : Int) - 1).toNat = n - 1 := by omega
  have e := fun (g : Int → List α → List α) (c : List α) => forRangeN_eq_forNat g (n - 1) 1 c
  rw [h1, show forRangeN (fun i q => sliceSet q (i - 1) (sliceGet q i)) (n - 1) 1 q = _ from e _ q]
  unfold sliceSet
  rw [h1]
  have hb : (fun (j : Nat) (q : List α) => q.set ((j : Int) - 1).toNat (sliceGet q (j : Int))) =
      (fun (j : Nat) (q : List α) => q.set (j - 1) (q.getD j default)) := by
    funext j q
    have : ((j : Int) - 1).toNat = j - 1 := by omega
    rw [this]; rfl
  rw [hb]
  exact forNat_shift_tail default z q n hq hn


theorem sliceGet_zero_headD {α} [Num α] (l : List α) (z : α) (h : 0 < l.length) : sliceGet l 0 = l.headD z := by
  cases l with
  | nil => simp at h
  | cons a l => rfl

/-- the constant expression `4.0/9.0`, folded exactly and rounded once by the Go compiler (printed with the shortest decimal
that round-trips), is the quotient `4 / 9` the hand model computes at run time (the same float64: IEEE division of two
exactly representable numbers is the correctly rounded quotient; `#guard` below. Different reals: at `ℝ` the tie of `gr4j`
is modulo this literal, like `AnnualToDaily` of GenTie.lean.) -/
def FourNinths (α : Type) [Num α] : Prop := (0.4444444444444444 : α) = 4 / 9

#guard Num.feq (0.4444444444444444 : Float) (4 / 9)

theorem gen_eq_GR4J_step {α} [Num α] (h0 : NatZero α) (h49 : FourNinths α) (s0 r0 x1 x2 x3 x4 : α) (uH1 uH2 : List α)
    (st : GR4J.State α) (n1 n2 : Nat) (hn1 : 0 < n1) (hn2 : 0 < n2) (hq9 : st.q9.length = n1) (hq1 : st.q1.length = n2)
    (hu1 : uH1.length = n1) (hu2 : uH2.length = n2) (ps es pr perc rain pet : α) :
    gr4j.step s0 r0 x1 x2 x3 x4 uH1 uH2 st.S st.R n1 n2 st.q1 st.q9 ps es pr perc rain pet =
      (let h := GR4J.step x1 x2 x3 uH1 uH2 st (rain, pet)
       let prod := GR4J.production x1 st.S rain pet
       ((h.1.S, h.1.R, (n1 : Int), (n2 : Int), h.1.q1, h.1.q9, prod.1, h.2.es, h.2.pr,
         GR4J.percolation x1 (st.S - prod.2.1 + prod.1)), h.2.runoff)) := by
  unfold NatZero at h0
  unfold FourNinths at h49
  unfold gr4j.step GR4J.step GR4J.production GR4J.capWs GR4J.percolation GR4J.routingOutflow GR4J.addUH GR4J.shift GR4J.head0
  by_cases h1 : rain > pet
  · have h1' : pet < rain := h1
    by_cases h2 : (rain - pet) / x1 > 13.0
    · have h2' : (13.0 : α) < (rain - pet) / x1 := h2
      simp only [h1', h2', ↓reduceIte, forRange_addUH st.q9 uH1 n1 hq9 hu1, forRange_addUH st.q1 uH2 n2 hq1 hu2]
      simp only [forRange_shift, sliceGet_zero_headD (z := (0.0 : α)), List.length_zipWith, hq9, hu1, hq1, hu2, Nat.min_self, hn1, hn2]
      simp only [h0, h49]
    · have h2' : ¬ (13.0 : α) < (rain - pet) / x1 := h2
      simp only [h1', h2', ↓reduceIte, forRange_addUH st.q9 uH1 n1 hq9 hu1, forRange_addUH st.q1 uH2 n2 hq1 hu2]
      simp only [forRange_shift, sliceGet_zero_headD (z := (0.0 : α)), List.length_zipWith, hq9, hu1, hq1, hu2, Nat.min_self, hn1, hn2]
      simp only [h0, h49]
  · have h1' : ¬ pet < rain := h1
    by_cases h2 : (pet - rain) / x1 > 13.0
    · have h2' : (13.0 : α) < (pet - rain) / x1 := h2
      simp only [h1', h2', ↓reduceIte, forRange_addUH st.q9 uH1 n1 hq9 hu1, forRange_addUH st.q1 uH2 n2 hq1 hu2]
      simp only [forRange_shift, sliceGet_zero_headD (z := (0.0 : α)), List.length_zipWith, hq9, hu1, hq1, hu2, Nat.min_self, hn1, hn2]
      simp only [h0, h49]
    · have h2' : ¬ (13.0 : α) < (pet - rain) / x1 := h2
      simp only [h1', h2', ↓reduceIte, forRange_addUH st.q9 uH1 n1 hq9 hu1, forRange_addUH st.q1 uH2 n2 hq1 hu2]
      simp only [forRange_shift, sliceGet_zero_headD (z := (0.0 : α)), List.length_zipWith, hq9, hu1, hq1, hu2, Nat.min_self, hn1, hn2]
      simp only [h0, h49]

/-- `float64(i)` of a non-negative int is the float of the natural number (true at `Float`: `Float.ofInt (Int.ofNat n)` is
`Float.ofNat n` by definition; at `ℝ`: both are the cast) -/
def OfIntNat (α : Type) [Num α] : Prop := ∀ n : Nat, (Num.ofInt (n : Int) : α) = Num.ofNat n

theorem ofIntNat_float : OfIntNat Float := fun _ => rfl

/-- the S-curve / unit-hydrograph construction of gr4j.go for one hydrograph of `n ≥ 1` ordinates:
`SH := make(n); for i { SH[i] = g i }; SH[n-1] = 1.0; UH := make(n); UH[0] = SH[0]; for i := 1.. { UH[i] = SH[i] - SH[i-1] }` -/
theorem uh_build {α} [Num α] (g : Int → α) (n : Nat) (hn : 0 < n) :
    forRange 1 (n : Int)
        (fun i uh => sliceSet uh i
          (sliceGet (sliceSet (forRange 0 (n : Int) (fun i sh => sliceSet sh i (g i)) (mkSlice (n : Int))) ((n : Int) - 1) 1.0) i -
           sliceGet (sliceSet (forRange 0 (n : Int) (fun i sh => sliceSet sh i (g i)) (mkSlice (n : Int))) ((n : Int) - 1) 1.0) (i - 1)))
        (sliceSet (mkSlice (n : Int)) 0
          (sliceGet (sliceSet (forRange 0 (n : Int) (fun i sh => sliceSet sh i (g i)) (mkSlice (n : Int))) ((n : Int) - 1) 1.0) 0)) =
      (List.range n).map (fun j =>
        if j = 0 then (if 0 + 1 = n then (1.0 : α) else g ((0 : Nat) : Int))
        else (if j + 1 = n then (1.0 : α) else g (j : Int)) - (if j - 1 + 1 = n then (1.0 : α) else g ((j - 1 : Nat) : Int))) := by
  have hSH : sliceSet (forRange 0 (n : Int) (fun i sh => sliceSet sh i (g i)) (mkSlice (n : Int))) ((n : Int) - 1) 1.0 =
      (List.range n).map (fun j => if j + 1 = n then (1.0 : α) else g (j : Int)) := by
    unfold forRange
    have h1 : ((n : Int) - 0).toNat = n := by omega
    have e := fun (b : Int → List α → List α) (c : List α) => forRangeN_eq_forNat b n 0 c
    rw [h1, show forRangeN (fun i sh => sliceSet sh i (g i)) n 0 (mkSlice (n : Int)) = _ from e _ _]
    have h2 : ((n : Int) - 1).toNat = n - 1 := by omega
    show (forNat (fun (j : Nat) (sh : List α) => sh.set j (g (j : Int))) n 0 (List.replicate n Num.zero)).set ((n : Int) - 1).toNat 1.0 = _
    rw [h2, forNat_tabulate_replicate, map_range_set_last]
  rw [hSH]
  unfold forRange
  have h2 : ((n : Int) - 1).toNat = n - 1 := by omega
  have e := fun (b : Int → List α → List α) (c : List α) => forRangeN_eq_forNat b (n - 1) 1 c
  rw [h2]
  refine (e _ _).trans ?_
  have hb : (fun (j : Nat) (uh : List α) => sliceSet uh (j : Int)
        (sliceGet ((List.range n).map (fun j => if j + 1 = n then (1.0 : α) else g (j : Int))) (j : Int) -
         sliceGet ((List.range n).map (fun j => if j + 1 = n then (1.0 : α) else g (j : Int))) ((j : Int) - 1))) =
      (fun (j : Nat) (uh : List α) => uh.set j
        (((List.range n).map (fun j => if j + 1 = n then (1.0 : α) else g (j : Int))).getD j default -
         ((List.range n).map (fun j => if j + 1 = n then (1.0 : α) else g (j : Int))).getD (j - 1) default)) := by
    funext j uh
    unfold sliceSet sliceGet
    have : ((j : Int) - 1).toNat = j - 1 := by omega
    rw [this]; rfl
  rw [hb]
  exact forNat_differences (fun a b => a - b) (fun j => if j + 1 = n then (1.0 : α) else g (j : Int)) n hn Num.zero default

theorem gen_eq_GR4J_pre {α} [Num α] (hc : OfIntNat α) (s0 r0 x1 x2 x3 x4 : α) (q1 q9 : List α) (n1 n2 : Nat)
    (hn1 : 0 < n1) (hn2 : 0 < n2) :
    gr4j.pre s0 r0 n1 n2 q1 q9 x1 x2 x3 x4 = (GR4J.uh1 x4 n1, GR4J.uh2 x4 n2) := by
  unfold gr4j.pre
  dsimp only
  have hb : (fun (i : Int) (sh : List α) =>
        if Num.ofInt (i + 1) / x4 ≤ 1 then sliceSet sh i (0.5 * Num.pow (Num.ofInt (i + 1) / x4) 2.5)
        else if Num.ofInt (i + 1) / x4 < 2 then sliceSet sh i (1 - 0.5 * Num.pow (2 - Num.ofInt (i + 1) / x4) 2.5)
        else sliceSet sh i 1.0) =
      (fun (i : Int) (sh : List α) => sliceSet sh i
        (if Num.ofInt (i + 1) / x4 ≤ 1 then 0.5 * Num.pow (Num.ofInt (i + 1) / x4) 2.5
         else if Num.ofInt (i + 1) / x4 < 2 then 1 - 0.5 * Num.pow (2 - Num.ofInt (i + 1) / x4) 2.5 else 1.0)) := by
    funext i sh
    split
    · rfl
    · split <;> rfl
  rw [hb, uh_build (fun i => Num.pow (Num.ofInt (i + 1) / x4) 2.5) n1 hn1,
    uh_build (fun i => if Num.ofInt (i + 1) / x4 ≤ 1 then 0.5 * Num.pow (Num.ofInt (i + 1) / x4) 2.5
         else if Num.ofInt (i + 1) / x4 < 2 then 1 - 0.5 * Num.pow (2 - Num.ofInt (i + 1) / x4) 2.5 else 1.0) n2 hn2]
  have hcast : ∀ j : Nat, (Num.ofInt ((j : Int) + 1) : α) = Num.ofNat (j + 1) := by
    intro j
    have : ((j : Int) + 1) = ((j + 1 : Nat) : Int) := by omega
    rw [this, hc]
  unfold GR4J.uh1 GR4J.uh2 GR4J.uh1At GR4J.uh2At GR4J.sh1At GR4J.sh2At
  simp only [hcast]

/-- `gr4j` (models/rr/gr4j.go). `n1`, `n2` are the (positive) numbers of ordinates, the two buffers have those lengths (as
`extractGR4JStates` delivers them). Before the loop the code builds the unit-hydrograph ordinates in place (four loops over
`SH1/UH1/SH2/UH2`): `pre` = (`GR4J.uh1`, `GR4J.uh2`). One iteration — production store, percolation, the two in-place
convolution loops, the two shift loops, routing store, exchange — is `GR4J.step`; `n1`, `n2` pass through. The variables
`Ps, Es, Pr, Perc` are declared before the loop and reset in every iteration: they are hidden state of the regenerated
`step` whose incoming values are not read (the theorem holds for all of them).
Literal identities: `NatZero` (`R = 0`), `FourNinths` (`4.0/9.0` folded by the compiler), `OfIntNat` (`float64(i+1)`). -/
theorem gen_eq_GR4J {α} [Num α] (h0 : NatZero α) (h49 : FourNinths α) (hc : OfIntNat α) (s0 r0 x1 x2 x3 x4 : α)
    (st : GR4J.State α) (n1 n2 : Nat) (hn1 : 0 < n1) (hn2 : 0 < n2) (hq9 : st.q9.length = n1) (hq1 : st.q1.length = n2)
    (ps es pr perc rain pet : α) :
    gr4j.guard s0 r0 n1 n2 st.q1 st.q9 x1 x2 x3 x4 = false ∧
    gr4j.pre s0 r0 n1 n2 st.q1 st.q9 x1 x2 x3 x4 = (GR4J.uh1 x4 n1, GR4J.uh2 x4 n2) ∧
    gr4j.init s0 r0 n1 n2 st.q1 st.q9 x1 x2 x3 x4 =
      (s0, r0, (n1 : Int), (n2 : Int), st.q1, st.q9, Num.zero, Num.zero, Num.zero, Num.zero) ∧
    gr4j.step s0 r0 x1 x2 x3 x4 (GR4J.uh1 x4 n1) (GR4J.uh2 x4 n2) st.S st.R n1 n2 st.q1 st.q9 ps es pr perc rain pet =
      (let h := GR4J.step x1 x2 x3 (GR4J.uh1 x4 n1) (GR4J.uh2 x4 n2) st (rain, pet)
       let prod := GR4J.production x1 st.S rain pet
       ((h.1.S, h.1.R, (n1 : Int), (n2 : Int), h.1.q1, h.1.q9, prod.1, h.2.es, h.2.pr,
         GR4J.percolation x1 (st.S - prod.2.1 + prod.1)), h.2.runoff)) :=
  ⟨rfl, gen_eq_GR4J_pre hc s0 r0 x1 x2 x3 x4 st.q1 st.q9 n1 n2 hn1 hn2, rfl,
   gen_eq_GR4J_step h0 h49 s0 r0 x1 x2 x3 x4 _ _ st n1 n2 hn1 hn2 hq9 hq1 (by simp [GR4J.uh1]) (by simp [GR4J.uh2])
     ps es pr perc rain pet⟩

end OW.Props.GenTie
