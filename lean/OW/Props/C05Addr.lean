import OW.Proofs.C05Addr
/-!
C05 at ADDRESS level — the footprints of the per-cell goroutines are DERIVED from the storage positions the template's
views address, and composed with the interleaving theorems.

`OW.Props.C05` proves schedule independence for tasks whose footprints are ASSERTED (`OW.Sim.CellTasks`: cell `i` touches
the abstract locations `st i`, `out i`, distinct for distinct `i` by construction). Here the task of cell `i` is the goroutine
body of the VIEW-LEVEL wrapper model (`OW.Sim.WrapperNd.cellStepNd`: `Slice … MustReshape` chains on the n-d array model,
`Get1`/`Set1` through the views), the shared memory is the heap itself, addressed by `(storage id, position)`, and

* `cell_step_footprint` (item 1): what the step WRITES lies in `writesA c i` = row `i` of the states array ∪ rows `(i,·,·)` of
  the outputs array (`write_footprint_rows`: exactly the positions `C04Nd.WriteFoot`, i.e. those that
  `C04Nd.cell_views_states` / `cell_views_outputs` show the views to address), and what it READS lies in that set plus the
  windows of the parameters and inputs arrays (`roA c`), which the step does not write (`cell_step_leaves_readonly`);
* `cells_write_sets_disjoint` (item 2): from `C04Nd.views_disjoint` — for `i ≠ j` the write sets are disjoint and cell `j`
  reads nothing cell `i` writes;
* `cells_any_interleaving_addr` (item 3): the generic `C05.disjoint_interleaving` instantiated over these addresses with
  `stepA` (whose `frame`/`loc` obligations are the two halves of item 1): every interleaving of the `N` per-cell steps ends
  in the heap the sequential `runNd` produces; `cells_any_interleaving_addr_runCells`: which denotes the list-level
  `runCells` result (through `C04Nd.runNd_refines`) — the result `C05.cells_any_interleaving` assigns to every interleaving
  of the abstract tasks; `pool_cells_any_interleaving_addr`: the bounded worker pool; `addr_footprint_refines_rows`: the map address ↦ abstract location sends the derived footprints into
  the footprint `[st i, out i]` that `OW.Sim.CellTasks.cellStepM` declares — the assertion is a theorem.

Hypotheses, all explicit in `Cfg.OK` / `Cfg.Sep` (OW/Proofs/C05Addr.lean): root arrays (`RootOn`: non-negative `Impl`
offsets, extents ≥ 1), `N ≤ M`, `T ≤ T'`, STORAGE DISJOINTNESS (states ≠ outputs; parameters, inputs ∉ {states, outputs}),
ROW WIDTH (`OK.fits`: the kernel's state vector fits the cell's row, its series fit the output rows), scalar parameters
only (the scope of `wrapperNd_refines`).
-/
namespace OW.Props.C05Addr
open OW OW.Nd OW.Sim OW.Sim.WrapperNd OW.WrapperNd OW.Sim.Interleave OW.C05Addr

section
variable {α : Type} [Num α] {c : Cfg} {km : KModel α} {h0 : Heap α}

/-! ### item 1 — the address-level footprint of one cell's step -/

omit [Num α] in
/-- **write_footprint_rows.** The write set `writesA c i` is, address for address,
`{(states.sid, sb + i·nS + s) | s < nS} ∪ {(outputs.sid, ob + (i·nO + o)·T' + t) | o < nO, t < T'}`: row `i` of states and rows
`(i, o, ·)` of outputs — and that is `C04Nd.WriteFoot … i`, the positions which `C04Nd.cell_views_states` and
`C04Nd.cell_views_outputs` prove the state view and the output views of cell `i` to alias. -/
theorem write_footprint_rows (ok : c.OK km h0) (i : Nat) (a : Addr) :
    (a ∈ writesA c i ↔ (a.1 = c.S.sid ∧ ∃ s, s < c.nS ∧ a.2 = c.sb + i * c.nS + s) ∨
      (a.1 = c.O.sid ∧ ∃ o t, o < c.nO ∧ t < c.T' ∧ a.2 = c.ob + (i * c.nO + o) * c.T' + t)) ∧
    (a ∈ writesA c i ↔ C04Nd.WriteFoot c.S c.O (c.nS : Int) (c.nO : Int) (c.T' : Int) (i : Int) a.1 a.2) :=
  ⟨mem_writesA, mem_writesA_iff_writeFoot ok i a⟩

/-- **read_only_region.** `roA c` is the window of the parameters array in its storage and the window of the inputs array
in its storage (inside `C04Nd.ReadOnlyFoot`). -/
theorem read_only_region (a : Addr) :
    (a ∈ roA c ↔ (a.1 = c.P.sid ∧ c.pb ≤ a.2 ∧ a.2 < c.pb + c.rows * c.nSets) ∨
      (a.1 = c.I.sid ∧ c.ib ≤ a.2 ∧ a.2 < c.ib + c.nIn * (c.nI * c.T))) ∧
    (a ∈ roA c → C04Nd.ReadOnlyFoot c.P c.I a.1) :=
  ⟨mem_roA, readOnlyFoot_of_mem_roA⟩

/-- **cell_step_footprint** (item 1). The goroutine body of cell `i < N` on the template's views (`cellStepNd`), started
in ANY heap `h` of the shape of `h0`:
* WRITES ⊆ `writesA c i`: if it returns `h'`, then `h'` has the shape of `h` and every address outside `writesA c i` holds
  what it held before (from the frame conjunct of `C04Nd.wrapperNd_refines`);
* READS ⊆ `roA c ∪ writesA c i`: started in any other heap `g` that agrees with `h` on these addresses, it panics with the
  same error, or returns a heap that agrees with `h'` on everything it writes. Whatever else is in the heap — other cells'
  rows, rows `≥ N`, other storages — has no influence on the step. -/
theorem cell_step_footprint (ok : c.OK km h0) {i : Nat} (hi : i < c.N) {h : Heap α} (hs : SameShape h0 h) :
    (∀ h', cellStepNd km.run c.nP c.nI h c.P c.I c.S c.O c.rd (i : Int) = .ok h' →
      SameShape h h' ∧ ∀ a : Addr, a ∉ writesA c i → cell h' a.1 a.2 = cell h a.1 a.2) ∧
    (∀ g, SameShape h0 g → (∀ a : Addr, a ∈ roA c ++ writesA c i → cell h a.1 a.2 = cell g a.1 a.2) →
      (∀ e, cellStepNd km.run c.nP c.nI h c.P c.I c.S c.O c.rd (i : Int) = .error e →
        cellStepNd km.run c.nP c.nI g c.P c.I c.S c.O c.rd (i : Int) = .error e) ∧
      (∀ h', cellStepNd km.run c.nP c.nI h c.P c.I c.S c.O c.rd (i : Int) = .ok h' →
        ∃ g', cellStepNd km.run c.nP c.nI g c.P c.I c.S c.O c.rd (i : Int) = .ok g' ∧
          ∀ a : Addr, a ∈ writesA c i → cell g' a.1 a.2 = cell h' a.1 a.2)) := by
  refine ⟨fun h' hstep => ?_, fun g hg hag => ?_⟩
  · obtain ⟨_, _, _, hss, _, _, hF⟩ := step_ok_spec ok hs hi hstep
    exact ⟨hss, fun a ha => hF a.1 a.2 (fun hh => ha (mem_writesA.mpr (Or.inl hh)))
      (fun hh => ha (mem_writesA.mpr (Or.inr hh)))⟩
  · have hLL : cellStepL c km h i = cellStepL c km g i := cellStepL_congr_heap h g hag
    refine ⟨fun e hstep => ?_, fun h' hstep => ?_⟩
    · have hL := step_error_spec ok hs hi hstep
      rw [hLL] at hL
      exact (step_spec ok hg hi).1 e hL
    · obtain ⟨s', o', hL, _, hS, hO, _⟩ := step_ok_spec ok hs hi hstep
      rw [hLL] at hL
      obtain ⟨g', hstep', _, hS', hO', _⟩ := (step_spec ok hg hi).2 s' o' hL
      refine ⟨g', hstep', fun a ha => ?_⟩
      rcases mem_writesA.mp ha with ⟨hu, s, hs1, hq⟩ | ⟨hu, o, t, ho, ht, hq⟩
      · rw [hu, hq, hS s hs1, hS' s hs1]
      · rw [hu, hq, hO o t ho ht, hO' o t ho ht]

/-- **cell_step_leaves_readonly.** Under storage disjointness the step writes nothing it shares with other cells: every
address of the parameters and inputs windows holds afterwards what it held before ("which nothing writes"). -/
theorem cell_step_leaves_readonly (ok : c.OK km h0) (sep : c.Sep) {i : Nat} (hi : i < c.N) {h h' : Heap α}
    (hs : SameShape h0 h) (hstep : cellStepNd km.run c.nP c.nI h c.P c.I c.S c.O c.rd (i : Int) = .ok h')
    (a : Addr) (ha : a ∈ roA c) : cell h' a.1 a.2 = cell h a.1 a.2 := by
  refine ((cell_step_footprint ok hi hs).1 h' hstep).2 a (fun hw => ?_)
  rcases mem_roA.mp ha with ⟨hu, _⟩ | ⟨hu, _⟩ <;> rcases mem_writesA.mp hw with ⟨hu', _⟩ | ⟨hu', _⟩
  · exact sep.hps (hu.symm.trans hu')
  · exact sep.hpo (hu.symm.trans hu')
  · exact sep.his (hu.symm.trans hu')
  · exact sep.hio (hu.symm.trans hu')

/-! ### item 2 — different cells: disjoint write sets, no read of another cell's writes -/

omit [Num α] in
/-- **cells_write_sets_disjoint** (item 2). Under
* STORAGE DISJOINTNESS — `ok.hso : states.sid ≠ outputs.sid` and `sep`: the parameters' and the inputs' storage differ from
  the states' and from the outputs' storage (the hypotheses of `C04Nd.views_disjoint`; non-negative offsets and extents ≥ 1
  are part of `RootOn`) — and
* ROW WIDTH — `ok.fits`: every cell's state vector fits its row (`r.states.length ≤ nS`) and its series fit the output rows;
  this is what makes `writesA c i` (row `i` only) the write set of cell `i` in `cell_step_footprint` —
for cells `i ≠ j`: no address is written by both, and nothing cell `i` writes is read by cell `j` (neither in `j`'s own
rows nor in the read-only region). Derived from `C04Nd.views_disjoint` through `write_footprint_rows`. -/
theorem cells_write_sets_disjoint (ok : c.OK km h0) (sep : c.Sep) {i j : Nat} (hij : i ≠ j) (a : Addr)
    (ha : a ∈ writesA c i) : a ∉ writesA c j ∧ a ∉ roA c ++ writesA c j := by
  obtain ⟨h1, h2⟩ := writes_avoid ok sep hij ha
  refine ⟨h1, fun hm => ?_⟩
  rcases List.mem_append.mp hm with hm | hm
  · exact h2 hm
  · exact h1 hm

/-- in the vocabulary of the interleaving model: the address-level steps of two different cells do not conflict -/
theorem stepA_noConflict (ok : c.OK km h0) (sep : c.Sep) {i j : Nat} (hij : i ≠ j) :
    NoConflict (stepA c km h0 ok i) (stepA c km h0 ok j) := by
  constructor
  · intro a ha hf
    have := cells_write_sets_disjoint ok sep hij a ha
    simp only [Step.foot, stepA, readsA, List.mem_append] at hf
    rcases hf with hf | hf
    · exact this.2 (List.mem_append_left _ hf)
    · exact this.1 hf
  · intro a ha hf
    have := cells_write_sets_disjoint ok sep (Ne.symm hij) a ha
    simp only [Step.foot, stepA, readsA, List.mem_append] at hf
    rcases hf with hf | hf
    · exact this.2 (List.mem_append_left _ hf)
    · exact this.1 hf

theorem cellTasksA_disjoint (ok : c.OK km h0) (sep : c.Sep) : C05.TasksDisjoint (cellTasksA c km h0 ok) := by
  intro i j ti tj hi hj hij s hs t ht
  rw [cellTasksA_get ok i ti hi] at hs
  rw [cellTasksA_get ok j tj hj] at ht
  simp only [List.mem_singleton] at hs ht
  subst hs; subst ht
  exact (stepA_noConflict ok sep hij).1

/-! ### item 3 — every interleaving of the address-level steps ends in the heap of the sequential `runNd` -/

/-- **cells_any_interleaving_addr** (item 3). The shared memory is the heap itself, addressed by `(storage id, position)`
(`m` is any memory that holds the cells of `h0`: `rebuild h0 m = h0`, e.g. `memOfHeap d h0`); the task of cell `i` is the ONE
step `stepA … i` = the view-level goroutine body `cellStepNd` with the DERIVED footprint of item 1 (its `frame` and `loc`
obligations are `cell_step_footprint`'s two halves, proved, not declared). If the sequential `Run` of the view-level model
succeeds (`runNd … h0 = .ok h'`: preamble, then cells `0 … N-1` in order), then EVERY interleaving of the `N` per-cell tasks —
every schedule — ends in a memory that denotes exactly that heap `h'`. Through `C05.disjoint_interleaving`, whose
hypothesis `TasksDisjoint` is `cells_write_sets_disjoint`. -/
theorem cells_any_interleaving_addr (ok : c.OK km h0) (sep : c.Sep) (m : Mem Addr α) (hm : rebuild h0 m = h0)
    {h' : Heap α} (hrun : runNd km.run c.nP c.nI h0 c.P c.I c.S c.O = .ok h')
    (sched : Sched Addr α) (hi : Interleaving (cellTasksA c km h0 ok) sched) :
    rebuild h0 (runSched sched m) = h' := by
  rw [C05.disjoint_interleaving _ (cellTasksA_disjoint ok sep) sched hi]
  simp only [seqRun, cellTasksA, C05.flatten_map_singleton]
  exact seq_eq_runNd ok m hm hrun

/-- … in permutation form: the cells' steps in ANY order (any permutation of `0 … N-1`) -/
theorem cells_schedule_independent_addr (ok : c.OK km h0) (sep : c.Sep) (m : Mem Addr α) (hm : rebuild h0 m = h0)
    {h' : Heap α} (hrun : runNd km.run c.nP c.nI h0 c.P c.I c.S c.O = .ok h')
    (perm : List Nat) (hp : perm.Perm (List.range c.N)) :
    rebuild h0 (runList (perm.map (stepA c km h0 ok)) m) = h' := by
  rw [C05.perm_runList (stepA c km h0 ok) (fun i j hij => stepA_noConflict ok sep hij) hp
    (hp.nodup_iff.mpr List.nodup_range)]
  exact seq_eq_runNd ok m hm hrun

theorem workerTask_cellTasksA (ok : c.OK km h0) : ∀ idx : List Nat, (∀ i, i ∈ idx → i < c.N) →
    C05.workerTask (cellTasksA c km h0 ok) idx = idx.map (stepA c km h0 ok)
  | [], _ => rfl
  | i :: idx, h => by
    have hi : i < c.N := h i List.mem_cons_self
    have ih := workerTask_cellTasksA ok idx (fun k hk => h k (List.mem_cons_of_mem _ hk))
    unfold C05.workerTask at ih ⊢
    simp only [List.map_cons, List.flatten_cons, ih]
    have : (cellTasksA c km h0 ok)[i]? = some [stepA c km h0 ok i] := by
      simp [cellTasksA, List.getElem?_map, List.getElem?_range hi]
    simp [this]

/-- **pool_cells_any_interleaving_addr.** The bounded worker pool at address level: `groups[w]` are the cell indices worker
`w` received, together exactly `0 … N-1`, each once. Every interleaving of the workers (a worker's task = the address-level
steps of its cells, one after the other) ends in the heap of the sequential `runNd`. -/
theorem pool_cells_any_interleaving_addr (ok : c.OK km h0) (sep : c.Sep) (m : Mem Addr α) (hm : rebuild h0 m = h0)
    {h' : Heap α} (hrun : runNd km.run c.nP c.nI h0 c.P c.I c.S c.O = .ok h')
    (groups : List (List Nat)) (hp : groups.flatten.Perm (List.range c.N)) (sched : Sched Addr α)
    (hi : Interleaving (groups.map (C05.workerTask (cellTasksA c km h0 ok))) sched) :
    rebuild h0 (runSched sched m) = h' := by
  have hn : groups.flatten.Nodup := hp.nodup_iff.mpr List.nodup_range
  rw [C05.pool_interleaving _ (cellTasksA_disjoint ok sep) groups (C05.groups_distinct groups hn) sched hi]
  simp only [seqRun, C05.flatten_map_workerTask]
  rw [workerTask_cellTasksA ok groups.flatten (fun i hi => List.mem_range.mp (hp.mem_iff.mp hi))]
  exact cells_schedule_independent_addr ok sep m hm hrun groups.flatten hp

/-- the hypothesis `runNd … = .ok h'` of `cells_any_interleaving_addr` is met whenever the list-level `runCells` succeeds
(`C04Nd.runNd_refines`) -/
theorem runNd_ok_of_runCells (ok : c.OK km h0) (sep : c.Sep) {ss : List (List α)} {os : List (List (List α))}
    (hrun : runCells km (List.replicate c.nP none) ((List.range c.nP).map fun j => (j, 1))
      (mat (stor h0 c.P.sid) c.pb c.rows c.nSets) (cube (stor h0 c.I.sid) c.ib c.nIn c.nI c.T) 0
      (mat (stor h0 c.S.sid) c.sb c.N c.nS) (cube (stor h0 c.O.sid) c.ob c.M c.nO c.T') = .ok (ss, os)) :
    ∃ h', runNd km.run c.nP c.nI h0 c.P c.I c.S c.O = .ok h' := by
  obtain ⟨pst, hp, _⟩ := ok.rp.ok.store
  obtain ⟨ist, hi', _⟩ := ok.ri.ok.store
  obtain ⟨sst, hs', _⟩ := ok.rs.ok.store
  obtain ⟨ost, ho, _⟩ := ok.ro.ok.store
  rw [stor_of_some hp, stor_of_some hi', stor_of_some hs', stor_of_some ho] at hrun
  obtain ⟨h', _, _, hnd, _⟩ :=
    C04Nd.runNd_refines km ok.rp ok.ri ok.rs ok.ro ok.hpb ok.hib ok.hsb ok.hob hp hi' hs' ho ok.hso sep.hps sep.hpo
      sep.his sep.hio ok.hnP ok.hNM ok.hT ok.fits hrun
  exact ⟨h', hnd⟩

/-- **cells_any_interleaving_addr_runCells.** The same with the hypothesis and the result of `C05.cells_any_interleaving`:
if the LIST-LEVEL vectorised run `runCells` on the row-major denotations of the storages succeeds with `(ss, os)`, then
every interleaving of the address-level per-cell steps ends in a heap whose states storage denotes `ss` and whose outputs
storage denotes `os` (all `M` rows, `T'` timesteps), every other storage being the list it was. So the address-level
model and the asserted-footprint model of `OW.Sim.CellTasks` assign the same result to every schedule. (Composition with
`C04Nd.runNd_refines`.) -/
theorem cells_any_interleaving_addr_runCells (ok : c.OK km h0) (sep : c.Sep) (m : Mem Addr α) (hm : rebuild h0 m = h0)
    {ss : List (List α)} {os : List (List (List α))}
    (hrun : runCells km (List.replicate c.nP none) ((List.range c.nP).map fun j => (j, 1))
      (mat (stor h0 c.P.sid) c.pb c.rows c.nSets) (cube (stor h0 c.I.sid) c.ib c.nIn c.nI c.T) 0
      (mat (stor h0 c.S.sid) c.sb c.N c.nS) (cube (stor h0 c.O.sid) c.ob c.M c.nO c.T') = .ok (ss, os))
    (sched : Sched Addr α) (hi : Interleaving (cellTasksA c km h0 ok) sched) :
    mat (stor (rebuild h0 (runSched sched m)) c.S.sid) c.sb c.N c.nS = ss ∧
    cube (stor (rebuild h0 (runSched sched m)) c.O.sid) c.ob c.M c.nO c.T' = os ∧
    (∀ u, u ≠ c.S.sid → u ≠ c.O.sid → (rebuild h0 (runSched sched m))[u]? = h0[u]?) := by
  obtain ⟨pst, hp, _⟩ := ok.rp.ok.store
  obtain ⟨ist, hi', _⟩ := ok.ri.ok.store
  obtain ⟨sst, hs', _⟩ := ok.rs.ok.store
  obtain ⟨ost, ho, _⟩ := ok.ro.ok.store
  rw [stor_of_some hp, stor_of_some hi', stor_of_some hs', stor_of_some ho] at hrun
  obtain ⟨h', sst', ost', hnd, _, hS, hO, hoth, hss, hos, _, _⟩ :=
    C04Nd.runNd_refines km ok.rp ok.ri ok.rs ok.ro ok.hpb ok.hib ok.hsb ok.hob hp hi' hs' ho ok.hso sep.hps sep.hpo
      sep.his sep.hio ok.hnP ok.hNM ok.hT ok.fits hrun
  rw [cells_any_interleaving_addr ok sep m hm hnd sched hi, stor_of_some hS, stor_of_some hO]
  exact ⟨hss, hos, hoth⟩

/-! ### the bridge to the asserted footprints of `OW.Sim.CellTasks` -/

open OW.Sim.CellTasks in
/-- **addr_footprint_refines_rows.** The abstraction `absLoc` (a position of the states storage ↦ `st` of its row, a position
of the outputs storage ↦ `out` of its cell, anything else ↦ no location) sends the DERIVED address-level footprint of
cell `i`'s step into the footprint that `OW.Sim.CellTasks.cellStepM … i` DECLARES: every address the step writes is mapped
to `st i` or `out i`; every address it reads is mapped there or is a parameters/inputs position, which has no abstract
location (in `CellTasks` parameters and inputs are arguments, not addresses) and which no cell writes
(`cell_step_leaves_readonly`). With `cells_write_sets_disjoint` (distinct `i` ⇒ disjoint preimages) the assertion of
`CellTasks` — "`st i`, `out i` are distinct memory for distinct `i`, and are all cell `i` touches" — is a theorem about the
view-level model. -/
theorem addr_footprint_refines_rows (ok : c.OK km h0) (sep : c.Sep) (i : Nat) :
    (∀ a, a ∈ (stepA c km h0 ok i).writes → ∃ l, absLoc c a = some l ∧ l ∈ [CAddr.st i, CAddr.out i]) ∧
    (∀ a, a ∈ (stepA c km h0 ok i).foot →
      (∃ l, absLoc c a = some l ∧ l ∈ [CAddr.st i, CAddr.out i]) ∨ (a ∈ roA c ∧ absLoc c a = none)) := by
  have hw : ∀ a, a ∈ writesA c i → ∃ l, absLoc c a = some l ∧ l ∈ [CAddr.st i, CAddr.out i] := by
    intro a ha
    rcases absLoc_writes ok ha with e | e
    · exact ⟨_, e, by simp⟩
    · exact ⟨_, e, by simp⟩
  refine ⟨hw, fun a ha => ?_⟩
  simp only [Step.foot, stepA, readsA, List.mem_append] at ha
  rcases ha with ha | ha
  · exact Or.inr ⟨ha, absLoc_ro sep ha⟩
  · exact Or.inl (hw a ha)

end

/-! ## Non-vacuity: the concrete heaps and kernels of `C04Nd.ExRefine` (parameters 3×2, inputs 2×2×3, states 3×2 / 3×3,
outputs 4×1×5 — oversized: 4 > 3 cells, 5 > 3 steps), for any element type -/
namespace Ex
open C04Nd.ExRefine OW.Sim.CellTasks
variable {α : Type} [Num α]

/-- the arrays of `C04Nd.ExRefine.heap`: storages 0 (parameters), 1 (inputs), 2 (states), 3 (outputs) -/
def cfg : Cfg :=
  { P := rootArr 0 [((3 : Nat) : Int), ((2 : Nat) : Int)] 6,
    I := rootArr 1 [((2 : Nat) : Int), ((2 : Nat) : Int), ((3 : Nat) : Int)] 12,
    S := rootArr 2 [((3 : Nat) : Int), ((2 : Nat) : Int)] 6,
    O := rootArr 3 [((4 : Nat) : Int), ((1 : Nat) : Int), ((5 : Nat) : Int)] 20,
    rows := 3, nSets := 2, nIn := 2, nI := 2, T := 3, N := 3, nS := 2, M := 4, nO := 1, T' := 5, nP := 3,
    pb := 0, ib := 0, sb := 0, ob := 0 }

omit [Num α] in
/-- all hypotheses (`OK`: root arrays, row width; `Sep`: storage disjointness) hold for the toy kernel on `heap z` -/
theorem cfg_ok (z : α) : cfg.OK (toyKm (α := α)) (heap z) where
  rp := (rootOn_rootArr (st := List.replicate 6 z) (by simp) (by simp [Pos]) rfl (by simp [product])).2
  ri := (rootOn_rootArr (st := List.replicate 12 z) (by simp) (by simp [Pos]) rfl (by simp [product])).2
  rs := (rootOn_rootArr (st := List.replicate 6 z) (by simp) (by simp [Pos]) rfl (by simp [product])).2
  ro := (rootOn_rootArr (st := List.replicate 20 z) (by simp) (by simp [Pos]) rfl (by simp [product])).2
  hpb := rfl
  hib := rfl
  hsb := rfl
  hob := rfl
  hso := by decide
  hnP := by decide
  hNM := by decide
  hT := by decide
  fits := by
    intro p ins st r _ _ _ hr
    simp only [toyKm, Except.ok.injEq] at hr
    subst hr
    refine ⟨by simp [cfg], fun ser hs => ?_, by simp [cfg]⟩
    simp only [List.mem_singleton] at hs
    subst hs
    simp [cfg]

theorem cfg_sep : cfg.Sep := ⟨by decide, by decide, by decide, by decide⟩

-- the footprints of cell 2, as addresses: state row 2 = positions 4, 5 of storage 2; output row (2,0,·) = positions
-- 10 … 14 of storage 3; the read-only region = all of storages 0 and 1
example : writesA cfg 2 = [(2, 4), (2, 5), (3, 10), (3, 11), (3, 12), (3, 13), (3, 14)] := by decide
example : roA cfg = (List.range 6).map (fun k => (0, k)) ++ (List.range 12).map (fun k => (1, k)) := by decide
example : absLoc cfg (2, 5) = some (CAddr.st 2) ∧ absLoc cfg (3, 12) = some (CAddr.out 2) ∧ absLoc cfg (1, 7) = none := by
  decide
/-- what `OW.Sim.CellTasks` declares for cell `i` -/
example (spec : ParamSpec) (lay : List (Nat × Nat)) (params : List (List α)) (inputs : List (List (List α))) (i : Nat) :
    (cellStepM toyKm spec lay params inputs i).writes = [CAddr.st i, CAddr.out i] ∧
    (cellStepM toyKm spec lay params inputs i).reads = [CAddr.st i, CAddr.out i] := ⟨rfl, rfl⟩

-- item 1 on cell 2
example (z : α) := write_footprint_rows (cfg_ok z) 2
example (z : α) := cell_step_footprint (cfg_ok z) (i := 2) (by decide) (SameShape.refl _)
-- the step of cell 2 does run on this heap (it is not the error branch that makes the statements true)
example (z : α) : ∃ h', cellStepNd (toyKm (α := α)).run cfg.nP cfg.nI (heap z) cfg.P cfg.I cfg.S cfg.O cfg.rd (2 : Nat) = .ok h' := by
  have sp := step_spec (cfg_ok z) (SameShape.refl _) (i := 2) (by decide)
  cases hL : cellStepL cfg toyKm (heap z) 2 with
  | error e =>
    have r3 : List.range 3 = [0, 1, 2] := by decide
    have r2 : List.range 2 = [0, 1] := by decide
    simp [cellStepL, cellStep, cellParams, cellParams.go, toyKm, cfg, mat, cube, rowAt, stor, heap, rootArr, r2, r3,
      List.replicate, bind, Except.bind, pure, Except.pure] at hL
  | ok p => obtain ⟨h', hstep, _⟩ := sp.2 p.1 p.2 hL; exact ⟨h', hstep⟩

-- item 2 on cells 0 and 2
example (z : α) := cells_write_sets_disjoint (cfg_ok z) cfg_sep (i := 0) (j := 2) (by decide)
example (z : α) := stepA_noConflict (cfg_ok z) cfg_sep (i := 0) (j := 2) (by decide)
example (z : α) := addr_footprint_refines_rows (cfg_ok z) cfg_sep 2

/-- a schedule that is NOT the sequential one is an interleaving of the three address-level tasks: cell 2, cell 0, cell 1 -/
theorem sched_201 (z : α) : Interleaving (cellTasksA cfg toyKm (heap z) (cfg_ok z))
    [(2, stepA cfg toyKm (heap z) (cfg_ok z) 2), (0, stepA cfg toyKm (heap z) (cfg_ok z) 0),
     (1, stepA cfg toyKm (heap z) (cfg_ok z) 1)] := by
  have r3 : List.range cfg.N = [0, 1, 2] := by decide
  unfold cellTasksA
  rw [r3]
  refine Interleaving.step 2 _ [] rfl ?_
  refine Interleaving.step 0 _ [] rfl ?_
  refine Interleaving.step 1 _ [] rfl ?_
  exact Interleaving.done (by simp)

/-- item 3: all hypotheses are met (`toy_runCells`: the list-level run succeeds, hence `runNd` does), so for EVERY
interleaving — in particular `sched_201` — the final memory denotes the heap of the sequential `runNd` … -/
example (z : α) : ∃ h', runNd (toyKm (α := α)).run cfg.nP cfg.nI (heap z) cfg.P cfg.I cfg.S cfg.O = .ok h' ∧
    (∀ sched, Interleaving (cellTasksA cfg toyKm (heap z) (cfg_ok z)) sched →
      rebuild (heap z) (runSched sched (memOfHeap z (heap z))) = h') ∧
    rebuild (heap z) (runSched [(2, stepA cfg toyKm (heap z) (cfg_ok z) 2), (0, stepA cfg toyKm (heap z) (cfg_ok z) 0),
      (1, stepA cfg toyKm (heap z) (cfg_ok z) 1)] (memOfHeap z (heap z))) = h' := by
  obtain ⟨h', hnd⟩ := runNd_ok_of_runCells (cfg_ok z) cfg_sep (toy_runCells z)
  exact ⟨h', hnd, fun sched hi => cells_any_interleaving_addr (cfg_ok z) cfg_sep _ (rebuild_memOfHeap z _) hnd sched hi,
    cells_any_interleaving_addr (cfg_ok z) cfg_sep _ (rebuild_memOfHeap z _) hnd _ (sched_201 z)⟩

/-- … which denotes the list-level `runCells` result, and the permutation form -/
example (z : α) := cells_any_interleaving_addr_runCells (cfg_ok z) cfg_sep _ (rebuild_memOfHeap z _) (toy_runCells z) _
  (sched_201 z)
example (z : α) (h' : Heap α) (hnd : runNd (toyKm (α := α)).run cfg.nP cfg.nI (heap z) cfg.P cfg.I cfg.S cfg.O = .ok h') :=
  cells_schedule_independent_addr (cfg_ok z) cfg_sep _ (rebuild_memOfHeap z _) hnd [2, 0, 1] (by decide)

-- a pool of two workers: worker 0 gets cells 2 and 0, worker 1 gets cell 1
example (z : α) (h' : Heap α) (hnd : runNd (toyKm (α := α)).run cfg.nP cfg.nI (heap z) cfg.P cfg.I cfg.S cfg.O = .ok h') :=
  pool_cells_any_interleaving_addr (cfg_ok z) cfg_sep _ (rebuild_memOfHeap z _) hnd [[2, 0], [1]] (by decide)

/-! #### the same on a REGISTRY kernel: `OW.Kernels.Muskingum.model` (2 inputs, 3 states, 1 output) on `heapM` -/

def cfgM : Cfg := { cfg with S := rootArr 2 [((3 : Nat) : Int), ((3 : Nat) : Int)] 9, nS := 3 }

theorem cfgM_ok (z : α) : cfgM.OK (Kernels.Muskingum.model (α := α)) (heapM z) where
  rp := (rootOn_rootArr (st := List.replicate 6 z) (by simp) (by simp [Pos]) rfl (by simp [product])).2
  ri := (rootOn_rootArr (st := List.replicate 12 z) (by simp) (by simp [Pos]) rfl (by simp [product])).2
  rs := (rootOn_rootArr (st := List.replicate 9 z) (by simp) (by simp [Pos]) rfl (by simp [product])).2
  ro := (rootOn_rootArr (st := List.replicate 20 z) (by simp) (by simp [Pos]) rfl (by simp [product])).2
  hpb := rfl
  hib := rfl
  hsb := rfl
  hob := rfl
  hso := by decide
  hnP := by decide
  hNM := by decide
  hT := by decide
  fits := muskingum_fits 3

theorem cfgM_sep : cfgM.Sep := ⟨by decide, by decide, by decide, by decide⟩

example : writesA cfgM 1 = [(2, 3), (2, 4), (2, 5), (3, 5), (3, 6), (3, 7), (3, 8), (3, 9)] := by decide
example (z : α) := cell_step_footprint (cfgM_ok z) (i := 1) (by decide) (SameShape.refl _)
example (z : α) := cells_write_sets_disjoint (cfgM_ok z) cfgM_sep (i := 1) (j := 2) (by decide)
example (z : α) (h' : Heap α)
    (hnd : runNd (Kernels.Muskingum.model (α := α)).run cfgM.nP cfgM.nI (heapM z) cfgM.P cfgM.I cfgM.S cfgM.O = .ok h') :=
  cells_any_interleaving_addr (cfgM_ok z) cfgM_sep _ (rebuild_memOfHeap z (heapM z)) hnd
example (z : α) := addr_footprint_refines_rows (cfgM_ok z) cfgM_sep 1

end Ex

end OW.Props.C05Addr
