import OW.Props.C08
import OW.Proofs.C08Slice
/-!
C08, part 3 — `Load` with a selection IS the in-memory `Slice` (OW/Nd, properties C01/C02) of the loaded full array.

`load_selection` (T2) describes the result of `Load` with a selection in the file model's own words (row-major gather
at the index sets `selIdx`). Here the same result is tied to the n-d array model: load the FULL dataset (T2, first
clause: shape `s`, elements `v`) into a fresh root array, slice it in memory with
`Slice(loc = starts, dims = counts, step = steps)` (`nil` entry: start 0, step 1), and read the slice element by element
in row-major order — that is exactly the array `Load` with the selection returns.
-/
namespace OW.Props.C08
open OW.Nd OW.Sim.H5 OW.Proofs.C08H5

/-- T2' (`Nd.slice` corollary of `load_selection`). Let the file hold a dataset `(s, v)` at `path` with all extents ≥ 1
and `v` as long as the shape says; let `sel` be a well-formed selection (one entry per dimension, `nil` or
`[start, stop, step]`, `start ≥ 0`, `step ≥ 1`, any stop, at least one entry non-nil) that selects AT LEAST ONE index in
every dimension. Let `full = freshArr h v s` be the array `Load()` without a selection returns (a fresh Go-backed root
of shape `s` on the new storage `v`, heap `h ++ [v]`, for any heap `h`). Then
* `Load()` with the selection returns some `(ns, vals)`;
* `(starts, ns, steps)` is an in-bounds slice request on `full` (`SliceOK`) and `full.Slice(starts, ns, steps)` returns
  a view `b` of shape `ns` (`starts/steps` = `selStart/selStep` of the entries: `[start, _, step]`, `nil` ↦ 0 / 1);
* `vals` is exactly `b` read element by element in row-major order (`getAll … (rowMajor ns)`), i.e. the loaded array
  and the in-memory slice have the same shape and the same element at every index.
Selections that select NOTHING in some dimension (stop ≤ start, start beyond the extent) are outside this corollary:
`Load` returns an array with a zero extent (T2 covers it), which is not a `Reach`-able view of OW/Nd. -/
theorem load_selection_eq_nd_slice {t : Tree} {path : String} {p : Path} {s : List Nat} {v : List Int}
    (hod : openDataset t path = .ok (p, s, v)) (hv : v.length = prodN s) (hs1 : ∀ e ∈ s, 1 ≤ e)
    (sel : Sel) (hl : sel.length = s.length) (hsome : sel.any Option.isSome = true)
    (hok : ∀ x ∈ sel, SelDimOK x) (hne : ∀ l ∈ selIdx sel s, l ≠ []) (h : Heap Int) :
    ∃ ns vals b,
      load false (some t) path none = .ok (uintsToInts s, v) ∧
      load false (some t) path (some sel) = .ok (ns, vals) ∧
      SliceOK (uintsToInts s) (sel.map selStart) ns (sel.map selStep) ∧
      slice (OW.NdC02.freshArr h v (uintsToInts s)) (sel.map selStart) ns (some (sel.map selStep)) = .ok b ∧
      b.v.dims = ns ∧
      OW.NdC02.getAll (h ++ [v]) b (OW.NdC02.rowMajor ns) = .ok vals := by
  obtain ⟨hfull, hload⟩ := load_selection hod hv sel hl hsome hok
  obtain ⟨e1, e2, e3, e4⟩ := selIdx_eq_trip sel s hl hok
  obtain ⟨e5, e6⟩ := trip_start_step sel s hl hok
  set T := trip sel s with hT
  have hTl : T.length = s.length := trip_length hl
  -- the index sets and the shape in terms of T
  have hcoords : selIdx sel s = tripCoords T := by
    rw [e1]; simp only [tripCoords, dimCoords_block1]
  have hcnt : (selIdx sel s).map List.length = T.map (·.2.2) := e2.symm
  have hnz : ∀ t ∈ T, t.2.2 ≠ 0 := by
    intro t ht
    obtain ⟨k, hk, rfl⟩ := List.mem_iff_getElem.mp ht
    have h1 : ((selIdx sel s).map List.length)[k]? = some T[k].2.2 := by
      rw [hcnt]; simp [hk]
    simp only [List.getElem?_map] at h1
    cases hq : (selIdx sel s)[k]? with
    | none => rw [hq] at h1; simp at h1
    | some l =>
      rw [hq] at h1
      simp only [Option.map_some, Option.some.injEq] at h1
      have hmem : l ∈ selIdx sel s := List.mem_of_getElem? hq
      have := hne l hmem
      rw [← h1]
      exact fun h0 => this (List.length_eq_zero_iff.mp h0)
  set ns : Idx := T.map (fun t => ((t.2.2 : Nat) : Int)) with hns
  have hshape : (selIdx sel s).map (fun l => ((l.length : Nat) : Int)) = ns := by
    have : (selIdx sel s).map (fun l => ((l.length : Nat) : Int)) =
        ((selIdx sel s).map List.length).map (fun c => ((c : Nat) : Int)) := by simp
    rw [this, hcnt]; simp [hns]
  have hnsc : ns = castL (T.map (·.2.2)) := by simp [hns, castL]
  -- the slice request
  have hsok : SliceOK (castL s) (T.map (fun t => ((t.1 : Nat) : Int))) ns (T.map (fun t => ((t.2.1 : Nat) : Int))) :=
    sliceOK_trip T s hTl (fun t ht => ⟨e3 t ht, hnz t ht⟩) (e4 hnz)
  -- the full array
  have hsne : s ≠ [] := by
    rintro rfl
    have : sel = [] := List.length_eq_zero_iff.mp (by simpa using hl)
    rw [this] at hsome; simp at hsome
  have hdne : castL s ≠ [] := by simpa [castL] using hsne
  have hdpos : Pos (castL s) := by
    intro x hx
    obtain ⟨e, he, rfl⟩ := List.mem_map.mp hx
    have := hs1 e he
    omega
  have hvl : (v.length : Int) = product (castL s) := by rw [product_cast, hv]
  set F := OW.NdC02.freshArr h v (castL s) with hF
  have hFr : Reach F.v := OW.NdC02.reach_rootView hdne hdpos
  have hFok : ArrOK (h ++ [v]) F := OW.NdC02.arrOK_fresh h v hvl
  have hFd : F.v.dims = castL s := rfl
  have hstep : stepOr F.v.dims.length (some (T.map (fun t => ((t.2.1 : Nat) : Int)))) =
      T.map (fun t => ((t.2.1 : Nat) : Int)) := rfl
  have hsok' : SliceOK F.v.dims (T.map (fun t => ((t.1 : Nat) : Int))) ns
      (stepOr F.v.dims.length (some (T.map (fun t => ((t.2.1 : Nat) : Int))))) := by
    exact hsok
  obtain ⟨b, hb, -, -, hbd⟩ := OW.Props.C01.slice_arr_total hFr hFok hsok'
  refine ⟨ns, (cartesian (selIdx sel s)).map (fun c => v.getD (ravelN c s) 0), b, hfull, ?_, ?_, ?_, hbd, ?_⟩
  · rw [hload, hshape]
  · rw [e5, e6, uintsToInts_eq_castL]; exact hsok
  · rw [e5, e6, uintsToInts_eq_castL]; exact hb
  -- element by element
  have hnpos : Pos ns := by
    intro x hx
    obtain ⟨t, ht, rfl⟩ := List.mem_map.mp hx
    have := hnz t ht
    omega
  have hprod : product ns = (prodN (T.map (·.2.2)) : Int) := by rw [hnsc, product_cast]
  rw [hcoords]
  apply getAll_pointwise
  · rw [OW.NdC02.rowMajor_length, List.length_map, cartesian_length, tripCoords_lengths, hprod]; simp
  · intro j idx x hj hx
    have hjlt : j < (product ns).toNat := by
      have := (List.getElem?_eq_some_iff.mp hj).1
      rwa [OW.NdC02.rowMajor_length] at this
    have hidx : idx = unravel (j : Int) ns := by
      have := OW.NdC02.rowMajorFrom_getElem? ns 0 (product ns).toNat j hjlt
      simp only [OW.NdC02.rowMajor] at hj
      rw [this] at hj
      simp only [Nat.zero_add, Option.some.injEq] at hj
      exact hj.symm
    have hjp : (j : Int) < product ns := by omega
    have hib : InBounds idx ns := by rw [hidx]; exact OW.NdC02.unravel_inBounds hnpos (by omega) hjp
    -- the ℕ coordinate of `idx`
    obtain ⟨i, hi, hci⟩ := inBounds_exists_cast idx (T.map (·.2.2)) (by rw [← hnsc]; exact hib)
    have hil : i.length = T.length := by
      have := congrArg List.length hi
      rw [hidx, OW.NdC02.unravel_length] at this
      simp [castL, hns] at this
      omega
    have hrav : ravelN i (T.map (·.2.2)) = j := by
      have h1 : ravel idx ns = (j : Int) := by rw [hidx]; exact OW.NdC02.ravel_unravel hnpos (by omega) hjp
      rw [hi, hnsc, ravel_castL i _ (by simpa using hil)] at h1
      exact_mod_cast h1
    -- the value `Load` returns at position j
    have hxval : x = v.getD (ravelN (tripPt T i) s) 0 := by
      have := cartesian_trip_getElem? T i hci
      rw [hrav] at this
      rw [List.getElem?_map, this] at hx
      simpa using hx.symm
    -- the slice reads the parent at the affine index, which is the cast of `tripPt T i`
    have hget := (OW.Props.C01.get_slice (h ++ [v]) hFr hsok' hb idx (by
      rw [hidx, OW.NdC02.unravel_length])).1
    rw [hget, hstep, hi, affine_castL T i hil]
    have hpt : CoordIn (tripPt T i) s := by
      have := hsok.inBounds (i := castL i) (by rw [hnsc]; exact (inBounds_castL _ _).mpr hci)
      rw [affine_castL T i hil] at this
      exact (inBounds_castL _ _).mp this
    have hptl : (tripPt T i).length = s.length := by
      simp only [tripPt, List.length_zipWith]; omega
    have hlt : ravelN (tripPt T i) s < prodN s := ravelN_lt _ _ hpt
    have hur : castL (tripPt T i) = unravel ((ravelN (tripPt T i) s : Nat) : Int) (castL s) := by
      rw [← ravel_castL _ _ hptl]
      exact (OW.NdC02.unravel_ravel ((inBounds_castL _ _).mpr hpt)).symm
    rw [hur, hxval]
    apply OW.NdC02.get_fresh hdne hdpos hvl
    · rw [product_cast]; exact_mod_cast hlt
    · rw [List.getD_eq_getElem?_getD, List.getElem?_eq_getElem (by omega)]
      simp

/-- T2' instance: rows 0 and 2, columns 1 and 3 of a 3×4 dataset `0 … 11` — `Slice([0,1], [2,2], [2,2])` of the full
array (every hypothesis is met: the selection picks two indices in each dimension) -/
example : selIdx [some [0, 9, 2], some [1, 4, 2]] [3, 4] = [[0, 2], [1, 3]] ∧
    [some [0, 9, 2], some [1, 4, 2]].map selStart = [0, 1] ∧
    [some [0, 9, 2], some [1, 4, 2]].map selStep = [2, 2] ∧
    loadSubset false [some [0, 9, 2], some [1, 4, 2]] [3, 4] [0, 1, 2, 3, 4, 5, 6, 7, 8, 9, 10, 11] =
      .ok ([2, 2], [1, 3, 9, 11]) ∧
    (do let b ← slice (OW.NdC02.freshArr ([] : Heap Int) [0, 1, 2, 3, 4, 5, 6, 7, 8, 9, 10, 11] [3, 4])
                  [0, 1] [2, 2] (some [2, 2])
        OW.NdC02.getAll [[0, 1, 2, 3, 4, 5, 6, 7, 8, 9, 10, 11]] b (OW.NdC02.rowMajor [2, 2])) = .ok [1, 3, 9, 11] := by
  decide

end OW.Props.C08
