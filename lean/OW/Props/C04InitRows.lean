import OW.Props.C04Init
import OW.Props.C03Entry
/-!
C04, part 5 — WHAT `InitialiseStates(n)` hands to each cell when every cell's initial state row has the same width
(the case for 39 of the 41 catalogued models: the width is a constant of the model; the two exceptions, GR4J and Lag, are
the known findings KF-C05-GR4J/Lag-InitialiseStates-row-width).

`initStates_uniform`: the array is exactly the list of the cells' own initial rows — cell `i`'s row is
`km.init (column i)`, i.e. what `InitialiseStates(1)` builds for the cell alone. With `single_cell_eq_init` this closes the
`states = nil` entry for those models: cell `i` of an N-cell `Run` without a state array equals the single-cell `Run`
started from the cell's OWN initial states (`single_cell_eq_init_uniform`).
-/
namespace OW.Props.C04
open OW OW.Sim OW.Props.C03Entry

variable {α : Type} [Num α]

omit [Num α] in
/-- the copy loop of `InitialiseStates` with rows of the array's own width: rows `i, i+1, …` of the flat buffer are
replaced by the given rows, everything else is kept -/
theorem fill_content (w : Nat) : ∀ (rs : List (List α)) (i : Nat) (buf : List α), (∀ r ∈ rs, r.length = w) →
    (i + rs.length) * w ≤ buf.length →
    initStates.fill w i rs buf = .ok (buf.take (i * w) ++ rs.flatten ++ buf.drop ((i + rs.length) * w))
  | [], i, buf, _, _ => by
    simp [initStates.fill]
  | r :: rest, i, buf, hw, hle => by
    have hr : r.length = w := hw r (by simp)
    have hexp : (i + (rest.length + 1)) * w = i * w + w + rest.length * w := by
      rw [Nat.add_mul, Nat.add_mul, Nat.one_mul]; omega
    have hexp' : (i + 1 + rest.length) * w = i * w + w + rest.length * w := by
      rw [Nat.add_mul, Nat.add_mul, Nat.one_mul]
    simp only [List.length_cons] at hle
    rw [hexp] at hle
    have hA : (buf.take (i * w)).length = i * w := by rw [List.length_take]; omega
    have hwf : writeFlat buf (i * w) r = .ok (buf.take (i * w) ++ r ++ buf.drop (i * w + r.length)) := by
      unfold writeFlat
      rw [if_neg (by rw [hr]; omega)]
    simp only [initStates.fill, hwf, bind, Except.bind]
    have hb1 : (buf.take (i * w) ++ r ++ buf.drop (i * w + r.length)).length = buf.length := by
      simp only [List.length_append, List.length_take, List.length_drop]; omega
    rw [fill_content w rest (i + 1) _ (fun r' hr' => hw r' (List.mem_cons_of_mem _ hr')) (by rw [hb1, hexp']; exact hle)]
    congr 1
    have hAr : (buf.take (i * w) ++ r).length = (i + 1) * w := by
      rw [List.length_append, hA, hr, Nat.add_mul, Nat.one_mul]
    have h1 : ((buf.take (i * w) ++ r) ++ buf.drop (i * w + r.length)).take ((i + 1) * w) = buf.take (i * w) ++ r := by
      rw [← hAr]; exact List.take_left
    have h2 : ((buf.take (i * w) ++ r) ++ buf.drop (i * w + r.length)).drop ((i + 1 + rest.length) * w) =
        buf.drop ((i + (rest.length + 1)) * w) := by
      rw [List.drop_append, List.drop_eq_nil_of_le (by rw [hAr, hexp', Nat.add_mul, Nat.one_mul]; omega), List.nil_append,
        List.drop_drop, hAr, hr, hexp, hexp']
      congr 1
      rw [Nat.add_mul, Nat.one_mul]
      omega
    rw [h1, h2]
    simp only [List.flatten_cons, List.append_assoc, List.length_cons]

/-- `InitialiseStates(n)` when every cell's own initial row has one width `w`: the array is exactly the list of those rows -/
theorem initStates_uniform {km : KModel α} {spec : ParamSpec} {lay : List (Nat × Nat)} {params : List (List α)} {n : Nat}
    (rows : List (List α))
    (hm : (List.range n).mapM (fun i => do let p ← cellParams spec lay params i; km.init p) = .ok rows)
    (w : Nat) (hw : ∀ r ∈ rows, r.length = w) :
    initStates km spec lay params n = .ok rows := by
  have hl : rows.length = n := by
    have := (mapM_ok_length _ _ _ hm).1
    simpa using this
  unfold initStates
  simp only [bind, Except.bind] at hm ⊢
  rw [hm]
  cases rows with
  | nil => rfl
  | cons r0 rest =>
    have hr0 : r0.length = w := hw r0 (by simp)
    simp only [hr0]
    have hfill := fill_content w (r0 :: rest) 0 (List.replicate (n * w) (Num.zero : α)) hw
      (by rw [List.length_replicate, Nat.zero_add, hl]; exact Nat.le_refl _)
    rw [hfill]
    simp only [pure, Except.pure, Nat.zero_mul, List.take_zero, List.nil_append, Nat.zero_add]
    rw [List.drop_eq_nil_of_le (by rw [List.length_replicate, hl]; exact Nat.le_refl _), List.append_nil]
    congr 1
    exact chunks_flatten w n (r0 :: rest) ⟨hl, hw⟩

theorem mapM_ok_get {β γ : Type} (f : β → Except String γ) : ∀ (l : List β) (rs : List γ),
    l.mapM f = .ok rs → ∀ (i : Nat) (x : β), l[i]? = some x → ∃ r, f x = .ok r ∧ rs[i]? = some r
  | [], _, _, i, x, hx => by simp at hx
  | y :: ys, rs, h, i, x, hx => by
    rw [List.mapM_cons] at h
    cases hy : f y with
    | error e => simp [hy, bind, Except.bind] at h
    | ok r0 =>
      cases hys : ys.mapM f with
      | error e => simp [hy, hys, bind, Except.bind] at h
      | ok rs' =>
        simp only [hy, hys, bind, Except.bind, pure, Except.pure, Except.ok.injEq] at h
        subst h
        cases i with
        | zero =>
          simp only [List.getElem?_cons_zero, Option.some.injEq] at hx
          subst hx
          exact ⟨r0, hy, rfl⟩
        | succ j =>
          simp only [List.getElem?_cons_succ] at hx ⊢
          exact mapM_ok_get f ys rs' hys j x hx

/-- **the `states = nil` entry for models with a constant state width.** If every cell's own initial row
(`km.init` of the cell's parameter column = what `InitialiseStates(1)` builds for the cell alone) has the same width,
then `InitialiseStates(n)` succeeds with exactly those rows: row `i` of the array the N-cell `Run` starts from is
`km.init (column i)`. -/
theorem initStates_uniform_row {km : KModel α} {spec : ParamSpec} {lay : List (Nat × Nat)} {params : List (List α)}
    {n : Nat} (rows : List (List α))
    (hm : (List.range n).mapM (fun i => do let p ← cellParams spec lay params i; km.init p) = .ok rows)
    (w : Nat) (hw : ∀ r ∈ rows, r.length = w) :
    initStates km spec lay params n = .ok rows ∧
    ∀ i, i < n → ∃ p r, cellParams spec lay params i = .ok p ∧ km.init p = .ok r ∧ rows[i]? = some r := by
  refine ⟨initStates_uniform rows hm w hw, ?_⟩
  intro i hi
  obtain ⟨r, h1, h2⟩ := mapM_ok_get _ _ _ hm i i (by simp [hi])
  cases hp : cellParams spec lay params i with
  | error e => simp [hp, bind, Except.bind] at h1
  | ok p =>
    simp only [hp, bind, Except.bind] at h1
    exact ⟨p, r, rfl, h1, h2⟩

/-- **single_cell_eq for `states = nil`, constant state width.** Let the N-cell `Run` WITHOUT a state array succeed with
`out`, and let every cell's own initial row have one width. Then for every cell `i < nCells` there are its parameter
column `p` and `st` with `km.init p = st` — the states `InitialiseStates(1)` builds for the cell ALONE — such that the
single-cell `Run` on any one-cell parameter array decoding to `p`, the cell's input block, the one row `st` and the cell's
output rows returns exactly cell `i`'s part of `out`. -/
theorem single_cell_eq_init_uniform (km : KModel α) (spec : ParamSpec) (x : RunIn α) (hx : x.states = none)
    (out : RunOut α) (h : run km spec x = .ok out)
    (lay : List (Nat × Nat)) (hl : layout spec x.params = .ok lay) (rows : List (List α))
    (hm : (List.range x.nCells).mapM (fun i => do let p ← cellParams spec lay x.params i; km.init p) = .ok rows)
    (w : Nat) (hw : ∀ r ∈ rows, r.length = w) (i : Nat) (hi : i < x.nCells) :
    ∃ (p st : List α) (orow blk : List (List α)) (s' : List α) (o' : List (List α)),
      cellParams spec lay x.params i = .ok p ∧ km.init p = .ok st ∧
      x.outputs[i]? = some orow ∧ x.inputs[i % x.inputs.length]? = some blk ∧
      out.states[i]? = some s' ∧ out.outputs[i]? = some o' ∧
      ∀ (params₁ : List (List α)) (lay₁ : List (Nat × Nat)), layout spec params₁ = .ok lay₁ →
        cellParams spec lay₁ params₁ 0 = .ok p →
        run km spec { params := params₁, inputs := [blk], states := some [st], nCells := 1, outputs := [orow] } =
          .ok { outputs := [o'], states := [s'] } := by
  obtain ⟨lay', sts, hl', hi', hall⟩ := single_cell_eq_init km spec x hx out h
  rw [hl] at hl'
  cases hl'
  obtain ⟨hu, hrow⟩ := initStates_uniform_row rows hm w hw
  rw [hu] at hi'
  cases hi'
  have hlen : rows.length = x.nCells := by
    have := (mapM_ok_length _ _ _ hm).1
    simpa using this
  obtain ⟨p, st, orow, blk, s', o', g1, g2, g3, g4, g5, g6, g7⟩ := hall i (by rw [hlen]; exact hi)
  obtain ⟨p', r, k1, k2, k3⟩ := hrow i hi
  rw [g1] at k1
  cases k1
  rw [g2] at k3
  cases k3
  exact ⟨p, st, orow, blk, s', o', g1, k2, g3, g4, g5, g6, g7⟩

/-! ### non-vacuity: `RunoffCoefficient` (no states: every initial row is `[]`, width 0) on 2 cells -/
example (a b : α) :
    initStates (Kernels.Coeff.model (α := α)) [none] [(0, 1)] [[a, b]] 2 = .ok [[], []] :=
  (initStates_uniform_row (km := Kernels.Coeff.model (α := α)) [[], []] rfl 0 (by simp)).1

end OW.Props.C04
