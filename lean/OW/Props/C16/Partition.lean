import OW.Proofs.C16Rating
/-!
C16, part 2 — partitioning models split without loss: the two outputs of the fixed, variable, rating-curve and demand
partitions always sum to the input; extraction never exceeds demand or availability and outflow is never negative.
Whole-series statements for every input value (zero, negative, table end points), every parameter value and every
rating-table size, at `α := ℝ`.
-/
namespace OW.Props.C16
open OW OW.Kernels OW.C16

/-! ### FixedPartition, VariablePartition -/

/-- **FixedPartition: output1 + output2 = input** along the whole series, for every fraction (also outside [0,1]). -/
theorem fixedPartition_sum (fraction : ℝ) (input : List ℝ) :
    (FixedPartition.run fraction input).map (fun o => o.1 + o.2) = input := by
  unfold FixedPartition.run
  induction input with
  | nil => rfl
  | cons x xs ih =>
    simp only [List.map_cons, ih, FixedPartition.step, RealNum.ofNat_eq, Nat.cast_one]
    congr 1; ring

/-- FixedPartition: output1 is `input × fraction` (and output2 the remainder `input × (1 - fraction)`). -/
theorem fixedPartition_outputs (fraction : ℝ) (input : List ℝ) :
    FixedPartition.run fraction input = input.map (fun x => (x * fraction, x * (1 - fraction))) := by
  unfold FixedPartition.run
  congr 1; funext x
  simp only [FixedPartition.step, RealNum.ofNat_eq, Nat.cast_one]

/-- **VariablePartition: output1 + output2 = input** along the whole series, for every fraction series. -/
theorem variablePartition_sum (input fraction : List ℝ) (hlen : input.length = fraction.length) :
    (VariablePartition.run input fraction).map (fun o => o.1 + o.2) = input := by
  unfold VariablePartition.run
  induction input generalizing fraction with
  | nil => simp
  | cons x xs ih =>
    cases fraction with
    | nil => simp at hlen
    | cons f fs =>
      simp only [List.zip_cons_cons, List.map_cons, ih fs (by simpa using hlen), VariablePartition.step,
        RealNum.ofNat_eq, Nat.cast_one]
      congr 1; ring

/-! ### RatingCurvePartition -/

/-- one timestep: whenever the kernel does not panic, the two outputs sum to the input (any table) -/
theorem ratingPartition_step_sum (xs ys : List ℝ) (x : ℝ) (o : ℝ × ℝ)
    (h : RatingCurvePartition.step xs ys x = .ok o) : o.1 + o.2 = x := by
  unfold RatingCurvePartition.step at h
  split at h
  · cases h
  · cases h
  · rename_i frac _
    simp only [RealNum.isNaN_eq, Bool.or_self, Bool.false_eq_true, if_false, Except.ok.injEq] at h
    subst h
    simp only [RealNum.ofNat_eq, Nat.cast_one]; ring

/-- **RatingCurvePartition: output1 + output2 = input** along the whole series, for every rating table (any number of
rows, any abscissae and proportions) and every input series on which the kernel returns at all. -/
theorem ratingPartition_sum (xs ys input : List ℝ) (os : List (ℝ × ℝ))
    (h : RatingCurvePartition.run xs ys input = .ok os) : os.map (fun o => o.1 + o.2) = input := by
  induction input generalizing os with
  | nil =>
    simp only [RatingCurvePartition.run, Except.ok.injEq] at h
    subst h; rfl
  | cons x rest ih =>
    unfold RatingCurvePartition.run at h
    split at h
    · cases h
    · rename_i o ho
      split at h
      · cases h
      · rename_i os' hos'
        simp only [Except.ok.injEq] at h
        subst h
        simp only [List.map_cons, ih os' hos', ratingPartition_step_sum xs ys x o ho]

/-- for a strictly increasing table the divisor `x1 - x0` of the interpolation between adjacent rows is positive:
the proportion is never obtained from a division by zero -/
theorem ratingPartition_divisor_pos (xs : List ℝ) (hs : xs.Pairwise (· < ·)) (k : Nat) (hk : 1 ≤ k)
    (hkn : k < xs.length) : 0 < xs[k] - xs[k - 1]'(by omega) := by
  have := (List.pairwise_iff_getElem.mp hs) (k - 1) k (by omega) hkn (by omega)
  linarith

/-- **RatingCurvePartition, catalogue-model level**: for EVERY parameter column (any `nPts`, any table rows — the column
is decoded as `nPts, inputAmount[nPts], proportion[nPts]`) and every input series, if the run returns then its two
output series sum, timestep by timestep, to the input series. -/
theorem ratingPartition_model_sum (p input : List ℝ) (o : KOut ℝ)
    (h : (RatingCurvePartition.model (α := ℝ)).run p [input] [] = .ok o) :
    ∃ out1 out2, o.outputs = [out1, out2] ∧ List.zipWith (· + ·) out1 out2 = input := by
  simp only [RatingCurvePartition.model] at h
  split at h
  · rename_i hin _
    simp only [List.cons.injEq, and_true] at hin
    subst hin
    split at h
    · cases h
    · rename_i os hos
      simp only [Except.ok.injEq] at h
      subst h
      refine ⟨_, _, rfl, ?_⟩
      rw [← ratingPartition_sum _ _ _ os hos]
      clear hos
      induction os with
      | nil => rfl
      | cons a as ih => simp only [List.map_cons, List.zipWith_cons_cons, ih]
  · cases h

/-- **RatingCurvePartition is defined on the whole table range, end points included**: with at least two rows, as many
proportions as abscissae, and the input between the first and the last abscissa, a timestep does not panic.
(For a strictly increasing table the interpolation divides by a positive number: `ratingPartition_divisor_pos`.) -/
theorem ratingPartition_step_defined (x0 x1 : ℝ) (rest ys : List ℝ) (x : ℝ)
    (hlen : ys.length = (x0 :: x1 :: rest).length)
    (hlo : x0 ≤ x) (hhi : x ≤ (x1 :: rest).getLast (List.cons_ne_nil _ _)) :
    ∃ o, RatingCurvePartition.step (x0 :: x1 :: rest) ys x = .ok o := by
  obtain ⟨k, _, hkn, hb⟩ := brackets_inside x0 x1 rest x hlo hhi
  have hk1 : k - 1 < (x0 :: x1 :: rest).length := by omega
  unfold RatingCurvePartition.step Fn.piecewise
  rw [hb]
  simp only [List.getElem?_eq_getElem hkn, List.getElem?_eq_getElem hk1,
    List.getElem?_eq_getElem (hlen ▸ hkn), List.getElem?_eq_getElem (hlen ▸ hk1)]
  split_ifs <;> simp only [RealNum.isNaN_eq, Bool.or_self, Bool.false_eq_true, if_false] <;> exact ⟨_, rfl⟩

/-- whole series: every input inside the table range ⇒ the run returns (and then `ratingPartition_sum` applies) -/
theorem ratingPartition_defined (x0 x1 : ℝ) (rest ys input : List ℝ)
    (hlen : ys.length = (x0 :: x1 :: rest).length)
    (hin : ∀ x ∈ input, x0 ≤ x ∧ x ≤ (x1 :: rest).getLast (List.cons_ne_nil _ _)) :
    ∃ os, RatingCurvePartition.run (x0 :: x1 :: rest) ys input = .ok os ∧ os.map (fun o => o.1 + o.2) = input := by
  have key : ∃ os, RatingCurvePartition.run (x0 :: x1 :: rest) ys input = .ok os := by
    induction input with
    | nil => exact ⟨[], rfl⟩
    | cons x xs ih =>
      obtain ⟨o, ho⟩ := ratingPartition_step_defined x0 x1 rest ys x hlen
        (hin x (List.mem_cons_self ..)).1 (hin x (List.mem_cons_self ..)).2
      obtain ⟨os, hos⟩ := ih (fun y hy => hin y (List.mem_cons_of_mem _ hy))
      exact ⟨o :: os, by unfold RatingCurvePartition.run; rw [ho]; simp only; rw [hos]⟩
  obtain ⟨os, hos⟩ := key
  exact ⟨os, hos, ratingPartition_sum _ _ _ _ hos⟩

/-- an input below the first or above the last abscissa makes the kernel panic (class "other": `panic(err)` with
Piecewise's "Couldn't find brackets"): outside the table the partition is not defined, it never extrapolates -/
theorem ratingPartition_outside_panics (x0 : ℝ) (rest ys : List ℝ) (x : ℝ) (more : List ℝ)
    (hout : x < x0 ∨ (x0 :: rest).getLast (List.cons_ne_nil _ _) < x) :
    RatingCurvePartition.run (x0 :: rest) ys (x :: more) = .error "other" := by
  have hb : Fn.brackets x (x0 :: rest) = .ok none := by
    unfold Fn.brackets
    simp only
    by_cases h : x < x0
    · rw [if_pos h]
    · rw [if_neg h]
      rcases hout with h' | h'
      · exact absurd h' h
      · have : (x0 :: rest).getLast?.getD x0 = (x0 :: rest).getLast (List.cons_ne_nil _ _) := by
          simp [List.getLast?_eq_some_getLast]
        rw [this, if_pos h']
  unfold RatingCurvePartition.run RatingCurvePartition.step Fn.piecewise
  rw [hb]

/-- a single-row table never brackets anything: the kernel panics on the first timestep, whatever the input -/
theorem ratingPartition_single_row_panics (x0 : ℝ) (ys : List ℝ) (x : ℝ) (more : List ℝ) :
    RatingCurvePartition.run [x0] ys (x :: more) = .error "other" := by
  have hb : Fn.brackets x [x0] = .ok none := by
    unfold Fn.brackets
    simp only
    split_ifs <;> simp [Fn.bracketLoop]
  unfold RatingCurvePartition.run RatingCurvePartition.step Fn.piecewise
  rw [hb]

/-- an empty table: index out of range in `brackets` -/
theorem ratingPartition_empty_table_panics (ys : List ℝ) (x : ℝ) (more : List ℝ) :
    RatingCurvePartition.run [] ys (x :: more) = .error "index-out-of-range" := by
  unfold RatingCurvePartition.run RatingCurvePartition.step Fn.piecewise Fn.brackets
  rfl

/-! ### PartitionDemand -/

/-- **PartitionDemand**, every timestep of the series: extraction ≤ demand, extraction ≤ input (availability),
outflow ≥ 0 and outflow + extraction = input — for every input and demand, including zero and negative demand. -/
theorem partitionDemand_spec (input demand : List ℝ) :
    List.Forall₂ (fun (x : ℝ × ℝ) (o : ℝ × ℝ) => o.2 ≤ x.2 ∧ o.2 ≤ x.1 ∧ 0 ≤ o.1 ∧ o.1 + o.2 = x.1)
      (input.zip demand) (PartitionDemand.run input demand) := by
  unfold PartitionDemand.run
  apply forall₂_map
  rintro ⟨inp, dmd⟩
  simp only [PartitionDemand.step, RealNum.gmin_eq, RealNum.gmax_eq, sci_zero]
  have h1 : min dmd inp ≤ inp := min_le_right _ _
  refine ⟨min_le_left _ _, h1, le_max_right _ _, ?_⟩
  rw [max_eq_left (by linarith)]; ring

/-- with `0 ≤ demand ≤ input` the demand is met in full and the rest flows on -/
theorem partitionDemand_met (inp dmd : ℝ) (h : dmd ≤ inp) :
    PartitionDemand.step (inp, dmd) = (inp - dmd, dmd) := by
  simp only [PartitionDemand.step, RealNum.gmin_eq, RealNum.gmax_eq, sci_zero]
  rw [min_eq_left h, max_eq_left (by linarith)]

/-! ### non-vacuity -/

example : (FixedPartition.run (0.25:ℝ) [8, 0, -4]).map (fun o => o.1 + o.2) = [8, 0, -4] := fixedPartition_sum _ _
/-- table `(0,0.2) (10,0.6)`, inputs at both end points and inside: the run returns and the outputs sum to the input -/
example : ∃ os, RatingCurvePartition.run [(0:ℝ), 10] [0.2, 0.6] [0, 10, 5] = .ok os ∧
    os.map (fun o => o.1 + o.2) = [0, 10, 5] :=
  ratingPartition_defined 0 10 [] [0.2, 0.6] [0, 10, 5] rfl (by
    intro x hx
    simp only [List.mem_cons, List.not_mem_nil, or_false] at hx
    rcases hx with rfl | rfl | rfl <;> norm_num)
/-- negative demand: extraction = demand < 0, outflow = input - demand > input, still summing to the input -/
example : PartitionDemand.step ((5:ℝ), -2) = (7, -2) := by
  rw [partitionDemand_met 5 (-2) (by norm_num)]; norm_num

end OW.Props.C16
