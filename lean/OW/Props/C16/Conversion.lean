import OW.Proofs.C16Lemmas
import OW.Kernels.C16.Conversions
/-!
C16, part 1 — pass-through, sum, gate, scaling, delivery-ratio and depth-to-rate models are the identity, sum, mask or
linear map they name, with the documented unit factors. All statements are about the whole output series, for every
input series and every parameter value, at `α := ℝ` (exact arithmetic). Early-return branches (`if scale == 0.0 { return }`)
are covered: the untouched zero-initialised output equals the linear map with factor 0.
-/
namespace OW.Props.C16
open OW OW.Kernels OW.C16

/-! ### unit constants: the documented factors are the ones the models use -/

/-- `MG_PER_LITRE_TO_KG_PER_M3 = MILLIGRAM_TO_KG / LITRES_TO_CUBIC_METRES = 1e-6 / 1e-3 = 1e-3`. -/
theorem mgPerLitre_factor :
    (Units.mgPerLitreToKgPerM3 : ℝ) = Units.milligramToKg / Units.litresToCubicMetres ∧
    (Units.mgPerLitreToKgPerM3 : ℝ) = 1 / 1000 := by
  rw [mgPerLitreToKgPerM3_eq, milligramToKg_eq, litresToCubicMetres_eq]; norm_num

/-- The remaining constants of `conv/units` and `conv/rough` used by the C16 kernels have their documented values
(`CUBIC_METRES_PER_SECOND_TO_MEGA_LITRES_PER_DAY = (60·60·24)·1e-3`, `SECONDS_PER_DAY = 24·60·60`, …). -/
theorem unit_constants :
    (Units.millimetresToMetres : ℝ) = 1 / 1000 ∧ (Units.metresToMillimetres : ℝ) = 1000 ∧
    (Units.tonnesToKg : ℝ) = 1000 ∧ (Units.kgToMilligram : ℝ) = 1000000 ∧ (Units.milligramToKg : ℝ) = 1 / 1000000 ∧
    (Units.cubicMetresToLitres : ℝ) = 1000 ∧ (Units.megaLitresToLitres : ℝ) = 1000000 ∧
    (Units.percentToProportion : ℝ) = 1 / 100 ∧ (Units.squareMetresToHectares : ℝ) = 1 / 10000 ∧
    (Units.secondsPerDay : ℝ) = 24 * 60 * 60 ∧
    (Units.cumecsToMegaLitresPerDay : ℝ) = (60 * 60 * 24) * (1 / 1000) ∧ (Units.daysPerYear : ℝ) = 365 + 1 / 4 := by
  rw [millimetresToMetres_eq, metresToMillimetres_eq, tonnesToKg_eq, kgToMilligram_eq, milligramToKg_eq,
    cubicMetresToLitres_eq, megaLitresToLitres_eq, percentToProportion_eq, squareMetresToHectares_eq, secondsPerDay_eq,
    cumecsToMegaLitresPerDay_eq, daysPerYear_eq]
  norm_num

/-! ### ApplyScalingFactor / DeliveryRatio -/

/-- **ApplyScalingFactor is the linear map `x ↦ x·scale`** on the whole series, for every scale — including
`scale = 0`, where the kernel returns early and the output stays as allocated (all zeros = `x·0`). -/
theorem applyScaling_linear (scale : ℝ) (input : List ℝ) :
    Scaling.run scale input = input.map (fun x => x * scale) := by
  unfold Scaling.run
  by_cases h : scale = 0
  · rw [if_pos ((feq_zero scale).mpr h)]
    exact zeros_eq_map _ (fun x => by rw [h, mul_zero]) input _ rfl
  · rw [if_neg (by rw [feq_zero]; exact h)]

/-- the early return relies on zero-initialised outputs: with `scale = 0` the kernel writes nothing -/
theorem applyScaling_zero (input : List ℝ) : Scaling.run 0 input = zeros input.length := by
  unfold Scaling.run
  rw [if_pos ((feq_zero 0).mpr rfl)]

/-- **DeliveryRatio: delivered load = generated load × delivery ratio.** The catalogue model `DeliveryRatio` runs the
same kernel (`applyScaling`) as `ApplyScalingFactor`, with its parameter `fraction` as the factor. -/
theorem deliveryRatio_linear (fraction : ℝ) (input : List ℝ) :
    (Scaling.deliveryRatio (α := ℝ)).run = (Scaling.model (α := ℝ)).run ∧
    ((Scaling.deliveryRatio (α := ℝ)).run [fraction] [input] []).map (·.outputs) =
      .ok [input.map (fun x => x * fraction)] := by
  refine ⟨rfl, ?_⟩
  simp only [Scaling.deliveryRatio, Scaling.mk, applyScaling_linear, Except.map]

/-! ### DepthToRate -/

/-- the conversion factor of DepthToRate is the documented `1e-3 · area / Δt` (mm → m, × m², per second) -/
theorem depthToRate_factor (deltaT area : ℝ) :
    DepthToRate.conversion deltaT area = (1 / 1000) * area / deltaT := by
  unfold DepthToRate.conversion; rw [millimetresToMetres_eq]

/-- **DepthToRate is the linear map `x ↦ x · (1e-3·area/Δt)`** on the whole series, for every area (including
`area = 0`: early return, zero-initialised output) and every time step `Δt > 0`. -/
theorem depthToRate_linear (deltaT area : ℝ) (_hdt : 0 < deltaT) (input : List ℝ) :
    DepthToRate.run deltaT area input = input.map (fun x => x * ((1 / 1000) * area / deltaT)) := by
  unfold DepthToRate.run
  by_cases h : area = 0
  · rw [if_pos ((feq_zero area).mpr h)]
    exact zeros_eq_map _ (fun x => by rw [h]; ring) input _ rfl
  · rw [if_neg (by rw [feq_zero]; exact h)]
    simp only [depthToRate_factor]

/-! ### Input, Sum, Gate -/

/-- **Input is the identity** on the series. -/
theorem input_identity (input : List ℝ) : InputNode.run input = input := rfl

/-- **Sum is the element-wise sum** of its two input series. -/
theorem sum_is_sum (i1 i2 : List ℝ) : Sum.run i1 i2 = List.zipWith (· + ·) i1 i2 := by
  unfold Sum.run
  induction i1 generalizing i2 with
  | nil => simp
  | cons a as ih =>
    cases i2 with
    | nil => simp
    | cons b bs => simp only [List.zip_cons_cons, List.map_cons, List.zipWith_cons_cons, ih]; rfl

/-- **Gate is the mask** `outgoing = incoming` where `trigger > 0`, `0` elsewhere. -/
theorem gate_is_mask (trigger incoming : List ℝ) :
    Gate.run trigger incoming = List.zipWith (fun t i => if 0 < t then i else 0) trigger incoming := by
  unfold Gate.run
  induction trigger generalizing incoming with
  | nil => simp
  | cons t ts ih =>
    cases incoming with
    | nil => simp
    | cons i is =>
      simp only [List.zip_cons_cons, List.map_cons, List.zipWith_cons_cons, ih]
      congr 1
      simp only [Gate.step, RealNum.ofNat_eq, Nat.cast_zero, gt_iff_lt, sci_zero]

/-! ### non-vacuity -/

example : Scaling.run (2:ℝ) [1, 3] = [1 * 2, 3 * 2] := applyScaling_linear 2 [1, 3]
example : DepthToRate.run (86400:ℝ) 1000000 [10] = [10 * ((1 / 1000) * 1000000 / 86400)] :=
  depthToRate_linear 86400 1000000 (by norm_num) [10]
example : Gate.run [(1:ℝ), 0, -1] [5, 6, 7] = [5, 0, 0] := by
  rw [gate_is_mask]; norm_num [List.zipWith]
example : Sum.run [(1:ℝ), 2] [10, 20] = [11, 22] := by
  rw [sum_is_sum]; norm_num [List.zipWith]

end OW.Props.C16
