import OW.Proofs.C16Lemmas
import OW.Kernels.C16.LoadGen
/-!
C16, part 3 — concentration-based generation models: totals equal the sum of their parts, the loads are linear in flow
and concentration with the mg/L → kg/m³ factor `1e-3`, every load is zero when its driver (flow, supplied sediment) is
zero and non-negative when its drivers are. Whole-series statements (`List.Forall₂` relates timestep `t` of the inputs to
timestep `t` of the outputs), for all inputs and parameters including the early-return parameter values, at `α := ℝ`.
-/
namespace OW.Props.C16
open OW OW.Kernels OW.C16

/-! ### EmcDwc -/

/-- the early return of `emcDWC` (`EMC == 0 && DWC == 0`, outputs left as allocated) produces exactly what the loop
would have produced -/
theorem emcDwc_run_eq_loop (emc dwc : ℝ) (qf sf : List ℝ) (hlen : qf.length = sf.length) :
    EmcDwc.run emc dwc qf sf = (qf.zip sf).map (EmcDwc.step emc dwc) := by
  unfold EmcDwc.run
  by_cases h : emc = 0 ∧ dwc = 0
  · rw [if_pos (by rw [Bool.and_eq_true, feq_zero, feq_zero]; exact h)]
    apply replicate_eq_map
    · rintro ⟨q, s⟩
      simp only [EmcDwc.step, h.1, h.2, RealNum.zero_eq, mul_zero, zero_mul, add_zero]
    · simp [hlen]
  · rw [if_neg (by rw [Bool.and_eq_true, feq_zero, feq_zero]; exact h)]

/-- **EmcDwc**, every timestep: `quickLoad = quickflow·EMC·1e-3`, `slowLoad = baseflow·DWC·1e-3` (linear in flow and in
concentration, with `MG_PER_LITRE_TO_KG_PER_M3 = 1e-3`) and `totalLoad = quickLoad + slowLoad`. -/
theorem emcDwc_spec (emc dwc : ℝ) (qf sf : List ℝ) (hlen : qf.length = sf.length) :
    List.Forall₂ (fun (x : ℝ × ℝ) (o : EmcDwc.Out ℝ) =>
        o.quickLoad = x.1 * emc * (1 / 1000) ∧ o.slowLoad = x.2 * dwc * (1 / 1000) ∧
        o.totalLoad = o.quickLoad + o.slowLoad)
      (qf.zip sf) (EmcDwc.run emc dwc qf sf) := by
  rw [emcDwc_run_eq_loop emc dwc qf sf hlen]
  apply forall₂_map
  rintro ⟨q, s⟩
  simp only [EmcDwc.step, mgPerLitreToKgPerM3_eq, and_self]

/-- **EmcDwc**, every timestep: zero flow ⇒ zero load; non-negative flows and concentrations ⇒ non-negative loads. -/
theorem emcDwc_zero_nonneg (emc dwc : ℝ) (qf sf : List ℝ) (hlen : qf.length = sf.length) :
    List.Forall₂ (fun (x : ℝ × ℝ) (o : EmcDwc.Out ℝ) =>
        (x.1 = 0 → o.quickLoad = 0) ∧ (x.2 = 0 → o.slowLoad = 0) ∧ (x.1 = 0 → x.2 = 0 → o.totalLoad = 0) ∧
        (0 ≤ emc → 0 ≤ dwc → 0 ≤ x.1 → 0 ≤ x.2 → 0 ≤ o.quickLoad ∧ 0 ≤ o.slowLoad ∧ 0 ≤ o.totalLoad))
      (qf.zip sf) (EmcDwc.run emc dwc qf sf) := by
  rw [emcDwc_run_eq_loop emc dwc qf sf hlen]
  apply forall₂_map
  rintro ⟨q, s⟩
  simp only [EmcDwc.step, mgPerLitreToKgPerM3_eq]
  refine ⟨fun h => by rw [h]; ring, fun h => by rw [h]; ring, fun h1 h2 => by rw [h1, h2]; ring, ?_⟩
  intro h1 h2 h3 h4
  have a : 0 ≤ q * emc * (1 / 1000) := by positivity
  have b : 0 ≤ s * dwc * (1 / 1000) := by positivity
  exact ⟨a, b, by linarith⟩

/-- linearity in flow: scaling both flows by `a` scales every load by `a` -/
theorem emcDwc_linear_in_flow (emc dwc a q s : ℝ) :
    (EmcDwc.step emc dwc (a * q, a * s)).quickLoad = a * (EmcDwc.step emc dwc (q, s)).quickLoad ∧
    (EmcDwc.step emc dwc (a * q, a * s)).slowLoad = a * (EmcDwc.step emc dwc (q, s)).slowLoad ∧
    (EmcDwc.step emc dwc (a * q, a * s)).totalLoad = a * (EmcDwc.step emc dwc (q, s)).totalLoad := by
  simp only [EmcDwc.step]
  refine ⟨by ring, by ring, by ring⟩

/-- linearity in concentration: scaling EMC and DWC by `a` scales every load by `a` -/
theorem emcDwc_linear_in_concentration (emc dwc a q s : ℝ) :
    (EmcDwc.step (a * emc) (a * dwc) (q, s)).totalLoad = a * (EmcDwc.step emc dwc (q, s)).totalLoad := by
  simp only [EmcDwc.step]; ring

/-! ### FixedConcentration -/

/-- **FixedConcentration is the linear map `load = flow · concentration · 1e-3`** on the whole series, for every
concentration (with `concentration = 0` the kernel returns early and the output stays zero = `flow·0·1e-3`). -/
theorem fixedConcentration_linear (conc : ℝ) (flow : List ℝ) :
    FixedConcentration.run conc flow = flow.map (fun f => f * conc * (1 / 1000)) := by
  unfold FixedConcentration.run
  by_cases h : conc = 0
  · rw [if_pos ((feq_zero conc).mpr h)]
    exact zeros_eq_map _ (fun x => by rw [h]; ring) flow _ rfl
  · rw [if_neg (by rw [feq_zero]; exact h)]
    simp only [mgPerLitreToKgPerM3_eq]

/-- FixedConcentration: zero flow ⇒ zero load, non-negative flow and concentration ⇒ non-negative load -/
theorem fixedConcentration_zero_nonneg (conc : ℝ) (flow : List ℝ) :
    List.Forall₂ (fun (f l : ℝ) => (f = 0 → l = 0) ∧ (0 ≤ conc → 0 ≤ f → 0 ≤ l))
      flow (FixedConcentration.run conc flow) := by
  rw [fixedConcentration_linear]
  apply forall₂_map
  intro f
  exact ⟨fun h => by rw [h]; ring, fun h1 h2 => by positivity⟩

/-! ### PassLoadIfFlow -/

/-- `EFFECTIVELY_ZERO = 1e-8` -/
theorem effectivelyZero_eq : (PassLoadIfFlow.effectivelyZero : ℝ) = 1 / 100000000 := by
  simp only [PassLoadIfFlow.effectivelyZero]; norm_num

/-- **PassLoadIfFlow is the mask-and-scale map** `outputLoad = inputLoad · scalingFactor` where `flow > 1e-8`, `0`
elsewhere, on the whole series and for every scaling factor (early return for `scalingFactor = 0` included). -/
theorem passLoadIfFlow_spec (sf : ℝ) (flow load : List ℝ) (hlen : flow.length = load.length) :
    PassLoadIfFlow.run sf flow load =
      (flow.zip load).map (fun x => if 1 / 100000000 < x.1 then x.2 * sf else 0) := by
  have hstep : ∀ x : ℝ × ℝ, PassLoadIfFlow.step sf x = if 1 / 100000000 < x.1 then x.2 * sf else 0 := by
    rintro ⟨f, l⟩
    simp only [PassLoadIfFlow.step, effectivelyZero_eq, gt_iff_lt, sci_zero]
  unfold PassLoadIfFlow.run
  by_cases h : sf = 0
  · rw [if_pos ((feq_zero sf).mpr h)]
    apply zeros_eq_map
    · intro x; rw [h, mul_zero]; split_ifs <;> rfl
    · simp [hlen]
  · rw [if_neg (by rw [feq_zero]; exact h)]
    congr 1; funext x; exact hstep x

/-- PassLoadIfFlow: zero flow ⇒ zero load; non-negative load and factor ⇒ non-negative output -/
theorem passLoadIfFlow_zero_nonneg (sf : ℝ) (flow load : List ℝ) (hlen : flow.length = load.length) :
    List.Forall₂ (fun (x : ℝ × ℝ) (o : ℝ) => (x.1 = 0 → o = 0) ∧ (0 ≤ sf → 0 ≤ x.2 → 0 ≤ o))
      (flow.zip load) (PassLoadIfFlow.run sf flow load) := by
  rw [passLoadIfFlow_spec sf flow load hlen]
  apply forall₂_map
  rintro ⟨f, l⟩
  refine ⟨fun h => ?_, fun h1 h2 => ?_⟩
  · simp only at h; rw [if_neg (by rw [h]; norm_num)]
  · split_ifs
    · positivity
    · exact le_refl _

/-! ### SednetDissolvedNutrientGeneration -/

/-- `cumecs_to_lpd = SECONDS_PER_DAY · CUBIC_METRES_TO_LITRES` -/
theorem cumecsToLpd_eq : (DissolvedNutrients.cumecsToLpd : ℝ) = Units.secondsPerDay * Units.cubicMetresToLitres := by
  rw [secondsPerDay_eq, cubicMetresToLitres_eq]
  simp only [DissolvedNutrients.cumecsToLpd, RealNum.ofNat_eq]; norm_num

/-- **SednetDissolvedNutrientGeneration**, every timestep: the day-based computation (m³/s → L/day, mg → kg, per
day → per second) reduces to `load = flow · concentration · 1e-3` (the mg/L → kg/m³ factor), and
`totalLoad = quickflowConstituent + slowflowConstituent`. -/
theorem dissolvedNutrients_spec (emc dwc : ℝ) (qf sf : List ℝ) :
    List.Forall₂ (fun (x : ℝ × ℝ) (o : DissolvedNutrients.Out ℝ) =>
        o.quick = x.1 * emc * (1 / 1000) ∧ o.slow = x.2 * dwc * (1 / 1000) ∧ o.total = o.quick + o.slow)
      (qf.zip sf) (DissolvedNutrients.run emc dwc qf sf) := by
  unfold DissolvedNutrients.run
  apply forall₂_map
  rintro ⟨q, s⟩
  simp only [DissolvedNutrients.step, cumecsToLpd_eq, secondsPerDay_eq, cubicMetresToLitres_eq, milligramToKg_eq]
  refine ⟨by ring, by ring, by ring⟩

/-- SednetDissolvedNutrientGeneration: zero flow ⇒ zero load; non-negative drivers ⇒ non-negative loads -/
theorem dissolvedNutrients_zero_nonneg (emc dwc : ℝ) (qf sf : List ℝ) :
    List.Forall₂ (fun (x : ℝ × ℝ) (o : DissolvedNutrients.Out ℝ) =>
        (x.1 = 0 → o.quick = 0) ∧ (x.2 = 0 → o.slow = 0) ∧
        (0 ≤ emc → 0 ≤ dwc → 0 ≤ x.1 → 0 ≤ x.2 → 0 ≤ o.quick ∧ 0 ≤ o.slow ∧ 0 ≤ o.total))
      (qf.zip sf) (DissolvedNutrients.run emc dwc qf sf) := by
  refine List.Forall₂.imp ?_ (dissolvedNutrients_spec emc dwc qf sf)
  rintro ⟨q, s⟩ o ⟨h1, h2, h3⟩
  refine ⟨fun h => by rw [h1]; simp only at h; rw [h]; ring, fun h => by rw [h2]; simp only at h; rw [h]; ring, ?_⟩
  intro a b c d
  simp only at c d h1 h2
  have e1 : 0 ≤ o.quick := by rw [h1]; positivity
  have e2 : 0 ≤ o.slow := by rw [h2]; positivity
  exact ⟨e1, e2, by rw [h3]; linarith⟩

/-! ### SednetParticulateNutrientGeneration -/

/-- **SednetParticulateNutrientGeneration**, every timestep (inputs: fine/coarse sheet, fine/coarse gully sediment,
slowflow): hillslope and gully contributions are *generated sediment × soil concentration × enrichment × delivery ratio
(percent → proportion)*, the quickflow constituent is their sum, the slowflow constituent is `slowflow·DWC·1e-3` and
`totalLoad = quick + slow`. Both branches of the CREAMS switch compute the same expressions. -/
theorem particulateNutrients_spec (p : ParticulateNutrients.Params ℝ) (a b c d e : List ℝ) :
    List.Forall₂ (fun (x : ℝ × ℝ × ℝ × ℝ × ℝ) (o : ParticulateNutrients.Out ℝ) =>
        o.hillslope = (x.1 + x.2.1) * p.nutSurfSoilConc * p.nutrientEnrichmentRatio * (p.hillDeliveryRatio * (1 / 100)) ∧
        o.gully = (x.2.2.1 + x.2.2.2.1) * p.nutSubSoilConc * p.nutrientEnrichmentRatioGully * (p.gullyDeliveryRatio * (1 / 100)) ∧
        o.quick = o.hillslope + o.gully ∧
        o.slow = x.2.2.2.2 * p.nutrientDWC * (1 / 1000) ∧
        o.total = o.quick + o.slow)
      (zip5 a b c d e) (ParticulateNutrients.run p a b c d e) := by
  unfold ParticulateNutrients.run
  apply forall₂_map
  rintro ⟨fs, cs, fg, cg, sf⟩
  simp only [ParticulateNutrients.step, percentToProportion_eq, mgPerLitreToKgPerM3_eq, ite_self, and_self]

/-- SednetParticulateNutrientGeneration: zero supplied sediment ⇒ zero particulate load, zero slowflow ⇒ zero slow
load; non-negative inputs and parameters ⇒ non-negative loads -/
theorem particulateNutrients_zero_nonneg (p : ParticulateNutrients.Params ℝ) (a b c d e : List ℝ) :
    List.Forall₂ (fun (x : ℝ × ℝ × ℝ × ℝ × ℝ) (o : ParticulateNutrients.Out ℝ) =>
        (x.1 + x.2.1 = 0 → o.hillslope = 0) ∧ (x.2.2.1 + x.2.2.2.1 = 0 → o.gully = 0) ∧
        (x.1 + x.2.1 = 0 → x.2.2.1 + x.2.2.2.1 = 0 → o.quick = 0) ∧ (x.2.2.2.2 = 0 → o.slow = 0) ∧
        (0 ≤ p.nutSurfSoilConc → 0 ≤ p.nutrientEnrichmentRatio → 0 ≤ p.hillDeliveryRatio →
         0 ≤ p.nutSubSoilConc → 0 ≤ p.nutrientEnrichmentRatioGully → 0 ≤ p.gullyDeliveryRatio → 0 ≤ p.nutrientDWC →
         0 ≤ x.1 → 0 ≤ x.2.1 → 0 ≤ x.2.2.1 → 0 ≤ x.2.2.2.1 → 0 ≤ x.2.2.2.2 →
         0 ≤ o.hillslope ∧ 0 ≤ o.gully ∧ 0 ≤ o.quick ∧ 0 ≤ o.slow ∧ 0 ≤ o.total))
      (zip5 a b c d e) (ParticulateNutrients.run p a b c d e) := by
  refine List.Forall₂.imp ?_ (particulateNutrients_spec p a b c d e)
  rintro ⟨fs, cs, fg, cg, sf⟩ o ⟨h1, h2, h3, h4, h5⟩
  simp only at h1 h2 h4 ⊢
  refine ⟨fun h => by rw [h1, h]; ring, fun h => by rw [h2, h]; ring,
    fun ha hb => by rw [h3, h1, h2, ha, hb]; ring, fun h => by rw [h4, h]; ring, ?_⟩
  intro _ _ _ _ _ _ _ _ _ _ _ _
  have e1 : 0 ≤ o.hillslope := by rw [h1]; positivity
  have e2 : 0 ≤ o.gully := by rw [h2]; positivity
  have e4 : 0 ≤ o.slow := by rw [h4]; positivity
  exact ⟨e1, e2, by rw [h3]; linarith, e4, by rw [h5, h3]; linarith⟩

/-! ### non-vacuity -/

example : EmcDwc.run (100:ℝ) 10 [2] [3] = [⟨2 * 100 * 0.001, 3 * 10 * 0.001, 2 * 100 * 0.001 + 3 * 10 * 0.001⟩] := by
  rw [emcDwc_run_eq_loop 100 10 [2] [3] rfl]; rfl
example : FixedConcentration.run (50:ℝ) [4, 0] = [4 * 50 * (1 / 1000), 0 * 50 * (1 / 1000)] :=
  fixedConcentration_linear 50 [4, 0]
example : PassLoadIfFlow.run (2:ℝ) [1, 0] [5, 5] = [5 * 2, 0] := by
  rw [passLoadIfFlow_spec 2 [1, 0] [5, 5] rfl]; norm_num

end OW.Props.C16
