import OW.Proofs.C16Sediment
/-!
C16, part 5 — USLEFineSedimentGeneration: totals = quick + slow, delivered load = generated load × hillslope delivery
ratio, generated fine and coarse material split by the fine fraction `KLSC_Fine / KLSC` (also after the
maximum-concentration cap), zero load when a driver (quickflow, erosive rainfall, KLSC) is zero, and non-negative loads
for non-negative drivers. One-timestep theorems for every parameter and input value, lifted to the whole series.
The rainfall erosivity `R = α(1 + η·cos(2π(doy-15)/365))·rain^β` is treated as an arbitrary real number: none of the
identities depends on it (with `η > 1` it can be negative, and the event test `R·KLSC > 0` then gives zero load).
-/
namespace OW.Props.C16
open OW OW.Kernels OW.C16

/-- **USLE: totals equal the sum of their parts** — `totalFineLoad = quickLoadFine + slowLoadFine`,
`totalCoarseLoad = quickLoadCoarse + slowLoadCoarse` (the latter is always 0), and the slow fine load is
`DWC · baseflow · 1e-3`. -/
theorem usle_totals (p : UsleFine.Params ℝ) (i : UsleFine.In ℝ) :
    (UsleFine.step p i).totalFineLoad = (UsleFine.step p i).quickLoadFine + (UsleFine.step p i).slowLoadFine ∧
    (UsleFine.step p i).totalCoarseLoad = (UsleFine.step p i).quickLoadCoarse + (UsleFine.step p i).slowLoadCoarse ∧
    (UsleFine.step p i).slowLoadCoarse = 0 ∧
    (UsleFine.step p i).slowLoadFine = p.dwc * i.sf * (1 / 1000) := by
  usle_unfold
  split_ifs <;> exact ⟨rfl, rfl, rfl, rfl⟩

/-- **USLE: delivered load = generated load × hillslope delivery ratio** (percent), fine and coarse; the only divisor
is the positive time step. -/
theorem usle_delivered (p : UsleFine.Params ℝ) (_hts : 0 < p.timeStepInSeconds) (i : UsleFine.In ℝ) :
    (UsleFine.step p i).quickLoadFine = (UsleFine.step p i).generatedLoadFine * (p.usleHSDRFine * (1 / 100)) ∧
    (UsleFine.step p i).quickLoadCoarse = (UsleFine.step p i).generatedLoadCoarse * (p.usleHSDRCoarse * (1 / 100)) := by
  usle_unfold
  split_ifs
  · constructor <;> ring
  · c16lit
    constructor <;> ring

/-- **USLE: generated fine + coarse material is split by the fine fraction** `KLSC_Fine / KLSC` of the eroded soil:
`generatedFine · KLSC = (generatedFine + generatedCoarse) · KLSC_Fine`, with or without the concentration cap. -/
theorem usle_fine_fraction (p : UsleFine.Params ℝ) (i : UsleFine.In ℝ) :
    (UsleFine.step p i).generatedLoadFine * i.klsc =
      ((UsleFine.step p i).generatedLoadFine + (UsleFine.step p i).generatedLoadCoarse) * i.klscFine := by
  usle_unfold
  generalize UsleFine.rFactor p i.rain i.doy = r
  split_ifs
  · obtain ⟨adj, hadj, _⟩ := usle_adjustedRates p i.qf (r * i.klscFine) (r * i.klsc - r * i.klscFine)
    simp only [hadj]; ring
  · ring

/-- **USLE: zero driver ⇒ zero load.** Without quickflow, without erosive rainfall (`rain ≤ RainThreshold`) or with
`KLSC = 0`, the quick loads and the generated loads are zero and the total fine load is the dry-weather load alone. -/
theorem usle_zero_driver (p : UsleFine.Params ℝ) (i : UsleFine.In ℝ)
    (h : i.qf ≤ 0 ∨ ¬ p.rainThreshold < i.rain ∨ i.klsc = 0) :
    (UsleFine.step p i).quickLoadFine = 0 ∧ (UsleFine.step p i).quickLoadCoarse = 0 ∧
    (UsleFine.step p i).generatedLoadFine = 0 ∧ (UsleFine.step p i).generatedLoadCoarse = 0 ∧
    (UsleFine.step p i).totalFineLoad = (UsleFine.step p i).slowLoadFine ∧ (UsleFine.step p i).totalCoarseLoad = 0 := by
  have hr := usle_rFactor_no_rain p i.rain i.doy
  usle_unfold
  split_ifs with hc
  · exfalso
    rcases h with h | h | h
    · exact absurd hc.1 (not_lt.mpr h)
    · rw [hr h, zero_mul] at hc; exact absurd hc.2 (lt_irrefl (0:ℝ))
    · rw [h, mul_zero] at hc; exact absurd hc.2 (lt_irrefl (0:ℝ))
  · c16lit
    simp only [zero_div, zero_add, add_zero, and_self]

/-- the slow (dry-weather) load is zero without baseflow -/
theorem usle_zero_baseflow (p : UsleFine.Params ℝ) (i : UsleFine.In ℝ) (h : i.sf = 0) :
    (UsleFine.step p i).slowLoadFine = 0 := by
  rw [(usle_totals p i).2.2.2, h]; ring

/-- **USLE: non-negative drivers ⇒ non-negative loads**: for non-negative flows, KLSC values with
`KLSC_Fine ≤ KLSC`, and non-negative area, maxConc, delivery ratios and DWC (positive time step), all eight outputs are
non-negative — whatever the sign of the erosivity `R` (so also for `η > 1`). -/
theorem usle_nonneg (p : UsleFine.Params ℝ) (i : UsleFine.In ℝ)
    (hts : 0 < p.timeStepInSeconds) (harea : 0 ≤ p.area) (hmax : 0 ≤ p.maxConc) (hdwc : 0 ≤ p.dwc)
    (hhf : 0 ≤ p.usleHSDRFine) (hhc : 0 ≤ p.usleHSDRCoarse)
    (hsf : 0 ≤ i.sf) (hk : 0 ≤ i.klsc) (hkf0 : 0 ≤ i.klscFine) (hkf1 : i.klscFine ≤ i.klsc) :
    0 ≤ (UsleFine.step p i).quickLoadFine ∧ 0 ≤ (UsleFine.step p i).slowLoadFine ∧
    0 ≤ (UsleFine.step p i).quickLoadCoarse ∧ 0 ≤ (UsleFine.step p i).slowLoadCoarse ∧
    0 ≤ (UsleFine.step p i).totalFineLoad ∧ 0 ≤ (UsleFine.step p i).totalCoarseLoad ∧
    0 ≤ (UsleFine.step p i).generatedLoadFine ∧ 0 ≤ (UsleFine.step p i).generatedLoadCoarse := by
  have hS : 0 ≤ p.dwc * i.sf * (1 / 1000) := by positivity
  usle_unfold
  generalize UsleFine.rFactor p i.rain i.doy = r
  split_ifs with hc
  · obtain ⟨hq, ht⟩ := hc
    have hrpos : 0 < r := by
      by_contra hh
      exact absurd ht (not_lt.mpr (mul_nonpos_of_nonpos_of_nonneg (not_lt.mp hh) hk))
    have hF : 0 ≤ r * i.klscFine := by positivity
    have hC : 0 ≤ r * i.klsc - r * i.klscFine := by
      have : r * i.klscFine ≤ r * i.klsc := mul_le_mul_of_nonneg_left hkf1 (le_of_lt hrpos)
      linarith
    obtain ⟨adj, hadj, hadj0, _⟩ := usle_adjustedRates p i.qf (r * i.klscFine) (r * i.klsc - r * i.klscFine)
    have ha := hadj0 hmax hq hF harea
    simp only [hadj]
    generalize r * i.klscFine = F at hF hC ⊢
    generalize r * i.klsc - F = C at hC ⊢
    have e1 : 0 ≤ F * adj * p.area * (1 / 10000) * 1000 * (p.usleHSDRFine * (1 / 100)) / p.timeStepInSeconds := by positivity
    have e2 : 0 ≤ C * adj * p.area * (1 / 10000) * 1000 * (p.usleHSDRCoarse * (1 / 100)) / p.timeStepInSeconds := by positivity
    have e3 : 0 ≤ F * adj * p.area * (1 / 10000) * 1000 / p.timeStepInSeconds := by positivity
    have e4 : 0 ≤ C * adj * p.area * (1 / 10000) * 1000 / p.timeStepInSeconds := by positivity
    exact ⟨e1, hS, e2, le_refl 0, by linarith, by linarith, e3, e4⟩
  · c16lit
    simp only [zero_div, zero_add, add_zero, le_refl, true_and, and_true]
    exact ⟨hS, hS⟩

/-! ### whole series -/

/-- **USLE, whole series**: every timestep satisfies the total / delivered / fine-fraction identities and the
zero-driver rule. -/
theorem usle_spec (p : UsleFine.Params ℝ) (hts : 0 < p.timeStepInSeconds) (xs : List (UsleFine.In ℝ)) :
    List.Forall₂ (fun (i : UsleFine.In ℝ) (o : UsleFine.Out ℝ) =>
        o.totalFineLoad = o.quickLoadFine + o.slowLoadFine ∧
        o.totalCoarseLoad = o.quickLoadCoarse + o.slowLoadCoarse ∧
        o.slowLoadFine = p.dwc * i.sf * (1 / 1000) ∧
        o.quickLoadFine = o.generatedLoadFine * (p.usleHSDRFine * (1 / 100)) ∧
        o.quickLoadCoarse = o.generatedLoadCoarse * (p.usleHSDRCoarse * (1 / 100)) ∧
        o.generatedLoadFine * i.klsc = (o.generatedLoadFine + o.generatedLoadCoarse) * i.klscFine ∧
        ((i.qf ≤ 0 ∨ ¬ p.rainThreshold < i.rain ∨ i.klsc = 0) →
          o.quickLoadFine = 0 ∧ o.quickLoadCoarse = 0 ∧ o.generatedLoadFine = 0 ∧ o.generatedLoadCoarse = 0))
      xs (UsleFine.run p xs) := by
  unfold UsleFine.run
  apply forall₂_map
  intro i
  obtain ⟨a, b, _, c⟩ := usle_totals p i
  obtain ⟨d, e⟩ := usle_delivered p hts i
  refine ⟨a, b, c, d, e, usle_fine_fraction p i, fun h => ?_⟩
  obtain ⟨z1, z2, z3, z4, _⟩ := usle_zero_driver p i h
  exact ⟨z1, z2, z3, z4⟩

/-- **USLE, whole series**: non-negative loads for non-negative drivers and parameters. -/
theorem usle_series_nonneg (p : UsleFine.Params ℝ) (xs : List (UsleFine.In ℝ))
    (hts : 0 < p.timeStepInSeconds) (harea : 0 ≤ p.area) (hmax : 0 ≤ p.maxConc) (hdwc : 0 ≤ p.dwc)
    (hhf : 0 ≤ p.usleHSDRFine) (hhc : 0 ≤ p.usleHSDRCoarse) :
    List.Forall₂ (fun (i : UsleFine.In ℝ) (o : UsleFine.Out ℝ) =>
        0 ≤ i.sf → 0 ≤ i.klsc → 0 ≤ i.klscFine → i.klscFine ≤ i.klsc →
        0 ≤ o.quickLoadFine ∧ 0 ≤ o.slowLoadFine ∧ 0 ≤ o.quickLoadCoarse ∧ 0 ≤ o.slowLoadCoarse ∧
        0 ≤ o.totalFineLoad ∧ 0 ≤ o.totalCoarseLoad ∧ 0 ≤ o.generatedLoadFine ∧ 0 ≤ o.generatedLoadCoarse)
      xs (UsleFine.run p xs) := by
  unfold UsleFine.run
  apply forall₂_map
  intro i h1 h2 h3 h4
  exact usle_nonneg p i hts harea hmax hdwc hhf hhc h1 h2 h3 h4

/-! ### non-vacuity -/

/-- a concrete event day (R is whatever the erosivity formula gives; take parameters with threshold 0 and rain 20):
the zero-driver hypotheses fail, the identities still hold — and a dry day satisfies them with zero loads -/
example (p : UsleFine.Params ℝ) (h : p.rainThreshold = 5) :
    (UsleFine.step p ⟨1, 1, 2, 0.5, 0.1, 0, 100⟩).generatedLoadFine = 0 :=
  (usle_zero_driver p ⟨1, 1, 2, 0.5, 0.1, 0, 100⟩ (Or.inr (Or.inl (by rw [h]; norm_num)))).2.2.1
example : ∃ p : UsleFine.Params ℝ, 0 < p.timeStepInSeconds ∧ 0 ≤ p.area ∧ 0 ≤ p.maxConc ∧ 0 ≤ p.dwc :=
  ⟨⟨800, 1500, 5, 0.05, 1.5, 0.5, 1, 1, 1, 20, 0.3, 2, 40, 1e6, 500, 10, 5, 86400⟩, by norm_num, by norm_num, by norm_num, by norm_num⟩

end OW.Props.C16
