import OW.Proofs.C16Sediment
/-!
C16, part 5 — USLEFineSedimentGeneration: totals = quick + slow, delivered load = generated load × hillslope delivery
ratio, generated fine and coarse material split by the fine fraction `KLSC_Fine / KLSC` (also after the
maximum-concentration cap), zero load when a driver (quickflow, erosive rainfall, KLSC) is zero, and non-negative loads
for non-negative drivers. One-timestep theorems for every parameter and input value, lifted to the whole series.
The rainfall erosivity `R = α(1 + η·cos(2π(doy-15)/365))·rain^β` is treated as an arbitrary real number: none of the
identities depends on it (with `η > 1` it can be negative, and the event test `R·KLSC > 0` then gives zero load).
-/
namespace OW.Props.C16
open OW OW.Kernels OW.C16

/-- **USLE: totals equal the sum of their parts** — `totalFineLoad = quickLoadFine + slowLoadFine`,
`totalCoarseLoad = quickLoadCoarse + slowLoadCoarse` (the latter is always 0), and the slow fine load is
`DWC · baseflow · 1e-3`. -/
theorem usle_totals (p : UsleFine.Params ℝ) (i : UsleFine.In ℝ) :
    (UsleFine.step p i).totalFineLoad = (UsleFine.step p i).quickLoadFine + (UsleFine.step p i).slowLoadFine ∧
    (UsleFine.step p i).totalCoarseLoad = (UsleFine.step p i).quickLoadCoarse + (UsleFine.step p i).slowLoadCoarse ∧
    (UsleFine.step p i).slowLoadCoarse = 0 ∧
    (UsleFine.step p i).slowLoadFine = p.dwc * i.sf * (1 / 1000) := by
  usle_unfold
  split_ifs <;> exact ⟨rfl, rfl, rfl, rfl⟩

/-- **USLE: delivered load = generated load × hillslope delivery ratio** (percent), fine and coarse; the only divisor
is the positive time step (`(load·ratio)/Δt = (load/Δt)·ratio` needs `Δt ≠ 0` to be a statement about quotients). -/
theorem usle_delivered (p : UsleFine.Params ℝ) (hts : 0 < p.timeStepInSeconds) (i : UsleFine.In ℝ) :
    (UsleFine.step p i).quickLoadFine = (UsleFine.step p i).generatedLoadFine * (p.usleHSDRFine * (1 / 100)) ∧
    (UsleFine.step p i).quickLoadCoarse = (UsleFine.step p i).generatedLoadCoarse * (p.usleHSDRCoarse * (1 / 100)) := by
  have _hne : p.timeStepInSeconds ≠ 0 := ne_of_gt hts   -- the divisor
  usle_unfold
  split_ifs
  · constructor <;> ring
  · c16lit
    constructor <;> ring

/-- **USLE: the divisors of the maximum-concentration cap are positive** for `0 ≤ maxConc` on an event day (`0 < qf`):
the flow in litres per day, and — whenever the cap is hit — the current fine sediment mass
`fine·area·1e-4·1e3` by which the allowed mass is divided. (For `maxConc < 0` the cap can be hit with a zero current
mass and the code divides by zero: excluded by hypothesis, see `usle_fine_fraction`.) -/
theorem usle_cap_divisor_pos (p : UsleFine.Params ℝ) (qf fine : ℝ)
    (hmax : 0 ≤ p.maxConc) (hq : 0 < qf) :
    0 < UsleFine.litresPerDay qf ∧
    ((fine * p.area * Units.squareMetresToHectares * Units.tonnesToKg * Units.kgToMilligram) / UsleFine.litresPerDay qf
        > p.maxConc →
      0 < fine * p.area * Units.squareMetresToHectares * Units.tonnesToKg) := by
  simp only [usle_litresPerDay, squareMetresToHectares_eq, tonnesToKg_eq, kgToMilligram_eq, gt_iff_lt]
  have hl : 0 < qf * 86400000 := by positivity
  refine ⟨hl, fun h => ?_⟩
  have hc : 0 < fine * p.area * (1 / 10000) * 1000 * 1000000 / (qf * 86400000) := lt_of_le_of_lt hmax h
  have hn : 0 < fine * p.area * (1 / 10000) * 1000 * 1000000 := by
    by_contra hh
    exact absurd hc (not_lt.mpr (div_nonpos_of_nonpos_of_nonneg (not_lt.mp hh) (le_of_lt hl)))
  linarith

/-- **USLE: generated fine + coarse material is split by the fine fraction** `KLSC_Fine / KLSC` of the eroded soil:
`generatedFine · KLSC = (generatedFine + generatedCoarse) · KLSC_Fine`, with or without the concentration cap, for a
positive time step and `0 ≤ maxConc`. The hypotheses are exactly what makes every divisor on the path non-zero
(`usle_cap_divisor_pos`: litres per day on an event day, the current fine mass where the cap is hit; the time step);
without `0 ≤ maxConc` the cap branch can divide by a zero mass (ℝ would still satisfy the identity through `x/0 = 0`;
float64 gives NaN). -/
theorem usle_fine_fraction (p : UsleFine.Params ℝ) (i : UsleFine.In ℝ)
    (hts : 0 < p.timeStepInSeconds) (hmax : 0 ≤ p.maxConc) :
    (UsleFine.step p i).generatedLoadFine * i.klsc =
      ((UsleFine.step p i).generatedLoadFine + (UsleFine.step p i).generatedLoadCoarse) * i.klscFine := by
  have _hne : p.timeStepInSeconds ≠ 0 := ne_of_gt hts
  usle_unfold
  generalize UsleFine.rFactor p i.rain i.doy = r
  split_ifs with hc
  · have _hdiv := usle_cap_divisor_pos p i.qf (r * i.klscFine) hmax hc.1
    obtain ⟨adj, hadj, _⟩ := usle_adjustedRates p i.qf (r * i.klscFine) (r * i.klsc - r * i.klscFine)
    simp only [hadj]; ring
  · ring

/-- **USLE: zero driver ⇒ zero load**, for a positive time step. Without quickflow, without erosive rainfall
(`rain ≤ RainThreshold`) or with `KLSC = 0`, the quick loads and the generated loads are zero and the total fine load
is the dry-weather load alone. The coarse quick load and the generated loads are computed as `0 / Δt`: `0 < Δt` makes
that a genuine zero (float64: `0/0 = NaN` for `Δt = 0`; `usle_zero_driver_dt0` states that case). -/
theorem usle_zero_driver (p : UsleFine.Params ℝ) (i : UsleFine.In ℝ) (hts : 0 < p.timeStepInSeconds)
    (h : i.qf ≤ 0 ∨ ¬ p.rainThreshold < i.rain ∨ i.klsc = 0) :
    (UsleFine.step p i).quickLoadFine = 0 ∧ (UsleFine.step p i).quickLoadCoarse = 0 ∧
    (UsleFine.step p i).generatedLoadFine = 0 ∧ (UsleFine.step p i).generatedLoadCoarse = 0 ∧
    (UsleFine.step p i).totalFineLoad = (UsleFine.step p i).slowLoadFine ∧ (UsleFine.step p i).totalCoarseLoad = 0 := by
  have _hne : p.timeStepInSeconds ≠ 0 := ne_of_gt hts
  have hr := usle_rFactor_no_rain p i.rain i.doy
  usle_unfold
  split_ifs with hc
  · exfalso
    rcases h with h | h | h
    · exact absurd hc.1 (not_lt.mpr h)
    · rw [hr h, zero_mul] at hc; exact absurd hc.2 (lt_irrefl (0:ℝ))
    · rw [h, mul_zero] at hc; exact absurd hc.2 (lt_irrefl (0:ℝ))
  · c16lit
    simp only [zero_div, zero_add, add_zero, and_self]

/-- USLE, `Δt = 0` stated separately: on the no-event branch the fine quick load is the literal 0 and the other three
are the quotient `0 / timeStepInSeconds` — all that exact arithmetic can say; for `Δt = 0` float64 gives NaN there. -/
theorem usle_zero_driver_dt0 (p : UsleFine.Params ℝ) (i : UsleFine.In ℝ)
    (h : i.qf ≤ 0 ∨ ¬ p.rainThreshold < i.rain ∨ i.klsc = 0) :
    (UsleFine.step p i).quickLoadFine = 0 ∧
    (UsleFine.step p i).quickLoadCoarse = 0 / p.timeStepInSeconds ∧
    (UsleFine.step p i).generatedLoadFine = 0 / p.timeStepInSeconds ∧
    (UsleFine.step p i).generatedLoadCoarse = 0 / p.timeStepInSeconds := by
  have hr := usle_rFactor_no_rain p i.rain i.doy
  usle_unfold
  split_ifs with hc
  · exfalso
    rcases h with h | h | h
    · exact absurd hc.1 (not_lt.mpr h)
    · rw [hr h, zero_mul] at hc; exact absurd hc.2 (lt_irrefl (0:ℝ))
    · rw [h, mul_zero] at hc; exact absurd hc.2 (lt_irrefl (0:ℝ))
  · c16lit
    exact ⟨trivial, trivial, trivial, trivial⟩

/-- the slow (dry-weather) load is zero without baseflow -/
theorem usle_zero_baseflow (p : UsleFine.Params ℝ) (i : UsleFine.In ℝ) (h : i.sf = 0) :
    (UsleFine.step p i).slowLoadFine = 0 := by
  rw [(usle_totals p i).2.2.2, h]; ring

/-- **USLE: non-negative drivers ⇒ non-negative loads**: for non-negative flows, KLSC values with
`KLSC_Fine ≤ KLSC`, and non-negative area, maxConc, delivery ratios and DWC (positive time step), all eight outputs are
non-negative — whatever the sign of the erosivity `R` (so also for `η > 1`). -/
theorem usle_nonneg (p : UsleFine.Params ℝ) (i : UsleFine.In ℝ)
    (hts : 0 < p.timeStepInSeconds) (harea : 0 ≤ p.area) (hmax : 0 ≤ p.maxConc) (hdwc : 0 ≤ p.dwc)
    (hhf : 0 ≤ p.usleHSDRFine) (hhc : 0 ≤ p.usleHSDRCoarse)
    (hsf : 0 ≤ i.sf) (hk : 0 ≤ i.klsc) (hkf0 : 0 ≤ i.klscFine) (hkf1 : i.klscFine ≤ i.klsc) :
    0 ≤ (UsleFine.step p i).quickLoadFine ∧ 0 ≤ (UsleFine.step p i).slowLoadFine ∧
    0 ≤ (UsleFine.step p i).quickLoadCoarse ∧ 0 ≤ (UsleFine.step p i).slowLoadCoarse ∧
    0 ≤ (UsleFine.step p i).totalFineLoad ∧ 0 ≤ (UsleFine.step p i).totalCoarseLoad ∧
    0 ≤ (UsleFine.step p i).generatedLoadFine ∧ 0 ≤ (UsleFine.step p i).generatedLoadCoarse := by
  have hS : 0 ≤ p.dwc * i.sf * (1 / 1000) := by positivity
  usle_unfold
  generalize UsleFine.rFactor p i.rain i.doy = r
  split_ifs with hc
  · obtain ⟨hq, ht⟩ := hc
    have hrpos : 0 < r := by
      by_contra hh
      exact absurd ht (not_lt.mpr (mul_nonpos_of_nonpos_of_nonneg (not_lt.mp hh) hk))
    have hF : 0 ≤ r * i.klscFine := by positivity
    have hC : 0 ≤ r * i.klsc - r * i.klscFine := by
      have : r * i.klscFine ≤ r * i.klsc := mul_le_mul_of_nonneg_left hkf1 (le_of_lt hrpos)
      linarith
    obtain ⟨adj, hadj, hadj0, _⟩ := usle_adjustedRates p i.qf (r * i.klscFine) (r * i.klsc - r * i.klscFine)
    have ha := hadj0 hmax hq hF harea
    simp only [hadj]
    generalize r * i.klscFine = F at hF hC ⊢
    generalize r * i.klsc - F = C at hC ⊢
    have e1 : 0 ≤ F * adj * p.area * (1 / 10000) * 1000 * (p.usleHSDRFine * (1 / 100)) / p.timeStepInSeconds := by positivity
    have e2 : 0 ≤ C * adj * p.area * (1 / 10000) * 1000 * (p.usleHSDRCoarse * (1 / 100)) / p.timeStepInSeconds := by positivity
    have e3 : 0 ≤ F * adj * p.area * (1 / 10000) * 1000 / p.timeStepInSeconds := by positivity
    have e4 : 0 ≤ C * adj * p.area * (1 / 10000) * 1000 / p.timeStepInSeconds := by positivity
    exact ⟨e1, hS, e2, le_refl 0, by linarith, by linarith, e3, e4⟩
  · c16lit
    simp only [zero_div, zero_add, add_zero, le_refl, true_and, and_true]
    exact ⟨hS, hS⟩

/-! ### whole series -/

/-- **USLE, whole series**: every timestep satisfies the total / delivered / fine-fraction identities and the
zero-driver rule (positive time step, `0 ≤ maxConc`: see `usle_fine_fraction`). -/
theorem usle_spec (p : UsleFine.Params ℝ) (hts : 0 < p.timeStepInSeconds) (hmax : 0 ≤ p.maxConc)
    (xs : List (UsleFine.In ℝ)) :
    List.Forall₂ (fun (i : UsleFine.In ℝ) (o : UsleFine.Out ℝ) =>
        o.totalFineLoad = o.quickLoadFine + o.slowLoadFine ∧
        o.totalCoarseLoad = o.quickLoadCoarse + o.slowLoadCoarse ∧
        o.slowLoadFine = p.dwc * i.sf * (1 / 1000) ∧
        o.quickLoadFine = o.generatedLoadFine * (p.usleHSDRFine * (1 / 100)) ∧
        o.quickLoadCoarse = o.generatedLoadCoarse * (p.usleHSDRCoarse * (1 / 100)) ∧
        o.generatedLoadFine * i.klsc = (o.generatedLoadFine + o.generatedLoadCoarse) * i.klscFine ∧
        ((i.qf ≤ 0 ∨ ¬ p.rainThreshold < i.rain ∨ i.klsc = 0) →
          o.quickLoadFine = 0 ∧ o.quickLoadCoarse = 0 ∧ o.generatedLoadFine = 0 ∧ o.generatedLoadCoarse = 0))
      xs (UsleFine.run p xs) := by
  unfold UsleFine.run
  apply forall₂_map
  intro i
  obtain ⟨a, b, _, c⟩ := usle_totals p i
  obtain ⟨d, e⟩ := usle_delivered p hts i
  refine ⟨a, b, c, d, e, usle_fine_fraction p i hts hmax, fun h => ?_⟩
  obtain ⟨z1, z2, z3, z4, _⟩ := usle_zero_driver p i hts h
  exact ⟨z1, z2, z3, z4⟩

/-- **USLE, whole series**: non-negative loads for non-negative drivers and parameters. -/
theorem usle_series_nonneg (p : UsleFine.Params ℝ) (xs : List (UsleFine.In ℝ))
    (hts : 0 < p.timeStepInSeconds) (harea : 0 ≤ p.area) (hmax : 0 ≤ p.maxConc) (hdwc : 0 ≤ p.dwc)
    (hhf : 0 ≤ p.usleHSDRFine) (hhc : 0 ≤ p.usleHSDRCoarse) :
    List.Forall₂ (fun (i : UsleFine.In ℝ) (o : UsleFine.Out ℝ) =>
        0 ≤ i.sf → 0 ≤ i.klsc → 0 ≤ i.klscFine → i.klscFine ≤ i.klsc →
        0 ≤ o.quickLoadFine ∧ 0 ≤ o.slowLoadFine ∧ 0 ≤ o.quickLoadCoarse ∧ 0 ≤ o.slowLoadCoarse ∧
        0 ≤ o.totalFineLoad ∧ 0 ≤ o.totalCoarseLoad ∧ 0 ≤ o.generatedLoadFine ∧ 0 ≤ o.generatedLoadCoarse)
      xs (UsleFine.run p xs) := by
  unfold UsleFine.run
  apply forall₂_map
  intro i h1 h2 h3 h4
  exact usle_nonneg p i hts harea hmax hdwc hhf hhc h1 h2 h3 h4

/-! ### non-vacuity -/

/-- a concrete event day (R is whatever the erosivity formula gives; take parameters with threshold 0 and rain 20):
the zero-driver hypotheses fail, the identities still hold — and a dry day satisfies them with zero loads -/
example (p : UsleFine.Params ℝ) (hts : 0 < p.timeStepInSeconds) (h : p.rainThreshold = 5) :
    (UsleFine.step p ⟨1, 1, 2, 0.5, 0.1, 0, 100⟩).generatedLoadFine = 0 :=
  (usle_zero_driver p ⟨1, 1, 2, 0.5, 0.1, 0, 100⟩ hts (Or.inr (Or.inl (by rw [h]; norm_num)))).2.2.1
example : ∃ p : UsleFine.Params ℝ, 0 < p.timeStepInSeconds ∧ 0 ≤ p.area ∧ 0 ≤ p.maxConc ∧ 0 ≤ p.dwc :=
  ⟨⟨800, 1500, 5, 0.05, 1.5, 0.5, 1, 1, 1, 20, 0.3, 2, 40, 1e6, 500, 10, 5, 86400⟩, by norm_num, by norm_num, by norm_num, by norm_num⟩

/-- erosivity for `η = 0`, `β = 1`: `R = α·rain` above the threshold -/
noncomputable def usleP (maxConc : ℝ) : UsleFine.Params ℝ :=
  ⟨800, 1500, 5, 2, 1, 0, 1, 1, 1, 20, 0.3, 2, 40, 1e6, maxConc, 10, 5, 86400⟩
/-- one event day: quickflow 1 m³/s, rain 20 mm, KLSC 0.5 with 0.1 fine -/
noncomputable def usleI : UsleFine.In ℝ := ⟨1, 1, 20, 0.5, 0.1, 0, 100⟩
/-- the erosivity of that day is `2·(1 + 0·cos …)·20^1 = 40` -/
theorem usle_example_R (m : ℝ) : UsleFine.rFactor (usleP m) usleI.rain usleI.doy = 40 := by
  simp only [UsleFine.rFactor, gt_iff_lt, usleP, usleI, RealNum.pow_eq]
  c16lit
  norm_num

/-- the day is an event (`0 < qf`, `0 < R·KLSC = 20`), whatever `maxConc` -/
theorem usle_example_event (m : ℝ) :
    0 < usleI.qf ∧ 0 < UsleFine.rFactor (usleP m) usleI.rain usleI.doy * usleI.klsc := by
  rw [usle_example_R]; norm_num [usleI]
/-- fine-sediment concentration of the day: 4 t/ha on 100 ha in 86.4 ML = 4629.6 mg/L: above `maxConc = 500` (cap
branch), below `maxConc = 10000` (uncapped branch) -/
theorem usle_example_conc (m : ℝ) :
    (UsleFine.rFactor (usleP m) usleI.rain usleI.doy * usleI.klscFine) * (usleP m).area * Units.squareMetresToHectares *
      Units.tonnesToKg * Units.kgToMilligram / UsleFine.litresPerDay usleI.qf = 125000 / 27 := by
  rw [usle_example_R, usle_litresPerDay, squareMetresToHectares_eq, tonnesToKg_eq, kgToMilligram_eq]
  norm_num [usleI, usleP]
/-- `usle_nonneg` APPLIED on the event branch without cap (`maxConc = 10000 > 4629.6`) and with the cap hit
(`maxConc = 500 < 4629.6`): all eight outputs are non-negative -/
example (m : ℝ) (hm : m = 10000 ∨ m = 500) :
    0 ≤ (UsleFine.step (usleP m) usleI).quickLoadFine ∧ 0 ≤ (UsleFine.step (usleP m) usleI).generatedLoadCoarse := by
  have h := usle_nonneg (usleP m) usleI (by norm_num [usleP]) (by norm_num [usleP])
    (by rcases hm with h | h <;> simp only [usleP, h] <;> norm_num) (by norm_num [usleP]) (by norm_num [usleP])
    (by norm_num [usleP]) (by norm_num [usleI]) (by norm_num [usleI]) (by norm_num [usleI]) (by norm_num [usleI])
  exact ⟨h.1, h.2.2.2.2.2.2.2⟩

/-- the two branches really differ on that day: with the cap hit the generated fine load is the allowed mass
`500 mg/L · 86.4e6 L / 1e6 / 86400 s = 0.5 kg/s`, without cap it is `4 t/ha · 100 ha · 1000 / 86400 s = 125/27 kg/s` -/
example : (UsleFine.step (usleP 500) usleI).generatedLoadFine = 1 / 2 ∧
    (UsleFine.step (usleP 10000) usleI).generatedLoadFine = 125 / 27 := by
  have hev := usle_example_event 500
  have hev' := usle_example_event 10000
  have hR := usle_example_R 500
  have hR' := usle_example_R 10000
  usle_unfold
  rw [if_pos hev, if_pos hev']
  simp only [hR, hR', UsleFine.adjustedRates, usle_litresPerDay, squareMetresToHectares_eq, tonnesToKg_eq, kgToMilligram_eq, gt_iff_lt]
  norm_num [usleI, usleP]

end OW.Props.C16
