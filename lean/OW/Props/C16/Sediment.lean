import OW.Proofs.C16Sediment
/-!
C16, part 4 — bank erosion and the two gully models: fine + coarse material split by the model's fine fraction,
delivered load = generated load × delivery ratio, zero load when the driver (flow, annual runoff, sediment supply) is
zero, non-negative loads when drivers and parameters are. Whole-series statements at `α := ℝ`; every division carries
a positive divisor (time step, long-term flow, area, annual runoff).
-/
namespace OW.Props.C16
open OW OW.Kernels OW.C16

/-! ### BankErosion -/

/-- **BankErosion: fine + coarse = total, split by `soilPercentFine`** (one timestep; `total` is the kernel's
`BankErosionTotal_kg_per_Second`): `fine = total·pf/100`, `coarse = total·(1 - pf/100)`. -/
theorem bankErosion_split (p : BankErosion.Params ℝ) (ma : ℝ) (x : ℝ × ℝ) :
    (BankErosion.step p ma x).1 + (BankErosion.step p ma x).2 = BankErosion.totalKgPerSecond p ma x ∧
    (BankErosion.step p ma x).1 = BankErosion.totalKgPerSecond p ma x * (p.soilPercentFine * (1 / 100)) ∧
    (BankErosion.step p ma x).2 = BankErosion.totalKgPerSecond p ma x * (1 - p.soilPercentFine * (1 / 100)) := by
  simp only [BankErosion.step, percentToProportion_eq, RealNum.ofNat_eq, Nat.cast_one]
  refine ⟨by ring, trivial, trivial⟩

/-- BankErosion: no erosion without flow (zero or negative outflow or volume, or no long-term flow), for a POSITIVE time
step. The kernel computes the total as `(meanAnnual · 0) / 365.25 · 1000 / durationInSeconds`, i.e. `0 / Δt`: the
hypothesis `0 < durationInSeconds` is what makes that division meaningful (over ℝ `0/0 = 0` would make the statement
true for the wrong reason; in float64 — the compiled model and the Go code — `Δt = 0` gives `0/0 = NaN`, not 0: see
`bankErosion_zero_driver_dt0` for what ℝ can say about that case). -/
theorem bankErosion_zero_driver (p : BankErosion.Params ℝ) (ma : ℝ) (outflow tv : ℝ)
    (hdt : 0 < p.durationInSeconds)
    (h : outflow ≤ 0 ∨ tv ≤ 0 ∨ p.longTermAvDailyFlow ≤ 0) :
    BankErosion.step p ma (outflow, tv) = (0, 0) := by
  have _hne : p.durationInSeconds ≠ 0 := ne_of_gt hdt   -- the divisor of `0 / Δt`
  have h0 : BankErosion.totalKgPerSecond p ma (outflow, tv) = 0 := by
    simp only [BankErosion.totalKgPerSecond, bankErosion_ldf]
    rw [if_pos (by tauto), mul_zero, zero_div, zero_mul, zero_div]
  simp only [BankErosion.step, h0, zero_mul]

/-- BankErosion, `Δt = 0` stated separately: on the zero-driver branch the total is the quotient `0 / durationInSeconds`
with a ZERO numerator — all that exact arithmetic can say. For `durationInSeconds = 0` this is `0/0`: Lean's ℝ
convention gives 0, IEEE-754 (Go and the compiled model) gives NaN, so no "zero load" claim is made for `Δt = 0`. -/
theorem bankErosion_zero_driver_dt0 (p : BankErosion.Params ℝ) (ma : ℝ) (outflow tv : ℝ)
    (h : outflow ≤ 0 ∨ tv ≤ 0 ∨ p.longTermAvDailyFlow ≤ 0) :
    ∃ num : ℝ, num = 0 ∧ BankErosion.totalKgPerSecond p ma (outflow, tv) = num / p.durationInSeconds := by
  refine ⟨ma * 0 / (1461 / 4) * 1000, by ring, ?_⟩
  simp only [BankErosion.totalKgPerSecond, bankErosion_ldf, daysPerYear_eq, tonnesToKg_eq]
  rw [if_pos (by tauto)]

/-- BankErosion: non-negative loads (any flows: non-positive ones give zero) for non-negative parameters,
percentages ≤ 100 and a positive time step -/
theorem bankErosion_nonneg (p : BankErosion.Params ℝ) (ma : ℝ) (hma : 0 ≤ ma)
    (hpf0 : 0 ≤ p.soilPercentFine) (hpf1 : p.soilPercentFine ≤ 100) (hdt : 0 < p.durationInSeconds) (x : ℝ × ℝ) :
    0 ≤ (BankErosion.step p ma x).1 ∧ 0 ≤ (BankErosion.step p ma x).2 := by
  obtain ⟨outflow, tv⟩ := x
  have ht : 0 ≤ BankErosion.totalKgPerSecond p ma (outflow, tv) := by
    simp only [BankErosion.totalKgPerSecond, bankErosion_ldf, daysPerYear_eq, tonnesToKg_eq]
    split_ifs with hc
    · rw [mul_zero, zero_div, zero_mul, zero_div]
    · have ho : 0 < outflow := by by_contra hh; exact hc (Or.inr (Or.inl (not_lt.mp hh)))
      have hl : 0 < p.longTermAvDailyFlow := by by_contra hh; exact hc (Or.inr (Or.inr (not_lt.mp hh)))
      have hpw : 0 ≤ (outflow * p.durationInSeconds) ^ p.dailyFlowPowerFactor :=
        Real.rpow_nonneg (by positivity) _
      positivity
  obtain ⟨_, hf, hc⟩ := bankErosion_split p ma (outflow, tv)
  rw [hf, hc]
  constructor
  · positivity
  · apply mul_nonneg ht; linarith

/-- **BankErosion, whole series**: at every timestep `fine + coarse = total` split by `soilPercentFine`, and — for a
positive time step (the zero-driver total is `0 / Δt`) — the loads are zero when the flow or the volume is not positive. -/
theorem bankErosion_spec (p : BankErosion.Params ℝ) (hdt : 0 < p.durationInSeconds) (q v : List ℝ) :
    List.Forall₂ (fun (x : ℝ × ℝ) (o : ℝ × ℝ) =>
        o.1 + o.2 = BankErosion.totalKgPerSecond p (BankErosion.meanAnnualBankErosion p) x ∧
        o.1 = BankErosion.totalKgPerSecond p (BankErosion.meanAnnualBankErosion p) x * (p.soilPercentFine * (1 / 100)) ∧
        ((x.1 ≤ 0 ∨ x.2 ≤ 0 ∨ p.longTermAvDailyFlow ≤ 0) → o = (0, 0)))
      (q.zip v) (BankErosion.run p q v) := by
  unfold BankErosion.run
  apply forall₂_map
  rintro ⟨outflow, tv⟩
  obtain ⟨a, b, _⟩ := bankErosion_split p (BankErosion.meanAnnualBankErosion p) (outflow, tv)
  exact ⟨a, b, fun h => bankErosion_zero_driver p _ outflow tv hdt h⟩

/-- **BankErosion, whole series**: non-negative loads for non-negative parameters. -/
theorem bankErosion_series_nonneg (p : BankErosion.Params ℝ) (q v : List ℝ)
    (h1 : p.riparianVegPercent ≤ 100) (h2 : 0 ≤ p.soilErodibility) (h3 : 0 ≤ p.bankErosionCoeff)
    (h4 : 0 ≤ p.linkSlope) (h5 : 0 ≤ p.bankFullFlow) (h6 : 0 ≤ p.bankMgtFactor) (h7 : 0 ≤ p.sedBulkDensity)
    (h8 : 0 ≤ p.bankHeight) (h9 : 0 ≤ p.linkLength)
    (hpf0 : 0 ≤ p.soilPercentFine) (hpf1 : p.soilPercentFine ≤ 100) (hdt : 0 < p.durationInSeconds) :
    List.Forall₂ (fun (_ : ℝ × ℝ) (o : ℝ × ℝ) => 0 ≤ o.1 ∧ 0 ≤ o.2) (q.zip v) (BankErosion.run p q v) := by
  unfold BankErosion.run
  apply forall₂_map
  intro x
  exact bankErosion_nonneg p _ (bankErosion_meanAnnual_nonneg p h1 h2 h3 h4 h5 h6 h7 h8 h9) hpf0 hpf1 hdt x

/-! ### DynamicSednetGully / DynamicSednetGullyAlt -/

/-- **Gully models: delivered load = generated load × delivery ratio** (`sdr` in percent), on every branch and for
both export functions. No hypothesis on the time step: `generatedFine` is the per-second load `loads.1 / Δt` itself and
`fineLoad` is literally that value times `sdrFine · 0.01`, so the identity relates two outputs of one evaluation and
does not depend on the value of any quotient. -/
theorem gully_delivered (f : SednetGully.ExportFn ℝ) (p : SednetGully.Params ℝ)
    (x : ℝ × ℝ × ℝ × ℝ) :
    (SednetGully.step f p x).fineLoad = (SednetGully.step f p x).generatedFine * (p.sdrFine * (1 / 100)) ∧
    (SednetGully.step f p x).coarseLoad = (SednetGully.step f p x).generatedCoarse * (p.sdrCoarse * (1 / 100)) := by
  obtain ⟨q, yr, ar, al⟩ := x
  simp only [SednetGully.step, lit_001]
  split_ifs <;> simp only [RealNum.ofNat_eq, Nat.cast_zero, RealNum.zero_eq, zero_mul, and_self]

/-- **Gully models: zero driver ⇒ zero load**: no quickflow, no annual runoff, or a year before the disturbance give
zero delivered and zero generated loads (the generated loads are the untouched zero-initialised outputs). -/
theorem gully_zero_driver (f : SednetGully.ExportFn ℝ) (p : SednetGully.Params ℝ) (q yr ar al : ℝ)
    (h : q = 0 ∨ ar = 0 ∨ yr < p.yearDisturbance) :
    SednetGully.step f p (q, yr, ar, al) = ⟨0, 0, 0, 0⟩ := by
  simp only [SednetGully.step, Bool.or_eq_true, feq_zero', RealNum.ofNat_eq, Nat.cast_zero, RealNum.zero_eq]
  by_cases hy : yr < p.yearDisturbance
  · rw [if_pos hy]
  · rw [if_neg hy, if_pos (by tauto)]

/-- closed form of `gullyLoadOrig`: a common daily load `G` split into `G·propFine·activity` and `G·(1-propFine)` -/
theorem gullyLoadOrig_split (q ar area pf af mpf al supply ltrf drpf : ℝ) :
    ∃ G, SednetGully.gullyLoadOrig q ar area pf af mpf al supply ltrf drpf = (G * pf * af, G * (1 - pf)) ∧
      G = (1 / (1461 / 4)) * SednetGully.dailyRunoffFactor q ltrf drpf * mpf * supply * 1000 := by
  refine ⟨_, ?_, rfl⟩
  simp only [SednetGully.gullyLoadOrig, tonnesToKg_eq, lit_36525, RealNum.ofNat_eq, Nat.cast_one, Prod.mk.injEq]
  constructor <;> ring

/-- closed form of `gullyLoadDerm`: `G = dailyRunoffDepth / annualRunoff · managementFactor · annualLoad` with
`dailyRunoffDepth = quickflow / area · 1000 · 86400` (mm per day) -/
theorem gullyLoadDerm_split (q ar area pf af mpf al supply ltrf drpf : ℝ) :
    ∃ G, SednetGully.gullyLoadDerm q ar area pf af mpf al supply ltrf drpf = (G * pf * af, G * (1 - pf)) ∧
      G = (q / area * 1000 * 86400) / ar * (mpf * al) := by
  refine ⟨_, ?_, rfl⟩
  simp only [SednetGully.gullyLoadDerm, metresToMillimetres_eq, secondsPerDay_eq, RealNum.ofNat_eq, Nat.cast_one,
    Prod.mk.injEq]
  constructor <;> ring

/-- **Gully models: fine + coarse material split by the model's fine fraction.** On every timestep there is a common
generated load `G` (kg/s) with `generatedFine = G · GullyPercentFine/100 · activityFactor` and
`generatedCoarse = G · (1 - GullyPercentFine/100)`; while the gully is active (`year ≤ GullyEndYear`, activity factor 1)
this is `generatedFine + generatedCoarse = G` split by the fine fraction. After `GullyEndYear` the code applies
`averageGullyActivityFactor` to the fine part only (as the Source implementation it was ported from does), and the
property's clause "fine + coarse material split by the model's fine fraction" is then FALSE for the code whenever that
factor ≠ 1: `gully_fine_fraction_after_end_year_counterexample` below; recorded as known findings
KF-C16-gully-activity-factor / KF-C16-gully-activity-factor-alt (the Go oracle evaluates the clause there under the
scopes `DynamicSednetGully(Alt):fine-fraction-after-end-year`). -/
theorem gully_fine_fraction (alt : Bool) (p : SednetGully.Params ℝ) (x : ℝ × ℝ × ℝ × ℝ) :
    let o := SednetGully.step (if alt then SednetGully.gullyLoadDerm else SednetGully.gullyLoadOrig) p x
    ∃ G, o.generatedFine = G * (p.percentFine / 100) * SednetGully.activityFactor p x.2.1 ∧
         o.generatedCoarse = G * (1 - p.percentFine / 100) ∧
         (x.2.1 ≤ p.gullyEndYear → o.generatedFine + o.generatedCoarse = G) := by
  obtain ⟨q, yr, ar, al⟩ := x
  intro o
  have hsum : ∀ G : ℝ, yr ≤ p.gullyEndYear →
      G * (p.percentFine / 100) * SednetGully.activityFactor p yr + G * (1 - p.percentFine / 100) = G := by
    intro G hle
    rw [gully_activity, if_neg (not_lt.mpr hle)]; ring
  by_cases hz : q = 0 ∨ ar = 0 ∨ yr < p.yearDisturbance
  · refine ⟨0, ?_, ?_, fun _ => ?_⟩ <;> simp only [o, gully_zero_driver _ p q yr ar al hz] <;> ring
  · have hq : q ≠ 0 := fun h => hz (Or.inl h)
    have har : ar ≠ 0 := fun h => hz (Or.inr (Or.inl h))
    have hy : ¬ yr < p.yearDisturbance := fun h => hz (Or.inr (Or.inr h))
    cases alt
    · obtain ⟨G, hG, _⟩ := gullyLoadOrig_split q ar p.area (p.percentFine / 100) (SednetGully.activityFactor p yr)
        p.managementPracticeFactor al p.annualAverageSedimentSupply p.longtermRunoffFactor p.dailyRunoffPowerFactor
      have e1 : o.generatedFine = G / p.timestepInSeconds * (p.percentFine / 100) * SednetGully.activityFactor p yr := by
        simp only [o, Bool.false_eq_true, if_false, gully_step_active _ p q yr ar al hq har hy, hG]; ring
      have e2 : o.generatedCoarse = G / p.timestepInSeconds * (1 - p.percentFine / 100) := by
        simp only [o, Bool.false_eq_true, if_false, gully_step_active _ p q yr ar al hq har hy, hG]; ring
      exact ⟨G / p.timestepInSeconds, e1, e2, fun hle => by rw [e1, e2]; exact hsum _ hle⟩
    · obtain ⟨G, hG, _⟩ := gullyLoadDerm_split q ar p.area (p.percentFine / 100) (SednetGully.activityFactor p yr)
        p.managementPracticeFactor al p.annualAverageSedimentSupply p.longtermRunoffFactor p.dailyRunoffPowerFactor
      have e1 : o.generatedFine = G / p.timestepInSeconds * (p.percentFine / 100) * SednetGully.activityFactor p yr := by
        simp only [o, if_true, gully_step_active _ p q yr ar al hq har hy, hG]; ring
      have e2 : o.generatedCoarse = G / p.timestepInSeconds * (1 - p.percentFine / 100) := by
        simp only [o, if_true, gully_step_active _ p q yr ar al hq har hy, hG]; ring
      exact ⟨G / p.timestepInSeconds, e1, e2, fun hle => by rw [e1, e2]; exact hsum _ hle⟩

/-- **The fine-fraction clause FAILS after `GullyEndYear`** (both gully models; known findings
KF-C16-gully-activity-factor / -alt): for a year after the end year and `averageGullyActivityFactor ≠ 1` the generated
material is not split by `GullyPercentFine`. Witness: 60 % fines, activity factor 2, year 2000 > end year 1950,
quickflow 2 m³/s, annual runoff 500 mm, (Alt) annual load 3000 t on 1 km², (Orig) supply 1000 t/yr without long-term
runoff factor: the fine share of the generated load is 3/4, not 3/5 (`0 < fine + coarse`: a genuine quotient). -/
theorem gully_fine_fraction_after_end_year_counterexample (alt : Bool) :
    ∃ (p : SednetGully.Params ℝ) (x : ℝ × ℝ × ℝ × ℝ),
      let o := SednetGully.step (if alt then SednetGully.gullyLoadDerm else SednetGully.gullyLoadOrig) p x
      p.gullyEndYear < x.2.1 ∧ 0 < p.timestepInSeconds ∧ 0 < o.generatedFine + o.generatedCoarse ∧
      o.generatedFine / (o.generatedFine + o.generatedCoarse) = 3 / 4 ∧ p.percentFine / 100 = 3 / 5 ∧
      o.generatedFine / (o.generatedFine + o.generatedCoarse) ≠ p.percentFine / 100 := by
  refine ⟨⟨1900, 1950, 1000000, 2, 1000, 60, 1, 0, 0, 100, 10, 86400⟩, (2, 2000, 500, 3000), ?_⟩
  intro o
  have hstep := gully_step_active (if alt then SednetGully.gullyLoadDerm else SednetGully.gullyLoadOrig)
    (⟨1900, 1950, 1000000, 2, 1000, 60, 1, 0, 0, 100, 10, 86400⟩ : SednetGully.Params ℝ) 2 2000 500 3000
    (by norm_num) (by norm_num) (by norm_num)
  have hact : SednetGully.activityFactor (⟨1900, 1950, 1000000, 2, 1000, 60, 1, 0, 0, 100, 10, 86400⟩ : SednetGully.Params ℝ) 2000 = 2 := by
    rw [gully_activity]; norm_num
  cases alt
  · obtain ⟨G, hG, hGv⟩ := gullyLoadOrig_split 2 500 1000000 (60 / 100) 2 1 3000 1000 0 0
    have hd : SednetGully.dailyRunoffFactor (2 : ℝ) 0 0 = 1 := by
      simp only [SednetGully.dailyRunoffFactor, gt_iff_lt, lit_10]
      c16lit
      norm_num
    rw [hd] at hGv
    have hGpos : 0 < G := by rw [hGv]; norm_num
    have e1 : o.generatedFine = G * (60 / 100) * 2 / 86400 := by
      simp only [o, Bool.false_eq_true, if_false, hstep, hact, hG]
    have e2 : o.generatedCoarse = G * (1 - 60 / 100) / 86400 := by
      simp only [o, Bool.false_eq_true, if_false, hstep, hact, hG]
    have hsum : o.generatedFine + o.generatedCoarse = G * (8 / 5) / 86400 := by rw [e1, e2]; ring
    have hq : o.generatedFine / (o.generatedFine + o.generatedCoarse) = 3 / 4 := by
      rw [hsum, e1]; field_simp; ring
    refine ⟨by norm_num, by norm_num, by rw [hsum]; positivity, hq, by norm_num, ?_⟩
    rw [hq]; norm_num
  · obtain ⟨G, hG, hGv⟩ := gullyLoadDerm_split 2 500 1000000 (60 / 100) 2 1 3000 1000 0 0
    have hGpos : 0 < G := by rw [hGv]; norm_num
    have e1 : o.generatedFine = G * (60 / 100) * 2 / 86400 := by
      simp only [o, if_true, hstep, hact, hG]
    have e2 : o.generatedCoarse = G * (1 - 60 / 100) / 86400 := by
      simp only [o, if_true, hstep, hact, hG]
    have hsum : o.generatedFine + o.generatedCoarse = G * (8 / 5) / 86400 := by rw [e1, e2]; ring
    have hq : o.generatedFine / (o.generatedFine + o.generatedCoarse) = 3 / 4 := by
      rw [hsum, e1]; field_simp; ring
    refine ⟨by norm_num, by norm_num, by rw [hsum]; positivity, hq, by norm_num, ?_⟩
    rw [hq]; norm_num

/-- **DynamicSednetGully: zero sediment supply ⇒ zero load**, for a positive time step and non-negative quickflow.
On the generating branch the loads are `G·… / Δt` with `G = (1/365.25)·dailyRunoffFactor·mpf·supply·1000 = 0`, i.e.
`0 / Δt`: `0 < Δt` makes the quotient meaningful (float64: `0/0 = NaN`); `0 ≤ quickflow` keeps
`dailyRunoffFactor = quickflow^power / longtermRunoffFactor` a number in float64 (`math.Pow` of a negative base with a
fractional power is NaN, and NaN·0 ≠ 0). Neither is needed by the ℝ proof; both are needed to read it for the code. -/
theorem gullyOrig_zero_supply (p : SednetGully.Params ℝ) (hts : 0 < p.timestepInSeconds)
    (h : p.annualAverageSedimentSupply = 0) (x : ℝ × ℝ × ℝ × ℝ) (hq0 : 0 ≤ x.1) :
    SednetGully.step SednetGully.gullyLoadOrig p x = ⟨0, 0, 0, 0⟩ := by
  obtain ⟨q, yr, ar, al⟩ := x
  have _hne : p.timestepInSeconds ≠ 0 := ne_of_gt hts
  have _hd := gully_dailyRunoffFactor_nonneg q p.longtermRunoffFactor p.dailyRunoffPowerFactor hq0
  by_cases hz : q = 0 ∨ ar = 0 ∨ yr < p.yearDisturbance
  · exact gully_zero_driver _ p q yr ar al hz
  · rw [gully_step_active _ p q yr ar al (fun h => hz (Or.inl h)) (fun h => hz (Or.inr (Or.inl h)))
      (fun h => hz (Or.inr (Or.inr h)))]
    obtain ⟨G, hG, hGv⟩ := gullyLoadOrig_split q ar p.area (p.percentFine / 100) (SednetGully.activityFactor p yr)
      p.managementPracticeFactor al p.annualAverageSedimentSupply p.longtermRunoffFactor p.dailyRunoffPowerFactor
    have hG0 : G = 0 := by rw [hGv, h]; ring
    simp only [hG, hG0, zero_mul, zero_div]

/-- **DynamicSednetGullyAlt: zero annual load (the year's sediment supply) ⇒ zero load** on that timestep, for a positive
time step and a positive area: the loads are `(quickflow/area·1000·86400)/annualRunoff · … · (mpf·0) / Δt`; the divisors
are the area (`0 < area`), the annual runoff (non-zero on the generating branch) and the time step. -/
theorem gullyDerm_zero_supply (p : SednetGully.Params ℝ) (hts : 0 < p.timestepInSeconds) (harea : 0 < p.area)
    (q yr ar : ℝ) :
    SednetGully.step SednetGully.gullyLoadDerm p (q, yr, ar, 0) = ⟨0, 0, 0, 0⟩ := by
  have _hne : p.timestepInSeconds ≠ 0 := ne_of_gt hts
  have _hna : p.area ≠ 0 := ne_of_gt harea
  by_cases hz : q = 0 ∨ ar = 0 ∨ yr < p.yearDisturbance
  · exact gully_zero_driver _ p q yr ar 0 hz
  · rw [gully_step_active _ p q yr ar 0 (fun h => hz (Or.inl h)) (fun h => hz (Or.inr (Or.inl h)))
      (fun h => hz (Or.inr (Or.inr h)))]
    obtain ⟨G, hG, hGv⟩ := gullyLoadDerm_split q ar p.area (p.percentFine / 100) (SednetGully.activityFactor p yr)
      p.managementPracticeFactor 0 p.annualAverageSedimentSupply p.longtermRunoffFactor p.dailyRunoffPowerFactor
    have hG0 : G = 0 := by rw [hGv]; ring
    simp only [hG, hG0, zero_mul, zero_div]

/-- **Gully models: non-negative drivers and parameters ⇒ non-negative loads** (one timestep). Divisors: the time
step, and for the Alt model the area and the annual runoff, all positive. -/
theorem gully_nonneg (alt : Bool) (p : SednetGully.Params ℝ)
    (hts : 0 < p.timestepInSeconds) (harea : 0 < p.area)
    (hpf0 : 0 ≤ p.percentFine) (hpf1 : p.percentFine ≤ 100) (haf : 0 ≤ p.averageGullyActivityFactor)
    (hmpf : 0 ≤ p.managementPracticeFactor) (hsup : 0 ≤ p.annualAverageSedimentSupply)
    (hsf : 0 ≤ p.sdrFine) (hsc : 0 ≤ p.sdrCoarse)
    (q yr ar al : ℝ) (hq : 0 ≤ q) (har : 0 ≤ ar) (hal : 0 ≤ al) :
    let o := SednetGully.step (if alt then SednetGully.gullyLoadDerm else SednetGully.gullyLoadOrig) p (q, yr, ar, al)
    0 ≤ o.fineLoad ∧ 0 ≤ o.coarseLoad ∧ 0 ≤ o.generatedFine ∧ 0 ≤ o.generatedCoarse := by
  intro o
  by_cases hz : q = 0 ∨ ar = 0 ∨ yr < p.yearDisturbance
  · simp only [o, gully_zero_driver _ p q yr ar al hz, le_refl, and_self]
  · have hq' : q ≠ 0 := fun h => hz (Or.inl h)
    have har' : ar ≠ 0 := fun h => hz (Or.inr (Or.inl h))
    have hy : ¬ yr < p.yearDisturbance := fun h => hz (Or.inr (Or.inr h))
    have hact := gully_activity_nonneg p haf yr
    have hpf : 0 ≤ p.percentFine / 100 := by positivity
    have hpf' : 0 ≤ 1 - p.percentFine / 100 := by
      have : p.percentFine / 100 ≤ 1 := by rw [div_le_one (by norm_num)]; exact hpf1
      linarith
    have key : ∀ G : ℝ, 0 ≤ G →
        SednetGully.step (if alt then SednetGully.gullyLoadDerm else SednetGully.gullyLoadOrig) p (q, yr, ar, al) =
          ⟨G * (p.percentFine / 100) * SednetGully.activityFactor p yr / p.timestepInSeconds * (p.sdrFine * (1 / 100)),
           G * (1 - p.percentFine / 100) / p.timestepInSeconds * (p.sdrCoarse * (1 / 100)),
           G * (p.percentFine / 100) * SednetGully.activityFactor p yr / p.timestepInSeconds,
           G * (1 - p.percentFine / 100) / p.timestepInSeconds⟩ →
        0 ≤ o.fineLoad ∧ 0 ≤ o.coarseLoad ∧ 0 ≤ o.generatedFine ∧ 0 ≤ o.generatedCoarse := by
      intro G hG e
      simp only [o, e]
      refine ⟨by positivity, by positivity, by positivity, by positivity⟩
    cases alt
    · obtain ⟨G, hG, hGv⟩ := gullyLoadOrig_split q ar p.area (p.percentFine / 100) (SednetGully.activityFactor p yr)
        p.managementPracticeFactor al p.annualAverageSedimentSupply p.longtermRunoffFactor p.dailyRunoffPowerFactor
      have hd := gully_dailyRunoffFactor_nonneg q p.longtermRunoffFactor p.dailyRunoffPowerFactor hq
      refine key G (by rw [hGv]; positivity) ?_
      simp only [Bool.false_eq_true, if_false, gully_step_active _ p q yr ar al hq' har' hy, hG]
    · obtain ⟨G, hG, hGv⟩ := gullyLoadDerm_split q ar p.area (p.percentFine / 100) (SednetGully.activityFactor p yr)
        p.managementPracticeFactor al p.annualAverageSedimentSupply p.longtermRunoffFactor p.dailyRunoffPowerFactor
      have har'' : 0 < ar := lt_of_le_of_ne har (Ne.symm har')
      refine key G (by rw [hGv]; positivity) ?_
      simp only [if_true, gully_step_active _ p q yr ar al hq' har' hy, hG]

/-- **Gully models, whole series** (`alt = false`: DynamicSednetGully, `alt = true`: DynamicSednetGullyAlt; inputs
quickflow, year, annual runoff, annual load), positive time step and area: at every timestep delivered = generated × SDR;
the generated material is `G·pf·activity` and `G·(1-pf)` — split by the fine fraction UP TO `GullyEndYear` only (after it
the clause fails: `gully_fine_fraction_after_end_year_counterexample`, known finding); the loads vanish when quickflow or
annual runoff is zero or the year precedes the disturbance, and when the sediment supply is zero
(DynamicSednetGully: parameter `GullyAnnualAverageSedimentSupply = 0`, for non-negative quickflow; Alt: input
`annualLoad = 0`). -/
theorem gully_spec (alt : Bool) (p : SednetGully.Params ℝ) (hts : 0 < p.timestepInSeconds) (harea : 0 < p.area)
    (q yr ar al : List ℝ) :
    List.Forall₂ (fun (x : ℝ × ℝ × ℝ × ℝ) (o : SednetGully.Out ℝ) =>
        o.fineLoad = o.generatedFine * (p.sdrFine * (1 / 100)) ∧
        o.coarseLoad = o.generatedCoarse * (p.sdrCoarse * (1 / 100)) ∧
        (∃ G, o.generatedFine = G * (p.percentFine / 100) * SednetGully.activityFactor p x.2.1 ∧
              o.generatedCoarse = G * (1 - p.percentFine / 100) ∧
              (x.2.1 ≤ p.gullyEndYear → o.generatedFine + o.generatedCoarse = G)) ∧
        ((x.1 = 0 ∨ x.2.2.1 = 0 ∨ x.2.1 < p.yearDisturbance) → o = ⟨0, 0, 0, 0⟩) ∧
        (alt = false → p.annualAverageSedimentSupply = 0 → 0 ≤ x.1 → o = ⟨0, 0, 0, 0⟩) ∧
        (alt = true → x.2.2.2 = 0 → o = ⟨0, 0, 0, 0⟩))
      (zip4 q yr ar al)
      (SednetGully.run (if alt then SednetGully.gullyLoadDerm else SednetGully.gullyLoadOrig) p q yr ar al) := by
  unfold SednetGully.run
  apply forall₂_map
  rintro ⟨a, b, c, d⟩
  obtain ⟨h1, h2⟩ := gully_delivered (if alt then SednetGully.gullyLoadDerm else SednetGully.gullyLoadOrig) p (a, b, c, d)
  refine ⟨h1, h2, gully_fine_fraction alt p (a, b, c, d), fun h => gully_zero_driver _ p a b c d h, ?_, ?_⟩
  · intro ha hs hq
    subst ha
    exact gullyOrig_zero_supply p hts hs (a, b, c, d) hq
  · intro ha hd
    subst ha
    have hd' : d = 0 := hd
    subst hd'
    exact gullyDerm_zero_supply p hts harea a b c

/-- **Gully models, whole series**: non-negative loads for non-negative inputs and parameters. -/
theorem gully_series_nonneg (alt : Bool) (p : SednetGully.Params ℝ)
    (hts : 0 < p.timestepInSeconds) (harea : 0 < p.area)
    (hpf0 : 0 ≤ p.percentFine) (hpf1 : p.percentFine ≤ 100) (haf : 0 ≤ p.averageGullyActivityFactor)
    (hmpf : 0 ≤ p.managementPracticeFactor) (hsup : 0 ≤ p.annualAverageSedimentSupply)
    (hsf : 0 ≤ p.sdrFine) (hsc : 0 ≤ p.sdrCoarse) (q yr ar al : List ℝ) :
    List.Forall₂ (fun (x : ℝ × ℝ × ℝ × ℝ) (o : SednetGully.Out ℝ) =>
        0 ≤ x.1 → 0 ≤ x.2.2.1 → 0 ≤ x.2.2.2 →
        0 ≤ o.fineLoad ∧ 0 ≤ o.coarseLoad ∧ 0 ≤ o.generatedFine ∧ 0 ≤ o.generatedCoarse)
      (zip4 q yr ar al)
      (SednetGully.run (if alt then SednetGully.gullyLoadDerm else SednetGully.gullyLoadOrig) p q yr ar al) := by
  unfold SednetGully.run
  apply forall₂_map
  rintro ⟨a, b, c, d⟩ h1 h2 h3
  exact gully_nonneg alt p hts harea hpf0 hpf1 haf hmpf hsup hsf hsc a b c d h1 h2 h3

/-- the catalogue models are `step` with the two export functions -/
theorem gully_models :
    (SednetGully.model (α := ℝ)).name = "DynamicSednetGully" ∧ (SednetGully.modelAlt (α := ℝ)).name = "DynamicSednetGullyAlt" ∧
    (SednetGully.model (α := ℝ)) = SednetGully.mk "DynamicSednetGully" SednetGully.gullyLoadOrig ∧
    (SednetGully.modelAlt (α := ℝ)) = SednetGully.mk "DynamicSednetGullyAlt" SednetGully.gullyLoadDerm :=
  ⟨rfl, rfl, rfl, rfl⟩

/-! ### non-vacuity -/

/-- bank erosion with 30 % fines: the split of a concrete total -/
example (p : BankErosion.Params ℝ) (h : p.soilPercentFine = 30) (ma : ℝ) (x : ℝ × ℝ) :
    (BankErosion.step p ma x).1 = BankErosion.totalKgPerSecond p ma x * (30 * (1 / 100)) := by
  rw [(bankErosion_split p ma x).2.1, h]
/-- concrete BankErosion parameters (30 % fines, daily step) -/
noncomputable def bankP : BankErosion.Params ℝ := ⟨50, 95, 80, 1e-4, 1e-3, 100, 1, 1.5, 2, 1000, 1.4, 1e6, 30, 86400⟩
/-- `bankErosion_series_nonneg` APPLIED to a concrete two-step series (one flowing day, one dry day) -/
example : List.Forall₂ (fun (_ : ℝ × ℝ) (o : ℝ × ℝ) => 0 ≤ o.1 ∧ 0 ≤ o.2) ([3, 0].zip [5, 5])
    (BankErosion.run bankP [3, 0] [5, 5]) :=
  bankErosion_series_nonneg bankP [3, 0] [5, 5] (by norm_num [bankP]) (by norm_num [bankP]) (by norm_num [bankP])
    (by norm_num [bankP]) (by norm_num [bankP]) (by norm_num [bankP]) (by norm_num [bankP]) (by norm_num [bankP])
    (by norm_num [bankP]) (by norm_num [bankP]) (by norm_num [bankP]) (by norm_num [bankP])
/-- … and `bankErosion_spec` applied: the dry day of that series has zero loads -/
example : BankErosion.step bankP (BankErosion.meanAnnualBankErosion bankP) (0, 5) = (0, 0) :=
  bankErosion_zero_driver bankP _ 0 5 (by norm_num [bankP]) (Or.inl (le_refl 0))

/-- concrete gully parameters (60 % fines, active 1900–1950, daily step) -/
noncomputable def gullyP : SednetGully.Params ℝ := ⟨1900, 1950, 1e6, 1, 1000, 60, 1, 2, 1.4, 100, 10, 86400⟩
/-- `gully_series_nonneg` APPLIED (both export functions) to a concrete two-step series -/
example (alt : Bool) : List.Forall₂ (fun (x : ℝ × ℝ × ℝ × ℝ) (o : SednetGully.Out ℝ) =>
        0 ≤ x.1 → 0 ≤ x.2.2.1 → 0 ≤ x.2.2.2 →
        0 ≤ o.fineLoad ∧ 0 ≤ o.coarseLoad ∧ 0 ≤ o.generatedFine ∧ 0 ≤ o.generatedCoarse)
      (zip4 [2, 0] [1920, 1960] [500, 500] [3000, 3000])
      (SednetGully.run (if alt then SednetGully.gullyLoadDerm else SednetGully.gullyLoadOrig) gullyP
        [2, 0] [1920, 1960] [500, 500] [3000, 3000]) :=
  gully_series_nonneg alt gullyP (by norm_num [gullyP]) (by norm_num [gullyP]) (by norm_num [gullyP])
    (by norm_num [gullyP]) (by norm_num [gullyP]) (by norm_num [gullyP]) (by norm_num [gullyP]) (by norm_num [gullyP])
    (by norm_num [gullyP]) _ _ _ _
/-- the first step of that series is a generating one (active branch, `G > 0`): -/
example : 0 < (SednetGully.step SednetGully.gullyLoadDerm gullyP (2, 1920, 500, 3000)).generatedFine := by
  rw [gully_step_active _ gullyP 2 1920 500 3000 (by norm_num) (by norm_num) (by norm_num [gullyP])]
  obtain ⟨G, hG, hGv⟩ := gullyLoadDerm_split 2 500 gullyP.area (gullyP.percentFine / 100)
    (SednetGully.activityFactor gullyP 1920) gullyP.managementPracticeFactor 3000
    gullyP.annualAverageSedimentSupply gullyP.longtermRunoffFactor gullyP.dailyRunoffPowerFactor
  have hact : SednetGully.activityFactor gullyP 1920 = 1 := by rw [gully_activity]; norm_num [gullyP]
  rw [hact] at hG
  simp only [hact, hG]
  have : 0 < G := by rw [hGv]; norm_num [gullyP]
  have h2 : (0:ℝ) < gullyP.percentFine / 100 := by norm_num [gullyP]
  have h3 : (0:ℝ) < gullyP.timestepInSeconds := by norm_num [gullyP]
  positivity
/-- a generating timestep of the Alt model: G = (q/area·1000·86400)/annualRunoff · mpf · annualLoad -/
example : ∃ G : ℝ, SednetGully.gullyLoadDerm 2 500 1000000 0.6 1 1 3000 0 0 0 = (G * 0.6 * 1, G * (1 - 0.6)) ∧
    G = (2 / 1000000 * 1000 * 86400) / 500 * (1 * 3000) := gullyLoadDerm_split _ _ _ _ _ _ _ _ _ _

end OW.Props.C16
