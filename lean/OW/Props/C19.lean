import OW.Util.Dates
import OW.Spec.Calendar
import OW.Kernels.DateGenerator
/-!
C19 — the date generator follows the proleptic Gregorian calendar.
Only property theorems and the lemmas they need. Core Lean only
(`omega` + a 12-way case split on the month). No bound on the year or on the run length.
-/
namespace OW.Props.C19
open OW.Dates OW.Spec.Calendar

theorem tmod_zero_iff (y k : Int) : y.tmod k = 0 ↔ y % k = 0 := by
  rw [← Int.dvd_iff_tmod_eq_zero, Int.dvd_iff_emod_eq_zero]

/-- The code's leap-year test is the Gregorian rule, for every integer year. -/
theorem leapYear_iff (y : Int) : leapYear y = true ↔ isLeap y := by
  unfold leapYear isLeap
  by_cases a : y % 4 = 0 <;> by_cases b : y % 100 = 0 <;> by_cases c : y % 400 = 0 <;>
    simp [tmod_zero_iff, a, b, c, bne_iff_ne] <;> omega

theorem month_cases {m : Int} (h1 : 1 ≤ m) (h2 : m ≤ 12) :
    m = 1 ∨ m = 2 ∨ m = 3 ∨ m = 4 ∨ m = 5 ∨ m = 6 ∨ m = 7 ∨ m = 8 ∨ m = 9 ∨ m = 10 ∨ m = 11 ∨ m = 12 := by
  omega

/-- `daysInMonth` returns the Gregorian month length for every month 1..12 (and does not panic). -/
theorem daysInMonth_spec (m y : Int) (h1 : 1 ≤ m) (h2 : m ≤ 12) :
    daysInMonth m y = some (monthLen m y) := by
  have hl := leapYear_iff y
  by_cases l : isLeap y
  · have hl' : leapYear y = true := hl.mpr l
    rcases month_cases h1 h2 with h | h | h | h | h | h | h | h | h | h | h | h <;> subst h <;>
      simp [daysInMonth, monthLen, dimTable, l, hl']
  · have hl' : leapYear y = false := by
      cases h : leapYear y with
      | false => rfl
      | true => exact absurd (hl.mp h) l
    rcases month_cases h1 h2 with h | h | h | h | h | h | h | h | h | h | h | h <;> subst h <;>
      simp [daysInMonth, monthLen, dimTable, l, hl']

/-- `_dayOfYear` = days before the month + day of month, for every month 1..12. -/
theorem dayOfYear_spec (d m y : Int) (h1 : 1 ≤ m) (h2 : m ≤ 12) :
    dayOfYear d m y = some (daysBefore m y + d) := by
  have e := fun k (a : 1 ≤ k) (b : k ≤ 12) => daysInMonth_spec k y a b
  by_cases l : isLeap y <;>
  rcases month_cases h1 h2 with h | h | h | h | h | h | h | h | h | h | h | h <;> subst h <;>
    simp [dayOfYear, doyLoop, e, monthLen, daysBefore, l]

/-- ordinal of 1 January -/
def jan1 (y : Int) : Int := ordinal 1 1 y

theorem daysBefore_succ (m y : Int) (h1 : 1 ≤ m) (h2 : m < 12) :
    daysBefore (m + 1) y = daysBefore m y + monthLen m y := by
  have h2' : m ≤ 12 := by omega
  by_cases l : isLeap y <;>
  rcases month_cases h1 h2' with h | h | h | h | h | h | h | h | h | h | h | h <;> subst h <;>
    simp [daysBefore, monthLen, l] at * 

theorem jan1_succ (y : Int) :
    jan1 (y + 1) = jan1 y + daysBefore 12 y + 31 := by
  unfold jan1 ordinal daysBefore
  by_cases l : isLeap y
  · simp [l]; unfold isLeap at l; omega
  · simp [l]; unfold isLeap at l; omega

/-- **next_valid / next_ordinal / doy_spec, one step.** From a valid date the loop body does not
panic, emits the current date with its day of year, and moves to the valid date whose ordinal is
one larger. -/
theorem step_spec (t : Date) (hv : Valid t.d t.m t.y) :
    ∃ t', step t = some (⟨t.d, t.m, t.y, ordinal t.d t.m t.y - jan1 t.y + 1⟩, t') ∧
      Valid t'.d t'.m t'.y ∧ ordinal t'.d t'.m t'.y = ordinal t.d t.m t.y + 1 := by
  obtain ⟨h1, h2, h3, h4⟩ := hv
  have hdoy : ordinal t.d t.m t.y - jan1 t.y + 1 = daysBefore t.m t.y + t.d := by
    unfold jan1 ordinal
    have : daysBefore 1 t.y = 0 := by simp [daysBefore]
    omega
  simp only [step, dayOfYear_spec t.d t.m t.y h1 h2, daysInMonth_spec t.m t.y h1 h2, hdoy]
  refine ⟨_, rfl, ?_⟩
  by_cases hd : t.d + 1 > monthLen t.m t.y
  · have hde : t.d = monthLen t.m t.y := by omega
    by_cases hm : t.m + 1 > 12
    · have hm12 : t.m = 12 := by omega
      simp only [hd, hm, if_true]
      refine ⟨⟨by omega, by omega, by omega, by simp [monthLen]⟩, ?_⟩
      have hj := jan1_succ t.y
      unfold jan1 at hj
      rw [hj, hde, hm12]
      have : monthLen 12 t.y = 31 := by simp [monthLen]
      unfold ordinal; simp [daysBefore] at *; omega
    · simp only [hd, hm, if_true, if_false]
      have hml : 1 ≤ monthLen (t.m + 1) t.y := by
        unfold monthLen; split <;> (try split) <;> omega
      refine ⟨⟨by omega, by omega, by omega, hml⟩, ?_⟩
      unfold ordinal
      rw [daysBefore_succ t.m t.y h1 (by omega), hde]; omega
  · have hm : ¬ t.m > 12 := by omega
    simp only [hd, hm, if_false]
    refine ⟨⟨h1, h2, by omega, by omega⟩, ?_⟩
    unfold ordinal; omega

/-- **generator_spec.** From any valid start date and for any number of ticks `n`, the generator
does not panic and its `k`-th emitted row is a valid date whose ordinal is `ordinal start + k`,
with `dayOfYear` = ordinal − ordinal of 1 January of that year + 1. -/
theorem generator_spec (n : Nat) (t : Date) (hv : Valid t.d t.m t.y) :
    ∃ rows, run n t = some rows ∧ rows.length = n ∧
      ∀ k (hk : k < rows.length),
        Valid rows[k].date rows[k].month rows[k].year ∧
        ordinal rows[k].date rows[k].month rows[k].year = ordinal t.d t.m t.y + k ∧
        rows[k].doy = ordinal rows[k].date rows[k].month rows[k].year - jan1 rows[k].year + 1 := by
  induction n generalizing t with
  | zero => exact ⟨[], rfl, rfl, fun k hk => absurd hk (Nat.not_lt_zero k)⟩
  | succ n ih =>
    obtain ⟨t', hs, hv', ho⟩ := step_spec t hv
    obtain ⟨rows, hr, hl, hrows⟩ := ih t' hv'
    refine ⟨⟨t.d, t.m, t.y, ordinal t.d t.m t.y - jan1 t.y + 1⟩ :: rows, by simp [run, hs, hr], by simp [hl], ?_⟩
    intro k hk
    cases k with
    | zero => exact ⟨hv, by simp, by simp⟩
    | succ k =>
      have hk' : k < rows.length := by simpa using hk
      obtain ⟨a, b, c⟩ := hrows k hk'
      refine ⟨by simpa using a, ?_, by simpa using c⟩
      simp only [List.getElem_cons_succ]
      rw [b, ho]; omega

/-! ### Uniqueness: the ordinal identifies a valid date, so "the day with ordinal o" is unique -/

theorem jan1_mono {a b : Int} (h : a ≤ b) : jan1 a ≤ jan1 b := by
  unfold jan1 ordinal daysBefore; simp; omega

theorem daysBefore_mono (y : Int) {a b : Int} (ha : 1 ≤ a) (hb : b ≤ 12) (h : a ≤ b) :
    daysBefore a y ≤ daysBefore b y := by
  obtain ⟨k, rfl⟩ : ∃ k : Nat, b = a + k := ⟨(b - a).toNat, by omega⟩
  induction k with
  | zero => simp
  | succ k ih =>
    have := ih (by omega) (by omega)
    have hs := daysBefore_succ (a + k) y (by omega) (by omega)
    have hml : 1 ≤ monthLen (a + k) y := by
      unfold monthLen; split <;> (try split) <;> omega
    have e : a + ((k + 1 : Nat) : Int) = a + k + 1 := by omega
    rw [e, hs]; omega

theorem valid_in_year {d m y : Int} (hv : Valid d m y) :
    jan1 y ≤ ordinal d m y ∧ ordinal d m y < jan1 (y + 1) := by
  obtain ⟨h1, h2, h3, h4⟩ := hv
  have hj := jan1_succ y
  have hmono := daysBefore_mono y h1 (Int.le_refl 12) h2
  have h0 : daysBefore 1 y = 0 := by simp [daysBefore]
  have hmono1 := daysBefore_mono y (Int.le_refl 1) h2 h1
  constructor
  · unfold jan1 ordinal; omega
  · rw [hj]
    by_cases hm : m = 12
    · subst hm; have : monthLen 12 y = 31 := by simp [monthLen]
      unfold jan1 ordinal; omega
    · have hs := daysBefore_succ m y h1 (by omega)
      have := daysBefore_mono y (a := m + 1) (b := 12) (by omega) (Int.le_refl 12) (by omega)
      unfold jan1 ordinal; omega

/-- **ordinal_inj**: two valid dates with the same ordinal are the same date. -/
theorem ordinal_inj {d m y d' m' y' : Int} (hv : Valid d m y) (hv' : Valid d' m' y')
    (h : ordinal d m y = ordinal d' m' y') : d = d' ∧ m = m' ∧ y = y' := by
  have a := valid_in_year hv
  have a' := valid_in_year hv'
  have hy : y = y' := by
    rcases Int.lt_trichotomy y y' with hlt | heq | hgt
    · have := jan1_mono (a := y + 1) (b := y') (by omega); omega
    · exact heq
    · have := jan1_mono (a := y' + 1) (b := y) (by omega); omega
  subst hy
  obtain ⟨h1, h2, h3, h4⟩ := hv
  obtain ⟨h1', h2', h3', h4'⟩ := hv'
  have hm : m = m' := by
    rcases Int.lt_trichotomy m m' with hlt | heq | hgt
    · have hs := daysBefore_succ m y h1 (by omega)
      have := daysBefore_mono y (a := m + 1) (b := m') (by omega) h2' (by omega)
      unfold ordinal at h; omega
    · exact heq
    · have hs := daysBefore_succ m' y h1' (by omega)
      have := daysBefore_mono y (a := m' + 1) (b := m) (by omega) h2 (by omega)
      unfold ordinal at h; omega
  subst hm
  unfold ordinal at h
  exact ⟨by omega, rfl, rfl⟩

/-! ### The catalogue model: float parameters truncated with `int()`, results converted back -/

section Model
open OW OW.Kernels

/-- **model_spec — the catalogue model `DateGenerator` on integer-valued parameters.** In any arithmetic in which `int(·)` of
an integer-valued number gives the integer back (`htrunc`; true at ℝ — `OW.Props.C19Model` — and of float64 below 2⁵³), with
parameters `day = d`, `month = m`, `year = y` forming a valid date and ANY tick series, `DateGenerator.model.run` does not panic
and its four output series (date, month, year, dayOfYear) are `rows.map ofInt` of exactly the rows of `generator_spec`: one
row per tick, the `k`-th being the valid date with ordinal `ordinal start + k` and its day of year. -/
theorem model_spec {α : Type} [Num α] (htrunc : ∀ n : Int, Num.toInt (Num.ofInt n : α) = n)
    (d m y : Int) (hv : Valid d m y) (tick : List α) :
    ∃ rows : List Row, run tick.length ⟨d, m, y⟩ = some rows ∧ rows.length = tick.length ∧
      (DateGenerator.model (α := α)).run [Num.ofInt d, Num.ofInt m, Num.ofInt y] [tick] [] =
        .ok { outputs := [rows.map (fun r => Num.ofInt r.date), rows.map (fun r => Num.ofInt r.month),
                          rows.map (fun r => Num.ofInt r.year), rows.map (fun r => Num.ofInt r.doy)], states := [] } ∧
      ∀ k (hk : k < rows.length),
        Valid rows[k].date rows[k].month rows[k].year ∧
        ordinal rows[k].date rows[k].month rows[k].year = ordinal d m y + k ∧
        rows[k].doy = ordinal rows[k].date rows[k].month rows[k].year - jan1 rows[k].year + 1 := by
  obtain ⟨rows, hr, hl, hrows⟩ := generator_spec tick.length ⟨d, m, y⟩ hv
  refine ⟨rows, hr, hl, ?_, hrows⟩
  simp only [DateGenerator.model, htrunc, hr]

end Model

/-! ### Non-vacuity and sanity examples -/

example : Valid 28 2 1900 ∧ Valid 29 2 2000 ∧ ¬ Valid 29 2 1900 := by decide
example : run 3 ⟨28, 2, 1900⟩ = some [⟨28, 2, 1900, 59⟩, ⟨1, 3, 1900, 60⟩, ⟨2, 3, 1900, 61⟩] := by decide
example : run 2 ⟨31, 12, 2000⟩ = some [⟨31, 12, 2000, 366⟩, ⟨1, 1, 2001, 1⟩] := by decide
/-- the code panics on month 13 (index out of range) — the model shows it as `none` -/
example : run 1 ⟨1, 13, 2000⟩ = none := by decide
/-- ordinal matches the usual convention: 0001-01-01 is day 1, 2000-01-01 is day 730120 -/
example : ordinal 1 1 1 = 1 ∧ ordinal 1 1 2000 = 730120 := by decide

end OW.Props.C19
