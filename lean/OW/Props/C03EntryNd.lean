import OW.Props.C04Nd
import OW.Props.C03
import OW.Proofs.NdOffsetProg
/-!
C03, clause 3, VIEW LEVEL (part) — the template's per-cell STATE, OUTPUT and INPUT views on C-BACKED roots wrapped around the
caller's buffers (`cdata.NewFloat64CArray`, model `Nd.fromC`) address exactly the rows of those buffers.

`RunSingleModel` (libopenwater/single.go) hands `Run` C-backed roots `states [nCells, nStates]`, `outputs [nOutputCells,
nOutputs, nOutputTimesteps]`. The goroutine of cell `i` builds `states.Slice([i,0],[1,nS],nil).MustReshape([nS])` and
`outputs.Slice([i,o,0],[1,1,T],[1,1,1]).MustReshape([T])`. For GO-backed roots `C04Nd.cell_views_states / _outputs` show these
are re-based aliases (`flat`). For C-backed roots `MustReshape` of a contiguous view keeps the POINTER and returns a root view
whose `Start` is the view's `Start` (`NdC02.cAliasArr`, `reshape_c_alias`). Proved here:

* `rootOnC_fromC` — wrapping a caller buffer that holds `Π D ≤ 2^30` elements gives a C-backed root (`RootOnC`);
* `c_cell_views_states`, `c_cell_views_outputs` — on such roots the two chains do not panic, do not copy (heap unchanged), the
  reshaped view is the same pointer with root view `[n]` starting at `i·nS` / `(i·nO+o)·T'`; `Get1(s)` / `Set1(s, v)` through
  it ARE `Get([i,s])` / `Set([i,s], v)` of the root: they read / change exactly the cell `base + i·nS + s` of the CALLER'S
  buffer, an address inside `[0, Π D)` — never the model's out-of-buffer verdict (`c_inbounds_get/_set`).

* `c_cell_views_inputs` — the two-level input chain (its first reshape returns an OFFSET root on the C side, handled through
  `OW/Proofs/NdOffsetRoot.lean` / `NdOffsetProg.lean`): the caller's pointer, root view `[T]` from `((i % nIn)·nI + k)·T`; `Get1(t)` is
  `inputs[i % nIn, k, t]`, inside the buffer.

NOT proved here (declared in checks/C03.py `partial=`): the parameter views on C roots, and the composition into the whole
goroutine / `Run` on C-backed roots (`C04Nd.runNd_refines` is stated for Go-backed roots) incl. the mixed case of `initStates`
(Go-backed states, C-backed rest).
-/
namespace OW.Props.C03EntryNd
open OW OW.Nd OW.Sim OW.Sim.WrapperNd OW.WrapperNd OW.NdOff

section
variable {α : Type}

/-- `a` is a C-BACKED root of shape `D` (non-empty, extents ≥ 1) on a caller buffer that holds at least `Π D` elements
(`ArrOK`, incl. the `1 << 30` bound of the C array type) — what `cdata.New<T>CArray(ptr, D)` returns (`rootOnC_fromC`). -/
structure RootOnC (h : Heap α) (a : Arr) (D : Idx) : Prop where
  view : a.v = rootView D 0
  c : a.isC = true
  ok : ArrOK h a
  pos : Pos D
  ne : D ≠ []

theorem RootOnC.reach {h : Heap α} {a : Arr} {D : Idx} (r : RootOnC h a D) : Reach a.v := by
  rw [r.view]; exact NdC02.reach_rootView r.ne r.pos

/-- **`NewFloat64CArray(ptr, D)`** on a caller buffer (storage `sid`) of at least `Π D` elements, `Π D ≤ 2^30`, is such a
root: same buffer, `base = 0` -/
theorem rootOnC_fromC {h : Heap α} {sid : Nat} {st : List α} {D : Idx} (hne : D ≠ []) (hpos : Pos D)
    (hs : h[sid]? = some st) (hf : product D ≤ st.length) (hsmall : product D ≤ 1073741824) :
    ∃ a, fromC h sid D = .ok a ∧ RootOnC h a D ∧ a.sid = sid ∧ a.base = 0 := by
  refine ⟨⟨rootView D 0, sid, 0, st.length, true⟩, ?_, ⟨rfl, rfl, ?_, hpos, hne⟩, rfl, rfl⟩
  · simp [fromC, storeOf, hs, root_eq D 0 hne, bind, Except.bind, pure, Except.pure]
  · exact ⟨⟨st, hs, by simp⟩, by simp, hf, fun _ => hsmall⟩

/-- the C counterpart of `slice_reshape_alias`: an in-bounds dense slice of a C-backed reachable array followed by
`MustReshape(s)` never panics, never copies, and returns `cAliasArr` — the SAME pointer, root view `s` from the slice's `Start` -/
theorem slice_reshape_alias_c {h : Heap α} {a : Arr} (hr : Reach a.v) (hC : a.isC = true)
    {loc dims s : Idx} {step : Option Idx}
    (okS : SliceOK a.v.dims loc dims (stepOr a.v.dims.length step))
    (hD : NdC02.Dense dims a.v.orig (mulL a.v.step (stepOr a.v.dims.length step)))
    (hs : s ≠ []) (hsz : product s = product dims) :
    slice a loc dims step = .ok { a with v := sliceView a.v loc dims step } ∧
      (sliceView a.v loc dims step).contiguous = .ok true ∧
      mustReshape h { a with v := sliceView a.v loc dims step } s =
        .ok (h, NdC02.cAliasArr { a with v := sliceView a.v loc dims step } s) := by
  have g := reach_geo hr
  obtain ⟨hl, _, hst⟩ := okS.lengths
  have hsl := sliceInto_eq g loc dims step hl hst
  have hslice : slice a loc dims step = .ok { a with v := sliceView a.v loc dims step } := by
    simp [slice, hsl, bind, Except.bind, pure, Except.pure]
  have hrb : Reach (sliceView a.v loc dims step) := .slice hr okS hsl
  have hc : (sliceView a.v loc dims step).contiguous = .ok true := (Props.C02.contiguous_dense hrb).1 hD
  have hre := NdC02.reshape_c_alias (h := h) (a := { a with v := sliceView a.v loc dims step })
    (reach_geo hrb) hs (by simpa [View.size, sliceView] using hsz) hc hC
  exact ⟨hslice, hc, (Props.C02.mustReshape_spec h _ s).1 _ _ hre⟩

/-- the 1-D view `MustReshape([n])` returns on the C side: the root's own pointer (`sid`, `base`, `len`, C-backed), root view
`[n]` whose `Start` is `st` -/
def cRow (a : Arr) (st n : Int) : Arr := { a with v := rootView [n] st }

/-- `Get1(s)` through `cRow` is `Get(idx)` of the root whenever `idx` has row-major rank `st + s`: the same `Impl[…]` read -/
theorem get1_cRow (h : Heap α) {a : Arr} {D : Idx} (hv : a.v = rootView D 0) (st n s : Int) (idx : Idx)
    (hl : idx.length = D.length) (hrav : ravel idx D = st + s) :
    get1 h (cRow a st n) s = Nd.get h a idx := by
  have e1 : (cRow a st n).v.index [s] = .ok (st + s) := by
    show (rootView [n] st).index [s] = _
    rw [NdC02.rootView_index [n] st [s] rfl]; simp [ravel, product]
  have e2 : a.v.index idx = .ok (st + s) := by
    rw [hv, NdC02.rootView_index D 0 idx hl, hrav, Int.zero_add]
  unfold get1 Nd.get
  rw [if_pos (by simp [cRow, rootView]), e1, e2]
  rfl

/-- `Set1(s, x)` through `cRow` is `Set(idx, x)` of the root: the same `Impl[…] = x` -/
theorem set1_cRow (h : Heap α) {a : Arr} {D : Idx} (hv : a.v = rootView D 0) (st n s : Int) (idx : Idx)
    (hl : idx.length = D.length) (hrav : ravel idx D = st + s) (x : α) :
    set1 h (cRow a st n) s x = Nd.set h a idx x := by
  have e1 : (cRow a st n).v.index [s] = .ok (st + s) := by
    show (rootView [n] st).index [s] = _
    rw [NdC02.rootView_index [n] st [s] rfl]; simp [ravel, product]
  have e2 : a.v.index idx = .ok (st + s) := by
    rw [hv, NdC02.rootView_index D 0 idx hl, hrav, Int.zero_add]
  unfold set1 Nd.set
  rw [e1, e2]
  rfl

/-- **c_cell_views_states.** For a C-backed root `states [N, nS]` on the caller's states buffer and a cell `0 ≤ i < N`:
`states.Slice([i,0],[1,nS],nil).MustReshape([nS])` does not panic and does not copy (heap unchanged); the slice is contiguous;
the result is the caller's own pointer with the root view `[nS]` starting at `i·nS`.
* `Get1(s)`, `0 ≤ s < nS`, through it is `states[i, s]`: it reads the cell `base + i·nS + s` of the caller's buffer, an
  address `< N·nS ≤` the buffer length (never out of the buffer);
* `Set1(s, v)` through it is `states.Set([i,s], v)`: it changes exactly that cell of the caller's buffer — the kernel's state
  write-back reaches the caller's memory, row `i` only. -/
theorem c_cell_views_states {h : Heap α} {states : Arr} {N nS i : Int} (r : RootOnC h states [N, nS])
    (hi0 : 0 ≤ i) (hi : i < N) :
    stateView h states i nS = .ok (h, cRow states (i * nS) nS) ∧
      (sliceView states.v [i, 0] [1, nS] none).contiguous = .ok true ∧
      (∀ s, 0 ≤ s → s < nS → ∃ x, cell h states.sid (states.base + (i * nS + s)).toNat = some x ∧
          get1 h (cRow states (i * nS) nS) s = .ok x ∧ Nd.get h states [i, s] = .ok x ∧
          0 ≤ i * nS + s ∧ i * nS + s < N * nS ∧ N * nS ≤ states.len) ∧
      (∀ s, 0 ≤ s → s < nS → ∀ v : α,
          set1 h (cRow states (i * nS) nS) s v = .ok (setStore h states.sid (states.base + (i * nS + s)).toNat v) ∧
          Nd.set h states [i, s] v = .ok (setStore h states.sid (states.base + (i * nS + s)).toNat v)) := by
  obtain ⟨_, hnS⟩ := pos2 r.pos
  have okS : SliceOK states.v.dims [i, 0] [1, nS] (stepOr states.v.dims.length none) := by
    rw [r.view]; simp [rootView, stepOr, uniform]; omega
  have hD : NdC02.Dense [1, nS] states.v.orig (mulL states.v.step (stepOr states.v.dims.length none)) := by
    rw [r.view]; simp [rootView, stepOr, uniform, NdC02.Dense]
  obtain ⟨h1, h3, h4⟩ := slice_reshape_alias_c (h := h) (s := [nS]) r.reach r.c okS hD (by simp) (by simp [product])
  have e : NdC02.cAliasArr { states with v := sliceView states.v [i, 0] [1, nS] none } [nS] = cRow states (i * nS) nS := by
    simp [NdC02.cAliasArr, cRow, sliceView, r.view, rootView, offsetsT]
  rw [e] at h4
  have hib : ∀ s, 0 ≤ s → s < nS → InBounds [i, s] states.v.dims := fun s s0 s1 => by rw [r.view]; simp [rootView]; omega
  have hrav : ∀ s, ravel [i, s] [N, nS] = i * nS + s := fun s => by simp [ravel, product]
  have horig : product states.v.orig = N * nS := by rw [r.view]; simp [rootView, product]
  refine ⟨by unfold stateView; simp only [h1, h4, bind, Except.bind], h3, fun s s0 s1 => ?_, fun s s0 s1 v => ?_⟩
  · obtain ⟨p, x, hp, p0, p1, _, hg, _⟩ := Props.C03.c_inbounds_get r.c r.reach r.ok (hib s s0 s1)
    obtain ⟨p', x', hp', _, _, hcell, hg'⟩ := get_eq r.reach r.ok (hib s s0 s1)
    have hpe : p = i * nS + s := by
      rw [r.view, NdC02.rootView_index [N, nS] 0 [i, s] rfl, hrav, Int.zero_add] at hp
      injection hp with hp; exact hp.symm
    have hpe' : p' = i * nS + s := by
      rw [r.view, NdC02.rootView_index [N, nS] 0 [i, s] rfl, hrav, Int.zero_add] at hp'
      injection hp' with hp'; exact hp'.symm
    subst hpe
    rw [hg] at hg'; injection hg' with hx; subst hx
    refine ⟨x, by rw [← hpe']; exact hcell, ?_, hg, p0, by rw [← horig]; exact p1, by rw [← horig]; exact r.ok.fits⟩
    rw [get1_cRow h r.view (i * nS) nS s [i, s] rfl (hrav s)]; exact hg
  · obtain ⟨p, hp, _, _, _, hs⟩ := Props.C03.c_inbounds_set r.c r.reach r.ok (hib s s0 s1) v
    have hpe : p = i * nS + s := by
      rw [r.view, NdC02.rootView_index [N, nS] 0 [i, s] rfl, hrav, Int.zero_add] at hp
      injection hp with hp; exact hp.symm
    subst hpe
    exact ⟨by rw [set1_cRow h r.view (i * nS) nS s [i, s] rfl (hrav s)]; exact hs, hs⟩

/-- **c_cell_views_outputs.** For a C-backed root `outputs [M, nO, T']` on the caller's outputs buffer (possibly oversized:
`T ≤ T'`), a cell `0 ≤ i < M`, an output `0 ≤ o < nO`: `outputs.Slice([i,o,0],[1,1,T],[1,1,1]).MustReshape([T])` does not panic
and does not copy; the result is the caller's own pointer with the root view `[T]` starting at `(i·nO+o)·T'`; `Get1(t)` /
`Set1(t, v)`, `0 ≤ t < T`, through it are `outputs[i,o,t]` / `outputs.Set([i,o,t], v)`: cell `base + (i·nO+o)·T' + t` of the caller's
buffer, an address `< M·nO·T' ≤` the buffer length. -/
theorem c_cell_views_outputs {h : Heap α} {outputs : Arr} {M nO T' T i o : Int} (r : RootOnC h outputs [M, nO, T'])
    (hi0 : 0 ≤ i) (hi : i < M) (ho0 : 0 ≤ o) (ho : o < nO) (hT0 : 1 ≤ T) (hT : T ≤ T') :
    outputView h outputs i o T = .ok (h, cRow outputs ((i * nO + o) * T') T) ∧
      (sliceView outputs.v [i, o, 0] [1, 1, T] (some [1, 1, 1])).contiguous = .ok true ∧
      (∀ t, 0 ≤ t → t < T → ∃ x, cell h outputs.sid (outputs.base + ((i * nO + o) * T' + t)).toNat = some x ∧
          get1 h (cRow outputs ((i * nO + o) * T') T) t = .ok x ∧ Nd.get h outputs [i, o, t] = .ok x ∧
          0 ≤ (i * nO + o) * T' + t ∧ (i * nO + o) * T' + t < M * (nO * T') ∧ M * (nO * T') ≤ outputs.len) ∧
      (∀ t, 0 ≤ t → t < T → ∀ v : α,
          set1 h (cRow outputs ((i * nO + o) * T') T) t v =
            .ok (setStore h outputs.sid (outputs.base + ((i * nO + o) * T' + t)).toNat v) ∧
          Nd.set h outputs [i, o, t] v = .ok (setStore h outputs.sid (outputs.base + ((i * nO + o) * T' + t)).toNat v)) := by
  have okS : SliceOK outputs.v.dims [i, o, 0] [1, 1, T] (stepOr outputs.v.dims.length (some [1, 1, 1])) := by
    rw [r.view]; simp [rootView, stepOr]; omega
  have hD : NdC02.Dense [1, 1, T] outputs.v.orig (mulL outputs.v.step (stepOr outputs.v.dims.length (some [1, 1, 1]))) := by
    rw [r.view]; simp [rootView, stepOr, uniform, NdC02.Dense]
  obtain ⟨h1, h3, h4⟩ := slice_reshape_alias_c (h := h) (s := [T]) r.reach r.c okS hD (by simp) (by simp [product])
  have e : NdC02.cAliasArr { outputs with v := sliceView outputs.v [i, o, 0] [1, 1, T] (some [1, 1, 1]) } [T] =
      cRow outputs ((i * nO + o) * T') T := by
    simp [NdC02.cAliasArr, cRow, sliceView, r.view, rootView, offsetsT]
    ring
  rw [e] at h4
  have hib : ∀ t, 0 ≤ t → t < T → InBounds [i, o, t] outputs.v.dims := fun t t0 t1 => by
    rw [r.view]; simp [rootView]; omega
  have hrav : ∀ t, ravel [i, o, t] [M, nO, T'] = (i * nO + o) * T' + t := fun t => by simp [ravel, product]; ring
  have horig : product outputs.v.orig = M * (nO * T') := by rw [r.view]; simp [rootView, product]
  refine ⟨by unfold outputView; simp only [h1, h4, bind, Except.bind], h3, fun t t0 t1 => ?_, fun t t0 t1 v => ?_⟩
  · obtain ⟨p, x, hp, p0, p1, _, hg, _⟩ := Props.C03.c_inbounds_get r.c r.reach r.ok (hib t t0 t1)
    obtain ⟨p', x', hp', _, _, hcell, hg'⟩ := get_eq r.reach r.ok (hib t t0 t1)
    have hpe : p = (i * nO + o) * T' + t := by
      rw [r.view, NdC02.rootView_index [M, nO, T'] 0 [i, o, t] rfl, hrav, Int.zero_add] at hp
      injection hp with hp; exact hp.symm
    have hpe' : p' = (i * nO + o) * T' + t := by
      rw [r.view, NdC02.rootView_index [M, nO, T'] 0 [i, o, t] rfl, hrav, Int.zero_add] at hp'
      injection hp' with hp'; exact hp'.symm
    subst hpe
    rw [hg] at hg'; injection hg' with hx; subst hx
    refine ⟨x, by rw [← hpe']; exact hcell, ?_, hg, p0, by rw [← horig]; exact p1, by rw [← horig]; exact r.ok.fits⟩
    rw [get1_cRow h r.view ((i * nO + o) * T') T t [i, o, t] rfl (hrav t)]; exact hg
  · obtain ⟨p, hp, _, _, _, hs⟩ := Props.C03.c_inbounds_set r.c r.reach r.ok (hib t t0 t1) v
    have hpe : p = (i * nO + o) * T' + t := by
      rw [r.view, NdC02.rootView_index [M, nO, T'] 0 [i, o, t] rfl, hrav, Int.zero_add] at hp
      injection hp with hp; exact hp.symm
    subst hpe
    exact ⟨by rw [set1_cRow h r.view ((i * nO + o) * T') T t [i, o, t] rfl (hrav t)]; exact hs, hs⟩

/-! ### the input views (two levels; the first reshape returns an offset root) -/

/-- the 2-D view `MustReshape([r, c])` returns on the C side: the root's own pointer, root view `[r, c]` from `st` -/
def cBlock (a : Arr) (st r c : Int) : Arr := { a with v := rootView [r, c] st }

/-- first level of the input chain on a C-backed root: block `i % nIn`, the caller's own pointer, root view `[nI, T]` from
`(i % nIn)·nI·T` (an offset root); no panic, no copy -/
theorem c_cellInputs_eq {h : Heap α} {inputs : Arr} {nIn nI T i : Int} (r : RootOnC h inputs [nIn, nI, T]) (hi0 : 0 ≤ i) :
    cellInputs h inputs i nIn nI T = .ok (h, cBlock inputs ((i % nIn) * (nI * T)) nI T) := by
  obtain ⟨hnIn, hnI, hT⟩ := pos3 r.pos
  have hc0 : 0 ≤ i % nIn := Int.emod_nonneg _ (by omega)
  have hc1 : i % nIn < nIn := Int.emod_lt_of_pos _ (by omega)
  have okS : SliceOK inputs.v.dims [i % nIn, 0, 0] [1, nI, T] (stepOr inputs.v.dims.length none) := by
    rw [r.view]; simp [rootView, stepOr, uniform]; omega
  have hD : NdC02.Dense [1, nI, T] inputs.v.orig (mulL inputs.v.step (stepOr inputs.v.dims.length none)) := by
    rw [r.view]; simp [rootView, stepOr, uniform, NdC02.Dense]
  obtain ⟨h1, _, h4⟩ := slice_reshape_alias_c (h := h) (s := [nI, T]) r.reach r.c okS hD (by simp) (by simp [product])
  have e : NdC02.cAliasArr { inputs with v := sliceView inputs.v [i % nIn, 0, 0] [1, nI, T] none } [nI, T] =
      cBlock inputs ((i % nIn) * (nI * T)) nI T := by
    simp [NdC02.cAliasArr, cBlock, sliceView, r.view, rootView, offsetsT]
    first | ring1 | (left; ring1)
  rw [e] at h4
  unfold cellInputs
  simp only [goMod_eq hi0 hnIn, h1, h4, bind, Except.bind]

/-- second level: `Slice([k,0],[1,T],nil).MustReshape([T])` of that offset root (through its normal form, `NdOff.reshape_c_alias_norm`):
the caller's own pointer, root view `[T]` from `st + k·T`; no panic, no copy -/
theorem c_inputOf_eq {h : Heap α} {inputs : Arr} {nIn nI T st k : Int} (r : RootOnC h inputs [nIn, nI, T])
    (hst0 : 0 ≤ st) (hst : st + nI * T ≤ nIn * (nI * T)) (hk0 : 0 ≤ k) (hk : k < nI) :
    inputOf h (cBlock inputs st nI T) k T = .ok (h, cRow inputs (st + k * T) T) := by
  obtain ⟨hnIn, hnI, hT⟩ := pos3 r.pos
  have hne : ([nI, T] : Idx) ≠ [] := by simp
  have hpos : Pos [nI, T] := by intro x hx; simp at hx; omega
  have hr0 : Reach (rootView [nI, T] 0) := NdC02.reach_rootView hne hpos
  have g0 := reach_geo hr0
  have okS : SliceOK (rootView [nI, T] 0).dims [k, 0] [1, T] (stepOr (rootView [nI, T] 0).dims.length none) := by
    simp [rootView, stepOr, uniform]; omega
  obtain ⟨hl, _, hsl⟩ := okS.lengths
  have hs0 := sliceInto_eq g0 [k, 0] [1, T] none hl hsl
  have hrw : Reach (sliceView (rootView [nI, T] 0) [k, 0] [1, T] none) := .slice hr0 okS hs0
  have hD : NdC02.Dense [1, T] (rootView [nI, T] 0).orig (mulL (rootView [nI, T] 0).step (stepOr (rootView [nI, T] 0).dims.length none)) := by
    simp [rootView, stepOr, uniform, NdC02.Dense]
  have hc : (sliceView (rootView [nI, T] 0) [k, 0] [1, T] none).contiguous = .ok true :=
    (Props.C02.contiguous_dense hrw).1 hD
  -- the slice of the offset root
  have hv : (cBlock inputs st nI T).v = shiftV (rootView [nI, T] 0) st := by
    show rootView [nI, T] st = _
    rw [shiftV_rootView, Int.zero_add]
  let w := sliceView (rootView [nI, T] 0) [k, 0] [1, T] none
  have hslice : slice (cBlock inputs st nI T) [k, 0] [1, T] none = .ok { cBlock inputs st nI T with v := shiftV w st } := by
    unfold slice
    rw [hv, shiftV_sliceInto, hs0]
    rfl
  have hC : (cBlock inputs st nI T).isC = true := r.c
  have horig : product inputs.v.orig = nIn * (nI * T) := by rw [r.view]; simp [rootView, product]
  have hsh : Sh st ({ cBlock inputs st nI T with v := shiftV w st } : Arr)
      (unshift st { cBlock inputs st nI T with v := shiftV w st }) :=
    ⟨hC, hst0, rfl, by
      have := r.ok.cfits r.c
      have e : product (shiftV w st).orig = nI * T := by simp [w, sliceView, rootView, product]
      show st + product (shiftV w st).orig ≤ _
      rw [e]; omega⟩
  have hcv : (unshift st ({ cBlock inputs st nI T with v := shiftV w st } : Arr)).v = w := shiftV_cancel_neg w st
  have hre := reshape_c_alias_norm h (Or.inr ⟨st, hsh⟩) (by rw [hcv]; exact reach_geo hrw) (s := [T]) (by simp)
    (by rw [hcv]; simp [w, View.size, sliceView, product]) (by rw [hcv]; exact hc) hC
  have hm := (Props.C02.mustReshape_spec h _ [T]).1 _ _ hre
  have e : NdC02.cAliasArr ({ cBlock inputs st nI T with v := shiftV w st } : Arr) [T] = cRow inputs (st + k * T) T := by
    simp [NdC02.cAliasArr, cRow, cBlock, w, sliceView, rootView, offsetsT, shiftV]
    omega
  rw [e] at hm
  unfold inputOf
  simp only [hslice, hm, bind, Except.bind]

/-- **c_cell_views_inputs.** For a C-backed root `inputs [nIn, nI, T]` on the caller's inputs buffer, ANY cell `i ≥ 0` (blocks are
reused cyclically) and an input `0 ≤ k < nI`: the two-level chain `inputs.Slice([i % nIn,0,0],[1,nI,T],nil).MustReshape([nI,T])`
(an OFFSET root on the C side: same pointer, `Start = (i % nIn)·nI·T`) then `.Slice([k,0],[1,T],nil).MustReshape([T])` does not panic
and does not copy; the result is the caller's own pointer with the root view `[T]` starting at `((i % nIn)·nI + k)·T`; `Get1(t)`,
`0 ≤ t < T`, through it is `inputs[i % nIn, k, t]`: cell `base + ((i % nIn)·nI + k)·T + t` of the caller's buffer, inside it. -/
theorem c_cell_views_inputs {h : Heap α} {inputs : Arr} {nIn nI T i k : Int} (r : RootOnC h inputs [nIn, nI, T])
    (hi0 : 0 ≤ i) (hk0 : 0 ≤ k) (hk : k < nI) :
    inputView h inputs i k nIn nI T = .ok (h, cRow inputs ((i % nIn) * (nI * T) + k * T) T) ∧
      (∀ t, 0 ≤ t → t < T → ∃ x,
          cell h inputs.sid (inputs.base + (((i % nIn) * nI + k) * T + t)).toNat = some x ∧
          get1 h (cRow inputs ((i % nIn) * (nI * T) + k * T) T) t = .ok x ∧ Nd.get h inputs [i % nIn, k, t] = .ok x ∧
          0 ≤ ((i % nIn) * nI + k) * T + t ∧ ((i % nIn) * nI + k) * T + t < nIn * (nI * T) ∧ nIn * (nI * T) ≤ inputs.len) := by
  obtain ⟨hnIn, hnI, hT⟩ := pos3 r.pos
  have hc0 : 0 ≤ i % nIn := Int.emod_nonneg _ (by omega)
  have hc1 : i % nIn < nIn := Int.emod_lt_of_pos _ (by omega)
  have hst0 : 0 ≤ (i % nIn) * (nI * T) := Int.mul_nonneg hc0 (Int.mul_nonneg (by omega) (by omega))
  have hst : (i % nIn) * (nI * T) + nI * T ≤ nIn * (nI * T) := by
    have : (i % nIn + 1) * (nI * T) ≤ nIn * (nI * T) :=
      Int.mul_le_mul_of_nonneg_right (by omega) (Int.mul_nonneg (by omega) (by omega))
    rw [Int.add_mul, Int.one_mul] at this; exact this
  have e1 := c_cellInputs_eq r hi0
  have e2 := c_inputOf_eq r hst0 hst hk0 hk
  refine ⟨by unfold inputView; simp only [e1, e2, bind, Except.bind], fun t t0 t1 => ?_⟩
  have hib : InBounds [i % nIn, k, t] inputs.v.dims := by rw [r.view]; simp [rootView]; omega
  have hrav : ravel [i % nIn, k, t] [nIn, nI, T] = ((i % nIn) * nI + k) * T + t := by simp [ravel, product]; ring
  have hrav' : ravel [i % nIn, k, t] [nIn, nI, T] = ((i % nIn) * (nI * T) + k * T) + t := by rw [hrav]; ring
  have horig : product inputs.v.orig = nIn * (nI * T) := by rw [r.view]; simp [rootView, product]
  obtain ⟨p, x, hp, p0, p1, _, hg, _⟩ := Props.C03.c_inbounds_get r.c r.reach r.ok hib
  obtain ⟨p', x', hp', _, _, hcell, hg'⟩ := get_eq r.reach r.ok hib
  have hpe : p = ((i % nIn) * nI + k) * T + t := by
    rw [r.view, NdC02.rootView_index [nIn, nI, T] 0 [i % nIn, k, t] rfl, hrav, Int.zero_add] at hp
    injection hp with hp; exact hp.symm
  have hpe' : p' = ((i % nIn) * nI + k) * T + t := by
    rw [r.view, NdC02.rootView_index [nIn, nI, T] 0 [i % nIn, k, t] rfl, hrav, Int.zero_add] at hp'
    injection hp' with hp'; exact hp'.symm
  subst hpe
  rw [hg] at hg'; injection hg' with hx; subst hx
  refine ⟨x, by rw [← hpe']; exact hcell, ?_, hg, p0, by rw [← horig]; exact p1, by rw [← horig]; exact r.ok.fits⟩
  rw [get1_cRow h r.view ((i % nIn) * (nI * T) + k * T) T t [i % nIn, k, t] rfl hrav']; exact hg


end

/-! ### Non-vacuity: a caller buffer of 3 cells × 2 states wrapped as a C-backed root -/

section Example

/-- the caller's memory: one states buffer -/
def heapE : Heap Int := [[10, 11, 20, 21, 30, 31]]

/-- `NewFloat64CArray(ptr, [3, 2])` on it -/
def sE : Arr := ⟨rootView [3, 2] 0, 0, 0, 6, true⟩

example : fromC heapE 0 [3, 2] = .ok sE := by decide

theorem rsE : RootOnC heapE sE [3, 2] := by
  obtain ⟨a, ha, r, _⟩ := rootOnC_fromC (h := heapE) (sid := 0) (st := [10, 11, 20, 21, 30, 31]) (D := [3, 2])
    (by simp) (by intro x hx; simp at hx; omega) rfl (by decide) (by decide)
  have : a = sE := by
    have e : fromC heapE 0 [3, 2] = .ok sE := by decide
    rw [e] at ha; injection ha with ha; exact ha.symm
  rw [← this]; exact r

/-- cell 1's state view: the caller's pointer, root view `[2]` from position 2; no copy -/
example : stateView heapE sE 1 2 = .ok (heapE, cRow sE 2 2) := (c_cell_views_states rsE (by decide) (by decide)).1

/-- reading state 1 of cell 1 through it reads `buffer[3]` -/
example : get1 heapE (cRow sE 2 2) 1 = .ok 21 := by decide

/-- writing it changes `buffer[3]` of the caller's memory and nothing else -/
example : set1 heapE (cRow sE 2 2) 1 99 = .ok [[10, 11, 20, 99, 30, 31]] :=
  ((c_cell_views_states rsE (i := 1) (by decide) (by decide)).2.2.2 1 (by decide) (by decide) 99).1

/-- the C view is NOT fenced like the Go one (`flat_set1_oob`): index 2 of cell 1's view is cell 2's first state — the
unchecked `*[1<<30]C.double`; the kernels only use indices `< nS` (`wrapperNd_refines` hypothesis `hK`) -/
example : set1 heapE (cRow sE 2 2) 2 99 = .ok [[10, 11, 20, 21, 99, 31]] := by decide

/-- an inputs buffer of 2 blocks × 2 inputs × 3 timesteps wrapped as a C-backed root; cell 3 uses block 3 % 2 = 1, its
input 1 is positions 9 … 11 of the caller's buffer -/
def heapI : Heap Int := [[0, 1, 2, 3, 4, 5, 6, 7, 8, 9, 10, 11]]
def iE : Arr := ⟨rootView [2, 2, 3] 0, 0, 0, 12, true⟩

theorem riE : RootOnC heapI iE [2, 2, 3] := by
  obtain ⟨a, ha, r, _⟩ := rootOnC_fromC (h := heapI) (sid := 0) (st := [0, 1, 2, 3, 4, 5, 6, 7, 8, 9, 10, 11]) (D := [2, 2, 3])
    (by simp) (by intro x hx; simp at hx; omega) rfl (by decide) (by decide)
  have : a = iE := by
    have e : fromC heapI 0 [2, 2, 3] = .ok iE := by decide
    rw [e] at ha; injection ha with ha; exact ha.symm
  rw [← this]; exact r

example : inputView heapI iE 3 1 2 2 3 = .ok (heapI, cRow iE 9 3) :=
  (c_cell_views_inputs riE (i := 3) (k := 1) (by decide) (by decide) (by decide)).1

example : get1 heapI (cRow iE 9 3) 2 = .ok 11 := by decide

end Example

end OW.Props.C03EntryNd
