import OW.Props.C06
import OW.Proofs.StorageRouting
/-!
C06, fourth part — StorageRouting, the tolerance clause ("to within the solver's own mass-balance tolerance"): what is PROVED.

The full statement would be `storageRouting_split_tol`: for every split of a run, storage and outflow of the split run and of the
one-call run differ at EVERY later timestep by at most f(massBalanceLimit, Δt). That is NOT proved (see
`storageRouting_split_tol_step_partial` for what is missing); for whole runs the clause is checked by the KSPLIT oracle only.

Proved here (ℝ): the FIRST timestep after a cut. By `storageRouting_split` the one-call run and the second call of the split run
enter that timestep with the same storage and inputs and differ only in the seed `qi` of the root search (and in the two dead
state columns). If both solves end within the mass-balance tolerance, the two reported storages differ by less than
2·massBalanceLimit (2e-3 m³) and the two outflows by less than 2·massBalanceLimit/Δt.
-/
set_option linter.unusedSimpArgs false
set_option linter.unusedVariables false
namespace OW.Props.C06
open OW OW.Kernels OW.Kernels.StorageRouting OW.Proofs.StorageRouting

attribute [-simp] OW.RealNum.ofNat_eq

/-- two index flows that both close the mass balance of the SAME `calcOutflow` call within the tolerance give index storages
within 2·tolerance and outflows within 2·tolerance/Δt of each other (the residual is index-flow term + index storage − water
present; the first is increasing in the index flow for bias < 1 and Δt > 0, the second is assumed non-decreasing) -/
theorem sr_two_index_flows (c : Ctx ℝ) (q q' : ℝ) (hb : c.bias < 0.999) (hd : 0 < c.duration)
    (hmono : ∀ a b : ℝ, a ≤ b → sIndex c a ≤ sIndex c b)
    (h : |(rr c q).massBalance| < massBalanceLimit) (h' : |(rr c q').massBalance| < massBalanceLimit) :
    |(rr c q).sIndex - (rr c q').sIndex| < 2 * massBalanceLimit ∧
    |(rr c q).outflow - (rr c q').outflow| < 2 * massBalanceLimit / c.duration := by
  rw [rr_massBalance c q hb, abs_lt] at h
  rw [rr_massBalance c q' hb, abs_lt] at h'
  simp only [rr_sIndex, rr_outflow]
  have hb1 : (0:ℝ) < 1 - c.bias := by
    have : (0.999:ℝ) < 1 := by norm_num
    linarith
  have hA : ∀ a b : ℝ, a ≤ b → (a - c.bias * (c.inflow + c.lateral)) * c.duration / (1 - c.bias) ≤
      (b - c.bias * (c.inflow + c.lateral)) * c.duration / (1 - c.bias) := by
    intro a b hab
    apply div_le_div_of_nonneg_right _ hb1.le
    nlinarith
  have hs : |sIndex c q - sIndex c q'| < 2 * massBalanceLimit := by
    rw [abs_lt]
    rcases le_total q q' with hq | hq
    · have m1 := hmono _ _ hq
      have m2 := hA _ _ hq
      constructor <;> linarith
    · have m1 := hmono _ _ hq
      have m2 := hA _ _ hq
      constructor <;> linarith
  refine ⟨hs, ?_⟩
  rw [← sub_div, abs_div, abs_of_pos hd]
  apply div_lt_div_of_pos_right _ hd
  have hm : |max 0 (newStorage c - sIndex c q) - max 0 (newStorage c - sIndex c q')| ≤ |sIndex c q - sIndex c q'| := by
    rw [max_comm 0, max_comm 0]
    calc |max (newStorage c - sIndex c q) 0 - max (newStorage c - sIndex c q') 0|
        ≤ |(newStorage c - sIndex c q) - (newStorage c - sIndex c q')| := abs_max_sub_max_le_abs _ _ _
      _ = |sIndex c q - sIndex c q'| := by
          rw [show (newStorage c - sIndex c q) - (newStorage c - sIndex c q') = -(sIndex c q - sIndex c q') by ring, abs_neg]
  linarith

/-- the part of `calcOutflow` that can see the seed: every exit of `solve` other than the full drain reports the routing
result of ONE index flow, and on the `prev-qi` / `mid-qi` exits that index flow closes the balance within the tolerance -/
theorem sr_solve_shape (c : Ctx ℝ) (prevQi minQI mx : ℝ) (r : CO ℝ) (h : solve c prevQi minQI mx = .ok r)
    (hroot : r.tag = "root" → |(rr c r.qi).massBalance| < massBalanceLimit) :
    (r.outflow = drainOutflow c ∧ r.storage = drainStorage c ∧ (rr c mx).massBalance < massBalanceLimit) ∨
    (massBalanceLimit ≤ (rr c mx).massBalance ∧ ∃ q, |(rr c q).massBalance| < massBalanceLimit ∧
      r.outflow = (rr c q).outflow ∧ r.storage = (rr c q).sIndex) := by
  rcases solve_cases c prevQi minQI mx r h with ⟨rfl, hlt⟩ | ⟨hge, hrest⟩
  · exact Or.inl ⟨rfl, rfl, hlt⟩
  · refine Or.inr ⟨hge, ?_⟩
    rcases hrest with ⟨_, _, hmb, rfl⟩ | ⟨_, hmb, rfl⟩ | ⟨fr, _, rfl⟩
    · exact ⟨_, hmb, rfl, rfl⟩
    · exact ⟨_, hmb, rfl, rfl⟩
    · exact ⟨_, hroot rfl, rfl, rfl⟩

/-- **StorageRouting, tolerance clause — PARTIAL: the first timestep after a cut.**

Full statement (NOT proved): `storageRouting_split_tol` — for every split, at every timestep after the cut, storage and outflow
of the split run and of the one-call run differ by at most a bound f(massBalanceLimit, Δt), given that every solve of both runs
ends within the tolerance. What is missing: the propagation through the LATER timesteps — after the first one the two runs carry
different storages, so one needs that one routing step does not expand a storage difference (the exact implicit step is
non-expansive for a non-decreasing index storage, but each solve adds up to 2·tolerance, so the honest bound grows with the
number of timesteps after the cut), and the monotonicity of `SIndex` (hypothesis `hmono` here; it holds when the switch between
the linear extension and the power law is continuous) would have to be proved from the parameter ranges.

Proved (ℝ): two `calcOutflow` calls with the SAME inflow, lateral flow, previous storage, evaporation and routing constants but
DIFFERENT seeds `prevQi` (and different dead `prevOutflow`) — which by `storageRouting_split` / `storageRouting_step_reads` is
exactly how the one-call run and the second call of a split run enter the first timestep after the cut. If bias < 0.999,
Δt > 0, `SIndex` is non-decreasing, and whenever a call exits through the root finder its result closes the balance within
`massBalanceLimit` (the `prev-qi` and `mid-qi` exits check that themselves; for `root` see C11 `root_converges_partial`), then
the two reported storages differ by less than 2·massBalanceLimit and the two outflows by less than 2·massBalanceLimit/Δt. -/
theorem storageRouting_split_tol_step_partial
    (inflow lateral bias prevQi prevQi' po po' prevStorage ner area dead dur rp rc ql kl ko : ℝ) (r r' : CO ℝ)
    (hb : bias < 0.999) (hd : 0 < dur)
    (hmono : ∀ a b : ℝ, a ≤ b →
      sIndex (mkCtx inflow lateral bias prevStorage ner area dead dur rp rc ql kl ko) a ≤
      sIndex (mkCtx inflow lateral bias prevStorage ner area dead dur rp rc ql kl ko) b)
    (h : calcOutflow inflow lateral bias prevQi po prevStorage ner area dead dur rp rc ql kl ko = .ok r)
    (h' : calcOutflow inflow lateral bias prevQi' po' prevStorage ner area dead dur rp rc ql kl ko = .ok r')
    (hroot : r.tag = "root" →
      |(rr (mkCtx inflow lateral bias prevStorage ner area dead dur rp rc ql kl ko) r.qi).massBalance| < massBalanceLimit)
    (hroot' : r'.tag = "root" →
      |(rr (mkCtx inflow lateral bias prevStorage ner area dead dur rp rc ql kl ko) r'.qi).massBalance| < massBalanceLimit) :
    |r.storage - r'.storage| < 2 * massBalanceLimit ∧ |r.outflow - r'.outflow| < 2 * massBalanceLimit / dur := by
  have hpos : (0:ℝ) < 2 * massBalanceLimit := by have := mbl_pos; linarith
  have hposd : (0:ℝ) < 2 * massBalanceLimit / dur := div_pos hpos hd
  have same : r.storage = r'.storage → r.outflow = r'.outflow →
      |r.storage - r'.storage| < 2 * massBalanceLimit ∧ |r.outflow - r'.outflow| < 2 * massBalanceLimit / dur := by
    intro e1 e2
    rw [e1, e2, sub_self, sub_self, abs_zero]
    exact ⟨hpos, hposd⟩
  have hl := mbl_pos
  have k := calcOutflow_cases inflow lateral bias prevQi po prevStorage ner area dead dur rp rc ql kl ko r h
  have k' := calcOutflow_cases inflow lateral bias prevQi' po' prevStorage ner area dead dur rp rc ql kl ko r' h'
  simp only at k k'
  generalize hc : mkCtx inflow lateral bias prevStorage ner area dead dur rp rc ql kl ko = c at *
  have hcb : c.bias = bias := by rw [← hc]; rfl
  have hcd : c.duration = dur := by rw [← hc]; rfl
  rcases k with ⟨rfl, a1⟩ | ⟨rfl, a1, a2⟩ | ⟨rfl, a1, a2⟩ | ⟨a1, a2, hs⟩ <;>
    rcases k' with ⟨rfl, b1⟩ | ⟨rfl, b1, b2⟩ | ⟨rfl, b1, b2⟩ | ⟨b1, b2, hs'⟩ <;>
    first
      | exact same rfl rfl
      | (exfalso; linarith)
      | skip
  -- both calls reach `solve`
  rcases sr_solve_shape c _ _ _ r hs hroot with ⟨o1, s1, m1⟩ | ⟨m1, q, hq, o1, s1⟩ <;>
    rcases sr_solve_shape c _ _ _ r' hs' hroot' with ⟨o2, s2, m2⟩ | ⟨m2, q', hq', o2, s2⟩
  · exact same (by rw [s1, s2]) (by rw [o1, o2])
  · exfalso; linarith
  · exfalso; linarith
  · rw [o1, o2, s1, s2, ← hcd]
    exact sr_two_index_flows c q q' (by rw [hcb]; exact hb) (by rw [hcd]; exact hd) hmono hq hq'

/-- non-vacuity, on the numbers of `hotstart_StorageRouting_counterexample` (k = 1 s, Δt = 1 s, power 1, no bias; storage 1 m³,
inflow 1.0005 m³/s): seed 1 (one-call run, exit `prev-qi`, storage 1) against seed 0 (second call of the split run, exit `mid-qi`,
storage 1.00025): all hypotheses hold, and the difference 0.00025 is indeed below 2e-3. -/
example : |(1:ℝ) - 4001 / 4000| < 2 * massBalanceLimit ∧ |(2001 / 2000 : ℝ) - 4001 / 4000| < 2 * massBalanceLimit / 1 := by
  have hmono : ∀ a b : ℝ, a ≤ b →
      sIndex (mkCtx (2001 / 2000) 0 0 1 0 0 0 1 1 1 0 1 0) a ≤ sIndex (mkCtx (2001 / 2000 : ℝ) 0 0 1 0 0 0 1 1 1 0 1 0) b := by
    intro a b hab
    rw [sIndex_eq, sIndex_eq]
    simp only [mkCtx, Real.rpow_one]
    by_cases ha : a ≤ 0 <;> by_cases hb' : b ≤ 0
    · simp [ha, hb']
    · have hb1 : 0 < b := not_le.mp hb'
      simp only [if_pos ha, if_neg hb']
      split_ifs <;> nlinarith
    · exact absurd (le_trans hab hb') ha
    · have ha0 : ¬ a < 0 := not_lt.mpr (not_le.mp ha).le
      have hb0 : ¬ b < 0 := not_lt.mpr (not_le.mp hb').le
      simp only [if_neg ha, if_neg hb']
      have ca : ¬ ((1:ℝ) ≤ 1 ∧ a < 0 ∨ (1:ℝ) < 1 ∧ 0 < a) := by
        rintro (⟨_, h⟩ | ⟨h, _⟩)
        · exact ha0 h
        · exact lt_irrefl _ h
      have cb : ¬ ((1:ℝ) ≤ 1 ∧ b < 0 ∨ (1:ℝ) < 1 ∧ 0 < b) := by
        rintro (⟨_, h⟩ | ⟨h, _⟩)
        · exact hb0 h
        · exact lt_irrefl _ h
      rw [if_neg ca, if_neg cb]
      linarith
  have := storageRouting_split_tol_step_partial (2001 / 2000) 0 0 1 0 1 0 1 0 0 0 1 1 1 0 1 0 _ _ (by norm_num) (by norm_num)
    hmono (sr_calc_B 1) (sr_calc_C 0) (by intro h; exact absurd h (by decide)) (by intro h; exact absurd h (by decide))
  simpa using this

end OW.Props.C06
