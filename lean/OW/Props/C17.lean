import OW.Proofs.JsonNest
import OW.Proofs.JsonGlue
import OW.Proofs.NdC01Ops
/-!
C17 — the JSON single-model runner is equivalent to a direct run and always answers.

Only the property theorems (helper lemmas: `OW/Proofs/Json*.lean`). The model the theorems are about is
`OW/Sim/Json.lean` (`jsonSafeValue`, `jsonSafeArray` on the n-d array model; `respond` = `RunSingleModelJSON` after
`Decode`, with `Initialise` and `encodeResults`), tied to /repo/io/json/json.go, /repo/sim/single.go and the `ow-single`
binary by the differential correspondence families JSA and JSON. `α` is any number type with the float64 predicates of
`JNum` (the driver runs the model at `Float`). The model kernel is the abstract table `Kernel α`.
-/
namespace OW.Props.C17
open OW.Nd OW.Sim.Json

section
variable {α : Type} [JNum α]

/-! ## JSON-safe conversion -/

/-- `JsonSafeValue`: NaN, +Inf, -Inf become exactly the strings `NaN`, `+Inf`, `-Inf`; every other number is kept. -/
theorem jsonSafeValue_spec (x : α) :
    jsonSafeValue x =
      if JNum.isNaN x then .str "NaN"
      else if JNum.isPosInf x then .str "+Inf"
      else if JNum.isNegInf x then .str "-Inf"
      else .num x := by
  unfold jsonSafeValue sprintNonFinite isInf0
  cases JNum.isNaN x <;> cases JNum.isPosInf x <;> cases JNum.isNegInf x <;> simp

/-- in-bounds tail index, padded with zeros on the left, is an in-bounds index of the view -/
theorem inBounds_pad : ∀ (sd : Nat) (dims tail : Idx), Pos dims → InBounds tail (dims.drop sd) →
    sd ≤ dims.length → InBounds (uniform sd 0 ++ tail) dims
  | 0, dims, tail, _, h, _ => by simpa [uniform] using h
  | sd + 1, [], tail, _, _, hl => by simp at hl
  | sd + 1, d :: ds, tail, hp, h, hl => by
    have h1 : 1 ≤ d := hp d (by simp)
    have ih := inBounds_pad sd ds tail (fun x hx => hp x (by simp [hx])) (by simpa using h) (by simpa using hl)
    simp only [uniform_succ, List.cons_append, InBounds_cons]
    exact ⟨by omega, by omega, ih⟩

/-- **nesting_spec.** For every reachable view (root array or any chain of in-bounds, possibly stepped slices) held in
a storage that covers it, and every valid shift dimension `sd`, `JsonSafeArray(view, sd)` does not panic and returns
the nesting shaped like the extents from `sd` on (`nest`: one array level per extent, row-major order) of the
elements `view[0,…,0,i_sd,…,i_last]`, each passed through `JsonSafeValue` (non-finite → the three strings). -/
theorem nesting_spec {h : Heap α} {a : Arr} (hr : Reach a.v) (ok : ArrOK h a) (sd : Nat) (hsd : sd < a.v.dims.length) :
    ∃ g : Idx → α,
      (∀ tail, InBounds tail (a.v.dims.drop sd) → Nd.get h a (uniform sd 0 ++ tail) = .ok (g tail)) ∧
      jsonSafeArray h a (sd : Int) = .ok (nest (a.v.dims.drop sd) g) := by
  have geo := reach_geo hr
  let g : Idx → α := fun tail =>
    match Nd.get h a (uniform sd 0 ++ tail) with
    | .ok x => x
    | .error _ => JNum.zero
  have hg : ∀ tail, InBounds tail (a.v.dims.drop sd) → Nd.get h a (uniform sd 0 ++ tail) = .ok (g tail) := by
    intro tail hb
    obtain ⟨_, x, _, _, _, _, hx⟩ := get_eq hr ok (inBounds_pad sd a.v.dims tail geo.pos_dims hb (by omega))
    simp only [g, hx]
  refine ⟨g, hg, ?_⟩
  unfold jsonSafeArray
  exact jsonSafeArrayF_spec h (a.v.dims.length - sd - 1) a.v.ndims a sd g (Regular.of_geo geo)
    (by omega) (by simp only [View.ndims]; omega)
    (fun d hd => by have := geo.pos_dims d (List.mem_of_mem_drop hd); omega) hg

/-- `nest` of a rank-1 shape is the list of the converted elements; of a rank-2 shape the list of converted rows
(the JSON arrays are nested exactly like the dimensions). -/
theorem nest_rank1 (d : Int) (g : Idx → α) :
    nest [d] g = (List.range d.toNat).map fun (i : Nat) => jsonSafeValue (g [(i : Int)]) := rfl

theorem nest_rank2 (d e : Int) (g : Idx → α) :
    nest [d, e] g = (List.range d.toNat).map fun (i : Nat) =>
      JVal.arr ((List.range e.toNat).map fun (j : Nat) => jsonSafeValue (g [(i : Int), (j : Int)])) := rfl

/-- a shift dimension outside `[0, rank)` panics (index out of range in `Len`) -/
theorem shiftDim_out_of_range {h : Heap α} {a : Arr} (hne : a.v.dims ≠ []) (sd : Int)
    (hsd : sd < 0 ∨ (a.v.dims.length : Int) ≤ sd) : jsonSafeArray h a sd = .error "index-out-of-range" := by
  unfold jsonSafeArray
  obtain ⟨n, hn⟩ : ∃ n, a.v.ndims = n + 1 := by
    refine ⟨a.v.dims.length - 1, ?_⟩
    have : a.v.dims.length ≠ 0 := fun h0 => hne (List.length_eq_zero_iff.mp h0)
    simp only [View.ndims]; omega
  rw [hn]
  unfold jsonSafeArrayF
  have : lenI a.v sd = oob := by
    unfold lenI
    rcases hsd with h | h
    · rw [if_pos h]
    · rw [if_neg (by omega)]
      unfold View.len
      have : a.v.dims[sd.toNat]? = none := List.getElem?_eq_none (by omega)
      rw [this]
  simp only [this, bind, Except.bind, oob]

example : jsonSafeArray (α := α) [[JNum.zero, JNum.zero]] ⟨rootView [2] 0, 0, 0, 2, false⟩ 0 =
    .ok [jsonSafeValue JNum.zero, jsonSafeValue JNum.zero] := by
  simp [jsonSafeArray, jsonSafeArrayF, lenI, View.len, rootView, View.ndims, View.newIndex, uniform, fillTo,
    Nd.get, View.index, View.indexAux, readAt, storeOf, offsetsT, bind, Except.bind, pure, Except.pure, List.range,
    List.range.loop]

/-! ## Initialise: defaults, zero inputs and the log -/

/-- **warnings_complete.** For a request naming a catalogued model whose supplied series all have `T` values (at least
one supplied) and whose `InitialiseStates` does not panic, `Initialise` returns
* the parameter column = named value, default otherwise (`effParams`),
* the input block = supplied series, `T` zeros otherwise (`effInputs`),
* the warnings = the empty first line (`make([]string, 1)`), then exactly one line per described parameter the request
  does not name (`<name> not found, using default=<%f>`), in description order, then exactly one line per described
  input it does not supply (`Missing input: <name>, using 0`), in description order — and nothing else. -/
theorem warnings_complete (cat : String → Option (ModelDesc α)) (K : Kernel α) (m : ParsedRequest α)
    (desc : ModelDesc α) (T : Nat)
    (hname : m.name ≠ "") (hcat : cat m.name = some desc)
    (hinit : K.init (effParams m.parameters desc.params) = .ok ())
    (hlen : LengthsAre m.inputs T desc.inputs) (hsome : ¬ NoneSupplied m.inputs desc.inputs) :
    initialise cat K m = .ok desc (effParams m.parameters desc.params) (effInputs m.inputs T desc.inputs)
      ([""] ++ paramWarnings m.parameters desc.params ++ inputWarnings m.inputs desc.inputs) := by
  have hall : (desc.inputs.all fun n => (findInput m.inputs n).isNone) = false := by
    by_contra hc
    apply hsome
    intro n hn
    have hc' : (desc.inputs.all fun n => (findInput m.inputs n).isNone) = true := by simpa using hc
    rw [List.all_eq_true] at hc'
    simpa using hc' n hn
  unfold initialise
  simp only [hname, if_false, hcat, paramLoop_spec, hinit, inputLoop_ok m.inputs T _ desc.inputs hlen, stateAfter,
    hall, Bool.false_eq_true, Nat.sub_self, List.replicate_zero, List.append_nil]

/-- the two line formats -/
theorem log_line_formats (p : ParamDesc α) (n : String) :
    paramLine p = p.name ++ " not found, using default=" ++ JNum.fmt6 p.default ∧
    inputLine n = "Missing input: " ++ n ++ ", using 0" := ⟨rfl, rfl⟩

/-- no usable input at all: `Initialise` returns the error `No inputs provided` (repaired code; the original
dereferenced nil after the response had been written) -/
theorem no_inputs_reported (cat : String → Option (ModelDesc α)) (K : Kernel α) (m : ParsedRequest α)
    (desc : ModelDesc α) (hname : m.name ≠ "") (hcat : cat m.name = some desc)
    (hinit : K.init (effParams m.parameters desc.params) = .ok ())
    (hnone : NoneSupplied m.inputs desc.inputs) :
    initialise cat K m = .err "No inputs provided" := by
  have hl : LengthsAre m.inputs 0 desc.inputs := by
    intro n hn vs hv; rw [hnone n hn] at hv; cases hv
  have hall : (desc.inputs.all fun n => (findInput m.inputs n).isNone) = true := by
    rw [List.all_eq_true]; intro n hn; simp [hnone n hn]
  unfold initialise
  simp only [hname, if_false, hcat, paramLoop_spec, hinit, inputLoop_ok m.inputs 0 _ desc.inputs hl, stateAfter,
    hall, if_true]

/-- supplied series of unequal lengths: `Initialise` returns an error (repaired code; the original panicked in `Apply`
for a longer later series and silently zero-padded a shorter one) -/
theorem unequal_inputs_reported (cat : String → Option (ModelDesc α)) (K : Kernel α) (m : ParsedRequest α)
    (desc : ModelDesc α) (hname : m.name ≠ "") (hcat : cat m.name = some desc)
    (hinit : K.init (effParams m.parameters desc.params) = .ok ())
    (hne : ¬ ∃ T, LengthsAre m.inputs T desc.inputs) :
    ∃ msg, initialise cat K m = .err msg := by
  have hpos : 0 < desc.inputs.length := by
    rcases Nat.eq_zero_or_pos desc.inputs.length with h0 | h
    · exact absurd ⟨0, by intro n hn; rw [List.length_eq_zero_iff.mp h0] at hn; simp at hn⟩ hne
    · exact h
  unfold initialise
  simp only [hname, if_false, hcat, paramLoop_spec, hinit]
  cases hl : inputLoop m.inputs desc.inputs.length desc.inputs 0
      { inputs := none, warnings := [""] ++ paramWarnings m.parameters desc.params } with
  | error msg => exact ⟨msg, rfl⟩
  | ok s => exact absurd (inputLoop_none_ok m.inputs _ hpos desc.inputs 0 _ s rfl hl) hne

end
end OW.Props.C17
