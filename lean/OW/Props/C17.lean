import OW.Proofs.JsonNest
import OW.Proofs.JsonGlue
import OW.Proofs.JsonEncode
import OW.Proofs.NdC01Ops
/-!
C17 — the JSON single-model runner is equivalent to a direct run and always answers.

Only the property theorems (helper lemmas: `OW/Proofs/Json*.lean`). The model the theorems are about is
`OW/Sim/Json.lean` (`jsonSafeValue`, `jsonSafeArray` on the n-d array model; `respond` = `RunSingleModelJSON` after
`Decode`, with `Initialise` and `encodeResults`), tied to /repo/io/json/json.go, /repo/sim/single.go and the `ow-single`
binary by the differential correspondence families JSA and JSON. `α` is any number type with the float64 predicates of
`JNum` (the driver runs the model at `Float`). The model kernel is the abstract table `Kernel α`.
-/
namespace OW.Props.C17
open OW.Nd OW.Sim.Json

section
variable {α : Type} [JNum α]

/-! ## JSON-safe conversion -/

/-- `JsonSafeValue`: NaN, +Inf, -Inf become exactly the strings `NaN`, `+Inf`, `-Inf`; every other number is kept. -/
theorem jsonSafeValue_spec (x : α) :
    jsonSafeValue x =
      if JNum.isNaN x then .str "NaN"
      else if JNum.isPosInf x then .str "+Inf"
      else if JNum.isNegInf x then .str "-Inf"
      else .num x := by
  unfold jsonSafeValue sprintNonFinite isInf0
  cases JNum.isNaN x <;> cases JNum.isPosInf x <;> cases JNum.isNegInf x <;> simp

/-- **nesting_spec.** For every reachable view (root array or any chain of in-bounds, possibly stepped slices) held in
a storage that covers it, and every valid shift dimension `sd`, `JsonSafeArray(view, sd)` does not panic and returns
the nesting shaped like the extents from `sd` on (`nest`: one array level per extent, row-major order) of the
elements `view[0,…,0,i_sd,…,i_last]`, each passed through `JsonSafeValue` (non-finite → the three strings). -/
theorem nesting_spec {h : Heap α} {a : Arr} (hr : Reach a.v) (ok : ArrOK h a) (sd : Nat) (hsd : sd < a.v.dims.length) :
    ∃ g : Idx → α,
      (∀ tail, InBounds tail (a.v.dims.drop sd) → Nd.get h a (uniform sd 0 ++ tail) = .ok (g tail)) ∧
      jsonSafeArray h a (sd : Int) = .ok (nest (a.v.dims.drop sd) g) := by
  have geo := reach_geo hr
  let g : Idx → α := fun tail =>
    match Nd.get h a (uniform sd 0 ++ tail) with
    | .ok x => x
    | .error _ => JNum.zero
  have hg : ∀ tail, InBounds tail (a.v.dims.drop sd) → Nd.get h a (uniform sd 0 ++ tail) = .ok (g tail) := by
    intro tail hb
    obtain ⟨_, x, _, _, _, _, hx⟩ := get_eq hr ok (inBounds_pad sd a.v.dims tail geo.pos_dims hb (by omega))
    simp only [g, hx]
  refine ⟨g, hg, ?_⟩
  unfold jsonSafeArray
  exact jsonSafeArrayF_spec h (a.v.dims.length - sd - 1) a.v.ndims a sd g (Regular.of_geo geo)
    (by omega) (by simp only [View.ndims]; omega)
    (fun d hd => by have := geo.pos_dims d (List.mem_of_mem_drop hd); omega) hg

/-- `nest` of a rank-1 shape is the list of the converted elements; of a rank-2 shape the list of converted rows
(the JSON arrays are nested exactly like the dimensions). -/
theorem nest_rank1 (d : Int) (g : Idx → α) :
    nest [d] g = (List.range d.toNat).map fun (i : Nat) => jsonSafeValue (g [(i : Int)]) := rfl

theorem nest_rank2 (d e : Int) (g : Idx → α) :
    nest [d, e] g = (List.range d.toNat).map fun (i : Nat) =>
      JVal.arr ((List.range e.toNat).map fun (j : Nat) => jsonSafeValue (g [(i : Int), (j : Int)])) := rfl

/-- a shift dimension outside `[0, rank)` panics (index out of range in `Len`) -/
theorem shiftDim_out_of_range {h : Heap α} {a : Arr} (hne : a.v.dims ≠ []) (sd : Int)
    (hsd : sd < 0 ∨ (a.v.dims.length : Int) ≤ sd) : jsonSafeArray h a sd = .error "index-out-of-range" := by
  unfold jsonSafeArray
  obtain ⟨n, hn⟩ : ∃ n, a.v.ndims = n + 1 := by
    refine ⟨a.v.dims.length - 1, ?_⟩
    have : a.v.dims.length ≠ 0 := fun h0 => hne (List.length_eq_zero_iff.mp h0)
    simp only [View.ndims]; omega
  rw [hn]
  unfold jsonSafeArrayF
  have : lenI a.v sd = oob := by
    unfold lenI
    rcases hsd with h | h
    · rw [if_pos h]
    · rw [if_neg (by omega)]
      unfold View.len
      have : a.v.dims[sd.toNat]? = none := List.getElem?_eq_none (by omega)
      rw [this]
  simp only [this, bind, Except.bind, oob]

example : jsonSafeArray (α := α) [[JNum.zero, JNum.zero]] ⟨rootView [2] 0, 0, 0, 2, false⟩ 0 =
    .ok [jsonSafeValue JNum.zero, jsonSafeValue JNum.zero] := by
  simp [jsonSafeArray, jsonSafeArrayF, lenI, View.len, rootView, View.ndims, View.newIndex, uniform,
    Nd.get, View.index, View.indexAux, readAt, storeOf, offsetsT, bind, Except.bind, pure, Except.pure, List.range,
    List.range.loop]

/-! ## Initialise: defaults, zero inputs and the log -/

/-- **warnings_complete.** For a request naming a catalogued model whose supplied series all have `T` values (at least
one supplied) and whose `InitialiseStates` does not panic, `Initialise` returns
* the parameter column = named value, default otherwise (`effParams`),
* the input block = supplied series, `T` zeros otherwise (`effInputs`),
* the warnings = the empty first line (`make([]string, 1)`), then exactly one line per described parameter the request
  does not name (`<name> not found, using default=<%f>`), in description order, then exactly one line per described
  input it does not supply (`Missing input: <name>, using 0`), in description order — and nothing else. -/
theorem warnings_complete (cat : String → Option (ModelDesc α)) (K : Kernel α) (m : ParsedRequest α)
    (desc : ModelDesc α) (T : Nat)
    (hname : m.name ≠ "") (hcat : cat m.name = some desc)
    (hinit : K.init (effParams m.parameters desc.params) = .ok ())
    (hlen : LengthsAre m.inputs T desc.inputs) (hsome : ¬ NoneSupplied m.inputs desc.inputs) :
    initialise cat K m = .ok desc (effParams m.parameters desc.params) (effInputs m.inputs T desc.inputs)
      ([""] ++ paramWarnings m.parameters desc.params ++ inputWarnings m.inputs desc.inputs) := by
  have hall : (desc.inputs.all fun n => (findInput m.inputs n).isNone) = false := by
    by_contra hc
    apply hsome
    intro n hn
    have hc' : (desc.inputs.all fun n => (findInput m.inputs n).isNone) = true := by simpa using hc
    rw [List.all_eq_true] at hc'
    simpa using hc' n hn
  unfold initialise
  simp only [hname, if_false, hcat, paramLoop_spec, hinit, inputLoop_ok m.inputs T _ desc.inputs hlen, stateAfter,
    hall, Bool.false_eq_true, Nat.sub_self, List.replicate_zero, List.append_nil]

/-- the two line formats -/
theorem log_line_formats (p : ParamDesc α) (n : String) :
    paramLine p = p.name ++ " not found, using default=" ++ JNum.fmt6 p.default ∧
    inputLine n = "Missing input: " ++ n ++ ", using 0" := ⟨rfl, rfl⟩

/-- no usable input at all: `Initialise` returns the error `No inputs provided` (repaired code; the original
dereferenced nil after the response had been written) -/
theorem no_inputs_reported (cat : String → Option (ModelDesc α)) (K : Kernel α) (m : ParsedRequest α)
    (desc : ModelDesc α) (hname : m.name ≠ "") (hcat : cat m.name = some desc)
    (hinit : K.init (effParams m.parameters desc.params) = .ok ())
    (hnone : NoneSupplied m.inputs desc.inputs) :
    initialise cat K m = .err "No inputs provided" := by
  have hl : LengthsAre m.inputs 0 desc.inputs := by
    intro n hn vs hv; rw [hnone n hn] at hv; cases hv
  have hall : (desc.inputs.all fun n => (findInput m.inputs n).isNone) = true := by
    rw [List.all_eq_true]; intro n hn; simp [hnone n hn]
  unfold initialise
  simp only [hname, if_false, hcat, paramLoop_spec, hinit, inputLoop_ok m.inputs 0 _ desc.inputs hl, stateAfter,
    hall, if_true]

/-- supplied series of unequal lengths: `Initialise` returns an error (repaired code; the original panicked in `Apply`
for a longer later series and silently zero-padded a shorter one) -/
theorem unequal_inputs_reported (cat : String → Option (ModelDesc α)) (K : Kernel α) (m : ParsedRequest α)
    (desc : ModelDesc α) (hname : m.name ≠ "") (hcat : cat m.name = some desc)
    (hinit : K.init (effParams m.parameters desc.params) = .ok ())
    (hne : ¬ ∃ T, LengthsAre m.inputs T desc.inputs) :
    ∃ msg, initialise cat K m = .err msg := by
  have hpos : 0 < desc.inputs.length := by
    rcases Nat.eq_zero_or_pos desc.inputs.length with h0 | h
    · exact absurd ⟨0, by intro n hn; rw [List.length_eq_zero_iff.mp h0] at hn; simp at hn⟩ hne
    · exact h
  unfold initialise
  simp only [hname, if_false, hcat, paramLoop_spec, hinit]
  cases hl : inputLoop m.inputs desc.inputs.length desc.inputs 0
      { inputs := none, warnings := [""] ++ paramWarnings m.parameters desc.params } with
  | error msg => exact ⟨msg, rfl⟩
  | ok s => exact absurd (inputLoop_none_ok m.inputs _ hpos desc.inputs 0 _ s rfl hl) hne

/-! ## encodeResults and the whole runner -/

/-- one output / state row as JSON: the array of its values, each through `JsonSafeValue` -/
def rowJson (o : List α) : JVal α := .arr (o.map jsonSafeValue)

/-- the response document for a completed run: the log, the outputs (an object keyed by output name when split, else
the `[nOut][T]` nested array) and ALL final states (an object keyed by state name when split and the state row is as
wide as the list of names, else the plain array) -/
def resultDoc (logs : List String) (desc : ModelDesc α) (split : Bool) (outs : List (List α)) (states : List α) :
    JVal α :=
  document (some logs)
    (if split = true then .obj desc.outputs (outs.map rowJson) else .arr (outs.map rowJson))
    (if split = true ∧ states.length = desc.states.length then .obj desc.states (states.map jsonSafeValue)
     else .arr (states.map jsonSafeValue))

/-- a problem report: the log line(s), `Outputs` and `States` null -/
def problemDoc (logs : List String) : JVal α := document (some logs) .null .null

/-- **encode_spec.** `encodeResults` on the arrays of a completed run (outputs `1×nOut×T` holding the rectangular block
`outs`, states `1×W`) never panics and writes `resultDoc` — for every `nOut`, `T`, `W`, zero included. All the n-d array
plumbing (`MustReshape`, row `Slice`s, `JsonSafeArray`) is covered. -/
theorem encode_spec (logs : List String) (hl : logs ≠ []) (desc : ModelDesc α) (split : Bool) (T : Nat)
    (outs : List (List α)) (states : List α)
    (hrows : outs.length = desc.outputs.length) (hrect : ∀ o ∈ outs, o.length = T)
    (hno : desc.outputs.Nodup) (hns : desc.states.Nodup) :
    encodeResults (logged logs) (some (outs, states)) T desc split = .ok (resultDoc logs desc split outs states) := by
  have hlg : logged logs = some logs := by
    cases logs with
    | nil => exact absurd rfl hl
    | cons _ _ => rfl
  simp only [encodeResults, encodeOutputs_spec outs T desc.outputs split hrect hrows.symm hno,
    encodeStates_spec states desc.states split hns, bind, Except.bind, pure, Except.pure, hlg, resultDoc]
  rfl

/-- **respond_eq_direct.** For every request that names a catalogued model, supplies at least one of its inputs and
only series of one length `T`: the runner writes exactly one document and returns; the document's outputs and final
states are those of the DIRECT one-cell run (`K.run`) on the parameter column "named value, default otherwise"
(`effParams`) and the input block "supplied series, `T` zeros otherwise" (`effInputs`) — bit for bit, non-finite values as
the three strings, nested like the dimensions — and its log is the empty first line followed by exactly one line per
defaulted parameter and one per zero-filled input, in description order. Parameters and inputs may come in any order,
with duplicates (first wins) and unknown names (ignored); the `States` of the request are not used (as in the code).
Hypotheses on the kernel: it does not panic on this call and returns one row of `T` values per described output. -/
theorem respond_eq_direct (cat : String → Option (ModelDesc α)) (K : Kernel α) (split : Bool) (m : ParsedRequest α)
    (desc : ModelDesc α) (T : Nat) (outs : List (List α)) (states : List α)
    (hname : m.name ≠ "") (hcat : cat m.name = some desc)
    (hinit : K.init (effParams m.parameters desc.params) = .ok ())
    (hlen : LengthsAre m.inputs T desc.inputs) (hsome : ¬ NoneSupplied m.inputs desc.inputs)
    (hrun : K.run (effParams m.parameters desc.params) (effInputs m.inputs T desc.inputs) = .ok outs states)
    (hrows : outs.length = desc.outputs.length) (hrect : ∀ o ∈ outs, o.length = T)
    (hno : desc.outputs.Nodup) (hns : desc.states.Nodup) :
    respond cat K split (.inl m) =
      { written := [resultDoc ([""] ++ paramWarnings m.parameters desc.params ++ inputWarnings m.inputs desc.inputs)
                      desc split outs states],
        ending := .returned } := by
  have hT : ((effInputs m.inputs T desc.inputs).headD []).length = T := by
    cases hd : desc.inputs with
    | nil => exact absurd (fun n hn => by rw [hd] at hn; simp at hn) hsome
    | cons n ns =>
      simp only [effInputs, List.map_cons, List.headD_cons]
      exact effInput_length (hlen n (by rw [hd]; simp))
  unfold respond
  simp only [warnings_complete cat K m desc T hname hcat hinit hlen hsome, hT, hrun, finish]
  rw [encode_spec _ (by simp) desc split T outs states hrows hrect hno hns]

/-- the problem reports of the glue, exactly: decoder error, no name, unknown model — one document with the message
as its only log line and null results -/
theorem problem_reports (cat : String → Option (ModelDesc α)) (K : Kernel α) (split : Bool) :
    (∀ msg, respond cat K split (.inr msg) = { written := [problemDoc [msg]], ending := .returned }) ∧
    (∀ m : ParsedRequest α, m.name = "" →
      respond cat K split (.inl m) = { written := [problemDoc ["No model name provided"]], ending := .returned }) ∧
    (∀ m : ParsedRequest α, m.name ≠ "" → cat m.name = none →
      respond cat K split (.inl m) =
        { written := [problemDoc ["Unknown model: " ++ m.name]], ending := .returned }) := by
  refine ⟨fun msg => rfl, ?_, ?_⟩
  · intro m hn
    simp [respond, initialise, hn, finish_problem, problemDoc]
  · intro m hn hc
    simp [respond, initialise, hn, hc, finish_problem, problemDoc]

/-- no usable input, or supplied series of unequal lengths (catalogued model, `InitialiseStates` does not panic): one
problem report, null results, the call returns -/
theorem input_problems_reported (cat : String → Option (ModelDesc α)) (K : Kernel α) (split : Bool)
    (m : ParsedRequest α) (desc : ModelDesc α) (hname : m.name ≠ "") (hcat : cat m.name = some desc)
    (hinit : K.init (effParams m.parameters desc.params) = .ok ()) :
    (NoneSupplied m.inputs desc.inputs →
      respond cat K split (.inl m) = { written := [problemDoc ["No inputs provided"]], ending := .returned }) ∧
    ((¬ ∃ T, LengthsAre m.inputs T desc.inputs) →
      ∃ msg, respond cat K split (.inl m) = { written := [problemDoc [msg]], ending := .returned }) := by
  constructor
  · intro hnone
    simp [respond, no_inputs_reported cat K m desc hname hcat hinit hnone, finish_problem, problemDoc]
  · intro hne
    obtain ⟨msg, hmsg⟩ := unequal_inputs_reported cat K m desc hname hcat hinit hne
    exact ⟨msg, by simp [respond, hmsg, finish_problem, problemDoc]⟩

/-- what ONE request needs of the kernel: on the parameter column and the input block that THIS request leads to
(`effParams` = named value, default otherwise; `effInputs` = supplied series, `T` zeros otherwise, for the common length
`T` of the supplied series), `InitialiseStates` and `Run` do not panic and `Run` fills one row of `T` values per described
output; output and state names are distinct. Nothing is asked about any other parameter column or input block. -/
structure KernelOKOn (K : Kernel α) (m : ParsedRequest α) (desc : ModelDesc α) : Prop where
  init : K.init (effParams m.parameters desc.params) = .ok ()
  run : ∀ T, LengthsAre m.inputs T desc.inputs → ¬ NoneSupplied m.inputs desc.inputs →
    ∃ outs states, K.run (effParams m.parameters desc.params) (effInputs m.inputs T desc.inputs) = .ok outs states ∧
      outs.length = desc.outputs.length ∧ ∀ o ∈ outs, o.length = T
  outputs_nodup : desc.outputs.Nodup
  states_nodup : desc.states.Nodup

/-- the shape of what `Initialise` hands to `Run`: as many parameters as described, one row per described input, all rows
of the common length `T` -/
theorem eff_shapes (m : ParsedRequest α) (desc : ModelDesc α) (T : Nat) (hlen : LengthsAre m.inputs T desc.inputs) :
    (effParams m.parameters desc.params).length = desc.params.length ∧
    (effInputs m.inputs T desc.inputs).length = desc.inputs.length ∧
    ∀ r ∈ effInputs m.inputs T desc.inputs, r.length = T := by
  refine ⟨by simp [effParams], by simp [effInputs], ?_⟩
  intro r hr
  simp only [effInputs, List.mem_map] at hr
  obtain ⟨n, hn, rfl⟩ := hr
  exact effInput_length (hlen n hn)

/-- **initialise_ok_shape.** Whenever `Initialise` succeeds, what it returns is determined by the request: the model is
the catalogued one, the parameter column is `effParams` (so `params.length = desc.params.length`), and there is a common
length `T` of the supplied series (at least one supplied) with the input block `effInputs … T`
(`inputs.length = desc.inputs.length`, every row of length `T`). -/
theorem initialise_ok_shape (cat : String → Option (ModelDesc α)) (K : Kernel α) (m : ParsedRequest α)
    {desc : ModelDesc α} {params : List α} {inputs : List (List α)} {warnings : List String}
    (h : initialise cat K m = .ok desc params inputs warnings) :
    cat m.name = some desc ∧ params = effParams m.parameters desc.params ∧
    ∃ T, LengthsAre m.inputs T desc.inputs ∧ ¬ NoneSupplied m.inputs desc.inputs ∧
      inputs = effInputs m.inputs T desc.inputs ∧
      warnings = [""] ++ paramWarnings m.parameters desc.params ++ inputWarnings m.inputs desc.inputs ∧
      params.length = desc.params.length ∧ inputs.length = desc.inputs.length ∧ ∀ r ∈ inputs, r.length = T := by
  by_cases hn : m.name = ""
  · simp [initialise, hn] at h
  cases hc : cat m.name with
  | none => simp [initialise, hn, hc] at h
  | some d =>
    cases hi : K.init (effParams m.parameters d.params) with
    | error cls => simp [initialise, hn, hc, paramLoop_spec, hi] at h
    | ok u =>
      cases u
      by_cases hnone : NoneSupplied m.inputs d.inputs
      · rw [no_inputs_reported cat K m d hn hc hi hnone] at h; cases h
      · by_cases hT : ∃ T, LengthsAre m.inputs T d.inputs
        · obtain ⟨T, hlen⟩ := hT
          rw [warnings_complete cat K m d T hn hc hi hlen hnone] at h
          cases h
          obtain ⟨s1, s2, s3⟩ := eff_shapes m desc T hlen
          exact ⟨rfl, rfl, T, hlen, hnone, rfl, rfl, s1, s2, s3⟩
        · obtain ⟨msg, hmsg⟩ := unequal_inputs_reported cat K m d hn hc hi hT
          rw [hmsg] at h; cases h

/-- **respond_total_request.** EVERY request — whatever the bytes decoded to, or the decoder's error — makes the
(repaired) runner write exactly one JSON document and return, provided the named model's own code does not panic ON
THIS REQUEST (`KernelOKOn`: the parameter column and input block the request leads to). So the statement says
something for GR4J with a valid `x4` although GR4J panics for `x4 = 0`. No crash state is reachable through the glue
(no name, unknown model, no inputs, unequal lengths, missing or superfluous or duplicated parameters and inputs, any
series length including 0, any state-row width). -/
theorem respond_total_request (cat : String → Option (ModelDesc α)) (K : Kernel α) (split : Bool)
    (req : ParsedRequest α ⊕ String)
    (hK : ∀ m, req = .inl m → ∀ desc, cat m.name = some desc → KernelOKOn K m desc) :
    ∃ doc, respond cat K split req = { written := [doc], ending := .returned } := by
  cases req with
  | inr msg => exact ⟨_, rfl⟩
  | inl m =>
    obtain ⟨p1, p2, p3⟩ := problem_reports cat K split
    by_cases hn : m.name = ""
    · exact ⟨_, p2 m hn⟩
    cases hc : cat m.name with
    | none => exact ⟨_, p3 m hn hc⟩
    | some desc =>
      have ok := hK m rfl desc hc
      obtain ⟨q1, q2⟩ := input_problems_reported cat K split m desc hn hc ok.init
      by_cases hnone : NoneSupplied m.inputs desc.inputs
      · exact ⟨_, q1 hnone⟩
      · by_cases hT : ∃ T, LengthsAre m.inputs T desc.inputs
        · obtain ⟨T, hlen⟩ := hT
          obtain ⟨outs, states, hrun, hrows, hrect⟩ := ok.run T hlen hnone
          exact ⟨_, respond_eq_direct cat K split m desc T outs states hn hc ok.init hlen hnone hrun hrows hrect
            ok.outputs_nodup ok.states_nodup⟩
        · obtain ⟨msg, hmsg⟩ := q2 hT
          exact ⟨_, hmsg⟩

/-- the kernel does not panic on any parameter column and input block OF THE DESCRIBED SHAPE (as many parameters as
described, one row per described input, rectangular) — weaker than `KernelOK` (all columns and blocks), stronger than
`KernelOKOn` (one request) -/
structure KernelOKShaped (K : Kernel α) (desc : ModelDesc α) : Prop where
  init : ∀ p, p.length = desc.params.length → K.init p = .ok ()
  run : ∀ p ins T, p.length = desc.params.length → ins.length = desc.inputs.length → (∀ r ∈ ins, r.length = T) →
    ∃ outs states, K.run p ins = .ok outs states ∧ outs.length = desc.outputs.length ∧ ∀ o ∈ outs, o.length = T
  outputs_nodup : desc.outputs.Nodup
  states_nodup : desc.states.Nodup

/-- **respond_total_shaped**: totality for kernels that do not panic on well-shaped calls (corollary of
`respond_total_request` through `eff_shapes`) -/
theorem respond_total_shaped (cat : String → Option (ModelDesc α)) (K : Kernel α) (split : Bool)
    (hK : ∀ name desc, cat name = some desc → KernelOKShaped K desc) (req : ParsedRequest α ⊕ String) :
    ∃ doc, respond cat K split req = { written := [doc], ending := .returned } := by
  apply respond_total_request
  intro m _ desc hc
  have ok := hK _ _ hc
  refine ⟨ok.init _ (by simp [effParams]), fun T hlen _ => ?_, ok.outputs_nodup, ok.states_nodup⟩
  obtain ⟨s1, s2, s3⟩ := eff_shapes m desc T hlen
  exact ok.run _ _ T s1 s2 s3

/-- what the kernel must not do for the runner to be able to answer EVERY request: `InitialiseStates` and `Run` never
panic, on ANY parameter column and input block, and `Run` fills one row per described output with one value per time step.
(Much more than any one request needs — GR4J does not satisfy it, because `x4 = 0` panics: see `KernelOKOn` /
`respond_total_request` for the per-request form.) -/
structure KernelOK (K : Kernel α) (desc : ModelDesc α) : Prop where
  init : ∀ p, K.init p = .ok ()
  run : ∀ p ins, ∃ outs states, K.run p ins = .ok outs states ∧ outs.length = desc.outputs.length ∧
    ∀ o ∈ outs, o.length = (ins.headD []).length
  outputs_nodup : desc.outputs.Nodup
  states_nodup : desc.states.Nodup

/-- `KernelOK` (all columns, all blocks) implies `KernelOKOn` for every request -/
theorem KernelOK.on {K : Kernel α} {desc : ModelDesc α} (ok : KernelOK K desc) (m : ParsedRequest α) :
    KernelOKOn K m desc := by
  refine ⟨ok.init _, fun T hlen hsome => ?_, ok.outputs_nodup, ok.states_nodup⟩
  have hT : ((effInputs m.inputs T desc.inputs).headD []).length = T := by
    cases hd : desc.inputs with
    | nil => exact absurd (fun n hn => by rw [hd] at hn; simp at hn) hsome
    | cons n ns =>
      simp only [effInputs, List.map_cons, List.headD_cons]
      exact effInput_length (hlen n (by rw [hd]; simp))
  obtain ⟨outs, states, h1, h2, h3⟩ := ok.run (effParams m.parameters desc.params) (effInputs m.inputs T desc.inputs)
  exact ⟨outs, states, h1, h2, fun o ho => by rw [h3 o ho, hT]⟩

/-- **respond_total (global form, a corollary of `respond_total_request`).** If the catalogued models' code never panics
on ANY parameter column and input block (`KernelOK`), every request gets exactly one document and the call returns.
This form says nothing for a model one of whose parameter columns panics (GR4J, DateGenerator: known finding
KF-C17-kernel-panic); the per-request statement is `respond_total_request`. -/
theorem respond_total (cat : String → Option (ModelDesc α)) (K : Kernel α) (split : Bool)
    (hK : ∀ name desc, cat name = some desc → KernelOK K desc) (req : ParsedRequest α ⊕ String) :
    ∃ doc, respond cat K split req = { written := [doc], ending := .returned } :=
  respond_total_request cat K split req (fun m _ _ hc => (hK _ _ hc).on m)

/-- the crash states of the model are exactly the kernel's: a panic in `InitialiseStates` (calling goroutine: the
deferred `encodeResults` writes a document with a null log first), a panic of `Run` in the calling goroutine (document
with the warnings, null results), a panic in a goroutine started by `Run` (the process dies, nothing is written) -/
theorem kernel_crash_states (cat : String → Option (ModelDesc α)) (K : Kernel α) (split : Bool) (m : ParsedRequest α)
    (desc : ModelDesc α) (T : Nat) (hname : m.name ≠ "") (hcat : cat m.name = some desc)
    (hlen : LengthsAre m.inputs T desc.inputs) (hsome : ¬ NoneSupplied m.inputs desc.inputs) :
    (∀ cls, K.init (effParams m.parameters desc.params) = .error cls →
      respond cat K split (.inl m) = { written := [document none .null .null], ending := .panicked cls }) ∧
    (K.init (effParams m.parameters desc.params) = .ok () →
      (∀ cls, K.run (effParams m.parameters desc.params) (effInputs m.inputs T desc.inputs) = .died cls →
        respond cat K split (.inl m) = { written := [], ending := .died cls }) ∧
      (∀ cls, K.run (effParams m.parameters desc.params) (effInputs m.inputs T desc.inputs) = .panic cls →
        respond cat K split (.inl m) =
          { written := [problemDoc ([""] ++ paramWarnings m.parameters desc.params ++ inputWarnings m.inputs desc.inputs)],
            ending := .panicked cls })) := by
  constructor
  · intro cls hi
    simp [respond, initialise, hname, hcat, paramLoop_spec, hi, finish, encodeResults, logged]
  · intro hinit
    have hw := warnings_complete cat K m desc T hname hcat hinit hlen hsome
    constructor
    · intro cls hr
      simp only [respond, hw, hr]
    · intro cls hr
      simp only [respond, hw, hr, finish, encodeResults]
      simp [logged, problemDoc]

/-! ## non-vacuity -/

section Example
/-- a toy number type: 0 = zero, 1 = NaN, 2 = +Inf, 3 = -Inf, others finite -/
instance : JNum Nat where
  zero := 0
  isNaN x := x == 1
  isPosInf x := x == 2
  isNegInf x := x == 3
  fmt6 x := toString x ++ ".000000"

def toyDesc : ModelDesc Nat :=
  { params := [⟨"a", 7⟩, ⟨"b", 9⟩], inputs := ["rain", "pet"], states := ["s"], outputs := ["q", "e"] }

/-- a kernel that echoes: outputs = the two input rows, state = first parameter -/
def toyKernel : Kernel Nat :=
  { init := fun _ => .ok (), run := fun p ins => .ok ins [p.headD 0] }

def toyReq : ParsedRequest Nat :=
  { name := "Toy", inputs := [⟨"pet", some [1, 2, 3]⟩], states := [], parameters := [⟨"b", 5⟩, ⟨"zz", 1⟩] }

/-- the hypotheses of `respond_eq_direct` are satisfiable, and the response is what the statement says: default for `a`
logged, `rain` zero-filled and logged, NaN / +Inf / -Inf in the supplied series come back as the three strings -/
example : respond (fun n => if n = "Toy" then some toyDesc else none) toyKernel true (.inl toyReq) =
    { written := [document (some ["", "a not found, using default=7.000000", "Missing input: rain, using 0"])
        (.obj ["q", "e"] [.arr [.num 0, .num 0, .num 0], .arr [.str "NaN", .str "+Inf", .str "-Inf"]])
        (.obj ["s"] [.num 7])],
      ending := .returned } := by
  have h := respond_eq_direct (fun n => if n = "Toy" then some toyDesc else none) toyKernel true toyReq toyDesc 3
    [[0, 0, 0], [1, 2, 3]] [7] (by decide) rfl rfl
    (by intro n hn vs hv
        simp only [toyDesc, List.mem_cons, List.mem_nil_iff, or_false] at hn
        rcases hn with rfl | rfl
        · simp [toyReq, findInput] at hv
        · simp [toyReq, findInput] at hv; subst hv; rfl)
    (by intro hnone; have := hnone "pet" (by simp [toyDesc]); simp [toyReq, findInput] at this)
    (by rfl) rfl (by intro o ho; simp at ho; rcases ho with rfl | rfl <;> rfl) (by decide) (by decide)
  rw [h]
  rfl

/-- `KernelOK` is satisfiable (so `respond_total` is not vacuous): the echo kernel on a description with two inputs
and two outputs — for input blocks of two rows, which is what `Initialise` builds for it -/
def toyKernel2 : Kernel Nat :=
  { init := fun _ => .ok (),
    run := fun p ins => .ok [ins.headD [], List.replicate (ins.headD []).length 0] [p.headD 0] }

example : KernelOK toyKernel2 toyDesc :=
  ⟨fun _ => rfl, fun p ins => ⟨_, _, rfl, rfl, by intro o ho; simp at ho; rcases ho with rfl | rfl <;> simp⟩,
   by decide, by decide⟩

/-- … and a request with no inputs at all gets its single problem report -/
example : respond (fun n => if n = "Toy" then some toyDesc else none) toyKernel2 true
    (.inl { name := "Toy", inputs := [], states := [], parameters := [] }) =
    { written := [problemDoc ["No inputs provided"]], ending := .returned } := by
  rfl


/-- a kernel that panics on SOME parameter column (first parameter 0 — like GR4J's `x4 = 0`): `KernelOK` fails for it, yet
`KernelOKOn` holds for the request `toyReq` (first parameter defaulted to 7), so `respond_total_request` applies to that
request and the global `respond_total` does not -/
def toyKernel3 : Kernel Nat :=
  { init := fun p => if p.headD 0 = 0 then .error "index-out-of-range" else .ok (),
    run := fun p ins => if p.headD 0 = 0 then .died "index-out-of-range"
      else .ok [ins.headD [], List.replicate (ins.headD []).length 0] [p.headD 0] }

example : ¬ KernelOK toyKernel3 toyDesc := fun h => by
  have := h.init [0]
  simp [toyKernel3] at this

theorem toy3_on : KernelOKOn toyKernel3 toyReq toyDesc := by
  refine ⟨rfl, fun T hlen _ => ?_, by decide, by decide⟩
  have hT : T = 3 := (hlen "pet" (by simp [toyDesc]) [1, 2, 3] rfl).symm
  subst hT
  exact ⟨_, _, rfl, rfl, by intro o ho; simp at ho; rcases ho with rfl | rfl <;> rfl⟩

example : ∃ doc, respond (fun n => if n = "Toy" then some toyDesc else none) toyKernel3 true (.inl toyReq) =
    { written := [doc], ending := .returned } :=
  respond_total_request _ toyKernel3 true (.inl toyReq) (fun m hm desc hc => by
    cases hm
    have : desc = toyDesc := by simp [toyReq] at hc; exact hc.symm
    subst this
    exact toy3_on)

/-- `initialise_ok_shape` on that request: two parameters, two input rows of three values -/
example : ∃ params inputs warnings,
    initialise (fun n => if n = "Toy" then some toyDesc else none) toyKernel3 toyReq = .ok toyDesc params inputs warnings ∧
    params.length = 2 ∧ inputs.length = 2 ∧ ∀ r ∈ inputs, r.length = 3 :=
  ⟨[7, 5], [[0, 0, 0], [1, 2, 3]], _, rfl, rfl, rfl, by intro r hr; simp at hr; rcases hr with rfl | rfl <;> rfl⟩

/-! ### `nesting_spec` applied to a sliced-and-stepped view of rank 3 (rank-2 and rank-3 nestings) -/

/-- storage 0 = `arange(24)` over the toy number type (1 = NaN, 2 = +Inf, 3 = -Inf) -/
def hJ : Heap Nat := [List.range 24]
/-- the `2×3×4` root over it: element `[i,j,k] = 12i + 4j + k` -/
def aJ : Arr := ⟨rootView [2, 3, 4] 0, 0, 0, 24, false⟩
/-- `aJ.slice([0,0,1],[2,2,2],[1,2,2])`: sliced AND stepped, rank 3: element `[i,j,k] = 12i + 8j + 1 + 2k` -/
def sJ : Arr := { aJ with v := ⟨[2, 3, 4], [2, 2, 2], 1, [12, 4, 1], [1, 2, 2], [12, 8, 2]⟩ }
theorem okJ : SliceOK aJ.v.dims [0, 0, 1] [2, 2, 2] (stepOr aJ.v.dims.length (some [1, 2, 2])) := by
  simp [aJ, rootView, stepOr, SliceOK]
theorem reach_aJ : Reach aJ.v := .root (dims := [2, 3, 4]) (by simp) (by simp [Pos]) rfl
theorem slice_sJ : slice aJ [0, 0, 1] [2, 2, 2] (some [1, 2, 2]) = .ok sJ := by decide
theorem reach_sJ : Reach sJ.v := .slice reach_aJ okJ rfl
theorem arrOK_aJ : ArrOK hJ aJ := ⟨⟨_, rfl, by decide⟩, by decide, by decide, by decide⟩
theorem arrOK_sJ : ArrOK hJ sJ := arrOK_aJ.slice slice_sJ

/-- **`nesting_spec` APPLIED to a rank-3 sliced-and-stepped view, shift dimension 1 (a rank-2 nesting)**: the result is
the `2×2` nesting of the elements `sJ[0, j, k]` = 1, 3, 9, 11 of the root, i.e. — in the toy number type — NaN, -Inf, 9,
11: rows nested like the dimensions, non-finite values as the strings. -/
example : jsonSafeArray hJ sJ 1 =
    .ok [.arr [.str "NaN", .str "-Inf"], .arr [.num 9, .num 11]] := by
  obtain ⟨g, hg, hj⟩ := nesting_spec (α := Nat) reach_sJ arrOK_sJ 1 (by decide)
  have e : ∀ j k : Int, (0 ≤ j ∧ j < 2) → (0 ≤ k ∧ k < 2) → Nd.get hJ sJ [0, j, k] = .ok (g [j, k]) := by
    intro j k hj hk
    exact hg [j, k] (by simp [sJ, InBounds]; omega)
  have val : ∀ (j k : Int) (x : Nat), (0 ≤ j ∧ j < 2) → (0 ≤ k ∧ k < 2) → Nd.get hJ sJ [0, j, k] = .ok x → g [j, k] = x := by
    intro j k x hj hk hx
    have := e j k hj hk
    rw [hx] at this
    exact (Except.ok.inj this).symm
  have g00 : g [0, 0] = 1 := val 0 0 1 (by decide) (by decide) (by decide)
  have g01 : g [0, 1] = 3 := val 0 1 3 (by decide) (by decide) (by decide)
  have g10 : g [1, 0] = 9 := val 1 0 9 (by decide) (by decide) (by decide)
  have g11 : g [1, 1] = 11 := val 1 1 11 (by decide) (by decide) (by decide)
  have hj' : jsonSafeArray hJ sJ 1 = .ok (nest [2, 2] g) := hj
  rw [hj', nest_rank2]
  simp [List.range, List.range.loop, g00, g01, g10, g11, jsonSafeValue, sprintNonFinite, isInf0, JNum.isNaN, JNum.isPosInf, JNum.isNegInf]

/-- **`nesting_spec` APPLIED to the same view with shift dimension 0 (a rank-3 nesting)**: two planes of two rows of two
values, `sJ[i,j,k] = 12i + 8j + 1 + 2k`. -/
example : jsonSafeArray hJ sJ 0 =
    .ok [.arr [.arr [.str "NaN", .str "-Inf"], .arr [.num 9, .num 11]],
         .arr [.arr [.num 13, .num 15], .arr [.num 21, .num 23]]] := by
  obtain ⟨g, hg, hj⟩ := nesting_spec (α := Nat) reach_sJ arrOK_sJ 0 (by decide)
  have val : ∀ (i j k : Int) (x : Nat), (0 ≤ i ∧ i < 2) → (0 ≤ j ∧ j < 2) → (0 ≤ k ∧ k < 2) →
      Nd.get hJ sJ [i, j, k] = .ok x → g [i, j, k] = x := by
    intro i j k x hi hj hk hx
    have := hg [i, j, k] (by simp [sJ, InBounds]; omega)
    simp only [uniform, List.replicate, List.nil_append] at this
    rw [hx] at this
    exact (Except.ok.inj this).symm
  have g000 : g [0, 0, 0] = 1 := val 0 0 0 1 (by decide) (by decide) (by decide) (by decide)
  have g001 : g [0, 0, 1] = 3 := val 0 0 1 3 (by decide) (by decide) (by decide) (by decide)
  have g010 : g [0, 1, 0] = 9 := val 0 1 0 9 (by decide) (by decide) (by decide) (by decide)
  have g011 : g [0, 1, 1] = 11 := val 0 1 1 11 (by decide) (by decide) (by decide) (by decide)
  have g100 : g [1, 0, 0] = 13 := val 1 0 0 13 (by decide) (by decide) (by decide) (by decide)
  have g101 : g [1, 0, 1] = 15 := val 1 0 1 15 (by decide) (by decide) (by decide) (by decide)
  have g110 : g [1, 1, 0] = 21 := val 1 1 0 21 (by decide) (by decide) (by decide) (by decide)
  have g111 : g [1, 1, 1] = 23 := val 1 1 1 23 (by decide) (by decide) (by decide) (by decide)
  have hj' : jsonSafeArray hJ sJ 0 = .ok (nest [2, 2, 2] g) := hj
  rw [hj']
  simp [nest, List.range, List.range.loop, g000, g001, g010, g011, g100, g101, g110, g111, jsonSafeValue,
    sprintNonFinite, isInf0, JNum.isNaN, JNum.isPosInf, JNum.isNegInf]

end Example

end
end OW.Props.C17
