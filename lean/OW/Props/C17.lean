import OW.Proofs.JsonNest
import OW.Proofs.JsonGlue
import OW.Proofs.JsonEncode
import OW.Proofs.NdC01Ops
/-!
C17 — the JSON single-model runner is equivalent to a direct run and always answers.

Only the property theorems (helper lemmas: `OW/Proofs/Json*.lean`). The model the theorems are about is
`OW/Sim/Json.lean` (`jsonSafeValue`, `jsonSafeArray` on the n-d array model; `respond` = `RunSingleModelJSON` after
`Decode`, with `Initialise` and `encodeResults`), tied to /repo/io/json/json.go, /repo/sim/single.go and the `ow-single`
binary by the differential correspondence families JSA and JSON. `α` is any number type with the float64 predicates of
`JNum` (the driver runs the model at `Float`). The model kernel is the abstract table `Kernel α`.
-/
namespace OW.Props.C17
open OW.Nd OW.Sim.Json

section
variable {α : Type} [JNum α]

/-! ## JSON-safe conversion -/

/-- `JsonSafeValue`: NaN, +Inf, -Inf become exactly the strings `NaN`, `+Inf`, `-Inf`; every other number is kept. -/
theorem jsonSafeValue_spec (x : α) :
    jsonSafeValue x =
      if JNum.isNaN x then .str "NaN"
      else if JNum.isPosInf x then .str "+Inf"
      else if JNum.isNegInf x then .str "-Inf"
      else .num x := by
  unfold jsonSafeValue sprintNonFinite isInf0
  cases JNum.isNaN x <;> cases JNum.isPosInf x <;> cases JNum.isNegInf x <;> simp

/-- **nesting_spec.** For every reachable view (root array or any chain of in-bounds, possibly stepped slices) held in
a storage that covers it, and every valid shift dimension `sd`, `JsonSafeArray(view, sd)` does not panic and returns
the nesting shaped like the extents from `sd` on (`nest`: one array level per extent, row-major order) of the
elements `view[0,…,0,i_sd,…,i_last]`, each passed through `JsonSafeValue` (non-finite → the three strings). -/
theorem nesting_spec {h : Heap α} {a : Arr} (hr : Reach a.v) (ok : ArrOK h a) (sd : Nat) (hsd : sd < a.v.dims.length) :
    ∃ g : Idx → α,
      (∀ tail, InBounds tail (a.v.dims.drop sd) → Nd.get h a (uniform sd 0 ++ tail) = .ok (g tail)) ∧
      jsonSafeArray h a (sd : Int) = .ok (nest (a.v.dims.drop sd) g) := by
  have geo := reach_geo hr
  let g : Idx → α := fun tail =>
    match Nd.get h a (uniform sd 0 ++ tail) with
    | .ok x => x
    | .error _ => JNum.zero
  have hg : ∀ tail, InBounds tail (a.v.dims.drop sd) → Nd.get h a (uniform sd 0 ++ tail) = .ok (g tail) := by
    intro tail hb
    obtain ⟨_, x, _, _, _, _, hx⟩ := get_eq hr ok (inBounds_pad sd a.v.dims tail geo.pos_dims hb (by omega))
    simp only [g, hx]
  refine ⟨g, hg, ?_⟩
  unfold jsonSafeArray
  exact jsonSafeArrayF_spec h (a.v.dims.length - sd - 1) a.v.ndims a sd g (Regular.of_geo geo)
    (by omega) (by simp only [View.ndims]; omega)
    (fun d hd => by have := geo.pos_dims d (List.mem_of_mem_drop hd); omega) hg

/-- `nest` of a rank-1 shape is the list of the converted elements; of a rank-2 shape the list of converted rows
(the JSON arrays are nested exactly like the dimensions). -/
theorem nest_rank1 (d : Int) (g : Idx → α) :
    nest [d] g = (List.range d.toNat).map fun (i : Nat) => jsonSafeValue (g [(i : Int)]) := rfl

theorem nest_rank2 (d e : Int) (g : Idx → α) :
    nest [d, e] g = (List.range d.toNat).map fun (i : Nat) =>
      JVal.arr ((List.range e.toNat).map fun (j : Nat) => jsonSafeValue (g [(i : Int), (j : Int)])) := rfl

/-- a shift dimension outside `[0, rank)` panics (index out of range in `Len`) -/
theorem shiftDim_out_of_range {h : Heap α} {a : Arr} (hne : a.v.dims ≠ []) (sd : Int)
    (hsd : sd < 0 ∨ (a.v.dims.length : Int) ≤ sd) : jsonSafeArray h a sd = .error "index-out-of-range" := by
  unfold jsonSafeArray
  obtain ⟨n, hn⟩ : ∃ n, a.v.ndims = n + 1 := by
    refine ⟨a.v.dims.length - 1, ?_⟩
    have : a.v.dims.length ≠ 0 := fun h0 => hne (List.length_eq_zero_iff.mp h0)
    simp only [View.ndims]; omega
  rw [hn]
  unfold jsonSafeArrayF
  have : lenI a.v sd = oob := by
    unfold lenI
    rcases hsd with h | h
    · rw [if_pos h]
    · rw [if_neg (by omega)]
      unfold View.len
      have : a.v.dims[sd.toNat]? = none := List.getElem?_eq_none (by omega)
      rw [this]
  simp only [this, bind, Except.bind, oob]

example : jsonSafeArray (α := α) [[JNum.zero, JNum.zero]] ⟨rootView [2] 0, 0, 0, 2, false⟩ 0 =
    .ok [jsonSafeValue JNum.zero, jsonSafeValue JNum.zero] := by
  simp [jsonSafeArray, jsonSafeArrayF, lenI, View.len, rootView, View.ndims, View.newIndex, uniform,
    Nd.get, View.index, View.indexAux, readAt, storeOf, offsetsT, bind, Except.bind, pure, Except.pure, List.range,
    List.range.loop]

/-! ## Initialise: defaults, zero inputs and the log -/

/-- **warnings_complete.** For a request naming a catalogued model whose supplied series all have `T` values (at least
one supplied) and whose `InitialiseStates` does not panic, `Initialise` returns
* the parameter column = named value, default otherwise (`effParams`),
* the input block = supplied series, `T` zeros otherwise (`effInputs`),
* the warnings = the empty first line (`make([]string, 1)`), then exactly one line per described parameter the request
  does not name (`<name> not found, using default=<%f>`), in description order, then exactly one line per described
  input it does not supply (`Missing input: <name>, using 0`), in description order — and nothing else. -/
theorem warnings_complete (cat : String → Option (ModelDesc α)) (K : Kernel α) (m : ParsedRequest α)
    (desc : ModelDesc α) (T : Nat)
    (hname : m.name ≠ "") (hcat : cat m.name = some desc)
    (hinit : K.init (effParams m.parameters desc.params) = .ok ())
    (hlen : LengthsAre m.inputs T desc.inputs) (hsome : ¬ NoneSupplied m.inputs desc.inputs) :
    initialise cat K m = .ok desc (effParams m.parameters desc.params) (effInputs m.inputs T desc.inputs)
      ([""] ++ paramWarnings m.parameters desc.params ++ inputWarnings m.inputs desc.inputs) := by
  have hall : (desc.inputs.all fun n => (findInput m.inputs n).isNone) = false := by
    by_contra hc
    apply hsome
    intro n hn
    have hc' : (desc.inputs.all fun n => (findInput m.inputs n).isNone) = true := by simpa using hc
    rw [List.all_eq_true] at hc'
    simpa using hc' n hn
  unfold initialise
  simp only [hname, if_false, hcat, paramLoop_spec, hinit, inputLoop_ok m.inputs T _ desc.inputs hlen, stateAfter,
    hall, Bool.false_eq_true, Nat.sub_self, List.replicate_zero, List.append_nil]

/-- the two line formats -/
theorem log_line_formats (p : ParamDesc α) (n : String) :
    paramLine p = p.name ++ " not found, using default=" ++ JNum.fmt6 p.default ∧
    inputLine n = "Missing input: " ++ n ++ ", using 0" := ⟨rfl, rfl⟩

/-- no usable input at all: `Initialise` returns the error `No inputs provided` (repaired code; the original
dereferenced nil after the response had been written) -/
theorem no_inputs_reported (cat : String → Option (ModelDesc α)) (K : Kernel α) (m : ParsedRequest α)
    (desc : ModelDesc α) (hname : m.name ≠ "") (hcat : cat m.name = some desc)
    (hinit : K.init (effParams m.parameters desc.params) = .ok ())
    (hnone : NoneSupplied m.inputs desc.inputs) :
    initialise cat K m = .err "No inputs provided" := by
  have hl : LengthsAre m.inputs 0 desc.inputs := by
    intro n hn vs hv; rw [hnone n hn] at hv; cases hv
  have hall : (desc.inputs.all fun n => (findInput m.inputs n).isNone) = true := by
    rw [List.all_eq_true]; intro n hn; simp [hnone n hn]
  unfold initialise
  simp only [hname, if_false, hcat, paramLoop_spec, hinit, inputLoop_ok m.inputs 0 _ desc.inputs hl, stateAfter,
    hall, if_true]

/-- supplied series of unequal lengths: `Initialise` returns an error (repaired code; the original panicked in `Apply`
for a longer later series and silently zero-padded a shorter one) -/
theorem unequal_inputs_reported (cat : String → Option (ModelDesc α)) (K : Kernel α) (m : ParsedRequest α)
    (desc : ModelDesc α) (hname : m.name ≠ "") (hcat : cat m.name = some desc)
    (hinit : K.init (effParams m.parameters desc.params) = .ok ())
    (hne : ¬ ∃ T, LengthsAre m.inputs T desc.inputs) :
    ∃ msg, initialise cat K m = .err msg := by
  have hpos : 0 < desc.inputs.length := by
    rcases Nat.eq_zero_or_pos desc.inputs.length with h0 | h
    · exact absurd ⟨0, by intro n hn; rw [List.length_eq_zero_iff.mp h0] at hn; simp at hn⟩ hne
    · exact h
  unfold initialise
  simp only [hname, if_false, hcat, paramLoop_spec, hinit]
  cases hl : inputLoop m.inputs desc.inputs.length desc.inputs 0
      { inputs := none, warnings := [""] ++ paramWarnings m.parameters desc.params } with
  | error msg => exact ⟨msg, rfl⟩
  | ok s => exact absurd (inputLoop_none_ok m.inputs _ hpos desc.inputs 0 _ s rfl hl) hne

/-! ## encodeResults and the whole runner -/

/-- one output / state row as JSON: the array of its values, each through `JsonSafeValue` -/
def rowJson (o : List α) : JVal α := .arr (o.map jsonSafeValue)

/-- the response document for a completed run: the log, the outputs (an object keyed by output name when split, else
the `[nOut][T]` nested array) and ALL final states (an object keyed by state name when split and the state row is as
wide as the list of names, else the plain array) -/
def resultDoc (logs : List String) (desc : ModelDesc α) (split : Bool) (outs : List (List α)) (states : List α) :
    JVal α :=
  document (some logs)
    (if split = true then .obj desc.outputs (outs.map rowJson) else .arr (outs.map rowJson))
    (if split = true ∧ states.length = desc.states.length then .obj desc.states (states.map jsonSafeValue)
     else .arr (states.map jsonSafeValue))

/-- a problem report: the log line(s), `Outputs` and `States` null -/
def problemDoc (logs : List String) : JVal α := document (some logs) .null .null

/-- **encode_spec.** `encodeResults` on the arrays of a completed run (outputs `1×nOut×T` holding the rectangular block
`outs`, states `1×W`) never panics and writes `resultDoc` — for every `nOut`, `T`, `W`, zero included. All the n-d array
plumbing (`MustReshape`, row `Slice`s, `JsonSafeArray`) is covered. -/
theorem encode_spec (logs : List String) (hl : logs ≠ []) (desc : ModelDesc α) (split : Bool) (T : Nat)
    (outs : List (List α)) (states : List α)
    (hrows : outs.length = desc.outputs.length) (hrect : ∀ o ∈ outs, o.length = T)
    (hno : desc.outputs.Nodup) (hns : desc.states.Nodup) :
    encodeResults (logged logs) (some (outs, states)) T desc split = .ok (resultDoc logs desc split outs states) := by
  have hlg : logged logs = some logs := by
    cases logs with
    | nil => exact absurd rfl hl
    | cons _ _ => rfl
  simp only [encodeResults, encodeOutputs_spec outs T desc.outputs split hrect hrows.symm hno,
    encodeStates_spec states desc.states split hns, bind, Except.bind, pure, Except.pure, hlg, resultDoc]
  rfl

/-- **respond_eq_direct.** For every request that names a catalogued model, supplies at least one of its inputs and
only series of one length `T`: the runner writes exactly one document and returns; the document's outputs and final
states are those of the DIRECT one-cell run (`K.run`) on the parameter column "named value, default otherwise"
(`effParams`) and the input block "supplied series, `T` zeros otherwise" (`effInputs`) — bit for bit, non-finite values as
the three strings, nested like the dimensions — and its log is the empty first line followed by exactly one line per
defaulted parameter and one per zero-filled input, in description order. Parameters and inputs may come in any order,
with duplicates (first wins) and unknown names (ignored); the `States` of the request are not used (as in the code).
Hypotheses on the kernel: it does not panic on this call and returns one row of `T` values per described output. -/
theorem respond_eq_direct (cat : String → Option (ModelDesc α)) (K : Kernel α) (split : Bool) (m : ParsedRequest α)
    (desc : ModelDesc α) (T : Nat) (outs : List (List α)) (states : List α)
    (hname : m.name ≠ "") (hcat : cat m.name = some desc)
    (hinit : K.init (effParams m.parameters desc.params) = .ok ())
    (hlen : LengthsAre m.inputs T desc.inputs) (hsome : ¬ NoneSupplied m.inputs desc.inputs)
    (hrun : K.run (effParams m.parameters desc.params) (effInputs m.inputs T desc.inputs) = .ok outs states)
    (hrows : outs.length = desc.outputs.length) (hrect : ∀ o ∈ outs, o.length = T)
    (hno : desc.outputs.Nodup) (hns : desc.states.Nodup) :
    respond cat K split (.inl m) =
      { written := [resultDoc ([""] ++ paramWarnings m.parameters desc.params ++ inputWarnings m.inputs desc.inputs)
                      desc split outs states],
        ending := .returned } := by
  have hT : ((effInputs m.inputs T desc.inputs).headD []).length = T := by
    cases hd : desc.inputs with
    | nil => exact absurd (fun n hn => by rw [hd] at hn; simp at hn) hsome
    | cons n ns =>
      simp only [effInputs, List.map_cons, List.headD_cons]
      exact effInput_length (hlen n (by rw [hd]; simp))
  unfold respond
  simp only [warnings_complete cat K m desc T hname hcat hinit hlen hsome, hT, hrun, finish]
  rw [encode_spec _ (by simp) desc split T outs states hrows hrect hno hns]

/-- what the kernel must not do for the runner to be able to answer: `InitialiseStates` and `Run` do not panic, and `Run`
fills one row per described output with one value per time step (true of every generated wrapper) -/
structure KernelOK (K : Kernel α) (desc : ModelDesc α) : Prop where
  init : ∀ p, K.init p = .ok ()
  run : ∀ p ins, ∃ outs states, K.run p ins = .ok outs states ∧ outs.length = desc.outputs.length ∧
    ∀ o ∈ outs, o.length = (ins.headD []).length
  outputs_nodup : desc.outputs.Nodup
  states_nodup : desc.states.Nodup

/-- **respond_total.** EVERY request — whatever the bytes decoded to, or the decoder's error — makes the (repaired)
runner write exactly one JSON document and return, provided the catalogued model's own code does not panic
(`KernelOK`): no crash state is reachable through the glue (no name, unknown model, no inputs, unequal lengths, missing
or superfluous or duplicated parameters and inputs, any series length including 0, any state-row width). -/
theorem respond_total (cat : String → Option (ModelDesc α)) (K : Kernel α) (split : Bool)
    (hK : ∀ name desc, cat name = some desc → KernelOK K desc) (req : ParsedRequest α ⊕ String) :
    ∃ doc, respond cat K split req = { written := [doc], ending := .returned } := by
  cases req with
  | inr msg => exact ⟨_, rfl⟩
  | inl m =>
    rcases initialise_cases cat K (fun name desc h => (hK name desc h).init) m with ⟨msg, hi⟩ | ⟨desc, params, inputs, warnings, hc, hw, hi⟩
    · exact ⟨problemDoc [msg], by simp only [respond, hi]; rfl⟩
    · obtain ⟨outs, states, hrun, hrows, hrect⟩ := (hK _ _ hc).run params inputs
      refine ⟨resultDoc warnings desc split outs states, ?_⟩
      simp only [respond, hi, hrun, finish]
      rw [encode_spec warnings hw desc split _ outs states hrows hrect (hK _ _ hc).outputs_nodup
        (hK _ _ hc).states_nodup]

/-- the problem reports of the glue, exactly: decoder error, no name, unknown model — one document with the message
as its only log line and null results -/
theorem problem_reports (cat : String → Option (ModelDesc α)) (K : Kernel α) (split : Bool) :
    (∀ msg, respond cat K split (.inr msg) = { written := [problemDoc [msg]], ending := .returned }) ∧
    (∀ m : ParsedRequest α, m.name = "" →
      respond cat K split (.inl m) = { written := [problemDoc ["No model name provided"]], ending := .returned }) ∧
    (∀ m : ParsedRequest α, m.name ≠ "" → cat m.name = none →
      respond cat K split (.inl m) =
        { written := [problemDoc ["Unknown model: " ++ m.name]], ending := .returned }) := by
  refine ⟨fun msg => rfl, ?_, ?_⟩
  · intro m hn
    simp [respond, initialise, hn, finish_problem, problemDoc]
  · intro m hn hc
    simp [respond, initialise, hn, hc, finish_problem, problemDoc]

/-- no usable input, or supplied series of unequal lengths (catalogued model, `InitialiseStates` does not panic): one
problem report, null results, the call returns -/
theorem input_problems_reported (cat : String → Option (ModelDesc α)) (K : Kernel α) (split : Bool)
    (m : ParsedRequest α) (desc : ModelDesc α) (hname : m.name ≠ "") (hcat : cat m.name = some desc)
    (hinit : K.init (effParams m.parameters desc.params) = .ok ()) :
    (NoneSupplied m.inputs desc.inputs →
      respond cat K split (.inl m) = { written := [problemDoc ["No inputs provided"]], ending := .returned }) ∧
    ((¬ ∃ T, LengthsAre m.inputs T desc.inputs) →
      ∃ msg, respond cat K split (.inl m) = { written := [problemDoc [msg]], ending := .returned }) := by
  constructor
  · intro hnone
    simp [respond, no_inputs_reported cat K m desc hname hcat hinit hnone, finish_problem, problemDoc]
  · intro hne
    obtain ⟨msg, hmsg⟩ := unequal_inputs_reported cat K m desc hname hcat hinit hne
    exact ⟨msg, by simp [respond, hmsg, finish_problem, problemDoc]⟩

/-- the crash states of the model are exactly the kernel's: a panic in `InitialiseStates` (calling goroutine: the
deferred `encodeResults` writes a document with a null log first), a panic of `Run` in the calling goroutine (document
with the warnings, null results), a panic in a goroutine started by `Run` (the process dies, nothing is written) -/
theorem kernel_crash_states (cat : String → Option (ModelDesc α)) (K : Kernel α) (split : Bool) (m : ParsedRequest α)
    (desc : ModelDesc α) (T : Nat) (hname : m.name ≠ "") (hcat : cat m.name = some desc)
    (hlen : LengthsAre m.inputs T desc.inputs) (hsome : ¬ NoneSupplied m.inputs desc.inputs) :
    (∀ cls, K.init (effParams m.parameters desc.params) = .error cls →
      respond cat K split (.inl m) = { written := [document none .null .null], ending := .panicked cls }) ∧
    (K.init (effParams m.parameters desc.params) = .ok () →
      (∀ cls, K.run (effParams m.parameters desc.params) (effInputs m.inputs T desc.inputs) = .died cls →
        respond cat K split (.inl m) = { written := [], ending := .died cls }) ∧
      (∀ cls, K.run (effParams m.parameters desc.params) (effInputs m.inputs T desc.inputs) = .panic cls →
        respond cat K split (.inl m) =
          { written := [problemDoc ([""] ++ paramWarnings m.parameters desc.params ++ inputWarnings m.inputs desc.inputs)],
            ending := .panicked cls })) := by
  constructor
  · intro cls hi
    simp [respond, initialise, hname, hcat, paramLoop_spec, hi, finish, encodeResults, logged]
  · intro hinit
    have hw := warnings_complete cat K m desc T hname hcat hinit hlen hsome
    constructor
    · intro cls hr
      simp only [respond, hw, hr]
    · intro cls hr
      simp only [respond, hw, hr, finish, encodeResults]
      simp [logged, problemDoc]

/-! ## non-vacuity -/

section Example
/-- a toy number type: 0 = zero, 1 = NaN, 2 = +Inf, 3 = -Inf, others finite -/
instance : JNum Nat where
  zero := 0
  isNaN x := x == 1
  isPosInf x := x == 2
  isNegInf x := x == 3
  fmt6 x := toString x ++ ".000000"

def toyDesc : ModelDesc Nat :=
  { params := [⟨"a", 7⟩, ⟨"b", 9⟩], inputs := ["rain", "pet"], states := ["s"], outputs := ["q", "e"] }

/-- a kernel that echoes: outputs = the two input rows, state = first parameter -/
def toyKernel : Kernel Nat :=
  { init := fun _ => .ok (), run := fun p ins => .ok ins [p.headD 0] }

def toyReq : ParsedRequest Nat :=
  { name := "Toy", inputs := [⟨"pet", some [1, 2, 3]⟩], states := [], parameters := [⟨"b", 5⟩, ⟨"zz", 1⟩] }

/-- the hypotheses of `respond_eq_direct` are satisfiable, and the response is what the statement says: default for `a`
logged, `rain` zero-filled and logged, NaN / +Inf / -Inf in the supplied series come back as the three strings -/
example : respond (fun n => if n = "Toy" then some toyDesc else none) toyKernel true (.inl toyReq) =
    { written := [document (some ["", "a not found, using default=7.000000", "Missing input: rain, using 0"])
        (.obj ["q", "e"] [.arr [.num 0, .num 0, .num 0], .arr [.str "NaN", .str "+Inf", .str "-Inf"]])
        (.obj ["s"] [.num 7])],
      ending := .returned } := by
  have h := respond_eq_direct (fun n => if n = "Toy" then some toyDesc else none) toyKernel true toyReq toyDesc 3
    [[0, 0, 0], [1, 2, 3]] [7] (by decide) rfl rfl
    (by intro n hn vs hv
        simp only [toyDesc, List.mem_cons, List.mem_nil_iff, or_false] at hn
        rcases hn with rfl | rfl
        · simp [toyReq, findInput] at hv
        · simp [toyReq, findInput] at hv; subst hv; rfl)
    (by intro hnone; have := hnone "pet" (by simp [toyDesc]); simp [toyReq, findInput] at this)
    (by rfl) rfl (by intro o ho; simp at ho; rcases ho with rfl | rfl <;> rfl) (by decide) (by decide)
  rw [h]
  rfl

/-- `KernelOK` is satisfiable (so `respond_total` is not vacuous): the echo kernel on a description with two inputs
and two outputs — for input blocks of two rows, which is what `Initialise` builds for it -/
def toyKernel2 : Kernel Nat :=
  { init := fun _ => .ok (),
    run := fun p ins => .ok [ins.headD [], List.replicate (ins.headD []).length 0] [p.headD 0] }

example : KernelOK toyKernel2 toyDesc :=
  ⟨fun _ => rfl, fun p ins => ⟨_, _, rfl, rfl, by intro o ho; simp at ho; rcases ho with rfl | rfl <;> simp⟩,
   by decide, by decide⟩

/-- … and a request with no inputs at all gets its single problem report -/
example : respond (fun n => if n = "Toy" then some toyDesc else none) toyKernel2 true
    (.inl { name := "Toy", inputs := [], states := [], parameters := [] }) =
    { written := [problemDoc ["No inputs provided"]], ending := .returned } := by
  rfl

end Example

end
end OW.Props.C17
