import OW.Props.C06
/-!
C14 — model results are a pure, causal function of parameters, states and inputs.

Purity: every kernel model `KModel.run` is a total Lean function of (parameter column, input series, state row):
there is no object or package state in the model, so "same arguments ⇒ same result" is reflexivity
(`run_deterministic`). That this describes the CODE is what the KHIST correspondence checks: every Run of a history
of real runs (same object again, fresh object, other models in between) must equal this history-free function.

Causality: outputs up to timestep `t` do not depend on inputs after `t` — for every kernel with `HotStart`
(C06), by `causal_of_hotStart`; instances below.
-/
namespace OW.Props.C14
open OW OW.Kernels

variable {α : Type} [Num α]

/-- Purity of the model: equal parameters, states and inputs give equal outputs and final states. -/
theorem run_deterministic (km : KModel α) (p p' : List α) (ins ins' : List (List α)) (st st' : List α)
    (hp : p = p') (hi : ins = ins') (hs : st = st') : km.run p ins st = km.run p' ins' st' := by
  subst hp; subst hi; subst hs; rfl

/-- Causality for Muskingum: truncating or changing the inputs after step `n₁` leaves the first `n₁` outflows unchanged. -/
theorem causal_Muskingum (p : List α) (a b : List (List α)) (st : List α) (n₁ n₂ : Nat) (o₁ o₂ : KOut α)
    (hl : a.length = b.length) (ha : AllLen n₁ a) (hb : AllLen n₂ b)
    (h₁ : (Muskingum.model (α := α)).run p a st = .ok o₁) (h₂ : (Muskingum.model (α := α)).run p b o₁.states = .ok o₂)
    (hout : AllLen n₁ o₁.outputs) (hlen : o₁.outputs.length = o₂.outputs.length) :
    ∃ o, (Muskingum.model (α := α)).run p (catSeries a b) st = .ok o ∧ o.outputs.map (·.take n₁) = o₁.outputs :=
  causal_of_hotStart _ C06.hotstart_Muskingum p a b st n₁ n₂ o₁ o₂ hl ha hb h₁ h₂ hout hlen

end OW.Props.C14
