import OW.Props.C06
import OW.Proofs.HotStartStateless
/-!
C14 — model results are a pure, causal function of parameters, states and inputs.

Purity: every kernel model `KModel.run` is a total Lean function of (parameter column, input series, state row):
there is no object or package state in the model, so "same arguments ⇒ same result" is reflexivity
(`run_deterministic` — congruence, a TRIVIAL theorem with no content about the code). That this describes the CODE is
NOT proved: it is decided by the KHIST correspondence (every Run of a history of real runs — same object again, fresh
object, other models in between — must equal this history-free function) and by the structural purity rule on the Go source.

Causality at the level of the N-cell wrapper `Run` (lifted through `C04.runCells_spec`): `OW/Props/C14Wrapper.lean`.

Causality: outputs up to timestep `t` do not depend on inputs after `t`. `causal_<M> : Causal M.model` for EVERY
catalogue model (41), proved directly from the loop structure, over any `Num α` (hence also for the `Float` instance):
whenever the run over a whole period and the run over its first `n₁` steps both succeed, the first `n₁` outputs of the
whole run are the outputs of the truncated run, whatever the later inputs are (`Causal.change`: two continuations of the
same first part agree on the first `n₁` outputs). Summary: `causal_catalogue`.

Stateless kernels also satisfy hot-start continuity trivially (`hotstart_<M>`, empty state row), except DateGenerator
(no state: every call starts again at the start date of its parameters). Summary for C06/C14: `hotstart_catalogue`.
-/
set_option linter.unusedSimpArgs false
set_option linter.unusedVariables false
namespace OW.Props.C14
open OW OW.Kernels OW.Proofs.Stateless

variable {α : Type} [Num α]

omit [Num α] in
/-- Purity of the model: equal parameters, states and inputs give equal outputs and final states.

**TRIVIAL — this is congruence of equality (`subst; rfl`), true of every Lean function; it has no content about the code and is NOT
what decides the purity half of C14.** It only records that `KModel.run` takes nothing but `(p, ins, st)`. That the real `Run` is
such a function (no package-level variable, cache, pool or object field survives between calls or leaks between cells) is DECIDED,
not proved: (a) by the KHIST history correspondence (every run of a history of real runs — same object again, fresh object,
other models / parameters in between — equals this history-free function) and the oracle "identical calls are bit-identical", and
(b) by the regenerated structural purity rule (`vlib/purity.py`, step `purity_step` of checks/C14.py: no function reachable
from a kernel assigns a package-level variable or calls a method of one). Neither is a Lean theorem about the Go code. -/
theorem run_deterministic (km : KModel α) (p p' : List α) (ins ins' : List (List α)) (st st' : List α)
    (hp : p = p') (hi : ins = ins') (hs : st = st') : km.run p ins st = km.run p' ins' st' := by
  subst hp; subst hi; subst hs; rfl

/-- Causality for Muskingum in the split form (corollary of hot-start continuity): if both parts of a split run succeed,
the whole run succeeds and its first `n₁` outflows are those of the first part. -/
theorem causal_Muskingum_of_hotStart (p : List α) (a b : List (List α)) (st : List α) (n₁ n₂ : Nat) (o₁ o₂ : KOut α)
    (hl : a.length = b.length) (ha : AllLen n₁ a) (hb : AllLen n₂ b)
    (h₁ : (Muskingum.model (α := α)).run p a st = .ok o₁) (h₂ : (Muskingum.model (α := α)).run p b o₁.states = .ok o₂)
    (hout : AllLen n₁ o₁.outputs) (hlen : o₁.outputs.length = o₂.outputs.length) :
    ∃ o, (Muskingum.model (α := α)).run p (catSeries a b) st = .ok o ∧ o.outputs.map (·.take n₁) = o₁.outputs :=
  causal_of_hotStart _ C06.hotstart_Muskingum p a b st n₁ n₂ o₁ o₂ hl ha hb h₁ h₂ hout hlen

/-! ## Hot-start continuity of the stateless kernels (empty state row) -/

/-- RunoffCoefficient: pointwise `coeff * rain`. -/
theorem hotstart_RunoffCoefficient : HotStart (Coeff.model (α := α)) := by
  intro p a b st n₁ n₂ o₁ o₂ hl ha hb h₁ h₂
  unfold Coeff.model at h₁ h₂ ⊢
  simp only at h₁ h₂ ⊢
  match p, a, st, h₁ with
  | [coeff], [a1], [], h₁ =>
    simp only [Except.ok.injEq] at h₁
    subst h₁
    match b, hl, h₂ with
    | [b1], _, h₂ =>
      simp only [Except.ok.injEq] at h₂
      subst h₂
      refine ⟨_, rfl, ?_, rfl⟩
      simp only [catSeries, List.zipWith_cons_cons, List.zipWith_nil_right, Coeff.run, List.map_append, List.length_append, zeros_add]

/-- ApplyScalingFactor: pointwise (or the all-zero early return). -/
theorem hotstart_ApplyScalingFactor : HotStart (Scaling.model (α := α)) := by
  intro p a b st n₁ n₂ o₁ o₂ hl ha hb h₁ h₂
  unfold Scaling.model Scaling.mk at h₁ h₂ ⊢
  simp only at h₁ h₂ ⊢
  match p, a, st, h₁ with
  | [scale], [a1], [], h₁ =>
    simp only [Except.ok.injEq] at h₁
    subst h₁
    match b, hl, h₂ with
    | [b1], _, h₂ =>
      simp only [Except.ok.injEq] at h₂
      subst h₂
      refine ⟨_, rfl, ?_, rfl⟩
      simp only [catSeries, List.zipWith_cons_cons, List.zipWith_nil_right, Scaling.mk, Scaling.run, List.map_append, List.length_append, zeros_add]
      split <;> simp only [catSeries, List.zipWith_cons_cons, List.zipWith_nil_right, Scaling.mk, Scaling.run, List.map_append, List.length_append, zeros_add]

/-- DeliveryRatio: the same kernel as ApplyScalingFactor. -/
theorem hotstart_DeliveryRatio : HotStart (Scaling.deliveryRatio (α := α)) := by
  intro p a b st n₁ n₂ o₁ o₂ hl ha hb h₁ h₂
  unfold Scaling.deliveryRatio Scaling.mk at h₁ h₂ ⊢
  simp only at h₁ h₂ ⊢
  match p, a, st, h₁ with
  | [scale], [a1], [], h₁ =>
    simp only [Except.ok.injEq] at h₁
    subst h₁
    match b, hl, h₂ with
    | [b1], _, h₂ =>
      simp only [Except.ok.injEq] at h₂
      subst h₂
      refine ⟨_, rfl, ?_, rfl⟩
      simp only [catSeries, List.zipWith_cons_cons, List.zipWith_nil_right, Scaling.mk, Scaling.run, List.map_append, List.length_append, zeros_add]
      split <;> simp only [catSeries, List.zipWith_cons_cons, List.zipWith_nil_right, Scaling.mk, Scaling.run, List.map_append, List.length_append, zeros_add]

/-- DepthToRate: pointwise (or the all-zero early return). -/
theorem hotstart_DepthToRate : HotStart (DepthToRate.model (α := α)) := by
  intro p a b st n₁ n₂ o₁ o₂ hl ha hb h₁ h₂
  unfold DepthToRate.model at h₁ h₂ ⊢
  simp only at h₁ h₂ ⊢
  match p, a, st, h₁ with
  | [deltaT, area], [a1], [], h₁ =>
    simp only [Except.ok.injEq] at h₁
    subst h₁
    match b, hl, h₂ with
    | [b1], _, h₂ =>
      simp only [Except.ok.injEq] at h₂
      subst h₂
      refine ⟨_, rfl, ?_, rfl⟩
      simp only [catSeries, List.zipWith_cons_cons, List.zipWith_nil_right, DepthToRate.run, List.map_append, List.length_append, zeros_add]
      split <;> simp only [catSeries, List.zipWith_cons_cons, List.zipWith_nil_right, DepthToRate.run, List.map_append, List.length_append, zeros_add]

/-- Input: copy. -/
theorem hotstart_Input : HotStart (InputNode.model (α := α)) := by
  intro p a b st n₁ n₂ o₁ o₂ hl ha hb h₁ h₂
  unfold InputNode.model at h₁ h₂ ⊢
  simp only at h₁ h₂ ⊢
  match p, a, st, h₁ with
  | [], [a1], [], h₁ =>
    simp only [Except.ok.injEq] at h₁
    subst h₁
    match b, hl, h₂ with
    | [b1], _, h₂ =>
      simp only [Except.ok.injEq] at h₂
      subst h₂
      refine ⟨_, rfl, ?_, rfl⟩
      simp only [catSeries, List.zipWith_cons_cons, List.zipWith_nil_right, InputNode.run, List.map_append, List.length_append, zeros_add]

/-- Sum: pointwise. -/
theorem hotstart_Sum : HotStart (Sum.model (α := α)) := by
  intro p a b st n₁ n₂ o₁ o₂ hl ha hb h₁ h₂
  unfold Sum.model at h₁ h₂ ⊢
  simp only at h₁ h₂ ⊢
  match p, a, st, h₁ with
  | [], [a1, a2], [], h₁ =>
    simp only [Except.ok.injEq] at h₁
    subst h₁
    match b, hl, h₂ with
    | [b1, b2], _, h₂ =>
      simp only [Except.ok.injEq] at h₂
      subst h₂
      have e1 : a1.length = a2.length := ha.eq (by simp) (by simp)
      refine ⟨_, rfl, ?_, rfl⟩
      simp only [catSeries, List.zipWith_cons_cons, List.zipWith_nil_right, Sum.run, zip_append_eq _ _ _ _ e1, List.map_append, List.length_append, zeros_add]

/-- Gate: pointwise. -/
theorem hotstart_Gate : HotStart (Gate.model (α := α)) := by
  intro p a b st n₁ n₂ o₁ o₂ hl ha hb h₁ h₂
  unfold Gate.model at h₁ h₂ ⊢
  simp only at h₁ h₂ ⊢
  match p, a, st, h₁ with
  | [], [a1, a2], [], h₁ =>
    simp only [Except.ok.injEq] at h₁
    subst h₁
    match b, hl, h₂ with
    | [b1, b2], _, h₂ =>
      simp only [Except.ok.injEq] at h₂
      subst h₂
      have e1 : a1.length = a2.length := ha.eq (by simp) (by simp)
      refine ⟨_, rfl, ?_, rfl⟩
      simp only [catSeries, List.zipWith_cons_cons, List.zipWith_nil_right, Gate.run, zip_append_eq _ _ _ _ e1, List.map_append, List.length_append, zeros_add]

/-- ComputeProportion: pointwise. -/
theorem hotstart_ComputeProportion : HotStart (ComputeProportion.model (α := α)) := by
  intro p a b st n₁ n₂ o₁ o₂ hl ha hb h₁ h₂
  unfold ComputeProportion.model at h₁ h₂ ⊢
  simp only at h₁ h₂ ⊢
  match p, a, st, h₁ with
  | [r], [a1, a2], [], h₁ =>
    simp only [Except.ok.injEq] at h₁
    subst h₁
    match b, hl, h₂ with
    | [b1, b2], _, h₂ =>
      simp only [Except.ok.injEq] at h₂
      subst h₂
      have e1 : a1.length = a2.length := ha.eq (by simp) (by simp)
      refine ⟨_, rfl, ?_, rfl⟩
      simp only [catSeries, List.zipWith_cons_cons, List.zipWith_nil_right, ComputeProportion.run, zip_append_eq _ _ _ _ e1, List.map_append, List.length_append, zeros_add]

/-- BaseflowFilter: the loop body is empty, both outputs stay zero. -/
theorem hotstart_BaseflowFilter : HotStart (BaseflowFilter.model (α := α)) := by
  intro p a b st n₁ n₂ o₁ o₂ hl ha hb h₁ h₂
  unfold BaseflowFilter.model at h₁ h₂ ⊢
  simp only at h₁ h₂ ⊢
  match p, a, st, h₁ with
  | [], [a1], [], h₁ =>
    simp only [Except.ok.injEq] at h₁
    subst h₁
    match b, hl, h₂ with
    | [b1], _, h₂ =>
      simp only [Except.ok.injEq] at h₂
      subst h₂
      refine ⟨_, rfl, ?_, rfl⟩
      simp only [catSeries, List.zipWith_cons_cons, List.zipWith_nil_right, BaseflowFilter.run, List.map_append, List.length_append, zeros_add]

/-- FixedPartition: pointwise. -/
theorem hotstart_FixedPartition : HotStart (FixedPartition.model (α := α)) := by
  intro p a b st n₁ n₂ o₁ o₂ hl ha hb h₁ h₂
  unfold FixedPartition.model at h₁ h₂ ⊢
  simp only at h₁ h₂ ⊢
  match p, a, st, h₁ with
  | [fraction], [a1], [], h₁ =>
    simp only [Except.ok.injEq] at h₁
    subst h₁
    match b, hl, h₂ with
    | [b1], _, h₂ =>
      simp only [Except.ok.injEq] at h₂
      subst h₂
      refine ⟨_, rfl, ?_, rfl⟩
      simp only [catSeries, List.zipWith_cons_cons, List.zipWith_nil_right, FixedPartition.run, List.map_append, List.length_append, zeros_add]

/-- VariablePartition: pointwise. -/
theorem hotstart_VariablePartition : HotStart (VariablePartition.model (α := α)) := by
  intro p a b st n₁ n₂ o₁ o₂ hl ha hb h₁ h₂
  unfold VariablePartition.model at h₁ h₂ ⊢
  simp only at h₁ h₂ ⊢
  match p, a, st, h₁ with
  | [], [a1, a2], [], h₁ =>
    simp only [Except.ok.injEq] at h₁
    subst h₁
    match b, hl, h₂ with
    | [b1, b2], _, h₂ =>
      simp only [Except.ok.injEq] at h₂
      subst h₂
      have e1 : a1.length = a2.length := ha.eq (by simp) (by simp)
      refine ⟨_, rfl, ?_, rfl⟩
      simp only [catSeries, List.zipWith_cons_cons, List.zipWith_nil_right, VariablePartition.run, zip_append_eq _ _ _ _ e1, List.map_append, List.length_append, zeros_add]

/-- PartitionDemand: pointwise. -/
theorem hotstart_PartitionDemand : HotStart (PartitionDemand.model (α := α)) := by
  intro p a b st n₁ n₂ o₁ o₂ hl ha hb h₁ h₂
  unfold PartitionDemand.model at h₁ h₂ ⊢
  simp only at h₁ h₂ ⊢
  match p, a, st, h₁ with
  | [], [a1, a2], [], h₁ =>
    simp only [Except.ok.injEq] at h₁
    subst h₁
    match b, hl, h₂ with
    | [b1, b2], _, h₂ =>
      simp only [Except.ok.injEq] at h₂
      subst h₂
      have e1 : a1.length = a2.length := ha.eq (by simp) (by simp)
      refine ⟨_, rfl, ?_, rfl⟩
      simp only [catSeries, List.zipWith_cons_cons, List.zipWith_nil_right, PartitionDemand.run, zip_append_eq _ _ _ _ e1, List.map_append, List.length_append, zeros_add]

/-- EmcDwc: pointwise (or the all-zero early return). -/
theorem hotstart_EmcDwc : HotStart (EmcDwc.model (α := α)) := by
  intro p a b st n₁ n₂ o₁ o₂ hl ha hb h₁ h₂
  unfold EmcDwc.model at h₁ h₂ ⊢
  simp only at h₁ h₂ ⊢
  match p, a, st, h₁ with
  | [emc, dwc], [a1, a2], [], h₁ =>
    simp only [Except.ok.injEq] at h₁
    subst h₁
    match b, hl, h₂ with
    | [b1, b2], _, h₂ =>
      simp only [Except.ok.injEq] at h₂
      subst h₂
      have e1 : a1.length = a2.length := ha.eq (by simp) (by simp)
      refine ⟨_, rfl, ?_, rfl⟩
      simp only [catSeries, List.zipWith_cons_cons, List.zipWith_nil_right, EmcDwc.run, zip_append_eq _ _ _ _ e1, List.map_append, List.length_append, zeros_add, ← List.replicate_append_replicate]
      split <;> simp only [catSeries, List.zipWith_cons_cons, List.zipWith_nil_right, EmcDwc.run, zip_append_eq _ _ _ _ e1, List.map_append, List.length_append, zeros_add, ← List.replicate_append_replicate]

/-- FixedConcentration: pointwise (or the all-zero early return). -/
theorem hotstart_FixedConcentration : HotStart (FixedConcentration.model (α := α)) := by
  intro p a b st n₁ n₂ o₁ o₂ hl ha hb h₁ h₂
  unfold FixedConcentration.model at h₁ h₂ ⊢
  simp only at h₁ h₂ ⊢
  match p, a, st, h₁ with
  | [conc], [a1], [], h₁ =>
    simp only [Except.ok.injEq] at h₁
    subst h₁
    match b, hl, h₂ with
    | [b1], _, h₂ =>
      simp only [Except.ok.injEq] at h₂
      subst h₂
      refine ⟨_, rfl, ?_, rfl⟩
      simp only [catSeries, List.zipWith_cons_cons, List.zipWith_nil_right, FixedConcentration.run, List.map_append, List.length_append, zeros_add]
      split <;> simp only [catSeries, List.zipWith_cons_cons, List.zipWith_nil_right, FixedConcentration.run, List.map_append, List.length_append, zeros_add]

/-- PassLoadIfFlow: pointwise (or the all-zero early return). -/
theorem hotstart_PassLoadIfFlow : HotStart (PassLoadIfFlow.model (α := α)) := by
  intro p a b st n₁ n₂ o₁ o₂ hl ha hb h₁ h₂
  unfold PassLoadIfFlow.model at h₁ h₂ ⊢
  simp only at h₁ h₂ ⊢
  match p, a, st, h₁ with
  | [sf], [a1, a2], [], h₁ =>
    simp only [Except.ok.injEq] at h₁
    subst h₁
    match b, hl, h₂ with
    | [b1, b2], _, h₂ =>
      simp only [Except.ok.injEq] at h₂
      subst h₂
      have e1 : a1.length = a2.length := ha.eq (by simp) (by simp)
      refine ⟨_, rfl, ?_, rfl⟩
      simp only [catSeries, List.zipWith_cons_cons, List.zipWith_nil_right, PassLoadIfFlow.run, zip_append_eq _ _ _ _ e1, List.map_append, List.length_append, zeros_add]
      split <;> simp only [catSeries, List.zipWith_cons_cons, List.zipWith_nil_right, PassLoadIfFlow.run, zip_append_eq _ _ _ _ e1, List.map_append, List.length_append, zeros_add]

/-- SednetDissolvedNutrientGeneration: pointwise. -/
theorem hotstart_SednetDissolvedNutrientGeneration : HotStart (DissolvedNutrients.model (α := α)) := by
  intro p a b st n₁ n₂ o₁ o₂ hl ha hb h₁ h₂
  unfold DissolvedNutrients.model at h₁ h₂ ⊢
  simp only at h₁ h₂ ⊢
  match p, a, st, h₁ with
  | [emc, dwc], [a1, a2], [], h₁ =>
    simp only [Except.ok.injEq] at h₁
    subst h₁
    match b, hl, h₂ with
    | [b1, b2], _, h₂ =>
      simp only [Except.ok.injEq] at h₂
      subst h₂
      have e1 : a1.length = a2.length := ha.eq (by simp) (by simp)
      refine ⟨_, rfl, ?_, rfl⟩
      simp only [catSeries, List.zipWith_cons_cons, List.zipWith_nil_right, DissolvedNutrients.run, zip_append_eq _ _ _ _ e1, List.map_append, List.length_append, zeros_add]

/-- SednetParticulateNutrientGeneration: pointwise. -/
theorem hotstart_SednetParticulateNutrientGeneration : HotStart (ParticulateNutrients.model (α := α)) := by
  intro p a b st n₁ n₂ o₁ o₂ hl ha hb h₁ h₂
  unfold ParticulateNutrients.model at h₁ h₂ ⊢
  simp only at h₁ h₂ ⊢
  match p, a, st, h₁ with
  | [area, nsc, hdr, ner, nssc, nerg, gdr, dwc, creams], [a1, a2, a3, a4, a5], [], h₁ =>
    simp only [Except.ok.injEq] at h₁
    subst h₁
    match b, hl, h₂ with
    | [b1, b2, b3, b4, b5], _, h₂ =>
      simp only [Except.ok.injEq] at h₂
      subst h₂
      have e1 : a1.length = a2.length := ha.eq (by simp) (by simp)
      have e2 : a1.length = a3.length := ha.eq (by simp) (by simp)
      have e3 : a1.length = a4.length := ha.eq (by simp) (by simp)
      have e4 : a1.length = a5.length := ha.eq (by simp) (by simp)
      refine ⟨_, rfl, ?_, rfl⟩
      simp only [catSeries, List.zipWith_cons_cons, List.zipWith_nil_right, ParticulateNutrients.run, zip5_append _ _ _ _ _ _ _ _ _ _ e1 e2 e3 e4, List.map_append, List.length_append, zeros_add]

/-- BankErosion: pointwise (the mean annual erosion is a function of the parameters only). -/
theorem hotstart_BankErosion : HotStart (BankErosion.model (α := α)) := by
  intro p a b st n₁ n₂ o₁ o₂ hl ha hb h₁ h₂
  unfold BankErosion.model at h₁ h₂ ⊢
  simp only at h₁ h₂ ⊢
  match p, a, st, h₁ with
  | [p1, p2, p3, p4, p5, p6, p7, p8, p9, p10, p11, p12, p13, p14], [a1, a2], [], h₁ =>
    simp only [Except.ok.injEq] at h₁
    subst h₁
    match b, hl, h₂ with
    | [b1, b2], _, h₂ =>
      simp only [Except.ok.injEq] at h₂
      subst h₂
      have e1 : a1.length = a2.length := ha.eq (by simp) (by simp)
      refine ⟨_, rfl, ?_, rfl⟩
      simp only [catSeries, List.zipWith_cons_cons, List.zipWith_nil_right, BankErosion.run, zip_append_eq _ _ _ _ e1, List.map_append, List.length_append, zeros_add]

/-- USLEFineSedimentGeneration: pointwise (day of year is an input series). -/
theorem hotstart_USLEFineSedimentGeneration : HotStart (UsleFine.model (α := α)) := by
  intro p a b st n₁ n₂ o₁ o₂ hl ha hb h₁ h₂
  unfold UsleFine.model at h₁ h₂ ⊢
  simp only at h₁ h₂ ⊢
  match p, a, st, h₁ with
  | [p1, p2, p3, p4, p5, p6, p7, p8, p9, p10, p11, p12, p13, p14, p15, p16, p17, p18], [a1, a2, a3, a4, a5, a6, a7], [], h₁ =>
    simp only [Except.ok.injEq] at h₁
    subst h₁
    match b, hl, h₂ with
    | [b1, b2, b3, b4, b5, b6, b7], _, h₂ =>
      simp only [Except.ok.injEq] at h₂
      subst h₂
      have e1 : a1.length = a2.length := ha.eq (by simp) (by simp)
      have e2 : a1.length = a3.length := ha.eq (by simp) (by simp)
      have e3 : a1.length = a4.length := ha.eq (by simp) (by simp)
      have e4 : a1.length = a5.length := ha.eq (by simp) (by simp)
      have e5 : a1.length = a6.length := ha.eq (by simp) (by simp)
      have e6 : a1.length = a7.length := ha.eq (by simp) (by simp)
      refine ⟨_, rfl, ?_, rfl⟩
      simp only [catSeries, List.zipWith_cons_cons, List.zipWith_nil_right, UsleFine.run, zip5_append _ _ _ _ _ _ _ _ _ _ e1 e2 e3 e4, zip_append_eq _ _ _ _ (e5.symm.trans e6), zip_append_eq _ _ _ _ ((zip5_length _ _ _ _ _ e1 e2 e3 e4).trans (e5.trans (zip_length_eq _ _ (e5.symm.trans e6)).symm)), List.map_append, List.length_append, zeros_add]

/-- DynamicSednetGully: pointwise. -/
theorem hotstart_DynamicSednetGully : HotStart (SednetGully.model (α := α)) := by
  intro p a b st n₁ n₂ o₁ o₂ hl ha hb h₁ h₂
  unfold SednetGully.model SednetGully.mk at h₁ h₂ ⊢
  simp only at h₁ h₂ ⊢
  match p, a, st, h₁ with
  | [yd, ge, area, af, supply, pf, mpf, ltrf, drpf, sf, sc, ts], [a1, a2, a3, a4], [], h₁ =>
    simp only [Except.ok.injEq] at h₁
    subst h₁
    match b, hl, h₂ with
    | [b1, b2, b3, b4], _, h₂ =>
      simp only [Except.ok.injEq] at h₂
      subst h₂
      have e1 : a1.length = a2.length := ha.eq (by simp) (by simp)
      have e2 : a1.length = a3.length := ha.eq (by simp) (by simp)
      have e3 : a1.length = a4.length := ha.eq (by simp) (by simp)
      refine ⟨_, rfl, ?_, rfl⟩
      simp only [catSeries, List.zipWith_cons_cons, List.zipWith_nil_right, SednetGully.mk, SednetGully.run, zip4_append _ _ _ _ _ _ _ _ e1 e2 e3, List.map_append, List.length_append, zeros_add]

/-- DynamicSednetGullyAlt: pointwise. -/
theorem hotstart_DynamicSednetGullyAlt : HotStart (SednetGully.modelAlt (α := α)) := by
  intro p a b st n₁ n₂ o₁ o₂ hl ha hb h₁ h₂
  unfold SednetGully.modelAlt SednetGully.mk at h₁ h₂ ⊢
  simp only at h₁ h₂ ⊢
  match p, a, st, h₁ with
  | [yd, ge, area, af, supply, pf, mpf, ltrf, drpf, sf, sc, ts], [a1, a2, a3, a4], [], h₁ =>
    simp only [Except.ok.injEq] at h₁
    subst h₁
    match b, hl, h₂ with
    | [b1, b2, b3, b4], _, h₂ =>
      simp only [Except.ok.injEq] at h₂
      subst h₂
      have e1 : a1.length = a2.length := ha.eq (by simp) (by simp)
      have e2 : a1.length = a3.length := ha.eq (by simp) (by simp)
      have e3 : a1.length = a4.length := ha.eq (by simp) (by simp)
      refine ⟨_, rfl, ?_, rfl⟩
      simp only [catSeries, List.zipWith_cons_cons, List.zipWith_nil_right, SednetGully.mk, SednetGully.run, zip4_append _ _ _ _ _ _ _ _ e1 e2 e3, List.map_append, List.length_append, zeros_add]

/-- ClimateVariables: pointwise. -/
theorem hotstart_ClimateVariables : HotStart (Climate.model (α := α)) := by
  intro p a b st n₁ n₂ o₁ o₂ hl ha hb h₁ h₂
  unfold Climate.model at h₁ h₂ ⊢
  simp only at h₁ h₂ ⊢
  match p, a, st, h₁ with
  | [elevation], [a1, a2], [], h₁ =>
    simp only [Except.ok.injEq] at h₁
    subst h₁
    match b, hl, h₂ with
    | [b1, b2], _, h₂ =>
      simp only [Except.ok.injEq] at h₂
      subst h₂
      have e1 : a1.length = a2.length := ha.eq (by simp) (by simp)
      refine ⟨_, rfl, ?_, rfl⟩
      simp only [catSeries, List.zipWith_cons_cons, List.zipWith_nil_right, Climate.run, zip_append_eq _ _ _ _ e1, List.map_append, List.length_append, zeros_add]

/-- RatingCurvePartition: pointwise table lookup; a panicking timestep stops the run (then the hypotheses fail). -/
theorem hotstart_RatingCurvePartition : HotStart (RatingCurvePartition.model (α := α)) := by
  intro p a b st n₁ n₂ o₁ o₂ hl ha hb h₁ h₂
  unfold RatingCurvePartition.model at h₁ h₂ ⊢
  simp only at h₁ h₂ ⊢
  cases hd : RatingCurvePartition.decode p with
  | none => rw [hd] at h₁; simp at h₁
  | some t =>
    obtain ⟨xs, ys⟩ := t
    rw [hd] at h₁ h₂
    match a, st, h₁ with
    | [a1], [], h₁ =>
      match b, hl, h₂ with
      | [b1], _, h₂ =>
        simp only [catSeries, List.zipWith_cons_cons, List.zipWith_nil_right] at h₁ h₂ ⊢
        cases hr1 : RatingCurvePartition.run xs ys a1 with
        | error e => rw [hr1] at h₁; simp at h₁
        | ok r1 =>
          rw [hr1] at h₁
          simp only [Except.ok.injEq] at h₁
          subst h₁
          simp only at h₂
          cases hr2 : RatingCurvePartition.run xs ys b1 with
          | error e => rw [hr2] at h₂; simp at h₂
          | ok r2 =>
            rw [hr2] at h₂
            simp only [Except.ok.injEq] at h₂
            subst h₂
            rw [ratingCurve_run_append xs ys a1 b1 r1 r2 hr1 hr2]
            refine ⟨_, rfl, ?_, rfl⟩
            simp only [catSeries, List.zipWith_cons_cons, List.zipWith_nil_right, List.map_append]
/-! ## Causality of every catalogue model -/

/-- Muskingum. -/
theorem causal_Muskingum : Causal (Muskingum.model (α := α)) := by
  intro p a b st n₁ n₂ o o₁ hl ha hb h h₁
  unfold Muskingum.model at h h₁
  simp only at h h₁
  match p, a, st, h₁ with
  | [k, x, dT], [a1, a2], [s, pi, po], h₁ =>
    simp only [Except.ok.injEq] at h₁
    subst h₁
    match b, hl, h with
    | [b1, b2], _, h =>
      simp only [catSeries, List.zipWith_cons_cons, List.zipWith_nil_right, Except.ok.injEq] at h
      subst h
      have e1 : a1.length = a2.length := ha.eq (by simp) (by simp)
      have hn : a1.length = n₁ := ha a1 (by simp)
      subst hn
      simp only [Muskingum.run, zip_append_eq _ _ _ _ e1, map_append_scan, scan_append_snd, List.map_append, List.map_cons, List.map_nil, List.length_append, zeros_add]
      simp only [Muskingum.run, zip_append_eq _ _ _ _ e1, map_append_scan, scan_append_snd, List.map_append, List.map_cons, List.map_nil, List.length_append, zeros_add, take_append_len, List.length_map, scan_length, zeros_length, List.length_replicate, zip_length_eq _ _ e1]

/-- LumpedConstituentRouting. -/
theorem causal_LumpedConstituentRouting : Causal (LumpedConstituent.model (α := α)) := by
  intro p a b st n₁ n₂ o o₁ hl ha hb h h₁
  unfold LumpedConstituent.model at h h₁
  simp only at h h₁
  match p, a, st, h₁ with
  | [_x, pi, dt], [a1, a2, a3, a4], [sm], h₁ =>
    simp only [Except.ok.injEq] at h₁
    subst h₁
    match b, hl, h with
    | [b1, b2, b3, b4], _, h =>
      simp only [catSeries, List.zipWith_cons_cons, List.zipWith_nil_right, Except.ok.injEq] at h
      subst h
      have e1 : a1.length = a2.length := ha.eq (by simp) (by simp)
      have e2 : a1.length = a3.length := ha.eq (by simp) (by simp)
      have e3 : a1.length = a4.length := ha.eq (by simp) (by simp)
      have hn : a1.length = n₁ := ha a1 (by simp)
      subst hn
      simp only [LumpedConstituent.run, zip4_append _ _ _ _ _ _ _ _ e1 e2 e3, map_append_scan, scan_append_snd, List.map_append, List.map_cons, List.map_nil, List.length_append, zeros_add]
      simp only [LumpedConstituent.run, zip4_append _ _ _ _ _ _ _ _ e1 e2 e3, map_append_scan, scan_append_snd, List.map_append, List.map_cons, List.map_nil, List.length_append, zeros_add, take_append_len, List.length_map, scan_length, zeros_length, List.length_replicate, zip4_length _ _ _ _ e1 e2 e3]

/-- ConstituentDecay. -/
theorem causal_ConstituentDecay : Causal (ConstituentDecay.model (α := α)) := by
  intro p a b st n₁ n₂ o o₁ hl ha hb h h₁
  unfold ConstituentDecay.model at h h₁
  simp only at h h₁
  match p, a, st, h₁ with
  | [_x, hlf, dt], [a1, a2, a3, a4, a5], [sm], h₁ =>
    simp only [Except.ok.injEq] at h₁
    subst h₁
    match b, hl, h with
    | [b1, b2, b3, b4, b5], _, h =>
      simp only [catSeries, List.zipWith_cons_cons, List.zipWith_nil_right, Except.ok.injEq] at h
      subst h
      have e1 : a1.length = a2.length := ha.eq (by simp) (by simp)
      have e2 : a1.length = a3.length := ha.eq (by simp) (by simp)
      have e3 : a1.length = a4.length := ha.eq (by simp) (by simp)
      have e4 : a1.length = a5.length := ha.eq (by simp) (by simp)
      have hn : a1.length = n₁ := ha a1 (by simp)
      subst hn
      simp only [ConstituentDecay.run, zip5_append _ _ _ _ _ _ _ _ _ _ e1 e2 e3 e4, map_append_scan, scan_append_snd, List.map_append, List.map_cons, List.map_nil, List.length_append, zeros_add]
      simp only [ConstituentDecay.run, zip5_append _ _ _ _ _ _ _ _ _ _ e1 e2 e3 e4, map_append_scan, scan_append_snd, List.map_append, List.map_cons, List.map_nil, List.length_append, zeros_add, take_append_len, List.length_map, scan_length, zeros_length, List.length_replicate, zip5_length _ _ _ _ _ e1 e2 e3 e4]

/-- StorageDissolvedDecay. -/
theorem causal_StorageDissolvedDecay : Causal (StorageDissolvedDecay.model (α := α)) := by
  intro p a b st n₁ n₂ o o₁ hl ha hb h h₁
  unfold StorageDissolvedDecay.model at h h₁
  simp only at h h₁
  match p, a, st, h₁ with
  | [dt, dsd, _ari, bff, mfrt], [a1, a2, a3, a4], [sm], h₁ =>
    simp only [Except.ok.injEq] at h₁
    subst h₁
    match b, hl, h with
    | [b1, b2, b3, b4], _, h =>
      simp only [catSeries, List.zipWith_cons_cons, List.zipWith_nil_right, Except.ok.injEq] at h
      subst h
      have e1 : a1.length = a2.length := ha.eq (by simp) (by simp)
      have e2 : a1.length = a3.length := ha.eq (by simp) (by simp)
      have e3 : a1.length = a4.length := ha.eq (by simp) (by simp)
      have hn : a1.length = n₁ := ha a1 (by simp)
      subst hn
      simp only [StorageDissolvedDecay.run, zip4_append _ _ _ _ _ _ _ _ e1 e2 e3, map_append_scan, scan_append_snd, List.map_append, List.map_cons, List.map_nil, List.length_append, zeros_add]
      simp only [StorageDissolvedDecay.run, zip4_append _ _ _ _ _ _ _ _ e1 e2 e3, map_append_scan, scan_append_snd, List.map_append, List.map_cons, List.map_nil, List.length_append, zeros_add, take_append_len, List.length_map, scan_length, zeros_length, List.length_replicate, zip4_length _ _ _ _ e1 e2 e3]

/-- StorageParticulateTrapping. -/
theorem causal_StorageParticulateTrapping : Causal (StorageParticulateTrapping.model (α := α)) := by
  intro p a b st n₁ n₂ o o₁ hl ha hb h h₁
  unfold StorageParticulateTrapping.model at h h₁
  simp only at h h₁
  match p, a, st, h₁ with
  | [dt, cap, len, sub, mul, ldf, ldp], [a1, a2, a3, a4], [sm], h₁ =>
    simp only [Except.ok.injEq] at h₁
    subst h₁
    match b, hl, h with
    | [b1, b2, b3, b4], _, h =>
      simp only [catSeries, List.zipWith_cons_cons, List.zipWith_nil_right, Except.ok.injEq] at h
      subst h
      have e1 : a1.length = a2.length := ha.eq (by simp) (by simp)
      have e2 : a1.length = a3.length := ha.eq (by simp) (by simp)
      have e3 : a1.length = a4.length := ha.eq (by simp) (by simp)
      have hn : a1.length = n₁ := ha a1 (by simp)
      subst hn
      simp only [StorageParticulateTrapping.run, zip4_append _ _ _ _ _ _ _ _ e1 e2 e3, map_append_scan, scan_append_snd, List.map_append, List.map_cons, List.map_nil, List.length_append, zeros_add]
      simp only [StorageParticulateTrapping.run, zip4_append _ _ _ _ _ _ _ _ e1 e2 e3, map_append_scan, scan_append_snd, List.map_append, List.map_cons, List.map_nil, List.length_append, zeros_add, take_append_len, List.length_map, scan_length, zeros_length, List.length_replicate, zip4_length _ _ _ _ e1 e2 e3]

/-- InstreamCoarseSediment. -/
theorem causal_InstreamCoarseSediment : Causal (InstreamCoarseSediment.model (α := α)) := by
  intro p a b st n₁ n₂ o o₁ hl ha hb h h₁
  unfold InstreamCoarseSediment.model at h h₁
  simp only at h h₁
  match p, a, st, h₁ with
  | [dt], [a1, a2, a3], [cs, sm], h₁ =>
    simp only [Except.ok.injEq] at h₁
    subst h₁
    match b, hl, h with
    | [b1, b2, b3], _, h =>
      simp only [catSeries, List.zipWith_cons_cons, List.zipWith_nil_right, Except.ok.injEq] at h
      subst h
      have e1 : a1.length = a2.length := ha.eq (by simp) (by simp)
      have e2 : a1.length = a3.length := ha.eq (by simp) (by simp)
      have hn : a1.length = n₁ := ha a1 (by simp)
      subst hn
      simp only [InstreamCoarseSediment.run, zip3_append _ _ _ _ _ _ e1 e2, map_append_scan, scan_append_snd, List.map_append, List.map_cons, List.map_nil, List.length_append, zeros_add]
      simp only [InstreamCoarseSediment.run, zip3_append _ _ _ _ _ _ e1 e2, map_append_scan, scan_append_snd, List.map_append, List.map_cons, List.map_nil, List.length_append, zeros_add, take_append_len, List.length_map, scan_length, zeros_length, List.length_replicate, zip3_length _ _ _ e1 e2]

/-- InstreamParticulateNutrient. -/
theorem causal_InstreamParticulateNutrient : Causal (InstreamParticulateNutrient.model (α := α)) := by
  intro p a b st n₁ n₂ o o₁ hl ha hb h h₁
  unfold InstreamParticulateNutrient.model at h h₁
  simp only at h h₁
  match p, a, st, h₁ with
  | [pnc, spf, dt], [a1, a2, a3, a4, a5, a6, a7, a8], [ism, csm], h₁ =>
    simp only [Except.ok.injEq] at h₁
    subst h₁
    match b, hl, h with
    | [b1, b2, b3, b4, b5, b6, b7, b8], _, h =>
      simp only [catSeries, List.zipWith_cons_cons, List.zipWith_nil_right, Except.ok.injEq] at h
      subst h
      have e1 : a1.length = a2.length := ha.eq (by simp) (by simp)
      have e2 : a1.length = a3.length := ha.eq (by simp) (by simp)
      have e3 : a1.length = a4.length := ha.eq (by simp) (by simp)
      have e4 : a1.length = a5.length := ha.eq (by simp) (by simp)
      have e5 : a1.length = a6.length := ha.eq (by simp) (by simp)
      have e6 : a1.length = a7.length := ha.eq (by simp) (by simp)
      have e7 : a1.length = a8.length := ha.eq (by simp) (by simp)
      have hn : a1.length = n₁ := ha a1 (by simp)
      subst hn
      simp only [InstreamParticulateNutrient.run, zipIn_append _ _ _ _ _ _ _ _ _ _ _ _ _ _ _ _ e1 e2 e3 e4 e5 e6 e7, map_append_scan, scan_append_snd, List.map_append, List.map_cons, List.map_nil, List.length_append, zeros_add]
      simp only [InstreamParticulateNutrient.run, zipIn_append _ _ _ _ _ _ _ _ _ _ _ _ _ _ _ _ e1 e2 e3 e4 e5 e6 e7, map_append_scan, scan_append_snd, List.map_append, List.map_cons, List.map_nil, List.length_append, zeros_add, take_append_len, List.length_map, scan_length, zeros_length, List.length_replicate, zipIn_length _ _ _ _ _ _ _ _ e1 e2 e3 e4 e5 e6 e7]

/-- InstreamFineSediment: both runs convert a negative initial channel store in the same way (same initial state row). -/
theorem causal_InstreamFineSediment : Causal (InstreamFineSediment.model (α := α)) := by
  intro p a b st n₁ n₂ o o₁ hl ha hb h h₁
  unfold InstreamFineSediment.model at h h₁
  simp only at h h₁
  match p, a, st, h₁ with
  | [bff, vfl, fpa, lw, ll, ls, bh, pbh, sbd, mn, vs, vr, dt], [a1, a2, a3, a4, a5], [csf, tsm], h₁ =>
    simp only [Except.ok.injEq] at h₁
    subst h₁
    match b, hl, h with
    | [b1, b2, b3, b4, b5], _, h =>
      simp only [catSeries, List.zipWith_cons_cons, List.zipWith_nil_right, Except.ok.injEq] at h
      subst h
      have e1 : a1.length = a2.length := ha.eq (by simp) (by simp)
      have e2 : a1.length = a3.length := ha.eq (by simp) (by simp)
      have e3 : a1.length = a4.length := ha.eq (by simp) (by simp)
      have e4 : a1.length = a5.length := ha.eq (by simp) (by simp)
      have hn : a1.length = n₁ := ha a1 (by simp)
      subst hn
      simp only [InstreamFineSediment.run, zip5_append _ _ _ _ _ _ _ _ _ _ e1 e2 e3 e4, map_append_scan, scan_append_snd, List.map_append, List.map_cons, List.map_nil, List.length_append, zeros_add]
      simp only [InstreamFineSediment.run, zip5_append _ _ _ _ _ _ _ _ _ _ e1 e2 e3 e4, map_append_scan, scan_append_snd, List.map_append, List.map_cons, List.map_nil, List.length_append, zeros_add, take_append_len, List.length_map, scan_length, zeros_length, List.length_replicate, zip5_length _ _ _ _ _ e1 e2 e3 e4]

/-- Simhyd. -/
theorem causal_Simhyd : Causal (Simhyd.model (α := α)) := by
  intro p a b st n₁ n₂ o o₁ hl ha hb h h₁
  unfold Simhyd.model at h h₁
  simp only at h h₁
  match p, a, st, h₁ with
  | [p1, p2, p3, p4, p5, p6, p7, p8, p9], [a1, a2], [s, gw, tot], h₁ =>
    simp only [Except.ok.injEq] at h₁
    subst h₁
    match b, hl, h with
    | [b1, b2], _, h =>
      simp only [catSeries, List.zipWith_cons_cons, List.zipWith_nil_right, Except.ok.injEq] at h
      subst h
      have e1 : a1.length = a2.length := ha.eq (by simp) (by simp)
      have hn : a1.length = n₁ := ha a1 (by simp)
      subst hn
      simp only [Simhyd.run, zip_append_eq _ _ _ _ e1, map_append_scan, scan_append_snd, List.map_append, List.map_cons, List.map_nil, List.length_append, zeros_add]
      simp only [Simhyd.run, zip_append_eq _ _ _ _ e1, map_append_scan, scan_append_snd, List.map_append, List.map_cons, List.map_nil, List.length_append, zeros_add, take_append_len, List.length_map, scan_length, zeros_length, List.length_replicate, zip_length_eq _ _ e1]

/-- Surm. -/
theorem causal_Surm : Causal (Surm.model (α := α)) := by
  intro p a b st n₁ n₂ o o₁ hl ha hb h h₁
  unfold Surm.model at h h₁
  simp only at h h₁
  match p, a, st, h₁ with
  | [p1, p2, p3, p4, p5, p6, p7, p8, p9], [a1, a2], [s, gw, tot], h₁ =>
    simp only [Except.ok.injEq] at h₁
    subst h₁
    match b, hl, h with
    | [b1, b2], _, h =>
      simp only [catSeries, List.zipWith_cons_cons, List.zipWith_nil_right, Except.ok.injEq] at h
      subst h
      have e1 : a1.length = a2.length := ha.eq (by simp) (by simp)
      have hn : a1.length = n₁ := ha a1 (by simp)
      subst hn
      simp only [Surm.run, zip_append_eq _ _ _ _ e1, map_append_scan, scan_append_snd, List.map_append, List.map_cons, List.map_nil, List.length_append, zeros_add]
      simp only [Surm.run, zip_append_eq _ _ _ _ e1, map_append_scan, scan_append_snd, List.map_append, List.map_cons, List.map_nil, List.length_append, zeros_add, take_append_len, List.length_map, scan_length, zeros_length, List.length_replicate, zip_length_eq _ _ e1]

/-- Sacramento: both runs start with an empty unit-hydrograph buffer (same call start), any unit hydrograph. -/
theorem causal_Sacramento : Causal (Sacramento.model (α := α)) := by
  intro p a b st n₁ n₂ o o₁ hl ha hb h h₁
  unfold Sacramento.model at h h₁
  simp only at h h₁
  match p, a, st, h₁ with
  | [lzpk, lzsk, uzk, uztwm, uzfwm, lztwm, lzfsm, lzfpm, pfree, rexp, zperc, side, ssout, pctim, adimp, sarva, rserv, uh1, uh2, uh3, uh4, uh5], [a1, a2], [s0, s1, s2, s3, s4, s5], h₁ =>
    simp only [Except.ok.injEq] at h₁
    subst h₁
    match b, hl, h with
    | [b1, b2], _, h =>
      simp only [catSeries, List.zipWith_cons_cons, List.zipWith_nil_right, Except.ok.injEq] at h
      subst h
      have e1 : a1.length = a2.length := ha.eq (by simp) (by simp)
      have hn : a1.length = n₁ := ha a1 (by simp)
      subst hn
      simp only [Sacramento.run, zip_append_eq _ _ _ _ e1, map_append_scan, scan_append_snd, List.map_append, List.map_cons, List.map_nil, List.length_append, zeros_add]
      simp only [Sacramento.run, zip_append_eq _ _ _ _ e1, map_append_scan, scan_append_snd, List.map_append, List.map_cons, List.map_nil, List.length_append, zeros_add, take_append_len, List.length_map, scan_length, zeros_length, List.length_replicate, zip_length_eq _ _ e1]

/-- RunoffCoefficient. -/
theorem causal_RunoffCoefficient : Causal (Coeff.model (α := α)) := by
  intro p a b st n₁ n₂ o o₁ hl ha hb h h₁
  unfold Coeff.model at h h₁
  simp only at h h₁
  match p, a, st, h₁ with
  | [coeff], [a1], [], h₁ =>
    simp only [Except.ok.injEq] at h₁
    subst h₁
    match b, hl, h with
    | [b1], _, h =>
      simp only [catSeries, List.zipWith_cons_cons, List.zipWith_nil_right, Except.ok.injEq] at h
      subst h
      have hn : a1.length = n₁ := ha a1 (by simp)
      subst hn
      simp only [Coeff.run, map_append_scan, scan_append_snd, List.map_append, List.map_cons, List.map_nil, List.length_append, zeros_add]
      simp only [Coeff.run, map_append_scan, scan_append_snd, List.map_append, List.map_cons, List.map_nil, List.length_append, zeros_add, take_append_len, List.length_map, scan_length, zeros_length, List.length_replicate]

/-- ApplyScalingFactor. -/
theorem causal_ApplyScalingFactor : Causal (Scaling.model (α := α)) := by
  intro p a b st n₁ n₂ o o₁ hl ha hb h h₁
  unfold Scaling.model Scaling.mk at h h₁
  simp only at h h₁
  match p, a, st, h₁ with
  | [scale], [a1], [], h₁ =>
    simp only [Except.ok.injEq] at h₁
    subst h₁
    match b, hl, h with
    | [b1], _, h =>
      simp only [catSeries, List.zipWith_cons_cons, List.zipWith_nil_right, Except.ok.injEq] at h
      subst h
      have hn : a1.length = n₁ := ha a1 (by simp)
      subst hn
      simp only [Scaling.mk, Scaling.run, map_append_scan, scan_append_snd, List.map_append, List.map_cons, List.map_nil, List.length_append, zeros_add]
      split <;> simp only [Scaling.mk, Scaling.run, map_append_scan, scan_append_snd, List.map_append, List.map_cons, List.map_nil, List.length_append, zeros_add, take_append_len, List.length_map, scan_length, zeros_length, List.length_replicate]

/-- DeliveryRatio. -/
theorem causal_DeliveryRatio : Causal (Scaling.deliveryRatio (α := α)) := by
  intro p a b st n₁ n₂ o o₁ hl ha hb h h₁
  unfold Scaling.deliveryRatio Scaling.mk at h h₁
  simp only at h h₁
  match p, a, st, h₁ with
  | [scale], [a1], [], h₁ =>
    simp only [Except.ok.injEq] at h₁
    subst h₁
    match b, hl, h with
    | [b1], _, h =>
      simp only [catSeries, List.zipWith_cons_cons, List.zipWith_nil_right, Except.ok.injEq] at h
      subst h
      have hn : a1.length = n₁ := ha a1 (by simp)
      subst hn
      simp only [Scaling.mk, Scaling.run, map_append_scan, scan_append_snd, List.map_append, List.map_cons, List.map_nil, List.length_append, zeros_add]
      split <;> simp only [Scaling.mk, Scaling.run, map_append_scan, scan_append_snd, List.map_append, List.map_cons, List.map_nil, List.length_append, zeros_add, take_append_len, List.length_map, scan_length, zeros_length, List.length_replicate]

/-- DepthToRate. -/
theorem causal_DepthToRate : Causal (DepthToRate.model (α := α)) := by
  intro p a b st n₁ n₂ o o₁ hl ha hb h h₁
  unfold DepthToRate.model at h h₁
  simp only at h h₁
  match p, a, st, h₁ with
  | [deltaT, area], [a1], [], h₁ =>
    simp only [Except.ok.injEq] at h₁
    subst h₁
    match b, hl, h with
    | [b1], _, h =>
      simp only [catSeries, List.zipWith_cons_cons, List.zipWith_nil_right, Except.ok.injEq] at h
      subst h
      have hn : a1.length = n₁ := ha a1 (by simp)
      subst hn
      simp only [DepthToRate.run, map_append_scan, scan_append_snd, List.map_append, List.map_cons, List.map_nil, List.length_append, zeros_add]
      split <;> simp only [DepthToRate.run, map_append_scan, scan_append_snd, List.map_append, List.map_cons, List.map_nil, List.length_append, zeros_add, take_append_len, List.length_map, scan_length, zeros_length, List.length_replicate]

/-- Input. -/
theorem causal_Input : Causal (InputNode.model (α := α)) := by
  intro p a b st n₁ n₂ o o₁ hl ha hb h h₁
  unfold InputNode.model at h h₁
  simp only at h h₁
  match p, a, st, h₁ with
  | [], [a1], [], h₁ =>
    simp only [Except.ok.injEq] at h₁
    subst h₁
    match b, hl, h with
    | [b1], _, h =>
      simp only [catSeries, List.zipWith_cons_cons, List.zipWith_nil_right, Except.ok.injEq] at h
      subst h
      have hn : a1.length = n₁ := ha a1 (by simp)
      subst hn
      simp only [InputNode.run, map_append_scan, scan_append_snd, List.map_append, List.map_cons, List.map_nil, List.length_append, zeros_add]
      simp only [InputNode.run, map_append_scan, scan_append_snd, List.map_append, List.map_cons, List.map_nil, List.length_append, zeros_add, take_append_len, List.length_map, scan_length, zeros_length, List.length_replicate]

/-- Sum. -/
theorem causal_Sum : Causal (Sum.model (α := α)) := by
  intro p a b st n₁ n₂ o o₁ hl ha hb h h₁
  unfold Sum.model at h h₁
  simp only at h h₁
  match p, a, st, h₁ with
  | [], [a1, a2], [], h₁ =>
    simp only [Except.ok.injEq] at h₁
    subst h₁
    match b, hl, h with
    | [b1, b2], _, h =>
      simp only [catSeries, List.zipWith_cons_cons, List.zipWith_nil_right, Except.ok.injEq] at h
      subst h
      have e1 : a1.length = a2.length := ha.eq (by simp) (by simp)
      have hn : a1.length = n₁ := ha a1 (by simp)
      subst hn
      simp only [Sum.run, zip_append_eq _ _ _ _ e1, map_append_scan, scan_append_snd, List.map_append, List.map_cons, List.map_nil, List.length_append, zeros_add]
      simp only [Sum.run, zip_append_eq _ _ _ _ e1, map_append_scan, scan_append_snd, List.map_append, List.map_cons, List.map_nil, List.length_append, zeros_add, take_append_len, List.length_map, scan_length, zeros_length, List.length_replicate, zip_length_eq _ _ e1]

/-- Gate. -/
theorem causal_Gate : Causal (Gate.model (α := α)) := by
  intro p a b st n₁ n₂ o o₁ hl ha hb h h₁
  unfold Gate.model at h h₁
  simp only at h h₁
  match p, a, st, h₁ with
  | [], [a1, a2], [], h₁ =>
    simp only [Except.ok.injEq] at h₁
    subst h₁
    match b, hl, h with
    | [b1, b2], _, h =>
      simp only [catSeries, List.zipWith_cons_cons, List.zipWith_nil_right, Except.ok.injEq] at h
      subst h
      have e1 : a1.length = a2.length := ha.eq (by simp) (by simp)
      have hn : a1.length = n₁ := ha a1 (by simp)
      subst hn
      simp only [Gate.run, zip_append_eq _ _ _ _ e1, map_append_scan, scan_append_snd, List.map_append, List.map_cons, List.map_nil, List.length_append, zeros_add]
      simp only [Gate.run, zip_append_eq _ _ _ _ e1, map_append_scan, scan_append_snd, List.map_append, List.map_cons, List.map_nil, List.length_append, zeros_add, take_append_len, List.length_map, scan_length, zeros_length, List.length_replicate, zip_length_eq _ _ e1]

/-- ComputeProportion. -/
theorem causal_ComputeProportion : Causal (ComputeProportion.model (α := α)) := by
  intro p a b st n₁ n₂ o o₁ hl ha hb h h₁
  unfold ComputeProportion.model at h h₁
  simp only at h h₁
  match p, a, st, h₁ with
  | [r], [a1, a2], [], h₁ =>
    simp only [Except.ok.injEq] at h₁
    subst h₁
    match b, hl, h with
    | [b1, b2], _, h =>
      simp only [catSeries, List.zipWith_cons_cons, List.zipWith_nil_right, Except.ok.injEq] at h
      subst h
      have e1 : a1.length = a2.length := ha.eq (by simp) (by simp)
      have hn : a1.length = n₁ := ha a1 (by simp)
      subst hn
      simp only [ComputeProportion.run, zip_append_eq _ _ _ _ e1, map_append_scan, scan_append_snd, List.map_append, List.map_cons, List.map_nil, List.length_append, zeros_add]
      simp only [ComputeProportion.run, zip_append_eq _ _ _ _ e1, map_append_scan, scan_append_snd, List.map_append, List.map_cons, List.map_nil, List.length_append, zeros_add, take_append_len, List.length_map, scan_length, zeros_length, List.length_replicate, zip_length_eq _ _ e1]

/-- BaseflowFilter. -/
theorem causal_BaseflowFilter : Causal (BaseflowFilter.model (α := α)) := by
  intro p a b st n₁ n₂ o o₁ hl ha hb h h₁
  unfold BaseflowFilter.model at h h₁
  simp only at h h₁
  match p, a, st, h₁ with
  | [], [a1], [], h₁ =>
    simp only [Except.ok.injEq] at h₁
    subst h₁
    match b, hl, h with
    | [b1], _, h =>
      simp only [catSeries, List.zipWith_cons_cons, List.zipWith_nil_right, Except.ok.injEq] at h
      subst h
      have hn : a1.length = n₁ := ha a1 (by simp)
      subst hn
      simp only [BaseflowFilter.run, map_append_scan, scan_append_snd, List.map_append, List.map_cons, List.map_nil, List.length_append, zeros_add]
      simp only [BaseflowFilter.run, map_append_scan, scan_append_snd, List.map_append, List.map_cons, List.map_nil, List.length_append, zeros_add, take_append_len, List.length_map, scan_length, zeros_length, List.length_replicate]

/-- FixedPartition. -/
theorem causal_FixedPartition : Causal (FixedPartition.model (α := α)) := by
  intro p a b st n₁ n₂ o o₁ hl ha hb h h₁
  unfold FixedPartition.model at h h₁
  simp only at h h₁
  match p, a, st, h₁ with
  | [fraction], [a1], [], h₁ =>
    simp only [Except.ok.injEq] at h₁
    subst h₁
    match b, hl, h with
    | [b1], _, h =>
      simp only [catSeries, List.zipWith_cons_cons, List.zipWith_nil_right, Except.ok.injEq] at h
      subst h
      have hn : a1.length = n₁ := ha a1 (by simp)
      subst hn
      simp only [FixedPartition.run, map_append_scan, scan_append_snd, List.map_append, List.map_cons, List.map_nil, List.length_append, zeros_add]
      simp only [FixedPartition.run, map_append_scan, scan_append_snd, List.map_append, List.map_cons, List.map_nil, List.length_append, zeros_add, take_append_len, List.length_map, scan_length, zeros_length, List.length_replicate]

/-- VariablePartition. -/
theorem causal_VariablePartition : Causal (VariablePartition.model (α := α)) := by
  intro p a b st n₁ n₂ o o₁ hl ha hb h h₁
  unfold VariablePartition.model at h h₁
  simp only at h h₁
  match p, a, st, h₁ with
  | [], [a1, a2], [], h₁ =>
    simp only [Except.ok.injEq] at h₁
    subst h₁
    match b, hl, h with
    | [b1, b2], _, h =>
      simp only [catSeries, List.zipWith_cons_cons, List.zipWith_nil_right, Except.ok.injEq] at h
      subst h
      have e1 : a1.length = a2.length := ha.eq (by simp) (by simp)
      have hn : a1.length = n₁ := ha a1 (by simp)
      subst hn
      simp only [VariablePartition.run, zip_append_eq _ _ _ _ e1, map_append_scan, scan_append_snd, List.map_append, List.map_cons, List.map_nil, List.length_append, zeros_add]
      simp only [VariablePartition.run, zip_append_eq _ _ _ _ e1, map_append_scan, scan_append_snd, List.map_append, List.map_cons, List.map_nil, List.length_append, zeros_add, take_append_len, List.length_map, scan_length, zeros_length, List.length_replicate, zip_length_eq _ _ e1]

/-- PartitionDemand. -/
theorem causal_PartitionDemand : Causal (PartitionDemand.model (α := α)) := by
  intro p a b st n₁ n₂ o o₁ hl ha hb h h₁
  unfold PartitionDemand.model at h h₁
  simp only at h h₁
  match p, a, st, h₁ with
  | [], [a1, a2], [], h₁ =>
    simp only [Except.ok.injEq] at h₁
    subst h₁
    match b, hl, h with
    | [b1, b2], _, h =>
      simp only [catSeries, List.zipWith_cons_cons, List.zipWith_nil_right, Except.ok.injEq] at h
      subst h
      have e1 : a1.length = a2.length := ha.eq (by simp) (by simp)
      have hn : a1.length = n₁ := ha a1 (by simp)
      subst hn
      simp only [PartitionDemand.run, zip_append_eq _ _ _ _ e1, map_append_scan, scan_append_snd, List.map_append, List.map_cons, List.map_nil, List.length_append, zeros_add]
      simp only [PartitionDemand.run, zip_append_eq _ _ _ _ e1, map_append_scan, scan_append_snd, List.map_append, List.map_cons, List.map_nil, List.length_append, zeros_add, take_append_len, List.length_map, scan_length, zeros_length, List.length_replicate, zip_length_eq _ _ e1]

/-- EmcDwc. -/
theorem causal_EmcDwc : Causal (EmcDwc.model (α := α)) := by
  intro p a b st n₁ n₂ o o₁ hl ha hb h h₁
  unfold EmcDwc.model at h h₁
  simp only at h h₁
  match p, a, st, h₁ with
  | [emc, dwc], [a1, a2], [], h₁ =>
    simp only [Except.ok.injEq] at h₁
    subst h₁
    match b, hl, h with
    | [b1, b2], _, h =>
      simp only [catSeries, List.zipWith_cons_cons, List.zipWith_nil_right, Except.ok.injEq] at h
      subst h
      have e1 : a1.length = a2.length := ha.eq (by simp) (by simp)
      have hn : a1.length = n₁ := ha a1 (by simp)
      subst hn
      simp only [EmcDwc.run, zip_append_eq _ _ _ _ e1, map_append_scan, scan_append_snd, List.map_append, List.map_cons, List.map_nil, List.length_append, zeros_add, ← List.replicate_append_replicate]
      split <;> simp only [EmcDwc.run, zip_append_eq _ _ _ _ e1, map_append_scan, scan_append_snd, List.map_append, List.map_cons, List.map_nil, List.length_append, zeros_add, ← List.replicate_append_replicate, take_append_len, List.length_map, scan_length, zeros_length, List.length_replicate, zip_length_eq _ _ e1]

/-- FixedConcentration. -/
theorem causal_FixedConcentration : Causal (FixedConcentration.model (α := α)) := by
  intro p a b st n₁ n₂ o o₁ hl ha hb h h₁
  unfold FixedConcentration.model at h h₁
  simp only at h h₁
  match p, a, st, h₁ with
  | [conc], [a1], [], h₁ =>
    simp only [Except.ok.injEq] at h₁
    subst h₁
    match b, hl, h with
    | [b1], _, h =>
      simp only [catSeries, List.zipWith_cons_cons, List.zipWith_nil_right, Except.ok.injEq] at h
      subst h
      have hn : a1.length = n₁ := ha a1 (by simp)
      subst hn
      simp only [FixedConcentration.run, map_append_scan, scan_append_snd, List.map_append, List.map_cons, List.map_nil, List.length_append, zeros_add]
      split <;> simp only [FixedConcentration.run, map_append_scan, scan_append_snd, List.map_append, List.map_cons, List.map_nil, List.length_append, zeros_add, take_append_len, List.length_map, scan_length, zeros_length, List.length_replicate]

/-- PassLoadIfFlow. -/
theorem causal_PassLoadIfFlow : Causal (PassLoadIfFlow.model (α := α)) := by
  intro p a b st n₁ n₂ o o₁ hl ha hb h h₁
  unfold PassLoadIfFlow.model at h h₁
  simp only at h h₁
  match p, a, st, h₁ with
  | [sf], [a1, a2], [], h₁ =>
    simp only [Except.ok.injEq] at h₁
    subst h₁
    match b, hl, h with
    | [b1, b2], _, h =>
      simp only [catSeries, List.zipWith_cons_cons, List.zipWith_nil_right, Except.ok.injEq] at h
      subst h
      have e1 : a1.length = a2.length := ha.eq (by simp) (by simp)
      have hn : a1.length = n₁ := ha a1 (by simp)
      subst hn
      simp only [PassLoadIfFlow.run, zip_append_eq _ _ _ _ e1, map_append_scan, scan_append_snd, List.map_append, List.map_cons, List.map_nil, List.length_append, zeros_add]
      split <;> simp only [PassLoadIfFlow.run, zip_append_eq _ _ _ _ e1, map_append_scan, scan_append_snd, List.map_append, List.map_cons, List.map_nil, List.length_append, zeros_add, take_append_len, List.length_map, scan_length, zeros_length, List.length_replicate, zip_length_eq _ _ e1]

/-- SednetDissolvedNutrientGeneration. -/
theorem causal_SednetDissolvedNutrientGeneration : Causal (DissolvedNutrients.model (α := α)) := by
  intro p a b st n₁ n₂ o o₁ hl ha hb h h₁
  unfold DissolvedNutrients.model at h h₁
  simp only at h h₁
  match p, a, st, h₁ with
  | [emc, dwc], [a1, a2], [], h₁ =>
    simp only [Except.ok.injEq] at h₁
    subst h₁
    match b, hl, h with
    | [b1, b2], _, h =>
      simp only [catSeries, List.zipWith_cons_cons, List.zipWith_nil_right, Except.ok.injEq] at h
      subst h
      have e1 : a1.length = a2.length := ha.eq (by simp) (by simp)
      have hn : a1.length = n₁ := ha a1 (by simp)
      subst hn
      simp only [DissolvedNutrients.run, zip_append_eq _ _ _ _ e1, map_append_scan, scan_append_snd, List.map_append, List.map_cons, List.map_nil, List.length_append, zeros_add]
      simp only [DissolvedNutrients.run, zip_append_eq _ _ _ _ e1, map_append_scan, scan_append_snd, List.map_append, List.map_cons, List.map_nil, List.length_append, zeros_add, take_append_len, List.length_map, scan_length, zeros_length, List.length_replicate, zip_length_eq _ _ e1]

/-- SednetParticulateNutrientGeneration. -/
theorem causal_SednetParticulateNutrientGeneration : Causal (ParticulateNutrients.model (α := α)) := by
  intro p a b st n₁ n₂ o o₁ hl ha hb h h₁
  unfold ParticulateNutrients.model at h h₁
  simp only at h h₁
  match p, a, st, h₁ with
  | [area, nsc, hdr, ner, nssc, nerg, gdr, dwc, creams], [a1, a2, a3, a4, a5], [], h₁ =>
    simp only [Except.ok.injEq] at h₁
    subst h₁
    match b, hl, h with
    | [b1, b2, b3, b4, b5], _, h =>
      simp only [catSeries, List.zipWith_cons_cons, List.zipWith_nil_right, Except.ok.injEq] at h
      subst h
      have e1 : a1.length = a2.length := ha.eq (by simp) (by simp)
      have e2 : a1.length = a3.length := ha.eq (by simp) (by simp)
      have e3 : a1.length = a4.length := ha.eq (by simp) (by simp)
      have e4 : a1.length = a5.length := ha.eq (by simp) (by simp)
      have hn : a1.length = n₁ := ha a1 (by simp)
      subst hn
      simp only [ParticulateNutrients.run, zip5_append _ _ _ _ _ _ _ _ _ _ e1 e2 e3 e4, map_append_scan, scan_append_snd, List.map_append, List.map_cons, List.map_nil, List.length_append, zeros_add]
      simp only [ParticulateNutrients.run, zip5_append _ _ _ _ _ _ _ _ _ _ e1 e2 e3 e4, map_append_scan, scan_append_snd, List.map_append, List.map_cons, List.map_nil, List.length_append, zeros_add, take_append_len, List.length_map, scan_length, zeros_length, List.length_replicate, zip5_length _ _ _ _ _ e1 e2 e3 e4]

/-- BankErosion. -/
theorem causal_BankErosion : Causal (BankErosion.model (α := α)) := by
  intro p a b st n₁ n₂ o o₁ hl ha hb h h₁
  unfold BankErosion.model at h h₁
  simp only at h h₁
  match p, a, st, h₁ with
  | [p1, p2, p3, p4, p5, p6, p7, p8, p9, p10, p11, p12, p13, p14], [a1, a2], [], h₁ =>
    simp only [Except.ok.injEq] at h₁
    subst h₁
    match b, hl, h with
    | [b1, b2], _, h =>
      simp only [catSeries, List.zipWith_cons_cons, List.zipWith_nil_right, Except.ok.injEq] at h
      subst h
      have e1 : a1.length = a2.length := ha.eq (by simp) (by simp)
      have hn : a1.length = n₁ := ha a1 (by simp)
      subst hn
      simp only [BankErosion.run, zip_append_eq _ _ _ _ e1, map_append_scan, scan_append_snd, List.map_append, List.map_cons, List.map_nil, List.length_append, zeros_add]
      simp only [BankErosion.run, zip_append_eq _ _ _ _ e1, map_append_scan, scan_append_snd, List.map_append, List.map_cons, List.map_nil, List.length_append, zeros_add, take_append_len, List.length_map, scan_length, zeros_length, List.length_replicate, zip_length_eq _ _ e1]

/-- USLEFineSedimentGeneration. -/
theorem causal_USLEFineSedimentGeneration : Causal (UsleFine.model (α := α)) := by
  intro p a b st n₁ n₂ o o₁ hl ha hb h h₁
  unfold UsleFine.model at h h₁
  simp only at h h₁
  match p, a, st, h₁ with
  | [p1, p2, p3, p4, p5, p6, p7, p8, p9, p10, p11, p12, p13, p14, p15, p16, p17, p18], [a1, a2, a3, a4, a5, a6, a7], [], h₁ =>
    simp only [Except.ok.injEq] at h₁
    subst h₁
    match b, hl, h with
    | [b1, b2, b3, b4, b5, b6, b7], _, h =>
      simp only [catSeries, List.zipWith_cons_cons, List.zipWith_nil_right, Except.ok.injEq] at h
      subst h
      have e1 : a1.length = a2.length := ha.eq (by simp) (by simp)
      have e2 : a1.length = a3.length := ha.eq (by simp) (by simp)
      have e3 : a1.length = a4.length := ha.eq (by simp) (by simp)
      have e4 : a1.length = a5.length := ha.eq (by simp) (by simp)
      have e5 : a1.length = a6.length := ha.eq (by simp) (by simp)
      have e6 : a1.length = a7.length := ha.eq (by simp) (by simp)
      have hn : a1.length = n₁ := ha a1 (by simp)
      subst hn
      simp only [UsleFine.run, zip5_append _ _ _ _ _ _ _ _ _ _ e1 e2 e3 e4, zip_append_eq _ _ _ _ (e5.symm.trans e6), zip_append_eq _ _ _ _ ((zip5_length _ _ _ _ _ e1 e2 e3 e4).trans (e5.trans (zip_length_eq _ _ (e5.symm.trans e6)).symm)), map_append_scan, scan_append_snd, List.map_append, List.map_cons, List.map_nil, List.length_append, zeros_add]
      simp only [UsleFine.run, zip5_append _ _ _ _ _ _ _ _ _ _ e1 e2 e3 e4, zip_append_eq _ _ _ _ (e5.symm.trans e6), zip_append_eq _ _ _ _ ((zip5_length _ _ _ _ _ e1 e2 e3 e4).trans (e5.trans (zip_length_eq _ _ (e5.symm.trans e6)).symm)), map_append_scan, scan_append_snd, List.map_append, List.map_cons, List.map_nil, List.length_append, zeros_add, take_append_len, List.length_map, scan_length, zeros_length, List.length_replicate, List.length_zip, zip5_length _ _ _ _ _ e1 e2 e3 e4, zip_length_eq _ _ (e5.symm.trans e6), ← e5, Nat.min_self]

/-- DynamicSednetGully. -/
theorem causal_DynamicSednetGully : Causal (SednetGully.model (α := α)) := by
  intro p a b st n₁ n₂ o o₁ hl ha hb h h₁
  unfold SednetGully.model SednetGully.mk at h h₁
  simp only at h h₁
  match p, a, st, h₁ with
  | [yd, ge, area, af, supply, pf, mpf, ltrf, drpf, sf, sc, ts], [a1, a2, a3, a4], [], h₁ =>
    simp only [Except.ok.injEq] at h₁
    subst h₁
    match b, hl, h with
    | [b1, b2, b3, b4], _, h =>
      simp only [catSeries, List.zipWith_cons_cons, List.zipWith_nil_right, Except.ok.injEq] at h
      subst h
      have e1 : a1.length = a2.length := ha.eq (by simp) (by simp)
      have e2 : a1.length = a3.length := ha.eq (by simp) (by simp)
      have e3 : a1.length = a4.length := ha.eq (by simp) (by simp)
      have hn : a1.length = n₁ := ha a1 (by simp)
      subst hn
      simp only [SednetGully.mk, SednetGully.run, zip4_append _ _ _ _ _ _ _ _ e1 e2 e3, map_append_scan, scan_append_snd, List.map_append, List.map_cons, List.map_nil, List.length_append, zeros_add]
      simp only [SednetGully.mk, SednetGully.run, zip4_append _ _ _ _ _ _ _ _ e1 e2 e3, map_append_scan, scan_append_snd, List.map_append, List.map_cons, List.map_nil, List.length_append, zeros_add, take_append_len, List.length_map, scan_length, zeros_length, List.length_replicate, zip4_length _ _ _ _ e1 e2 e3]

/-- DynamicSednetGullyAlt. -/
theorem causal_DynamicSednetGullyAlt : Causal (SednetGully.modelAlt (α := α)) := by
  intro p a b st n₁ n₂ o o₁ hl ha hb h h₁
  unfold SednetGully.modelAlt SednetGully.mk at h h₁
  simp only at h h₁
  match p, a, st, h₁ with
  | [yd, ge, area, af, supply, pf, mpf, ltrf, drpf, sf, sc, ts], [a1, a2, a3, a4], [], h₁ =>
    simp only [Except.ok.injEq] at h₁
    subst h₁
    match b, hl, h with
    | [b1, b2, b3, b4], _, h =>
      simp only [catSeries, List.zipWith_cons_cons, List.zipWith_nil_right, Except.ok.injEq] at h
      subst h
      have e1 : a1.length = a2.length := ha.eq (by simp) (by simp)
      have e2 : a1.length = a3.length := ha.eq (by simp) (by simp)
      have e3 : a1.length = a4.length := ha.eq (by simp) (by simp)
      have hn : a1.length = n₁ := ha a1 (by simp)
      subst hn
      simp only [SednetGully.mk, SednetGully.run, zip4_append _ _ _ _ _ _ _ _ e1 e2 e3, map_append_scan, scan_append_snd, List.map_append, List.map_cons, List.map_nil, List.length_append, zeros_add]
      simp only [SednetGully.mk, SednetGully.run, zip4_append _ _ _ _ _ _ _ _ e1 e2 e3, map_append_scan, scan_append_snd, List.map_append, List.map_cons, List.map_nil, List.length_append, zeros_add, take_append_len, List.length_map, scan_length, zeros_length, List.length_replicate, zip4_length _ _ _ _ e1 e2 e3]

/-- ClimateVariables. -/
theorem causal_ClimateVariables : Causal (Climate.model (α := α)) := by
  intro p a b st n₁ n₂ o o₁ hl ha hb h h₁
  unfold Climate.model at h h₁
  simp only at h h₁
  match p, a, st, h₁ with
  | [elevation], [a1, a2], [], h₁ =>
    simp only [Except.ok.injEq] at h₁
    subst h₁
    match b, hl, h with
    | [b1, b2], _, h =>
      simp only [catSeries, List.zipWith_cons_cons, List.zipWith_nil_right, Except.ok.injEq] at h
      subst h
      have e1 : a1.length = a2.length := ha.eq (by simp) (by simp)
      have hn : a1.length = n₁ := ha a1 (by simp)
      subst hn
      simp only [Climate.run, zip_append_eq _ _ _ _ e1, map_append_scan, scan_append_snd, List.map_append, List.map_cons, List.map_nil, List.length_append, zeros_add]
      simp only [Climate.run, zip_append_eq _ _ _ _ e1, map_append_scan, scan_append_snd, List.map_append, List.map_cons, List.map_nil, List.length_append, zeros_add, take_append_len, List.length_map, scan_length, zeros_length, List.length_replicate, zip_length_eq _ _ e1]

/-- StorageTrapAll: the stored mass enters the FIRST element only. -/
theorem causal_StorageTrapAll : Causal (StorageTrapAll.model (α := α)) := by
  intro p a b st n₁ n₂ o o₁ hl ha hb h h₁
  unfold StorageTrapAll.model at h h₁
  simp only at h h₁
  match p, a, st, h₁ with
  | [], [a1, a2, a3, a4], [s], h₁ =>
    match b, hl, h with
    | [b1, b2, b3, b4], _, h =>
      simp only [catSeries, List.zipWith_cons_cons, List.zipWith_nil_right] at h
      have hn : a1.length = n₁ := ha a1 (by simp)
      subst hn
      cases a1 with
      | nil =>
        simp only [StorageTrapAll.trapped, Except.ok.injEq] at h₁
        subst h₁
        simp only [List.nil_append] at h
        cases b1 with
        | nil => simp only [StorageTrapAll.trapped, Except.ok.injEq] at h; subst h; rfl
        | cons y ys => simp only [StorageTrapAll.trapped, Except.ok.injEq] at h; subst h; simp
      | cons x xs =>
        simp only [StorageTrapAll.trapped, Except.ok.injEq] at h₁
        subst h₁
        simp only [List.cons_append, StorageTrapAll.trapped, Except.ok.injEq] at h
        subst h
        simp only [List.map_cons, List.map_nil, List.length_cons, List.length_append, List.take_succ_cons]
        have e : xs.length + b1.length + 1 = (xs.length + 1) + b1.length := by omega
        rw [e, zeros_add]
        simp only [take_append_len, zeros_length, List.take_succ_cons, ← List.length_cons]

/-- Lag -/
theorem causal_Lag : Causal (Lag.model (α := α)) := by
  intro p a b st n₁ n₂ o o₁ hl ha hb h h₁
  unfold Lag.model at h h₁
  simp only at h h₁
  match p, a, h₁ with
  | [tl], [ia], h₁ =>
    match b, hl, h with
    | [ib], _, h =>
      simp only [catSeries, List.zipWith_cons_cons, List.zipWith_nil_right] at h h₁
      have hn : ia.length = n₁ := ha ia (by simp)
      subst hn
      cases hr1 : Lag.run tl ia st with
      | error e => rw [hr1] at h₁; simp at h₁
      | ok r₁ =>
        rw [hr1] at h₁
        simp only [Except.ok.injEq] at h₁
        subst h₁
        -- the second part can be run from the buffer left by the first: same lag, buffer of the same length
        have hlen : r₁.outflow.length = ia.length ∧ ∃ r₂, Lag.run tl ib r₁.lagged = .ok r₂ := by
          unfold Lag.run at hr1 ⊢
          simp only at hr1 ⊢
          by_cases h0 : (Num.toInt tl == 0) = true
          · simp only [h0, if_true, Except.ok.injEq] at hr1 ⊢
            subst hr1; exact ⟨rfl, _, rfl⟩
          · simp only [h0, Bool.false_eq_true, if_false] at hr1 ⊢
            by_cases hneg : Num.toInt tl < 0
            · simp [hneg] at hr1
            · simp only [hneg, if_false] at hr1 ⊢
              by_cases hs : st.length < (Num.toInt tl).toNat
              · simp [hs] at hr1
              · simp only [hs, if_false, Except.ok.injEq] at hr1
                subst hr1
                refine ⟨(OW.Proofs.Lag.lagCore_outflow _ ia st _ (zeros_length _)).1, ?_⟩
                rw [(OW.Proofs.Lag.lagCore_lagged _ ia st _ (by omega)).1]
                simp only [hs, if_false]
                exact ⟨_, rfl⟩
        obtain ⟨hol, r₂, hr2⟩ := hlen
        rw [OW.Proofs.Lag.run_append tl ia ib st r₁ r₂ hr1 hr2] at h
        simp only [Except.ok.injEq] at h
        subst h
        simp only [List.map_cons, List.map_nil, take_append_len hol]
/-- GR4J -/
theorem causal_GR4J : Causal (GR4J.model (α := α)) := by
  intro p a b st n₁ n₂ o o₁ hl ha hb h h₁
  unfold GR4J.model at h h₁
  simp only at h h₁
  match p, a, st, h₁ with
  | [x1, x2, x3, x4], [a1, a2], s :: r :: n1f :: n2f :: rest, h₁ =>
    match b, hl, h with
    | [b1, b2], _, h =>
      simp only [catSeries, List.zipWith_cons_cons, List.zipWith_nil_right] at h₁ h
      have e1 : a1.length = a2.length := ha.eq (by simp) (by simp)
      have hn : a1.length = n₁ := ha a1 (by simp)
      subst hn
      by_cases hc : Num.toInt n1f ≤ 0 ∨ Num.toInt n2f ≤ 0
      · rw [if_pos hc] at h₁; simp at h₁
      · rw [if_neg hc] at h₁ h
        by_cases hr : rest.length < (Num.toInt n1f).toNat + (Num.toInt n2f).toNat
        · rw [if_pos hr] at h₁; simp at h₁
        · rw [if_neg hr] at h₁ h
          simp only [Except.ok.injEq] at h₁ h
          subst h₁; subst h
          simp only [GR4J.run, zip_append_eq _ _ _ _ e1, map_append_scan, List.map_cons, List.map_nil]
          simp only [take_append_len, List.length_map, scan_length, zip_length_eq _ _ e1]

/-- StorageRouting -/
theorem causal_StorageRouting : Causal (StorageRouting.model (α := α)) := by
  intro p a b st n₁ n₂ o o₁ hl ha hb h h₁
  unfold StorageRouting.model at h h₁
  simp only at h h₁
  match p, a, st, h₁ with
  | [bias, k, x, area, dead, dt], [a1, a2, a3, a4], [s, pi, po], h₁ =>
    match b, hl, h with
    | [b1, b2, b3, b4], _, h =>
      simp only [catSeries, List.zipWith_cons_cons, List.zipWith_nil_right] at h₁ h
      have e1 : a1.length = a2.length := ha.eq (by simp) (by simp)
      have e2 : a1.length = a3.length := ha.eq (by simp) (by simp)
      have e3 : a1.length = a4.length := ha.eq (by simp) (by simp)
      have hn : a1.length = n₁ := ha a1 (by simp)
      subst hn
      rw [zip4_append _ _ _ _ _ _ _ _ e1 e2 e3, C06.storageRouting_split] at h
      have hlen : (StorageRouting.run bias k x area dead dt s (zip4 a1 a2 a3 a4)).2.length = a1.length := by
        unfold StorageRouting.run; rw [scan_length, zip4_length _ _ _ _ e1 e2 e3]
      generalize StorageRouting.run bias k x area dead dt s (zip4 a1 a2 a3 a4) = r1 at h h₁ hlen
      obtain ⟨f1, outs1⟩ := r1
      cases f1 with
      | error e => simp at h₁
      | ok f =>
        simp only [Except.ok.injEq] at h₁
        subst h₁
        simp only at h hlen
        generalize scan (StorageRouting.step (StorageRouting.setup bias k x dt) k area dead dt) (Except.ok f) (zip4 b1 b2 b3 b4) = r2 at h
        obtain ⟨f2, outs2⟩ := r2
        cases f2 with
        | error e => simp at h
        | ok g =>
          simp only [Except.ok.injEq] at h
          subst h
          simp only [List.map_append, List.map_cons, List.map_nil]
          simp only [take_append_len, List.length_map, hlen]

/-- InstreamDissolvedNutrientDecay (both the decay-disabled and the decay-enabled branch): `prevVolume` is seeded from
the first step of the call, which the truncated run shares with the whole run. -/
theorem causal_InstreamDissolvedNutrientDecay : Causal (InstreamDissolvedNutrient.model (α := α)) := by
  intro p a b st n₁ n₂ o o₁ hl ha hb h h₁
  unfold InstreamDissolvedNutrient.model at h h₁
  simp only at h h₁
  match p, a, st, h₁ with
  | [dd, psl, lh, lw, ll, uv, dur], [a1, a2, a3, a4, a5], [sm], h₁ =>
    match b, hl, h with
    | [b1, b2, b3, b4, b5], _, h =>
      simp only [catSeries, List.zipWith_cons_cons, List.zipWith_nil_right] at h₁ h
      have e1 : a1.length = a2.length := ha.eq (by simp) (by simp)
      have e2 : a1.length = a3.length := ha.eq (by simp) (by simp)
      have e3 : a1.length = a4.length := ha.eq (by simp) (by simp)
      have hn : a1.length = n₁ := ha a1 (by simp)
      subst hn
      cases a3 with
      | nil => simp at h₁
      | cons v0 va =>
        simp only [List.cons_append] at h
        simp only at h₁ h
        by_cases hdd : dd < (0.5 : α)
        · simp only [if_pos hdd, Except.ok.injEq] at h₁ h
          subst h₁; subst h
          simp only [LumpedConstituent.run, ← List.cons_append, zip4_append _ _ _ _ _ _ _ _ e1 e3 e2, map_append_scan,
            List.map_cons, List.map_nil, List.length_append, zeros_add]
          simp only [take_append_len, List.length_map, scan_length, zeros_length, zip4_length _ _ _ _ e1 e3 e2]
        · simp only [if_neg hdd, Except.ok.injEq] at h₁ h
          subst h₁; subst h
          simp only [← List.cons_append, zip4_append _ _ _ _ _ _ _ _ e1 e2 e3, map_append_scan,
            List.map_cons, List.map_nil, List.length_append, zeros_add]
          simp only [take_append_len, List.length_map, scan_length, zeros_length, zip4_length _ _ _ _ e1 e2 e3]
/-- Storage -/
theorem causal_Storage : Causal (Storage.model (α := α)) := by
  intro p a b st n₁ n₂ o o₁ hl ha hb h h₁
  unfold Storage.model at h h₁
  simp only at h h₁
  match p, a, st, h₁ with
  | deltaT :: nLVAf :: tbl, [a1, a2, a3, a4, a5, a6], [cv, lv, ar], h₁ =>
    match b, hl, h with
    | [b1, b2, b3, b4, b5, b6], _, h =>
      simp only [catSeries, List.zipWith_cons_cons, List.zipWith_nil_right, Storage.splitTables] at h₁ h
      have e1 : a1.length = a2.length := ha.eq (by simp) (by simp)
      have e2 : a1.length = a3.length := ha.eq (by simp) (by simp)
      have e3 : a1.length = a4.length := ha.eq (by simp) (by simp)
      have hn : a1.length = n₁ := ha a1 (by simp)
      subst hn
      by_cases hneg : Num.toInt nLVAf < 0
      · rw [if_pos hneg] at h₁; simp at h₁
      · rw [if_neg hneg] at h₁ h
        by_cases hlen : (tbl.length != 5 * (Num.toInt nLVAf).toNat) = true
        · rw [if_pos hlen] at h₁; simp at h₁
        · rw [if_neg hlen] at h₁ h
          generalize hm : Storage.mkTables (α := α) _ _ _ _ _ = mt at h₁ h
          cases mt with
          | error e => simp at h₁
          | ok t =>
            simp only at h₁ h
            generalize hc : Storage.checkConfig (α := α) _ _ = cc at h₁ h
            cases cc with
            | error e => simp at h₁
            | ok cfg =>
              cases cfg with
              | invalid =>
                simp only [Except.ok.injEq] at h₁ h
                subst h₁; subst h
                simp only [List.length_append, zeros_add, List.map_cons, List.map_nil, take_append_len, zeros_length]
              | ok =>
                simp only at h₁ h
                cases hr1 : Storage.run t false Storage.fuelOuter Storage.fuelInner deltaT cv (zip4 a1 a2 a3 a4) with
                | error e => rw [hr1] at h₁; simp at h₁
                | ok r₁ =>
                  rw [hr1] at h₁
                  simp only [Except.ok.injEq] at h₁
                  subst h₁
                  rw [zip4_append _ _ _ _ _ _ _ _ e1 e2 e3] at h
                  cases hr : Storage.run t false Storage.fuelOuter Storage.fuelInner deltaT cv (zip4 a1 a2 a3 a4 ++ zip4 b1 b2 b3 b4) with
                  | error e => rw [hr] at h; simp at h
                  | ok r =>
                    rw [hr] at h
                    simp only [Except.ok.injEq] at h
                    subst h
                    have hp := OW.Proofs.StorageHot.run_prefix t false _ _ deltaT cv _ _ r r₁ hr hr1
                    rw [zip4_length _ _ _ _ e1 e2 e3] at hp
                    simp only [List.map_cons, List.map_nil, ← List.map_take, hp]
/-- RatingCurvePartition -/
theorem causal_RatingCurvePartition : Causal (RatingCurvePartition.model (α := α)) := by
  intro p a b st n₁ n₂ o o₁ hl ha hb h h₁
  unfold RatingCurvePartition.model at h h₁
  simp only at h h₁
  cases hd : RatingCurvePartition.decode p with
  | none => rw [hd] at h₁; simp at h₁
  | some t =>
    obtain ⟨xs, ys⟩ := t
    rw [hd] at h₁ h
    match a, st, h₁ with
    | [a1], [], h₁ =>
      match b, hl, h with
      | [b1], _, h =>
        simp only [catSeries, List.zipWith_cons_cons, List.zipWith_nil_right] at h₁ h
        have hn : a1.length = n₁ := ha a1 (by simp)
        subst hn
        cases hr1 : RatingCurvePartition.run xs ys a1 with
        | error e => rw [hr1] at h₁; simp at h₁
        | ok r1 =>
          rw [hr1] at h₁
          simp only [Except.ok.injEq] at h₁
          subst h₁
          cases hr : RatingCurvePartition.run xs ys (a1 ++ b1) with
          | error e => rw [hr] at h; simp at h
          | ok r =>
            rw [hr] at h
            simp only [Except.ok.injEq] at h
            subst h
            simp only [List.map_cons, List.map_nil, ← List.map_take, ratingCurve_run_prefix xs ys a1 b1 r r1 hr hr1]

/-- DateGenerator: the dates are generated from the start date in the parameters and the NUMBER of ticks; the first
`n₁` rows do not depend on how many ticks follow. (Hot-start continuity is not a property of this kernel: it has no
state, every call starts again from the start date of the parameters.) -/
theorem causal_DateGenerator : Causal (DateGenerator.model (α := α)) := by
  intro p a b st n₁ n₂ o o₁ hl ha hb h h₁
  unfold DateGenerator.model at h h₁
  simp only at h h₁
  match p, a, st, h₁ with
  | [d, m, y], [a1], [], h₁ =>
    match b, hl, h with
    | [b1], _, h =>
      simp only [catSeries, List.zipWith_cons_cons, List.zipWith_nil_right, List.length_append] at h₁ h
      have hn : a1.length = n₁ := ha a1 (by simp)
      subst hn
      cases hr1 : Dates.run a1.length ⟨Num.toInt d, Num.toInt m, Num.toInt y⟩ with
      | none => rw [hr1] at h₁; simp at h₁
      | some rows₁ =>
        rw [hr1] at h₁
        simp only [Except.ok.injEq] at h₁
        subst h₁
        cases hr : Dates.run (a1.length + b1.length) ⟨Num.toInt d, Num.toInt m, Num.toInt y⟩ with
        | none => rw [hr] at h; simp at h
        | some rows =>
          rw [hr] at h
          simp only [Except.ok.injEq] at h
          subst h
          simp only [List.map_cons, List.map_nil, ← List.map_take, dates_run_prefix _ _ _ rows rows₁ hr hr1]
/-! ## DateGenerator is not hot-startable (it has no state) -/

theorem toInt_real_natCast (n : ℕ) : Num.toInt ((n : ℕ) : ℝ) = (n : Int) := by
  show (if (0:ℝ) ≤ (n:ℝ) then ⌊(n:ℝ)⌋ else ⌈(n:ℝ)⌉) = (n:Int)
  rw [if_pos (Nat.cast_nonneg n)]
  exact Int.floor_natCast n

/-- DateGenerator has no state: a second call starts again at the start date of the parameters, so a split run repeats
the first dates instead of continuing (start date 1 Jan 2001, two ticks: the whole run gives days 1, 2; the split run 1, 1). -/
theorem hotstart_DateGenerator_counterexample : ¬ HotStart (DateGenerator.model (α := ℝ)) := by
  intro h
  have e1 : Num.toInt ((1 : ℕ) : ℝ) = 1 := toInt_real_natCast 1
  have e2 : Num.toInt ((2001 : ℕ) : ℝ) = 2001 := toInt_real_natCast 2001
  have r1 : Dates.run 1 ⟨1, 1, 2001⟩ = some [⟨1, 1, 2001, 1⟩] := by decide
  have r2 : Dates.run 2 ⟨1, 1, 2001⟩ = some [⟨1, 1, 2001, 1⟩, ⟨2, 1, 2001, 2⟩] := by decide
  have run1 : (DateGenerator.model (α := ℝ)).run [((1 : ℕ) : ℝ), ((1 : ℕ) : ℝ), ((2001 : ℕ) : ℝ)] [[0]] [] =
      .ok { outputs := [[Num.ofInt 1], [Num.ofInt 1], [Num.ofInt 2001], [Num.ofInt 1]], states := [] } := by
    unfold DateGenerator.model
    simp only [List.length_cons, List.length_nil, e1, e2, r1, List.map_cons, List.map_nil]
  have run2 : (DateGenerator.model (α := ℝ)).run [((1 : ℕ) : ℝ), ((1 : ℕ) : ℝ), ((2001 : ℕ) : ℝ)] [[0, 0]] [] =
      .ok { outputs := [[Num.ofInt 1, Num.ofInt 2], [Num.ofInt 1, Num.ofInt 1], [Num.ofInt 2001, Num.ofInt 2001],
                        [Num.ofInt 1, Num.ofInt 2]], states := [] } := by
    unfold DateGenerator.model
    simp only [List.length_cons, List.length_nil, e1, e2, r2, List.map_cons, List.map_nil]
  obtain ⟨o, ho, hout, _⟩ := h _ [[0]] [[0]] [] 1 1 _ _ rfl
    (by intro s hs; simp at hs; subst hs; rfl) (by intro s hs; simp at hs; subst hs; rfl) run1 run1
  simp only [catSeries, List.zipWith_cons_cons, List.zipWith_nil_right, List.cons_append, List.nil_append] at ho hout
  rw [run2] at ho
  simp only [Except.ok.injEq] at ho
  subst ho
  simp only [List.cons.injEq, and_true] at hout
  have := hout.1.2
  have k : (Num.ofInt 2 : ℝ) = 2 := by show ((2 : Int) : ℝ) = 2; norm_num
  have k1 : (Num.ofInt 1 : ℝ) = 1 := by show ((1 : Int) : ℝ) = 1; norm_num
  rw [k, k1] at this
  norm_num at this
/-! ## non-vacuity: concrete whole-period / truncated pairs of successful runs (the hypotheses of `Causal`) -/

example : ∃ o o₁, (Muskingum.model (α := Float)).run [86400, 0.25, 86400] (catSeries [[1, 2], [0, 1]] [[5], [0]]) [0, 0, 0] = .ok o ∧
    (Muskingum.model (α := Float)).run [86400, 0.25, 86400] [[1, 2], [0, 1]] [0, 0, 0] = .ok o₁ := ⟨_, _, rfl, rfl⟩
example : ∃ o o₁, (Sum.model (α := Float)).run [] (catSeries [[1, 2], [0, 1]] [[5], [0]]) [] = .ok o ∧
    (Sum.model (α := Float)).run [] [[1, 2], [0, 1]] [] = .ok o₁ := ⟨_, _, rfl, rfl⟩
example : ∃ o o₁, (Sacramento.model (α := Float)).run [0.01, 0.1, 0.3, 50, 40, 130, 25, 60, 0.1, 1, 40, 0, 0, 0.5, 0, 0, 0, 1, 1, 0, 0, 0]
      (catSeries [[2, 0], [0, 1]] [[3], [1]]) [0, 0, 0, 0, 0, 0] = .ok o ∧
    (Sacramento.model (α := Float)).run [0.01, 0.1, 0.3, 50, 40, 130, 25, 60, 0.1, 1, 40, 0, 0, 0.5, 0, 0, 0, 1, 1, 0, 0, 0]
      [[2, 0], [0, 1]] [0, 0, 0, 0, 0, 0] = .ok o₁ := ⟨_, _, rfl, rfl⟩
/-- stateless kernels: the hypotheses of `HotStart` (two successful calls) -/
example : ∃ o₁ o₂, (ComputeProportion.model (α := Float)).run [0] [[1, 2], [0, 1]] [] = .ok o₁ ∧
    (ComputeProportion.model (α := Float)).run [0] [[5], [2]] o₁.states = .ok o₂ := ⟨_, _, rfl, rfl⟩

/-! ## Summary over the catalogue -/

/-- the 41 catalogue models that have a Go case generator and a Lean kernel model (checks/models.py `ALL_MODELS`, same order) -/
def catalogue : List (KModel α) :=
  [ Scaling.model, BankErosion.model, BaseflowFilter.model, Climate.model,
    ComputeProportion.model, ConstituentDecay.model, DateGenerator.model, Scaling.deliveryRatio,
    DepthToRate.model, SednetGully.model, SednetGully.modelAlt, EmcDwc.model,
    FixedConcentration.model, FixedPartition.model, GR4J.model, Gate.model,
    InputNode.model, InstreamCoarseSediment.model, InstreamDissolvedNutrient.model, InstreamFineSediment.model,
    InstreamParticulateNutrient.model, Lag.model, LumpedConstituent.model, Muskingum.model,
    PartitionDemand.model, PassLoadIfFlow.model, RatingCurvePartition.model, Coeff.model,
    Sacramento.model, DissolvedNutrients.model, ParticulateNutrients.model, Simhyd.model,
    Storage.model, StorageDissolvedDecay.model, StorageParticulateTrapping.model, StorageRouting.model,
    StorageTrapAll.model, Sum.model, Surm.model, UsleFine.model,
    VariablePartition.model ]

theorem catalogue_names :
    (catalogue (α := α)).map (·.name) =
      ["ApplyScalingFactor", "BankErosion", "BaseflowFilter", "ClimateVariables", "ComputeProportion", "ConstituentDecay",
      "DateGenerator", "DeliveryRatio", "DepthToRate", "DynamicSednetGully", "DynamicSednetGullyAlt", "EmcDwc",
      "FixedConcentration", "FixedPartition", "GR4J", "Gate", "Input", "InstreamCoarseSediment",
      "InstreamDissolvedNutrientDecay", "InstreamFineSediment", "InstreamParticulateNutrient", "Lag", "LumpedConstituentRouting", "Muskingum",
      "PartitionDemand", "PassLoadIfFlow", "RatingCurvePartition", "RunoffCoefficient", "Sacramento", "SednetDissolvedNutrientGeneration",
      "SednetParticulateNutrientGeneration", "Simhyd", "Storage", "StorageDissolvedDecay", "StorageParticulateTrapping", "StorageRouting",
      "StorageTrapAll", "Sum", "Surm", "USLEFineSedimentGeneration", "VariablePartition"] := rfl

/-- **C14, causality, every catalogue model** (any arithmetic `Num α`, every parameter column, state row, series, truncation
point): the first `n₁` outputs of a run do not depend on the inputs after step `n₁`. -/
theorem causal_catalogue : ∀ km ∈ catalogue (α := α), Causal km := by
  intro km hkm
  simp only [catalogue, List.mem_cons, List.not_mem_nil, or_false] at hkm
  rcases hkm with rfl | rfl | rfl | rfl | rfl | rfl | rfl | rfl | rfl | rfl | rfl | rfl | rfl | rfl | rfl | rfl | rfl | rfl | rfl | rfl | rfl | rfl | rfl | rfl | rfl | rfl | rfl | rfl | rfl | rfl | rfl | rfl | rfl | rfl | rfl | rfl | rfl | rfl | rfl | rfl | rfl
  · exact causal_ApplyScalingFactor
  · exact causal_BankErosion
  · exact causal_BaseflowFilter
  · exact causal_ClimateVariables
  · exact causal_ComputeProportion
  · exact causal_ConstituentDecay
  · exact causal_DateGenerator
  · exact causal_DeliveryRatio
  · exact causal_DepthToRate
  · exact causal_DynamicSednetGully
  · exact causal_DynamicSednetGullyAlt
  · exact causal_EmcDwc
  · exact causal_FixedConcentration
  · exact causal_FixedPartition
  · exact causal_GR4J
  · exact causal_Gate
  · exact causal_Input
  · exact causal_InstreamCoarseSediment
  · exact causal_InstreamDissolvedNutrientDecay
  · exact causal_InstreamFineSediment
  · exact causal_InstreamParticulateNutrient
  · exact causal_Lag
  · exact causal_LumpedConstituentRouting
  · exact causal_Muskingum
  · exact causal_PartitionDemand
  · exact causal_PassLoadIfFlow
  · exact causal_RatingCurvePartition
  · exact causal_RunoffCoefficient
  · exact causal_Sacramento
  · exact causal_SednetDissolvedNutrientGeneration
  · exact causal_SednetParticulateNutrientGeneration
  · exact causal_Simhyd
  · exact causal_Storage
  · exact causal_StorageDissolvedDecay
  · exact causal_StorageParticulateTrapping
  · exact causal_StorageRouting
  · exact causal_StorageTrapAll
  · exact causal_Sum
  · exact causal_Surm
  · exact causal_USLEFineSedimentGeneration
  · exact causal_VariablePartition

/-- every registered kernel model is in the catalogue list, or is one of the two runnable forms of the GR4J
specification (OW/Spec/GR4J.lean, not models of Go code) -/
theorem registry_covered : ∀ km ∈ Kernels.all (α := α),
    km ∈ catalogue (α := α) ∨ km.name = "GR4J#spec" ∨ km.name = "GR4J#published" := by
  intro km hkm
  simp only [Kernels.all, Groups.Constituent.models, Groups.FlowRouting.models, Groups.Conversion.models, Groups.RR.models,
    Groups.Storage.models, Groups.Climate.models, Groups.Misc.models, List.cons_append, List.nil_append, List.mem_cons,
    List.not_mem_nil, or_false] at hkm
  simp only [catalogue, List.mem_cons, List.not_mem_nil, or_false]
  rcases hkm with rfl | rfl | rfl | rfl | rfl | rfl | rfl | rfl | rfl | rfl | rfl | rfl | rfl | rfl | rfl | rfl | rfl | rfl | rfl | rfl | rfl | rfl | rfl | rfl | rfl | rfl | rfl | rfl | rfl | rfl | rfl | rfl | rfl | rfl | rfl | rfl | rfl | rfl | rfl | rfl | rfl | rfl | rfl <;> first | (left; simp) | (right; left; rfl) | (right; right; rfl)

/-- the catalogue models for which hot-start continuity holds without restriction (at ℝ; see OW/Props/C06.lean for the
statements over an arbitrary `Num α`) -/
noncomputable def hotStartCatalogue : List (KModel ℝ) :=
  [ Scaling.model, BankErosion.model, BaseflowFilter.model, Climate.model,
    ComputeProportion.model, ConstituentDecay.model, Scaling.deliveryRatio, DepthToRate.model,
    SednetGully.model, SednetGully.modelAlt, EmcDwc.model, FixedConcentration.model,
    FixedPartition.model, GR4J.model, Gate.model, InputNode.model,
    InstreamCoarseSediment.model, InstreamParticulateNutrient.model, Lag.model, LumpedConstituent.model,
    Muskingum.model, PartitionDemand.model, PassLoadIfFlow.model, RatingCurvePartition.model,
    Coeff.model, DissolvedNutrients.model, ParticulateNutrients.model, Simhyd.model,
    Storage.model, StorageDissolvedDecay.model, StorageParticulateTrapping.model, StorageTrapAll.model,
    Sum.model, Surm.model, UsleFine.model, VariablePartition.model ]

/-- the catalogue models for which `HotStart` is false as stated; each has a `…_partial` theorem in OW/Props/C06.lean (or, for
DateGenerator, no state at all: every call restarts at the start date given in the parameters) -/
def hotStartExceptions : List String := ["DateGenerator", "InstreamDissolvedNutrientDecay", "InstreamFineSediment", "Sacramento", "StorageRouting"]

theorem hotStartCatalogue_names :
    hotStartCatalogue.map (·.name) =
      ["ApplyScalingFactor", "BankErosion", "BaseflowFilter", "ClimateVariables", "ComputeProportion", "ConstituentDecay",
      "DeliveryRatio", "DepthToRate", "DynamicSednetGully", "DynamicSednetGullyAlt", "EmcDwc", "FixedConcentration",
      "FixedPartition", "GR4J", "Gate", "Input", "InstreamCoarseSediment", "InstreamParticulateNutrient",
      "Lag", "LumpedConstituentRouting", "Muskingum", "PartitionDemand", "PassLoadIfFlow", "RatingCurvePartition",
      "RunoffCoefficient", "SednetDissolvedNutrientGeneration", "SednetParticulateNutrientGeneration", "Simhyd", "Storage", "StorageDissolvedDecay",
      "StorageParticulateTrapping", "StorageTrapAll", "Sum", "Surm", "USLEFineSedimentGeneration", "VariablePartition"] := rfl

/-- every catalogue model is in exactly one of the two lists -/
theorem hotStart_lists_cover :
    ∀ n ∈ (catalogue (α := ℝ)).map (·.name), (n ∈ hotStartCatalogue.map (·.name)) ≠ (n ∈ hotStartExceptions) := by
  rw [catalogue_names, hotStartCatalogue_names]
  decide

/-- **C06 / C14, hot-start continuity, every catalogue model but the five listed exceptions** (ℝ). -/
theorem hotstart_catalogue : ∀ km ∈ hotStartCatalogue, HotStart km := by
  intro km hkm
  simp only [hotStartCatalogue, List.mem_cons, List.not_mem_nil, or_false] at hkm
  rcases hkm with rfl | rfl | rfl | rfl | rfl | rfl | rfl | rfl | rfl | rfl | rfl | rfl | rfl | rfl | rfl | rfl | rfl | rfl | rfl | rfl | rfl | rfl | rfl | rfl | rfl | rfl | rfl | rfl | rfl | rfl | rfl | rfl | rfl | rfl | rfl | rfl
  · exact hotstart_ApplyScalingFactor
  · exact hotstart_BankErosion
  · exact hotstart_BaseflowFilter
  · exact hotstart_ClimateVariables
  · exact hotstart_ComputeProportion
  · exact C06.hotstart_ConstituentDecay
  · exact hotstart_DeliveryRatio
  · exact hotstart_DepthToRate
  · exact hotstart_DynamicSednetGully
  · exact hotstart_DynamicSednetGullyAlt
  · exact hotstart_EmcDwc
  · exact hotstart_FixedConcentration
  · exact hotstart_FixedPartition
  · exact C06.hotstart_GR4J_real
  · exact hotstart_Gate
  · exact hotstart_Input
  · exact C06.hotstart_InstreamCoarseSediment
  · exact C06.hotstart_InstreamParticulateNutrient
  · exact C06.hotstart_Lag
  · exact C06.hotstart_LumpedConstituentRouting
  · exact C06.hotstart_Muskingum
  · exact hotstart_PartitionDemand
  · exact hotstart_PassLoadIfFlow
  · exact hotstart_RatingCurvePartition
  · exact hotstart_RunoffCoefficient
  · exact hotstart_SednetDissolvedNutrientGeneration
  · exact hotstart_SednetParticulateNutrientGeneration
  · exact C06.hotstart_Simhyd
  · exact C06.hotstart_Storage
  · exact C06.hotstart_StorageDissolvedDecay
  · exact C06.hotstart_StorageParticulateTrapping
  · exact C06.hotstart_StorageTrapAll_real
  · exact hotstart_Sum
  · exact C06.hotstart_Surm
  · exact hotstart_USLEFineSedimentGeneration
  · exact hotstart_VariablePartition

end OW.Props.C14
