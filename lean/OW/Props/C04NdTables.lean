import OW.Proofs.WrapperNdTablesRun
/-!
C04 (n-d level, TABLE parameters) — `wrapperNd_refines` of `OW/Props/C04Nd.lean` extended from scalar-parameter specs to
specs with one-dimensional table parameters (`ParamSpec` entries `some k`: a table whose per-cell length is the value of
dimension parameter number `k`, occupying `maxLen = int(max over sets of that parameter)` rows of the parameter array).

* `layout_tables` — the rows `OW.Sim.layout` (the list-level `FindDimensions`) computes are the template's
  `paramIdx += paramSize` accumulation `tplRows` (`ApplyParameters`), for every well-formed spec;
* `cellParams_tables` — the list-level decoded column of cell `i` in closed form (`entries`);
* `param_decoding_tables` — the view-level decoding (`scalarParam`, `tableParam` + `readTable`) yields that column;
* `wrapperNd_refines_tables` — one cell step through the template's views, table parameters included, is the list-level
  `cellStep`;
* `runNd_refines_tables` — the whole sequential `Run` through the views (`runNdT`) is the list-level `runCells`.

The view-level goroutine body with table parameters is `OW.Sim.WrapperNd.cellStepNdT` (`OW/Sim/WrapperNdTables.lean`,
core Lean); on all-scalar specs it is `cellStepNd` (`cellStepNdT_scalar`). Helper lemmas: `OW/Proofs/WrapperNdTables.lean`.
-/
namespace OW.Props.C04NdTables
open OW OW.Nd OW.Sim OW.Sim.WrapperNd OW.WrapperNd

section
variable {α : Type} [Num α]

/-! ### (i) the layout -/

/-- **layout_tables.** For a WELL-FORMED spec (`SpecWF`: every table `some k` refers to an EARLIER parameter `k` that is
a scalar — its dimension parameter) and dimension values `dims k` that are what `FindDimensions` reads back
(`dims k = int(max over sets of the row of parameter k)`, `dimMaxZ`; `row` = the row the template assigns to parameter
`k`), if the parameter array has at least the `tplEnd` rows the template consumes, then the list-level `layout` does not
fail and returns exactly the template's rows: `(paramIdx, paramSize)` with `paramIdx += paramSize`, `paramSize = 1` for a
scalar and `1 * m.max<D>` for a table (`tplRows`, the accumulation `ApplyParameters` performs). -/
theorem layout_tables (spec : ParamSpec) (params : List (List α)) (dims : Nat → Nat) (wf : SpecWF spec)
    (hd : ∀ j k : Nat, spec[j]? = some (some k) →
      ∃ row, (tplRows dims spec 0)[k]? = some (row, 1) ∧ dims k = (dimMaxZ params row).toNat)
    (hfit : tplEnd dims spec 0 ≤ params.length) :
    layout spec params = .ok (tplRows dims spec 0) := by
  unfold layout
  exact layout_go_tables params dims spec wf hd hfit spec [] 0 [] [] rfl rfl rfl rfl
    (fun k row sz h _ => by simp [tplRows] at h)

/-- the rows of `layout_tables` are consecutive: each parameter starts where the previous one ends, the first at row 0,
and the spec and its layout have the same length -/
theorem tplRows_consecutive (dims : Nat → Nat) (spec : ParamSpec) :
    (tplRows dims spec 0).length = spec.length ∧
    ∀ (a b : ParamSpec), spec = a ++ b →
      tplRows dims spec 0 = tplRows dims a 0 ++ tplRows dims b (tplEnd dims a 0) :=
  ⟨tplRows_length dims spec 0, fun a b h => by rw [h, tplRows_append]⟩

/-! ### (ii) the list-level column -/

/-- **cellParams_tables.** For a well-formed spec laid out in rows `lay`, the list-level parameter column of cell `i` is
the concatenation, in spec order, of
* for a scalar in row `row`: `parameters[row][i % nSets]` (`Props.C04.pick`);
* for a table in rows `row …` over dimension parameter `k`: `parameters[row + r][i % nSets]` for `r < ownLen_i`, where
  `ownLen_i = (Num.toInt (parameters[row_k][i % nSets])).toNat` is the cell's own value of the dimension parameter
  (`ownLenZ`, `rowOf lay k` = the row of parameter `k`)
(`entries`), provided these elements exist and `ownLen_i ≤` the table's rows (otherwise `cellParams` fails). -/
theorem cellParams_tables (spec : ParamSpec) (lay : List (Nat × Nat)) (params : List (List α)) (i : Nat)
    (wf : SpecWF spec)
    (hS : ∀ (j row sz : Nat), spec[j]? = some none → lay[j]? = some (row, sz) → (Props.C04.pick params i row).isSome)
    (hT : ∀ (j k row sz : Nat), spec[j]? = some (some k) → lay[j]? = some (row, sz) →
      (ownLenZ params i (rowOf lay k)).toNat ≤ sz ∧
      ∀ r, r < (ownLenZ params i (rowOf lay k)).toNat → (Props.C04.pick params i (row + r)).isSome) :
    cellParams spec lay params i = .ok ((spec.zip lay).flatMap (entries params lay i)) :=
  cellParams_tables_eq spec lay params i wf hS hT

/-! ### (iii) the view level -/

/-- **param_decoding_tables.** Root `parameters [rows, nSets]` on storage `pst` (row-major denotation
`mat pst pb rows nSets`); a well-formed spec laid out in rows `lay` INSIDE the array (scalar: `row < rows`; table:
`1 ≤ size`, `row + size ≤ rows`); a cell `i` whose own table lengths fit (`ownLen_i ≤ size` — `ownLen_i` is `int(...)` of
the cell's value of the dimension parameter: `Num.toInt` on both levels; a negative value reads nothing on both). Then
* the view-level decoder (`decodeNd`: `scalarParam` for scalars; for tables the `ApplyParameters` view
  `[size, nSets]`, the rank-1 slice `Slice([0, i % nSets], [ownLen], nil)` and `Get1(0) … Get1(ownLen-1)`) does not panic
  and returns the closed-form column `entries`;
* the list-level `cellParams` returns the same column. -/
theorem param_decoding_tables {h : Heap α} {parameters : Arr} {rows nSets pb i : Nat} {pst : List α}
    (rp : RootOn h parameters [(rows : Int), (nSets : Int)]) (hpb : parameters.base = (pb : Int))
    (hp : h[parameters.sid]? = some pst) (spec : ParamSpec) (lay : List (Nat × Nat)) (wf : SpecWF spec)
    (hS : ∀ (j row sz : Nat), spec[j]? = some none → lay[j]? = some (row, sz) → row < rows)
    (hT : ∀ (j k row sz : Nat), spec[j]? = some (some k) → lay[j]? = some (row, sz) →
      1 ≤ sz ∧ row + sz ≤ rows ∧ (ownLenZ (mat pst pb rows nSets) i (rowOf lay k)).toNat ≤ sz) :
    decodeNd h parameters (i : Int) (spec.zip lay) [] [] =
        .ok ((spec.zip lay).flatMap (entries (mat pst pb rows nSets) lay i)) ∧
    cellParams spec lay (mat pst pb rows nSets) i =
        .ok ((spec.zip lay).flatMap (entries (mat pst pb rows nSets) lay i)) :=
  param_decoding_tables_eq rp hpb hp spec lay wf hS hT

/-- **wrapperNd_refines_tables.** The hypotheses of `wrapperNd_refines` (root arrays `parameters [rows, nSets]`,
`inputs [nIn, nI, T]`, `states [N, nS]`, `outputs [M, nO, T']`, `T ≤ T'`, states and outputs in different storages, a
cell `i < N`, `i < M`, a kernel whose results fit the arrays) with, instead of `nP` scalar parameters, ANY well-formed
spec with scalar and one-dimensional table parameters laid out in rows `lay` inside the parameter array, and
`ownLen_i ≤ maxLen` for every table (`hT`). Then the goroutine body on the template's views WITH the table parameters
read through `tableParam` / `readTable` (`cellStepNdT`):
* fails with the same error whenever the list-level `cellStep` (on the row-major denotations) fails — only the kernel can;
* otherwise does not panic, keeps the heap's shape, and the resulting heap holds exactly `cellStep`'s result (state row
  `i`, output rows `(i, o, ·)`), every other cell of every storage unchanged. -/
theorem wrapperNd_refines_tables (km : KModel α) {h : Heap α} {parameters inputs states outputs : Arr}
    {rows nSets nIn nI T N nS M nO T' i pb ib sb ob : Nat} {pst ist sst ost : List α}
    (rp : RootOn h parameters [(rows : Int), (nSets : Int)])
    (ri : RootOn h inputs [(nIn : Int), (nI : Int), (T : Int)])
    (rs : RootOn h states [(N : Int), (nS : Int)])
    (ro : RootOn h outputs [(M : Int), (nO : Int), (T' : Int)])
    (hpb : parameters.base = (pb : Int)) (hib : inputs.base = (ib : Int)) (hsb : states.base = (sb : Int))
    (hob : outputs.base = (ob : Int))
    (hp : h[parameters.sid]? = some pst) (hi : h[inputs.sid]? = some ist)
    (hs : h[states.sid]? = some sst) (ho : h[outputs.sid]? = some ost)
    (hso : states.sid ≠ outputs.sid) (hiN : i < N) (hiM : i < M) (hT : T ≤ T')
    {rd : RunDims} (hrd : runDims inputs states outputs = .ok rd)
    (hK : ∀ p ins st r, ins.length = nI → (∀ s ∈ ins, s.length = T) → st.length = nS → km.run p ins st = .ok r →
      r.outputs.length ≤ nO ∧ (∀ ser ∈ r.outputs, ser.length ≤ T) ∧ r.states.length ≤ nS)
    (spec : ParamSpec) (lay : List (Nat × Nat)) (wf : SpecWF spec)
    (hSc : ∀ (j row sz : Nat), spec[j]? = some none → lay[j]? = some (row, sz) → row < rows)
    (hTb : ∀ (j k row sz : Nat), spec[j]? = some (some k) → lay[j]? = some (row, sz) →
      1 ≤ sz ∧ row + sz ≤ rows ∧ (ownLenZ (mat pst pb rows nSets) i (rowOf lay k)).toNat ≤ sz) :
    (∀ e, cellStep km spec lay (mat pst pb rows nSets) (cube ist ib nIn nI T) i (rowAt sst (sb + i * nS) nS)
          (mat ost (ob + i * (nO * T')) nO T') = .error e →
        cellStepNdT km.run spec lay nI h parameters inputs states outputs rd (i : Int) = .error e) ∧
    (∀ s' o', cellStep km spec lay (mat pst pb rows nSets) (cube ist ib nIn nI T) i (rowAt sst (sb + i * nS) nS)
          (mat ost (ob + i * (nO * T')) nO T') = .ok (s', o') →
      ∃ h', cellStepNdT km.run spec lay nI h parameters inputs states outputs rd (i : Int) = .ok h' ∧ SameShape h h' ∧
        (∀ s, s < nS → cell h' states.sid (sb + i * nS + s) = s'[s]?) ∧
        (∀ o t, o < nO → t < T' → cell h' outputs.sid (ob + (i * nO + o) * T' + t) = (o'[o]?).bind (·[t]?)) ∧
        (∀ u q, ¬ (u = states.sid ∧ ∃ s, s < nS ∧ q = sb + i * nS + s) →
                ¬ (u = outputs.sid ∧ ∃ o t, o < nO ∧ t < T' ∧ q = ob + (i * nO + o) * T' + t) →
                cell h' u q = cell h u q)) :=
  cellStepNdT_refines km rp ri rs ro hpb hib hsb hob hp hi hs ho hso hiN hiM hT hrd hK spec lay wf hSc hTb

/-- **wrapperNd_refines_tables_layout.** `wrapperNd_refines_tables` for the rows the list-level `layout` COMPUTES from the
parameter denotation (`layout_tables`: they are the template's `tplRows`) — the end-to-end form: `layout` succeeds with
`lay`, and the view-level cell step with `lay` refines `cellStep` with `lay`. The geometric hypotheses on `lay` are
stated on `tplRows dims spec 0`. -/
theorem wrapperNd_refines_tables_layout (km : KModel α) {h : Heap α} {parameters inputs states outputs : Arr}
    {rows nSets nIn nI T N nS M nO T' i pb ib sb ob : Nat} {pst ist sst ost : List α}
    (rp : RootOn h parameters [(rows : Int), (nSets : Int)])
    (ri : RootOn h inputs [(nIn : Int), (nI : Int), (T : Int)])
    (rs : RootOn h states [(N : Int), (nS : Int)])
    (ro : RootOn h outputs [(M : Int), (nO : Int), (T' : Int)])
    (hpb : parameters.base = (pb : Int)) (hib : inputs.base = (ib : Int)) (hsb : states.base = (sb : Int))
    (hob : outputs.base = (ob : Int))
    (hp : h[parameters.sid]? = some pst) (hi : h[inputs.sid]? = some ist)
    (hs : h[states.sid]? = some sst) (ho : h[outputs.sid]? = some ost)
    (hso : states.sid ≠ outputs.sid) (hiN : i < N) (hiM : i < M) (hT : T ≤ T')
    {rd : RunDims} (hrd : runDims inputs states outputs = .ok rd)
    (hK : ∀ p ins st r, ins.length = nI → (∀ s ∈ ins, s.length = T) → st.length = nS → km.run p ins st = .ok r →
      r.outputs.length ≤ nO ∧ (∀ ser ∈ r.outputs, ser.length ≤ T) ∧ r.states.length ≤ nS)
    (spec : ParamSpec) (dims : Nat → Nat) (wf : SpecWF spec)
    (hd : ∀ j k : Nat, spec[j]? = some (some k) → ∃ row, (tplRows dims spec 0)[k]? = some (row, 1) ∧
      dims k = (dimMaxZ (mat pst pb rows nSets) row).toNat)
    (hfit : tplEnd dims spec 0 ≤ rows)
    (hdim : ∀ j k : Nat, spec[j]? = some (some k) → 1 ≤ dims k ∧
      (ownLenZ (mat pst pb rows nSets) i (rowOf (tplRows dims spec 0) k)).toNat ≤ dims k) :
    layout spec (mat pst pb rows nSets) = .ok (tplRows dims spec 0) ∧
    (∀ e, cellStep km spec (tplRows dims spec 0) (mat pst pb rows nSets) (cube ist ib nIn nI T) i
          (rowAt sst (sb + i * nS) nS) (mat ost (ob + i * (nO * T')) nO T') = .error e →
        cellStepNdT km.run spec (tplRows dims spec 0) nI h parameters inputs states outputs rd (i : Int) = .error e) ∧
    (∀ s' o', cellStep km spec (tplRows dims spec 0) (mat pst pb rows nSets) (cube ist ib nIn nI T) i
          (rowAt sst (sb + i * nS) nS) (mat ost (ob + i * (nO * T')) nO T') = .ok (s', o') →
      ∃ h', cellStepNdT km.run spec (tplRows dims spec 0) nI h parameters inputs states outputs rd (i : Int) = .ok h' ∧
        SameShape h h' ∧
        (∀ s, s < nS → cell h' states.sid (sb + i * nS + s) = s'[s]?) ∧
        (∀ o t, o < nO → t < T' → cell h' outputs.sid (ob + (i * nO + o) * T' + t) = (o'[o]?).bind (·[t]?)) ∧
        (∀ u q, ¬ (u = states.sid ∧ ∃ s, s < nS ∧ q = sb + i * nS + s) →
                ¬ (u = outputs.sid ∧ ∃ o t, o < nO ∧ t < T' ∧ q = ob + (i * nO + o) * T' + t) →
                cell h' u q = cell h u q)) := by
  -- every row of the template's layout lies inside the array
  have hin : ∀ (a b : ParamSpec) (p : Option Nat), spec = a ++ p :: b →
      (tplRows dims spec 0)[a.length]? = some (tplEnd dims a 0, paramSz dims p) ∧
      tplEnd dims a 0 + paramSz dims p ≤ rows := by
    intro a b p hsp
    constructor
    · rw [hsp, tplRows_append, List.getElem?_append_right (by rw [tplRows_length]), tplRows_length, Nat.sub_self,
        tplRows_cons]
      rfl
    · have e : tplEnd dims spec 0 = tplEnd dims b (tplEnd dims a 0 + paramSz dims p) := by
        rw [hsp, tplEnd_append, tplEnd_cons]
      have := tplEnd_ge dims b (tplEnd dims a 0 + paramSz dims p)
      omega
  have hsplit : ∀ (j : Nat) (p : Option Nat), spec[j]? = some p →
      ∃ a b, spec = a ++ p :: b ∧ a.length = j := by
    intro j p hj
    obtain ⟨hlt, he⟩ := List.getElem?_eq_some_iff.mp hj
    refine ⟨spec.take j, spec.drop (j + 1), ?_, by simp; omega⟩
    rw [← he, List.getElem_cons_drop]
    exact (List.take_append_drop j spec).symm
  refine ⟨layout_tables spec _ dims wf hd (by rw [mat_length]; exact hfit), ?_⟩
  apply wrapperNd_refines_tables km rp ri rs ro hpb hib hsb hob hp hi hs ho hso hiN hiM hT hrd hK spec _ wf
  · intro j row sz hsp hly
    obtain ⟨a, b, hab, hal⟩ := hsplit j none hsp
    obtain ⟨h1, h2⟩ := hin a b none hab
    rw [hal, hly] at h1
    simp only [Option.some.injEq, Prod.mk.injEq, paramSz] at h1 h2
    omega
  · intro j k row sz hsp hly
    obtain ⟨a, b, hab, hal⟩ := hsplit j (some k) hsp
    obtain ⟨h1, h2⟩ := hin a b (some k) hab
    rw [hal, hly] at h1
    simp only [Option.some.injEq, Prod.mk.injEq, paramSz] at h1 h2
    obtain ⟨d1, d2⟩ := hdim j k hsp
    obtain ⟨e1, e2⟩ := h1
    subst e1; subst e2
    exact ⟨d1, h2, d2⟩

/-- **runNd_refines_tables** (`runNd_refines` for specs with table parameters; the cells executed one after the other —
C05 is about why the order does not matter). Root arrays `parameters [rows, nSets]`, `inputs [nIn, nI, T]`,
`states [N, nS]`, `outputs [M, nO, T']` with `N ≤ M`, `T ≤ T'`, in pairwise different storages (parameters and inputs may
share one); a well-formed spec laid out in rows `lay` inside the parameter array with `ownLen_i ≤ maxLen` for every cell
`i < N` and every table; a kernel whose results fit the arrays. If the list-level vectorised run `runCells` on the
row-major denotations of the storages succeeds with `(ss, os)`, then `Run` through the template's views (`runNdT`: the
preamble, then `cellStepNdT` for `i = 0 … N-1`) does not panic, keeps the heap's shape, and afterwards the states storage
denotes `ss`, the outputs storage denotes `os` (all `M` rows and `T'` timesteps), every other storage is the same list as
before, and the states and outputs storages are unchanged outside the windows of the two arrays. -/
theorem runNd_refines_tables (km : KModel α) {h : Heap α} {parameters inputs states outputs : Arr}
    {rows nSets nIn nI T N nS M nO T' pb ib sb ob : Nat} {pst ist sst ost : List α}
    (rp : RootOn h parameters [(rows : Int), (nSets : Int)])
    (ri : RootOn h inputs [(nIn : Int), (nI : Int), (T : Int)])
    (rs : RootOn h states [(N : Int), (nS : Int)])
    (ro : RootOn h outputs [(M : Int), (nO : Int), (T' : Int)])
    (hpb : parameters.base = (pb : Int)) (hib : inputs.base = (ib : Int)) (hsb : states.base = (sb : Int))
    (hob : outputs.base = (ob : Int))
    (hp : h[parameters.sid]? = some pst) (hi : h[inputs.sid]? = some ist)
    (hs : h[states.sid]? = some sst) (ho : h[outputs.sid]? = some ost)
    (hso : states.sid ≠ outputs.sid) (hps : parameters.sid ≠ states.sid) (hpo : parameters.sid ≠ outputs.sid)
    (his : inputs.sid ≠ states.sid) (hio : inputs.sid ≠ outputs.sid)
    (spec : ParamSpec) (lay : List (Nat × Nat)) (wf : SpecWF spec)
    (hSc : ∀ (j row sz : Nat), spec[j]? = some none → lay[j]? = some (row, sz) → row < rows)
    (hTb : ∀ i, i < N → ∀ (j k row sz : Nat), spec[j]? = some (some k) → lay[j]? = some (row, sz) →
      1 ≤ sz ∧ row + sz ≤ rows ∧ (ownLenZ (mat pst pb rows nSets) i (rowOf lay k)).toNat ≤ sz)
    (hNM : N ≤ M) (hT : T ≤ T')
    (hK : ∀ p ins st r, ins.length = nI → (∀ s ∈ ins, s.length = T) → st.length = nS → km.run p ins st = .ok r →
      r.outputs.length ≤ nO ∧ (∀ ser ∈ r.outputs, ser.length ≤ T) ∧ r.states.length ≤ nS)
    {ss : List (List α)} {os : List (List (List α))}
    (hrun : runCells km spec lay (mat pst pb rows nSets) (cube ist ib nIn nI T) 0 (mat sst sb N nS)
      (cube ost ob M nO T') = .ok (ss, os)) :
    ∃ h' sst' ost', runNdT km.run spec lay nI h parameters inputs states outputs = .ok h' ∧ SameShape h h' ∧
      h'[states.sid]? = some sst' ∧ h'[outputs.sid]? = some ost' ∧
      (∀ u, u ≠ states.sid → u ≠ outputs.sid → h'[u]? = h[u]?) ∧
      mat sst' sb N nS = ss ∧ cube ost' ob M nO T' = os ∧
      (∀ q, (q < sb ∨ sb + N * nS ≤ q) → sst'[q]? = sst[q]?) ∧
      (∀ q, (q < ob ∨ ob + N * (nO * T') ≤ q) → ost'[q]? = ost[q]?) :=
  runNdT_eq_runCells km rp ri rs ro hpb hib hsb hob hp hi hs ho hso hps hpo his hio spec lay wf hSc hTb hNM hT hK hrun

/-! ### the new view-level step generalises the frozen one -/

omit [Num α] in
theorem decodeNd_scalar [Num α] (h : Heap α) (parameters : Arr) (i : Int) :
    ∀ (js : List Nat) (acc vals : List α),
      decodeNd h parameters i (js.map fun j => ((none : Option Nat), (j, 1))) acc vals =
        (mapR (fun (j : Nat) => scalarParam h parameters (j : Int) i) js).map (acc ++ ·)
  | [], acc, _ => by simp [decodeNd, mapR, Except.map]
  | j :: js, acc, vals => by
    simp only [List.map_cons, decodeNd, mapR]
    cases hx : scalarParam h parameters (j : Int) i with
    | error e => rfl
    | ok x =>
      simp only [bind, Except.bind]
      rw [decodeNd_scalar h parameters i js]
      cases mapR (fun (j : Nat) => scalarParam h parameters (j : Int) i) js <;>
        simp [Except.map, pure, Except.pure]

/-- **cellStepNdT_scalar.** On an all-scalar spec with parameter `j` in row `j` the view-level step with tables IS the
step `cellStepNd` of `OW/Sim/WrapperNd.lean` (so `wrapperNd_refines_tables` specialises to `wrapperNd_refines`). -/
theorem cellStepNdT_scalar (kernel : List α → List (List α) → List α → KRes α) (nP nI : Nat) (h : Heap α)
    (parameters inputs states outputs : Arr) (rd : RunDims) (i : Int) :
    cellStepNdT kernel (List.replicate nP none) ((List.range nP).map fun j => (j, 1)) nI h parameters inputs states
      outputs rd i = cellStepNd kernel nP nI h parameters inputs states outputs rd i := by
  have hz : ∀ n : Nat, (List.replicate n (none : Option Nat)).zip ((List.range n).map fun j => (j, 1)) =
      (List.range n).map fun j => ((none : Option Nat), (j, 1)) := by
    intro n
    induction n with
    | zero => simp
    | succ n ih =>
      rw [List.replicate_succ', List.range_succ, List.map_append, List.zip_append (by simp), ih, List.map_append]
      simp
  unfold cellStepNdT cellStepNdG cellStepNd
  rw [hz, decodeNd_scalar]
  cases mapR (fun (j : Nat) => scalarParam h parameters (j : Int) i) (List.range nP) <;> rfl

end

/-! ## Non-vacuity: a Storage-like spec `nLVA; levels[nLVA]; volumes[nLVA]` with 2 parameter sets, table lengths 2 and 3

`parameters` is `7 × 2`: row 0 = `nLVA` (`[2, 3]`, so `maxLen = 3`), rows 1–3 = `levels`, rows 4–6 = `volumes`; cell 0 and
cell 2 use set 0 (own length 2), cell 1 uses set 1 (own length 3). The models are executed on `Int` with a toy `Num Int`
(`toInt = id`), only to evaluate them with `decide`. -/
namespace Ex

/-- a toy `Num Int` (what matters here: `toInt := id`, `<`, `zero`); the transcendental fields are dummies -/
@[reducible] def numInt : Num Int :=
  { toAdd := inferInstance, toSub := inferInstance, toMul := inferInstance, toDiv := inferInstance,
    toNeg := inferInstance, toLT := inferInstance, toLE := inferInstance,
    toOfScientific := ⟨fun m _ _ => (m : Int)⟩, toInhabited := inferInstance,
    decLt := fun a b => Int.decLt a b, decLe := fun a b => Int.decLe a b, feq := fun a b => a == b,
    zero := 0, one := 1, ofNat := fun n => (n : Int), ofInt := id, exp := id, pow := fun a _ => a, log := id, log10 := id,
    tanh := id, cos := id, sqrt := id, abs := fun a => (a.natAbs : Int), floor := id, ceil := id, toInt := id,
    isNaN := fun _ => false, nan := 0, gmin := fun a b => if a ≤ b then a else b, gmax := fun a b => if a ≤ b then b else a }

attribute [local instance] numInt

def spec : ParamSpec := [none, some 0, some 0]
def dims : Nat → Nat := fun _ => 3
def lay : List (Nat × Nat) := [(0, 1), (1, 3), (4, 3)]

/-- storage 0: parameters `7 × 2`; storage 1: inputs `2×2×3`; storage 2: states `3×2`; storage 3: outputs `4×1×5` -/
def pst : List Int := [2, 3,  10, 11, 20, 21, 30, 31,  100, 101, 200, 201, 300, 301]
def heap : Heap Int :=
  [pst, (List.range 12).map (fun k => 1000 + Int.ofNat k), [1, 2, 3, 4, 5, 6], List.replicate 20 (-1)]
def pA : Arr := rootArr 0 [7, 2] 14
def iA : Arr := rootArr 1 [2, 2, 3] 12
def sA : Arr := rootArr 2 [3, 2] 6
def oA : Arr := rootArr 3 [4, 1, 5] 20
/-- the row-major denotation of the parameters storage -/
def paramsL : List (List Int) := [[2, 3], [10, 11], [20, 21], [30, 31], [100, 101], [200, 201], [300, 301]]

example : mat pst 0 7 2 = paramsL := by decide
example : tplRows dims spec 0 = lay ∧ tplEnd dims spec 0 = 7 := by decide

theorem specWF : SpecWF spec := by
  intro j k h
  match j, h with
  | 0, h => simp [spec] at h
  | 1, h => simp [spec] at h; subst h; exact ⟨by omega, rfl⟩
  | 2, h => simp [spec] at h; subst h; exact ⟨by omega, rfl⟩
  | n + 3, h => simp [spec] at h

-- (i) the list-level `FindDimensions` computes the template's rows; the theorem applies
example : layout spec paramsL = .ok lay := by decide
example : layout spec paramsL = .ok (tplRows dims spec 0) :=
  layout_tables spec paramsL dims specWF
    (by
      intro j k h
      match j, h with
      | 0, h => simp [spec] at h
      | 1, h => simp [spec] at h; subst h; exact ⟨0, by decide, by decide⟩
      | 2, h => simp [spec] at h; subst h; exact ⟨0, by decide, by decide⟩
      | n + 3, h => simp [spec] at h)
    (by decide)

-- (ii) the list-level columns: cell 0 (set 0, own length 2), cell 1 (set 1, own length 3), cell 2 (set 0 again)
example : cellParams spec lay paramsL 0 = .ok [2, 10, 20, 100, 200] ∧
    cellParams spec lay paramsL 1 = .ok [3, 11, 21, 31, 101, 201, 301] ∧
    cellParams spec lay paramsL 2 = .ok [2, 10, 20, 100, 200] := by decide
example : (spec.zip lay).flatMap (entries paramsL lay 1) = [3, 11, 21, 31, 101, 201, 301] ∧
    ownLenZ paramsL 0 (rowOf lay 0) = 2 ∧ ownLenZ paramsL 1 (rowOf lay 0) = 3 := by decide

-- (iii) the view level: the same columns through `scalarParam` / `tableParam` + `readTable`
example : decodeNd heap pA 0 (spec.zip lay) [] [] = .ok [2, 10, 20, 100, 200] ∧
    decodeNd heap pA 1 (spec.zip lay) [] [] = .ok [3, 11, 21, 31, 101, 201, 301] := by decide

theorem rp : RootOn heap pA [((7 : Nat) : Int), ((2 : Nat) : Int)] :=
  (rootOn_rootArr (st := pst) (by simp) (by simp [Pos]) rfl (by decide)).2
theorem ri : RootOn heap iA [((2 : Nat) : Int), ((2 : Nat) : Int), ((3 : Nat) : Int)] :=
  (rootOn_rootArr (st := heap[1]) (by simp) (by simp [Pos]) rfl (by decide)).2
theorem rs : RootOn heap sA [((3 : Nat) : Int), ((2 : Nat) : Int)] :=
  (rootOn_rootArr (st := heap[2]) (by simp) (by simp [Pos]) rfl (by decide)).2
theorem ro : RootOn heap oA [((4 : Nat) : Int), ((1 : Nat) : Int), ((5 : Nat) : Int)] :=
  (rootOn_rootArr (st := heap[3]) (by simp) (by simp [Pos]) rfl (by decide)).2

theorem hSc : ∀ (j row sz : Nat), spec[j]? = some none → lay[j]? = some (row, sz) → row < 7 := by
  intro j row sz h1 h2
  match j, h1, h2 with
  | 0, _, h2 => simp [lay] at h2; omega
  | 1, h1, _ => simp [spec] at h1
  | 2, h1, _ => simp [spec] at h1
  | n + 3, h1, _ => simp [spec] at h1

theorem hTb (i : Nat) (hi : i < 2) : ∀ (j k row sz : Nat), spec[j]? = some (some k) → lay[j]? = some (row, sz) →
    1 ≤ sz ∧ row + sz ≤ 7 ∧ (ownLenZ (mat pst 0 7 2) i (rowOf lay k)).toNat ≤ sz := by
  intro j k row sz h1 h2
  have hown : (ownLenZ (mat pst 0 7 2) i (rowOf lay 0)).toNat ≤ 3 := by
    match i, hi with
    | 0, _ => decide
    | 1, _ => decide
  match j, h1, h2 with
  | 0, h1, _ => simp [spec] at h1
  | 1, h1, h2 =>
    simp [spec] at h1; simp [lay] at h2; subst h1; obtain ⟨rfl, rfl⟩ := h2; exact ⟨by omega, by omega, hown⟩
  | 2, h1, h2 =>
    simp [spec] at h1; simp [lay] at h2; subst h1; obtain ⟨rfl, rfl⟩ := h2; exact ⟨by omega, by omega, hown⟩
  | n + 3, h1, _ => simp [spec] at h1

example := param_decoding_tables (i := 1) rp rfl rfl spec lay specWF hSc (hTb 1 (by omega))

/-- a toy kernel: the output series is the first input series (at most 3 values) plus the SUM of the parameter column
(so the decoded table entries matter); the new states are the first two old ones -/
def toyKm : KModel Int :=
  { name := "toy", init := fun _ => .ok [],
    run := fun p ins st => .ok { outputs := [((ins.headD []).take 3).map (· + p.foldl (· + ·) 0)], states := st.take 2 } }

theorem toyFits : ∀ p ins st r, ins.length = 2 → (∀ s ∈ ins, s.length = 3) → st.length = 2 → toyKm.run p ins st = .ok r →
    r.outputs.length ≤ 1 ∧ (∀ ser ∈ r.outputs, ser.length ≤ 3) ∧ r.states.length ≤ 2 := by
  intro p ins st r _ _ _ hr
  simp only [toyKm, Except.ok.injEq] at hr
  subst hr
  refine ⟨by simp, fun ser hs => ?_, by simp⟩
  simp only [List.mem_singleton] at hs
  subst hs
  simp

-- one whole cell step of cell 1 (parameter set 1: column sum 3+11+21+31+101+201+301 = 669; input block 1) through the
-- views, evaluated: output row (1,0,·) receives the series in its first 3 positions, nothing else changes
example : (do let rd ← runDims iA sA oA; cellStepNdT toyKm.run spec lay 2 heap pA iA sA oA rd 1) =
    .ok [heap[0], heap[1], [1, 2, 3, 4, 5, 6],
      [-1, -1, -1, -1, -1,  1675, 1676, 1677, -1, -1,  -1, -1, -1, -1, -1,  -1, -1, -1, -1, -1]] := by decide

-- `wrapperNd_refines_tables` instantiated on the concrete heap (cell 1: own table length 3 = maxLen)
example :=
  wrapperNd_refines_tables toyKm (h := heap) (rows := 7) (nSets := 2) (nIn := 2) (nI := 2) (T := 3) (N := 3) (nS := 2)
    (M := 4) (nO := 1) (T' := 5) (i := 1) (pb := 0) (ib := 0) (sb := 0) (ob := 0)
    (parameters := pA) (inputs := iA) (states := sA) (outputs := oA) rp ri rs ro rfl rfl rfl rfl rfl rfl rfl rfl
    (by decide) (by decide) (by decide) (by decide) (runDims_eq rfl rfl rfl) toyFits spec lay specWF hSc (hTb 1 (by omega))

-- … and for cell 0 (own table length 2 < maxLen 3)
example :=
  wrapperNd_refines_tables toyKm (h := heap) (rows := 7) (nSets := 2) (nIn := 2) (nI := 2) (T := 3) (N := 3) (nS := 2)
    (M := 4) (nO := 1) (T' := 5) (i := 0) (pb := 0) (ib := 0) (sb := 0) (ob := 0)
    (parameters := pA) (inputs := iA) (states := sA) (outputs := oA) rp ri rs ro rfl rfl rfl rfl rfl rfl rfl rfl
    (by decide) (by decide) (by decide) (by decide) (runDims_eq rfl rfl rfl) toyFits spec lay specWF hSc (hTb 0 (by omega))

-- the whole `Run` (3 cells; 2 parameter sets and 2 input blocks reused cyclically: cells 0 and 2 use set 0 / block 0 with
-- column sum 332, cell 1 set 1 / block 1 with column sum 669) through the views, evaluated; and the list level
example : runNdT toyKm.run spec lay 2 heap pA iA sA oA =
    .ok [heap[0], heap[1], [1, 2, 3, 4, 5, 6],
      [1332, 1333, 1334, -1, -1,  1675, 1676, 1677, -1, -1,  1332, 1333, 1334, -1, -1,  -1, -1, -1, -1, -1]] := by decide

theorem toy_runCells : runCells toyKm spec lay (mat pst 0 7 2) (cube heap[1] 0 2 2 3) 0 (mat heap[2] 0 3 2)
    (cube heap[3] 0 4 1 5) =
    .ok ([[1, 2], [3, 4], [5, 6]],
      [[[1332, 1333, 1334, -1, -1]], [[1675, 1676, 1677, -1, -1]], [[1332, 1333, 1334, -1, -1]], [[-1, -1, -1, -1, -1]]]) := by
  decide

-- `runNd_refines_tables` instantiated: the list-level run succeeds, so the theorem applies
example :=
  runNd_refines_tables toyKm (h := heap) (rows := 7) (nSets := 2) (nIn := 2) (nI := 2) (T := 3) (N := 3) (nS := 2)
    (M := 4) (nO := 1) (T' := 5) (pb := 0) (ib := 0) (sb := 0) (ob := 0)
    (parameters := pA) (inputs := iA) (states := sA) (outputs := oA) rp ri rs ro rfl rfl rfl rfl rfl rfl rfl rfl
    (by decide) (by decide) (by decide) (by decide) (by decide) spec lay specWF hSc
    (fun i hi => by
      match i, hi with
      | 0, _ => exact hTb 0 (by omega)
      | 1, _ => exact hTb 1 (by omega)
      | 2, _ =>
        intro j k row sz h1 h2
        have hown : (ownLenZ (mat pst 0 7 2) 2 (rowOf lay 0)).toNat ≤ 3 := by decide
        match j, h1, h2 with
        | 0, h1, _ => simp [spec] at h1
        | 1, h1, h2 =>
          simp [spec] at h1; simp [lay] at h2; subst h1; obtain ⟨rfl, rfl⟩ := h2; exact ⟨by omega, by omega, hown⟩
        | 2, h1, h2 =>
          simp [spec] at h1; simp [lay] at h2; subst h1; obtain ⟨rfl, rfl⟩ := h2; exact ⟨by omega, by omega, hown⟩
        | n + 3, h1, _ => simp [spec] at h1)
    (by decide) (by decide) toyFits toy_runCells

/-- outside the hypothesis `ownLen_i ≤ maxLen` (the table laid out in FEWER rows than the cell's own length: `size = 2`,
own length 3) both levels fail alike: the list level by its explicit check, the view level because the `ApplyParameters`
view is a Go slice of `size · nSets` elements and `Get1(2)` indexes past it. -/
example : cellParams spec [(0, 1), (1, 2), (3, 2)] paramsL 1 = .error "index-out-of-range" ∧
    decodeNd heap pA 1 (spec.zip [(0, 1), (1, 2), (3, 2)]) [] [] = .error "index-out-of-range" := by decide

end Ex

end OW.Props.C04NdTables
