import OW.Proofs.C12Scan
import OW.Proofs.C12Lumped
import OW.Proofs.C12Decay
import OW.Proofs.C12Trapping
import OW.Proofs.C12PN
import OW.Proofs.C12Fine
import OW.Proofs.C12FineExamples
import OW.Proofs.C12Zip
/-!
# C12 — constituent transport and trapping models conserve mass

Theorems over the kernel models of `OW/Kernels/{LumpedConstituent, ConstituentDecay, InstreamCoarseSediment,
InstreamFineSediment, InstreamParticulateNutrient, StorageParticulateTrapping, StorageTrapAll,
StorageDissolvedDecay}.lean` instantiated at `ℝ` (exact arithmetic; IEEE rounding is covered by execution only).

Shape of every `budget_M`: for EVERY input list `xs` and EVERY initial state (so also for every prefix of every run —
`prefix_run_outputs`: the outputs of the run on `xs.take n` are the first `n` outputs of the run on `xs`)

    stored₀ + Σ massIn·Δt = stored_final + Σ (massOut·Δt + deposited/trapped/decayed/floodplain + flushed)

where `flushed` is the ghost output of the model's minimum-volume branch, together with the statement that `flushed`
can be non-zero only on a step whose working volume is below the threshold. Every division executed by a kernel
has a divisor that is proved non-zero from the branch condition or from a stated parameter range (`divisors_pos_*`).
`nonneg_M`: loads and stores stay non-negative for non-negative inputs and parameters in range.
ASSUMPTION "equal series lengths". The theorems quantify over the list `xs` of per-step input tuples. `KModel.run`
builds it from the input series with `zip3/zip4/zip5/zipIn`, which TRUNCATE to the shortest series, where the Go
kernel loops to the length of its first series and panics (`index out of range`) on a shorter one. So the theorems
speak about calls whose input series have one common length — which is every `xs` (`zipN_columns`: each `xs` is the
zip of its own columns; `zipN_faithful`: for equal lengths the zip has that length and those columns) — and say
nothing about calls with unequal lengths (there the model is shorter than the code's panic; the generated wrapper
never makes such a call: the series of a cell are rows of one `[cell, input, time]` array). `StorageTrapAll` reads one
series only and is stated on `model.run` itself.
The models are the code AFTER the repairs in /verif/fixes (see the kernel files); the pinned code violates the budget
in `InstreamFineSediment` for bank-full flow 0 (drops the reach-local mass) and produces NaN for
`outflow == bankFullFlow` without floodplain — both reported by the C12 oracle with a failing input.
-/
namespace OW.Props.C12
open OW OW.Kernels OW.C12

/-- **Every prefix.** Running a kernel loop on a prefix of the inputs yields the prefix of the outputs, so each
`budget_M`/`nonneg_M` below (stated for an arbitrary input list) holds for every prefix of every run. -/
theorem prefix_run_outputs {σ ι ο : Type} (step : σ → ι → σ × ο) (s : σ) (xs : List ι) (n : Nat) :
    (scan step s (xs.take n)).2 = (scan step s xs).2.take n :=
  scan_take step s xs n

/-! ## LumpedConstituentRouting (inputs: inflowLoad, lateralLoad, outflow, storage) -/

/-- **budget_LumpedConstituentRouting.** No hypothesis: any point input, time step, initial store and input series.
Mass in (inflow + lateral + point source)·Δt plus the initial store = final store + Σ (downstream load·Δt + flushed);
`flushed ≠ 0` only where `outflow·Δt + storage < 0.01` (MINIMUM_VOLUME). -/
theorem budget_LumpedConstituentRouting (pointInput dt s0 : ℝ) (xs : List (ℝ × ℝ × ℝ × ℝ)) :
    s0 + (xs.map fun x => (x.1 + x.2.1 + pointInput) * dt).sum =
      (LumpedConstituent.run pointInput dt s0 xs).1 +
        ((LumpedConstituent.run pointInput dt s0 xs).2.map fun o => o.outflowLoad * dt + o.flushed).sum ∧
    List.Forall₂ (fun x o => o.flushed ≠ 0 → x.2.2.1 * dt + x.2.2.2 < 0.01) xs
      (LumpedConstituent.run pointInput dt s0 xs).2 :=
  lumped_run pointInput dt s0 xs

/-- **nonneg_LumpedConstituentRouting.** Non-negative point input, Δt, initial store and inputs ⇒ the store, every
downstream load and every flushed amount are non-negative. -/
theorem nonneg_LumpedConstituentRouting (pointInput dt s0 : ℝ) (xs : List (ℝ × ℝ × ℝ × ℝ))
    (hpi : 0 ≤ pointInput) (hdt : 0 ≤ dt) (hs : 0 ≤ s0)
    (hx : ∀ x ∈ xs, 0 ≤ x.1 ∧ 0 ≤ x.2.1 ∧ 0 ≤ x.2.2.1 ∧ 0 ≤ x.2.2.2) :
    0 ≤ (LumpedConstituent.run pointInput dt s0 xs).1 ∧
    ∀ o ∈ (LumpedConstituent.run pointInput dt s0 xs).2, 0 ≤ o.outflowLoad ∧ 0 ≤ o.flushed :=
  lumped_run_nonneg pointInput dt s0 xs hpi hdt hs hx

/-- the concentration divisor of the lumped model (also used by the dissolved and fine-sediment models) is positive
on the branch that divides -/
theorem divisors_pos_LumpedConstituentRouting (dt q v : ℝ) (h : ¬ q * dt + v < 0.01) : 0 < q * dt + v :=
  lumped_divisor_pos dt q v h

/-- non-vacuity: a wet step followed by a step below the minimum volume; the second step flushes 500 kg -/
example :
    ((LumpedConstituent.run 0 10 0 [((100 : ℝ), 0, 5, 50), (0, 0, 0, 0)]).2.map fun o => o.flushed) = [0, 500] ∧
    ((LumpedConstituent.run 0 10 0 [((100 : ℝ), 0, 5, 50), (0, 0, 0, 0)]).2.map fun o => o.outflowLoad) = [50, 0] := by
  simp only [LumpedConstituent.run, scan, LumpedConstituent.step, LumpedConstituent.minimumVolume]
  realnum
  norm_num

example : 0 ≤ (LumpedConstituent.run 0.1 86400 3 [((1 : ℝ), 2, 0.5, 1000), (0, 0, 0, 0)]).1 :=
  (nonneg_LumpedConstituentRouting 0.1 86400 3 _ (by norm_num) (by norm_num) (by norm_num)
    (List.forall_mem_cons.mpr ⟨by norm_num, List.forall_mem_cons.mpr ⟨by norm_num, fun _ h => absurd h List.not_mem_nil⟩⟩)).1

/-! ## ConstituentDecay (inputs: inflowLoad, lateralLoad, inflow, outflow, storage) -/

/-- **budget_ConstituentDecay.** Hypothesis: Δt ≠ 0 (the divisor of `decayedLoad = decayedAmount/Δt`; the half-life
divides only on the branch `halflife > 0`, the working volume only on the branch `≥ 0.01`). Any half-life (decay on or
off), any store, any inputs. -/
theorem budget_ConstituentDecay (halflife dt s0 : ℝ) (xs : List (ℝ × ℝ × ℝ × ℝ × ℝ)) (hdt : dt ≠ 0) :
    s0 + (xs.map fun x => x.1 * dt + x.2.1 * dt).sum =
      (ConstituentDecay.run halflife dt s0 xs).1 +
        ((ConstituentDecay.run halflife dt s0 xs).2.map fun o =>
          o.outflowLoad * dt + o.decayedLoad * dt + o.flushed).sum ∧
    List.Forall₂ (fun x o => o.flushed ≠ 0 → x.2.2.2.1 * dt + x.2.2.2.2 < 0.01) xs
      (ConstituentDecay.run halflife dt s0 xs).2 :=
  decay_run halflife dt s0 xs hdt

/-- **nonneg_ConstituentDecay.** Δt > 0, non-negative store and inputs ⇒ store, downstream load, decayed load and
flushed amount non-negative (uses `0 < 2^(−Δt/halflife) ≤ 1`). -/
theorem nonneg_ConstituentDecay (halflife dt s0 : ℝ) (xs : List (ℝ × ℝ × ℝ × ℝ × ℝ)) (hdt : 0 < dt) (hs : 0 ≤ s0)
    (hx : ∀ x ∈ xs, 0 ≤ x.1 ∧ 0 ≤ x.2.1 ∧ 0 ≤ x.2.2.2.1 ∧ 0 ≤ x.2.2.2.2) :
    0 ≤ (ConstituentDecay.run halflife dt s0 xs).1 ∧
    ∀ o ∈ (ConstituentDecay.run halflife dt s0 xs).2, 0 ≤ o.outflowLoad ∧ 0 ≤ o.decayedLoad ∧ 0 ≤ o.flushed :=
  decay_run_nonneg halflife dt s0 xs hdt hs hx

/-- non-vacuity: half-life = Δt halves the store: 8 kg stored, nothing coming in, no water ⇒ 4 kg decayed (rate 4/Δt),
4 kg flushed -/
example :
    ((ConstituentDecay.run 2 2 8 [((0 : ℝ), 0, 0, 0, 0)]).2.map fun o => (o.decayedLoad, o.flushed)) = [(2, 4)] := by
  simp only [ConstituentDecay.run, scan, ConstituentDecay.step, ConstituentDecay.decay, ConstituentDecay.minimumVolume]
  realnum
  have h : ((2.0 : ℝ)) ^ (-(2 : ℝ) / 2) = 1 / 2 := by
    rw [show (-(2 : ℝ) / 2) = -1 by norm_num, show ((2.0 : ℝ)) = 2 by norm_num, Real.rpow_neg_one]; norm_num
  norm_num [h]

example : 0 ≤ (ConstituentDecay.run 86400 86400 3 [((1 : ℝ), 2, 7, 0.5, 1000)]).1 :=
  (nonneg_ConstituentDecay 86400 86400 3 _ (by norm_num) (by norm_num)
    (List.forall_mem_cons.mpr ⟨by norm_num, fun _ h => absurd h List.not_mem_nil⟩)).1

/-! ## InstreamCoarseSediment (inputs: upstreamMass, lateralMass, reachLocalMass; state: channelStore, storedMass) -/

/-- **budget_InstreamCoarseSediment.** No hypothesis. Everything that enters (and anything stored in-stream) ends in
the channel store; the downstream load is identically 0. -/
theorem budget_InstreamCoarseSediment (dt : ℝ) (st : ℝ × ℝ) (xs : List (ℝ × ℝ × ℝ)) :
    st.1 + st.2 + (xs.map fun x => (x.1 + x.2.1 + x.2.2) * dt).sum =
      (InstreamCoarseSediment.run dt st xs).1.1 + (InstreamCoarseSediment.run dt st xs).1.2 +
        ((InstreamCoarseSediment.run dt st xs).2.map fun o => o.loadDownstream * dt).sum ∧
    List.Forall₂ (fun _ o => o.loadDownstream = 0) xs (InstreamCoarseSediment.run dt st xs).2 :=
  coarse_run dt st xs

/-- **nonneg_InstreamCoarseSediment.** -/
theorem nonneg_InstreamCoarseSediment (dt : ℝ) (st : ℝ × ℝ) (xs : List (ℝ × ℝ × ℝ)) (hdt : 0 ≤ dt)
    (h1 : 0 ≤ st.1) (h2 : 0 ≤ st.2) (hx : ∀ x ∈ xs, 0 ≤ x.1 ∧ 0 ≤ x.2.1 ∧ 0 ≤ x.2.2) :
    0 ≤ (InstreamCoarseSediment.run dt st xs).1.1 ∧ 0 ≤ (InstreamCoarseSediment.run dt st xs).1.2 ∧
    ∀ o ∈ (InstreamCoarseSediment.run dt st xs).2, 0 ≤ o.loadDownstream ∧ 0 ≤ o.deposited :=
  coarse_run_nonneg dt st xs hdt h1 h2 hx

example : (InstreamCoarseSediment.run 10 (5, 7) [((1 : ℝ), 2, 3)]).1 = (72, 0) := by
  simp only [InstreamCoarseSediment.run, scan, InstreamCoarseSediment.step]
  realnum
  norm_num

/-! ## InstreamFineSediment (inputs: upstreamMass, lateralMass, reachLocalMass, reachVolume, outflow;
state: channelStoreFine, totalStoredMass) -/

open InstreamFineSediment (Params) in
/-- **budget_InstreamFineSediment.** Hypothesis: Δt ≠ 0 (divisor of `loadToFloodplain`).
What is proved about divisors — exactly: the budget identity cancels THREE divisions and each of those divisors is
non-zero inside the proof: Δt (this hypothesis; `fp/Δt·Δt = fp`), `totalVolume` on the branch `totalVolume > 0` of the
main path (`conc·totalVolume`), and the working volume on the branch `¬ workingVol < 0.01` of the bank-full-flow-0
path (`lumped_step`). NOTHING is claimed here about the other divisors of the kernel: `floodPlainDepositionEmperical`
(divisors `outflow`, `Qf = outflow − bankFullFlow`) and `inChannelStorage` (divisor `v·width^0.4·n^0.6` of the
transport capacity, twice) are opaque values in this proof (`generalize`d in `fine_stepMain_budget`) — the identity
holds WHATEVER they return, so also for `fineSedSettVelocity = 0`, `fineSedReMobVelocity = 0`, `linkWidth = 0` or
`manningsN = 0`, where ℝ's `x/0 = 0` gives a finite capacity and float64 gives ±Inf/NaN (no sign hypothesis excludes
them here; the theorem is then about the ℝ model only). The two ratio outputs (divisor `combined > 0` on its branch)
do not enter the budget. Those divisors are treated where the parameter ranges are: `outflow` and `Qf` are positive
on the dividing branch of the main path by the branch conditions alone (`divisors_branch_InstreamFineSediment`);
the transport-capacity divisor is positive under `FineRange` (`divisors_pos_InstreamFineSediment` — a hypothesis on
the parameters, not a branch condition of the code), and `nonneg_InstreamFineSediment` is the theorem that assumes it.
Both paths (bank-full flow ≤ 1e-8: lumped routing of everything that enters; otherwise floodplain deposition and
channel-store exchange), any parameters, stores, inputs. With `start` = the state the loop starts from (a negative
initial channel store is read as a proportion of the maximum):
* in-stream: `stored₀ + Σ(up+lat+local)·Δt = stored_final + Σ(down·Δt + floodplain·Δt + netChannelDeposition + flushed)`
* channel + in-stream together: `channel₀ + stored₀ + Σ in = channel_final + stored_final + Σ(down·Δt + floodplain·Δt + flushed)`
* `flushed ≠ 0` only below the minimum volume — on the main path only with no water at all. -/
theorem budget_InstreamFineSediment (p : Params ℝ) (st : ℝ × ℝ) (xs : List (ℝ × ℝ × ℝ × ℝ × ℝ))
    (hdt : p.durationInSeconds ≠ 0) :
    (InstreamFineSediment.start p st).2 + (xs.map fun x => (x.1 + x.2.1 + x.2.2.1) * p.durationInSeconds).sum =
      (InstreamFineSediment.run p st xs).1.2 +
        ((InstreamFineSediment.run p st xs).2.map fun o =>
          o.loadDownstream * p.durationInSeconds + o.loadToFloodplain * p.durationInSeconds +
          o.loadToChannelDeposition + o.flushed).sum ∧
    (InstreamFineSediment.start p st).1 + (InstreamFineSediment.start p st).2 +
        (xs.map fun x => (x.1 + x.2.1 + x.2.2.1) * p.durationInSeconds).sum =
      (InstreamFineSediment.run p st xs).1.1 + (InstreamFineSediment.run p st xs).1.2 +
        ((InstreamFineSediment.run p st xs).2.map fun o =>
          o.loadDownstream * p.durationInSeconds + o.loadToFloodplain * p.durationInSeconds + o.flushed).sum ∧
    List.Forall₂ (fun x o => o.flushed ≠ 0 →
        x.2.2.2.1 + x.2.2.2.2 * p.durationInSeconds < 0.01 ∧
        (¬ p.bankFullFlow ≤ 1e-8 → x.2.2.2.1 + x.2.2.2.2 * p.durationInSeconds ≤ 0)) xs
      (InstreamFineSediment.run p st xs).2 := by
  unfold InstreamFineSediment.run
  generalize InstreamFineSediment.start p st = s0
  -- one step of `step p` from any state
  have hstep : ∀ (s : ℝ × ℝ) (x : ℝ × ℝ × ℝ × ℝ × ℝ),
      s.2 + (x.1 + x.2.1 + x.2.2.1) * p.durationInSeconds =
        (InstreamFineSediment.step p s x).1.2 +
          ((InstreamFineSediment.step p s x).2.loadDownstream * p.durationInSeconds +
           (InstreamFineSediment.step p s x).2.loadToFloodplain * p.durationInSeconds +
           (InstreamFineSediment.step p s x).2.loadToChannelDeposition + (InstreamFineSediment.step p s x).2.flushed) ∧
      (InstreamFineSediment.step p s x).1.1 = s.1 + (InstreamFineSediment.step p s x).2.loadToChannelDeposition ∧
      ((InstreamFineSediment.step p s x).2.flushed ≠ 0 →
        x.2.2.2.1 + x.2.2.2.2 * p.durationInSeconds < 0.01 ∧
        (¬ p.bankFullFlow ≤ 1e-8 → x.2.2.2.1 + x.2.2.2.2 * p.durationInSeconds ≤ 0)) := by
    rintro ⟨cs, s⟩ ⟨up, lat, loc, vol, q⟩
    by_cases hl : p.bankFullFlow ≤ 1e-8
    · rw [(fine_step_lumped p hl).1]
      obtain ⟨a, b, c, _⟩ := fine_stepLumped_facts p cs s up lat loc vol q
      exact ⟨a, b, fun hf => ⟨by have := c hf; linarith, fun hn => absurd hl hn⟩⟩
    · rw [(fine_step_main p hl).1]
      obtain ⟨a, b, c⟩ := fine_stepMain_budget p cs s up lat loc vol q hdt
      exact ⟨a, b, fun hf => ⟨by have := c hf; norm_num; linarith, fun _ => c hf⟩⟩
  have h1 := scan_budget (InstreamFineSediment.step p) (fun _ => True) (fun _ => True) (fun s => s.2)
    (fun x => (x.1 + x.2.1 + x.2.2.1) * p.durationInSeconds)
    (fun o => o.loadDownstream * p.durationInSeconds + o.loadToFloodplain * p.durationInSeconds +
      o.loadToChannelDeposition + o.flushed)
    (fun x o => o.flushed ≠ 0 → x.2.2.2.1 + x.2.2.2.2 * p.durationInSeconds < 0.01 ∧
        (¬ p.bankFullFlow ≤ 1e-8 → x.2.2.2.1 + x.2.2.2.2 * p.durationInSeconds ≤ 0))
    (fun s x _ _ => ⟨trivial, (hstep s x).1, (hstep s x).2.2⟩) xs s0 trivial (fun _ _ => trivial)
  have h2 := scan_budget (InstreamFineSediment.step p) (fun _ => True) (fun _ => True) (fun s => s.1 + s.2)
    (fun x => (x.1 + x.2.1 + x.2.2.1) * p.durationInSeconds)
    (fun o => o.loadDownstream * p.durationInSeconds + o.loadToFloodplain * p.durationInSeconds + o.flushed)
    (fun _ _ => True)
    (fun s x _ _ => ⟨trivial, by have := (hstep s x).1; have := (hstep s x).2.1; linarith, trivial⟩)
    xs s0 trivial (fun _ _ => trivial)
  exact ⟨h1.2.1, h2.2.1, h1.2.2⟩

open InstreamFineSediment (Params) in
/-- **nonneg_InstreamFineSediment** and **remob_le_store** (run level). Parameters in range (`FineRange`: flows,
velocities, areas, geometry non-negative, the divisors `fineSedSettVelocity, fineSedReMobVelocity, linkWidth, manningsN`
and Δt positive), non-negative initial in-stream store (ANY initial channel store: negative means a proportion),
non-negative inputs. Then at every step of every run: both stores are non-negative, the downstream load, the
floodplain load and the flushed amount are non-negative, the remobilised amount (−net deposition) is at most what the
channel store held before the step, and deposition never takes the store above max(store before, capacity). -/
theorem nonneg_InstreamFineSediment (p : Params ℝ) (hr : FineRange p) (st : ℝ × ℝ)
    (xs : List (ℝ × ℝ × ℝ × ℝ × ℝ)) (hs : 0 ≤ st.2) (hcs : p.bankFullFlow ≤ 1e-8 → 0 ≤ st.1)
    (hx : ∀ x ∈ xs, 0 ≤ x.1 ∧ 0 ≤ x.2.1 ∧ 0 ≤ x.2.2.1 ∧ 0 ≤ x.2.2.2.1 ∧ 0 ≤ x.2.2.2.2) :
    0 ≤ (InstreamFineSediment.run p st xs).1.1 ∧ 0 ≤ (InstreamFineSediment.run p st xs).1.2 ∧
    List.Forall₂ (fun (sx : (ℝ × ℝ) × (ℝ × ℝ × ℝ × ℝ × ℝ)) o =>
        0 ≤ o.loadDownstream ∧ 0 ≤ o.loadToFloodplain ∧ 0 ≤ o.flushed ∧
        -o.loadToChannelDeposition ≤ sx.1.1 ∧
        sx.1.1 + o.loadToChannelDeposition ≤ max sx.1.1 (InstreamFineSediment.maxStorage p))
      ((preStates (InstreamFineSediment.step p) (InstreamFineSediment.start p st) xs).zip xs)
      (InstreamFineSediment.run p st xs).2 := by
  unfold InstreamFineSediment.run
  have hstart : 0 ≤ (InstreamFineSediment.start p st).1 ∧ 0 ≤ (InstreamFineSediment.start p st).2 := by
    by_cases hl : p.bankFullFlow ≤ 1e-8
    · rw [(fine_step_lumped p hl).2]; exact ⟨hcs hl, hs⟩
    · rw [(fine_step_main p hl).2]; exact ⟨fine_initStore_nonneg p hr.maxS _, hs⟩
  generalize InstreamFineSediment.start p st = s0 at hstart ⊢
  have hstep : ∀ (s : ℝ × ℝ) (x : ℝ × ℝ × ℝ × ℝ × ℝ), (0 ≤ s.1 ∧ 0 ≤ s.2) →
      (0 ≤ x.1 ∧ 0 ≤ x.2.1 ∧ 0 ≤ x.2.2.1 ∧ 0 ≤ x.2.2.2.1 ∧ 0 ≤ x.2.2.2.2) →
      (0 ≤ (InstreamFineSediment.step p s x).1.1 ∧ 0 ≤ (InstreamFineSediment.step p s x).1.2) ∧
      (0 ≤ (InstreamFineSediment.step p s x).2.loadDownstream ∧ 0 ≤ (InstreamFineSediment.step p s x).2.loadToFloodplain ∧
       0 ≤ (InstreamFineSediment.step p s x).2.flushed ∧
       -(InstreamFineSediment.step p s x).2.loadToChannelDeposition ≤ s.1 ∧
       s.1 + (InstreamFineSediment.step p s x).2.loadToChannelDeposition ≤ max s.1 (InstreamFineSediment.maxStorage p)) := by
    rintro ⟨cs, s⟩ ⟨up, lat, loc, vol, q⟩ ⟨i1, i2⟩ ⟨a, b, c, d, e⟩
    by_cases hl : p.bankFullFlow ≤ 1e-8
    · rw [(fine_step_lumped p hl).1]
      obtain ⟨_, k, _, n⟩ := fine_stepLumped_facts p cs s up lat loc vol q
      obtain ⟨n1, n2, n3, n4, n5, n6, n7⟩ := n (le_of_lt hr.dt) i1 i2 a b c d e
      exact ⟨⟨n1, n2⟩, n3, n4, n5, n6, by rw [← k]; exact n7⟩
    · rw [(fine_step_main p hl).1]
      have hb : 0 < p.bankFullFlow := by
        have : (1e-8 : ℝ) < p.bankFullFlow := not_le.mp hl
        have h8 : (0 : ℝ) < 1e-8 := by norm_num
        linarith
      obtain ⟨_, k, _⟩ := fine_stepMain_budget p cs s up lat loc vol q (ne_of_gt hr.dt)
      obtain ⟨n1, n2, n3, n4, n5, n6, n7⟩ := fine_stepMain_nonneg p hr hb cs s up lat loc vol q i1 i2 a b c d e
      exact ⟨⟨n1, n2⟩, n3, n4, n5, n6, by rw [← k]; exact n7⟩
  have h1 := scan_budget (InstreamFineSediment.step p) (fun s => 0 ≤ s.1 ∧ 0 ≤ s.2)
    (fun x => 0 ≤ x.1 ∧ 0 ≤ x.2.1 ∧ 0 ≤ x.2.2.1 ∧ 0 ≤ x.2.2.2.1 ∧ 0 ≤ x.2.2.2.2) (fun _ => 0) (fun _ => 0) (fun _ => 0)
    (fun _ _ => True) (fun s x hs hx => ⟨(hstep s x hs hx).1, by simp, trivial⟩) xs s0 hstart hx
  have h2 := scan_state_rel (InstreamFineSediment.step p) (fun s => 0 ≤ s.1 ∧ 0 ≤ s.2)
    (fun x => 0 ≤ x.1 ∧ 0 ≤ x.2.1 ∧ 0 ≤ x.2.2.1 ∧ 0 ≤ x.2.2.2.1 ∧ 0 ≤ x.2.2.2.2)
    (fun s _ o => 0 ≤ o.loadDownstream ∧ 0 ≤ o.loadToFloodplain ∧ 0 ≤ o.flushed ∧
        -o.loadToChannelDeposition ≤ s.1 ∧ s.1 + o.loadToChannelDeposition ≤ max s.1 (InstreamFineSediment.maxStorage p))
    (fun s x hs hx => hstep s x hs hx) xs s0 hstart hx
  exact ⟨h1.1.1, h1.1.2, h2⟩

open InstreamFineSediment (Params) in
/-- **remob_le_store** (one step, from any state): for parameters in range, a non-negative channel store and mass
present, the amount `inChannelStorage` remobilises (the negated net deposition) never exceeds the channel store, and
the amount it deposits never exceeds the mass present. -/
theorem remob_le_store (q totalVolume mass store w slope n vs vr maxS : ℝ) (hq : 0 ≤ q) (hsl : 0 ≤ slope)
    (hw : 0 < w) (hn : 0 < n) (hvs : 0 < vs) (hvr : 0 < vr) (hm : 0 ≤ mass) (hst : 0 ≤ store) (hmax : 0 ≤ maxS) :
    -(InstreamFineSediment.inChannelStorage q totalVolume mass store w slope n vs vr maxS) ≤ store ∧
    InstreamFineSediment.inChannelStorage q totalVolume mass store w slope n vs vr maxS ≤ mass :=
  ⟨(fine_inChannel_facts q totalVolume mass store w slope n vs vr maxS hq hsl hw hn hvs hvr hm hst hmax).2.1,
   (fine_inChannel_facts q totalVolume mass store w slope n vs vr maxS hq hsl hw hn hvs hvr hm hst hmax).1⟩

/-- the divisors of the fine-sediment formulas are positive for NUMBERS in the stated ranges (this lemma does not
mention the kernel): the transport-capacity divisor `v·width^0.4·n^0.6` for positive velocity, width, roughness —
parameter hypotheses (`FineRange`), the code has no branch protecting it; `outflow` and `Qf = outflow − bankFullFlow`
for `outflow > bankFullFlow > 0` — tied to the kernel's own branch conditions by
`divisors_branch_InstreamFineSediment` below -/
theorem divisors_pos_InstreamFineSediment (v w n q bff : ℝ) (hv : 0 < v) (hw : 0 < w) (hn : 0 < n)
    (hb : 0 < bff) (hq : bff < q) :
    0 < v * w ^ (0.4 : ℝ) * n ^ (0.6 : ℝ) ∧ 0 < q ∧ 0 < q - bff :=
  ⟨fine_stc_divisor_pos v w n hv hw hn, by linarith, by linarith⟩

open InstreamFineSediment (Params) in
/-- the two divisors of the (repaired) floodplain deposition, from the code's branch conditions only: on the main
path (`¬ bankFullFlow ≤ 1e-8`) the function divides exactly when its guard
`outflow ≤ bankFullFlow || bankFullFlow == 0` is false, and then `outflow > 0` and `Qf = outflow − bankFullFlow > 0`;
when the guard is true it returns the literal 0 without dividing. No parameter range is assumed. -/
theorem divisors_branch_InstreamFineSediment (p : Params ℝ) (hmain : ¬ p.bankFullFlow ≤ 1e-8) (q total : ℝ) :
    (¬ (q ≤ p.bankFullFlow ∨ p.bankFullFlow = 0) → 0 < q ∧ 0 < q - p.bankFullFlow) ∧
    ((q ≤ p.bankFullFlow ∨ p.bankFullFlow = 0) →
      InstreamFineSediment.floodPlainDepositionEmperical q total p.bankFullFlow p.fineSedSettVelocityFlood
        p.floodPlainArea = 0) := by
  have hb : 0 < p.bankFullFlow := by
    have : (1e-8 : ℝ) < p.bankFullFlow := not_le.mp hmain
    have h8 : (0 : ℝ) < 1e-8 := by norm_num
    linarith
  refine ⟨fun h => ?_, fun h => ?_⟩
  · have hq : p.bankFullFlow < q := not_le.mp (fun hle => h (Or.inl hle))
    exact ⟨by linarith, by linarith⟩
  · unfold InstreamFineSediment.floodPlainDepositionEmperical
    have hg : (decide (q ≤ p.bankFullFlow) || Num.feq p.bankFullFlow (0.0 : ℝ)) = true := by
      rcases h with h | h
      · simp [h]
      · exact absurd h (ne_of_gt hb)
    simp only [hg, if_true]
    realnum
    norm_num

/-- non-vacuity of `FineRange` and of the hypotheses of `nonneg_InstreamFineSediment` (a 20 m × 5 km link) -/
example : FineRange (⟨10, 1e-4, 1e6, 20, 5000, 1e-3, 2, 0.5, 1.5, 0.04, 1e-4, 2e-4, 86400⟩ : InstreamFineSediment.Params ℝ) := by
  constructor <;> simp only [InstreamFineSediment.maxStorage] <;> realnum <;> norm_num

example (p : InstreamFineSediment.Params ℝ) (hr : FineRange p) (hb : ¬ p.bankFullFlow ≤ 1e-8) :
    0 ≤ (InstreamFineSediment.run p (-0.5, 100) [((1 : ℝ), 2, 3, 1000, 12), (0, 0, 0, 0, 0)]).1.1 :=
  (nonneg_InstreamFineSediment p hr (-0.5, 100) _ (by norm_num) (fun h => absurd h hb)
    (List.forall_mem_cons.mpr ⟨by norm_num, List.forall_mem_cons.mpr ⟨by norm_num, fun _ h => absurd h List.not_mem_nil⟩⟩)).1

/-- non-vacuity, branch `fine:remob` (with `fine:noflood`): parameters in `FineRange`; the model's own branch
classifier returns these tags for the step; 950 kg are remobilised (net deposition −950) out of the 1000 kg of the
channel store, uncapped. The budget of `budget_InstreamFineSediment` on these numbers:
`50 + 0 = 900 + (10·10 + 0·10 − 950 + 0)` and `1000 + 50 = 50 + 900 + 10·10`. -/
example :
    FineRange fineRemobParams ∧
    InstreamFineSediment.classify fineRemobParams (InstreamFineSediment.start fineRemobParams (1000, 50))
      (0, 0, 0, 90, 1) = ["fine:noflood", "fine:remob"] ∧
    (InstreamFineSediment.run fineRemobParams (1000, 50) [(0, 0, 0, 90, 1)]).1 = (50, 900) ∧
    (InstreamFineSediment.run fineRemobParams (1000, 50) [(0, 0, 0, 90, 1)]).2.map
      (fun o => (o.loadDownstream, o.loadToFloodplain, o.loadToChannelDeposition, o.flushed)) = [(10, 0, -950, 0)] :=
  ⟨fineRemobParams_range, fine_example_remob⟩

/-- non-vacuity, branch `fine:flood` (with `fine:deposit`): parameters in `FineRange`, outflow 1 above bank-full 0.5;
a POSITIVE floodplain load `50·(1 − e⁻¹)` kg/s (Δt = 10 s), channel deposition `400 + 500·e⁻¹` kg, 1 kg/s downstream,
90 kg stay: `1000 + 0 = 90 + (1·10 + 50(1 − e⁻¹)·10 + 400 + 500e⁻¹ + 0)`. -/
example :
    FineRange fineFloodParams ∧
    InstreamFineSediment.classify fineFloodParams (InstreamFineSediment.start fineFloodParams (0, 1000))
      (0, 0, 0, 90, 1) = ["fine:flood", "fine:deposit"] ∧
    (InstreamFineSediment.run fineFloodParams (0, 1000) [(0, 0, 0, 90, 1)]).1 = (400 + 500 * Real.exp (-1), 90) ∧
    (InstreamFineSediment.run fineFloodParams (0, 1000) [(0, 0, 0, 90, 1)]).2.map
      (fun o => (o.loadDownstream, o.loadToFloodplain, o.loadToChannelDeposition, o.flushed)) =
        [(1, 50 * (1 - Real.exp (-1)), 400 + 500 * Real.exp (-1), 0)] ∧
    0 < 50 * (1 - Real.exp (-1)) :=
  ⟨fineFloodParams_range, fine_example_flood⟩

/-- non-vacuity of `divisors_branch_InstreamFineSediment`: the flood example is on the main path and takes the dividing
branch of the floodplain formula (guard false), so its two divisors are positive; the remobilisation example
(outflow 1 ≤ bank-full 2) takes the guarded branch and deposits exactly 0 on the floodplain -/
example : 0 < (1 : ℝ) ∧ 0 < 1 - fineFloodParams.bankFullFlow :=
  (divisors_branch_InstreamFineSediment fineFloodParams (by simp only [fineFloodParams]; norm_num) 1 1000).1
    (by simp only [fineFloodParams]; norm_num)
example : InstreamFineSediment.floodPlainDepositionEmperical 1 50 fineRemobParams.bankFullFlow
    fineRemobParams.fineSedSettVelocityFlood fineRemobParams.floodPlainArea = 0 :=
  (divisors_branch_InstreamFineSediment fineRemobParams (by simp only [fineRemobParams]; norm_num) 1 50).2
    (Or.inl (by simp only [fineRemobParams]; norm_num))

/-! ## InstreamParticulateNutrient (state: instreamStoredMass, channelStoredMass) -/

open InstreamParticulateNutrient (In) in
/-- **budget_InstreamParticulateNutrient.** Hypothesis: Δt ≠ 0 (divisor of `loadToFloodplain`); the concentration
divisor is ≥ 0.01 on its branch; `/100` is a literal. Any parameters, stores, inputs (deposition or resuspension,
lateral sediment present or not).
* total: `instream₀ + channel₀ + Σ(upstream + lateral + streambank·concentration)·Δt
          = instream_final + channel_final + Σ(down·Δt + floodplain·Δt + flushed)`
* the channel store moves by the (ghost) bed exchange each step, which is the reported `loadDeposited` on every step
  that is not flushed (on a flushed step the code leaves `loadDeposited` at 0 although the channel store has moved);
  `loadFromStreambank` = streambank erosion × concentration;
* `flushed ≠ 0` only where `outflow·Δt + reachVolume < 0.01`. -/
theorem budget_InstreamParticulateNutrient (pnc spf dt : ℝ) (st : ℝ × ℝ) (xs : List (In ℝ)) (hdt : dt ≠ 0) :
    st.1 + st.2 + (xs.map fun i => i.incomingMassUpstream * dt + i.incomingMassLateral * dt +
        i.streamBankErosion * pnc * dt).sum =
      (InstreamParticulateNutrient.run pnc spf dt st xs).1.1 + (InstreamParticulateNutrient.run pnc spf dt st xs).1.2 +
        ((InstreamParticulateNutrient.run pnc spf dt st xs).2.map fun o =>
          o.loadDownstream * dt + o.loadToFloodplain * dt + o.flushed).sum ∧
    st.2 + ((InstreamParticulateNutrient.run pnc spf dt st xs).2.map fun o => o.bedExchange).sum =
      (InstreamParticulateNutrient.run pnc spf dt st xs).1.2 ∧
    List.Forall₂ (fun i o =>
        (o.flushed ≠ 0 → i.outflow * dt + i.reachVolume < 0.01) ∧
        (¬ i.outflow * dt + i.reachVolume < 0.01 → o.loadDeposited = o.bedExchange) ∧
        o.loadFromStreambank = i.streamBankErosion * pnc) xs
      (InstreamParticulateNutrient.run pnc spf dt st xs).2 := by
  unfold InstreamParticulateNutrient.run
  have h1 := scan_budget (InstreamParticulateNutrient.step pnc spf dt) (fun _ => True) (fun _ => True)
    (fun s => s.1 + s.2)
    (fun i => i.incomingMassUpstream * dt + i.incomingMassLateral * dt + i.streamBankErosion * pnc * dt)
    (fun o => o.loadDownstream * dt + o.loadToFloodplain * dt + o.flushed)
    (fun i o => (o.flushed ≠ 0 → i.outflow * dt + i.reachVolume < 0.01) ∧
        (¬ i.outflow * dt + i.reachVolume < 0.01 → o.loadDeposited = o.bedExchange) ∧
        o.loadFromStreambank = i.streamBankErosion * pnc)
    (by
      rintro ⟨s, cs⟩ i _ _
      obtain ⟨a, _, c, d, e, _⟩ := pn_step pnc spf dt s cs i hdt
      exact ⟨trivial, by rw [c] at a; exact a, d, e, c⟩)
    xs st trivial (fun _ _ => trivial)
  have h2 := scan_budget (InstreamParticulateNutrient.step pnc spf dt) (fun _ => True) (fun _ => True)
    (fun s => -s.2) (fun _ => 0) (fun o => o.bedExchange) (fun _ _ => True)
    (by
      rintro ⟨s, cs⟩ i _ _
      obtain ⟨_, b, _⟩ := pn_step pnc spf dt s cs i hdt
      exact ⟨trivial, by rw [b]; ring, trivial⟩)
    xs st trivial (fun _ _ => trivial)
  refine ⟨h1.2.1, ?_, h1.2.2⟩
  have hz : (xs.map fun _ : In ℝ => (0 : ℝ)).sum = 0 := by
    induction xs with
    | nil => simp
    | cons _ _ ih => simp
  have := h2.2.1
  rw [hz] at this
  linarith

open InstreamParticulateNutrient (In) in
/-- **nonneg_InstreamParticulateNutrient.** Δt > 0, concentration ≥ 0, `0 ≤ soilPercentFine ≤ 100`, non-negative
in-stream store, loads, streambank erosion, flow and volume (the two deposition-fraction signals and the lateral
sediment flag are arbitrary: the code clips the first, a negative second means resuspension) ⇒ the in-stream store,
the downstream load, the floodplain load, the streambank load and the flushed amount are non-negative. (The nutrient
CHANNEL store is not claimed non-negative: resuspension is a fraction of the mass in transport, not limited by that
store — the property's "remobilisation ≤ store" is about the fine-sediment channel store.) -/
theorem nonneg_InstreamParticulateNutrient (pnc spf dt : ℝ) (st : ℝ × ℝ) (xs : List (In ℝ))
    (hdt : 0 < dt) (hpnc : 0 ≤ pnc) (hspf0 : 0 ≤ spf) (hspf1 : spf ≤ 100) (hs : 0 ≤ st.1)
    (hx : ∀ i ∈ xs, 0 ≤ i.incomingMassUpstream ∧ 0 ≤ i.incomingMassLateral ∧ 0 ≤ i.streamBankErosion ∧
      0 ≤ i.outflow ∧ 0 ≤ i.reachVolume) :
    0 ≤ (InstreamParticulateNutrient.run pnc spf dt st xs).1.1 ∧
    ∀ o ∈ (InstreamParticulateNutrient.run pnc spf dt st xs).2,
      0 ≤ o.loadDownstream ∧ 0 ≤ o.loadToFloodplain ∧ 0 ≤ o.loadFromStreambank ∧ 0 ≤ o.flushed := by
  unfold InstreamParticulateNutrient.run
  have h := scan_budget (InstreamParticulateNutrient.step pnc spf dt) (fun s => 0 ≤ s.1)
    (fun i => 0 ≤ i.incomingMassUpstream ∧ 0 ≤ i.incomingMassLateral ∧ 0 ≤ i.streamBankErosion ∧
      0 ≤ i.outflow ∧ 0 ≤ i.reachVolume) (fun _ => 0) (fun _ => 0) (fun _ => 0)
    (fun _ o => 0 ≤ o.loadDownstream ∧ 0 ≤ o.loadToFloodplain ∧ 0 ≤ o.loadFromStreambank ∧ 0 ≤ o.flushed)
    (by
      rintro ⟨s, cs⟩ i hs ⟨a, b, c, d, e⟩
      obtain ⟨_, _, _, _, _, n⟩ := pn_step pnc spf dt s cs i (ne_of_gt hdt)
      obtain ⟨n1, n2, n3, n4, n5⟩ := n hdt hpnc hspf0 hspf1 hs a b c d e
      exact ⟨n1, by simp, n2, n3, n4, n5⟩)
    xs st hs hx
  exact ⟨h.1, forall₂_imp_forall_right
    (P := fun (o : InstreamParticulateNutrient.Out ℝ) =>
      0 ≤ o.loadDownstream ∧ 0 ≤ o.loadToFloodplain ∧ 0 ≤ o.loadFromStreambank ∧ 0 ≤ o.flushed)
    (fun _ _ h => h) h.2.2⟩

open InstreamParticulateNutrient (In) in
/-- **loadDeposited is not reported on flushed steps** (an OBSERVATION on the code, outside the property text — the
budget above is over the two stores and closes; recorded in DESIGN §0.4). On every step of every run whose working
volume is below MINIMUM_VOLUME (`outflow·Δt + reachVolume < 0.01`) the reported `loadDeposited` is 0 (the code
`continue`s before `loadDeposited.Set`) and the in-stream store is emptied, while — second clause of
`budget_InstreamParticulateNutrient` — the channel store has moved by the ghost `bedExchange` of that step, which
need not be 0 (example below: 5 kg deposited, 0 reported). Hence `Σ loadDeposited` reconstructs the channel store only
over the non-flushed steps. No hypothesis (no division is involved in these clauses). -/
theorem loadDeposited_unreported_on_flush_InstreamParticulateNutrient (pnc spf dt : ℝ) (st : ℝ × ℝ) (xs : List (In ℝ)) :
    List.Forall₂ (fun (sx : (ℝ × ℝ) × In ℝ) o =>
        sx.2.outflow * dt + sx.2.reachVolume < 0.01 →
          o.loadDeposited = 0 ∧ o.loadDownstream = 0 ∧
          (InstreamParticulateNutrient.step pnc spf dt sx.1 sx.2).1 = (0, sx.1.2 + o.bedExchange))
      ((preStates (InstreamParticulateNutrient.step pnc spf dt) st xs).zip xs)
      (InstreamParticulateNutrient.run pnc spf dt st xs).2 := by
  unfold InstreamParticulateNutrient.run
  refine scan_state_rel (InstreamParticulateNutrient.step pnc spf dt) (fun _ => True) (fun _ => True)
    (fun s i o => i.outflow * dt + i.reachVolume < 0.01 →
      o.loadDeposited = 0 ∧ o.loadDownstream = 0 ∧
      (InstreamParticulateNutrient.step pnc spf dt s i).1 = (0, s.2 + o.bedExchange))
    ?_ xs st trivial (fun _ _ => trivial)
  rintro ⟨s, cs⟩ ⟨up, lat, vol, q, sbe, ls, fdf, cdf⟩ _ _
  refine ⟨trivial, fun hlow => ?_⟩
  simp only [] at hlow
  unfold InstreamParticulateNutrient.step
  simp only []
  realnum
  generalize InstreamParticulateNutrient.forDeposition s (up * dt) (lat * dt) ls +
    sbe * pnc * dt * (spf / 100) = fd
  generalize min (max fdf (0.0 : ℝ)) (1.0 : ℝ) = fpf
  have be2 := (pn_bedExchange_facts cdf fd (fpf * fd) cs).1
  generalize InstreamParticulateNutrient.bedExchange cdf fd (fpf * fd) cs = be at be2 ⊢
  obtain ⟨bex, csn⟩ := be
  simp only [] at be2 ⊢
  split_ifs with h
  · realnum
    have h0 : ((0.0 : ℝ)) = 0 := by norm_num
    rw [h0, be2]
    exact ⟨trivial, rfl, rfl⟩
  · simp only [LumpedConstituent.minimumVolume] at h
    realnum
    exact absurd hlow h

/-- the witness: a dry step (no flow, no volume) with 10 kg in the water and a channel deposition fraction of 0.5:
the channel store goes from 0 to 5 kg, `loadDeposited` reports 0, the other 5 kg are dropped (ghost `flushed`) -/
example :
    (InstreamParticulateNutrient.run 0 0 10 (10, 0) [⟨(0 : ℝ), 0, 0, 0, 0, 0, 0, 0.5⟩]).1 = (0, 5) ∧
    ((InstreamParticulateNutrient.run 0 0 10 (10, 0) [⟨(0 : ℝ), 0, 0, 0, 0, 0, 0, 0.5⟩]).2.map
      fun o => (o.loadDeposited, o.bedExchange, o.flushed)) = [(0, 5, 5)] := by
  simp only [InstreamParticulateNutrient.run, scan, InstreamParticulateNutrient.step,
    InstreamParticulateNutrient.forDeposition, InstreamParticulateNutrient.bedExchange,
    LumpedConstituent.minimumVolume]
  realnum
  norm_num

example : 0 ≤ (InstreamParticulateNutrient.run 0.001 40 86400 (5, 0)
    [⟨(1 : ℝ), 2, 1000, 3, 10, 1, 0.2, 0.1⟩, ⟨0, 0, 0, 0, 0, 0, 0, -0.5⟩]).1.1 :=
  (nonneg_InstreamParticulateNutrient 0.001 40 86400 (5, 0) _ (by norm_num) (by norm_num) (by norm_num) (by norm_num)
    (by norm_num) (List.forall_mem_cons.mpr ⟨by norm_num, List.forall_mem_cons.mpr ⟨by norm_num, fun _ h => absurd h List.not_mem_nil⟩⟩)).1

/-! ## StorageParticulateTrapping (inputs: inflowLoad, inflow, outflow, storage) -/

open StorageParticulateTrapping (Params) in
/-- **budget_StorageParticulateTrapping / nonneg_StorageParticulateTrapping.** Hypotheses: Δt ≥ 0, non-negative
initial store, inflow load, outflow and volume (they are needed for the budget too: the code clips the new store at 0,
which is inactive exactly because the released mass never exceeds the stored mass). Any trapping parameters — the
trapping efficiency is clipped to [0,100] %. There is no flush branch in this model (an empty storage releases
nothing and keeps its mass): `stored₀ + Σ in·Δt = stored_final + Σ(trapped + out·Δt)` with no other term; the store
stays non-negative, `0 ≤ trapped ≤ in·Δt`, `0 ≤ out`. -/
theorem budget_StorageParticulateTrapping (p : Params ℝ) (s0 : ℝ) (xs : List (ℝ × ℝ × ℝ × ℝ))
    (hdt : 0 ≤ p.deltaT) (hs : 0 ≤ s0) (hx : ∀ x ∈ xs, 0 ≤ x.1 ∧ 0 ≤ x.2.2.1 ∧ 0 ≤ x.2.2.2) :
    0 ≤ (StorageParticulateTrapping.run p s0 xs).1 ∧
    s0 + (xs.map fun x => x.1 * p.deltaT).sum =
      (StorageParticulateTrapping.run p s0 xs).1 +
        ((StorageParticulateTrapping.run p s0 xs).2.map fun o => o.trappedMass + o.outflowLoad * p.deltaT).sum ∧
    List.Forall₂ (fun x o => 0 ≤ o.trappedMass ∧ o.trappedMass ≤ x.1 * p.deltaT ∧ 0 ≤ o.outflowLoad) xs
      (StorageParticulateTrapping.run p s0 xs).2 :=
  trapping_run p s0 xs hdt hs hx

open StorageParticulateTrapping (Params) in
/-- the divisor of the sedimentation index is positive on the branch that divides by it, for a positive
length/discharge factor; the working-volume divisor is positive on its branch by the branch condition itself -/
theorem divisors_pos_StorageParticulateTrapping (p : Params ℝ) (qi : ℝ) (hldf : 0 < p.lengthDischargeFactor)
    (hlen : 0 < p.reservoirLength) (hq : 0 < qi) :
    0 < p.lengthDischargeFactor * p.reservoirLength * qi ^ (2.0 : ℝ) :=
  trapping_divisor_pos p qi hldf hlen hq

example : 0 ≤ (StorageParticulateTrapping.run ⟨86400, 1e8, 1e4, 112, 800, 3.28, -0.2⟩ 5
    [((1 : ℝ), 100, 3, 1000), (0, 0, 0, 0)]).1 :=
  (budget_StorageParticulateTrapping ⟨86400, 1e8, 1e4, 112, 800, 3.28, -0.2⟩ 5 _ (by norm_num) (by norm_num)
    (List.forall_mem_cons.mpr ⟨by norm_num, List.forall_mem_cons.mpr ⟨by norm_num, fun _ h => absurd h List.not_mem_nil⟩⟩)).1

/-! ## StorageTrapAll -/

/-- **budget_StorageTrapAll** (on the adapter `StorageTrapAll.model.run`: the outputs and the FINAL STORE are read
from the model's result, nothing is a literal of the statement). The model carries NO Δt: the trapped series is the
inflow-mass series with the initial store added to its first element, so the budget is in the units of the
inflow-mass series. For EVERY inflow-mass series — the empty one included — every other input series (never read,
any lengths) and every initial store, the run succeeds (no error class) and returns two output series `trapped`,
`out` and one state `sf` with
* `Σ inflowMass + stored₀ = Σ trapped + sf`, `out` (the downstream load) identically 0, both of the length of the
  inflow-mass series;
* non-empty series: `sf = 0` (everything held is released into `trapped[0]`);
* empty series: `sf = stored₀`, both outputs empty (the repaired code — fixes/trapall-empty-series.diff, /repo ab1fdc8 —
  returns the stored mass unchanged; the pinned code indexed element 0 of an empty array);
* non-negative store and inflow masses ⇒ `trapped` and `sf` non-negative. -/
theorem budget_StorageTrapAll_model (inflowMass inflow outflow volume : List ℝ) (s0 : ℝ) :
    ∃ (r : KOut ℝ) (trapped out : List ℝ) (sf : ℝ),
      (StorageTrapAll.model (α := ℝ)).run [] [inflowMass, inflow, outflow, volume] [s0] = .ok r ∧
      r.outputs = [trapped, out] ∧ r.states = [sf] ∧
      inflowMass.sum + s0 = trapped.sum + sf ∧
      (∀ y ∈ out, y = 0) ∧ trapped.length = inflowMass.length ∧ out.length = inflowMass.length ∧
      (inflowMass ≠ [] → sf = 0) ∧
      (inflowMass = [] → sf = s0 ∧ trapped = [] ∧ out = []) ∧
      (0 ≤ s0 → (∀ x ∈ inflowMass, 0 ≤ x) → 0 ≤ sf ∧ ∀ y ∈ trapped, 0 ≤ y) := by
  cases inflowMass with
  | nil =>
    exact ⟨_, [], [], s0, rfl, rfl, rfl, by simp, by simp, rfl, rfl, fun h => absurd rfl h,
      fun _ => ⟨rfl, rfl, rfl⟩, fun hs _ => ⟨hs, by simp⟩⟩
  | cons x xs =>
    refine ⟨{ outputs := [(x + s0) :: xs, zeros (xs.length + 1)], states := [0], tags := ["trapall"] },
      (x + s0) :: xs, zeros (xs.length + 1), 0, ?_, rfl, rfl, ?_, ?_, by simp, by simp [zeros],
      fun _ => rfl, fun h => absurd h (List.cons_ne_nil _ _), fun hs hx => ⟨le_refl _, ?_⟩⟩
    · simp only [StorageTrapAll.model, StorageTrapAll.trapped, List.length_cons]
      realnum
      norm_num
    · simp only [List.sum_cons]; ring
    · intro y hy
      simp only [zeros, List.mem_replicate] at hy
      rw [hy.2]; rfl
    · intro y hy
      rcases List.mem_cons.mp hy with rfl | hy
      · have := hx x (List.mem_cons_self ..); linarith
      · exact hx y (List.mem_cons_of_mem _ hy)

/-- **budget_StorageTrapAll** (on the kernel function `trapped`; `budget_StorageTrapAll_model` is the statement on the
model's run, which also reads the final store from the model). `trapped` returns `some t` exactly on a non-empty
series: `Σ inflow + stored₀ = Σ t` (the `+ 0` is the final store of that case, see `budget_StorageTrapAll_model`),
`t` as long as the inflow series. On the empty series `trapped` is `none` and the model — as the repaired code —
returns the stored mass unchanged with empty outputs (it does NOT panic). -/
theorem budget_StorageTrapAll (inflow : List ℝ) (s0 : ℝ) (t : List ℝ)
    (h : StorageTrapAll.trapped inflow s0 = some t) :
    inflow.sum + s0 = t.sum + 0 ∧ t.length = inflow.length :=
  trapAll_budget inflow s0 t h

/-- **nonneg_StorageTrapAll.** -/
theorem nonneg_StorageTrapAll (inflow : List ℝ) (s0 : ℝ) (t : List ℝ)
    (h : StorageTrapAll.trapped inflow s0 = some t) (hs : 0 ≤ s0) (hx : ∀ x ∈ inflow, 0 ≤ x) : ∀ y ∈ t, 0 ≤ y :=
  trapAll_nonneg inflow s0 t h hs hx

example : StorageTrapAll.trapped [(1 : ℝ), 2, 3] 10 = some [11, 2, 3] := by
  simp only [StorageTrapAll.trapped]; realnum; norm_num
example : StorageTrapAll.trapped ([] : List ℝ) 10 = none := rfl

/-- non-vacuity on the model's run: a three-step series (the other three input series are not read: here of lengths
0, 1, 2) releases the 10 kg held into the first element and ends with store 0 … -/
example : (StorageTrapAll.model (α := ℝ)).run [] [[1, 2, 3], [], [7], [8, 9]] [10] =
    .ok { outputs := [[11, 2, 3], [0, 0, 0]], states := [0], tags := ["trapall"] } := by
  simp only [StorageTrapAll.model, StorageTrapAll.trapped, zeros, List.length_cons, List.length_nil]
  realnum
  norm_num [List.replicate]
/-- … and the EMPTY series is a successful run that keeps the 10 kg (no error class, both outputs empty) -/
example : (StorageTrapAll.model (α := ℝ)).run [] [[], [], [], []] [10] =
    .ok { outputs := [[], []], states := [10], tags := ["trapall-empty"] } := rfl
/-- a malformed call (three input series) is the error class "arity", not a default value -/
example : (StorageTrapAll.model (α := ℝ)).run [] [[1], [1], [1]] [10] = .error "arity" := rfl

/-! ## StorageDissolvedDecay with decay disabled (`doStorageDecay < 0.5`) -/

/-- **budget_StorageDissolvedDecay.** Hypothesis: `doStorageDecay < 0.5` (decay disabled — the model then is the
lumped routing with no lateral and no point source). Nothing else: any Δt, store, inputs.
`stored₀ + Σ in·Δt = stored_final + Σ(out·Δt + flushed)`, `decayedMass = 0`, `flushed ≠ 0` only below MINIMUM_VOLUME. -/
theorem budget_StorageDissolvedDecay (dt dsd bff mfrt s0 : ℝ) (xs : List (ℝ × ℝ × ℝ × ℝ)) (hoff : dsd < 0.5) :
    s0 + (xs.map fun x => x.1 * dt).sum =
      (StorageDissolvedDecay.run dt dsd bff mfrt s0 xs).1 +
        ((StorageDissolvedDecay.run dt dsd bff mfrt s0 xs).2.map fun o => o.outflowMass * dt + o.flushed).sum ∧
    List.Forall₂ (fun x o => (o.flushed ≠ 0 → x.2.2.1 * dt + x.2.2.2 < 0.01) ∧ o.decayedMass = 0) xs
      (StorageDissolvedDecay.run dt dsd bff mfrt s0 xs).2 := by
  rw [dissolved_run_off dt dsd bff mfrt s0 xs hoff]
  exact dissolvedOff_run dt s0 xs

/-- **nonneg_StorageDissolvedDecay.** -/
theorem nonneg_StorageDissolvedDecay (dt dsd bff mfrt s0 : ℝ) (xs : List (ℝ × ℝ × ℝ × ℝ)) (hoff : dsd < 0.5)
    (hdt : 0 ≤ dt) (hs : 0 ≤ s0) (hx : ∀ x ∈ xs, 0 ≤ x.1 ∧ 0 ≤ x.2.2.1 ∧ 0 ≤ x.2.2.2) :
    0 ≤ (StorageDissolvedDecay.run dt dsd bff mfrt s0 xs).1 ∧
    ∀ o ∈ (StorageDissolvedDecay.run dt dsd bff mfrt s0 xs).2, 0 ≤ o.outflowMass ∧ 0 ≤ o.flushed := by
  rw [dissolved_run_off dt dsd bff mfrt s0 xs hoff]
  exact dissolvedOff_run_nonneg dt s0 xs hdt hs hx

example : 0 ≤ (StorageDissolvedDecay.run 86400 0 1 10 3 [((1 : ℝ), 9, 0.5, 1000), (0, 0, 0, 0)]).1 :=
  (nonneg_StorageDissolvedDecay 86400 0 1 10 3 _ (by norm_num) (by norm_num) (by norm_num)
    (List.forall_mem_cons.mpr ⟨by norm_num, List.forall_mem_cons.mpr ⟨by norm_num, fun _ h => absurd h List.not_mem_nil⟩⟩)).1

end OW.Props.C12
